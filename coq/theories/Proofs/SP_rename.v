(** C01: facts about [rename_dups] (= rename_duplicate_nodes of fggs/sum_product.py), [put]
    and [dedup], used by the proof that [spe] computes [rule_val]. *)
From Coq Require Import List Arith Bool PeanoNat Lia Permutation.
Import ListNotations.
Require Import Fggs.Model.Semiring Fggs.Model.SCC Fggs.Model.SumProduct.
Require Import Fggs.Proofs.SCC_ntgraph Fggs.Proofs.BigSum Fggs.Proofs.SP_trees Fggs.Proofs.SP_code.

(** * [rename_dups] *)
Lemma rename_dups_cons n rest seen fresh :
  rename_dups (n :: rest) seen fresh =
  if mem seen n
  then let '(e', ps) := rename_dups rest (seen ++ [fresh]) (S fresh) in (fresh :: e', (n, fresh) :: ps)
  else let '(e', ps) := rename_dups rest (seen ++ [n]) fresh in (n :: e', ps).
Proof. reflexivity. Qed.

Lemma not_mem_In l x : mem l x = false <-> ~ In x l.
Proof. rewrite <- mem_In. destruct (mem l x); split; congruence. Qed.

(** structure of the result: [ext'] has the same length, consists of first occurrences and
    fresh copies; every pair ties an already seen (or kept) original to a fresh copy in [ext'] *)
Lemma rd_struct n0 : forall ext seen fresh ext' pairs,
  rename_dups ext seen fresh = (ext', pairs) ->
  (forall u, In u ext -> u < n0) -> n0 <= fresh -> (forall u, In u seen -> u < fresh) ->
  length ext' = length ext
  /\ (forall u, In u ext' -> (In u ext /\ ~ In u seen) \/ (fresh <= u < fresh + length pairs))
  /\ (forall u, In u ext -> In u ext' \/ In u seen)
  /\ (forall p, In p pairs -> In (fst p) ext /\ (In (fst p) seen \/ In (fst p) ext')
                              /\ In (snd p) ext' /\ fresh <= snd p < fresh + length pairs).
Proof.
  induction ext as [|n rest IH]; intros seen fresh ext' pairs E Hext Hn0 Hseen.
  - cbn in E. injection E as <- <-.
    split; [reflexivity|]. split; [intros u []|]. split; [intros u []|intros p []].
  - rewrite rename_dups_cons in E. destruct (mem seen n) eqn:Hm.
    + apply mem_In in Hm.
      destruct (rename_dups rest (seen ++ [fresh]) (S fresh)) as [e' ps] eqn:E'. injection E as <- <-.
      destruct (IH _ _ _ _ E') as (Hl & H1 & H2 & H3).
      { intros u Hu. apply Hext. now right. } { lia. }
      { intros u Hu. apply in_app_iff in Hu. destruct Hu as [Hu|[<-|[]]]; [specialize (Hseen u Hu)|]; lia. }
      split; [cbn [length]; now rewrite Hl|]. split; [|split].
      * intros u [<-|Hu]; [right; cbn [length]; lia|].
        destruct (H1 u Hu) as [[Hr Hs]|Hr]; [left|right; cbn [length]; lia].
        split; [now right|]. intros H. apply Hs. apply in_app_iff. now left.
      * intros u [<-|Hu]; [now right|]. destruct (H2 u Hu) as [H|H]; [left; now right|].
        apply in_app_iff in H. destruct H as [H|[<-|[]]]; [now right|].
        assert (fresh < n0) by (apply Hext; now right). lia.
      * intros p [<-|Hp]; cbn [fst snd length].
        -- repeat split; [now left|now left|now left|lia|lia].
        -- destruct (H3 p Hp) as (Ha & Hb & Hc & Hd). split; [now right|]. split; [|split; [now right|lia]].
           destruct Hb as [Hb|Hb]; [|right; now right].
           apply in_app_iff in Hb. destruct Hb as [Hb|[Hb|[]]]; [now left|].
           assert (fst p < n0) by (apply Hext; now right). lia.
    + apply not_mem_In in Hm.
      destruct (rename_dups rest (seen ++ [n]) fresh) as [e' ps] eqn:E'. injection E as <- <-.
      assert (Hn : n < n0) by (apply Hext; now left).
      destruct (IH _ _ _ _ E') as (Hl & H1 & H2 & H3).
      { intros u Hu. apply Hext. now right. } { lia. }
      { intros u Hu. apply in_app_iff in Hu. destruct Hu as [Hu|[<-|[]]]; [now apply Hseen|lia]. }
      split; [cbn [length]; now rewrite Hl|]. split; [|split].
      * intros u [<-|Hu]; [left; split; [now left|exact Hm]|].
        destruct (H1 u Hu) as [[Hr Hs]|Hr]; [left|now right].
        split; [now right|]. intros H. apply Hs. apply in_app_iff. now left.
      * intros u [<-|Hu]; [left; now left|]. destruct (H2 u Hu) as [H|H]; [left; now right|].
        apply in_app_iff in H. destruct H as [H|[<-|[]]]; [now right|left; now left].
      * intros p Hp. destruct (H3 p Hp) as (Ha & Hb & Hc & Hd). split; [now right|]. split; [|split; [now right|lia]].
        destruct Hb as [Hb|Hb]; [|right; now right].
        apply in_app_iff in Hb. destruct Hb as [Hb|[Hb|[]]]; [now left|right; now left].
Qed.

(** writing [xi] at the positions [ext'] leaves the coordinates already seen untouched *)
Lemma rd_put n0 : forall ext seen fresh ext' pairs xi b,
  rename_dups ext seen fresh = (ext', pairs) ->
  (forall u, In u ext -> u < n0) -> n0 <= fresh -> (forall u, In u seen -> u < fresh) ->
  fresh + length pairs <= length b ->
  length (put ext' xi b) = length b /\ (forall u, In u seen -> nth u (put ext' xi b) 0 = nth u b 0).
Proof.
  induction ext as [|n rest IH]; intros seen fresh ext' pairs xi b E Hext Hn0 Hseen Hb.
  - cbn in E. injection E as <- <-. rewrite put_nil_l. now split.
  - rewrite rename_dups_cons in E. destruct (mem seen n) eqn:Hm.
    + destruct (rename_dups rest (seen ++ [fresh]) (S fresh)) as [e' ps] eqn:E'. injection E as <- <-.
      destruct xi as [|x xs]; [rewrite put_nil_r; now split|].
      cbn [length] in Hb. rewrite put_cons.
      assert (Hf : fresh < length b) by lia.
      destruct (IH _ _ _ _ xs (lupd fresh x b) E') as [Hl Hs].
      { intros u Hu. apply Hext. now right. } { lia. }
      { intros u Hu. apply in_app_iff in Hu. destruct Hu as [Hu|[<-|[]]]; [specialize (Hseen u Hu)|]; lia. }
      { rewrite lupd_length by exact Hf. lia. }
      rewrite lupd_length in Hl by exact Hf. split; trivial.
      intros u Hu. rewrite Hs by (apply in_app_iff; now left).
      apply lupd_nth_other; trivial. specialize (Hseen u Hu). lia.
    + apply not_mem_In in Hm.
      destruct (rename_dups rest (seen ++ [n]) fresh) as [e' ps] eqn:E'. injection E as <- <-.
      destruct xi as [|x xs]; [rewrite put_nil_r; now split|].
      rewrite put_cons. assert (Hn : n < n0) by (apply Hext; now left).
      assert (Hf : n < length b) by lia.
      destruct (IH _ _ _ _ xs (lupd n x b) E') as [Hl Hs].
      { intros u Hu. apply Hext. now right. } { lia. }
      { intros u Hu. apply in_app_iff in Hu. destruct Hu as [Hu|[<-|[]]]; [now apply Hseen|lia]. }
      { rewrite lupd_length by exact Hf. lia. }
      rewrite lupd_length in Hl by exact Hf. split; trivial.
      intros u Hu. rewrite Hs by (apply in_app_iff; now left).
      apply lupd_nth_other; trivial. intros ->. now apply Hm.
Qed.

(** if [xi] is the restriction of some assignment to [ext] (i.e. it is consistent on repeated
    externals), then the base built from [ext'] restricts to [xi] as well *)
Lemma rd_consistent n0 : forall ext seen fresh ext' pairs b a,
  rename_dups ext seen fresh = (ext', pairs) ->
  (forall u, In u ext -> u < n0) -> n0 <= fresh -> (forall u, In u seen -> u < fresh) ->
  fresh + length pairs <= length b ->
  (forall u, In u seen -> u < n0 -> nth u a 0 = nth u b 0) ->
  sel (put ext' (sel a ext) b) ext = sel a ext.
Proof.
  induction ext as [|n rest IH]; intros seen fresh ext' pairs b a E Hext Hn0 Hseen Hb Hag; [reflexivity|].
  rewrite rename_dups_cons in E. cbn [sel map]. fold (sel a rest).
  assert (Hn : n < n0) by (apply Hext; now left).
  destruct (mem seen n) eqn:Hm.
  + apply mem_In in Hm.
    destruct (rename_dups rest (seen ++ [fresh]) (S fresh)) as [e' ps] eqn:E'. injection E as <- <-.
    cbn [length] in Hb. rewrite put_cons. assert (Hf : fresh < length b) by lia.
    assert (H1 : forall u, In u rest -> u < n0) by (intros u Hu; apply Hext; now right).
    assert (H2 : forall u, In u (seen ++ [fresh]) -> u < S fresh).
    { intros u Hu. apply in_app_iff in Hu. destruct Hu as [Hu|[<-|[]]]; [specialize (Hseen u Hu)|]; lia. }
    assert (H3 : S fresh + length ps <= length (lupd fresh (nth n a 0) b)) by (rewrite lupd_length by exact Hf; lia).
    f_equal.
    * destruct (rd_put n0 _ _ _ _ _ (sel a rest) (lupd fresh (nth n a 0) b) E') as [_ Hs]; trivial; [lia|].
      rewrite Hs by (apply in_app_iff; now left). rewrite lupd_nth_other by (trivial; lia).
      symmetry. now apply Hag.
    * apply (IH _ _ _ _ _ _ E'); trivial; [lia|].
      intros u Hu Hun. rewrite lupd_nth_other by (trivial; lia).
      apply in_app_iff in Hu. destruct Hu as [Hu|[<-|[]]]; [now apply Hag|lia].
  + apply not_mem_In in Hm.
    destruct (rename_dups rest (seen ++ [n]) fresh) as [e' ps] eqn:E'. injection E as <- <-.
    rewrite put_cons. assert (Hf : n < length b) by lia.
    assert (H1 : forall u, In u rest -> u < n0) by (intros u Hu; apply Hext; now right).
    assert (H2 : forall u, In u (seen ++ [n]) -> u < fresh).
    { intros u Hu. apply in_app_iff in Hu. destruct Hu as [Hu|[<-|[]]]; [now apply Hseen|lia]. }
    assert (H3 : fresh + length ps <= length (lupd n (nth n a 0) b)) by (rewrite lupd_length by exact Hf; lia).
    f_equal.
    * destruct (rd_put n0 _ _ _ _ _ (sel a rest) (lupd n (nth n a 0) b) E') as [_ Hs]; trivial.
      rewrite Hs by (apply in_app_iff; right; now left). now apply lupd_nth_same.
    * apply (IH _ _ _ _ _ _ E'); trivial.
      intros u Hu Hun. rewrite lupd_nth by exact Hf. destruct (Nat.eqb u n) eqn:Eu.
      -- apply Nat.eqb_eq in Eu. now subst.
      -- apply Nat.eqb_neq in Eu. apply in_app_iff in Hu. destruct Hu as [Hu|[Hu|[]]]; [now apply Hag|congruence].
Qed.

(** * [dedup] *)
Lemma fold_add_new_In l : forall acc u, In u (fold_left add_new l acc) <-> In u acc \/ In u l.
Proof.
  induction l as [|w l IH]; intros acc u; cbn [fold_left]; [cbn; tauto|].
  rewrite IH, add_new_In. cbn [In]. intuition congruence.
Qed.
Lemma fold_add_new_NoDup l : forall acc, NoDup acc -> NoDup (fold_left add_new l acc).
Proof.
  induction l as [|w l IH]; intros acc Hacc; cbn [fold_left]; trivial.
  apply IH. unfold add_new. destruct (mem acc w) eqn:Hm; trivial.
  apply not_mem_In in Hm. apply NoDup_app_intro; trivial.
  - constructor; [intros []|constructor].
  - intros x Hx [<-|[]]. now apply Hm.
Qed.
Lemma dedup_In l u : In u (dedup l) <-> In u l.
Proof. unfold dedup. rewrite fold_add_new_In. cbn. tauto. Qed.
Lemma dedup_NoDup l : NoDup (dedup l).
Proof. apply fold_add_new_NoDup. constructor. Qed.

(** * small list facts *)
Lemma nth_firstn_lt {A} (l : list A) n u d : u < n -> nth u (firstn n l) d = nth u l d.
Proof.
  revert n u. induction l as [|x l IH]; intros n u Hu; [now rewrite firstn_nil|].
  destruct n as [|n]; [lia|]. destruct u as [|u]; [reflexivity|]. cbn [firstn nth]. apply IH. lia.
Qed.
Lemma sel_eq_In a a' l : sel a l = sel a' l <-> (forall u, In u l -> nth u a 0 = nth u a' 0).
Proof.
  unfold sel. induction l as [|x l IH]; cbn [map In]; [split; [intros _ ? []|reflexivity]|].
  split.
  - intros E. injection E as E1 E2. intros u [<-|Hu]; trivial. now apply IH.
  - intros H. f_equal; [apply H; now left|]. apply IH. intros u Hu. apply H. now right.
Qed.
Lemma Forall2_map_lt (f g : nat -> nat) l :
  Forall2 (fun x n => x < n) (map f l) (map g l) <-> (forall u, In u l -> f u < g u).
Proof.
  induction l as [|x l IH]; cbn [map In]; [split; [intros _ ? []|constructor]|].
  split.
  - intros H. inversion H; subst. intros u [<-|Hu]; trivial. now apply IH.
  - intros H. constructor; [apply H; now left|]. apply IH. intros u Hu. apply H. now right.
Qed.
