(** Rooted tree decompositions ([rtree], the certificates built by [acb_connected]) and their
    un-rooting into the dict-of-bags representation ([unroot], the [build] closure of [acb]).

    Main results: if the bags of a rooted tree are pairwise different as sets ([sdist]) then
    [unroot] returns exactly the pre-order list of bags with one edge (parent index, child index)
    per tree edge ([unroot_spec]); that edge set is a tree ([tree_redges]); and the rooted form of
    the running-intersection property ([rRI]) implies the index-based one ([rtd_valid]). *)
From Coq Require Import List Arith Bool PeanoNat Lia Permutation Setoid Morphisms.
Import ListNotations.
Require Import Fggs.Model.TreeDec Fggs.Proofs.TreeDec_graph Fggs.Proofs.TreeDec_tdok
               Fggs.Proofs.TreeDec_elim.

(** * induction over rose trees *)
Section RInd.
  Variable P : rtree -> Prop.
  Hypothesis H : forall b cs, Forall P cs -> P (RNode b cs).
  Fixpoint rtree_ind' (t : rtree) : P t :=
    match t with
    | RNode b cs =>
      H b cs ((fix go (cs : list rtree) : Forall P cs :=
                 match cs with
                 | [] => Forall_nil _
                 | c :: cs' => Forall_cons _ (rtree_ind' c) (go cs')
                 end) cs)
    end.
End RInd.

(** * bags and edges in pre-order *)
Fixpoint rbags (t : rtree) : list bag :=
  match t with RNode b cs => b :: flat_map rbags cs end.
Definition fbags (cs : list rtree) : list bag := flat_map rbags cs.
Definition rsize (t : rtree) : nat := length (rbags t).
Definition occ (x : nat) (t : rtree) : Prop := exists b, In b (rbags t) /\ In x b.

Lemma rbags_node b cs : rbags (RNode b cs) = b :: fbags cs.
Proof. reflexivity. Qed.
Lemma fbags_cons c cs : fbags (c :: cs) = rbags c ++ fbags cs.
Proof. reflexivity. Qed.
Lemma rbags_root t : exists l, rbags t = root_bag t :: l.
Proof. destruct t as [b cs]. exists (fbags cs). reflexivity. Qed.
Lemma rsize_pos t : 0 < rsize t.
Proof. destruct t. unfold rsize. cbn. lia. Qed.
Lemma rsize_node b cs : rsize (RNode b cs) = S (length (fbags cs)).
Proof. reflexivity. Qed.

Fixpoint redges (off : nat) (t : rtree) : list (nat * nat) :=
  match t with
  | RNode b cs =>
    (fix go (o : nat) (cs : list rtree) : list (nat * nat) :=
       match cs with
       | [] => []
       | c :: cs' => redges o c ++ (off, o) :: go (o + rsize c) cs'
       end) (S off) cs
  end.
Fixpoint kids_edges (p o : nat) (cs : list rtree) : list (nat * nat) :=
  match cs with
  | [] => []
  | c :: cs' => redges o c ++ (p, o) :: kids_edges p (o + rsize c) cs'
  end.
Lemma redges_eq off b cs : redges off (RNode b cs) = kids_edges off (S off) cs.
Proof.
  simpl. generalize (S off) as o. induction cs as [|c cs IH]; intro o; simpl; [reflexivity|].
  f_equal. f_equal. apply IH.
Qed.

Fixpoint unroot_kids (b : bag) (cs : list rtree) (u : option td) : option td :=
  match cs with
  | [] => u
  | c :: cs' => unroot_kids b cs' (match unroot c u with
                                   | None => None
                                   | Some u2 => t_add_edge u2 b (root_bag c)
                                   end)
  end.
Lemma unroot_eq b cs u :
  unroot (RNode b cs) u = unroot_kids b cs (option_map (fun u => t_add_node u b) u).
Proof.
  simpl. generalize (option_map (fun u0 : td => t_add_node u0 b) u) as u0.
  induction cs as [|c cs IH]; intro u0; simpl; [reflexivity|]. apply IH.
Qed.

(** * pairwise different bags *)
Fixpoint sdist (l : list bag) : Prop :=
  match l with
  | [] => True
  | b :: l' => (forall c, In c l' -> set_eqb b c = false) /\ sdist l'
  end.
Lemma set_eqb_sym a b : set_eqb a b = set_eqb b a.
Proof. unfold set_eqb. apply andb_comm. Qed.
Lemma sdist_app l1 l2 :
  sdist (l1 ++ l2) <-> sdist l1 /\ sdist l2 /\ (forall a b, In a l1 -> In b l2 -> set_eqb a b = false).
Proof.
  induction l1 as [|x l1 IH]; cbn [app sdist].
  - split; [intro H; repeat split; auto; intros a b []|tauto].
  - rewrite IH. split.
    + intros [H1 [H2 [H3 H4]]]. repeat split; auto.
      * intros c Hc. apply H1. apply in_or_app. auto.
      * intros a b [<-|Ha] Hb; [apply H1, in_or_app; auto|auto].
    + intros [[H1 H2] [H3 H4]]. repeat split; auto.
      * intros c Hc. apply in_app_or in Hc. destruct Hc; [auto|apply H4; cbn; auto].
      * intros a b Ha Hb. apply H4; cbn; auto.
Qed.

Lemma bag_index_mid (bs l : list bag) (b : bag) :
  (forall c, In c bs -> set_eqb c b = false) -> bag_index (bs ++ b :: l) b = Some (length bs).
Proof.
  induction bs as [|c bs IH]; cbn; intro H.
  - now rewrite set_eqb_refl.
  - rewrite (H c) by auto. rewrite IH by auto. reflexivity.
Qed.

Lemma has_edge_false2 es i j :
  (forall a b, In (a, b) es -> ~ (a = i /\ b = j) /\ ~ (a = j /\ b = i)) -> has_edge es i j = false.
Proof.
  intro H. unfold has_edge. apply not_true_is_false. intro E. apply existsb_exists in E.
  destruct E as [[a b] [Hab E]]. cbn in E. destruct (H a b Hab) as [H1 H2].
  apply orb_true_iff in E. destruct E as [E|E]; apply andb_true_iff in E; destruct E as [E1 E2];
    apply Nat.eqb_eq in E1, E2; tauto.
Qed.

(** * shape of the edges *)
Definition redges_ok (t : rtree) : Prop :=
  forall off a b, In (a, b) (redges off t) -> off <= a /\ a < b /\ b < off + rsize t.
Lemma kids_edges_bounds cs : Forall redges_ok cs ->
  forall p o a b, p < o -> In (a, b) (kids_edges p o cs) ->
    (a = p \/ o <= a) /\ a < b /\ o <= b /\ b < o + length (fbags cs).
Proof.
  induction 1 as [|c cs Hc Hcs IH]; intros p o a b Hpo Hab; [destruct Hab|].
  cbn [kids_edges] in Hab. rewrite fbags_cons, app_length. fold (rsize c).
  pose proof (rsize_pos c) as Hpos.
  apply in_app_or in Hab. destruct Hab as [Hab|[Hab|Hab]].
  - apply Hc in Hab. lia.
  - inversion Hab; subst. lia.
  - apply IH in Hab; [|lia]. lia.
Qed.
Lemma redges_bounds t : redges_ok t.
Proof.
  induction t as [b cs IH] using rtree_ind'. intros off a b0 Hab.
  rewrite redges_eq in Hab. apply (kids_edges_bounds cs IH) in Hab; [|lia].
  rewrite rsize_node. lia.
Qed.

(** * [unroot] on trees with pairwise different bags *)
Definition edges_lt (es : list (nat * nat)) (n : nat) : Prop :=
  forall a b, In (a, b) es -> a < n /\ b < n.
Definition unroot_ok (t : rtree) : Prop :=
  forall bs es, sdist (bs ++ rbags t) -> edges_lt es (length bs) ->
    unroot t (Some (bs, es)) = Some (bs ++ rbags t, es ++ redges (length bs) t).

Lemma unroot_kids_spec (b : bag) cs : Forall unroot_ok cs ->
  forall bs es p, bag_index bs b = Some p -> p < length bs ->
    sdist (bs ++ fbags cs) -> edges_lt es (length bs) ->
    unroot_kids b cs (Some (bs, es)) = Some (bs ++ fbags cs, es ++ kids_edges p (length bs) cs).
Proof.
  induction 1 as [|c cs Hc Hcs IH]; intros bs es p Hp Hlt Hd He.
  - cbn. now rewrite !app_nil_r.
  - cbn [unroot_kids kids_edges]. rewrite fbags_cons in Hd |- *.
    assert (Hd1 : sdist (bs ++ rbags c)).
    { rewrite app_assoc in Hd. apply sdist_app in Hd. tauto. }
    rewrite (Hc bs es Hd1 He).
    destruct (rbags_root c) as [l Hl].
    assert (Hfresh : forall x, In x bs -> set_eqb x (root_bag c) = false).
    { intros x Hx. apply sdist_app in Hd1. destruct Hd1 as [_ [_ H3]]. apply H3; auto.
      rewrite Hl. cbn; auto. }
    unfold t_add_edge. cbn [fst snd].
    rewrite (bag_index_app_some bs (rbags c) b p Hp).
    rewrite Hl at 1. rewrite (bag_index_mid bs l (root_bag c) Hfresh).
    rewrite has_edge_false2.
    2:{ intros a b0 Hab. apply in_app_or in Hab. destruct Hab as [Hab|Hab].
        - apply He in Hab. lia.
        - apply redges_bounds in Hab. lia. }
    cbn [fst snd].
    transitivity (Some ((bs ++ rbags c) ++ fbags cs,
                        ((es ++ redges (length bs) c) ++ [(p, length bs)]) ++
                        kids_edges p (length (bs ++ rbags c)) cs)); [apply IH|].
    5:{ rewrite app_length. fold (rsize c). f_equal. f_equal.
      * now rewrite app_assoc.
      * rewrite <- !app_assoc. reflexivity. }
    + now apply bag_index_app_some.
    + rewrite app_length. lia.
    + now rewrite <- app_assoc.
    + intros a b0 Hab. rewrite app_length. fold (rsize c). pose proof (rsize_pos c).
      apply in_app_or in Hab. destruct Hab as [Hab|Hab].
      * apply in_app_or in Hab. destruct Hab as [Hab|Hab].
        -- apply He in Hab. lia.
        -- apply redges_bounds in Hab. lia.
      * destruct Hab as [Hab|[]]. inversion Hab; subst. lia.
Qed.

Lemma unroot_spec t : unroot_ok t.
Proof.
  induction t as [b cs IH] using rtree_ind'. intros bs es Hd He.
  rewrite unroot_eq. cbn [option_map]. rewrite rbags_node in Hd |- *.
  assert (Hfresh : forall c, In c bs -> set_eqb c b = false).
  { intros c Hc. apply sdist_app in Hd. destruct Hd as [_ [_ H3]]. apply H3; cbn; auto. }
  rewrite (t_add_node_new bs es b Hfresh).
  transitivity (Some ((bs ++ [b]) ++ fbags cs, es ++ kids_edges (length bs) (length (bs ++ [b])) cs));
    [apply (unroot_kids_spec b cs IH (bs ++ [b]) es (length bs))|].
  5:{ rewrite redges_eq, app_length. cbn [length]. rewrite Nat.add_1_r, <- app_assoc. reflexivity. }
  - now apply bag_index_app_new.
  - rewrite app_length. cbn. lia.
  - rewrite <- app_assoc. exact Hd.
  - intros a b0 Hab. apply He in Hab. rewrite app_length. cbn. lia.
Qed.

(** * the edges form a tree *)
Lemma tree_on_perm ns es ns' es' :
  tree_on ns es -> Permutation ns ns' -> Permutation es es' -> tree_on ns' es'.
Proof.
  intros T Pn Pe. destruct T as [v|ns es v u e ns1 es1 T Hu Hv He Pn1 Pe1].
  - apply Permutation_length_1_inv in Pn. apply Permutation_nil in Pe. subst. constructor.
  - eapply tree_leaf; try eassumption.
    + eapply perm_trans; [apply Permutation_sym; exact Pn|exact Pn1].
    + eapply perm_trans; [apply Permutation_sym; exact Pe|exact Pe1].
Qed.

Definition attach_ok (t : rtree) : Prop :=
  forall ns es p off, tree_on ns es -> In p ns -> (forall n, In n ns -> n < off) ->
    tree_on (ns ++ seq off (rsize t)) (es ++ (p, off) :: redges off t).
Lemma attach_kids cs : Forall attach_ok cs ->
  forall ns es p o, tree_on ns es -> In p ns -> (forall n, In n ns -> n < o) ->
    tree_on (ns ++ seq o (length (fbags cs))) (es ++ kids_edges p o cs).
Proof.
  induction 1 as [|c cs Hc Hcs IH]; intros ns es p o T Hp Hlt.
  - cbn. now rewrite !app_nil_r.
  - cbn [kids_edges]. rewrite fbags_cons, app_length. fold (rsize c).
    specialize (Hc ns es p o T Hp Hlt).
    specialize (IH (ns ++ seq o (rsize c)) (es ++ (p, o) :: redges o c) p (o + rsize c) Hc).
    eapply tree_on_perm; [apply IH| |].
    + apply in_or_app. auto.
    + intros n Hn. apply in_app_or in Hn. destruct Hn as [Hn|Hn].
      * apply Hlt in Hn. lia.
      * apply in_seq in Hn. lia.
    + rewrite seq_app, app_assoc. reflexivity.
    + rewrite <- app_assoc. apply Permutation_app_head.
      apply (Permutation_middle (redges o c) (kids_edges p (o + rsize c) cs) (p, o)).
Qed.
Lemma attach_tree t : attach_ok t.
Proof.
  induction t as [b cs IH] using rtree_ind'. intros ns es p off T Hp Hlt.
  assert (T1 : tree_on (ns ++ [off]) (es ++ [(p, off)])).
  { eapply tree_leaf with (v := off) (u := p) (e := (p, off)); try eassumption.
    - intro Hin. apply Hlt in Hin. lia.
    - auto.
    - apply Permutation_sym, Permutation_cons_append.
    - apply Permutation_sym, Permutation_cons_append. }
  pose proof (attach_kids cs IH (ns ++ [off]) (es ++ [(p, off)]) off (S off) T1) as T2.
  rewrite redges_eq, rsize_node. cbn [seq].
  eapply tree_on_perm; [apply T2| |].
  - apply in_or_app. cbn; auto.
  - intros n Hn. apply in_app_or in Hn. destruct Hn as [Hn|[<-|[]]]; [apply Hlt in Hn|]; lia.
  - rewrite <- app_assoc. reflexivity.
  - rewrite <- app_assoc. reflexivity.
Qed.
Theorem tree_redges t : tree_on (seq 0 (rsize t)) (redges 0 t).
Proof.
  destruct t as [b cs]. rewrite redges_eq, rsize_node. cbn [seq].
  assert (Hk : Forall attach_ok cs) by (apply Forall_forall; intros; apply attach_tree).
  exact (attach_kids cs Hk [0] [] 0 1 (tree_single 0) (or_introl eq_refl)
           (fun n Hn => match Hn with or_introl E => eq_ind 0 (fun n => n < 1) Nat.lt_0_1 n E
                                    | or_intror F => match F with end end)).
Qed.

(** * rooted running intersection *)
Fixpoint sepkids (b : bag) (cs : list rtree) : Prop :=
  match cs with
  | [] => True
  | c :: cs' =>
    (forall x, occ x c -> In x b -> In x (root_bag c)) /\
    (forall x, occ x c -> (exists c', In c' cs' /\ occ x c') -> In x b) /\
    sepkids b cs'
  end.
Inductive rRI : rtree -> Prop :=
| rRI_node b cs : Forall rRI cs -> sepkids b cs -> rRI (RNode b cs).

Lemma sepkids_root b cs : sepkids b cs ->
  forall c x, In c cs -> occ x c -> In x b -> In x (root_bag c).
Proof.
  induction cs as [|c0 cs IH]; cbn [sepkids]; [intros _ c x []|intros [H1 [H2 H3]] c x Hc].
  destruct Hc as [<-|Hc]; auto.
Qed.
Lemma rRI_inv b cs : rRI (RNode b cs) -> Forall rRI cs /\ sepkids b cs.
Proof. intro H. inversion H; subst. auto. Qed.

Lemma occ_root t x : In x (root_bag t) -> occ x t.
Proof. destruct t as [b cs]. intro H. exists b. cbn. auto. Qed.

Section Run.
  Variable B : list bag.
  Variable E : list (nat * nat).
  Variable x : nat.
  Definition hb (i : nat) : Prop := exists b, nth_error B i = Some b /\ In x b.
  Definition rel (a b : nat) : Prop := eadj E a b /\ hb a /\ hb b.
  Lemma rel_sym a b : rel a b -> rel b a.
  Proof. unfold rel. intros [H1 [H2 H3]]. split; [now apply eadj_sym|auto]. Qed.

  Definition at_tree (off : nat) (t : rtree) : Prop :=
    (forall i, i < rsize t -> nth_error B (off + i) = nth_error (rbags t) i) /\
    incl (redges off t) E.
  Definition at_kids (p o : nat) (cs : list rtree) : Prop :=
    (forall i, i < length (fbags cs) -> nth_error B (o + i) = nth_error (fbags cs) i) /\
    incl (kids_edges p o cs) E.

  Lemma at_kids_cons p o c cs : at_kids p o (c :: cs) ->
    at_tree o c /\ at_kids p (o + rsize c) cs /\ In (p, o) E.
  Proof.
    intros [H1 H2]. cbn [kids_edges] in H2. rewrite fbags_cons in H1. rewrite app_length in H1.
    fold (rsize c) in H1. repeat split.
    - intros i Hi. rewrite H1 by lia. unfold rsize in Hi. now rewrite nth_error_app1.
    - intros e He. apply H2. apply in_or_app. auto.
    - intros i Hi. rewrite <- Nat.add_assoc. rewrite H1 by lia.
      rewrite nth_error_app2 by (unfold rsize; lia). f_equal. unfold rsize. lia.
    - intros e He. apply H2. apply in_or_app. right. right. exact He.
    - apply H2. apply in_or_app. right. left. reflexivity.
  Qed.
  Lemma at_tree_node off b cs : at_tree off (RNode b cs) ->
    nth_error B off = Some b /\ at_kids off (S off) cs.
  Proof.
    intros [H1 H2]. rewrite redges_eq in H2. split; [|split; auto].
    - specialize (H1 0). rewrite Nat.add_0_r in H1. rewrite H1; [reflexivity|]. rewrite rsize_node. lia.
    - intros i Hi. specialize (H1 (S i)). rewrite Nat.add_succ_r in H1. cbn [plus]. rewrite H1; [reflexivity|].
      rewrite rsize_node. lia.
  Qed.
  Lemma hb_tree off t i : at_tree off t -> i < rsize t -> hb (off + i) ->
    exists b, nth_error (rbags t) i = Some b /\ In x b.
  Proof. intros [H1 _] Hi [b [Hb Hx]]. rewrite H1 in Hb by auto. eauto. Qed.
  Lemma hb_kids p o cs i : at_kids p o cs -> i < length (fbags cs) -> hb (o + i) ->
    exists c, In c cs /\ occ x c.
  Proof.
    intros [H1 _] Hi [b [Hb Hx]]. rewrite H1 in Hb by auto. apply nth_error_In in Hb.
    unfold fbags in Hb. apply in_flat_map in Hb. destruct Hb as [c [Hc Hb]]. exists c. split; auto.
    exists b. auto.
  Qed.

  (** every occurrence is joined to the root when the root contains [x] *)
  Definition up_ok (t : rtree) : Prop :=
    forall off, at_tree off t -> rRI t -> In x (root_bag t) ->
      forall i, i < rsize t -> hb (off + i) -> walk rel (off + i) off.
  Lemma up_kids cs : Forall up_ok cs ->
    forall p o, at_kids p o cs -> Forall rRI cs -> hb p ->
      (forall c, In c cs -> occ x c -> In x (root_bag c)) ->
      forall i, i < length (fbags cs) -> hb (o + i) -> walk rel (o + i) p.
  Proof.
    induction 1 as [|c cs Hc Hcs IH]; intros p o Hat HR Hp Hroot i Hi Hh; [cbn in Hi; lia|].
    destruct (at_kids_cons p o c cs Hat) as [A1 [A2 A3]].
    inversion HR as [|? ? R1 R2]; subst.
    rewrite fbags_cons, app_length in Hi. fold (rsize c) in Hi.
    destruct (Nat.lt_ge_cases i (rsize c)) as [Hlt|Hge].
    - destruct (hb_tree o c i A1 Hlt Hh) as [b [Hb Hx]].
      assert (Hocc : occ x c) by (exists b; split; [eapply nth_error_In; eauto|auto]).
      assert (Hr : In x (root_bag c)) by (apply Hroot; cbn; auto).
      eapply walk_trans; [apply (Hc o A1 R1 Hr i Hlt Hh)|].
      apply walk_one. split; [right; exact A3|]. split; auto.
      destruct A1 as [A1 _]. specialize (A1 0 (rsize_pos c)). rewrite Nat.add_0_r in A1.
      destruct (rbags_root c) as [l Hl]. rewrite Hl in A1. cbn in A1. exists (root_bag c). auto.
    - replace (o + i) with ((o + rsize c) + (i - rsize c)) in Hh |- * by lia.
      apply (IH p (o + rsize c) A2 R2 Hp); auto.
      + intros c' Hc'. apply Hroot. cbn; auto.
      + lia.
  Qed.
  Lemma up_tree t : up_ok t.
  Proof.
    induction t as [b cs IH] using rtree_ind'. intros off Hat HR Hx i Hi Hh.
    destruct (at_tree_node off b cs Hat) as [A1 A2]. destruct (rRI_inv b cs HR) as [R1 R2].
    cbn [root_bag] in Hx. rewrite rsize_node in Hi.
    destruct i as [|i]; [rewrite Nat.add_0_r; constructor|].
    replace (off + S i) with (S off + i) in Hh |- * by lia.
    apply (up_kids cs IH off (S off) A2 R1); auto.
    - exists b. auto.
    - intros c Hc Ho. eapply sepkids_root; eauto.
    - lia.
  Qed.

  Definition run_ok (t : rtree) : Prop :=
    forall off, at_tree off t -> rRI t ->
      forall i j, i < rsize t -> j < rsize t -> hb (off + i) -> hb (off + j) ->
        walk rel (off + i) (off + j).
  Lemma run_kids cs : Forall run_ok cs ->
    forall p o b, at_kids p o cs -> Forall rRI cs -> sepkids b cs -> nth_error B p = Some b ->
      forall i j, i < length (fbags cs) -> j < length (fbags cs) -> hb (o + i) -> hb (o + j) ->
        walk rel (o + i) (o + j).
  Proof.
    induction 1 as [|c cs Hc Hcs IH]; intros p o b Hat HR HS Hp i j Hi Hj Hhi Hhj; [cbn in Hi; lia|].
    assert (Hup : Forall up_ok (c :: cs)) by (apply Forall_forall; intros; apply up_tree).
    assert (Hroots : In x b -> forall c', In c' (c :: cs) -> occ x c' -> In x (root_bag c')).
    { intros Hb c' Hc' Ho. eapply sepkids_root; eauto. }
    destruct (at_kids_cons p o c cs Hat) as [A1 [A2 A3]].
    inversion HR as [|? ? R1 R2]; subst.
    destruct HS as [S1 [S2 S3]].
    pose proof Hi as Hi'. pose proof Hj as Hj'.
    rewrite fbags_cons, app_length in Hi', Hj'. fold (rsize c) in Hi', Hj'.
    assert (Hcross : forall i j, i < rsize c -> rsize c <= j -> j < length (fbags (c :: cs)) ->
                       hb (o + i) -> hb (o + j) -> In x b).
    { intros i0 j0 Hi0 Hj0 Hj1 Hh1 Hh2.
      rewrite fbags_cons, app_length in Hj1. fold (rsize c) in Hj1.
      destruct (hb_tree o c i0 A1 Hi0 Hh1) as [b1 [Hb1 Hx1]].
      assert (Hocc : occ x c) by (exists b1; split; [eapply nth_error_In; eauto|auto]).
      replace (o + j0) with ((o + rsize c) + (j0 - rsize c)) in Hh2 by lia.
      destruct (hb_kids p (o + rsize c) cs (j0 - rsize c) A2) as [c' [Hc' Ho']]; [lia|exact Hh2|].
      apply (S2 x Hocc). eauto. }
    assert (Hvia : In x b -> walk rel (o + i) (o + j)).
    { intro Hb. assert (Hhp : hb p) by (exists b; auto).
      eapply walk_trans.
      - apply (up_kids (c :: cs) Hup p o Hat HR Hhp (Hroots Hb) i Hi Hhi).
      - apply (walk_sym rel rel_sym). apply (up_kids (c :: cs) Hup p o Hat HR Hhp (Hroots Hb) j Hj Hhj). }
    destruct (Nat.lt_ge_cases i (rsize c)) as [Hil|Hig]; destruct (Nat.lt_ge_cases j (rsize c)) as [Hjl|Hjg].
    - apply (Hc o A1 R1 i j); auto.
    - apply Hvia. eapply (Hcross i j); eauto.
    - apply Hvia. eapply (Hcross j i); eauto.
    - replace (o + i) with ((o + rsize c) + (i - rsize c)) in Hhi |- * by lia.
      replace (o + j) with ((o + rsize c) + (j - rsize c)) in Hhj |- * by lia.
      apply (IH p (o + rsize c) b A2 R2 S3 Hp); auto; lia.
  Qed.
  Lemma run_tree t : run_ok t.
  Proof.
    induction t as [b cs IH] using rtree_ind'. intros off Hat HR i j Hi Hj Hhi Hhj.
    destruct (at_tree_node off b cs Hat) as [A1 A2]. destruct (rRI_inv b cs HR) as [R1 R2].
    rewrite rsize_node in Hi, Hj.
    assert (Hup : Forall up_ok cs) by (apply Forall_forall; intros; apply up_tree).
    assert (Hdown : forall i, i < length (fbags cs) -> hb off -> hb (S off + i) -> walk rel (S off + i) off).
    { intros i0 Hi0 Hh0 Hh1. apply (up_kids cs Hup off (S off) A2 R1 Hh0); auto.
      intros c Hc Ho. destruct Hh0 as [b' [Hb' Hx']]. rewrite A1 in Hb'. inversion Hb'; subst b'.
      eapply sepkids_root; eauto. }
    destruct i as [|i]; destruct j as [|j].
    - constructor.
    - rewrite Nat.add_0_r in *. replace (off + S j) with (S off + j) in Hhj |- * by lia.
      apply (walk_sym rel rel_sym). apply Hdown; auto. lia.
    - rewrite Nat.add_0_r in *. replace (off + S i) with (S off + i) in Hhi |- * by lia.
      apply Hdown; auto. lia.
    - replace (off + S i) with (S off + i) in Hhi |- * by lia.
      replace (off + S j) with (S off + j) in Hhj |- * by lia.
      apply (run_kids cs IH off (S off) b A2 R1 R2 A1); auto; lia.
  Qed.
End Run.

(** * rooted tree decompositions *)
Record rtd (g : graph) (t : rtree) : Prop := {
  rt_RI : rRI t;
  rt_dist : sdist (rbags t);
  rt_nodup : forall b, In b (rbags t) -> NoDup b;
  rt_sub : forall b x, In b (rbags t) -> In x b -> In x (gverts g);
  rt_vertex : forall x, In x (gverts g) -> occ x t;
  rt_edge : forall x y, In y (nbrs g x) -> exists b, In b (rbags t) /\ In x b /\ In y b }.

Theorem rtd_valid g t : rtd g t ->
  unroot t (Some ([], [])) = Some (rbags t, redges 0 t) /\ valid_td g (rbags t, redges 0 t).
Proof.
  intros [H1 H2 H3 H4 H5 H6]. split.
  - apply (unroot_spec t [] []); [exact H2|]. intros a b [].
  - constructor; cbn [fst snd].
    + apply tree_redges.
    + exact H3.
    + exact H4.
    + exact H5.
    + exact H6.
    + intros x i j [bi [Hi Hxi]] [bj [Hj Hxj]]. cbn [fst] in Hi, Hj.
      assert (Li : i < rsize t) by (apply nth_error_Some; unfold bag in *; congruence).
      assert (Lj : j < rsize t) by (apply nth_error_Some; unfold bag in *; congruence).
      assert (Hat : at_tree (rbags t) (redges 0 t) 0 t) by (split; [reflexivity|apply incl_refl]).
      pose proof (run_tree (rbags t) (redges 0 t) x t 0 Hat H1 i j Li Lj) as W.
      cbn [plus] in W.
      assert (Hhi : hb (rbags t) x i) by (exists bi; auto).
      assert (Hhj : hb (rbags t) x j) by (exists bj; auto).
      specialize (W Hhi Hhj).
      eapply walk_mono; [|exact W]. intros a b [Ha [Hb Hc]]. split; [exact Ha|]. split; assumption.
Qed.
