(** C16 -- Graph methods preserve [graph_ok] (no guard is needed any more: the code checks
    node identity and label clashes before it mutates). *)
From Coq Require Import List Arith Bool Lia.
Import ListNotations.
Require Import Fggs.Model.GraphAPI Fggs.Proofs.GraphAPI_assoc Fggs.Proofs.GraphAPI_wf.

(** [g'] differs from [g] by added nodes (and node labels) only *)
Record grows (g g' : graph) : Prop := {
  gr_fg : g_fg g' = g_fg g;
  gr_edges : g_edges g' = g_edges g;
  gr_ext : g_ext g' = g_ext g;
  gr_el : t_el (g_tab g') = t_el (g_tab g);
  gr_dom : t_dom (g_tab g') = t_dom (g_tab g);
  gr_fac : t_fac (g_tab g') = t_fac (g_tab g);
  gr_nodes : forall k v, aget ident_eq_dec (g_nodes g) k = Some v -> aget ident_eq_dec (g_nodes g') k = Some v;
  gr_keyed : keyed n_id (g_nodes g) -> keyed n_id (g_nodes g');
  gr_tab : tab_ok (g_tab g) -> tab_ok (g_tab g') }.

Lemma grows_refl : forall g, grows g g.
Proof. intros. split; auto. Qed.

Lemma grows_trans : forall a b c, grows a b -> grows b c -> grows a c.
Proof.
  intros a b c [A1 A2 A3 A4 A5 A6 A7 A8 A9] [B1 B2 B3 B4 B5 B6 B7 B8 B9].
  split; try congruence; auto.
Qed.

Lemma grows_ok : forall g g', graph_ok g -> grows g g' -> graph_ok g'.
Proof.
  intros g g' [N E T A X R Ty] [F1 F2 F3 F4 F5 F6 F7 F8 F9].
  split; auto.
  - rewrite F2. assumption.
  - rewrite F2. intros k e n H1 H2. apply F7. eapply A; eauto.
  - rewrite F3. intros n H. apply F7. apply X. assumption.
  - rewrite F2. intros k e H. unfold registered. rewrite F4. eapply R; eauto.
  - rewrite F2. assumption.
Qed.

Lemma add_node_grows : forall g n, grows g (fst (g_add_node g n)).
Proof.
  intros g n. unfold g_add_node.
  destruct (amem ident_eq_dec (g_nodes g) (n_id n)) eqn:M; cbn; [apply grows_refl|].
  apply amem_false in M.
  split; cbn; auto.
  - intros k v H. rewrite aget_aset. destruct (ident_eq_dec (n_id n) k); [congruence | assumption].
  - intros K. apply keyed_aset. assumption.
  - intros K. apply add_node_label_ok. assumption.
Qed.

Lemma add_node_has : forall g n, snd (g_add_node g n) = ROk -> has_node (fst (g_add_node g n)) n.
Proof.
  intros g n. unfold g_add_node, has_node.
  destruct (amem ident_eq_dec (g_nodes g) (n_id n)); cbn; [discriminate|].
  intros _. apply aget_aset_same.
Qed.

Lemma add_all_grows : forall l g, grows g (g_add_all g l).
Proof.
  unfold g_add_all. induction l as [|n l IH]; intros g; cbn; [apply grows_refl|].
  eapply grows_trans; [apply add_node_grows | apply IH].
Qed.

(** adding nodes whose ids are new and distinct: the node dict afterwards is the old one
    extended by them *)
Lemma add_all_spec : forall (l : list (ident * node)) g,
    keyed n_id l -> (forall k v, aget ident_eq_dec l k = Some v -> aget ident_eq_dec (g_nodes g) k = None) ->
    forall k, aget ident_eq_dec (g_nodes (g_add_all g (map snd l))) k = lookup2 (g_nodes g) l k.
Proof.
  induction l as [|[k0 v0] l IH]; intros g [ND KV] FR k.
  - cbn. unfold lookup2. cbn. destruct (aget ident_eq_dec (g_nodes g) k); reflexivity.
  - cbn in ND. inversion ND as [|? ? NI ND']; subst.
    assert (K0 : k0 = n_id v0) by (apply KV; left; reflexivity).
    assert (F0 : aget ident_eq_dec (g_nodes g) k0 = None).
    { apply (FR k0 v0). cbn. destruct (ident_eq_dec k0 k0); congruence. }
    assert (E1 : g_nodes (fst (g_add_node g v0)) = aset ident_eq_dec (g_nodes g) k0 v0).
    { unfold g_add_node, amem. rewrite <- K0, F0. reflexivity. }
    change (g_add_all g (map snd ((k0, v0) :: l))) with (g_add_all (fst (g_add_node g v0)) (map snd l)).
    rewrite IH.
    + rewrite E1. unfold lookup2. rewrite aget_aset. cbn [aget].
      destruct (ident_eq_dec k0 k) as [<-|N]; [rewrite F0; reflexivity | reflexivity].
    + split; [assumption | intros; apply KV; right; assumption].
    + intros k' v' H. rewrite E1. rewrite aget_aset_other.
      * apply (FR k' v'). cbn. destruct (ident_eq_dec k0 k') as [<-|N]; [|assumption].
        exfalso. apply NI. apply aget_In in H. change k0 with (fst (k0, v')). apply in_map. assumption.
      * intro E. subst k'. apply NI. apply aget_In in H. change k0 with (fst (k0, v')). apply in_map. assumption.
Qed.

Lemma check_new_gen : forall ns m new add,
    check_new m new ns = Some add ->
    keyed n_id new -> (forall k v, aget ident_eq_dec new k = Some v -> aget ident_eq_dec m k = None) ->
    exists new', add = map snd new' /\ keyed n_id new' /\
                 (forall k v, aget ident_eq_dec new' k = Some v -> aget ident_eq_dec m k = None) /\
                 (forall k v, lookup2 m new k = Some v -> lookup2 m new' k = Some v) /\
                 forall n, In n ns -> lookup2 m new' (n_id n) = Some n.
Proof.
  induction ns as [|n ns IH]; intros m new add E K FR; cbn in E.
  - inversion E; subst. exists new. repeat split; auto; try apply K. intros ? [].
  - destruct (lookup2 m new (n_id n)) as [old|] eqn:L.
    + destruct (node_eq_dec old n) as [->|]; [|discriminate].
      destruct (IH _ _ _ E K FR) as (new' & A & B & C & D & F).
      exists new'. repeat split; auto; try apply B.
      intros n0 [<-|H]; [apply D; assumption | apply F; assumption].
    + assert (M0 : aget ident_eq_dec m (n_id n) = None).
      { unfold lookup2 in L. destruct (aget ident_eq_dec m (n_id n)); [discriminate | reflexivity]. }
      destruct (IH _ _ _ E) as (new' & A & B & C & D & F).
      * apply keyed_aset. assumption.
      * intros k v H. rewrite aget_aset in H. destruct (ident_eq_dec (n_id n) k) as [<-|N]; [assumption | eapply FR; eauto].
      * exists new'. repeat split; auto; try apply B.
        -- intros k v H. apply D. unfold lookup2 in *.
           destruct (aget ident_eq_dec m k) eqn:Mk; [assumption|].
           rewrite aget_aset. destruct (ident_eq_dec (n_id n) k) as [<-|N]; [|assumption].
           rewrite Mk in L. congruence.
        -- intros n0 [<-|H]; [|apply F; assumption].
           apply D. unfold lookup2. rewrite M0. apply aget_aset_same.
Qed.

(** what [_check_new_nodes] + the [add_node] loop achieve *)
Lemma check_new_spec : forall g ns add,
    check_new (g_nodes g) [] ns = Some add ->
    grows g (g_add_all g add) /\ forall n, In n ns -> has_node (g_add_all g add) n.
Proof.
  intros g ns add E. split; [apply add_all_grows|].
  destruct (check_new_gen _ _ _ _ E (keyed_nil n_id)) as (new' & -> & B & C & _ & F); [intros ? ? H; discriminate|].
  intros n H. unfold has_node. rewrite (add_all_spec new' g B C). apply F. assumption.
Qed.

(** all nodes present (as themselves): nothing to add *)
Lemma check_new_all_present : forall ns m,
    (forall n, In n ns -> aget ident_eq_dec m (n_id n) = Some n) -> check_new m [] ns = Some [].
Proof.
  induction ns as [|n ns IH]; intros m H; cbn; [reflexivity|].
  unfold lookup2. rewrite (H n) by (left; reflexivity).
  destruct (node_eq_dec n n); [|congruence]. apply IH. intros; apply H; right; assumption.
Qed.

(** * add_node / new_node *)
Lemma g_add_node_ok : forall g n, graph_ok g -> graph_ok (fst (g_add_node g n)).
Proof. intros. eapply grows_ok; [eassumption | apply add_node_grows]. Qed.

(** * ext setter *)
Lemma g_set_ext_ok : forall g ns, graph_ok g -> graph_ok (fst (g_set_ext g ns)).
Proof.
  intros g ns OK. unfold g_set_ext.
  destruct (check_new (g_nodes g) [] ns) as [add|] eqn:E; cbn; [|assumption].
  destruct (check_new_spec _ _ _ E) as [GR HAS].
  pose proof (grows_ok _ _ OK GR) as [N Ed T A X R Ty].
  split; auto.
Qed.

Lemma g_set_ext_shape : forall g ns,
    g_edges (fst (g_set_ext g ns)) = g_edges g /\
    (snd (g_set_ext g ns) = ROk /\ g_ext (fst (g_set_ext g ns)) = ns \/
     snd (g_set_ext g ns) = RErr ValueErr /\ fst (g_set_ext g ns) = g).
Proof.
  intros g ns. unfold g_set_ext. destruct (check_new (g_nodes g) [] ns) as [add|]; cbn; [|auto].
  split; [apply (gr_edges _ _ (add_all_grows add g)) | auto].
Qed.

(** * remove_edge *)
Lemma g_remove_edge_ok : forall g e, graph_ok g -> graph_ok (fst (g_remove_edge g e)).
Proof.
  intros g e OK. unfold g_remove_edge.
  destruct (negb (amem ident_eq_dec (g_edges g) (e_id e))); cbn; [assumption|].
  destruct OK as [N E T A X R Ty]. split; cbn; auto.
  - apply keyed_adel. assumption.
  - intros k e0 n H. apply In_adel in H. eapply A; eauto.
  - intros k e0 H. apply In_adel in H. eapply R; eauto.
  - intros k e0 H. apply In_adel in H. eapply Ty; eauto.
Qed.

Lemma g_remove_edge_edges : forall g e k e0,
    In (k, e0) (g_edges (fst (g_remove_edge g e))) -> In (k, e0) (g_edges g).
Proof.
  intros g e k e0. unfold g_remove_edge.
  destruct (negb (amem ident_eq_dec (g_edges g) (e_id e))); cbn; [auto|]. apply In_adel.
Qed.

(** * remove_node *)
Lemma g_remove_node_ok : forall g n, graph_ok g -> graph_ok (fst (g_remove_node g n)).
Proof.
  intros g n OK. unfold g_remove_node.
  destruct (aget ident_eq_dec (g_nodes g) (n_id n)) as [n'|] eqn:Hn'; cbn; [|assumption].
  destruct (node_eq_dec n' n) as [->|]; cbn; [|assumption].
  destruct (existsb (fun ke => inb node_eq_dec n (e_nodes (snd ke))) (g_edges g)) eqn:F1; cbn; [assumption|].
  destruct (inb node_eq_dec n (g_ext g)) eqn:F2; cbn; [assumption|].
  destruct OK as [N E T A X R Ty].
  assert (KEEP : forall m, has_node g m -> m <> n ->
                           aget ident_eq_dec (adel ident_eq_dec (g_nodes g) (n_id n)) (n_id m) = Some m).
  { intros m Hm Nm. rewrite aget_adel_other; [exact Hm|].
    intro Eid. unfold has_node in Hm. rewrite Eid in Hm. congruence. }
  split; cbn; auto.
  - apply keyed_adel. assumption.
  - intros k e m H1 H2. unfold has_node. cbn. apply KEEP; [eapply A; eauto|].
    intro Em. subst m.
    assert (Y : existsb (fun ke => inb node_eq_dec n (e_nodes (snd ke))) (g_edges g) = true).
    { apply existsb_exists. exists (k, e). split; [assumption|]. cbn. apply inb_true. assumption. }
    congruence.
  - intros m H. unfold has_node. cbn. apply KEEP; [apply X; assumption|].
    intro Em. subst m. apply inb_false in F2. tauto.
Qed.

Lemma g_remove_node_same : forall g n,
    g_edges (fst (g_remove_node g n)) = g_edges g /\ g_ext (fst (g_remove_node g n)) = g_ext g.
Proof.
  intros. unfold g_remove_node.
  destruct (aget ident_eq_dec (g_nodes g) (n_id n)); cbn; [|auto].
  destruct (node_eq_dec n0 n); cbn; [|auto].
  destruct (existsb _ (g_edges g)); cbn; [auto|].
  destruct (inb node_eq_dec n (g_ext g)); cbn; auto.
Qed.

(** * add_edge *)
Lemma set_el_id : forall t, set_el t (t_el t) = t.
Proof. destruct t; reflexivity. Qed.

(** without a clash the label is registered successfully *)
Lemma add_edge_label_no_conflict : forall t l,
    label_conflict t l = false -> exists t', t_add_edge_label t l = (t', ROk).
Proof.
  intros t l H. unfold t_add_edge_label, label_conflict in *.
  destruct (aget Nat.eq_dec (t_el t) (el_name l)) as [l'|]; [|eauto].
  destruct (elabel_eq_dec l' l); [eauto | discriminate].
Qed.

(** what add_edge returns: either it raised and nothing happened, or the missing nodes were
    added and the edge was stored *)
Lemma g_add_edge_cases : forall g e,
    g_add_edge g e = (g, RErr ValueErr)
    \/ (exists add t',
           let gm := g_add_all g add in
           check_new (g_nodes g) [] (e_nodes e) = Some add
           /\ g_add_edge g e = (gset_edges (gset_tab gm t') (aset ident_eq_dec (g_edges g) (e_id e) e), ROk)
           /\ amem ident_eq_dec (g_edges g) (e_id e) = false
           /\ t_add_edge_label (g_tab gm) (e_label e) = (t', ROk)).
Proof.
  intros g e. unfold g_add_edge.
  destruct (amem ident_eq_dec (g_edges g) (e_id e)) eqn:M; [left; reflexivity|].
  destruct (label_conflict (g_tab g) (e_label e)) eqn:LC; [left; reflexivity|].
  destruct (check_new (g_nodes g) [] (e_nodes e)) as [add|] eqn:CN; [|left; reflexivity].
  right. exists add.
  pose proof (add_all_grows add g) as GR.
  assert (LC' : label_conflict (g_tab (g_add_all g add)) (e_label e) = false).
  { unfold label_conflict in *. rewrite (gr_el _ _ GR). exact LC. }
  destruct (add_edge_label_no_conflict _ _ LC') as [t' E]. exists t'. cbn zeta.
  rewrite E. split; [reflexivity|]. split; [|split; [reflexivity | reflexivity]].
  f_equal. cbn. rewrite (gr_edges _ _ GR).
  assert (R : aget Nat.eq_dec (t_el t') (el_name (e_label e)) = Some (e_label e)).
  { unfold t_add_edge_label in E. destruct (aget Nat.eq_dec (t_el (g_tab (g_add_all g add))) (el_name (e_label e))) as [l'|].
    - destruct (elabel_eq_dec l' (e_label e)); inversion E; subst. cbn. apply aget_aset_same.
    - inversion E; subst. cbn. apply aget_aset_same. }
  rewrite (aset_id Nat.eq_dec _ _ _ R). rewrite set_el_id. reflexivity.
Qed.

Lemma g_add_edge_ok : forall g e,
    graph_ok g -> el_ty (e_label e) = map n_label (e_nodes e) -> graph_ok (fst (g_add_edge g e)).
Proof.
  intros g e OK TY.
  destruct (g_add_edge_cases g e) as [E|(add & t' & CN & E & M & L)]; rewrite E; cbn [fst]; [assumption|].
  destruct (check_new_spec _ _ _ CN) as [GR HAS].
  pose proof (grows_ok _ _ OK GR) as OKm.
  pose proof (add_edge_label_spec _ _ _ _ L (gk_tab _ OKm)) as (A & B & R & _).
  specialize (R eq_refl).
  destruct OKm as [N Ed T At X Rg Ty]. rewrite (gr_edges _ _ GR) in *.
  split; cbn; auto.
  - apply keyed_aset. assumption.
  - intros k e0 n H1 H2. apply In_aset in H1. destruct H1 as [H1|H1].
    + inversion H1; subst. apply HAS. assumption.
    + eapply At; eauto.
  - intros k e0 H1. apply In_aset in H1. destruct H1 as [H1|H1].
    + inversion H1; subst. exact R.
    + apply B. eapply Rg; eauto.
  - intros k e0 H1. apply In_aset in H1. destruct H1 as [H1|H1].
    + inversion H1; subst. exact TY.
    + eapply Ty; eauto.
Qed.

(** type and edge labels after add_edge *)
Lemma g_add_edge_shape : forall g e,
    g_ext (fst (g_add_edge g e)) = g_ext g /\
    forall k e0, In (k, e0) (g_edges (fst (g_add_edge g e))) ->
                 In (k, e0) (g_edges g) \/ (e0 = e /\ snd (g_add_edge g e) = ROk).
Proof.
  intros g e.
  destruct (g_add_edge_cases g e) as [E|(add & t' & CN & E & _)]; rewrite E; cbn [fst snd]; [auto|].
  cbn. rewrite (gr_ext _ _ (add_all_grows add g)). split; [reflexivity|].
  intros k e0 H. apply In_aset in H. destruct H as [H|H]; [inversion H; auto | auto].
Qed.
