(** C16 -- Graph methods preserve [graph_ok] (under the guards where the code needs them). *)
From Coq Require Import List Arith Bool Lia.
Import ListNotations.
Require Import Fggs.Model.GraphAPI Fggs.Proofs.GraphAPI_assoc Fggs.Proofs.GraphAPI_wf.

(** [g'] differs from [g] by added nodes (and node labels) only *)
Record grows (g g' : graph) : Prop := {
  gr_fg : g_fg g' = g_fg g;
  gr_edges : g_edges g' = g_edges g;
  gr_ext : g_ext g' = g_ext g;
  gr_el : t_el (g_tab g') = t_el (g_tab g);
  gr_dom : t_dom (g_tab g') = t_dom (g_tab g);
  gr_fac : t_fac (g_tab g') = t_fac (g_tab g);
  gr_nodes : forall k v, aget ident_eq_dec (g_nodes g) k = Some v -> aget ident_eq_dec (g_nodes g') k = Some v;
  gr_keyed : keyed n_id (g_nodes g) -> keyed n_id (g_nodes g');
  gr_tab : tab_ok (g_tab g) -> tab_ok (g_tab g') }.

Lemma grows_refl : forall g, grows g g.
Proof. intros. split; auto. Qed.

Lemma grows_trans : forall a b c, grows a b -> grows b c -> grows a c.
Proof.
  intros a b c [A1 A2 A3 A4 A5 A6 A7 A8 A9] [B1 B2 B3 B4 B5 B6 B7 B8 B9].
  split; try congruence; auto.
Qed.

Lemma grows_ok : forall g g', graph_ok g -> grows g g' -> graph_ok g'.
Proof.
  intros g g' [N E T A X R Ty] [F1 F2 F3 F4 F5 F6 F7 F8 F9].
  split; auto.
  - rewrite F2. assumption.
  - rewrite F2. intros k e n H1 H2. apply F7. eapply A; eauto.
  - rewrite F3. intros n H. apply F7. apply X. assumption.
  - rewrite F2. intros k e H. unfold registered. rewrite F4. eapply R; eauto.
  - rewrite F2. assumption.
Qed.

Lemma add_node_grows : forall g n, grows g (fst (g_add_node g n)).
Proof.
  intros g n. unfold g_add_node.
  destruct (amem ident_eq_dec (g_nodes g) (n_id n)) eqn:M; cbn; [apply grows_refl|].
  apply amem_false in M.
  split; cbn; auto.
  - intros k v H. rewrite aget_aset. destruct (ident_eq_dec (n_id n) k); [congruence | assumption].
  - intros K. apply keyed_aset. assumption.
  - intros K. apply add_node_label_ok. assumption.
Qed.

Lemma add_node_has : forall g n, snd (g_add_node g n) = ROk -> has_node (fst (g_add_node g n)) n.
Proof.
  intros g n. unfold g_add_node, has_node.
  destruct (amem ident_eq_dec (g_nodes g) (n_id n)); cbn; [discriminate|].
  intros _. apply aget_aset_same.
Qed.

Lemma add_missing_grows : forall ns g, grows g (g_add_missing g ns).
Proof.
  unfold g_add_missing. induction ns as [|n ns IH]; intros g; cbn; [apply grows_refl|].
  eapply grows_trans; [|apply IH].
  destruct (amem ident_eq_dec (g_nodes g) (n_id n)); [apply grows_refl | apply add_node_grows].
Qed.

Lemma add_missing_has : forall ns g n,
    nodes_consistent (g_nodes g) ns = true -> In n ns -> has_node (g_add_missing g ns) n.
Proof.
  induction ns as [|n0 ns IH]; intros g n C H; [destruct H|].
  cbn in C. change (g_add_missing g (n0 :: ns))
    with (g_add_missing (if amem ident_eq_dec (g_nodes g) (n_id n0) then g else fst (g_add_node g n0)) ns).
  unfold amem. destruct (aget ident_eq_dec (g_nodes g) (n_id n0)) as [n'|] eqn:G.
  - apply andb_true_iff in C. destruct C as [C1 C2].
    destruct H as [<-|H]; [|apply IH; assumption].
    unfold node_eqb in C1. destruct (node_eq_dec n' n0); [subst|discriminate].
    apply (gr_nodes _ _ (add_missing_grows ns g)). exact G.
  - assert (E : g_nodes (fst (g_add_node g n0)) = aset ident_eq_dec (g_nodes g) (n_id n0) n0).
    { unfold g_add_node, amem. rewrite G. reflexivity. }
    destruct H as [<-|H].
    + apply (gr_nodes _ _ (add_missing_grows ns _)). rewrite E. apply aget_aset_same.
    + apply IH; [rewrite E; assumption | assumption].
Qed.

(** all nodes present: nothing is added *)
Lemma add_missing_id : forall ns g,
    (forall n, In n ns -> amem ident_eq_dec (g_nodes g) (n_id n) = true) -> g_add_missing g ns = g.
Proof.
  unfold g_add_missing. induction ns as [|n ns IH]; intros g H; cbn; [reflexivity|].
  rewrite (H n) by (left; reflexivity). apply IH. intros; apply H; right; assumption.
Qed.

(** * add_node / new_node *)
Lemma g_add_node_ok : forall g n, graph_ok g -> graph_ok (fst (g_add_node g n)).
Proof. intros. eapply grows_ok; [eassumption | apply add_node_grows]. Qed.

(** * ext setter *)
Lemma g_set_ext_ok : forall g ns,
    graph_ok g -> nodes_consistent (g_nodes g) ns = true -> graph_ok (fst (g_set_ext g ns)).
Proof.
  intros g ns OK C. cbn.
  pose proof (grows_ok _ _ OK (add_missing_grows ns g)) as [N E T A X R Ty].
  split; auto. cbn. intros n H. apply (add_missing_has ns g n C H).
Qed.

(** * remove_edge *)
Lemma g_remove_edge_ok : forall g e, graph_ok g -> graph_ok (fst (g_remove_edge g e)).
Proof.
  intros g e OK. unfold g_remove_edge.
  destruct (negb (amem ident_eq_dec (g_edges g) (e_id e))); cbn; [assumption|].
  destruct OK as [N E T A X R Ty]. split; cbn; auto.
  - apply keyed_adel. assumption.
  - intros k e0 n H. apply In_adel in H. eapply A; eauto.
  - intros k e0 H. apply In_adel in H. eapply R; eauto.
  - intros k e0 H. apply In_adel in H. eapply Ty; eauto.
Qed.

Lemma g_remove_edge_edges : forall g e k e0,
    In (k, e0) (g_edges (fst (g_remove_edge g e))) -> In (k, e0) (g_edges g).
Proof.
  intros g e k e0. unfold g_remove_edge.
  destruct (negb (amem ident_eq_dec (g_edges g) (e_id e))); cbn; [auto|]. apply In_adel.
Qed.

(** * remove_node; the guard [remove_ok] is about the node actually stored under the id *)
Definition remove_guard (g : graph) (n : node) : bool :=
  match aget ident_eq_dec (g_nodes g) (n_id n) with
  | Some n' => node_eqb n' n ||
               (negb (existsb (fun ke => inb node_eq_dec n' (e_nodes (snd ke))) (g_edges g))
                && negb (inb node_eq_dec n' (g_ext g)))
  | None => true
  end.

Lemma g_remove_node_ok : forall g n,
    graph_ok g -> remove_guard g n = true -> graph_ok (fst (g_remove_node g n)).
Proof.
  intros g n OK G. unfold g_remove_node.
  destruct (negb (amem ident_eq_dec (g_nodes g) (n_id n))) eqn:M; cbn; [assumption|].
  destruct (existsb (fun ke => inb node_eq_dec n (e_nodes (snd ke))) (g_edges g)) eqn:EA; cbn; [assumption|].
  destruct (inb node_eq_dec n (g_ext g)) eqn:EX; cbn; [assumption|].
  apply negb_false_iff, amem_true in M. destruct M as [n' Hn'].
  unfold remove_guard in G. rewrite Hn' in G.
  (* the node stored under the id is neither attached nor external *)
  assert (FREE : existsb (fun ke => inb node_eq_dec n' (e_nodes (snd ke))) (g_edges g) = false
                 /\ inb node_eq_dec n' (g_ext g) = false).
  { apply orb_true_iff in G. destruct G as [G|G].
    - unfold node_eqb in G. destruct (node_eq_dec n' n); [subst; auto | discriminate].
    - apply andb_true_iff in G. destruct G as [G1 G2].
      apply negb_true_iff in G1. apply negb_true_iff in G2. auto. }
  destruct FREE as [F1 F2].
  destruct OK as [N E T A X R Ty].
  assert (KEEP : forall m, has_node g m -> m <> n' ->
                           aget ident_eq_dec (adel ident_eq_dec (g_nodes g) (n_id n)) (n_id m) = Some m).
  { intros m Hm Nm. rewrite aget_adel_other; [exact Hm|].
    intro Eid. unfold has_node in Hm. rewrite Eid in Hm. congruence. }
  split; cbn; auto.
  - apply keyed_adel. assumption.
  - intros k e m H1 H2. unfold has_node. cbn. apply KEEP; [eapply A; eauto|].
    intro Em. subst m.
    assert (Y : existsb (fun ke => inb node_eq_dec n' (e_nodes (snd ke))) (g_edges g) = true).
    { apply existsb_exists. exists (k, e). split; [assumption|]. cbn. apply inb_true. assumption. }
    congruence.
  - intros m H. unfold has_node. cbn. apply KEEP; [apply X; assumption|].
    intro Em. subst m. apply inb_false in F2. tauto.
Qed.

Lemma g_remove_node_same : forall g n,
    g_edges (fst (g_remove_node g n)) = g_edges g /\ g_ext (fst (g_remove_node g n)) = g_ext g.
Proof.
  intros. unfold g_remove_node.
  destruct (negb (amem ident_eq_dec (g_nodes g) (n_id n))); cbn; [auto|].
  destruct (existsb _ (g_edges g)); cbn; [auto|].
  destruct (inb node_eq_dec n (g_ext g)); cbn; auto.
Qed.

(** * add_edge *)
Lemma set_el_id : forall t, set_el t (t_el t) = t.
Proof. destruct t; reflexivity. Qed.

(** what add_edge returns: either nothing happened, or the missing nodes were added and the
    label clashed (F12), or the edge was stored *)
Lemma g_add_edge_cases : forall g e,
    tab_ok (g_tab g) ->
    let gm := g_add_missing g (e_nodes e) in
    (g_add_edge g e = (g, RErr ValueErr) /\ amem ident_eq_dec (g_edges g) (e_id e) = true)
    \/ (g_add_edge g e = (gm, RErr ValueErr) /\ amem ident_eq_dec (g_edges g) (e_id e) = false
        /\ label_conflict (g_tab g) (e_label e) = true)
    \/ (exists t', g_add_edge g e = (gset_edges (gset_tab gm t') (aset ident_eq_dec (g_edges g) (e_id e) e), ROk)
                   /\ amem ident_eq_dec (g_edges g) (e_id e) = false
                   /\ label_conflict (g_tab g) (e_label e) = false
                   /\ t_add_edge_label (g_tab gm) (e_label e) = (t', ROk)).
Proof.
  intros g e TO gm. unfold g_add_edge.
  destruct (amem ident_eq_dec (g_edges g) (e_id e)) eqn:M; [left; auto|right].
  fold gm.
  pose proof (add_missing_grows (e_nodes e) g) as GR. fold gm in GR.
  destruct (t_add_edge_label (g_tab gm) (e_label e)) as [t' r] eqn:E.
  pose proof (add_edge_label_spec _ _ _ _ E (gr_tab _ _ GR TO)) as (A & B & C & D & F & _).
  unfold t_add_edge_label in E.
  destruct (aget Nat.eq_dec (t_el (g_tab gm)) (el_name (e_label e))) as [l'|] eqn:G.
  - destruct (elabel_eq_dec l' (e_label e)) as [->|N].
    + inversion E; subst. right. eexists. split; [|split; [reflexivity|split]].
      * f_equal. cbn. rewrite (gr_edges _ _ GR).
        rewrite (aset_id Nat.eq_dec _ _ _ (aget_aset_same Nat.eq_dec (t_el (g_tab gm)) (el_name (e_label e)) (e_label e))).
        reflexivity.
      * unfold label_conflict, elabel_eqb. rewrite <- (gr_el _ _ GR), G.
        destruct (elabel_eq_dec (e_label e) (e_label e)); [reflexivity | congruence].
      * reflexivity.
    + inversion E; subst. left. repeat split; auto.
      unfold label_conflict, elabel_eqb. rewrite <- (gr_el _ _ GR), G.
      destruct (elabel_eq_dec l' (e_label e)); [congruence | reflexivity].
  - inversion E; subst. right. eexists. split; [|split; [reflexivity|split]].
    + f_equal. cbn. rewrite (gr_edges _ _ GR).
      rewrite (aset_id Nat.eq_dec _ _ _ (aget_aset_same Nat.eq_dec (t_el (g_tab gm)) (el_name (e_label e)) (e_label e))).
      reflexivity.
    + unfold label_conflict. rewrite <- (gr_el _ _ GR), G. reflexivity.
    + reflexivity.
Qed.

Lemma g_add_edge_ok : forall g e,
    graph_ok g -> el_ty (e_label e) = map n_label (e_nodes e) ->
    (snd (g_add_edge g e) = ROk -> nodes_consistent (g_nodes g) (e_nodes e) = true) ->
    graph_ok (fst (g_add_edge g e)).
Proof.
  intros g e OK TY C.
  pose proof (add_missing_grows (e_nodes e) g) as GR.
  pose proof (grows_ok _ _ OK GR) as OKm.
  destruct (g_add_edge_cases g e (gk_tab _ OK)) as [[E _]|[[E _]|(t' & E & M & _ & L)]]; rewrite E in *; cbn [fst snd] in *.
  - assumption.
  - assumption.
  - specialize (C eq_refl).
    pose proof (add_edge_label_spec _ _ _ _ L (gk_tab _ OKm)) as (A & B & R & _).
    specialize (R eq_refl).
    destruct OKm as [N Ed T At X Rg Ty]. rewrite (gr_edges _ _ GR) in *.
    split; cbn; auto.
    + apply keyed_aset. assumption.
    + intros k e0 n H1 H2. apply In_aset in H1. destruct H1 as [H1|H1].
      * inversion H1; subst. apply add_missing_has; assumption.
      * eapply At; eauto.
    + intros k e0 H1. apply In_aset in H1. destruct H1 as [H1|H1].
      * inversion H1; subst. exact R.
      * apply B. eapply Rg; eauto.
    + intros k e0 H1. apply In_aset in H1. destruct H1 as [H1|H1].
      * inversion H1; subst. exact TY.
      * eapply Ty; eauto.
Qed.

(** type and edge labels after add_edge *)
Lemma g_add_edge_shape : forall g e,
    tab_ok (g_tab g) ->
    g_ext (fst (g_add_edge g e)) = g_ext g /\
    forall k e0, In (k, e0) (g_edges (fst (g_add_edge g e))) ->
                 In (k, e0) (g_edges g) \/ (e0 = e /\ snd (g_add_edge g e) = ROk).
Proof.
  intros g e TO.
  pose proof (add_missing_grows (e_nodes e) g) as GR.
  destruct (g_add_edge_cases g e TO) as [[E _]|[[E _]|(t' & E & _)]]; rewrite E; cbn [fst snd].
  - auto.
  - rewrite (gr_ext _ _ GR), (gr_edges _ _ GR). auto.
  - cbn. rewrite (gr_ext _ _ GR). split; [reflexivity|].
    intros k e0 H. apply In_aset in H. destruct H as [H|H]; [inversion H; auto | auto].
Qed.
