(** C07 on typed operands, part 4: what [project] computes on a well-typed acyclic substitution.
    - the axes of a view ([fv_list] of the physical axes of the operand, through the substitution)
      are the leaves of the resolved physical axes, in order of first occurrence;
    - the keys of the stride dicts are unbound and are axes of the view;
    - the labels / sizes that the dense einsum derives from the equation over the views are the
      summed-out physical variables and their sizes. *)
From Coq Require Import List Arith Lia PeanoNat Bool PArith.
Import ListNotations.
Require Import Fggs.Model.Semiring.
Require Import Fggs.Model.Axis Fggs.Model.AxisCheck Fggs.Model.PTensor Fggs.Model.Einsum Fggs.Model.EinsumCert.
Require Import Fggs.Proofs.Axis_sem Fggs.Proofs.Axis_unify Fggs.Proofs.Axis_complete_gen Fggs.Proofs.Axis_repr.
Require Import Fggs.Proofs.Axis_typed Fggs.Proofs.Axis_rank Fggs.Proofs.Axis_stride_typed Fggs.Proofs.Axis_stride_total.
Require Import Fggs.Proofs.PTensor_dense Fggs.Proofs.Einsum_dense Fggs.Proofs.Einsum_envs Fggs.Proofs.Einsum_subst.
Require Import Fggs.Proofs.Einsum_views Fggs.Proofs.Einsum_reduce Fggs.Proofs.Einsum_main.
Require Import Fggs.Proofs.Einsum_typed_base.

(** * [fv_list] *)
Lemma fv_fold_inv fuel s : forall l a0 r, fold_left (fv_step fuel s) l (Ok a0) = Ok r ->
  exists rs, Forall2 (fun e r => fv_occ fuel s e = Ok r) l rs /\ r = a0 ++ concat rs.
Proof.
  induction l as [|x l IH]; intros a0 r H; cbn [fold_left] in H.
  - inversion H. exists []. split; [constructor|simpl; rewrite app_nil_r; reflexivity].
  - unfold fv_step at 2 in H. cbn [bind] in H. destruct (fv_occ fuel s x) as [rx|e'] eqn:Ex.
    + cbn [bind] in H. destruct (IH _ _ H) as (rs & F & E). exists (rx :: rs). split; [constructor; assumption|].
      rewrite E. simpl. rewrite app_assoc. reflexivity.
    + cbn [bind] in H. rewrite fold_fail in H; [discriminate|]. intros e0 x0. reflexivity.
Qed.

Lemma fv_list_inv fuel s es vars : fv_list fuel s es = Ok vars ->
  exists rs, Forall2 (fun e r => fv_occ fuel s e = Ok r) es rs /\ vars = dedup [] (concat rs).
Proof.
  unfold fv_list. change (fold_left _ es (Ok [])) with (fold_left (fv_step fuel s) es (Ok [])).
  destruct (fold_left (fv_step fuel s) es (Ok [])) as [r|] eqn:E; [|discriminate]. cbn [bind]. intros H. inversion H; subst.
  destruct (fv_fold_inv fuel s es [] r E) as (rs & F & Er). exists rs. split; [exact F|]. rewrite Er. reflexivity.
Qed.

(** the leaves of a list of physical axes *)
Definition lvs (s : subst) (F : nat) (ps : list pn) : list pn :=
  flat_map (fun kn : pn => fvn (resolve F s (Phys (fst kn) (snd kn)))) ps.

Lemma fv_list_leaves s F : (forall k n, closed s (resolve F s (Phys k n)) = true) ->
  forall fuel ps vars, fv_list fuel s (phys_axes ps) = Ok vars -> vars = dedup [] (lvs s F ps).
Proof.
  intros HC fuel ps vars H. destruct (fv_list_inv _ _ _ _ H) as (rs & F2 & ->). f_equal.
  clear H. unfold phys_axes in F2. remember (map _ ps) as l eqn:El. revert ps El.
  induction F2 as [|e r l rs Hr _ IH]; intros ps El; destruct ps as [|[k n] ps]; try discriminate; [reflexivity|].
  simpl in El. inversion El; subst. cbn [concat lvs flat_map fst snd]. f_equal.
  - symmetry. exact (fv_occ_leaves s _ _ _ Hr F (HC k n)).
  - apply IH. reflexivity.
Qed.

Lemma fv_list_closed fuel s es vars : (forall e, In e es -> closed s e = true) ->
  fv_list fuel s es = Ok vars -> vars = fvn_list es.
Proof.
  intros C H. destruct (fv_list_inv _ _ _ _ H) as (rs & F2 & ->). unfold fvn_list. f_equal. clear H. revert C.
  induction F2 as [|e r l rs Hr _ IH]; intros C; [reflexivity|]. simpl. f_equal.
  - symmetry. exact (fv_occ_leaves s _ _ _ Hr 0 (C e (or_introl eq_refl))).
  - apply IH. intros e' He'. apply C. right. exact He'.
Qed.

(** every key of [stride]'s dict is an axis [fv_occ] yields, hence a leaf *)
Lemma stride_keys_leaves s F : (forall k n, closed s (resolve F s (Phys k n)) = true) ->
  forall fuel k n o0 s0, stride fuel s (Phys k n) = Ok (o0, s0) ->
  forall j c, In (j, c) s0 -> assoc j s = None /\ In j (map fst (fvn (resolve F s (Phys k n)))).
Proof.
  intros HC fuel k n o0 s0 H j c Hj.
  assert (Hk : In j (keys s0)) by (unfold keys; apply in_map_iff; exists (j, c); auto).
  destruct (stride_keys_ok s _ _ _ _ H) as [_ K]. split; [exact (proj1 (K j Hk))|].
  destruct (stride_fv_occ s _ _ _ _ H) as (r & Er & Kr). rewrite (fv_occ_leaves s _ _ _ Er F (HC k n)). exact (Kr j Hk).
Qed.

(** * first occurrences *)
Lemma dedup_In_szok (P : pn -> Prop) (HP : forall k n n', P (k, n) -> P (k, n') -> n = n') l kn :
  (forall x, In x l -> P x) -> In kn l -> In kn (dedup [] l).
Proof.
  intros Hl Hin. destruct kn as [k n]. destruct (dedup_keys [] l k n Hin eq_refl) as (n' & Hn').
  pose proof (dedup_In_sub _ _ _ Hn') as Hs. rewrite (HP k n n' (Hl _ Hin) (Hl _ Hs)). exact Hn'.
Qed.

Lemma to_nat_eqb k k' : Nat.eqb (Pos.to_nat k) (Pos.to_nat k') = Pos.eqb k' k.
Proof.
  destruct (Pos.eqb_spec k' k) as [->|N]; [apply Nat.eqb_refl|]. apply Nat.eqb_neq. intros E. apply Pos2Nat.inj in E. congruence.
Qed.

Lemma dedup_filter_labels (out : list pn) : forall L seenP seenN,
  (forall k, existsb (Nat.eqb (Pos.to_nat k)) seenN = pmem k out || existsb (Pos.eqb k) seenP) ->
  map plabel (filter (fun kn : pn => negb (pmem (fst kn) out)) (dedup seenP L)) = dedup_nat seenN (map plabel L).
Proof.
  induction L as [|[k n] L IH]; intros seenP seenN Inv; [reflexivity|]. cbn [dedup map]. unfold plabel at 2. cbn [fst].
  cbn [dedup_nat]. rewrite (Inv k). destruct (existsb (Pos.eqb k) seenP) eqn:Es.
  - rewrite orb_true_r. apply IH. exact Inv.
  - rewrite orb_false_r. cbn [filter fst]. destruct (pmem k out) eqn:Eo; cbn [negb].
    + apply IH. intros k'. rewrite (Inv k'). cbn [existsb]. destruct (Pos.eqb_spec k' k) as [->|N]; [rewrite Eo; reflexivity|reflexivity].
    + cbn [map]. unfold plabel at 1. cbn [fst]. f_equal. apply IH. intros k'. cbn [existsb].
      rewrite (Inv k'), to_nat_eqb, (Pos.eqb_sym k k'). destruct (Pos.eqb k' k), (pmem k' out); reflexivity.
Qed.

Lemma pmem_labels k (out : list pn) : existsb (Nat.eqb (Pos.to_nat k)) (map plabel out) = pmem k out.
Proof.
  unfold pmem. induction out as [|[k' n] out IH]; [reflexivity|]. simpl. unfold plabel at 1. cbn [fst].
  rewrite to_nat_eqb, IH. reflexivity.
Qed.

Section Labels.
Context {R : Type}.
Notation view := (view (R:=R)).

(** the summed-out physical variables are the summed labels of the equation *)
Lemma summed_vars_labels (views : list view) (outp : list pn) :
  map plabel (summed_vars views outp) = summed_labels (map (fun v => map plabel (vw_vars v)) views) (map plabel outp).
Proof.
  unfold summed_vars, summed_labels.
  assert (E : concat (map (fun v : view => map plabel (vw_vars v)) views) = map plabel (flat_map (vw_vars (R:=R)) views)).
  { induction views as [|v views IH]; [reflexivity|]. simpl. rewrite map_app, IH. reflexivity. }
  rewrite E. apply dedup_filter_labels. intros k. rewrite pmem_labels. simpl. rewrite orb_false_r. reflexivity.
Qed.

Lemma label_sizes_views (views : list view) :
  label_sizes (map (fun v => map snd (vw_vars v)) views) (map (fun v => map plabel (vw_vars v)) views)
  = map (fun kn : pn => (plabel kn, snd kn)) (flat_map (vw_vars (R:=R)) views).
Proof.
  unfold label_sizes. rewrite combine_maps. induction views as [|v views IH]; [reflexivity|].
  cbn [map flat_map fst snd]. rewrite map_app, IH. f_equal. rewrite combine_maps. reflexivity.
Qed.

Lemma lval_label_sizes (U : list pn) kn : In kn U -> (forall kn', In kn' U -> fst kn' = fst kn -> snd kn' = snd kn) ->
  lval (map (fun kn : pn => (plabel kn, snd kn)) U) (plabel kn) = snd kn.
Proof.
  unfold lval. induction U as [|[k' n'] U IH]; intros Hin Hu; [contradiction|]. cbn [map lassoc]. unfold plabel at 1. cbn [fst snd].
  destruct (Nat.eqb_spec (Pos.to_nat k') (plabel kn)) as [E|N].
  - unfold plabel in E. apply Pos2Nat.inj in E. exact (Hu (k', n') (or_introl eq_refl) E).
  - destruct Hin as [<-|Hin]; [exfalso; apply N; reflexivity|]. apply IH; [exact Hin|]. intros kn' H'. apply Hu. right. exact H'.
Qed.
End Labels.

(** * [pop] of the output indices (the Viterbi variant) *)
Lemma filter_filter {A} (p q : A -> bool) l : filter p (filter q l) = filter (fun x => q x && p x) l.
Proof. induction l as [|x l IH]; [reflexivity|]. simpl. destruct (q x); simpl; [destruct (p x); rewrite IH; reflexivity|exact IH]. Qed.

Lemma pop_each_filter output : forall (i2v : list (nat * axis)),
  pop_each output i2v = filter (fun le => negb (existsb (Nat.eqb (fst le)) output)) i2v.
Proof.
  induction output as [|l out IH]; intros i2v.
  - simpl. symmetry. clear. induction i2v as [|x l IH]; [reflexivity|]. simpl. rewrite IH. reflexivity.
  - cbn [pop_each]. rewrite IH, filter_filter. apply filter_ext. intros le. cbn [existsb]. rewrite negb_orb. reflexivity.
Qed.

Lemma map_fst_filter {A B} (p : A -> bool) (l : list (A * B)) : map fst (filter (fun x => p (fst x)) l) = filter p (map fst l).
Proof. induction l as [|x l IH]; [reflexivity|]. simpl. destruct (p (fst x)); simpl; rewrite IH; reflexivity. Qed.

Lemma filter_dedup_nat out : forall L seen seen',
  (forall x, existsb (Nat.eqb x) seen' = existsb (Nat.eqb x) out || existsb (Nat.eqb x) seen) ->
  filter (fun x => negb (existsb (Nat.eqb x) out)) (dedup_nat seen L) = dedup_nat seen' L.
Proof.
  induction L as [|x L IH]; intros seen seen' Inv; [reflexivity|]. cbn [dedup_nat]. rewrite (Inv x).
  destruct (existsb (Nat.eqb x) seen) eqn:Es.
  - rewrite orb_true_r. apply IH. exact Inv.
  - rewrite orb_false_r. cbn [filter]. destruct (existsb (Nat.eqb x) out) eqn:Eo; cbn [negb].
    + apply IH. intros y. rewrite (Inv y). cbn [existsb]. destruct (Nat.eqb_spec y x) as [->|N]; [rewrite Eo; reflexivity|reflexivity].
    + f_equal. apply IH. intros y. cbn [existsb]. rewrite (Inv y). destruct (Nat.eqb y x), (existsb (Nat.eqb y) out); reflexivity.
Qed.

Lemma map_fst_combine_gen {A B} (l : list A) (l' : list B) : length l = length l' -> map fst (combine l l') = l.
Proof. revert l'. induction l as [|x l IH]; intros [|y l'] H; try discriminate; [reflexivity|]. simpl. f_equal. apply IH. simpl in H. lia. Qed.

Lemma occ_labels {R : Type} (ts : list (ptensor R)) inputs :
  Forall2 (fun t inp => length (vaxes t) = length inp) ts inputs -> map fst (occurrences ts inputs) = concat inputs.
Proof.
  induction 1 as [|t inp ts inputs Ft _ IH]; [reflexivity|]. unfold occurrences in *. cbn [combine flat_map fst snd concat].
  rewrite map_app, IH, map_fst_combine_gen by (symmetry; exact Ft). reflexivity.
Qed.

(** [stride] of a typed axis answers within the fuel [einsum] gives it *)
Lemma stride_total_sfuel G sigma e ps : wts G sigma -> ty G e ps -> exists o0 s0, stride (sfuel sigma [e]) sigma e = Ok (o0, s0).
Proof.
  intros W T. set (w := fold_right Nat.max 0 (map (fun j => tws (G j)) (fv e))).
  apply (stride_total_w G sigma W w _ e ps T).
  - intros j Hj. unfold w. clear -Hj. induction (fv e) as [|x l IH]; [contradiction|]. simpl. destruct Hj as [->|Hj]; [lia|]. specialize (IH Hj). lia.
  - unfold sfuel. pose proof (budget_le_all G sigma w). simpl. lia.
Qed.

(** * booleans *)
Lemma Forall2_forallb_combine {A B} (p : A * B -> bool) (l : list A) (l' : list B) :
  Forall2 (fun a b => p (a, b) = true) l l' -> forallb p (combine l l') = true.
Proof. induction 1 as [|a b l l' E _ IH]; [reflexivity|]. simpl. rewrite E, IH. reflexivity. Qed.

Lemma NoDup_map_filter {A B} (f : A -> B) (p : A -> bool) l : NoDup (map f l) -> NoDup (map f (filter p l)).
Proof.
  induction l as [|x l IH]; intros N; [constructor|]. simpl in N. inversion N as [|? ? Hx N']; subst. simpl.
  destruct (p x); [|apply IH; exact N']. simpl. constructor; [|apply IH; exact N'].
  intros H. apply Hx. apply in_map_iff in H. destruct H as (y & E & Hy). apply filter_In in Hy. apply in_map_iff. exists y. tauto.
Qed.
