(** C09 tier B -- the boolean oracles of Model/PSolve.v decide what they say (on patterns whose
    physical axes have one size each, [sizes_consistent]):
    [sup_rows e] enumerates the support of [e] without repetition and below [numel e];
    [contains_b], [closed_b], [disjoint_b] are sound. *)
From Coq Require Import List Arith Lia PeanoNat Bool PArith Permutation.
Import ListNotations.
Require Import Fggs.Model.Axis Fggs.Model.AxisCheck Fggs.Model.PTensor Fggs.Model.PSolve.
Require Import Fggs.Proofs.Axis_sem Fggs.Proofs.Axis_unify Fggs.Proofs.Axis_antiunify Fggs.Proofs.Axis_antiunify_inv.
Require Import Fggs.Proofs.Axis_repr Fggs.Proofs.PTensor_dense Fggs.Proofs.PTensor_gen.
Require Import Fggs.Proofs.PSolve_anti Fggs.Proofs.PSolve_step Fggs.Proofs.PSolve_loop Fggs.Proofs.PSolve_term Fggs.Proofs.PSolve_fuel.
Require Import Fggs.Proofs.Axis_complete_gen.
Require Fggs.Proofs.Einsum_envs Fggs.Proofs.BigSum.

Lemma nat_mem_iff v l : nat_mem v l = true <-> In v l.
Proof.
  unfold nat_mem. rewrite existsb_exists. split.
  - intros (x & Hx & E). apply Nat.eqb_eq in E. subst. exact Hx.
  - intros H. exists v. split; [exact H|apply Nat.eqb_refl].
Qed.

(** * enumerated environments of a pattern *)
Section Envs.
Variable es : list axis.
(** every physical axis has one size *)
Hypothesis SC : forall k n n', In (k, n) (flat_map fvn es) -> In (k, n') (flat_map fvn es) -> n = n'.

Lemma fvn_list_nodup : NoDup (map fst (fvn_list es)).
Proof. apply dd_nodup. Qed.

Lemma fvn_list_occ k n : In (k, n) (flat_map fvn es) -> In (k, n) (fvn_list es).
Proof.
  intros H. destruct (dedup_keys [] (flat_map fvn es) k n H eq_refl) as (n' & Hn').
  pose proof (dedup_In_sub _ _ _ Hn') as Hn''.
  rewrite (SC k n n' H Hn''). exact Hn'.
Qed.

Lemma sup_envs_inrange pi : In pi (sup_envs es) -> Forall (inrange (env_of pi)) es.
Proof.
  intros Hp. apply inrange_list_fvn. intros k n Hk.
  exact (env_of_in_range (fvn_list es) pi fvn_list_nodup Hp k n (fvn_list_occ k n Hk)).
Qed.

Lemma sup_envs_complete rho : Forall (inrange rho) es ->
  exists pi, In pi (sup_envs es) /\ forall k, In k (flat_map fv es) -> env_of pi k = rho k.
Proof.
  intros R. exists (map (fun kn : pn => (fst kn, rho (fst kn))) (fvn_list es)). split.
  - apply all_envs_complete. intros k n Hk. apply dedup_In_sub in Hk.
    exact (proj1 (inrange_list_fvn rho es) R k n Hk).
  - intros k Hk. unfold env_of. rewrite (assoc_restrict rho (fvn_list es) k); [reflexivity|].
    apply In_fv_fvn in Hk. destruct Hk as (n & Hn). apply in_map_iff. exists (k, n). split; [reflexivity|exact (fvn_list_occ k n Hn)].
Qed.
End Envs.

Lemma flat1_fvn e : flat_map fvn [e] = fvn e.
Proof. simpl. apply app_nil_r. Qed.
Lemma flat1_fv e : flat_map fv [e] = fv e.
Proof. simpl. apply app_nil_r. Qed.

(** * [sup_rows] is the support *)
Section Rows.
Variable e : axis.
Hypothesis SC : forall k n n', In (k, n) (fvn e) -> In (k, n') (fvn e) -> n = n'.

Lemma SC1 : forall k n n', In (k, n) (flat_map fvn [e]) -> In (k, n') (flat_map fvn [e]) -> n = n'.
Proof. rewrite flat1_fvn. exact SC. Qed.

Theorem sup_rows_rng v : In v (sup_rows e) <-> rng e v.
Proof.
  unfold sup_rows. rewrite in_map_iff. split.
  - intros (pi & E & Hp). exists (env_of pi). split; [|exact E].
    pose proof (sup_envs_inrange [e] SC1 pi Hp) as R. inversion R; assumption.
  - intros (rho & R & E). destruct (sup_envs_complete [e] SC1 rho) as (pi & Hp & Ag); [constructor; [exact R|constructor]|].
    exists pi. split; [|exact Hp]. rewrite <- E. apply eval_ext. intros k Hk. apply Ag. rewrite flat1_fv. exact Hk.
Qed.

Theorem sup_rows_nodup : NoDup (sup_rows e).
Proof.
  unfold sup_rows. apply Fggs.Proofs.BigSum.NoDup_map_inj; [|apply Fggs.Proofs.Einsum_envs.NoDup_all_envs].
  intros p1 p2 H1 H2 E. apply (Fggs.Proofs.Einsum_envs.envs_eq (fvn_list [e])); [exact H1|exact H2|apply dd_nodup|].
  intros k Hk.
  pose proof (sup_envs_inrange [e] SC1 p1 H1) as R1. pose proof (sup_envs_inrange [e] SC1 p2 H2) as R2.
  apply (pattern_injective [e] (env_of p1) (env_of p2) R1 R2); [simpl; rewrite E; reflexivity|].
  rewrite flat1_fv. apply fv_of_fvn. apply in_map_iff in Hk. destruct Hk as ([k' n] & Ek & Hk). simpl in Ek. subst k'.
  exists n. apply dedup_In_sub in Hk. rewrite flat1_fvn in Hk. exact Hk.
Qed.

Theorem sup_rows_bound v : In v (sup_rows e) -> v < numel e.
Proof. intros H. apply sup_rows_rng in H. destruct H as (rho & R & <-). apply eval_bound. exact R. Qed.
End Rows.

(** * the oracles *)
Theorem contains_b_sound b0 g : sizes_consistent (fvn b0) = true -> sizes_consistent (fvn g) = true ->
  contains_b b0 g = true -> forall v, rng b0 v -> rng g v.
Proof.
  intros S0 Sg H v Hv. unfold contains_b in H. rewrite forallb_forall in H.
  assert (S0' := sizes_consistent_spec _ S0); clear S0; rename S0' into S0. assert (Sg' := sizes_consistent_spec _ Sg); clear Sg; rename Sg' into Sg.
  apply (sup_rows_rng g Sg). apply nat_mem_iff. apply H. apply (sup_rows_rng b0 S0). exact Hv.
Qed.

Theorem closed_b_sound a0 a1 g : sizes_consistent (fvn a0 ++ fvn a1) = true -> sizes_consistent (fvn g) = true ->
  closed_b a0 a1 g = true -> closed_under a0 a1 (rng g).
Proof.
  intros Sa Sg H v' (rho & R0 & R1 & Hg & E). unfold closed_b in H. rewrite forallb_forall in H.
  assert (Sg' := sizes_consistent_spec _ Sg); clear Sg; rename Sg' into Sg.
  assert (SC : forall k n n', In (k, n) (flat_map fvn [a0; a1]) -> In (k, n') (flat_map fvn [a0; a1]) -> n = n')
    by (simpl; rewrite app_nil_r; exact (sizes_consistent_spec _ Sa)).
  destruct (sup_envs_complete [a0; a1] SC rho) as (pi & Hp & Ag); [constructor; [exact R0|constructor; [exact R1|constructor]]|].
  specialize (H pi Hp).
  assert (E0 : eval (env_of pi) a0 = eval rho a0).
  { apply eval_ext. intros k Hk. apply Ag. simpl. apply in_or_app. left. exact Hk. }
  assert (E1 : eval (env_of pi) a1 = eval rho a1).
  { apply eval_ext. intros k Hk. apply Ag. simpl. apply in_or_app. right. rewrite app_nil_r. exact Hk. }
  rewrite E0, E1 in H. apply orb_true_iff in H. destruct H as [H|H].
  - apply negb_true_iff in H. apply (sup_rows_rng g Sg) in Hg. apply nat_mem_iff in Hg. congruence.
  - rewrite <- E. apply (sup_rows_rng g Sg). apply nat_mem_iff. exact H.
Qed.

Theorem disjoint_b_sound a1 g : sizes_consistent (fvn a1) = true -> sizes_consistent (fvn g) = true ->
  disjoint_b a1 g = true -> forall v, rng g v -> rng a1 v -> False.
Proof.
  intros S1 Sg H v Hg Ha. unfold disjoint_b in H. rewrite forallb_forall in H.
  assert (S1' := sizes_consistent_spec _ S1); clear S1; rename S1' into S1. assert (Sg' := sizes_consistent_spec _ Sg); clear Sg; rename Sg' into Sg.
  apply (sup_rows_rng a1 S1) in Ha. specialize (H v Ha). apply negb_true_iff in H.
  apply (sup_rows_rng g Sg) in Hg. apply nat_mem_iff in Hg. congruence.
Qed.

(** the oracles are also complete (a rejection is a genuine failure) *)
Theorem closed_b_complete a0 a1 g : sizes_consistent (fvn a0 ++ fvn a1) = true -> sizes_consistent (fvn g) = true ->
  closed_under a0 a1 (rng g) -> closed_b a0 a1 g = true.
Proof.
  intros Sa Sg C. unfold closed_b. rewrite forallb_forall. intros pi Hp.
  assert (Sg' := sizes_consistent_spec _ Sg); clear Sg; rename Sg' into Sg.
  assert (SC : forall k n n', In (k, n) (flat_map fvn [a0; a1]) -> In (k, n') (flat_map fvn [a0; a1]) -> n = n')
    by (simpl; rewrite app_nil_r; exact (sizes_consistent_spec _ Sa)).
  pose proof (sup_envs_inrange [a0; a1] SC pi Hp) as R. inversion R as [|? ? R0 R']; subst. inversion R' as [|? ? R1 _]; subst.
  destruct (nat_mem (eval (env_of pi) a1) (sup_rows g)) eqn:M; [|reflexivity]. simpl.
  apply nat_mem_iff. apply (sup_rows_rng g Sg). apply C. exists (env_of pi).
  split; [exact R0|]. split; [exact R1|]. split; [|reflexivity]. apply (sup_rows_rng g Sg). apply nat_mem_iff. exact M.
Qed.
