(** C15: graphs obtained through the construction / conversion / copy paths of the library.
    - the observation oracle [build_check] is exact: verdict 0 iff the observed [.type] IS the list of the
      labels of the external nodes, [.arity] their number, the content relation holds and every
      [HRGRule(lhs, g)] attempt ended as [rule_accepts] says;
    - [replace_edge_model] reads nothing of the replacement but [nodes()], [edges()] and [ext]: two
      replacements with the same content (whatever object built them, whatever their label tables or any
      cached attribute) give the same result, in particular the same accept / reject decision. *)
From Coq Require Import List Arith Bool PeanoNat Lia.
Import ListNotations.
Require Import Fggs.Model.Semiring Fggs.Model.Replace Fggs.Model.ReplaceCheck Fggs.Proofs.Replace_base.

Lemma type_obs_ok_exact : forall ty ar g,
  type_obs_ok ty ar g = true <-> ty = gtype g /\ ar = length (g_ext g).
Proof.
  intros. unfold type_obs_ok. rewrite andb_true_iff, (list_eqb_eq Nat.eqb Nat.eqb_eq), Nat.eqb_eq. tauto.
Qed.

Lemma rule_accepts_exact : forall lhs g,
  rule_accepts lhs g = true <-> l_term lhs = false /\ l_type lhs = gtype g.
Proof.
  intros. unfold rule_accepts. rewrite andb_true_iff, negb_true_iff, (list_eqb_eq Nat.eqb Nat.eqb_eq). tauto.
Qed.

(** every recorded [HRGRule(lhs, g)] attempt: accepted (0) iff the lhs is a nonterminal of the graph's
    type, raised (1) otherwise *)
Lemma rules_obs_ok_exact : forall rules g,
  rules_obs_ok rules g = true <->
  forall lhs st, In (lhs, st) rules ->
    (st = 0 /\ l_term lhs = false /\ l_type lhs = gtype g) \/ (st = 1 /\ rule_accepts lhs g = false).
Proof.
  intros. unfold rules_obs_ok. rewrite forallb_forall. split.
  - intros H lhs st Hin. specialize (H _ Hin). simpl in H. apply Nat.eqb_eq in H.
    destruct (rule_accepts lhs g) eqn:E; subst.
    + left. apply rule_accepts_exact in E. tauto.
    + right. auto.
  - intros H [lhs st] Hin. specialize (H _ _ Hin). simpl. apply Nat.eqb_eq.
    destruct H as [[-> H] | [-> H]].
    + apply rule_accepts_exact in H. rewrite H. reflexivity.
    + rewrite H. reflexivity.
Qed.

Lemma content_eqb_exact0 : forall a b,
  content_eqb 0 a b = true <-> g_nodes a = g_nodes b /\ g_edges a = g_edges b /\ g_ext a = g_ext b.
Proof.
  intros. unfold content_eqb.
  rewrite !andb_true_iff, !(list_eqb_eq node_eqb node_eqb_eq), (list_eqb_eq edge_eqb edge_eqb_eq). tauto.
Qed.

Theorem build_check_exact : forall wsrc wout mode ty ar wrules,
  build_check (wsrc, wout, mode, (ty, ar), wrules) = 0 <->
  (ty = gtype (d_graph wout) /\ ar = length (g_ext (d_graph wout)))
  /\ content_eqb mode (d_graph wsrc) (d_graph wout) = true
  /\ rules_obs_ok (map (fun p => (d_lab (fst p), snd p)) wrules) (d_graph wout) = true.
Proof.
  intros. unfold build_check. rewrite <- type_obs_ok_exact.
  destruct (type_obs_ok ty ar (d_graph wout)); simpl; [| split; [discriminate | intros [H _]; discriminate]].
  destruct (content_eqb mode (d_graph wsrc) (d_graph wout)); simpl; [| split; [discriminate | intros [_ [H _]]; discriminate]].
  destruct (rules_obs_ok _ (d_graph wout)); simpl; [tauto | split; [discriminate | intros [_ [_ H]]; discriminate]].
Qed.

(** verdict 1 is a genuine failing input: the observed type is NOT the labels of the external nodes *)
Theorem build_check_type_rejects : forall wsrc wout mode ty ar wrules,
  build_check (wsrc, wout, mode, (ty, ar), wrules) = 1 <->
  ~ (ty = gtype (d_graph wout) /\ ar = length (g_ext (d_graph wout))).
Proof.
  intros. unfold build_check. rewrite <- type_obs_ok_exact.
  destruct (type_obs_ok ty ar (d_graph wout)); simpl.
  - split; [| intros H; exfalso; apply H; reflexivity].
    destruct (content_eqb _ _ _); simpl; [| discriminate]. destruct (rules_obs_ok _ _); simpl; discriminate.
  - split; [intros _ H; discriminate | reflexivity].
Qed.

(** the model of replace_edge reads the replacement only through nodes(), edges(), ext *)
Theorem replace_only_reads_content : forall g nx e r r',
  g_nodes r = g_nodes r' -> g_edges r = g_edges r' -> g_ext r = g_ext r' ->
  replace_edge_model g nx e r = replace_edge_model g nx e r'.
Proof.
  intros g nx e r r' Hn He Hx. unfold replace_edge_model, gtype. rewrite Hn, He, Hx. reflexivity.
Qed.

Corollary replace_same_content : forall g nx e r r',
  content_eqb 0 r r' = true -> replace_edge_model g nx e r = replace_edge_model g nx e r'.
Proof.
  intros g nx e r r' H. apply content_eqb_exact0 in H. destruct H as [Hn [He Hx]].
  apply replace_only_reads_content; auto.
Qed.

(** wrong type: ValueError with the graph untouched -- for EVERY replacement, well-formed or not, and the
    type is the list of the labels of its external nodes *)
Theorem replace_wrong_type_rejected : forall g nx e r,
  l_type (e_label e) <> map n_label (g_ext r) -> replace_edge_model g nx e r = (g, nx, Err ValueErr).
Proof.
  intros g nx e r H. unfold replace_edge_model.
  destruct (list_eqb Nat.eqb (l_type (e_label e)) (gtype r)) eqn:E; simpl; [| reflexivity].
  apply (list_eqb_eq Nat.eqb Nat.eqb_eq) in E. contradiction.
Qed.

(** non-trivial instance: a fragment of type [0;1] with an internal node *)
Example build_check_example :
  let n0 := ((0, 0), 0) in let n1 := ((0, 1), 1) in let n2 := ((1, 0), 1) in
  let f := (0, [0; 1], true) in
  let g := ([n0; n1; n2], [((0, 2), f, [n0; n1]); ((1, 1), f, [n0; n2])], [n0; n1], [f], [0; 1]) in
  build_check (g, g, 0, ([0; 1], 2), [((1, [0; 1], false), 0); ((2, [], false), 1); (f, 1)]) = 0
  /\ build_check (g, g, 0, ([], 2), []) = 1
  /\ build_check (g, g, 0, ([0; 1], 2), [((1, [0; 1], false), 1)]) = 3.
Proof. vm_compute. auto. Qed.
