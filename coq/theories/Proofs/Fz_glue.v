(** C05, grammar level, part 2: what [factorize_hrg] / [factorize_fgg] (Model/Factorize.v) do
    with the outputs of the [factorize_rule] calls ([fz_spec]): the label table of the new grammar
    EXTENDS the old one (old labels keep their numbers, new ones are appended), the rules of the
    new grammar are the rules returned by the calls (regrouped by left-hand side: a
    permutation), the fresh left-hand sides have pairwise different names over the WHOLE grammar,
    none of them the name of a label of the input grammar, and every left-hand side is in the
    table. *)
From Coq Require Import List Arith Bool PeanoNat Lia Permutation.
Import ListNotations.
Require Import Fggs.Model.Conj Fggs.Proofs.ConjBase Fggs.Proofs.ConjNames.
Require Import Fggs.Model.TreeDec Fggs.Proofs.TreeDec_graph Fggs.Proofs.TreeDec_tdok Fggs.Model.Factorize
               Fggs.Proofs.Fz_fresh Fggs.Proofs.Fz_rooted Fggs.Proofs.Fz_struct Fggs.Proofs.Fz_main
               Fggs.Proofs.Fz_bridge Fggs.Proofs.Fz_final Fggs.Proofs.Fz_post.

(** one call: (the rule, the fresh rules, the new rule for the original left-hand side) *)
Definition call := (frule * list frule * frule)%type.
Definition c_rule (x : call) : frule := fst (fst x).
Definition c_front (x : call) : list frule := snd (fst x).
Definition c_last (x : call) : frule := snd x.
Definition seg (x : call) : list frule := c_front x ++ [c_last x].
Definition all_fronts (cs : list call) : list frule := flat_map c_front cs.
Definition lname (c : frule) : str := el_name (fr_lhs c).

(** the call was made with a label set containing the labels of [g], on a valid decomposition *)
Definition call_ok (g : fhrg) (x : call) : Prop :=
  exists labels t ords ls, incl (fh_elabels g) labels /\ ftd_wfb t = true
    /\ valid_td (primal (c_rule x)) (td_of_ftd t)
    /\ factorize_rule_model (c_rule x) labels t ords = Ok (seg x, ls).

Definition lhs_in (h : fhrg) : Prop := forall c, In c (fh_all_rules h) -> In (fr_lhs c) (fh_elabels h).

Record fz_spec (g g' : fhrg) (cs : list call) : Prop := {
  fs_tbl : exists extra, fh_elabels g' = fh_elabels g ++ extra;
  fs_start : fh_start g' = fh_start g;
  fs_perm : Permutation (fh_all_rules g') (flat_map seg cs);
  fs_rules : map c_rule cs = fh_all_rules g;
  fs_calls : forall x, In x cs -> call_ok g x;
  fs_nodup : NoDup (map lname (all_fronts cs));
  fs_lhs_in : lhs_in g' }.

(** * the label table only grows at its end *)
Lemma add_elabel_ext tbl l tbl' : add_elabel tbl l = Ok tbl' -> (exists ex, tbl' = tbl ++ ex) /\ In l tbl'.
Proof.
  unfold add_elabel. destruct (find _ tbl) as [x|] eqn:F.
  - destruct (elabel_eqb x l) eqn:E; [|discriminate]. intros [= <-]. apply elabel_eqb_eq in E. subst x.
    split; [exists []; now rewrite app_nil_r|]. apply find_some in F. tauto.
  - intros [= <-]. split; [eexists; reflexivity|]. apply in_or_app. right. now left.
Qed.
Lemma mfold_add_elabel_ext ls : forall tbl tbl', mfold add_elabel ls tbl = Ok tbl' -> exists ex, tbl' = tbl ++ ex.
Proof.
  induction ls as [|l ls IH]; intros tbl tbl' H; cbn [mfold] in H.
  - injection H as <-. exists []. now rewrite app_nil_r.
  - destruct (add_elabel tbl l) as [t1|e] eqn:E; [|discriminate].
    destruct (add_elabel_ext _ _ _ E) as [(ex1 & ->) _]. destruct (IH _ _ H) as (ex2 & ->).
    exists (ex1 ++ ex2). now rewrite app_assoc.
Qed.

Lemma rules_append_perm rs c :
  Permutation (concat (map snd (rules_append rs c))) (concat (map snd rs) ++ [c]).
Proof.
  induction rs as [|p rs IH]; cbn [rules_append map concat snd app]; [apply Permutation_refl|].
  destruct (elabel_eqb (fst p) (fr_lhs c)); cbn [map concat snd].
  - rewrite <- !app_assoc. apply Permutation_app_head. apply Permutation_app_comm.
  - rewrite <- app_assoc. now apply Permutation_app_head.
Qed.

Lemma hrg_add_rule_spec h c h' : hrg_add_rule h c = Ok h' ->
  (exists ex, fh_elabels h' = fh_elabels h ++ ex) /\ fh_start h' = fh_start h
  /\ Permutation (fh_all_rules h') (fh_all_rules h ++ [c]) /\ In (fr_lhs c) (fh_elabels h').
Proof.
  unfold hrg_add_rule. destruct (add_elabel (fh_elabels h) (fr_lhs c)) as [els|e] eqn:E1; [|discriminate]. cbn [bind].
  destruct (mfold add_elabel (map fe_lab (fr_edges c)) els) as [els'|e] eqn:E2; [|discriminate]. cbn [bind].
  intros [= <-]. cbn [fh_elabels fh_start fh_rules]. unfold fh_all_rules. cbn [fh_rules].
  destruct (add_elabel_ext _ _ _ E1) as [(ex1 & ->) Hin]. destruct (mfold_add_elabel_ext _ _ _ E2) as (ex2 & ->).
  split; [exists (ex1 ++ ex2); now rewrite app_assoc|]. split; [reflexivity|]. split; [apply rules_append_perm|].
  apply in_or_app. now left.
Qed.

Lemma mfold_add_rule_spec cs : forall h h', mfold hrg_add_rule cs h = Ok h' ->
  (exists ex, fh_elabels h' = fh_elabels h ++ ex) /\ fh_start h' = fh_start h
  /\ Permutation (fh_all_rules h') (fh_all_rules h ++ cs) /\ (lhs_in h -> lhs_in h').
Proof.
  induction cs as [|c cs IH]; intros h h' H; cbn [mfold] in H.
  - injection H as <-. split; [exists []; now rewrite app_nil_r|]. split; [reflexivity|].
    split; [now rewrite app_nil_r|auto].
  - destruct (hrg_add_rule h c) as [h1|e] eqn:E; [|discriminate].
    destruct (hrg_add_rule_spec _ _ _ E) as ((ex1 & T1) & S1 & P1 & I1).
    destruct (IH _ _ H) as ((ex2 & T2) & S2 & P2 & I2).
    split; [exists (ex1 ++ ex2); now rewrite T2, T1, app_assoc|]. split; [congruence|]. split.
    + eapply perm_trans; [exact P2|]. eapply perm_trans; [apply Permutation_app_tail; exact P1|].
      rewrite <- app_assoc. reflexivity.
    + intro L. apply I2. intros d Hd. eapply Permutation_in in Hd; [|exact P1]. apply in_app_or in Hd.
      destruct Hd as [Hd|[<-|[]]]; [|exact I1]. rewrite T1. apply in_or_app. left. now apply L.
Qed.

(** * the loop of [factorize_hrg] *)
Lemma flat_map_snoc {A B} (f : A -> list B) l x : flat_map f (l ++ [x]) = flat_map f l ++ f x.
Proof. rewrite flat_map_app. cbn [flat_map]. now rewrite app_nil_r. Qed.

Record inv (g gn : fhrg) (L : list elabel) (done : list call) : Prop := {
  iv_tbl : exists extra, fh_elabels gn = fh_elabels g ++ extra;
  iv_start : fh_start gn = fh_start g;
  iv_perm : Permutation (fh_all_rules gn) (flat_map seg done);
  iv_L : incl (fh_elabels g) L;
  iv_fresh_L : incl (map fr_lhs (all_fronts done)) L;
  iv_nodup : NoDup (map lname (all_fronts done));
  iv_lhs_in : lhs_in gn;
  iv_calls : forall x, In x done -> call_ok g x }.

Lemma hrg_loop_spec g (ps : list (frule * rule_oracle)) : forall gn L done x,
  (forall p, In p ps -> wf_rule (fst p) /\ ftd_wfb (fst (snd p)) = true
                        /\ valid_td (primal (fst p)) (td_of_ftd (fst (snd p)))) ->
  inv g gn L done ->
  mfold (fun (acc : fhrg * list elabel) (p : frule * rule_oracle) =>
           y <- factorize_rule_model (fst p) (snd acc) (fst (snd p)) (snd (snd p)) ;;
           gn <- mfold hrg_add_rule (fst y) (fst acc) ;;
           Ok (gn, snd y)) ps (gn, L) = Ok x ->
  exists done', inv g (fst x) (snd x) (done ++ done') /\ map c_rule done' = map fst ps.
Proof.
  induction ps as [|p ps IH]; intros gn L done x HP I H; cbn [mfold] in H.
  - injection H as <-. exists []. rewrite app_nil_r. split; [exact I|reflexivity].
  - cbn [fst snd] in H.
    destruct (factorize_rule_model (fst p) L (fst (snd p)) (snd (snd p))) as [[rs ls]|e] eqn:E1; [|discriminate]. cbn [bind fst snd] in H.
    destruct (mfold hrg_add_rule rs gn) as [gn'|e] eqn:E2; [|discriminate]. cbn [bind] in H.
    destruct (HP p (or_introl eq_refl)) as (W & WF & V).
    destruct (edges_once_final _ _ _ _ _ _ W WF V E1) as (front & last & -> & _).
    pose proof (call_facts_model _ _ _ _ _ _ _ W WF V E1) as CF.
    destruct (mfold_add_rule_spec _ _ _ E2) as ((ex2 & T2) & S2 & P2 & I2).
    destruct I as [(ex1 & T1) S1 P1 L1 F1 N1 I1 C1].
    assert (LL : incl L ls).
    { intros l Hl. eapply Permutation_in; [apply Permutation_sym, (cf_labels _ _ _ _ _ CF)|].
      apply in_or_app. right. unfold init_labels. apply in_or_app. right. now right. }
    set (x0 := ((fst p, front, last) : call)).
    assert (I' : inv g gn' ls (done ++ [x0])).
    { constructor.
      - exists (ex1 ++ ex2). now rewrite T2, T1, app_assoc.
      - congruence.
      - rewrite flat_map_snoc. eapply perm_trans; [exact P2|]. now apply Permutation_app_tail.
      - eapply incl_tran; eauto.
      - unfold all_fronts. rewrite flat_map_snoc, map_app. apply incl_app; [eapply incl_tran; eauto|].
        intros l Hl. eapply Permutation_in; [apply Permutation_sym, (cf_labels _ _ _ _ _ CF)|].
        apply in_or_app. now left.
      - unfold all_fronts. rewrite flat_map_snoc, map_app. apply NoDup_app_intro'; [exact N1|apply CF|].
        intros nmx H1 H2. apply in_map_iff in H2. destruct H2 as (c & <- & Hc).
        apply (cf_new _ _ _ _ _ CF c Hc). unfold init_labels. rewrite map_app, in_app_iff. right. right.
        apply in_map_iff in H1. destruct H1 as (d & Ed & Hd). unfold lname in Ed. rewrite <- Ed.
        apply in_map. apply F1. now apply in_map.
      - now apply I2.
      - intros y Hy. apply in_app_or in Hy. destruct Hy as [Hy|[<-|[]]]; [now apply C1|].
        exists L, (fst (snd p)), (snd (snd p)), ls. auto. }
    destruct (IH gn' ls (done ++ [x0]) x (fun q Hq => HP q (or_intror Hq)) I' H) as (done' & ID & ED).
    exists (x0 :: done'). rewrite <- app_assoc in ID. split; [exact ID|]. cbn [map]. now rewrite ED.
Qed.

Lemma combine_map_fst {A B} (l : list A) (l' : list B) : length l = length l' -> map fst (combine l l') = l.
Proof.
  revert l'. induction l as [|x l IH]; intros [|y l'] H; try discriminate; [reflexivity|].
  cbn [combine map fst]. f_equal. apply IH. cbn in H. lia.
Qed.

(** the hypotheses on the oracle: one (well-formed, valid) decomposition per rule *)
Definition orc_ok (g : fhrg) (orc : list rule_oracle) : Prop :=
  Forall2 (fun r ro => ftd_wfb (fst ro) = true /\ valid_td (primal r) (td_of_ftd (fst ro))) (fh_all_rules g) orc.

Lemma Forall2_combine {A B} (P : A -> B -> Prop) l l' : Forall2 P l l' -> forall p, In p (combine l l') -> P (fst p) (snd p).
Proof. induction 1; intros p Hp; [destruct Hp|]. destruct Hp as [<-|Hp]; auto. Qed.
Lemma Forall2_length' {A B} (P : A -> B -> Prop) l l' : Forall2 P l l' -> length l = length l'.
Proof. induction 1; cbn; congruence. Qed.

Theorem factorize_hrg_spec g orc g' :
  (forall r, In r (fh_all_rules g) -> wf_rule r) -> orc_ok g orc ->
  factorize_hrg_with g orc = Ok g' -> exists cs, fz_spec g g' cs.
Proof.
  intros W O H. unfold factorize_hrg_with, factorize_hrg_from in H.
  destruct (mfold _ (combine (fh_all_rules g) orc) _) as [x|e] eqn:E; [|discriminate]. cbn [bind] in H. injection H as <-.
  assert (HP : forall p, In p (combine (fh_all_rules g) orc) ->
                 wf_rule (fst p) /\ ftd_wfb (fst (snd p)) = true /\ valid_td (primal (fst p)) (td_of_ftd (fst (snd p)))).
  { intros [r ro] Hp. split; [apply W; eapply in_combine_l; exact Hp|]. exact (Forall2_combine _ _ _ O _ Hp). }
  assert (I0 : inv g {| fh_nlabels := fh_nlabels g; fh_elabels := fh_elabels g; fh_start := fh_start g; fh_rules := [] |}
                   (fh_elabels g) []).
  { constructor; cbn.
    - exists []. now rewrite app_nil_r.
    - reflexivity.
    - constructor.
    - apply incl_refl.
    - intros ? [].
    - constructor.
    - intros ? [].
    - intros ? []. }
  destruct (hrg_loop_spec g _ _ _ [] x HP I0 E) as (cs & I & EC).
  cbn [app] in I. exists cs. destruct I as [T S P L F N LI C]. constructor; trivial.
  rewrite EC. apply combine_map_fst. eapply Forall2_length'; exact O.
Qed.

(** [FGG.from_hrg] re-adds the rules to a grammar with the same tables: again an extension *)
Theorem from_hrg_spec g h h' cs : fz_spec g h cs -> from_hrg_model h = Ok h' -> fz_spec g h' cs.
Proof.
  intros [(ex1 & T1) S1 P1 R1 C1 N1 L1] H. unfold from_hrg_model in H.
  destruct (mfold_add_rule_spec _ _ _ H) as ((ex2 & T2) & S2 & P2 & I2). cbn [fh_elabels fh_start] in *.
  unfold fh_all_rules at 2 in P2. cbn [fh_rules map concat app] in P2.
  constructor; trivial.
  - exists (ex1 ++ ex2). now rewrite T2, T1, app_assoc.
  - congruence.
  - eapply perm_trans; eauto.
  - apply I2. intros c [].
Qed.

Theorem factorize_fgg_spec m g orc f :
  (forall r, In r (fh_all_rules (ff_hrg g)) -> wf_rule r) -> orc_ok (ff_hrg g) (orc m) ->
  factorize_fgg_model m g orc = Ok f -> exists cs, fz_spec (ff_hrg g) (ff_hrg f) cs.
Proof.
  intros W O H. unfold factorize_fgg_model, factorize_hrg_model in H.
  destruct (factorize_hrg_with (ff_hrg g) (orc m)) as [h|e] eqn:E1; [|discriminate]. cbn [bind] in H.
  destruct (from_hrg_model h) as [h'|e] eqn:E2; [|discriminate]. cbn [bind] in H. injection H as <-. cbn [ff_hrg].
  destruct (factorize_hrg_spec _ _ _ W O E1) as (cs & SP). exists cs. eapply from_hrg_spec; eauto.
Qed.
