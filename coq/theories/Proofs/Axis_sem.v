(** Semantics of axes: [eval] stays below [numel]; [stride] is the affine form of [eval];
    [eval] is injective on the free variables; [index] inverts [eval]. *)
From Coq Require Import List Arith Lia PeanoNat Bool PArith.
Import ListNotations.
Require Import Fggs.Model.Axis.

(** * basic facts *)
Lemma inrange_Prod rho l : inrange rho (Prod l) <-> Forall (inrange rho) l.
Proof.
  induction l as [|x l IH]; simpl; split; intros H.
  - constructor.
  - exact I.
  - destruct H as [Hx Hl]. constructor; [exact Hx|apply IH; exact Hl].
  - inversion H as [|? ? Hx Hl]; subst. split; [exact Hx|apply IH; exact Hl].
Qed.

Lemma inrangeb_spec rho e : inrangeb rho e = true <-> inrange rho e.
Proof.
  induction e as [k n|l IH|b t a IH] using axis_ind'.
  - simpl. apply Nat.ltb_lt.
  - rewrite inrange_Prod. cbn [inrangeb]. rewrite forallb_forall, Forall_forall.
    rewrite Forall_forall in IH. split; intros H x Hx; apply IH; auto.
  - simpl. exact IH.
Qed.

Definition evalL (rho : env) (l : list axis) : nat :=
  fold_left (fun acc e => acc * numel e + eval rho e) l 0.

Lemma eval_Prod rho l : eval rho (Prod l) = evalL rho l.
Proof. reflexivity. Qed.
Lemma numel_Prod l : numel (Prod l) = prodn l.
Proof. reflexivity. Qed.
Lemma prodn_cons x l : prodn (x :: l) = numel x * prodn l.
Proof. reflexivity. Qed.
Lemma prodn_app l1 l2 : prodn (l1 ++ l2) = prodn l1 * prodn l2.
Proof. induction l1 as [|x l1 IH]; simpl; [lia|]. fold (prodn (l1 ++ l2)). fold (prodn l1). rewrite IH. lia. Qed.

Lemma fold_left_eval_acc rho l acc :
  fold_left (fun acc e => acc * numel e + eval rho e) l acc
  = acc * prodn l + evalL rho l.
Proof.
  unfold evalL. revert acc. induction l as [|x l IH]; intros acc; simpl; [lia|].
  rewrite IH. rewrite (IH (eval rho x)). fold (prodn l). nia.
Qed.

Lemma evalL_cons rho x l : evalL rho (x :: l) = eval rho x * prodn l + evalL rho l.
Proof. unfold evalL at 1. simpl. apply fold_left_eval_acc. Qed.

Lemma evalL_app rho l1 l2 : evalL rho (l1 ++ l2) = evalL rho l1 * prodn l2 + evalL rho l2.
Proof.
  unfold evalL at 1. rewrite fold_left_app. fold (evalL rho l1). apply fold_left_eval_acc.
Qed.

Lemma evalL_snoc rho l x : evalL rho (l ++ [x]) = evalL rho l * numel x + eval rho x.
Proof.
  rewrite evalL_app.
  assert (prodn [x] = numel x) as -> by (unfold prodn; simpl; lia).
  assert (evalL rho [x] = eval rho x) as -> by (unfold evalL; simpl; lia).
  reflexivity.
Qed.

(** * C06_eval_bound *)
Lemma evalL_bound rho l : Forall (fun e => eval rho e < numel e) l -> evalL rho l < prodn l.
Proof.
  induction 1 as [|x l Hx Hl IH]; [cbv; lia|].
  rewrite evalL_cons, prodn_cons. nia.
Qed.

Theorem eval_bound rho e : inrange rho e -> eval rho e < numel e.
Proof.
  induction e as [k n|l IH|b t a IH] using axis_ind'; simpl; intros H; [exact H| |specialize (IH H); lia].
  apply inrange_Prod in H. apply evalL_bound.
  rewrite Forall_forall in *. intros x Hx. apply IH; auto.
Qed.

Example eval_bound_ex :
  let e := Prod [Phys 1 2; Sum 1 (Phys 2 3) 2; Phys 1 2] in
  let rho := env_of [(1%positive, 1); (2%positive, 2)] in
  inrange rho e /\ eval rho e = 1 * 12 + 3 * 2 + 1 /\ numel e = 24.
Proof. cbv. repeat split; lia. Qed.

(** * substitutions: [rho] models [sigma] when every binding holds as an equation *)
Definition models (rho : env) (sigma : subst) : Prop :=
  Forall (fun ke => rho (fst ke) = eval rho (snd ke)) sigma.

Lemma assoc_In {A} k (s : list (positive * A)) a : assoc k s = Some a -> In (k, a) s.
Proof.
  induction s as [|[k' a'] s IH]; simpl; [discriminate|].
  destruct (Pos.eqb_spec k' k); intros H; [inversion H; subst; left; reflexivity | right; auto].
Qed.

Lemma assoc_models rho sigma k e : models rho sigma -> assoc k sigma = Some e -> rho k = eval rho e.
Proof.
  intros M H. apply assoc_In in H. unfold models in M. rewrite Forall_forall in M. exact (M _ H).
Qed.

Lemma lookup_sem rho sigma : models rho sigma ->
  forall fuel e e', lookup fuel sigma e = Ok e' -> eval rho e' = eval rho e.
Proof.
  intros M. induction fuel as [|fuel IH]; intros e e' H; destruct e as [k n|l|b t a]; simpl in H;
    try (inversion H; reflexivity).
  - destruct (assoc k sigma) eqn:E; [discriminate|inversion H; reflexivity].
  - destruct (assoc k sigma) as [e0|] eqn:E; [|inversion H; reflexivity].
    apply IH in H. rewrite H. simpl. symmetry. eapply assoc_models; eauto.
Qed.

Lemma lookup_cases fuel sigma e e' : lookup fuel sigma e = Ok e' ->
  e' = e \/ exists k, In (k, e') sigma.
Proof.
  revert e. induction fuel as [|fuel IH]; intros e H; destruct e as [k n|l|b t a]; simpl in H;
    try (inversion H; left; reflexivity).
  - destruct (assoc k sigma) eqn:E; [discriminate|inversion H; left; reflexivity].
  - destruct (assoc k sigma) as [e0|] eqn:E; [|inversion H; left; reflexivity].
    right. destruct (IH _ H) as [->|[k' Hk']]; [exists k; apply assoc_In; exact E | exists k'; exact Hk'].
Qed.

(** a looked-up physical axis is unbound *)
Lemma lookup_unbound fuel sigma e k n : lookup fuel sigma e = Ok (Phys k n) -> assoc k sigma = None.
Proof.
  revert e. induction fuel as [|fuel IH]; intros e H; destruct e as [k0 n0|l|b t a]; simpl in H;
    try discriminate.
  - destruct (assoc k0 sigma) eqn:E; [discriminate|inversion H; subst; exact E].
  - destruct (assoc k0 sigma) as [e0|] eqn:E; [eapply IH; eauto|inversion H; subst; exact E].
Qed.

(** * C06_stride_affine *)
Lemma lin_add1_eval rho s k c : lin_eval rho (lin_add1 s k c) = lin_eval rho s + c * rho k.
Proof.
  induction s as [|[k' c'] s IH]; simpl; [lia|].
  destruct (Pos.eqb_spec k' k); simpl; [subst; lia|rewrite IH; lia].
Qed.
Lemma lin_merge_eval rho s1 s2 : lin_eval rho (lin_merge s1 s2) = lin_eval rho s1 + lin_eval rho s2.
Proof.
  unfold lin_merge. revert s1. induction s2 as [|[k c] s2 IH]; intros s1; simpl; [lia|].
  rewrite IH, lin_add1_eval. simpl. lia.
Qed.
Lemma lin_scale_eval rho n s : lin_eval rho (lin_scale n s) = n * lin_eval rho s.
Proof. induction s as [|[k c] s IH]; simpl; [lia|]. rewrite IH. nia. Qed.

Theorem stride_affine rho sigma : models rho sigma ->
  forall fuel e o s, stride fuel sigma e = Ok (o, s) -> eval rho e = o + lin_eval rho s.
Proof.
  intros M. induction fuel as [|fuel IH]; intros e o s H; [discriminate|].
  destruct e as [k n|l|b t a]; cbn [stride] in H.
  - destruct (lookup (lookup_fuel sigma) sigma (Phys k n)) as [look|] eqn:L; [|discriminate].
    cbn [bind] in H. pose proof (lookup_sem rho sigma M _ _ _ L) as E.
    destruct (same_object look (Phys k n)).
    + inversion H; subst. simpl. lia.
    + rewrite <- E. eapply IH; eauto.
  - (* generalise the accumulator of the fold *)
    assert (G : forall l acc0 os0 o s,
      fold_left (fun acc x => os <- acc ;; r <- stride fuel sigma x ;;
                   let n := numel x in Ok (fst os * n + fst r, lin_merge (lin_scale n (snd os)) (snd r)))
                l (Ok os0) = Ok (o, s) ->
      acc0 = fst os0 + lin_eval rho (snd os0) ->
      fold_left (fun acc e => acc * numel e + eval rho e) l acc0 = o + lin_eval rho s).
    { clear H l o s. induction l as [|x l IHl]; intros acc0 os0 o s H Hacc; simpl in H.
      - injection H as Hos. subst os0. simpl in *. exact Hacc.
      - destruct (stride fuel sigma x) as [[ox sx]|] eqn:Ex.
        + cbn [bind fst snd] in H. simpl. eapply IHl; [exact H|]. cbn [fst snd].
          rewrite lin_merge_eval, lin_scale_eval, (IH _ _ _ Ex), Hacc. ring.
        + cbn [bind] in H. exfalso. clear -H. induction l as [|y l IHl]; simpl in H; [discriminate|auto]. }
    simpl. eapply G; [exact H|reflexivity].
  - destruct (stride fuel sigma t) as [[o1 s1]|] eqn:Et; [|discriminate].
    cbn [bind fst snd] in H. inversion H; subst. simpl. rewrite (IH _ _ _ Et). lia.
Qed.

(** with the empty substitution the fuel [asize e] suffices *)
Lemma stride_total e : exists o s, stride (asize e) [] e = Ok (o, s).
Proof.
  assert (G : forall fuel e, asize e <= fuel -> exists o s, stride fuel [] e = Ok (o, s)).
  { induction fuel as [|fuel IH]; intros e0 Hf; [destruct e0; simpl in Hf; lia|].
    destruct e0 as [k n|l|b t a]; cbn [stride].
    - simpl. rewrite Pos.eqb_refl. eauto.
    - simpl in Hf.
      assert (forall os0, exists o s,
        fold_left (fun acc x => os <- acc ;; r <- stride fuel [] x ;;
                   let n := numel x in Ok (fst os * n + fst r, lin_merge (lin_scale n (snd os)) (snd r)))
                l (Ok os0) = Ok (o, s)) as G.
      { induction l as [|x l IHl]; intros os0; simpl; [destruct os0; eauto|].
        destruct (IH x) as (ox & sx & Ex); [simpl in Hf; lia|]. rewrite Ex. cbn [bind].
        apply IHl. simpl in Hf. lia. }
      apply G.
    - simpl in Hf. destruct (IH t) as (o1 & s1 & E1); [lia|]. rewrite E1. cbn [bind]. eauto. }
  apply G. lia.
Qed.

Example stride_ex :
  stride 5 [] (Prod [Phys 1 2; Sum 1 (Phys 2 3) 2; Phys 1 2]) = Ok (2, [(1%positive, 13); (2%positive, 2)]).
Proof. reflexivity. Qed.

(** * injectivity of [eval] on the free variables *)
Lemma mixed_radix_inj P a1 r1 a2 r2 : r1 < P -> r2 < P -> a1 * P + r1 = a2 * P + r2 -> a1 = a2 /\ r1 = r2.
Proof.
  intros H1 H2 E.
  assert (a1 = a2).
  { destruct (Nat.lt_trichotomy a1 a2) as [L|[L|L]]; [|exact L|]; exfalso; nia. }
  subst. split; [reflexivity|lia].
Qed.

Theorem eval_inj rho1 rho2 e :
  inrange rho1 e -> inrange rho2 e -> eval rho1 e = eval rho2 e -> forall k, In k (fv e) -> rho1 k = rho2 k.
Proof.
  induction e as [k n|l IH|b t a IH] using axis_ind'; simpl; intros H1 H2 E k' Hk.
  - destruct Hk as [<-|[]]; exact E.
  - apply inrange_Prod in H1, H2. fold (evalL rho1 l) in E. fold (evalL rho2 l) in E.
    induction l as [|x l IHl]; simpl in *; [contradiction|].
    inversion IH as [|? ? Hx Hl]; subst. inversion H1 as [|? ? H1x H1l]; subst. inversion H2 as [|? ? H2x H2l]; subst.
    rewrite !evalL_cons in E.
    assert (B1 : evalL rho1 l < prodn l).
    { apply evalL_bound. rewrite Forall_forall in *. intros y Hy. apply eval_bound; auto. }
    assert (B2 : evalL rho2 l < prodn l).
    { apply evalL_bound. rewrite Forall_forall in *. intros y Hy. apply eval_bound; auto. }
    destruct (mixed_radix_inj (prodn l) _ _ _ _ B1 B2 E) as [Ex El].
    apply in_app_or in Hk. destruct Hk as [Hk|Hk]; [apply Hx; assumption|apply IHl; assumption].
  - apply IH; try assumption. lia.
Qed.

(** * [index] inverts [eval] *)
Definition index_prod (pi : list (positive * nat)) (v : nat) : list axis -> pres :=
  fix go (l : list axis) : pres :=
    match l with
    | [] => POk pi v
    | x :: l =>
        match go l with
        | POk pi' q =>
            let n := numel x in
            if Nat.eqb n 0 then PErr
            else match index x pi' (q mod n) with
                 | IOk pi'' => POk pi'' (q / n)
                 | IEmpty => PEmpty
                 | IErr => PErr
                 end
        | other => other
        end
    end.

Lemma index_Prod l pi v :
  index (Prod l) pi v =
  match index_prod pi v l with
  | POk pi' q => if Nat.eqb q 0 then IOk pi' else IErr
  | PEmpty => IEmpty
  | PErr => IErr
  end.
Proof. reflexivity. Qed.

Definition agrees (rho : env) (pi : list (positive * nat)) : Prop :=
  forall k i, assoc k pi = Some i -> rho k = i.
Definition extends (pi pi' : list (positive * nat)) : Prop :=
  forall k i, assoc k pi = Some i -> assoc k pi' = Some i.

Lemma assoc_app_None {A} k (s1 s2 : list (positive * A)) :
  assoc k s1 = None -> assoc k (s1 ++ s2) = assoc k s2.
Proof.
  induction s1 as [|[k' a] s1 IH]; simpl; [reflexivity|].
  destruct (Pos.eqb k' k); [discriminate|exact IH].
Qed.
Lemma assoc_app_Some {A} k (s1 s2 : list (positive * A)) a :
  assoc k s1 = Some a -> assoc k (s1 ++ s2) = Some a.
Proof.
  induction s1 as [|[k' a'] s1 IH]; simpl; [discriminate|].
  destruct (Pos.eqb k' k); [auto|exact IH].
Qed.

Lemma extends_refl pi : extends pi pi.
Proof. intros k i H; exact H. Qed.
Lemma extends_trans a b c : extends a b -> extends b c -> extends a c.
Proof. intros H1 H2 k i H. auto. Qed.
Lemma agrees_extends rho pi pi' : extends pi pi' -> agrees rho pi' -> agrees rho pi.
Proof. intros E A k i H. apply A. apply E. exact H. Qed.

Lemma agrees_env_of pi : agrees (env_of pi) pi.
Proof. intros k i H. unfold env_of. rewrite H. reflexivity. Qed.

(** soundness: a successful decode extends the bindings, binds every free variable, and every
    environment agreeing with the result is in range and evaluates to the decoded index *)
Theorem index_sound e : forall pi v pi', index e pi v = IOk pi' ->
  extends pi pi' /\ (forall k, In k (fv e) -> assoc k pi' <> None) /\
  (forall rho, agrees rho pi' -> eval rho e = v /\ inrange rho e).
Proof.
  induction e as [k n|l IH|b t a IH] using axis_ind'; intros pi v pi' H.
  - simpl in H. destruct (n <=? v) eqn:Ev; [discriminate|]. apply Nat.leb_gt in Ev.
    destruct (assoc k pi) as [i|] eqn:Ek.
    + destruct (Nat.eqb_spec i v); [|discriminate]. inversion H; subst.
      split; [apply extends_refl|]. split.
      * intros k' [<-|[]]. congruence.
      * intros rho A. simpl. rewrite (A _ _ Ek). auto.
    + inversion H; subst. split; [|split].
      * intros k' i H'. apply assoc_app_Some. exact H'.
      * intros k' [<-|[]]. rewrite assoc_app_None by exact Ek. simpl. rewrite Pos.eqb_refl. discriminate.
      * intros rho A. simpl.
        assert (rho k = v) as ->; [|auto].
        apply A. rewrite assoc_app_None by exact Ek. simpl. rewrite Pos.eqb_refl. reflexivity.
  - rewrite index_Prod in H.
    assert (G : forall l, Forall (fun e => forall pi v pi', index e pi v = IOk pi' ->
                  extends pi pi' /\ (forall k, In k (fv e) -> assoc k pi' <> None) /\
                  (forall rho, agrees rho pi' -> eval rho e = v /\ inrange rho e)) l ->
                forall pi1 q, index_prod pi v l = POk pi1 q ->
                extends pi pi1 /\ (forall k, In k (flat_map fv l) -> assoc k pi1 <> None) /\
                (forall rho, agrees rho pi1 -> v = q * prodn l + evalL rho l /\ Forall (inrange rho) l)).
    { clear. induction l as [|x l IHl]; intros IH pi1 q H.
      - simpl in H. inversion H; subst. split; [apply extends_refl|]. split; [intros k []|].
        intros rho _. split; [unfold prodn, evalL; simpl; lia|constructor].
      - inversion IH as [|? ? Hx Hl]; subst. cbn [index_prod] in H. fold (index_prod pi v) in H.
        destruct (index_prod pi v l) as [pi0 q0| |] eqn:E0; try discriminate.
        destruct (Nat.eqb_spec (numel x) 0) as [|Hn]; [discriminate|].
        destruct (index x pi0 (q0 mod numel x)) as [pi2| |] eqn:E2; try discriminate.
        inversion H; subst. clear H.
        destruct (IHl Hl _ _ eq_refl) as (X1 & X2 & X3).
        destruct (Hx _ _ _ E2) as (Y1 & Y2 & Y3).
        split; [eapply extends_trans; eauto|]. split.
        + intros k Hk. simpl in Hk. apply in_app_or in Hk. destruct Hk as [Hk|Hk]; [auto|].
          specialize (X2 _ Hk). destruct (assoc k pi0) eqn:E; [|congruence].
          rewrite (Y1 _ _ E). discriminate.
        + intros rho A. destruct (Y3 _ A) as [Ye Yr].
          destruct (X3 rho (agrees_extends _ _ _ Y1 A)) as [Xe Xr].
          split; [|constructor; assumption].
          rewrite evalL_cons, prodn_cons, Ye, Xe.
          pose proof (Nat.div_mod q0 (numel x) Hn). nia. }
    destruct (index_prod pi v l) as [pi1 q| |] eqn:E; try discriminate.
    destruct (Nat.eqb_spec q 0); [|discriminate]. inversion H; subst.
    destruct (G l IH _ _ E) as (X1 & X2 & X3). split; [exact X1|]. split; [exact X2|].
    intros rho A. destruct (X3 _ A) as [Xe Xr]. split; [simpl; fold (evalL rho l); lia|apply inrange_Prod; exact Xr].
  - simpl in H. destruct (b + numel t + a <=? v); [discriminate|].
    destruct (v <? b) eqn:Eb; [discriminate|]. apply Nat.ltb_ge in Eb.
    destruct (v - b <? numel t); [|discriminate].
    destruct (IH _ _ _ H) as (X1 & X2 & X3). split; [exact X1|]. split; [exact X2|].
    intros rho A. destruct (X3 _ A). simpl. split; [lia|assumption].
Qed.

(** completeness: the index computed by [eval] from an in-range environment decodes to
    bindings that agree with that environment *)
Theorem index_complete e : forall rho pi, inrange rho e -> agrees rho pi ->
  exists pi', index e pi (eval rho e) = IOk pi' /\ agrees rho pi'.
Proof.
  induction e as [k n|l IH|b t a IH] using axis_ind'; intros rho pi R A.
  - simpl in *. destruct (n <=? rho k) eqn:Ev; [apply Nat.leb_le in Ev; lia|].
    destruct (assoc k pi) as [i|] eqn:Ek.
    + rewrite (A _ _ Ek), Nat.eqb_refl. eauto.
    + eexists; split; [reflexivity|]. intros k' i H.
      destruct (assoc k' pi) eqn:E'.
      * rewrite (assoc_app_Some _ _ _ _ E') in H. inversion H; subst. auto.
      * rewrite assoc_app_None in H by exact E'. simpl in H.
        destruct (Pos.eqb_spec k k'); [subst; congruence|discriminate].
  - apply inrange_Prod in R. rewrite index_Prod.
    assert (G : forall l, Forall (fun e => forall rho pi, inrange rho e -> agrees rho pi ->
                    exists pi', index e pi (eval rho e) = IOk pi' /\ agrees rho pi') l ->
                Forall (inrange rho) l ->
                forall q v, v = q * prodn l + evalL rho l ->
                exists pi1, index_prod pi v l = POk pi1 q /\ agrees rho pi1).
    { clear - A. induction l as [|x l IHl]; intros IH R q v Hv.
      - unfold prodn, evalL in Hv; simpl in Hv. simpl. assert (v = q) as -> by lia. eauto.
      - revert Hv. inversion IH as [|? ? Hx Hl]; subst. inversion R as [|? ? Rx Rl]; subst. intros Hv.
        rewrite evalL_cons, prodn_cons in Hv.
        destruct (IHl Hl Rl (q * numel x + eval rho x) v) as (pi0 & E0 & A0); [nia|].
        cbn [index_prod]. fold (index_prod pi v). rewrite E0.
        pose proof (eval_bound _ _ Rx) as B.
        destruct (Nat.eqb_spec (numel x) 0) as [Hz|Hn]; [lia|].
        assert ((q * numel x + eval rho x) mod numel x = eval rho x) as ->.
        { rewrite Nat.add_comm, Nat.mod_add by exact Hn. apply Nat.mod_small. exact B. }
        assert ((q * numel x + eval rho x) / numel x = q) as ->.
        { rewrite Nat.add_comm, Nat.div_add by exact Hn. rewrite Nat.div_small by exact B. lia. }
        destruct (Hx _ _ Rx A0) as (pi2 & E2 & A2). rewrite E2. eauto. }
    destruct (G l IH R 0 (eval rho (Prod l))) as (pi1 & E1 & A1); [simpl; reflexivity|].
    rewrite E1. simpl. eauto.
  - simpl in R. pose proof (eval_bound _ _ R) as B. simpl.
    destruct (b + numel t + a <=? b + eval rho t) eqn:E1; [apply Nat.leb_le in E1; lia|].
    destruct (b + eval rho t <? b) eqn:E2; [apply Nat.ltb_lt in E2; lia|].
    replace (b + eval rho t - b) with (eval rho t) by lia.
    destruct (eval rho t <? numel t) eqn:E3; [|apply Nat.ltb_ge in E3; lia].
    apply IH; assumption.
Qed.

(** an index that decodes to "unoccupied" is hit by no in-range environment *)
Corollary index_empty_sound e v : index e [] v = IEmpty ->
  forall rho, inrange rho e -> eval rho e <> v.
Proof.
  intros H rho R E. destruct (index_complete e rho [] R) as (pi' & E' & _).
  { intros k i Hk. discriminate. }
  rewrite E in E'. congruence.
Qed.

Example index_ex :
  let e := Prod [Phys 1 2; Sum 1 (Phys 2 3) 2; Phys 1 2] in
  index e [] 19 = IOk [(1%positive, 1); (2%positive, 2)] /\ index e [] 21 = IEmpty /\ index e [] 26 = IErr.
Proof. repeat split; vm_compute; reflexivity. Qed.

(** * injectivity of a whole pattern: C06_at_most_one_backing (axis level) *)
Theorem pattern_injective (vaxes : list axis) rho1 rho2 :
  Forall (inrange rho1) vaxes -> Forall (inrange rho2) vaxes ->
  map (eval rho1) vaxes = map (eval rho2) vaxes ->
  forall k, In k (flat_map fv vaxes) -> rho1 k = rho2 k.
Proof.
  induction vaxes as [|e vs IH]; intros R1 R2 E k Hk; simpl in *; [contradiction|].
  inversion R1; subst. inversion R2; subst. inversion E.
  apply in_app_or in Hk. destruct Hk as [Hk|Hk]; [eapply eval_inj; eauto|eauto].
Qed.
