(** C04, code-shaped model: witnesses.
    1. [old_pointer_loop_refuted]: the PRE-repair discipline (pointers of the last evaluation
       only, [viterbi_old_model]) on the grammar  X -> X a | b  (log-weights a = 0, b = -1, the
       cycle rule listed first): the value table is right (-1) but the lhs_pointer of X names the
       cycle rule, whose child is X itself -- the pointer graph has a cycle and
       [reconstruct_model] exhausts EVERY fuel (the code: RecursionError).  With the merge
       ([viterbi_model]) the pointer stays at the base rule and the derivation b is returned.
    2. [unconverged_weight_refuted]: the stability hypothesis of C04_reconstruct_terminates is
       needed: when the loop is cut off by kmax, a reconstructed tree can weigh MORE than the
       value stored in its cell (the child improved in the last pass).
    3. the hypotheses of the theorems are satisfiable (the grammar of Proofs/Viterbi_examples.v). *)
From Coq Require Import QArith Qcanon List Arith Bool PeanoNat Lia.
Import ListNotations.
Require Import Fggs.Model.Semiring Fggs.Model.SCC Fggs.Model.SumProduct Fggs.Model.SumProductCheck
               Fggs.Model.Kleene Fggs.Model.EReal Fggs.Model.Trop Fggs.Model.Viterbi Fggs.Model.ViterbiAlg.
Require Import Fggs.Proofs.SP_trees Fggs.Proofs.Viterbi_trop Fggs.Proofs.Viterbi_proofs Fggs.Proofs.Viterbi_examples
               Fggs.Proofs.ViterbiAlg_base Fggs.Proofs.ViterbiAlg_loop Fggs.Proofs.ViterbiAlg_recon
               Fggs.Proofs.ViterbiAlg_opt Fggs.Proofs.ViterbiAlg_check.
Local Open Scope nat_scope.

Definition tol6 : Q := 1 # 1000000.

(* ------------------------------------------------------------------------- *)
(** * 1. X -> X a | b *)
(** labels 0: X (nonterminal, type []), 1: a (terminal, []), 2: b (terminal, []); no nodes *)
Definition lp_gw : grammar_w :=
  ([], [(false, []); (true, []); (true, [])],
   [(0, [], [(0, []); (1, [])], []);       (* rule 0: X -> X a   (the cycle, listed first) *)
    (0, [], [(2, [])], [])],               (* rule 1: X -> b *)
   0).
Definition lp_ws : list (nat * list (nat * Q)) := [(1, [(1, 0 # 1)]); (2, [(1, (-1) # 1)])].
Definition lp_G : grammar := grammar_of_w lp_gw.
Definition lp_w : env (R:=trop) := env_of trop_ops (weights_tmt trop_of lp_G lp_ws).
Definition lp_order : list (list nat) := [[0]].

Example lp_wf : wf_grammar lp_G = true /\ scc (nt_graph lp_G) = Some lp_order.
Proof. split; vm_compute; reflexivity. Qed.

Definition lp_T_old : cst :=
  match tables_gen true lp_G lp_w lp_order tol6 1000 with Some (T, _) => T | None => [] end.
Definition lp_T_new : cst :=
  match viterbi_tables lp_G lp_w lp_order tol6 1000 with Some (T, _) => T | None => [] end.

(** both disciplines compute the value -1 and stop with two equal iterates ... *)
Example lp_values :
  tables_gen true lp_G lp_w lp_order tol6 1000 = Some (lp_T_old, true)
  /\ viterbi_tables lp_G lp_w lp_order tol6 1000 = Some (lp_T_new, true)
  /\ tables_val lp_T_old 0 [] = TFin (Q2Qc ((-1) # 1))
  /\ tables_val lp_T_new 0 [] = TFin (Q2Qc ((-1) # 1)).
Proof. repeat split; vm_compute; reflexivity. Qed.

(** ... but the old lhs_pointer is 0 (the cycle rule: the tie 0 + (-1) = -1 is resolved in favour
    of the first rule in the last evaluation), the merged one is 1 (the base rule) *)
Example lp_pointers :
  map (fun p => snd (fst (snd p))) (match aget lp_T_old 0 with Some nr => nr_cells nr | None => [] end) = [0]
  /\ map (fun p => snd (fst (snd p))) (match aget lp_T_new 0 with Some nr => nr_cells nr | None => [] end) = [1].
Proof. split; vm_compute; reflexivity. Qed.

Lemma opt_all_map_none {A B} (g : A -> option B) l x : In x l -> g x = None -> opt_all (map g l) = None.
Proof.
  induction l as [|y l IH]; [intros []|]. cbn [map opt_all]. intros [->|Hin] Hg.
  - rewrite Hg. reflexivity.
  - destruct (g y); [|reflexivity]. rewrite (IH Hin Hg). reflexivity.
Qed.

(** a cell whose pointer has the cell itself as a child: [reconstruct] never returns *)
Lemma pointer_self_loop G T X xi nr v lp rps gi ptr :
  aget T X = Some nr -> nt_cell nr xi = (v, lp, rps) ->
  nth_error (rule_idx G X) lp = Some gi -> nth lp rps None = Some ptr ->
  (forall a, rhs_asst_code (get_rule G gi) xi ptr = Some a ->
             exists ed, In ed (r_edges (get_rule G gi)) /\ is_term G (fst ed) = false /\ fst ed = X
                        /\ sel a (snd ed) = xi) ->
  forall fuel, reconstruct_model G T fuel X xi = None.
Proof.
  intros H1 H2 H3 H4 H5. induction fuel as [|f IH]; [reflexivity|].
  rewrite reconstruct_S, H1, H2, H3, H4.
  destruct (rhs_asst_code (get_rule G gi) xi ptr) as [a|] eqn:Ha; [|reflexivity].
  destruct (H5 a eq_refl) as (ed & Hed & Ht & HX & Hsel).
  rewrite (opt_all_map_none _ _ ed Hed); [reflexivity|].
  unfold recon_child. rewrite Ht, HX, Hsel, IH. reflexivity.
Qed.

(** C04_old_pointer_loop_refuted *)
Theorem old_pointer_loop_refuted :
  wf_grammar lp_G = true
  /\ (forall fuel, viterbi_old_model lp_G lp_w lp_order [] tol6 1000 fuel = None)
  /\ viterbi_model lp_G lp_w lp_order [] tol6 1000 = Some (DT 1 [] [None])
  /\ wf_dtree lp_G 0 [] (DT 1 [] [None])
  /\ weight trop_ops lp_G lp_w (DT 1 [] [None]) = TFin (Q2Qc ((-1) # 1)).
Proof.
  split; [vm_compute; reflexivity|]. split; [|split; [vm_compute; reflexivity|split]].
  - intros fuel. unfold viterbi_old_model, viterbi_gen.
    change (negb (Nat.eqb (length (@nil nat)) (length (ltype lp_G (g_start lp_G))))) with false. cbv iota.
    destruct lp_values as (HT & _). rewrite HT.
    change (g_start lp_G) with 0.
    destruct (aget lp_T_old 0) as [nr|] eqn:Hnr; [|vm_compute in Hnr; discriminate].
    destruct (nt_cell nr []) as [[v lp] rps] eqn:Hc.
    assert (Hlp : lp = 0 /\ nth lp rps None = Some []).
    { vm_compute in Hnr. injection Hnr as <-. vm_compute in Hc. injection Hc as _ <- <-. split; reflexivity. }
    destruct Hlp as [-> Hptr].
    apply (pointer_self_loop lp_G lp_T_old 0 [] nr v 0 rps 0 [] Hnr Hc); [vm_compute; reflexivity | exact Hptr |].
    intros a _. exists (0, []). vm_compute. repeat split. left. reflexivity.
  - apply wf_reflect. vm_compute. reflexivity.
  - vm_compute. reflexivity.
Qed.

(* ------------------------------------------------------------------------- *)
(** * 2. cut off by kmax: the stored value can be stale *)
(** node label 0 of size 3; 0: A (nonterminal, [d]), 1: B (nonterminal, [d]), 2: stop (terminal,
    [d]), 3: sh (terminal, [d; d]) = 0 where v = u + 1 mod 3, -inf elsewhere.
      A(u) -> stop(u) | sh(u, v) B(v)          B(u) -> sh(u, v) A(v)      stop = [-2, -2, 0] *)
Definition uc_gw : grammar_w :=
  ([3], [(false, [0]); (false, [0]); (true, [0]); (true, [0; 0])],
   [(0, [0], [(2, [0])], [0]);
    (0, [0; 0], [(3, [0; 1]); (1, [1])], [0]);
    (1, [0; 0], [(3, [0; 1]); (0, [1])], [0])],
   0).
Definition uc_ws : list (nat * list (nat * Q)) :=
  [(2, [(1, (-2) # 1); (1, (-2) # 1); (1, 0 # 1)]);
   (3, [(0, 0 # 1); (1, 0 # 1); (0, 0 # 1);
        (0, 0 # 1); (0, 0 # 1); (1, 0 # 1);
        (1, 0 # 1); (0, 0 # 1); (0, 0 # 1)])].
Definition uc_G : grammar := grammar_of_w uc_gw.
Definition uc_w : env (R:=trop) := env_of trop_ops (weights_tmt trop_of uc_G uc_ws).
Definition uc_order : list (list nat) := match scc (nt_graph uc_G) with Some o => o | None => [] end.
Definition uc_T (kmax : nat) : cst :=
  match viterbi_tables uc_G uc_w uc_order tol6 kmax with Some (T, _) => T | None => [] end.

Theorem unconverged_weight_refuted :
  wf_grammar uc_G = true /\ order_ok uc_G uc_order
  /\ viterbi_tables uc_G uc_w uc_order tol6 3 = Some (uc_T 3, false)
  /\ tables_val (uc_T 3) 1 [2] = TFin (Q2Qc ((-2) # 1))
  /\ exists t, reconstruct_model uc_G (uc_T 3) (fuel_bound uc_order 3) 1 [2] = Some t
               /\ wf_dtree uc_G 1 [2] t
               /\ weight trop_ops uc_G uc_w t = TFin (Q2Qc (0 # 1)).
Proof.
  split; [vm_compute; reflexivity|]. split; [apply scc_ok_order_ok; vm_compute; reflexivity|].
  split; [vm_compute; reflexivity|]. split; [vm_compute; reflexivity|].
  eexists. split; [vm_compute; reflexivity|]. split; [apply wf_reflect; vm_compute; reflexivity|].
  vm_compute. reflexivity.
Qed.

(** with the default budget the same grammar converges and the theorem applies *)
Example uc_converges :
  viterbi_tables uc_G uc_w uc_order tol6 1000 = Some (uc_T 1000, true)
  /\ tables_val (uc_T 1000) 1 [2] = TFin (Q2Qc (0 # 1)).
Proof. split; vm_compute; reflexivity. Qed.

(* ------------------------------------------------------------------------- *)
(** * 3. the hypotheses of the theorems are satisfiable *)
Definition ex_order : list (list nat) := [[1]; [0]].
Definition ex_T : cst :=
  match viterbi_tables ex_G ex_w ex_order tol6 1000 with Some (T, _) => T | None => [] end.

Example ex_alg_hyps :
  wf_grammar ex_G = true /\ scc (nt_graph ex_G) = Some ex_order /\ order_ok ex_G ex_order
  /\ viterbi_tables ex_G ex_w ex_order tol6 1000 = Some (ex_T, true)
  /\ In [] (all_assts (lshape ex_G (g_start ex_G)))
  /\ tfin (tables_val ex_T (g_start ex_G) []).
Proof.
  split; [vm_compute; reflexivity|]. split; [vm_compute; reflexivity|].
  split; [apply scc_ok_order_ok; vm_compute; reflexivity|].
  split; [vm_compute; reflexivity|]. split; [left; reflexivity|].
  eexists. vm_compute. reflexivity.
Qed.

(** C04_alg_optimal instantiated: the model returns the base-rule derivation of weight -1, and
    no derivation (there are infinitely many, through the weight-0 cycle) weighs more *)
Example ex_alg_optimal :
  exists t, viterbi_model ex_G ex_w ex_order [] tol6 1000 = Some t
            /\ wf_dtree ex_G 0 [] t
            /\ forall t', wf_dtree ex_G 0 [] t' -> tle (weight trop_ops ex_G ex_w t') (weight trop_ops ex_G ex_w t).
Proof.
  destruct ex_alg_hyps as (Hwf & _ & Hok & HT & Hxi & Hfin).
  destruct (alg_optimal ex_G ex_w Hwf ex_order tol6 1000 ex_T [] Hok HT Hxi Hfin) as (t & Ht & Hwt & _ & Hopt & _).
  exists t. split; [exact Ht|]. split; [exact Hwt | exact Hopt].
Qed.

Example ex_alg_model_tree : viterbi_model ex_G ex_w ex_order [] tol6 1000 = Some ex_t.
Proof. vm_compute. reflexivity. Qed.

(** the pointer invariant after 1, 2, 3 passes over the recursive component [T] *)
Example ex_ptr_inv : forall k, 1 <= k -> linv ex_G ex_w [] [1] k.
Proof. intros k Hk. apply linv_all; [vm_compute; reflexivity | exact Hk]. Qed.

(** the check accepts the implementation's derivation when it is the model's (0) and when it
    differs by a tie (32: one more turn round the weight-0 cycle), rejects a suboptimal one (10),
    an ill-formed one (5) and an exception (1) *)
Example ex_alg_check :
  vit_alg_check (ex_gw, ex_ws, [], (1000, tol6), (0, ex_t)) = 0
  /\ vit_alg_check (ex_gw, ex_ws, [], (1000, tol6), (0, ex_t_cycle)) = 32
  /\ vit_alg_check (ex_gw, ex_ws, [], (1000, tol6), (0, ex_t_sub)) = 10
  /\ vit_alg_check (ex_gw, ex_ws, [], (1000, tol6), (0, ex_t_bad1)) = 5
  /\ vit_alg_check (ex_gw, ex_ws, [], (1000, tol6), (1, ex_t)) = 1.
Proof. repeat split; vm_compute; reflexivity. Qed.

(** the loop over the recursive component [T] of the example returns a STABLE state (the premise
    of C04_recorded_values_are_current / comp_recok): it stops after pass 2 with two equal iterates *)
Example ex_stable :
  exists M st, 1 <= M <= 1001 /\ viter ex_G ex_w [] [1] M = Some st /\ stable ex_G ex_w [] [1] M
               /\ comp_model false ex_G ex_w tol6 1000 [] [1] = Some (st, true).
Proof.
  destruct (comp_model false ex_G ex_w tol6 1000 [] [1]) as [[st c]|] eqn:Hcm; [|vm_compute in Hcm; discriminate].
  assert (Hc : c = true) by (vm_compute in Hcm; injection Hcm as _ <-; reflexivity). subst c.
  destruct (comp_model_spec ex_G ex_w ltac:(vm_compute; reflexivity) tol6 1000 [] [1] st Hcm) as (M & HM & Hv & Hs).
  exists M, st. split; [exact HM|]. split; [exact Hv|]. split; [exact Hs | reflexivity].
Qed.

(** one evaluation of F_viterbi at the cell (T, [1]) in the first pass: the cycle rule (0) has no
    value yet ([None]), the base rule (1) fills the cell: value -1, lhs_pointer 1 *)
Example ex_F_cell :
  F_cell ex_G (lookup ex_G ex_w [] None) 1 [1]
  = (true, TFin (Q2Qc ((-1) # 1)), 1, [None; Some []]).
Proof. vm_compute. reflexivity. Qed.

(** [reconstruct]'s assignment loop on rule 0 of the example (S -> x internal; T(x)): the pointer
    row [1] gives x = 1; a row of the wrong length is an error *)
Example ex_rhs_asst :
  rhs_asst_code (get_rule ex_G 0) [] [1] = Some [1]
  /\ rebuild (get_rule ex_G 0) [] [1] = [1]
  /\ rhs_asst_code (get_rule ex_G 0) [] [] = None
  /\ rhs_asst_code (get_rule ex_G 0) [] [1; 0] = None.
Proof. repeat split; vm_compute; reflexivity. Qed.
