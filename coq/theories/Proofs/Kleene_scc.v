(** C02: SCC decomposition.  Solving the components one at a time in dependency order, each
    EXACTLY (its own least fixed point, the earlier components' results being inputs), gives
    the global least fixed point of the grammar's equations.  "Least fixed point on a set S of
    labels" = fixed point at the in-range tuples of S and below every pre-fixed point there. *)
From Coq Require Import List Arith Bool PeanoNat Lia Ring_theory.
Import ListNotations.
Require Import Fggs.Model.SCC Fggs.Model.SumProduct Fggs.Model.Kleene
               Fggs.Proofs.SP_mono Fggs.Proofs.Kleene_linear Fggs.Model.Semiring.

Section SccDecomp.
Context {R : Type} (o : sr_ops R).
Hypothesis Hr : sr_ring o.
Hypothesis Ho : sr_ordered o.
Variables (G : grammar) (w : env (R:=R)).
Hypothesis Hwf : wf_grammar G = true.

Definition le_on_set (S : list nat) (x y : env (R:=R)) : Prop :=
  forall X xi, In X S -> In xi (all_assts (lshape G X)) -> le o (x X xi) (y X xi).
Definition eq_on_set (S : list nat) (x y : env (R:=R)) : Prop :=
  forall X xi, In X S -> In xi (all_assts (lshape G X)) -> x X xi = y X xi.

Definition is_lfp_on (S : list nat) (F : env (R:=R) -> env (R:=R)) (mu : env (R:=R)) : Prop :=
  eq_on_set S (F mu) mu /\ forall v, le_on_set S (F v) v -> le_on_set S mu v.

(** the equations of one component, the other nonterminals read from [inp] *)
Definition comp_step (inp : env (R:=R)) (comp : list nat) : env (R:=R) -> env (R:=R) :=
  fun x => step o G w (mix_env inp comp x).

(** every nonterminal on a right-hand side of the component is in the component or in [earlier] *)
Definition deps_in (comp earlier : list nat) : Prop :=
  forall n r ed, In n comp -> In r (rules_of G n) -> In ed (r_edges r) ->
                 is_term G (fst ed) = false -> In (fst ed) comp \/ In (fst ed) earlier.

(** [step] at a nonterminal n depends only on what the rules of n query *)
Lemma step_ext_at (x y : env (R:=R)) n xi :
  (forall r ed a, In r (rules_of G n) -> In ed (r_edges r) -> In a (all_assts (node_sizes G r)) ->
                  is_term G (fst ed) = false -> x (fst ed) (sel a (snd ed)) = y (fst ed) (sel a (snd ed))) ->
  step o G w x n xi = step o G w y n xi.
Proof.
  intros H. unfold step. destruct (is_term G n); [reflexivity|].
  apply (sumS_ext o). intros r Hr'. apply (rule_val_ext_queried o).
  intros l xj (ed & a & Hed & Ha & -> & ->).
  destruct (is_term G (fst ed)) eqn:E; [reflexivity|]. apply (H r ed a Hr' Hed Ha E).
Qed.

Lemma mem_In' l x : mem l x = true <-> In x l.
Proof.
  unfold mem. rewrite existsb_exists. split.
  - intros (y & Hy & E). apply Nat.eqb_eq in E. subst y. exact Hy.
  - intros H. exists x. split; [exact H | apply Nat.eqb_refl].
Qed.

Lemma query_in_range n r ed a :
  In r (rules_of G n) -> In ed (r_edges r) -> In a (all_assts (node_sizes G r)) ->
  In (sel a (snd ed)) (all_assts (lshape G (fst ed))).
Proof.
  intros Hr' Hed Ha. apply in_rules_of in Hr' as [Hr' _].
  apply (wf_rule_query_in_range G r ed a (wf_grammar_rule G r Hwf Hr') Hed Ha).
Qed.

(** one component *)
Theorem scc_component_exact (mu inp nu : env (R:=R)) (comp earlier : list nat) :
  is_lfp_on (nonterminals G) (step o G w) mu ->
  (forall n, In n comp -> In n (nonterminals G)) ->
  deps_in comp earlier ->
  eq_on_set earlier inp mu ->
  is_lfp_on comp (comp_step inp comp) nu ->
  eq_on_set comp nu mu.
Proof.
  intros [Hmu_fix Hmu_least] Hcomp Hdeps Hinp [Hnu_fix Hnu_least].
  (* what a rule of the component reads from [mix_env inp comp x] *)
  assert (Hread : forall (x : env (R:=R)) n r ed a,
             In n comp -> In r (rules_of G n) -> In ed (r_edges r) -> In a (all_assts (node_sizes G r)) ->
             is_term G (fst ed) = false ->
             mix_env inp comp x (fst ed) (sel a (snd ed))
             = (if mem comp (fst ed) then x (fst ed) else mu (fst ed)) (sel a (snd ed))).
  { intros x n r ed a Hn Hr' Hed Ha Ht. unfold mix_env.
    destruct (mem comp (fst ed)) eqn:E; [reflexivity|].
    destruct (Hdeps n r ed Hn Hr' Hed Ht) as [Hc|He].
    - apply mem_In' in Hc. congruence.
    - apply (Hinp (fst ed) _ He). apply (query_in_range n r ed a Hr' Hed Ha). }
  (* (1) mu restricted to the component is a fixed point of the component's equations *)
  assert (H1 : le_on_set comp nu mu).
  { apply Hnu_least. intros n xi Hn Hxi. unfold comp_step.
    rewrite (step_ext_at (mix_env inp comp mu) mu n xi).
    - rewrite (Hmu_fix n xi (Hcomp n Hn) Hxi). apply (le_refl o Ho).
    - intros r ed a Hr' Hed Ha Ht. rewrite (Hread mu n r ed a Hn Hr' Hed Ha Ht).
      destruct (mem comp (fst ed)); reflexivity. }
  (* (2) nu on the component, mu elsewhere, is a global pre-fixed point *)
  set (v := mix_env mu comp nu).
  assert (Hv_le : env_le_on o G v mu).
  { intros X xi HX Hxi. unfold v, mix_env. destruct (mem comp X) eqn:E.
    - apply H1; [apply mem_In'; exact E | exact Hxi].
    - apply (le_refl o Ho). }
  assert (H2 : le_on_set (nonterminals G) mu v).
  { apply Hmu_least. intros X xi HX Hxi. unfold v at 2. unfold mix_env. destruct (mem comp X) eqn:E.
    - apply mem_In' in E.
      rewrite (step_ext_at v (mix_env inp comp nu) X xi).
      + fold (comp_step inp comp nu). rewrite (Hnu_fix X xi E Hxi). apply (le_refl o Ho).
      + intros r ed a Hr' Hed Ha Ht. rewrite (Hread nu X r ed a E Hr' Hed Ha Ht).
        unfold v, mix_env. reflexivity.
    - rewrite <- (Hmu_fix X xi HX Hxi). apply (step_mono_on o Hr Ho G w v mu Hwf Hv_le). }
  intros n xi Hn Hxi. apply (le_antisym o Ho); [apply (H1 n xi Hn Hxi)|].
  specialize (H2 n xi (Hcomp n Hn) Hxi). unfold v, mix_env in H2.
  assert (E : mem comp n = true) by (apply mem_In'; exact Hn). rewrite E in H2. exact H2.
Qed.

(** the driver: components in order, each solved exactly with the earlier results as inputs *)
Inductive exact_run : list (list nat) -> env (R:=R) -> env (R:=R) -> Prop :=
| run_nil acc : exact_run [] acc acc
| run_cons comp rest acc nu final :
    is_lfp_on comp (comp_step acc comp) nu ->
    exact_run rest (mix_env acc comp nu) final ->
    exact_run (comp :: rest) acc final.

(** dependency order: every component depends only on itself and on what was solved before *)
Fixpoint dep_ordered (done : list nat) (order : list (list nat)) : Prop :=
  match order with
  | [] => True
  | comp :: rest => deps_in comp done /\ (forall n, In n comp -> In n (nonterminals G))
                    /\ dep_ordered (done ++ comp) rest
  end.

Theorem scc_decomposition (mu : env (R:=R)) order :
  is_lfp_on (nonterminals G) (step o G w) mu ->
  forall done acc final,
    exact_run order acc final -> eq_on_set done acc mu -> dep_ordered done order ->
    eq_on_set (done ++ concat order) final mu.
Proof.
  intros Hmu done acc final Hrun. revert done.
  induction Hrun as [acc|comp rest acc nu final Hnu Hrun IH]; intros done Hacc Hord.
  - cbn [concat]. rewrite app_nil_r. exact Hacc.
  - destruct Hord as (Hdeps & Hcomp & Hrest). cbn [concat]. rewrite app_assoc.
    apply IH; [|exact Hrest].
    pose proof (scc_component_exact mu acc nu comp done Hmu Hcomp Hdeps Hacc Hnu) as Hc.
    intros X xi HX Hxi. unfold mix_env. destruct (mem comp X) eqn:E.
    + apply Hc; [apply mem_In'; exact E | exact Hxi].
    + apply in_app_iff in HX as [HX|HX]; [apply (Hacc X xi HX Hxi)|].
      apply mem_In' in HX. congruence.
Qed.

(** in particular: start with nothing solved, end with every nonterminal solved *)
Corollary scc_decomposition_all (mu : env (R:=R)) order acc final :
  is_lfp_on (nonterminals G) (step o G w) mu ->
  exact_run order acc final -> dep_ordered [] order ->
  (forall X, In X (nonterminals G) -> In X (concat order)) ->
  env_eq_on G final mu.
Proof.
  intros Hmu Hrun Hord Hall X xi HX Hxi.
  apply (scc_decomposition mu order Hmu [] acc final Hrun); [intros Y xj [] | exact Hord | | exact Hxi].
  cbn [app]. apply Hall. exact HX.
Qed.
End SccDecomp.
