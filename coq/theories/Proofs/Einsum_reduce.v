(** C07 (c): [reduce_equation] / [post_einsum] are sound.  When nothing is summed (the code's
    guard: as many output variables as variables), dropping from every operand the dimensions
    that have stride 0 or size 1, running the reduced equation, unsqueezing the removed output
    dimensions (ascending) and expanding gives the same tensor as the original equation. *)
From Coq Require Import List Arith Bool PeanoNat Lia Permutation Ring Ring_theory PArith.
Import ListNotations.
Require Import Fggs.Model.Semiring Fggs.Model.SumProduct.
Require Import Fggs.Proofs.BigSum Fggs.Proofs.SP_trees.
Require Import Fggs.Model.Axis Fggs.Model.PTensor Fggs.Model.AxisCheck Fggs.Model.Einsum.
Require Import Fggs.Proofs.Axis_sem Fggs.Proofs.Axis_repr Fggs.Proofs.PTensor_dense.
Require Import Fggs.Proofs.Einsum_dense Fggs.Proofs.Einsum_envs Fggs.Proofs.Einsum_views.

(** * lists *)
Lemma del_at {A} (p q : list A) x : firstn (length p) (p ++ x :: q) ++ skipn (S (length p)) (p ++ x :: q) = p ++ q.
Proof. induction p as [|y p IH]; [reflexivity|]. simpl. f_equal. exact IH. Qed.

Fixpoint dropmask (m : list bool) (idx : list nat) : list nat :=
  match m, idx with
  | b :: m', x :: idx' => if b then x :: dropmask m' idx' else dropmask m' idx'
  | _, _ => []
  end.

Lemma dedup_key_fresh seen l k n : In (k, n) (dedup seen l) -> existsb (Pos.eqb k) seen = false.
Proof.
  revert seen. induction l as [|[k' n'] l IH]; intros seen H; [contradiction|]. simpl in H.
  destruct (existsb (Pos.eqb k') seen) eqn:E; [apply IH; exact H|].
  destruct H as [H|H]; [inversion H; subst; exact E|].
  specialize (IH _ H). simpl in IH. apply orb_false_iff in IH. tauto.
Qed.

Lemma dedup_keys_NoDup seen l : NoDup (map fst (dedup seen l)).
Proof.
  revert seen. induction l as [|[k n] l IH]; intros seen; [constructor|]. simpl.
  destruct (existsb (Pos.eqb k) seen); [apply IH|]. simpl. constructor; [|apply IH].
  intros H. apply in_map_iff in H. destruct H as ([k' n'] & E & H). simpl in E. subst k'.
  apply dedup_key_fresh in H. simpl in H. rewrite Pos.eqb_refl in H. discriminate.
Qed.

Lemma dedup_key_in l k : In k (map fst l) -> In k (map fst (dedup [] l)).
Proof.
  intros H. apply in_map_iff in H. destruct H as ([k' n] & <- & H).
  destruct (dedup_keys [] l k' n H eq_refl) as (n' & H'). apply in_map_iff. exists (k', n'). auto.
Qed.

Lemma dedup_key_sub l k : In k (map fst (dedup [] l)) -> In k (map fst l).
Proof. intros H. apply in_map_iff in H. destruct H as (kn & <- & H). apply in_map. eapply dedup_In_sub. exact H. Qed.

Lemma pmem_In k (l : list pn) : pmem k l = true <-> In k (map fst l).
Proof.
  unfold pmem. rewrite existsb_exists. split.
  - intros (kn & H & E). apply Pos.eqb_eq in E. subst. apply in_map. exact H.
  - intros H. apply in_map_iff in H. destruct H as (kn & <- & H). exists kn. split; [exact H|apply Pos.eqb_refl].
Qed.

Lemma NoDup_keys_filter (p : pn -> bool) (l : list pn) : NoDup (map fst l) -> NoDup (map fst (filter p l)).
Proof.
  induction l as [|x l IH]; intros H; [constructor|]. simpl in *. inversion H as [|? ? Hx H']; subst.
  destruct (p x); [|apply IH; exact H']. simpl. constructor; [|apply IH; exact H'].
  intros Hi. apply Hx. apply in_map_iff in Hi. destruct Hi as (y & E & Hy). apply filter_In in Hy.
  apply in_map_iff. exists y. tauto.
Qed.

Lemma env_of_filter (p : positive -> bool) (l : list (positive * nat)) k :
  p k = true -> env_of (filter (fun kv => p (fst kv)) l) k = env_of l k.
Proof.
  intros Hk. unfold env_of. induction l as [|[k' v] l IH]; [reflexivity|]. simpl.
  destruct (p k') eqn:E; simpl.
  - destruct (Pos.eqb k' k); [reflexivity|exact IH].
  - destruct (Pos.eqb_spec k' k) as [->|_]; [congruence|exact IH].
Qed.

Lemma combine_filter_mask (p : positive -> bool) (outp : list pn) (coords : list nat) :
  length coords = length outp ->
  combine (map fst (filter (fun kn => p (fst kn)) outp)) (dropmask (map (fun kn => p (fst kn)) outp) coords)
  = filter (fun kv => p (fst kv)) (combine (map fst outp) coords).
Proof.
  revert coords. induction outp as [|[k n] outp IH]; intros [|c coords] L; try discriminate; [reflexivity|].
  simpl. destruct (p k); simpl; [f_equal|]; apply IH; simpl in L; lia.
Qed.

Lemma dropmask_length (p : positive -> bool) (outp : list pn) (coords : list nat) :
  length coords = length outp ->
  length (dropmask (map (fun kn => p (fst kn)) outp) coords) = length (filter (fun kn => p (fst kn)) outp).
Proof.
  revert coords. induction outp as [|[k n] outp IH]; intros [|c coords] L; try discriminate; [reflexivity|].
  simpl. destruct (p k); simpl; [f_equal|]; apply IH; simpl in L; lia.
Qed.

Lemma env_combine_bound (outp : list pn) (coords : list nat) k m :
  NoDup (map fst outp) -> Forall2 lt coords (map snd outp) -> In (k, m) outp ->
  env_of (combine (map fst outp) coords) k < m.
Proof.
  revert coords. induction outp as [|[k' n] outp IH]; intros coords ND F Hin; [contradiction|].
  destruct coords as [|c coords]; [inversion F|]. simpl in F. inversion F as [|? ? ? ? Hc F']; subst.
  simpl in ND. inversion ND as [|? ? Hk ND']; subst. unfold env_of. simpl.
  destruct Hin as [E|Hin].
  - inversion E; subst. rewrite Pos.eqb_refl. exact Hc.
  - destruct (Pos.eqb_spec k' k) as [->|_]; [exfalso; apply Hk; apply in_map_iff; exists (k, m); auto|].
    exact (IH coords ND' F' Hin).
Qed.

Lemma nth_map_agree {A} (h1 h2 : A -> nat) (P : A -> Prop) (dims : list A) d0 :
  (forall d, In d dims -> P d -> h1 d = h2 d) ->
  forall j, j < length dims -> P (nth j dims d0) -> nth j (map h1 dims) 0 = nth j (map h2 dims) 0.
Proof.
  intros H j Hj Pj.
  rewrite (nth_indep (map h1 dims) 0 (h1 d0)), (nth_indep (map h2 dims) 0 (h2 d0)) by (rewrite map_length; exact Hj).
  rewrite !map_nth. apply H; [apply nth_In; exact Hj|exact Pj].
Qed.

Lemma nth_map_lt {A B} (f : A -> B) l j d0 d' : j < length l -> nth j (map f l) d' = f (nth j l d0).
Proof. intros H. rewrite (nth_indep (map f l) d' (f d0)) by (rewrite map_length; exact H). apply map_nth. Qed.

Section Reduce.
Context {R : Type} (o : sr_ops R).
Hypothesis Hr : sr_ring o.
Add Ring RingER : (sr_is_srt o Hr).
Notation view := (view (R:=R)).

(** a view does not depend on the coordinates of its stride-0 dimensions *)
Definition stride0 (v : view) : list bool := map (fun d => Nat.eqb (snd d) 0) (vw_dims v).
Definition view_ok (v : view) : Prop :=
  forall j x c, nth j (stride0 v) false = true -> j < length c -> vw_fn v (set_nth j x c) = vw_fn v c.

Lemma post_dropmask m : forall off (f : list nat -> R) idxp idx, length idxp = off -> length idx = length m ->
  post_einsum_model f (false_positions m off) (idxp ++ idx) = f (idxp ++ dropmask m idx).
Proof.
  induction m as [|b m IH]; intros off f idxp idx Lp L.
  - destruct idx; [reflexivity|discriminate].
  - destruct idx as [|x idx]; [discriminate|]. simpl in L.
    replace (idxp ++ x :: idx) with ((idxp ++ [x]) ++ idx) by (rewrite <- app_assoc; reflexivity).
    destruct b; cbn [false_positions app dropmask].
    + rewrite (IH (S off) f (idxp ++ [x]) idx) by (try rewrite app_length; simpl; lia).
      rewrite <- app_assoc. reflexivity.
    + cbn [post_einsum_model].
      rewrite (IH (S off) _ (idxp ++ [x]) idx) by (try rewrite app_length; simpl; lia).
      rewrite <- app_assoc. cbn [app]. subst off. rewrite del_at. reflexivity.
Qed.

Lemma fill_coords_map (g : positive * nat * nat -> nat) dims :
  fill_coords dims (map g (filter kept dims)) = map (fun d => if kept d then g d else 0) dims.
Proof.
  induction dims as [|d dims IH]; [reflexivity|]. simpl. destruct (kept d); simpl; f_equal; exact IH.
Qed.

(** a sum-free equation is a plain product *)
Lemma einsum_views_sumfree (views : list view) (outp : list pn) coords :
  NoDup (map fst outp) -> length coords = length outp ->
  (forall v kn, In v views -> In kn (vw_vars v) -> In (fst kn) (map fst outp)) ->
  einsum_views o views outp coords
  = prodS o views (fun v => vw_fn v (map (env_of (combine (map fst outp) coords)) (map fst (vw_vars v)))).
Proof.
  intros ND L Hsub. unfold einsum_views, einsum_dense. fold (vlabels views).
  rewrite out_consistent_NoDup; [|apply NoDup_plabel; exact ND|rewrite map_length; symmetry; exact L].
  cbv zeta.
  assert (E : summed_labels (vlabels views) (map plabel outp) = []).
  { apply empty_if_no_elements. intros x Hx. unfold summed_labels in Hx. apply dedup_nat_In in Hx.
    destruct Hx as [Hx Hn]. apply Hn. apply in_concat in Hx. destruct Hx as (ls & Hls & Hx).
    unfold vlabels in Hls. apply in_map_iff in Hls. destruct Hls as (v & <- & Hv).
    apply in_map_iff in Hx. destruct Hx as (kn & <- & Hkn). unfold plabel at 1. apply In_plabel. eauto. }
  rewrite E. cbn [map all_assts]. rewrite (sumS_single o Hr), einsum_term_views.
  apply (prodS_ext o). intros v _. f_equal. cbn [combine]. rewrite app_nil_r, map_plabel, combine_lab. apply map_lval_lab.
Qed.

Theorem reduce_equation_sound (views : list view) (outp : list pn) (coords : list nat) :
  Forall view_ok views ->
  NoDup (map fst outp) ->
  (forall k, In k (map fst outp) -> In k (map fst (flat_map (vw_vars (R:=R)) views))) ->
  (forall v kn n, In v views -> In kn (vw_vars v) -> In (fst kn, n) outp -> n = snd kn) ->
  Forall2 lt coords (map snd outp) ->
  post_einsum_model (einsum_views o (rd_views (reduce_equation_model views outp))
                                    (rd_out (reduce_equation_model views outp)))
                    (rd_unsq (reduce_equation_model views outp)) coords
  = einsum_views o views outp coords.
Proof.
  intros Hok ND Hsub Hsz Hb. unfold reduce_equation_model.
  set (allvars := dedup [] (flat_map (vw_vars (R:=R)) views)).
  destruct (Nat.eqb (length outp) (length allvars)) eqn:EL; simpl; [|reflexivity].
  apply Nat.eqb_eq in EL.
  assert (Lc : length coords = length outp).
  { apply Forall2_len in Hb. rewrite map_length in Hb. exact Hb. }
  set (shrunk := map (shrink_view (R:=R)) views).
  set (shrunk_vars := flat_map (vw_vars (R:=R)) shrunk).
  set (removed := filter (fun kn : pn => negb (pmem (fst kn) shrunk_vars)) allvars).
  set (keep := fun k : positive => negb (pmem k removed)).
  (* the output variables are exactly the variables of the equation *)
  assert (Hall : forall k, In k (map fst allvars) -> In k (map fst outp)).
  { apply NoDup_length_incl; [exact ND|rewrite !map_length; lia|].
    intros k Hk. apply dedup_key_in. apply Hsub. exact Hk. }
  assert (Hview : forall v kn, In v views -> In kn (vw_vars v) -> In (fst kn) (map fst outp)).
  { intros v kn Hv Hkn. apply Hall. apply dedup_key_in. apply in_map. apply in_flat_map. exists v. auto. }
  (* a variable kept in some shrunk view is kept in the output *)
  assert (Hkeep : forall v d, In v views -> In d (vw_dims v) -> kept d = true -> keep (fst (fst d)) = true).
  { intros v d Hv Hd Kd. unfold keep. apply negb_true_iff. destruct (pmem (fst (fst d)) removed) eqn:E; [|reflexivity].
    exfalso. apply pmem_In in E. apply in_map_iff in E. destruct E as (kn & Ek & Hkn).
    unfold removed in Hkn. apply filter_In in Hkn. destruct Hkn as [_ Hkn]. apply negb_true_iff in Hkn.
    assert (pmem (fst kn) shrunk_vars = true); [|congruence].
    apply pmem_In. rewrite Ek. unfold shrunk_vars, shrunk. apply in_map_iff. exists (fst d). split; [reflexivity|].
    apply in_flat_map. exists (shrink_view v). split; [apply in_map; exact Hv|].
    unfold vw_vars, shrink_view. cbn [vw_dims]. apply in_map. apply filter_In. auto. }
  pose proof (post_dropmask (map (fun kn : pn => keep (fst kn)) outp) 0
                (einsum_views o shrunk (filter (fun kn : pn => keep (fst kn)) outp)) [] coords eq_refl) as PD.
  rewrite map_length in PD. specialize (PD Lc). cbn [app] in PD.
  change (false_positions (map (fun kn : pn => negb (pmem (fst kn) removed)) outp) 0)
    with (false_positions (map (fun kn : pn => keep (fst kn)) outp) 0).
  change (filter (fun kn : pn => negb (pmem (fst kn) removed)) outp) with (filter (fun kn : pn => keep (fst kn)) outp).
  rewrite PD. clear PD.
  rewrite (einsum_views_sumfree views outp coords ND Lc Hview).
  rewrite einsum_views_sumfree.
  - unfold shrunk. rewrite (prodS_map o). apply (prodS_ext o). intros v Hv.
    rewrite combine_filter_mask by exact Lc.
    set (E := combine (map fst outp) coords).
    unfold shrink_view at 1. cbn [vw_fn]. unfold vw_vars at 1. unfold shrink_view. cbn [vw_dims].
    rewrite !map_map. rewrite (fill_coords_map (fun d => env_of (filter (fun kv => keep (fst kv)) E) (fst (fst d)))).
    unfold vw_vars. rewrite map_map.
    rewrite Forall_forall in Hok.
    apply (agree_except _ _ _ (stride0 v) (Hok v Hv)); [rewrite !map_length; reflexivity|].
    intros j Hj Z. rewrite map_length in Hj.
    apply (nth_map_agree _ _ (fun d => Nat.eqb (snd d) 0 = false) (vw_dims v) (1%positive, 0, 0)); [|exact Hj|].
    + intros d Hd Sd. destruct (kept d) eqn:Kd.
      * apply env_of_filter. exact (Hkeep v d Hv Hd Kd).
      * unfold kept in Kd. rewrite Sd in Kd. simpl in Kd. apply negb_false_iff, Nat.eqb_eq in Kd.
        assert (Hk : In (fst (fst d)) (map fst outp)) by (apply (Hview v (fst d) Hv); apply in_map; exact Hd).
        apply in_map_iff in Hk. destruct Hk as ([k m] & Ek & Hkm). simpl in Ek. subst k.
        assert (Em : m = snd (fst d)) by (apply (Hsz v (fst d) m Hv); [apply in_map; exact Hd|exact Hkm]).
        pose proof (env_combine_bound outp coords _ m ND Hb Hkm) as B. fold E in B. lia.
    + unfold stride0 in Z. rewrite (nth_map_lt _ _ j (1%positive, 0, 0) false Hj) in Z. exact Z.
  - apply NoDup_keys_filter. exact ND.
  - rewrite (dropmask_length keep outp coords Lc). reflexivity.
  - intros v' kn Hv' Hkn. unfold shrunk in Hv'. apply in_map_iff in Hv'. destruct Hv' as (v & <- & Hv).
    unfold vw_vars, shrink_view in Hkn. cbn [vw_dims] in Hkn. apply in_map_iff in Hkn. destruct Hkn as (d & <- & Hd).
    apply filter_In in Hd. destruct Hd as [Hd Kd].
    assert (Hk : In (fst (fst d)) (map fst outp)) by (apply (Hview v (fst d) Hv); apply in_map; exact Hd).
    apply in_map_iff in Hk. destruct Hk as ([k m] & Ek & Hkm). simpl in Ek. subst k.
    apply in_map_iff. exists (fst (fst d), m). split; [reflexivity|]. apply filter_In. split; [exact Hkm|].
    exact (Hkeep v d Hv Hd Kd).
Qed.
End Reduce.
