(** Soundness of [unify]: whenever it succeeds, every environment that satisfies the resulting
    substitution (as a set of equations) gives both arguments the same virtual index. *)
From Coq Require Import List Arith Lia PeanoNat Bool PArith.
Import ListNotations.
Require Import Fggs.Model.Axis Fggs.Proofs.Axis_sem.

(** no zero-size physical axis anywhere (then [zero] is false and every range is inhabited) *)
Fixpoint pos_sizes (e : axis) : bool :=
  match e with
  | Phys _ n => negb (Nat.eqb n 0)
  | Prod l => forallb pos_sizes l
  | Sum _ t _ => pos_sizes t
  end.
Definition pos_subst (sigma : subst) : bool := forallb (fun ke => pos_sizes (snd ke)) sigma.

Lemma zero_pos e : pos_sizes e = true -> zero e = false.
Proof.
  induction e as [k n|l IH|b t a IH] using axis_ind'; simpl; intros H.
  - destruct (Nat.eqb n 0); [discriminate|reflexivity].
  - induction l as [|x l IHl]; simpl in *; [reflexivity|].
    apply andb_true_iff in H. destruct H as [Hx Hl]. inversion IH; subst.
    rewrite H1 by exact Hx. simpl. apply IHl; assumption.
  - rewrite (IH H). rewrite andb_false_r. reflexivity.
Qed.

Lemma pos_factors l : forallb pos_sizes l = true -> forallb pos_sizes (flat_map factors_of l) = true.
Proof.
  induction l as [|x l IH]; simpl; [reflexivity|]. intros H. apply andb_true_iff in H. destruct H as [Hx Hl].
  rewrite forallb_app, (IH Hl), andb_true_r.
  destruct x; simpl in *; try rewrite Hx; auto.
Qed.

Lemma pos_productAxis l : forallb pos_sizes l = true -> pos_sizes (productAxis l) = true.
Proof.
  intros H. apply pos_factors in H. unfold productAxis.
  destruct (flat_map factors_of l) as [|x [|y r]]; simpl in *; auto.
  rewrite andb_true_r in H. exact H.
Qed.

Lemma factors_sem rho l :
  evalL rho (flat_map factors_of l) = evalL rho l /\ prodn (flat_map factors_of l) = prodn l.
Proof.
  induction l as [|x l [IH1 IH2]]; cbn [flat_map]; [split; reflexivity|].
  rewrite evalL_app, prodn_app, evalL_cons, prodn_cons, IH1, IH2.
  assert (evalL rho (factors_of x) = eval rho x /\ prodn (factors_of x) = numel x) as [-> ->]; [|split; reflexivity].
  destruct x as [k n|l'|b t a]; simpl.
  - unfold evalL, prodn; simpl; split; lia.
  - split; reflexivity.
  - unfold evalL, prodn; simpl; split; lia.
Qed.

Lemma productAxis_sem rho l :
  eval rho (productAxis l) = evalL rho l /\ numel (productAxis l) = prodn l.
Proof.
  destruct (factors_sem rho l) as [E N]. unfold productAxis.
  destruct (flat_map factors_of l) as [|x [|y r]] eqn:F.
  - rewrite <- E, <- N. split; reflexivity.
  - rewrite <- E, <- N. unfold evalL, prodn. simpl. split; lia.
  - rewrite <- E, <- N. split; reflexivity.
Qed.

Lemma models_app rho s1 s2 : models rho (s1 ++ s2) <-> models rho s1 /\ models rho s2.
Proof. unfold models. apply Forall_app. Qed.

Lemma pos_subst_app s1 s2 : pos_subst (s1 ++ s2) = pos_subst s1 && pos_subst s2.
Proof. unfold pos_subst. apply forallb_app. Qed.

Lemma lookup_pos fuel sigma e e' :
  pos_subst sigma = true -> pos_sizes e = true -> lookup fuel sigma e = Ok e' -> pos_sizes e' = true.
Proof.
  intros Hs He H. destruct (lookup_cases _ _ _ _ H) as [->|[k Hk]]; [exact He|].
  unfold pos_subst in Hs. rewrite forallb_forall in Hs. exact (Hs _ Hk).
Qed.

Lemma evalL_zero rho l : Forall (fun x => eval rho x = 0) l -> evalL rho l = 0.
Proof.
  induction 1 as [|x l Hx Hl IH]; [reflexivity|]. rewrite evalL_cons, Hx, IH. lia.
Qed.

Lemma subst_warn_if (c : bool) st : us_subst (if c then st else u_warn st) = us_subst st.
Proof. destruct c; reflexivity. Qed.

(** the invariant carried through [unify] *)
Definition usound (st st' : ustate) : Prop :=
  (exists ext, us_subst st' = us_subst st ++ ext) /\ pos_subst (us_subst st') = true.

Lemma usound_refl st : pos_subst (us_subst st) = true -> usound st st.
Proof. intros H. split; [exists []; rewrite app_nil_r; reflexivity|exact H]. Qed.

Lemma usound_trans a b c : usound a b -> usound b c -> usound a c.
Proof.
  intros [[x Hx] _] [[y Hy] Hc]. split; [|exact Hc]. exists (x ++ y). rewrite Hy, Hx, app_assoc. reflexivity.
Qed.

Lemma usound_models rho a b : usound a b -> models rho (us_subst b) -> models rho (us_subst a).
Proof. intros [[x Hx] _] M. rewrite Hx in M. apply models_app in M. tauto. Qed.

Lemma usound_bind k e st : pos_subst (us_subst st) = true -> pos_sizes e = true -> usound st (u_bind k e st).
Proof.
  intros Hs He. split; [exists [(k, e)]; reflexivity|].
  simpl. rewrite pos_subst_app, Hs. simpl. rewrite He. reflexivity.
Qed.

Lemma models_bind rho k e st : models rho (us_subst (u_bind k e st)) -> rho k = eval rho e.
Proof. simpl. intros M. apply models_app in M. destruct M as [_ M]. inversion M; subst. assumption. Qed.

Definition P_unify (fuel : nat) : Prop :=
  forall e f st b st',
    pos_sizes e = true -> pos_sizes f = true -> pos_subst (us_subst st) = true ->
    unify fuel e f st = Ok (b, st') ->
    usound st st' /\ (b = true -> forall rho, models rho (us_subst st') -> eval rho e = eval rho f).

Definition P_loop (fuel : nat) : Prop :=
  forall esr fsr st b st',
    forallb pos_sizes esr = true -> forallb pos_sizes fsr = true -> pos_subst (us_subst st) = true ->
    unify_loop fuel esr fsr st = Ok (b, st') ->
    usound st st' /\
    (b = true -> forall rho, models rho (us_subst st') -> evalL rho (rev esr) = evalL rho (rev fsr)).

(** the leftover loop [all(e.unify(unitAxis, subst) for e in chain(es, fs))] *)
Definition leftovers (fuel : nat) : list axis -> ustate -> res (bool * ustate) :=
  fix go (l : list axis) (st : ustate) : res (bool * ustate) :=
    match l with
    | [] => Ok (true, st)
    | x :: l => r <- unify fuel x unitAxis st ;;
                if fst r then go l (snd r) else Ok (false, snd r)
    end.

Lemma leftovers_sound fuel : P_unify fuel ->
  forall l st b st', forallb pos_sizes l = true -> pos_subst (us_subst st) = true ->
    leftovers fuel l st = Ok (b, st') ->
    usound st st' /\ (b = true -> forall rho, models rho (us_subst st') -> Forall (fun x => eval rho x = 0) l).
Proof.
  intros IH. induction l as [|x l IHl]; intros st b st' Hl Hs H; simpl in H.
  - inversion H; subst. split; [apply usound_refl; exact Hs|]. intros _ rho _. constructor.
  - simpl in Hl. apply andb_true_iff in Hl. destruct Hl as [Hx Hl].
    destruct (unify fuel x unitAxis st) as [[b1 st1]|] eqn:E1; [|discriminate]. cbn [bind fst snd] in H.
    destruct (IH x unitAxis st b1 st1 Hx eq_refl Hs E1) as [U1 S1].
    destruct b1.
    + destruct (IHl _ _ _ Hl (proj2 U1) H) as [U2 S2].
      split; [eapply usound_trans; eauto|]. intros -> rho M. constructor.
      * rewrite (S1 eq_refl rho (usound_models _ _ _ U2 M)). reflexivity.
      * apply S2; auto.
    + inversion H; subst. split; [exact U1|discriminate].
Qed.

Lemma forallb_rev {A} (f : A -> bool) l : forallb f (rev l) = forallb f l.
Proof.
  induction l as [|x l IH]; [reflexivity|]. simpl. rewrite forallb_app, IH. simpl.
  rewrite andb_true_r. apply andb_comm.
Qed.

Lemma div_exact n m : m <> 0 -> n mod m = 0 -> n / m * m = n.
Proof. intros Hm H. pose proof (Nat.div_mod n m Hm). lia. Qed.

Lemma unify_step fuel : P_unify fuel -> P_loop fuel -> P_unify (S fuel) /\ P_loop (S fuel).
Proof.
  intros IHu IHl. split.
  - (* unify *)
    intros e0 f0 st b st' He0 Hf0 Hs H. cbn [unify] in H.
    destruct (lookup (lookup_fuel (us_subst st)) (us_subst st) e0) as [e|] eqn:Le; [|discriminate].
    cbn [bind] in H.
    destruct (lookup (lookup_fuel (us_subst st)) (us_subst st) f0) as [f|] eqn:Lf; [|discriminate].
    cbn [bind] in H.
    assert (He : pos_sizes e = true) by exact (lookup_pos _ _ _ _ Hs He0 Le).
    assert (Hf : pos_sizes f = true) by exact (lookup_pos _ _ _ _ Hs Hf0 Lf).
    (* it suffices to relate e and f *)
    assert (G : usound st st' /\ (b = true -> forall rho, models rho (us_subst st') -> eval rho e = eval rho f)).
    2:{ destruct G as [U S]. split; [exact U|]. intros Hb rho M.
        pose proof (usound_models _ _ _ U M) as M0.
        rewrite <- (lookup_sem rho _ M0 _ _ _ Le), <- (lookup_sem rho _ M0 _ _ _ Lf). auto. }
    clear Le Lf He0 Hf0 e0 f0.
    destruct (same_object e f) eqn:So.
    { inversion H; subst. split; [apply usound_refl; exact Hs|]. intros _ rho _.
      destruct e, f; try discriminate. simpl in So. apply Pos.eqb_eq in So. subst. reflexivity. }
    clear So.
    remember (if Nat.eqb (numel e) (numel f) then st else u_warn st) as st1 eqn:Est1.
    assert (Hs1 : pos_subst (us_subst st1) = true) by (subst st1; rewrite subst_warn_if; exact Hs).
    assert (U01 : usound st st1).
    { subst st1. split; [exists []; rewrite subst_warn_if, app_nil_r; reflexivity|rewrite subst_warn_if; exact Hs]. }
    assert (G : usound st1 st' /\ (b = true -> forall rho, models rho (us_subst st') -> eval rho e = eval rho f)).
    2:{ destruct G as [U S]. split; [eapply usound_trans; eauto|exact S]. }
    clear U01 Est1 Hs st. rename st1 into st. rename Hs1 into Hs.
    destruct e as [k1 n1|l1|b1 t1 a1]; destruct f as [k2 n2|l2|b2 t2 a2].
    + (* Phys, Phys *) inversion H; subst. split; [apply usound_bind; assumption|].
      intros _ rho M. apply models_bind in M. exact M.
    + inversion H; subst. split; [apply usound_bind; assumption|].
      intros _ rho M. apply models_bind in M. exact M.
    + inversion H; subst. split; [apply usound_bind; assumption|].
      intros _ rho M. apply models_bind in M. exact M.
    + (* Prod, Phys *)
      assert (H' : Ok (true, u_bind k2 (Prod l1) st) = Ok (b, st')) by (destruct l1; exact H).
      clear H. inversion H'; subst. split; [apply usound_bind; assumption|].
      intros _ rho M. apply models_bind in M. symmetry. exact M.
    + (* Prod, Prod *)
      rewrite (zero_pos _ He) in H.
      simpl in He, Hf.
      destruct (IHl _ _ _ _ _ (eq_trans (forallb_rev _ _) He) (eq_trans (forallb_rev _ _) Hf) Hs H) as [U S].
      split; [exact U|]. intros Hb rho M. specialize (S Hb rho M). rewrite !rev_involutive in S. exact S.
    + (* Prod, Sum *)
      destruct l1 as [|x l1]; cbn [is_unit] in H.
      * destruct (Nat.eqb b2 0 && Nat.eqb a2 0) eqn:E0.
        -- destruct (IHu (Prod []) t2 st b st' He Hf Hs H) as [U S]. split; [exact U|].
           intros Hb rho M. specialize (S Hb rho M).
           apply andb_true_iff in E0. destruct E0 as [B A]. apply Nat.eqb_eq in B. subst.
           cbn [eval] in *. unfold evalL in *. simpl in *. lia.
        -- inversion H; subst. split; [apply usound_refl; exact Hs|discriminate].
      * inversion H; subst. split; [split; [exists []; rewrite app_nil_r; reflexivity|exact Hs]|discriminate].
    + (* Sum, Phys *) inversion H; subst. split; [apply usound_bind; assumption|].
      intros _ rho M. apply models_bind in M. symmetry. exact M.
    + (* Sum, Prod *)
      destruct l2 as [|y l2]; cbn [is_unit] in H.
      * destruct (Nat.eqb b1 0 && Nat.eqb a1 0) eqn:E0.
        -- destruct (IHu (Prod []) t1 st b st' Hf He Hs H) as [U S]. split; [exact U|].
           intros Hb rho M. specialize (S Hb rho M).
           apply andb_true_iff in E0. destruct E0 as [B A]. apply Nat.eqb_eq in B. subst.
           cbn [eval] in *. unfold evalL in *. simpl in *. lia.
        -- inversion H; subst. split; [apply usound_refl; exact Hs|discriminate].
      * inversion H; subst. split; [split; [exists []; rewrite app_nil_r; reflexivity|exact Hs]|discriminate].
    + (* Sum, Sum *)
      destruct (Nat.eqb b1 b2 && Nat.eqb a1 a2) eqn:E0.
      * destruct (IHu t1 t2 st b st' He Hf Hs H) as [U S]. split; [exact U|].
        intros Hb rho M. specialize (S Hb rho M).
        apply andb_true_iff in E0. destruct E0 as [B A]. apply Nat.eqb_eq in B. subst.
        cbn [eval]. lia.
      * destruct ((b2 <? b1 + numel t1) && (b1 <? b2 + numel t2)); inversion H; subst;
          (split; [split; [exists []; rewrite app_nil_r; reflexivity|exact Hs]|discriminate]).
  - (* unify_loop *)
    intros esr fsr st b st' Hes Hfs Hs H. cbn [unify_loop] in H.
    assert (Left : forall l, l = rev esr ++ rev fsr -> (esr = [] \/ fsr = []) ->
              leftovers fuel l st = Ok (b, st') ->
              usound st st' /\
              (b = true -> forall rho, models rho (us_subst st') -> evalL rho (rev esr) = evalL rho (rev fsr))).
    { intros l El Hnil HL.
      assert (Hl : forallb pos_sizes l = true).
      { subst l. rewrite forallb_app, !forallb_rev, Hes, Hfs. reflexivity. }
      destruct (leftovers_sound fuel IHu _ _ _ _ Hl Hs HL) as [U S]. split; [exact U|].
      intros Hb rho M. specialize (S Hb rho M). subst l. apply Forall_app in S. destruct S as [S1 S2].
      rewrite (evalL_zero _ _ S1), (evalL_zero _ _ S2). reflexivity. }
    destruct esr as [|e9 esr']; [apply (Left _ eq_refl); [left; reflexivity|exact H]|].
    destruct fsr as [|f9 fsr']; [apply (Left _ eq_refl); [right; reflexivity|exact H]|].
    clear Left. simpl in Hes, Hfs.
    apply andb_true_iff in Hes. destruct Hes as [He9 Hes]. apply andb_true_iff in Hfs. destruct Hfs as [Hf9 Hfs].
    cbn [rev].
    destruct (Nat.eqb_spec (numel e9) (numel f9)) as [Emn|Emn].
    + (* equal sizes *)
      destruct (unify fuel e9 f9 st) as [[b1 st1]|] eqn:E1; [|discriminate]. cbn [bind fst snd] in H.
      destruct (IHu _ _ _ _ _ He9 Hf9 Hs E1) as [U1 S1].
      destruct b1.
      * destruct (IHl _ _ _ _ _ Hes Hfs (proj2 U1) H) as [U2 S2].
        split; [eapply usound_trans; eauto|]. intros Hb rho M.
        rewrite !evalL_snoc, (S2 Hb rho M), (S1 eq_refl rho (usound_models _ _ _ U2 M)), Emn. reflexivity.
      * inversion H; subst. split; [exact U1|discriminate].
    + destruct (numel e9 <? numel f9) eqn:Elt.
      * (* m < n : split f9 *)
        apply Nat.ltb_lt in Elt.
        destruct (Nat.eqb_spec (numel e9) 0) as [|Hm]; [discriminate|].
        destruct (Nat.eqb_spec (numel f9 mod numel e9) 0) as [Hmod|Hmod]; cbn [negb] in H.
        2:{ inversion H; subst. split; [|discriminate]. split; [exists []; rewrite app_nil_r; reflexivity|exact Hs]. }
        unfold u_fresh in H.
        set (k := Phys (us_next st) (numel f9 / numel e9)) in *.
        set (st0 := {| us_subst := us_subst st; us_next := Pos.succ (us_next st); us_warn := us_warn st |}) in *.
        assert (Hk : pos_sizes k = true).
        { simpl. destruct (Nat.eqb_spec (numel f9 / numel e9) 0) as [Z|]; [|reflexivity].
          apply Nat.div_small_iff in Z; [lia|exact Hm]. }
        assert (Hp : pos_sizes (productAxis [k; e9]) = true).
        { apply pos_productAxis. simpl. rewrite He9. destruct (Nat.eqb_spec (numel f9 / numel e9) 0) as [Z|]; [|reflexivity].
          apply Nat.div_small_iff in Z; [lia|exact Hm]. }
        destruct (unify fuel f9 (productAxis [k; e9]) st0) as [[b1 st1]|] eqn:E1; [|discriminate].
        cbn [bind fst snd] in H.
        destruct (IHu f9 (productAxis [k; e9]) st0 b1 st1 Hf9 Hp Hs E1) as [U1 S1].
        destruct b1.
        -- assert (Hkf : forallb pos_sizes (k :: fsr') = true) by (cbn [forallb]; rewrite Hk, Hfs; reflexivity).
           destruct (IHl _ _ _ _ _ Hes Hkf (proj2 U1) H) as [U2 S2].
           split; [eapply usound_trans; [exact U1|exact U2]|]. intros Hb rho M.
           specialize (S2 Hb rho M). specialize (S1 eq_refl rho (usound_models _ _ _ U2 M)).
           rewrite (proj1 (productAxis_sem rho [k; e9])) in S1.
           assert (Ek : evalL rho [k; e9] = rho (us_next st) * numel e9 + eval rho e9) by (unfold evalL; simpl; lia).
           cbn [rev] in S2. rewrite !evalL_snoc in *. subst k. cbn [numel eval] in S2.
           rewrite S2, S1, Ek. pose proof (div_exact _ _ Hm Hmod). nia.
        -- inversion H; subst. split; [exact U1|discriminate].
      * (* m > n : split e9 *)
        apply Nat.ltb_ge in Elt.
        destruct (Nat.eqb_spec (numel f9) 0) as [|Hm]; [discriminate|].
        destruct (Nat.eqb_spec (numel e9 mod numel f9) 0) as [Hmod|Hmod]; cbn [negb] in H.
        2:{ inversion H; subst. split; [|discriminate]. split; [exists []; rewrite app_nil_r; reflexivity|exact Hs]. }
        unfold u_fresh in H.
        set (k := Phys (us_next st) (numel e9 / numel f9)) in *.
        set (st0 := {| us_subst := us_subst st; us_next := Pos.succ (us_next st); us_warn := us_warn st |}) in *.
        assert (Hk : pos_sizes k = true).
        { simpl. destruct (Nat.eqb_spec (numel e9 / numel f9) 0) as [Z|]; [|reflexivity].
          apply Nat.div_small_iff in Z; [lia|exact Hm]. }
        assert (Hp : pos_sizes (productAxis [k; f9]) = true).
        { apply pos_productAxis. simpl. rewrite Hf9. destruct (Nat.eqb_spec (numel e9 / numel f9) 0) as [Z|]; [|reflexivity].
          apply Nat.div_small_iff in Z; [lia|exact Hm]. }
        destruct (unify fuel e9 (productAxis [k; f9]) st0) as [[b1 st1]|] eqn:E1; [|discriminate].
        cbn [bind fst snd] in H.
        destruct (IHu e9 (productAxis [k; f9]) st0 b1 st1 He9 Hp Hs E1) as [U1 S1].
        destruct b1.
        -- assert (Hke : forallb pos_sizes (k :: esr') = true) by (cbn [forallb]; rewrite Hk, Hes; reflexivity).
           destruct (IHl _ _ _ _ _ Hke Hfs (proj2 U1) H) as [U2 S2].
           split; [eapply usound_trans; [exact U1|exact U2]|]. intros Hb rho M.
           specialize (S2 Hb rho M). specialize (S1 eq_refl rho (usound_models _ _ _ U2 M)).
           rewrite (proj1 (productAxis_sem rho [k; f9])) in S1.
           assert (Ek : evalL rho [k; f9] = rho (us_next st) * numel f9 + eval rho f9) by (unfold evalL; simpl; lia).
           cbn [rev] in S2. rewrite !evalL_snoc in *. subst k. cbn [numel eval] in S2.
           rewrite <- S2, S1, Ek. pose proof (div_exact _ _ Hm Hmod). nia.
        -- inversion H; subst. split; [exact U1|discriminate].
Qed.

Theorem unify_sound_both : forall fuel, P_unify fuel /\ P_loop fuel.
Proof.
  induction fuel as [|fuel [IHu IHl]]; [split; intros ? ? ? ? ? ? ? ? H; discriminate|].
  apply unify_step; assumption.
Qed.

Lemma unify_list_sound fuel : forall es fs st b st',
  forallb pos_sizes es = true -> forallb pos_sizes fs = true -> pos_subst (us_subst st) = true ->
  unify_list fuel es fs st = Ok (b, st') ->
  usound st st' /\
  (b = true -> forall rho, models rho (us_subst st') ->
     map (eval rho) (firstn (length fs) es) = map (eval rho) (firstn (length es) fs)).
Proof.
  induction es as [|e es IH]; intros fs st b st' Hes Hfs Hs H.
  - simpl in H. inversion H; subst. split; [apply usound_refl; exact Hs|]. intros _ rho _.
    rewrite firstn_nil. reflexivity.
  - destruct fs as [|f fs].
    + simpl in H. inversion H; subst. split; [apply usound_refl; exact Hs|]. intros _ rho _. reflexivity.
    + simpl in H, Hes, Hfs. apply andb_true_iff in Hes. destruct Hes as [He Hes].
      apply andb_true_iff in Hfs. destruct Hfs as [Hf Hfs].
      destruct (unify fuel e f st) as [[b1 st1]|] eqn:E1; [|discriminate]. cbn [bind fst snd] in H.
      destruct (proj1 (unify_sound_both fuel) _ _ _ _ _ He Hf Hs E1) as [U1 S1].
      destruct b1.
      * destruct (IH _ _ _ _ Hes Hfs (proj2 U1) H) as [U2 S2].
        split; [eapply usound_trans; eauto|]. intros Hb rho M. simpl.
        rewrite (S1 eq_refl rho (usound_models _ _ _ U2 M)), (S2 Hb rho M). reflexivity.
      * inversion H; subst. split; [exact U1|discriminate].
Qed.

(** Statement in terms of in-range environments, without the static side condition: an axis with
    a zero-size physical axis has no in-range environment at all. *)
Lemma inrange_pos rho e : inrange rho e -> pos_sizes e = true.
Proof.
  induction e as [k n|l IH|b t a IH] using axis_ind'; simpl; intros R.
  - destruct (Nat.eqb_spec n 0); [lia|reflexivity].
  - apply inrange_Prod in R. rewrite forallb_forall. rewrite Forall_forall in *. auto.
  - auto.
Qed.

Definition ustate0 (next : positive) : ustate := {| us_subst := []; us_next := next; us_warn := false |}.

Theorem unify_sound fuel es fs next st' :
  length es = length fs ->
  unify_list fuel es fs (ustate0 next) = Ok (true, st') ->
  forall rho, Forall (inrange rho) es -> Forall (inrange rho) fs -> models rho (us_subst st') ->
    map (eval rho) es = map (eval rho) fs.
Proof.
  intros Hlen H rho Res Rfs M.
  assert (Hes : forallb pos_sizes es = true).
  { rewrite forallb_forall. rewrite Forall_forall in Res. intros x Hx. eapply inrange_pos; eauto. }
  assert (Hfs : forallb pos_sizes fs = true).
  { rewrite forallb_forall. rewrite Forall_forall in Rfs. intros x Hx. eapply inrange_pos; eauto. }
  destruct (unify_list_sound fuel es fs (ustate0 next) true st' Hes Hfs eq_refl H) as [_ S].
  specialize (S eq_refl rho M). rewrite <- Hlen, firstn_all in S. rewrite Hlen, firstn_all in S. exact S.
Qed.

Example unify_sound_ex :
  let z := Phys 1 6 in let x := Phys 2 2 in let y := Phys 3 3 in
  exists st', unify_list 10 [Sum 1 z 2; x] [Sum 1 (Prod [x; y]) 2; Phys 4 2] (ustate0 5) = Ok (true, st')
              /\ us_subst st' = [(1%positive, Prod [x; y]); (2%positive, Phys 4 2)].
Proof. eexists. split; reflexivity. Qed.
