(** C09 tier B -- termination of the axis loop of PatternedTensor.solve, second half: the number of
    passes.  [pass_splits]: a pass whose antisubst has only physical first parts, two of them
    equal, increases the number of distinct physical axes of [e].  [psolve_loop_fuel_partial]: with
    [amsr e0 * (amsr e0 + 1) + 1] units of fuel the model's loop does not run out of fuel, unless a
    warning was issued or some clone has a size-1 factor. *)
From Coq Require Import List Arith Lia PeanoNat Bool PArith Permutation.
Import ListNotations.
Require Import Fggs.Model.Axis Fggs.Model.AxisCheck Fggs.Model.PTensor Fggs.Model.PSolve.
Require Import Fggs.Proofs.Axis_sem Fggs.Proofs.Axis_unify Fggs.Proofs.Axis_antiunify Fggs.Proofs.Axis_antiunify_inv.
Require Import Fggs.Proofs.Axis_repr Fggs.Proofs.PTensor_gen Fggs.Proofs.PSolve_anti Fggs.Proofs.PSolve_step Fggs.Proofs.PSolve_loop Fggs.Proofs.PSolve_term.
Require Import Fggs.Proofs.Axis_complete_gen.

(** * distinct physical axes *)
Definition dvars (e : axis) : nat := length (fvn_list [e]).
Definition dkeys (e : axis) : list positive := map fst (fvn_list [e]).

Lemma dd_fresh seen l k n : In (k, n) (dedup seen l) -> existsb (Pos.eqb k) seen = false.
Proof.
  revert seen. induction l as [|[k' n'] l IH]; intros seen H; [contradiction|]. simpl in H.
  destruct (existsb (Pos.eqb k') seen) eqn:E; [exact (IH seen H)|].
  destruct H as [H|H]; [inversion H; subst; exact E|].
  specialize (IH (k' :: seen) H). simpl in IH. apply orb_false_iff in IH. tauto.
Qed.

Lemma dd_nodup seen l : NoDup (map fst (dedup seen l)).
Proof.
  revert seen. induction l as [|[k' n'] l IH]; intros seen; [constructor|]. simpl.
  destruct (existsb (Pos.eqb k') seen); [apply IH|]. simpl. constructor; [|apply IH].
  intros Hin. apply in_map_iff in Hin. destruct Hin as ([k n] & E & Hin). simpl in E. subst k.
  apply dd_fresh in Hin. simpl in Hin. rewrite Pos.eqb_refl in Hin. discriminate.
Qed.

Lemma dd_len seen l : length (dedup seen l) <= length l.
Proof.
  revert seen. induction l as [|[k' n'] l IH]; intros seen; [apply le_n|]. simpl.
  destruct (existsb (Pos.eqb k') seen); [specialize (IH seen); lia|simpl; specialize (IH (k' :: seen)); lia].
Qed.

Lemma dkeys_nodup e : NoDup (dkeys e).
Proof. apply dd_nodup. Qed.

Lemma dkeys_In e k : In k (dkeys e) <-> In k (fv e).
Proof.
  unfold dkeys, fvn_list. simpl. rewrite app_nil_r. rewrite fv_of_fvn. split.
  - intros H. apply in_map_iff in H. destruct H as ([k' n] & E & H). simpl in E. subst k'. exists n. exact (dedup_In_sub _ _ _ H).
  - intros (n & H). destruct (dedup_keys [] (fvn e) k n H eq_refl) as (n' & Hn'). apply in_map_iff. exists (k, n'). auto.
Qed.

Lemma dvars_dkeys e : dvars e = length (dkeys e).
Proof. unfold dvars, dkeys. rewrite map_length. reflexivity. Qed.

Lemma fvn_len e : length (fvn e) <= amsr e.
Proof.
  induction e as [k n|l IH|b t a IH] using axis_ind'; [apply le_n| |simpl; lia].
  rewrite amsr_Prod. simpl. induction l as [|x l IHl]; [simpl; lia|]. inversion IH; subst. simpl. rewrite app_length.
  specialize (IHl H2). change (fold_right (fun x0 acc => amsr x0 + acc) 0 l) with (amsrs l) in *. lia.
Qed.

Lemma dvars_le e : dvars e <= amsr e.
Proof.
  unfold dvars, fvn_list. simpl. rewrite app_nil_r. pose proof (dd_len [] (fvn e)). pose proof (fvn_len e). lia.
Qed.

Lemma same_set_length {A} (l1 l2 : list A) : NoDup l1 -> NoDup l2 -> (forall x, In x l1 <-> In x l2) -> length l1 = length l2.
Proof. intros N1 N2 H. apply Permutation_length. apply NoDup_Permutation; assumption. Qed.

Lemma NoDup_nodup_pos l : NoDup l -> nodup_pos l = true.
Proof.
  induction 1 as [|x l Hx ND IH]; [reflexivity|]. simpl. rewrite IH, andb_true_r. apply negb_true_iff.
  destruct (existsb (Pos.eqb x) l) eqn:E; [|reflexivity]. exfalso. apply Hx. apply existsb_exists in E.
  destruct E as (y & Hy & E). apply Pos.eqb_eq in E. subst. exact Hy.
Qed.

(** * a pass that breaks sharing *)
Section Splits.
Variables (fuel : nat) (B : positive) (e f g : axis) (st' : astate).
Hypothesis Be : Axis_antiunify_inv.below B e.
Hypothesis Bf : Axis_antiunify_inv.below B f.
Hypothesis H : antiunify fuel e f (astate0 B) = Ok (g, st').
Hypothesis W : as_warn st' = false.

Lemma dvars_g : dvars g = length (as_list st').
Proof.
  pose proof (anti_gen1 fuel B e f g st' Be Bf H W) as G.
  rewrite dvars_dkeys. rewrite <- (map_length akey (as_list st')). rewrite <- akeys_akey.
  apply same_set_length; [apply dkeys_nodup|exact (g_nodup _ _ _ _ _ G)|].
  intros k. rewrite dkeys_In. split.
  - exact (anti_g_key fuel B e f g st' Be Bf H W k).
  - intros Hk. destruct (g_lggs2 _ _ _ _ _ G k Hk) as (n & Hn). simpl in Hn. rewrite app_nil_r in Hn. apply fv_of_fvn. eauto.
Qed.

Theorem pass_splits : acq_all_phys (as_list st') = true -> acq_injective (as_list st') = false -> dvars e < dvars g.
Proof.
  intros Hp Hi. pose proof (anti_gen1 fuel B e f g st' Be Bf H W) as G. set (L := as_list st') in *.
  rewrite dvars_g. fold L. rewrite dvars_dkeys.
  set (M := map (fun en => puid (part1 en)) L).
  assert (Phys1 : forall en, In en L -> exists k n, part1 en = Phys k n).
  { intros en Hen. unfold acq_all_phys in Hp. rewrite forallb_forall in Hp. specialize (Hp en Hen). rewrite aent_part1 in Hp.
    destruct (part1 en) as [k n| |]; try discriminate. eauto. }
  assert (EM : flat_map (fun en => fv (aent_e en)) L = M).
  { unfold M. clear -Phys1. induction L as [|en L' IH]; [reflexivity|]. simpl. rewrite IH by (intros x Hx; apply Phys1; right; exact Hx).
    destruct (Phys1 en (or_introl eq_refl)) as (k & n & E). rewrite aent_part1, E. reflexivity. }
  assert (NM : ~ NoDup M).
  { intros ND. unfold acq_injective in Hi. rewrite Hp, EM in Hi. simpl in Hi. rewrite (NoDup_nodup_pos M ND) in Hi. discriminate. }
  assert (I1 : incl (dkeys e) M).
  { intros k Hk. apply dkeys_In in Hk. apply fv_of_fvn in Hk. destruct Hk as (n & Hn).
    destruct (g_cover _ _ _ _ _ G (k, n)) as (en & Hen & Hp1); [simpl; rewrite app_nil_r; exact Hn|].
    destruct (Phys1 en Hen) as (k1 & n1 & E). rewrite E in Hp1. destruct Hp1 as [Hp1|[]]. inversion Hp1; subst.
    unfold M. apply in_map_iff. exists en. rewrite E. auto. }
  replace (length L) with (length M) by (unfold M; apply map_length).
  destruct (le_lt_dec (length M) (length (dkeys e))) as [Le|Lt]; [|exact Lt].
  exfalso. apply NM. exact (NoDup_incl_NoDup (dkeys_nodup e) Le I1).
Qed.

Lemma some_nonphys : acq_all_phys (as_list st') = false -> 1 <= cntnp (as_list st').
Proof.
  unfold acq_all_phys, cntnp. induction (as_list st') as [|en L IH]; [discriminate|]. simpl.
  rewrite aent_part1. destruct (is_phys (part1 en)); simpl; [exact IH|lia].
Qed.
End Splits.

(** * the trace only grows *)
Lemma loop_trace_prefix exit : forall fuel a0 a1 e i,
  match psolve_loop_gen exit fuel a0 a1 e i with
  | LDone _ _ i' | LEarly _ i' | LFuel _ i' => exists ext, li_trace i' = li_trace i ++ ext
  | LErr _ => True
  end.
Proof.
  induction fuel as [|fuel IH]; intros a0 a1 e i; [exists []; rewrite app_nil_r; reflexivity|]. cbn [psolve_loop_gen].
  destruct (unify _ e a1 _) as [[[|] st]|]; [| |exact I].
  - destruct (clone _ _ a0) as [c|]; [|exact I].
    destruct (antiunify _ e c _) as [[g ast]|]; [|exact I].
    destruct (exit (as_list ast)); [exists [(us_subst st, c)]; reflexivity|].
    specialize (IH a0 a1 g (mkLI (S (li_iters i)) (as_next ast) (li_warn i || us_warn st || as_warn ast) (li_trace i ++ [(us_subst st, c)]))).
    destruct (psolve_loop_gen exit fuel a0 a1 g _) as [? ? i'|? i'|? i'|?]; try exact I;
      destruct IH as (ext & E); exists ((us_subst st, c) :: ext); rewrite E; cbn [li_trace]; rewrite <- app_assoc; reflexivity.
  - exists []. rewrite app_nil_r. reflexivity.
Qed.

Lemma trace_nouf_app t1 t2 : trace_nouf (t1 ++ t2) = trace_nouf t1 && trace_nouf t2.
Proof. unfold trace_nouf. apply forallb_app. Qed.

(** * C09_psolve_loop_terminates_partial *)
Theorem psolve_loop_fuel : forall fuel K a0 a1 e i,
  below (li_next i) a0 -> below (li_next i) a1 -> below (li_next i) e ->
  (forall k, In k (fv e) -> ~ In k (fv a0 ++ fv a1)) ->
  amsr e <= K -> amsr e * S K - dvars e < fuel ->
  match psolve_loop fuel a0 a1 e i with
  | LFuel e' i' => li_warn i' = false -> trace_nouf (li_trace i') = true -> False
  | _ => True
  end.
Proof.
  induction fuel as [|fuel IH]; intros K a0 a1 e i B0 B1 Be Dj HK HP; [lia|].
  unfold psolve_loop in *. cbn [psolve_loop_gen].
  change {| us_subst := []; us_next := li_next i; us_warn := false |} with (ust0 (li_next i)).
  destruct (unify (ps_ufuel e a1) e a1 (ust0 (li_next i))) as [[[|] st]|] eqn:U; [| |exact I]; [|exact I].
  destruct (clone (ps_cfuel (us_subst st) a0) (us_subst st) a0) as [c|] eqn:Cl; [|exact I].
  change {| as_list := []; as_next := us_next st; as_warn := false |} with (astate0 (us_next st)).
  destruct (antiunify (ps_afuel e c) e c (astate0 (us_next st))) as [[g ast]|] eqn:An; [|exact I].
  set (i' := mkLI (S (li_iters i)) (as_next ast) (li_warn i || us_warn st || as_warn ast) (li_trace i ++ [(us_subst st, c)])).
  destruct (acq_injective (as_list ast)) eqn:Ex; [exact I|].
  pose proof (loop_warn_false acq_injective fuel a0 a1 g i') as WF.
  pose proof (loop_trace_prefix acq_injective fuel a0 a1 g i') as TP.
  destruct (psolve_loop_gen acq_injective fuel a0 a1 g i') as [? ? i''|? i''|e'' i''|?] eqn:R; try exact I.
  intros Wf Nf. assert (NfAll := Nf).
  specialize (WF Wf). cbn [li_warn i'] in WF.
  apply orb_false_elim in WF. destruct WF as [WF Wa]. apply orb_false_elim in WF. destruct WF as [Wi Wu].
  destruct TP as (ext & TE). rewrite TE in Nf. cbn [li_trace i'] in Nf.
  rewrite !trace_nouf_app in Nf. apply andb_true_iff in Nf. destruct Nf as [Nf _]. apply andb_true_iff in Nf. destruct Nf as [_ Nc].
  unfold trace_nouf in Nc. simpl in Nc. rewrite andb_true_r in Nc.
  (* the pass shrinks the potential *)
  destruct (step_covers (li_next i) a0 a1 e B0 B1 Be Dj _ _ _ st c g ast U Cl An Wu Wa) as (_ & _ & _ & C4 & C5 & _).
  destruct (pass_frame (li_next i) a1 e B1 Be _ true st U) as [L _].
  assert (Be' : Axis_antiunify_inv.below (us_next st) e) by (apply below_same; eapply below_mono; [exact L|exact Be]).
  assert (Bc' : Axis_antiunify_inv.below (us_next st) c) by (apply below_same; exact (step_clone_below (li_next i) a0 a1 e B0 B1 Be _ _ st c U Cl)).
  pose proof (anti_measure _ _ _ _ _ _ An Nc) as AM.
  pose proof (dvars_le e) as De. pose proof (dvars_le g) as Dg. pose proof (amsr_pos e) as Pe.
  assert (Pot : amsr g <= K /\ amsr g * S K - dvars g < fuel).
  { destruct (acq_all_phys (as_list ast)) eqn:Ap.
    - pose proof (pass_splits _ _ _ _ _ _ Be' Bc' An Wa Ap Ex) as Sp. split; [lia|]. nia.
    - pose proof (some_nonphys ast Ap). split; [lia|]. nia. }
  destruct Pot as [HK' HP'].
  assert (G := IH K a0 a1 g i').
  cbn [li_next i'] in G. unfold psolve_loop in G. rewrite R in G. apply G; try assumption.
  - eapply below_mono; [exact C5|exact B0].
  - eapply below_mono; [exact C5|exact B1].
  - intros k Hk. exact (proj2 (C4 k Hk)).
  - intros k Hk Hin. pose proof (proj1 (C4 k Hk)) as Lk. apply in_app_or in Hin.
    destruct Hin as [Hin|Hin]; [pose proof (B0 k Hin)|pose proof (B1 k Hin)]; lia.
Qed.

(** the call made by [psolve_axes]: fuel [loop_fuel e0] *)
Corollary psolve_loop_terminates_partial next a0 a1 e0 :
  below next a0 -> below next a1 -> below next e0 ->
  (forall k, In k (fv e0) -> ~ In k (fv a0 ++ fv a1)) ->
  match psolve_loop (loop_fuel e0) a0 a1 e0 (mkLI 0 next false []) with
  | LFuel e' i' => li_warn i' = false -> trace_nouf (li_trace i') = true -> False
  | _ => True
  end.
Proof.
  intros B0 B1 Be Dj. apply (psolve_loop_fuel (loop_fuel e0) (amsr e0)); try assumption; [apply le_n|].
  unfold loop_fuel. lia.
Qed.

(** the bound is not vacuous: the shift pattern needs four passes *)
Example psolve_loop_fuel_example :
  let inl := Sum 0 (Prod []) 1 in let inr := Sum 1 (Prod []) 0 in
  let a0 := Prod [inr; Phys 1 2; Phys 2 2] in let a1 := Prod [Phys 1 2; Phys 2 2; Phys 3 2] in
  let e0 := Prod [inl; inl; inl] in
  exists g ents i', psolve_loop (loop_fuel e0) a0 a1 e0 (mkLI 0 5 false []) = LDone g ents i'
                    /\ li_iters i' = 4 /\ li_warn i' = false /\ trace_nouf (li_trace i') = true.
Proof. eexists. eexists. eexists. split; [vm_compute; reflexivity|]. repeat split. Qed.
