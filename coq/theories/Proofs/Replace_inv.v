(** The invariant of Appendix C: along any sequence of replacement steps the "denotation" of the
    run state (renamed finished part + derived sub-graphs of the pending tasks) does not change. *)
From Coq Require Import List Arith Bool PeanoNat Lia Permutation.
Import ListNotations.
Require Import Fggs.Model.Replace Fggs.Proofs.Replace_base Fggs.Proofs.Replace_wf Fggs.Proofs.Replace_explicit
  Fggs.Proofs.Replace_spec Fggs.Proofs.Replace_model_spec.

(** * derivation trees: one-level unfolding of the boolean guard *)
Lemma wf_dtreeb_unfold : forall L r a cs, wf_dtreeb L (DT r a cs) = true ->
  wf_rule r /\ labels_ok L (r_rhs r) /\ In (r_lhs r) L /\
  (forall v, In v (g_nodes (r_rhs r)) -> amem node_eqb a v = true) /\
  NoDup (map (fun kc => e_id (fst kc)) cs) /\
  forall k c, In (k, c) cs ->
    In k (g_edges (r_rhs r)) /\ e_label k = r_lhs (t_rule c) /\
    glue_okb a (e_att k) (t_asst c) (g_ext (r_rhs (t_rule c))) = true /\ wf_dtreeb L c = true.
Proof.
  intros L r a cs H. cbn [wf_dtreeb] in H.
  do 5 (apply andb_true_iff in H; destruct H as [H ?]).
  apply wf_ruleb_iff in H. apply labels_in_iff in H4. apply (memb_In elabel_eqb elabel_eqb_eq) in H3.
  rewrite forallb_forall in H2. apply (nodupb_NoDup id_eqb id_eqb_eq) in H1. rewrite forallb_forall in H0.
  do 5 (split; [auto|]).
  intros k c Hkc. specialize (H0 (k, c) Hkc); cbn [fst snd] in H0.
  do 3 (apply andb_true_iff in H0; destruct H0 as [H0 ?]).
  split; [apply (memb_In edge_eqb edge_eqb_eq); auto|].
  split; [apply elabel_eqb_eq; auto|]. auto.
Qed.

(** * helpers *)
Lemma map_fst_filter : forall {A B} (p : A -> bool) (l : list (A * B)),
  map fst (filter (fun x => p (fst x)) l) = filter p (map fst l).
Proof. induction l as [|[a b] l]; simpl; auto. destruct (p a); simpl; rewrite IHl; auto. Qed.

Lemma filter_filter : forall {A} (p q : A -> bool) l, filter p (filter q l) = filter (fun x => q x && p x) l.
Proof. induction l; simpl; auto. destruct (q a); simpl; [destruct (p a)|]; rewrite IHl; auto. Qed.

Lemma flat_map_map' : forall {A B C} (f : B -> list C) (g : A -> B) l, flat_map f (map g l) = flat_map (fun x => f (g x)) l.
Proof. induction l; simpl; auto. rewrite IHl; auto. Qed.

Lemma flat_map_app' : forall {A B} (f : A -> list B) l1 l2, flat_map f (l1 ++ l2) = flat_map f l1 ++ flat_map f l2.
Proof. induction l1; simpl; intros; auto. rewrite IHl1, app_assoc; auto. Qed.

Lemma flat_map_ext_in : forall {A B} (f g : A -> list B) l, (forall x, In x l -> f x = g x) -> flat_map f l = flat_map g l.
Proof. induction l; simpl; intros; auto. rewrite H, IHl; auto. Qed.

Lemma combine_map_r : forall {A B C} (f : B -> C) (l1 : list A) (l2 : list B),
  combine l1 (map f l2) = map (fun kv => (fst kv, f (snd kv))) (combine l1 l2).
Proof. induction l1; destruct l2; simpl; auto. rewrite IHl1; auto. Qed.

Lemma NoDup_map_inj : forall {A B} (g : A -> B) l,
  (forall x y, In x l -> In y l -> g x = g y -> x = y) -> NoDup l -> NoDup (map g l).
Proof.
  induction l as [|z l IHl]; simpl; intros; constructor; inversion H0; subst.
  - intro Hin. apply in_map_iff in Hin. destruct Hin as [y [Hy Hin]].
    assert (y = z) by (apply H; auto). subst; auto.
  - apply IHl; auto.
Qed.


Lemma map_flat_map : forall {A B C} (g : B -> C) (f : A -> list B) l,
  map g (flat_map f l) = flat_map (fun x => map g (f x)) l.
Proof. induction l; simpl; auto. rewrite map_app, IHl; auto. Qed.

Definition nname (nn : list (node * name)) (v : node) : name :=
  match aget node_eqb nn v with Some x => x | None => NStart 0 end.

Lemma nname_app_old : forall nn m v, In v (map fst nn) -> nname (nn ++ m) v = nname nn v.
Proof.
  intros. unfold nname. rewrite aget_app.
  destruct (aget_In_key node_eqb node_eqb_eq nn v H) as [x Hx]. rewrite Hx; auto.
Qed.

Lemma split_task_spec : forall p l pre tk post, split_task p l = Some (pre, tk, post) ->
  l = pre ++ tk :: post /\ tk_path tk = p.
Proof.
  induction l; simpl; intros; try discriminate.
  destruct (list_eqb id_eqb (tk_path a) p) eqn:E.
  - inversion H; subst. apply path_eqb_eq in E. auto.
  - destruct (split_task p l) as [[[pre' x] post']|] eqn:E2; try discriminate.
    inversion H; subst. destruct (IHl _ _ _ eq_refl). subst. auto.
Qed.

Lemma r_nm_nonext : forall L g nx e r, repl_guard L g nx e r ->
  filter (fun rg => negb (is_ext r (fst rg))) (r_nm nx e r) = combine (nonext r) (copies nx (nonext r)).
Proof.
  intros. unfold r_nm. rewrite filter_app.
  rewrite (filter_combine_none (fun v => negb (is_ext r v))).
  2:{ intros x Hx. apply negb_false_iff. apply is_ext_In; auto. }
  rewrite (filter_combine_all (fun v => negb (is_ext r v))); auto.
  intros x Hx. apply nonext_In in Hx. apply negb_true_iff. unfold is_ext. apply (memb_false node_eqb node_eqb_eq). tauto.
Qed.

Lemma map_combine_copies : forall {C} (F : node -> nat -> C) vs nx,
  map (fun rg => F (fst rg) (n_label (snd rg))) (combine vs (copies nx vs)) = map (fun v => F v (n_label v)) vs.
Proof. induction vs; simpl; intros; auto. rewrite IHvs; auto. Qed.

(** assign_nodes and child_tasks succeed on well-formed steps *)
Lemma assign_nodes_ok : forall nm a vs acc,
  (forall v, In v vs -> exists g, aget node_eqb nm v = Some g) ->
  (forall v, In v vs -> amem node_eqb a v = true) ->
  exists acc', assign_nodes nm a vs acc = (acc', None).
Proof.
  induction vs; simpl; intros; eauto.
  destruct (H a0 (or_introl eq_refl)) as [g Hg]. rewrite Hg.
  specialize (H0 a0 (or_introl eq_refl)) as Ha. unfold amem in Ha.
  destruct (aget node_eqb a a0); try discriminate. apply IHvs; auto.
Qed.

Definition ecopy (em : emap) (k : edge) : edge := match aget edge_eqb em k with Some x => x | None => k end.

Lemma child_tasks_ok : forall p em cs, (forall kc, In kc cs -> In (fst kc) (map fst em)) ->
  child_tasks p em cs = Some (map (fun kc => mkTask (p ++ [e_id (fst kc)]) (ecopy em (fst kc)) (snd kc)) cs).
Proof.
  induction cs as [|[k c] cs]; simpl; intros; auto.
  destruct (aget_In_key edge_eqb edge_eqb_eq em k (H (k, c) (or_introl eq_refl))) as [x Hx].
  unfold ecopy at 1. rewrite Hx. rewrite IHcs; auto.
Qed.

(** * the denotation of a run state *)
Definition ren_edge (nn : list (node * name)) (en : edge * name) : dedge :=
  (snd en, e_label (fst en), map (nname nn) (e_att (fst en))).
Definition is_pending (pend : list task) (e : edge) : bool :=
  existsb (fun tk => id_eqb (e_id (tk_edge tk)) (e_id e)) pend.
Definition np (pend : list task) (en : edge * name) : bool := negb (is_pending pend (fst en)).
Definition task_nodes (tk : task) : list dnode := dsub_nodes (tk_path tk) (tk_tree tk).
Definition task_edges (nn : list (node * name)) (tk : task) : list dedge :=
  dsub_edges (tk_path tk) (map (nname nn) (e_att (tk_edge tk))) (tk_tree tk).
Definition dn_of (gx : node * name) : dnode := (snd gx, n_label (fst gx)).
Definition den_nodes (s : rstate) : list dnode :=
  map dn_of (rs_nnames s) ++ flat_map task_nodes (rs_pending s).
Definition den_edges (s : rstate) : list dedge :=
  map (ren_edge (rs_nnames s)) (filter (np (rs_pending s)) (rs_enames s))
  ++ flat_map (task_edges (rs_nnames s)) (rs_pending s).

Record Inv (L : list elabel) (s : rstate) : Prop := {
  I_wf : wf_graph (rs_graph s);
  I_below : below (rs_next s) (rs_graph s);
  I_lab : labels_ok L (rs_graph s);
  I_nn : map fst (rs_nnames s) = g_nodes (rs_graph s);
  I_en : map fst (rs_enames s) = g_edges (rs_graph s);
  I_pend : forall tk, In tk (rs_pending s) ->
     In (tk_edge tk) (g_edges (rs_graph s)) /\ wf_dtreeb L (tk_tree tk) = true /\
     e_label (tk_edge tk) = r_lhs (t_rule (tk_tree tk));
  I_pid : NoDup (map (fun tk => e_id (tk_edge tk)) (rs_pending s)) }.

Lemma is_pending_app : forall l1 l2 e, is_pending (l1 ++ l2) e = is_pending l1 e || is_pending l2 e.
Proof. intros; unfold is_pending. apply existsb_app. Qed.

Lemma is_pending_false : forall pend e, (forall tk, In tk pend -> e_id (tk_edge tk) <> e_id e) -> is_pending pend e = false.
Proof.
  intros. unfold is_pending. destruct (existsb _ pend) eqn:E; auto.
  apply existsb_exists in E. destruct E as [tk [Hin Hid]]. apply id_eqb_eq in Hid. exfalso; eapply H; eauto.
Qed.

Lemma combine_inj_l : forall {A B C} (f : B -> C) (l1 : list A) (l2 : list B) a1 a2 b1 b2,
  NoDup (map f l2) -> In (a1, b1) (combine l1 l2) -> In (a2, b2) (combine l1 l2) -> f b1 = f b2 -> a1 = a2.
Proof.
  induction l1; destruct l2; simpl; intros; try tauto.
  inversion H; subst. destruct H0 as [H0|H0], H1 as [H1|H1].
  - congruence.
  - inversion H0; subst. exfalso. apply H5. rewrite H2. apply in_map. eapply in_combine_r; eauto.
  - inversion H1; subst. exfalso. apply H5. rewrite <- H2. apply in_map. eapply in_combine_r; eauto.
  - eapply IHl1; eauto.
Qed.
