(** C09 -- the matrix star over a commutative ordered star-semiring.
    Matrices are functions [nat -> nat -> S] of which only the entries below [N] matter
    ([meq] = equality on that range, an equivalence respected by sum and product: generalized
    rewriting is used).  [star_mat o N a] (Proofs/SolveMatInst.v) has column j = the Gauss-Jordan
    loop [gjf] run on the j-th unit vector.  Below, "star a" is [star_mat o N a], "tr" the transpose.
    - [lsolve_star]:   the loop is multiplication by the star:  gjf a r = star a . r
    - [star_sol], [star_ind_l]:  star a = a . star a + 1,  a x + b <= x -> star a . b <= x
                       (from the elimination theorems of C09, column by column)
    - [star_sol_r]:    star a = star a . a + 1     (derived from the two above only)
    - [star_ct]:       star (tr a) = tr (star a)   (transposition is an anti-automorphism because
                       the scalars commute)
    - [rsolve_star]:   the TRANSPOSED solve used by multi_solve: gjf (tr a) (row r) = r . star a
    and, on the list model ([solve_model_mat]):
    - [rsolve_model_least]:  tr (solve (tr A) (tr B)) is the least solution of X = X A + B
    - [rsolve_model_star], [mul_star_least]:  it equals B . star A  (star A = solve A 1), which
      is therefore the least solution of X = X A + B. *)
From Coq Require Import List Arith Lia Bool PeanoNat Ring Setoid Morphisms.
Import ListNotations.
Require Import Fggs.Model.Semiring Fggs.Model.Solve.
Require Import Fggs.Proofs.SolveElim Fggs.Proofs.SolveRefine Fggs.Proofs.SolveBlock Fggs.Proofs.SolveMatInst.

Section Star.
Context {S : Type} (o : sr_ops S).
Hypothesis Hring : sr_ring o.
Hypothesis Hord : sr_ordered o.
Hypothesis Hstar : sr_star o.
Let SRth : semi_ring_theory (zero o) (one o) (add o) (mul o) (@eq S) := Hring.
Add Ring Sring4 : SRth.
Notation "a ⊕ b" := (add o a b) (at level 50, left associativity).
Notation "a ⊗ b" := (mul o a b) (at level 40, left associativity).

Variable N : nat.
Let idx := seq 0 N.
Notation coef := (nat -> nat -> S).
Notation "a ∙ b" := (cmul o N a b) (at level 40, left associativity).
Notation "a ⊞ b" := (cadd o a b) (at level 50, left associativity).

Definition meq (a b : coef) : Prop := forall i j, i < N -> j < N -> a i j = b i j.
Definition mle (a b : coef) : Prop := forall i j, i < N -> j < N -> le o (a i j) (b i j).
Definition cid : coef := fun i j => unit_vec o j i.
Definition ct (a : coef) : coef := fun i j => a j i.
Infix "≡" := meq (at level 70).
Infix "⊑" := mle (at level 70).

Lemma in_idx' k : In k idx -> k < N.
Proof. unfold idx. rewrite in_seq. lia. Qed.

#[local] Instance meq_equiv : Equivalence meq.
Proof.
  split.
  - intros a i j _ _. reflexivity.
  - intros a b H i j Hi Hj. symmetry. apply H; assumption.
  - intros a b c H1 H2 i j Hi Hj. rewrite H1, H2 by assumption. reflexivity.
Qed.
#[local] Instance cadd_proper : Proper (meq ==> meq ==> meq) (cadd o).
Proof. intros a a' Ha b b' Hb i j Hi Hj. unfold cadd. rewrite Ha, Hb by assumption. reflexivity. Qed.
#[local] Instance cmul_proper : Proper (meq ==> meq ==> meq) (cmul o N).
Proof.
  intros a a' Ha b b' Hb i j Hi Hj. unfold cmul. apply sumS_ext. intros k Hk.
  apply in_idx' in Hk. rewrite Ha, Hb by assumption. reflexivity.
Qed.
#[local] Instance ct_proper : Proper (meq ==> meq) ct.
Proof. intros a a' Ha i j Hi Hj. unfold ct. apply Ha; assumption. Qed.
#[local] Instance mle_preorder : PreOrder mle.
Proof.
  split.
  - intros a i j _ _. apply (le_refl o Hord).
  - intros a b c H1 H2 i j Hi Hj. eapply (le_trans o Hord); [apply H1|apply H2]; assumption.
Qed.
#[local] Instance mle_proper : Proper (meq ==> meq ==> iff) mle.
Proof.
  intros a a' Ha b b' Hb. split; intros H i j Hi Hj.
  - rewrite <- Ha, <- Hb by assumption. apply H; assumption.
  - rewrite Ha, Hb by assumption. apply H; assumption.
Qed.

Lemma meq_mle a b : a ≡ b -> a ⊑ b.
Proof. intros H i j Hi Hj. rewrite H by assumption. apply (le_refl o Hord). Qed.
Lemma mle_antisym a b : a ⊑ b -> b ⊑ a -> a ≡ b.
Proof. intros H1 H2 i j Hi Hj. apply (le_antisym o Hord); [apply H1|apply H2]; assumption. Qed.

(** * the semiring of matrices *)
Lemma cadd_comm a b : a ⊞ b ≡ b ⊞ a.
Proof. intros i j _ _. unfold cadd. ring. Qed.
Lemma cadd_assoc a b c : a ⊞ (b ⊞ c) ≡ a ⊞ b ⊞ c.
Proof. intros i j _ _. unfold cadd. ring. Qed.
Lemma cmul_assoc a b c : a ∙ b ∙ c ≡ a ∙ (b ∙ c).
Proof.
  intros i j _ _. unfold cmul. fold idx.
  rewrite (sumS_ext o nat idx (fun k => sumS o nat idx (fun l => a i l ⊗ b l k) ⊗ c k j)
             (fun k => sumS o nat idx (fun l => a i l ⊗ (b l k ⊗ c k j)))).
  2:{ intros k _. rewrite <- (sumS_mul_r o Hring). apply sumS_ext. intros; ring. }
  rewrite (sumS_swap o Hring).
  apply sumS_ext. intros l _. rewrite (sumS_mul_l o Hring). reflexivity.
Qed.
Lemma cmul_cadd_l a b c : a ∙ (b ⊞ c) ≡ a ∙ b ⊞ a ∙ c.
Proof.
  intros i j _ _. unfold cadd, cmul. rewrite <- (sumS_add o Hring). apply sumS_ext. intros; ring.
Qed.
Lemma cmul_cadd_r a b c : (a ⊞ b) ∙ c ≡ a ∙ c ⊞ b ∙ c.
Proof.
  intros i j _ _. unfold cadd, cmul. rewrite <- (sumS_add o Hring). apply sumS_ext. intros; ring.
Qed.
Lemma cmul_id_l a : cid ∙ a ≡ a.
Proof. intros i j Hi _. unfold cmul, cid. exact (sum_unit o Hring N (fun k => a k j) i Hi). Qed.
Lemma cmul_id_r a : a ∙ cid ≡ a.
Proof.
  intros i j _ Hj. unfold cmul, cid.
  rewrite (sumS_ext o nat (seq 0 N) (fun k => a i k ⊗ unit_vec o j k) (fun k => unit_vec o k j ⊗ a i k)).
  - exact (sum_unit o Hring N (fun k => a i k) j Hj).
  - intros k _. unfold unit_vec. rewrite (Nat.eqb_sym k j). ring.
Qed.

Lemma ct_cmul a b : ct (a ∙ b) ≡ ct b ∙ ct a.
Proof. intros i j _ _. unfold ct, cmul. apply sumS_ext. intros; ring. Qed.
Lemma ct_cadd a b : ct (a ⊞ b) ≡ ct a ⊞ ct b.
Proof. intros i j _ _. reflexivity. Qed.
Lemma ct_cid : ct cid ≡ cid.
Proof. intros i j _ _. unfold ct, cid, unit_vec. rewrite Nat.eqb_sym. reflexivity. Qed.
Lemma ct_mle a b : a ⊑ b -> ct a ⊑ ct b.
Proof. intros H i j Hi Hj. unfold ct. apply H; assumption. Qed.

Lemma mul_mono2 a a' b b' : le o a a' -> le o b b' -> le o (a ⊗ b) (a' ⊗ b').
Proof.
  intros Ha Hb. apply (le_trans o Hord) with (a ⊗ b'); [apply (mul_mono o Hord); exact Hb|].
  replace (a ⊗ b') with (b' ⊗ a) by ring. replace (a' ⊗ b') with (b' ⊗ a') by ring.
  apply (mul_mono o Hord). exact Ha.
Qed.
Lemma cadd_mle a a' b b' : a ⊑ a' -> b ⊑ b' -> a ⊞ b ⊑ a' ⊞ b'.
Proof. intros Ha Hb i j Hi Hj. unfold cadd. apply (add_mono o Hord); [apply Ha|apply Hb]; assumption. Qed.
Lemma cmul_mle a a' b b' : a ⊑ a' -> b ⊑ b' -> a ∙ b ⊑ a' ∙ b'.
Proof.
  intros Ha Hb i j Hi Hj. unfold cmul. apply (sumS_mono o nat Hord). intros k Hk.
  apply in_idx' in Hk. apply mul_mono2; [apply Ha|apply Hb]; assumption.
Qed.

(** * the Gauss-Jordan loop as a matrix operation *)
(** the least solution of X = a X + b, column by column ([b]'s column index is free) *)
Definition lsolve (a b : coef) : coef := fun i j => gjf o nat idx a (fun i' => b i' j) i.

Lemma star_mat_lsolve a : forall i j, star_mat o N a i j = lsolve a cid i j.
Proof. reflexivity. Qed.

(** the loop is multiplication by the star, for every right-hand side *)
Lemma lsolve_star_free a (r : nat -> S) i : i < N ->
  gjf o nat idx a r i = sumS o nat idx (fun k => star_mat o N a i k ⊗ r k).
Proof.
  intros Hi. unfold star_mat. fold idx.
  transitivity (gjf o nat idx a (fun i' => sumS o nat idx (fun j => unit_vec o j i' ⊗ r j)) i).
  - apply (gjf_ext o nat (fun i => i < N)); [intros k Hk; apply in_idx'; exact Hk|reflexivity| |exact Hi].
    intros i' Hi'. symmetry. apply (sum_unit o Hring N). exact Hi'.
  - exact (gjf_linear o Hring idx r idx a (fun i j => unit_vec o j i) i).
Qed.

Lemma lsolve_star a b : lsolve a b ≡ star_mat o N a ∙ b.
Proof. intros i j Hi _. unfold lsolve, cmul. apply lsolve_star_free. exact Hi. Qed.

Lemma lsolve_sol a b : lsolve a b ≡ a ∙ lsolve a b ⊞ b.
Proof.
  intros i j Hi _. unfold lsolve, cadd, cmul.
  exact (gjf_idx_sol o Hring Hstar N a (fun i' => b i' j) i Hi).
Qed.

Lemma lsolve_least a b x : a ∙ x ⊞ b ⊑ x -> lsolve a b ⊑ x.
Proof.
  intros H i j Hi Hj. unfold lsolve.
  assert (Ii : In i idx) by (apply in_seq; lia).
  rewrite (gjf_elim o Hring nat Nat.eq_dec (star_unfold o Hstar) idx (seq_NoDup N 0) a _ i Ii).
  apply (elim_least o Hring nat Nat.eq_dec Hord (star_ind o Hstar) idx (seq_NoDup N 0) a
           (fun i' => b i' j) (fun i' => x i' j)); [|exact Ii].
  intros k Hk. apply in_idx' in Hk. exact (H k j Hk Hj).
Qed.

(** * the star *)
Lemma star_sol a : star_mat o N a ≡ a ∙ star_mat o N a ⊞ cid.
Proof. exact (lsolve_sol a cid). Qed.

Lemma star_ind_l a b x : a ∙ x ⊞ b ⊑ x -> star_mat o N a ∙ b ⊑ x.
Proof. intros H. rewrite <- lsolve_star. apply lsolve_least. exact H. Qed.

(** star a . a <= a . star a *)
Lemma star_comm_le a : star_mat o N a ∙ a ⊑ a ∙ star_mat o N a.
Proof.
  apply star_ind_l. apply meq_mle.
  set (Z := star_mat o N a). assert (HZ : Z ≡ a ∙ Z ⊞ cid) by apply star_sol.
  rewrite HZ at 2. rewrite cmul_cadd_l, cmul_id_r. reflexivity.
Qed.

(** star a = star a . a + 1 *)
Theorem star_sol_r a : star_mat o N a ≡ star_mat o N a ∙ a ⊞ cid.
Proof.
  set (Z := star_mat o N a). assert (HZ : Z ≡ a ∙ Z ⊞ cid) by apply star_sol.
  apply mle_antisym.
  - rewrite <- (cmul_id_r Z) at 1. apply star_ind_l. fold Z. apply meq_mle.
    rewrite HZ at 2. rewrite cmul_cadd_l, cmul_cadd_r, cmul_id_r, cmul_id_l, cmul_assoc.
    intros i j _ _. unfold cadd. ring.
  - rewrite HZ at 2. apply cadd_mle; [apply star_comm_le|reflexivity].
Qed.

(** star (tr a) = tr (star a) *)
Lemma ct_star_le a : star_mat o N a ⊑ ct (star_mat o N (ct a)).
Proof.
  set (W := star_mat o N (ct a)).
  rewrite <- (cmul_id_r (star_mat o N a)). apply star_ind_l. apply meq_mle.
  assert (HW : W ≡ W ∙ ct a ⊞ cid) by apply star_sol_r.
  rewrite HW at 2. rewrite ct_cadd, ct_cmul, ct_cid. reflexivity.
Qed.

Theorem star_ct a : star_mat o N (ct a) ≡ ct (star_mat o N a).
Proof.
  apply mle_antisym.
  - exact (ct_star_le (ct a)).
  - intros i j Hi Hj. exact (ct_star_le a j i Hj Hi).
Qed.

(** the transposed solve of multi_solve: the Gauss-Jordan loop on a^T with a ROW [r] of the
    right-hand side as its vector computes r . star a *)
Theorem rsolve_star a (r : nat -> S) q : q < N ->
  gjf o nat idx (ct a) r q = sumS o nat idx (fun l => r l ⊗ star_mat o N a l q).
Proof.
  intros Hq. rewrite lsolve_star_free by exact Hq. apply sumS_ext. intros l Hl.
  apply in_idx' in Hl. rewrite (star_ct a q l Hq Hl). unfold ct. ring.
Qed.

(** the least solution of the row system x = x a + r *)
Theorem rsolve_sol a (r : nat -> S) q : q < N ->
  gjf o nat idx (ct a) r q = sumS o nat idx (fun k => gjf o nat idx (ct a) r k ⊗ a k q) ⊕ r q.
Proof.
  intros Hq. etransitivity; [exact (gjf_idx_sol o Hring Hstar N (ct a) r q Hq)|]. f_equal.
  apply sumS_ext. intros k _. unfold ct, idx. ring.
Qed.

Theorem rsolve_least a (r y : nat -> S) :
  (forall q, q < N -> le o (sumS o nat idx (fun k => y k ⊗ a k q) ⊕ r q) (y q)) ->
  forall q, q < N -> le o (gjf o nat idx (ct a) r q) (y q).
Proof.
  intros H q Hq.
  assert (Iq : In q idx) by (apply in_seq; lia).
  rewrite (gjf_elim o Hring nat Nat.eq_dec (star_unfold o Hstar) idx (seq_NoDup N 0) (ct a) r q Iq).
  apply (elim_least o Hring nat Nat.eq_dec Hord (star_ind o Hstar) idx (seq_NoDup N 0) (ct a) r y); [|exact Iq].
  intros k Hk. apply in_idx' in Hk. specialize (H k Hk).
  rewrite (sumS_ext o nat idx (fun j => ct a k j ⊗ y j) (fun j => y j ⊗ a j k)) by (intros; unfold ct; ring).
  exact H.
Qed.

End Star.

(** * the list model: X = X A + B *)
Section ListLevel.
Context {S : Type} (o : sr_ops S).
Hypothesis Hring : sr_ring o.
Hypothesis Hord : sr_ordered o.
Hypothesis Hstar : sr_star o.
Notation "a ⊕ b" := (add o a b) (at level 50, left associativity).
Notation "a ⊗ b" := (mul o a b) (at level 40, left associativity).

(** [A] is n x n, [B] and [X] are m x n *)
Definition rsol_spec (n m : nat) (A B : mat S) (X : nat -> nat -> S) : Prop :=
  forall p q, p < m -> q < n -> X p q = sum_n o n (fun k => X p k ⊗ get2 o A k q) ⊕ get2 o B p q.
Definition rpresol_spec (n m : nat) (A B : mat S) (Y : nat -> nat -> S) : Prop :=
  forall p q, p < m -> q < n -> le o (sum_n o n (fun k => Y p k ⊗ get2 o A k q) ⊕ get2 o B p q) (Y p q).
Definition rleast_spec (n m : nat) (A B : mat S) (X : nat -> nat -> S) : Prop :=
  rsol_spec n m A B X /\
  forall Y, rpresol_spec n m A B Y -> forall p q, p < m -> q < n -> le o (X p q) (Y p q).

(** what multi_solve computes: [a[z,z].T.solve(a[x,z].T).T] *)
Definition rsolve_model (n m : nat) (A B : mat S) : mat S :=
  transpose_model o n m (solve_model_mat o n m (transpose_model o n n A) (transpose_model o m n B)).
Definition ident_model (n : nat) : mat S :=
  tab2 n n (fun i j => if Nat.eqb i j then one o else zero o).
(** the matrix star as the code would compute it: solve with the identity as right-hand side *)
Definition star_model (n : nat) (A : mat S) : mat S := solve_model_mat o n n A (ident_model n).

Lemma rsolve_model_gjf n m A B p q : p < m -> q < n ->
  get2 o (rsolve_model n m A B) p q
  = gjf o nat (seq 0 n) (ct (get2 o A)) (fun k => get2 o B p k) q.
Proof.
  intros Hp Hq. unfold rsolve_model, transpose_model at 1.
  rewrite get2_tab2 by assumption. rewrite solve_model_mat_gjf by assumption.
  apply (gjf_ext o nat (fun i => i < n)); [intros k Hk; apply in_seq in Hk; lia| | |exact Hq].
  - intros i j Hi Hj. apply in_seq in Hj. unfold transpose_model, ct. rewrite get2_tab2 by lia. reflexivity.
  - intros i Hi. unfold transpose_model. rewrite get2_tab2 by lia. reflexivity.
Qed.

Lemma star_model_get n A i j : i < n -> j < n ->
  get2 o (star_model n A) i j = star_mat o n (get2 o A) i j.
Proof.
  intros Hi Hj. unfold star_model. rewrite solve_model_mat_gjf by assumption.
  unfold star_mat.
  apply (gjf_ext o nat (fun i => i < n)); [intros k Hk; apply in_seq in Hk; lia|reflexivity| |exact Hi].
  intros i' Hi'. unfold ident_model, unit_vec. rewrite get2_tab2 by assumption. reflexivity.
Qed.

(** (solve (A^T) (B^T))^T is the least solution of X = X A + B *)
Theorem rsolve_model_least n m A B : rleast_spec n m A B (get2 o (rsolve_model n m A B)).
Proof.
  split.
  - intros p q Hp Hq. rewrite rsolve_model_gjf by assumption.
    rewrite (rsolve_sol o Hring Hstar n (get2 o A) _ q Hq) at 1. f_equal.
    rewrite sum_n_sumS. apply sumS_ext. intros k Hk. apply in_seq in Hk.
    rewrite rsolve_model_gjf by lia. reflexivity.
  - intros Y HY p q Hp Hq. rewrite rsolve_model_gjf by assumption.
    apply (rsolve_least o Hring Hord Hstar n (get2 o A) (fun k => get2 o B p k) (Y p)); [|exact Hq].
    intros q' Hq'. exact (HY p q' Hp Hq').
Qed.

(** ... and equals B . star A *)
Theorem rsolve_model_star n m A B p q : p < m -> q < n ->
  get2 o (rsolve_model n m A B) p q = get2 o (mm_model o m n n B (star_model n A)) p q.
Proof.
  intros Hp Hq. rewrite rsolve_model_gjf by assumption.
  rewrite (rsolve_star o Hring Hord Hstar n (get2 o A) _ q Hq).
  unfold mm_model. rewrite get2_tab2 by assumption. rewrite sum_n_sumS.
  apply sumS_ext. intros l Hl. apply in_seq in Hl. rewrite star_model_get by lia. reflexivity.
Qed.

Lemma rleast_spec_ext n m A B X X' :
  (forall p q, p < m -> q < n -> X p q = X' p q) -> rleast_spec n m A B X -> rleast_spec n m A B X'.
Proof.
  intros E [Hs Hl]. split.
  - intros p q Hp Hq. rewrite <- E by assumption. rewrite (Hs p q Hp Hq). f_equal.
    rewrite !sum_n_sumS. apply sumS_ext. intros k Hk. apply in_seq in Hk. rewrite E by lia. reflexivity.
  - intros Y HY p q Hp Hq. rewrite <- E by assumption. apply Hl; assumption.
Qed.

(** right multiplication by the star: B . star A is the least solution of X = X A + B *)
Theorem mul_star_least n m A B :
  rleast_spec n m A B (get2 o (mm_model o m n n B (star_model n A))).
Proof.
  apply rleast_spec_ext with (get2 o (rsolve_model n m A B)).
  - intros p q Hp Hq. apply rsolve_model_star; assumption.
  - apply rsolve_model_least.
Qed.

(** the transposition lemma in the form "solve (A^T) (B^T) = (least X with X = X A + B)^T":
    entry (q, p) of the dense solver's answer on the transposed system *)
Theorem solve_transposed n m A B p q : p < m -> q < n ->
  get2 o (solve_model_mat o n m (transpose_model o n n A) (transpose_model o m n B)) q p
  = get2 o (mm_model o m n n B (star_model n A)) p q.
Proof.
  intros Hp Hq. rewrite <- rsolve_model_star by assumption. symmetry.
  unfold rsolve_model. unfold transpose_model at 1. rewrite get2_tab2 by assumption. reflexivity.
Qed.

(** star (tr A) = tr (star A) on the list model *)
Theorem star_model_transpose n A i j : i < n -> j < n ->
  get2 o (star_model n (transpose_model o n n A)) i j = get2 o (star_model n A) j i.
Proof.
  intros Hi Hj. rewrite !star_model_get by assumption.
  transitivity (star_mat o n (ct (get2 o A)) i j).
  - unfold star_mat.
    apply (gjf_ext o nat (fun i => i < n)); [intros k Hk; apply in_seq in Hk; lia| |reflexivity|exact Hi].
    intros i' j' Hi' Hj'. apply in_seq in Hj'. unfold transpose_model, ct. rewrite get2_tab2 by lia. reflexivity.
  - exact (star_ct o Hring Hord Hstar n (get2 o A) i j Hi Hj).
Qed.

End ListLevel.
