(** C03: the instances for the carrier [0, inf] of RealSemiring / LogSemiring (read through exp):
    the law premises of the generic theorems are discharged with Proofs/SemiringLaws.v. *)
From Coq Require Import QArith Qcanon Lqa List Arith Bool PeanoNat.
Import ListNotations.
Require Import Fggs.Model.Semiring Fggs.Model.SCC Fggs.Model.SumProduct Fggs.Model.SumProductCheck
               Fggs.Model.EReal Fggs.Model.Kleene Fggs.Model.Dual.
Require Import Fggs.Proofs.SemiringLaws Fggs.Proofs.BigSum Fggs.Proofs.SP_trees Fggs.Proofs.SP_driver Fggs.Proofs.SP_main
               Fggs.Proofs.Dual_ring Fggs.Proofs.Dual_leibniz Fggs.Proofs.Dual_trees Fggs.Proofs.Dual_J
               Fggs.Proofs.Dual_vjp Fggs.Proofs.Dual_back Fggs.Proofs.Dual_nonrec Fggs.Proofs.Dual_encl
               Fggs.Proofs.Dual_check Fggs.Proofs.Dual_log Fggs.Proofs.Dual_logblock.

(** * the dual carrier over [0, inf] *)
Theorem dops_ring : sr_ring dops.
Proof. exact (dual_ring ereal_ops ereal_ring). Qed.
Theorem dops_ordered : sr_ordered dops.
Proof. exact (dual_ordered ereal_ops ereal_ordered). Qed.
Theorem dops_star : sr_star dops.
Proof. exact (dual_star ereal_ops ereal_ring ereal_ordered ereal_star). Qed.

(** * division on [0, inf] *)
(** [ok]: finite and non-zero *)
Definition efin_nz (x : ereal) : Prop := exists b, x = Fin b /\ is0 b = false.

Lemma ediv_exact a x : efin_nz x -> exists c, ediv a x = Some c /\ emul c x = a.
Proof.
  intros (b & -> & Hb). destruct a as [a|]; cbn [ediv].
  - rewrite Hb. eexists. split; [reflexivity|]. cbn [emul]. apply Fin_eq. cbn [qv nnmul].
    pose proof (is0_false_pos b Hb) as Hpos.
    assert (Hbq : (0 < this (qv b))%Q) by exact Hpos.
    assert (Hq : (0 <= this (qv a) / this (qv b))%Q).
    { apply Qle_shift_div_l; trivial. rewrite Qmult_0_l. apply qnn_nonneg. }
    apply Qc_eq_iff. rewrite this_mult, (qv_nn_of_Q _ Hq). field. lra.
  - exists PInf. split; [reflexivity|]. cbn [emul]. now rewrite Hb.
Qed.

Lemma ereal_zero_sum_free a b : eadd a b = Fin nn0 -> a = Fin nn0 /\ b = Fin nn0.
Proof.
  destruct a as [a|], b as [b|]; cbn [eadd]; try discriminate. intros H.
  apply (f_equal (fun x => match x with Fin q => is0 q | PInf => false end)) in H. cbv beta iota in H.
  assert (Hz : is0 (nnadd a b) = true) by (rewrite H; reflexivity).
  rewrite is0_nnadd in Hz. apply andb_true_iff in Hz. destruct Hz as [Ha Hb].
  apply is0_true_eq in Ha, Hb. now subst.
Qed.

Lemma ediv_0_0 : ediv (Fin nn0) (Fin nn0) = None.
Proof. reflexivity. Qed.

(** every finite value is zero or invertible *)
Lemma efinite_cases x : x <> PInf -> x = Fin nn0 \/ efin_nz x.
Proof.
  destruct x as [a|]; [|congruence]. intros _. destruct (is0 a) eqn:E.
  - left. f_equal. now apply is0_true_eq.
  - right. now exists a.
Qed.

(** * C03_log for the code as it is now: on finite values J_log = diag(1/F) J diag(x) *)
Theorem J_log_block_ereal G (E : env (R:=ereal)) comp wi n l xi yi :
  wf_grammar G = true ->
  NoDup comp -> In n comp -> In xi (all_assts (lshape G n)) -> In yi (all_assts (lshape G l)) ->
  (forall r, In r (rules_of G n) -> rule_val ereal_ops G E r xi <> PInf) ->
  sumS ereal_ops (rules_of G n) (fun r => rule_val ereal_ops G E r xi) <> PInf ->
  emul (J_val ereal_ops (J_log_contribs ereal_ops ediv G comp (fun l => Some (E l)) wi) n l (xi ++ yi))
       (sumS ereal_ops (rules_of G n) (fun r => rule_val ereal_ops G E r xi))
  = emul (J_val ereal_ops (J_contribs ereal_ops G comp (fun l => Some (E l)) wi) n l (xi ++ yi)) (E l yi).
Proof.
  intros Hwf Hnd Hn Hxi Hyi Hfin Hfint.
  apply (J_log_block ereal_ops ereal_ring G Hwf E ediv efin_nz ediv_exact ereal_zero_sum_free ediv_0_0 comp wi n l xi yi Hnd Hn Hxi Hyi).
  - intros r Hrin. apply efinite_cases. now apply Hfin.
  - now apply efinite_cases.
Qed.

(** * the oracle of the check, premises discharged *)
Definition entry_interval_sound_ereal := entry_interval_sound ereal_ring ereal_ordered.
Definition start_bounds_sound_ereal := start_bounds_sound ereal_ring ereal_ordered.

(** * the grammar with a dead rule: S -> t(n) | t(n) X, X without rules, t = [1/4, 1/4] *)
(** the code as it is now gives the true entry 1/2 (the old code gave nan -> 0, see
    [log_dead_rule_refuted] about [J_log_old_val]) *)
Example log_dead_rule_now :
  eeqb (J_val ereal_ops (J_log_contribs ereal_ops ediv G_dead [0%nat] E_dead true) 0%nat 2%nat [1%nat]) half = true.
Proof. vm_compute. reflexivity. Qed.
