(** Skipping the matrix right-hand-side pass of Semiring.solve_thunks on an all-zero pivot row is
    sound in every semiring; skipping on a row with SOME zero entry coincides with it for one
    column and is refuted for two (Bool, 2 x 2). *)
From Coq Require Import List Arith Lia Bool PeanoNat Ring_theory.
Import ListNotations.
Require Import Fggs.Model.Semiring Fggs.Model.Solve Fggs.Model.SolveSkip Fggs.Proofs.SolveRefine.

Section SkipProofs.
Context {S : Type} (o : sr_ops S) (eqb : S -> S -> bool).
Hypothesis ring : sr_ring o.
Hypothesis eqb_sound : forall x y, eqb x y = true -> x = y.

Lemma tab2_ext n m (f g : nat -> nat -> S) :
  (forall i c, i < n -> c < m -> f i c = g i c) -> tab2 n m f = tab2 n m g.
Proof.
  intros H. unfold tab2. apply map_ext_in. intros i Hi. apply in_seq in Hi.
  apply map_ext_in. intros c Hc. apply in_seq in Hc. apply H; lia.
Qed.

Lemma shaped_tab2 n m f : shaped o n m (tab2 n m f).
Proof.
  unfold shaped. apply tab2_ext. intros i c Hi Hc. symmetry. apply get2_tab2; assumption.
Qed.

Lemma shaped_gj_xmat n m k A X : shaped o n m (gj_xmat o n m k A X).
Proof. unfold gj_xmat. apply shaped_tab2. Qed.

Lemma row_all_zero_spec m k X :
  row_all_zero o eqb m k X = true -> forall c, c < m -> get2 o X k c = zero o.
Proof.
  unfold row_all_zero. rewrite forallb_forall. intros H c Hc.
  apply eqb_sound. apply H. apply in_seq. lia.
Qed.

(** the pass changes nothing when the pivot row is zero *)
Lemma gj_xmat_zero_row n m k A X :
  shaped o n m X -> (forall c, c < m -> get2 o X k c = zero o) -> gj_xmat o n m k A X = X.
Proof.
  intros Hs Hz. rewrite Hs at 2. unfold gj_xmat. apply tab2_ext. intros i c Hi Hc.
  rewrite (Hz c Hc).
  rewrite (SRmul_comm ring), (SRmul_0_l ring), (SRadd_comm ring), (SRadd_0_l ring). reflexivity.
Qed.

Lemma fold_skip_all_zero n m ks A X :
  shaped o n m X ->
  fold_left (gj_step_mat_skip o (row_all_zero o eqb) n m) ks (A, X)
  = fold_left (gj_step_mat o n m) ks (A, X).
Proof.
  revert A X. induction ks as [|k ks IH]; intros A X Hs; [reflexivity|].
  cbn [fold_left]. unfold gj_step_mat_skip at 2, gj_step_mat at 2. cbn [fst snd].
  destruct (row_all_zero o eqb m k X) eqn:Hz.
  - rewrite (gj_xmat_zero_row n m k _ X Hs (row_all_zero_spec m k X Hz)). apply IH. exact Hs.
  - apply IH. apply shaped_gj_xmat.
Qed.

(** [if torch.all(x[k] == zero): continue] is a sound optimisation of the matrix pass *)
Theorem solve_skip_all_zero_sound n m A B :
  shaped o n m B ->
  solve_model_mat_skip o (row_all_zero o eqb) n m A B = solve_model_mat o n m A B.
Proof.
  intros Hs. unfold solve_model_mat_skip, solve_model_mat. rewrite fold_skip_all_zero by exact Hs.
  reflexivity.
Qed.

(** for a single column, "some entry zero" and "all entries zero" are the same test: on vector
    right-hand sides and (n,1) matrices the [any] shortcut cannot be told from the [all] one *)
Lemma row_some_zero_single_column k X : row_some_zero o eqb 1 k X = row_all_zero o eqb 1 k X.
Proof.
  unfold row_some_zero, row_all_zero. cbn [seq existsb forallb].
  rewrite orb_false_r, andb_true_r. reflexivity.
Qed.

Lemma fold_left_ext_eq {A B} (f g : A -> B -> A) l a :
  (forall x y, f x y = g x y) -> fold_left f l a = fold_left g l a.
Proof.
  intros H. revert a. induction l as [|y l IH]; intros a; [reflexivity|].
  cbn [fold_left]. rewrite H. apply IH.
Qed.

Theorem solve_skip_some_zero_single_column n A B :
  shaped o n 1 B ->
  solve_model_mat_skip o (row_some_zero o eqb) n 1 A B = solve_model_mat o n 1 A B.
Proof.
  intros Hs. rewrite <- (solve_skip_all_zero_sound n 1 A B Hs).
  unfold solve_model_mat_skip. apply (f_equal snd). apply fold_left_ext_eq.
  intros st k. unfold gj_step_mat_skip. rewrite row_some_zero_single_column. reflexivity.
Qed.
End SkipProofs.

(** ... and from two columns on it is wrong: Bool, x = A x + B with x0 = x1, B = [[0,0],[1,0]] *)
Definition skip_cex_A : mat bool := [[false; true]; [false; false]].
Definition skip_cex_B : mat bool := [[false; false]; [true; false]].

Theorem solve_skip_some_zero_refuted :
  shaped bool_ops 2 2 skip_cex_B /\
  solve_model_mat bool_ops 2 2 skip_cex_A skip_cex_B = [[true; false]; [true; false]] /\
  solve_model_mat_skip bool_ops (row_some_zero bool_ops Bool.eqb) 2 2 skip_cex_A skip_cex_B
  = [[false; false]; [true; false]].
Proof. repeat split; vm_compute; reflexivity. Qed.

(** non-vacuity of [shaped] + the sound shortcut on the same input *)
Example solve_skip_all_zero_example :
  solve_model_mat_skip bool_ops (row_all_zero bool_ops Bool.eqb) 2 2 skip_cex_A skip_cex_B
  = [[true; false]; [true; false]].
Proof. vm_compute. reflexivity. Qed.
