(** C03 (and C02): soundness of the enclosure [encl2] in any ordered commutative semiring -- in
    particular at the dual carrier with the componentwise order.

    [step] is monotone; the Kleene iterates form a chain; iterates rounded DOWN stay below the
    exact iterates; if m >= 1 steps rounded UP starting from u end below u then every Kleene
    iterate is below u (Park's principle for the m-fold map), and below every further up-rounded
    iterate of u.  Hence [encl2 = Some (lo, v)] gives lo <= Z_k <= v for all large k, cell by
    cell: the limit of the bounded-depth derivation sums (the least fixed point) is enclosed. *)
From Coq Require Import List Arith Bool PeanoNat Lia Ring Ring_theory.
Import ListNotations.
Require Import Fggs.Model.Semiring Fggs.Model.SCC Fggs.Model.SumProduct Fggs.Model.SumProductCheck
               Fggs.Model.Kleene Fggs.Model.Dual.
Require Import Fggs.Proofs.SCC_ntgraph Fggs.Proofs.BigSum Fggs.Proofs.SP_trees Fggs.Proofs.SP_nonrec
               Fggs.Proofs.SP_code Fggs.Proofs.SP_rename Fggs.Proofs.SP_spe Fggs.Proofs.SP_driver
               Fggs.Proofs.SP_main.

Lemma iter_n_add {A} (f : A -> A) n m x : iter_n f (n + m) x = iter_n f n (iter_n f m x).
Proof. induction n as [|n IH]; [reflexivity|]. cbn [Nat.add iter_n]. now rewrite IH. Qed.

Section Encl.
Context {R : Type} (o : sr_ops R).
Hypothesis Hr : sr_ring o.
Hypothesis Ho : sr_ordered o.
Add Ring RingD7 : (sr_is_srt o Hr).
Context (rd ru infl : R -> R) (leb close : R -> R -> bool).
Hypothesis Hrd : forall x, le o (rd x) x.
Hypothesis Hru : forall x, le o x (ru x).
Hypothesis Hleb : forall a b, leb a b = true -> le o a b.

(** ** monotonicity of finite sums and products *)
Lemma mul_mono2 a b c d : le o a b -> le o c d -> le o (mul o a c) (mul o b d).
Proof.
  intros H1 H2. apply (le_trans o Ho) with (mul o a d).
  - now apply (mul_mono o Ho).
  - replace (mul o a d) with (mul o d a) by ring. replace (mul o b d) with (mul o d b) by ring.
    now apply (mul_mono o Ho).
Qed.
Lemma sumS_mono {A} (l : list A) f g : (forall x, In x l -> le o (f x) (g x)) -> le o (sumS o l f) (sumS o l g).
Proof.
  induction l as [|x l IH]; intros H; [apply (le_refl o Ho)|].
  rewrite !sumS_cons. apply (add_mono o Ho); [apply H; now left|apply IH; intros y Hy; apply H; now right].
Qed.
Lemma prodS_mono {A} (l : list A) f g : (forall x, In x l -> le o (f x) (g x)) -> le o (prodS o l f) (prodS o l g).
Proof.
  induction l as [|x l IH]; intros H; [apply (le_refl o Ho)|].
  rewrite !prodS_cons. apply mul_mono2; [apply H; now left|apply IH; intros y Hy; apply H; now right].
Qed.

Variable G : grammar.
Hypothesis Hwf : wf_grammar G = true.
Variable w : env (R:=R).

(** cell-wise order on the cells of the nonterminals *)
Definition env_le (x y : env (R:=R)) : Prop :=
  forall X xi, is_term G X = false -> In xi (all_assts (lshape G X)) -> le o (x X xi) (y X xi).

Lemma env_le_refl x : env_le x x.
Proof. intros X xi _ _. apply (le_refl o Ho). Qed.
Lemma env_le_trans x y z : env_le x y -> env_le y z -> env_le x z.
Proof. intros H1 H2 X xi HX Hxi. eapply (le_trans o Ho); [now apply H1|now apply H2]. Qed.

Lemma step_mono x y : env_le x y -> env_le (step o G w x) (step o G w y).
Proof.
  intros H X xi HX Hxi. unfold step. rewrite HX. apply sumS_mono. intros r Hrin.
  unfold rule_val. apply sumS_mono. intros a Ha. apply filter_In in Ha. destruct Ha as [Ha _].
  apply prodS_mono. intros ed Hed. destruct (is_term G (fst ed)) eqn:Ht; [apply (le_refl o Ho)|].
  apply H; trivial. exact (edge_arg_in_range G r ed a (rules_of_wf G Hwf X r Hrin) Hed Ha).
Qed.

(** the Kleene iterates form a chain *)
Lemma Zk_chain k : env_le (Zk o G w k) (Zk o G w (S k)).
Proof.
  induction k as [|k IH].
  - intros X xi _ _. apply (zero_le o Ho).
  - cbn [Zk]. apply step_mono. exact IH.
Qed.
Lemma Zk_mono j k : j <= k -> env_le (Zk o G w j) (Zk o G w k).
Proof.
  induction 1 as [|k _ IH]; [apply env_le_refl|]. eapply env_le_trans; [exact IH|apply Zk_chain].
Qed.

(** ** one step on tables *)
Lemma env_of_Kstep (f : R -> R) (t : tmt (R:=R)) X xi :
  is_term G X = false -> In xi (all_assts (lshape G X)) ->
  env_of o (Kstep o f G w t) X xi = f (step o G w (env_of o t) X xi).
Proof.
  intros HX Hxi. unfold Kstep. rewrite (env_of_tget o).
  rewrite (tget_map_In (fun X => tabulate (lshape G X) (fun xi => f (step o G w (env_of o t) X xi))))
    by now apply nonterminal_In.
  now rewrite (tab_get_tabulate o).
Qed.

Definition lowerK (lo : tmt (R:=R)) (K : nat) : Prop := env_le (env_of o lo) (Zk o G w K).
Definition upperK (k : nat) (v : tmt (R:=R)) : Prop := env_le (Zk o G w k) (env_of o v).
Definition all_upper (v : tmt (R:=R)) : Prop := forall k, upperK k v.

Lemma lower_step lo K : lowerK lo K -> lowerK (Kdn o rd G w lo) (S K).
Proof.
  intros H X xi HX Hxi. unfold Kdn. rewrite env_of_Kstep by assumption.
  eapply (le_trans o Ho); [apply Hrd|]. cbn [Zk]. now apply step_mono.
Qed.
Lemma lower_iter n lo K : lowerK lo K -> lowerK (iter_n (Kdn o rd G w) n lo) (n + K).
Proof. intros H. induction n as [|n IH]; [exact H|]. cbn [iter_n Nat.add]. now apply lower_step. Qed.

Lemma upper_step k v : upperK k v -> upperK (S k) (Kup o ru G w v).
Proof.
  intros H X xi HX Hxi. unfold Kup. rewrite env_of_Kstep by assumption.
  eapply (le_trans o Ho); [|apply Hru]. cbn [Zk]. now apply step_mono.
Qed.
Lemma upper_iter n k v : upperK k v -> upperK (n + k) (iter_n (Kup o ru G w) n v).
Proof. intros H. induction n as [|n IH]; [exact H|]. cbn [iter_n Nat.add]. now apply upper_step. Qed.

Lemma all_upper_iter n v : all_upper v -> all_upper (iter_n (Kup o ru G w) n v).
Proof.
  intros H k. eapply env_le_trans; [apply (Zk_mono k (n + k)); lia|]. apply upper_iter. apply H.
Qed.

(** ** Park's principle for the m-fold up-rounded map *)
Lemma park_m m u :
  1 <= m -> env_le (env_of o (iter_n (Kup o ru G w) m u)) (env_of o u) -> all_upper u.
Proof.
  intros Hm Hle.
  assert (Hq : forall q, upperK (q * m) u).
  { induction q as [|q IH].
    - intros X xi _ _. apply (zero_le o Ho).
    - cbn [Nat.mul]. eapply env_le_trans; [apply upper_iter; exact IH|exact Hle]. }
  intros k. eapply env_le_trans; [apply (Zk_mono k (k * m)); nia|apply Hq].
Qed.

(** ** comparing tables *)
Lemma tab_rel_le (rel : R -> R -> bool) (a b : tmt (R:=R)) :
  (forall x y, rel x y = true -> le o x y) -> tab_rel rel a b = true ->
  forall X xi, le o (env_of o a X xi) (env_of o b X xi).
Proof.
  intros Hrel H X xi. unfold tab_rel in H. apply andb_true_iff in H. destruct H as [Hlen H].
  rewrite !(env_of_tget o).
  revert b Hlen H. induction a as [|[ka ta] a IH]; intros [|[kb tb] b] Hlen H; try discriminate.
  - cbn [tget]. apply (le_refl o Ho).
  - cbn [combine forallb fst snd] in H. rewrite !andb_true_iff in H.
    destruct H as [[[Hk Hl] Hc] Hrest]. apply Nat.eqb_eq in Hk. subst kb. cbn [tget].
    destruct (Nat.eqb ka X).
    + clear -Hc Hl Hrel Ho. revert tb Hl Hc. induction ta as [|[ia va] ta IHt]; intros [|[ib vb] tb] Hl Hc; try discriminate.
      * cbn [tab_get]. apply (le_refl o Ho).
      * cbn [combine forallb fst snd] in Hc. rewrite !andb_true_iff in Hc. destruct Hc as [[Hi Hv] Hc].
        apply nat_list_eqb_iff in Hi. subst ib. cbn [tab_get].
        destruct (nat_list_eqb ia xi); [now apply Hrel|]. apply IHt; trivial.
    + apply IH; trivial.
Qed.

(** ** the search procedures *)
Lemma try_up_sound u : forall c um n v,
  um = iter_n (Kup o ru G w) n u -> try_up o ru leb G w u um c = Some v -> all_upper v.
Proof.
  induction c as [|c IH]; intros um n v Hum H; [discriminate|].
  cbn [try_up] in H.
  assert (E : iter_n (Kup o ru G w) 8 um = iter_n (Kup o ru G w) (8 + n) u) by (rewrite iter_n_add; now subst um).
  destruct (tab_rel leb (iter_n (Kup o ru G w) 8 um) u) eqn:Hrel.
  - assert (Hv : v = iter_n (Kup o ru G w) 8 um) by congruence. rewrite Hv, E. apply all_upper_iter. apply (park_m (8 + n)); [lia|].
    intros X xi _ _. rewrite <- E. now apply (tab_rel_le leb).
  - exact (IH _ (8 + n) v E H).
Qed.

Lemma tighten_sound : forall c lo v K lo' v',
  lowerK lo K -> all_upper v -> tighten o rd ru close G w lo v c = Some (lo', v') ->
  (exists K', lowerK lo' K') /\ all_upper v'.
Proof.
  induction c as [|c IH]; intros lo v K lo' v' Hlo Hv H; cbn [tighten] in H.
  - destruct (tab_rel close lo v); [|discriminate]. injection H as <- <-. split; [now exists K|exact Hv].
  - destruct (tab_rel close lo v).
    + injection H as <- <-. split; [now exists K|exact Hv].
    + apply (IH _ _ (8 + K) _ _ (lower_iter 8 lo K Hlo) (all_upper_iter 8 v Hv) H).
Qed.

Lemma encl2_from_sound : forall rounds lo K lo' v',
  lowerK lo K -> encl2_from o rd ru infl leb close G w rounds lo = Some (lo', v') ->
  (exists K', lowerK lo' K') /\ all_upper v'.
Proof.
  induction rounds as [|r IH]; intros lo K lo' v' Hlo H; cbn [encl2_from] in H.
  - destruct (try_up o ru leb G w (inflate infl lo) (inflate infl lo) 12) as [v|] eqn:Ht; [|discriminate].
    apply (tighten_sound _ _ _ K _ _ Hlo (try_up_sound _ _ _ 0 v eq_refl Ht) H).
  - destruct (try_up o ru leb G w (inflate infl lo) (inflate infl lo) 12) as [v|] eqn:Ht.
    + apply (tighten_sound _ _ _ K _ _ Hlo (try_up_sound _ _ _ 0 v eq_refl Ht) H).
    + apply (IH _ (32 + K) _ _ (lower_iter 32 lo K Hlo) H).
Qed.

Lemma Ktab0_lower : lowerK (Ktab o rd G w 0) 0.
Proof.
  intros X xi HX Hxi. cbn [Ktab Zk]. rewrite (env_of_tget o).
  rewrite (tget_map_In (fun X => tabulate (lshape G X) (fun _ => zero o))) by now apply nonterminal_In.
  rewrite (tab_get_tabulate o) by exact Hxi. apply (le_refl o Ho).
Qed.

(** C03_encl2_sound: a returned pair encloses all sufficiently late Kleene iterates, cell by cell *)
Theorem encl2_sound rounds lo v :
  encl2 o rd ru infl leb close G w rounds = Some (lo, v) ->
  exists K, forall k, K <= k -> forall X xi, is_term G X = false -> In xi (all_assts (lshape G X)) ->
    le o (env_of o lo X xi) (Zk o G w k X xi) /\ le o (Zk o G w k X xi) (env_of o v X xi).
Proof.
  intros H. unfold encl2 in H.
  destruct (encl2_from_sound rounds _ (24 + 0) lo v (lower_iter 24 _ 0 Ktab0_lower) H) as [[K HK] Hv].
  exists K. intros k Hk X xi HX Hxi. split.
  - eapply (le_trans o Ho); [now apply HK|]. now apply (Zk_mono K k Hk).
  - now apply Hv.
Qed.
End Encl.
