(** C02 (tier B): the premise [newton_laws] of Proofs/Newton_sandwich.v holds for the three
    carriers with the code's [sub] and [maximum]:
      Bool     sub x y = x && not y,   maximum = or;
      Viterbi  sub x y = x,            maximum = max (the semiring's addition);
      Real     sub x y = relu (x - y) (nan -> 0),  maximum = max.
    The first two are instances of the idempotent case (x + x = x: maximum = addition, the
    largest a with x + a <= u is u itself). *)
From Coq Require Import QArith Qcanon Lqa List Arith Bool PeanoNat Ring Ring_theory.
Import ListNotations.
Require Import Fggs.Model.Semiring Fggs.Model.EReal Fggs.Model.Trop Fggs.Model.Newton.
Require Import Fggs.Proofs.BigSum Fggs.Proofs.SemiringLaws Fggs.Proofs.Newton_taylor Fggs.Proofs.Newton_sandwich
               Fggs.Proofs.Kleene_proofs.

Section Idempotent.
Context {R : Type} (o : sr_ops R).
Hypothesis Hr : sr_ring o.
Hypothesis Ho : sr_ordered o.
Hypothesis Hidem : forall a, add o a a = a.
Variable sub : R -> R -> R.
Hypothesis Hsub : forall x y, le o y x -> add o (sub x y) y = x.

Theorem idempotent_newton_laws : newton_laws o sub (add o) (fun u _ => u).
Proof.
  constructor.
  - intros a b. apply (le_add_r o Hr Ho).
  - intros a b. apply (le_add_l o Hr Ho).
  - intros a b c Ha Hb. rewrite <- (Hidem c). apply (add_mono o Ho); assumption.
  - exact Hsub.
  - intros x u a Hxu. split.
    + intros H. apply (le_trans o Ho) with (add o x a); [apply (le_add_l o Hr Ho) | exact H].
    + intros H. rewrite <- (Hidem u). apply (add_mono o Ho); assumption.
Qed.
End Idempotent.

(** * Bool *)
Theorem bool_newton_laws : newton_laws bool_ops bsub2 orb (fun u _ => u).
Proof.
  apply (idempotent_newton_laws bool_ops bool_ring bool_ordered).
  - intros []; reflexivity.
  - exact bsub_le.
Qed.

(** * Viterbi *)
Theorem trop_newton_laws : newton_laws trop_ops (fun x _ => x) tmax (fun u _ => u).
Proof.
  apply (idempotent_newton_laws trop_ops trop_ring trop_ordered).
  - exact tmax_idem.
  - intros x y H. cbn [add trop_ops]. rewrite tmax_comm. apply tle_max_iff. exact H.
Qed.

(** * Real *)
(** the largest a with x + a <= u, for x <= u *)
Definition ersd (u x : ereal) : ereal :=
  match x, u with
  | Fin a, Fin b => Fin (nn_of_Qc (qv b - qv a))
  | _, _ => PInf
  end.

Lemma emax2_ub_l a b : ele a (emax2 a b).
Proof.
  unfold emax2. destruct (eleb a b) eqn:E; [apply eleb_sound; exact E | apply ele_refl].
Qed.
Lemma eleb_false a b : eleb a b = false -> ele b a.
Proof.
  destruct a as [a|], b as [b|]; cbn; try discriminate; try tauto.
  intros H. apply Qle_bool_false in H. unfold Qcle. lra.
Qed.
Lemma emax2_ub_r a b : ele b (emax2 a b).
Proof.
  unfold emax2. destruct (eleb a b) eqn:E; [apply ele_refl | apply eleb_false; exact E].
Qed.
Lemma emax2_lub a b c : ele a c -> ele b c -> ele (emax2 a b) c.
Proof. unfold emax2. destruct (eleb a b); auto. Qed.

Lemma ersd_galois x u a : ele x u -> (ele (eadd x a) u <-> ele a (ersd u x)).
Proof.
  destruct x as [x|], u as [u|], a as [a|]; cbn [ele eadd ersd]; try tauto.
  intros H. cbn [qv nnadd]. rewrite nn_of_Qc_qv.
  - split; intros H'; qc2q; lra.
  - rewrite nnb_le, this_minus. qc2q. lra.
Qed.

Theorem ereal_newton_laws : newton_laws ereal_ops esub emax2 ersd.
Proof.
  constructor; cbn [le add ereal_ops].
  - exact emax2_ub_l.
  - exact emax2_ub_r.
  - exact emax2_lub.
  - exact esub_add.
  - exact ersd_galois.
Qed.
