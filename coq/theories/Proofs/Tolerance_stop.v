(** C11 -- the code's stopping test (MultiTensor.allclose, absent block = zero) on block
    representations agrees with the test on dense vectors; the loop of fixed_point run on
    x = A x + c stops within the stated number of passes at an iterate within tol/(1-a) of the
    least fixed point; soundness of the check function [vtol_check]. *)
From Coq Require Import QArith Qabs Qround Bool List Lqa Lia Arith.
Require Import Fggs.Model.Tolerance Fggs.Proofs.Tolerance_proofs Fggs.Proofs.Tolerance_vec.
Require Import Fggs.Proofs.Kleene_control.
Import ListNotations.
Local Open Scope Q_scope.

(** * the boolean test on dense vectors *)
Lemma qclose_iff tol p q : Qle_bool (Qabs (p - q)) tol = true <-> p <= q + tol /\ q <= p + tol.
Proof.
  rewrite Qle_bool_iff, Qabs_Qle_condition. split; intros [H1 H2]; split; lra.
Qed.

Lemma vclose_sound tol x y : vclose tol x y = true -> vle_off tol x y /\ vle_off tol y x.
Proof.
  unfold vclose. revert y. induction x as [|p x IH]; intros [|q y] H; cbn [forall2b] in H; try discriminate.
  - split; constructor.
  - apply andb_true_iff in H as [H1 H2]. apply qclose_iff in H1 as [Ha Hb].
    destruct (IH y H2) as [I1 I2]. split; constructor; assumption.
Qed.

Lemma vclose_complete tol x y : vle_off tol x y -> vle_off tol y x -> vclose tol x y = true.
Proof.
  unfold vclose. intros F. induction F as [|p q x y Hpq F IH]; intros G; [reflexivity|].
  inversion G; subst. cbn [forall2b]. apply andb_true_iff. split; [apply qclose_iff; split; assumption | apply IH; assumption].
Qed.

(** * block representations: the test does not depend on which blocks are materialised *)
Lemma xclose_sym tol x y : xclose tol x y = xclose tol y x.
Proof.
  destruct x as [p| |], y as [q| |]; cbn [xclose]; try reflexivity.
  destruct (Qle_bool (Qabs (p - q)) tol) eqn:E1, (Qle_bool (Qabs (q - p)) tol) eqn:E2; try reflexivity.
  - apply qclose_iff in E1. assert (Qle_bool (Qabs (q - p)) tol = true) by (apply qclose_iff; tauto). congruence.
  - apply qclose_iff in E2. assert (Qle_bool (Qabs (p - q)) tol = true) by (apply qclose_iff; tauto). congruence.
Qed.

Lemma forall2b_app {T : Type} (f : T -> T -> bool) x y x' y' :
  length x = length y -> forall2b f (x ++ x') (y ++ y') = forall2b f x y && forall2b f x' y'.
Proof.
  revert y. induction x as [|a x IH]; intros [|b y] L; cbn in L; try discriminate; [reflexivity|].
  cbn [app forall2b]. rewrite IH by congruence. apply andb_assoc.
Qed.

Lemma forallb_default tol z t :
  forallb (fun e => xclose tol e z) t = forall2b (xclose tol) t (repeat z (length t)).
Proof. induction t as [|e t IH]; cbn [forallb length repeat forall2b]; [reflexivity | rewrite IH; reflexivity]. Qed.

Lemma forall2b_sym {T : Type} (f : T -> T -> bool) : (forall a b, f a b = f b a) ->
  forall x y, forall2b f x y = forall2b f y x.
Proof. intros H x. induction x as [|a x IH]; intros [|b y]; cbn [forall2b]; try reflexivity. rewrite H, IH. reflexivity. Qed.

Lemma forall2b_repeat tol z n : xclose tol z z = true -> forall2b (xclose tol) (repeat z n) (repeat z n) = true.
Proof. intros H. induction n; cbn [repeat forall2b]; [reflexivity | rewrite H, IHn; reflexivity]. Qed.

Definition blk (z : xq) (n : nat) (b : block) : list xq := match b with Some t => t | None => repeat z n end.

Lemma block_close_dense z tol n s o :
  xclose tol z z = true ->
  (match s with Some t => length t = n | None => True end) ->
  (match o with Some t => length t = n | None => True end) ->
  block_close z tol s o = forall2b (xclose tol) (blk z n s) (blk z n o).
Proof.
  intros Hz Hs Ho. destruct s as [t|], o as [u|]; cbn [block_close blk].
  - reflexivity.
  - rewrite forallb_default, Hs. reflexivity.
  - rewrite forallb_default, Ho. rewrite (forall2b_sym _ (xclose_sym tol)). reflexivity.
  - symmetry. apply forall2b_repeat. exact Hz.
Qed.

Lemma blk_length z n b : (match b with Some t => length t = n | None => True end) -> length (blk z n b) = n.
Proof. destruct b; cbn [blk]; [auto | intros _; apply repeat_length]. Qed.

(** MultiTensor.allclose on two representations = the entrywise test on their dense readings.
    [xclose tol z z = true] holds for every tol >= 0 (and for z infinite): see [xclose_refl_fin]. *)
Theorem mt_close_dense z tol shapes X Y :
  xclose tol z z = true -> wf_blocks shapes X = true -> wf_blocks shapes Y = true ->
  mt_close z tol X Y = forall2b (xclose tol) (dense z shapes X) (dense z shapes Y).
Proof.
  intros Hz. unfold mt_close. revert X Y. induction shapes as [|n shapes IH]; intros [|s X] [|o Y] HX HY; cbn [wf_blocks] in HX, HY; try discriminate; [reflexivity|].
  apply andb_true_iff in HX as [Hs HX]. apply andb_true_iff in HY as [Ho HY].
  cbn [forall2b dense]. fold (blk z n s) (blk z n o).
  assert (Hs' : match s with Some t => length t = n | None => True end) by (destruct s; [apply Nat.eqb_eq; exact Hs | exact I]).
  assert (Ho' : match o with Some t => length t = n | None => True end) by (destruct o; [apply Nat.eqb_eq; exact Ho | exact I]).
  rewrite forall2b_app by (rewrite !blk_length; auto).
  rewrite (block_close_dense z tol n s o Hz Hs' Ho'), (IH X Y HX HY). reflexivity.
Qed.

Lemma xclose_refl_fin tol q : 0 <= tol -> xclose tol (XFin q) (XFin q) = true.
Proof. intros H. cbn [xclose]. apply qclose_iff. split; lra. Qed.
Lemma xclose_refl_inf tol : xclose tol XPInf XPInf = true /\ xclose tol XNInf XNInf = true.
Proof. split; reflexivity. Qed.
(** an infinite entry is far from every finite one, whatever tol *)
Lemma xclose_inf_fin tol q : xclose tol XPInf (XFin q) = false /\ xclose tol (XFin q) XPInf = false
                            /\ xclose tol XNInf (XFin q) = false /\ xclose tol (XFin q) XNInf = false.
Proof. repeat split. Qed.

Lemma vclose_map tol x y : forall2b (xclose tol) (map XFin x) (map XFin y) = vclose tol x y.
Proof. unfold vclose. revert y. induction x as [|p x IH]; intros [|q y]; cbn [map forall2b xclose]; try reflexivity. rewrite IH. reflexivity. Qed.

(** [X] represents the rational vector [x] (Real semiring: absent = 0); entries up to [==], so a
    representation may drop a block whose entries are all zero *)
Definition xeq (u v : xq) : Prop :=
  match u, v with XFin p, XFin q => p == q | XPInf, XPInf => True | XNInf, XNInf => True | _, _ => False end.
Definition represents (shapes : list nat) (X : list block) (x : list Q) : Prop :=
  wf_blocks shapes X = true /\ Forall2 xeq (dense (XFin 0) shapes X) (map XFin x).

Lemma xclose_xeq tol u u' v v' : xeq u u' -> xeq v v' -> xclose tol u v = xclose tol u' v'.
Proof.
  destruct u as [p| |], u' as [p'| |]; cbn [xeq]; try contradiction; intros Hu;
  destruct v as [q| |], v' as [q'| |]; cbn [xeq]; try contradiction; intros Hv; cbn [xclose]; try reflexivity.
  destruct (Qle_bool (Qabs (p - q)) tol) eqn:E1, (Qle_bool (Qabs (p' - q')) tol) eqn:E2; try reflexivity.
  - apply qclose_iff in E1. assert (Qle_bool (Qabs (p' - q')) tol = true) by (apply qclose_iff; rewrite <- Hu, <- Hv; exact E1). congruence.
  - apply qclose_iff in E2. assert (Qle_bool (Qabs (p - q)) tol = true) by (apply qclose_iff; rewrite Hu, Hv; exact E2). congruence.
Qed.

Lemma forall2b_xeq tol u u' : Forall2 xeq u u' -> forall v v', Forall2 xeq v v' ->
  forall2b (xclose tol) u v = forall2b (xclose tol) u' v'.
Proof.
  intros F. induction F as [|a a' u u' Ha F IH]; intros v v' G; destruct G as [|b b' v v' Hb G]; cbn [forall2b]; try reflexivity.
  rewrite (xclose_xeq tol a a' b b' Ha Hb), (IH v v' G). reflexivity.
Qed.

Corollary mt_close_represents tol shapes X Y x y :
  0 <= tol -> represents shapes X x -> represents shapes Y y ->
  mt_close (XFin 0) tol X Y = vclose tol x y.
Proof.
  intros Ht [WX DX] [WY DY]. rewrite (mt_close_dense _ tol shapes X Y (xclose_refl_fin tol 0 Ht) WX WY).
  rewrite (forall2b_xeq tol _ _ DX _ _ DY). apply vclose_map.
Qed.

Lemma xeq_refl_fin l : Forall2 xeq (map XFin l) (map XFin l).
Proof. induction l; cbn [map]; constructor; [cbn; reflexivity | assumption]. Qed.

(** the empty MultiTensor fixed_point starts from represents the zero vector *)
Lemma empty_represents shapes :
  represents shapes (repeat None (length shapes)) (vzero (fold_right Nat.add 0%nat shapes)).
Proof.
  unfold represents. split.
  - induction shapes as [|n shapes IH]; [reflexivity | exact IH].
  - assert (E : dense (XFin 0) shapes (repeat None (length shapes)) = map XFin (vzero (fold_right Nat.add 0%nat shapes))).
    { induction shapes as [|n shapes IH]; [reflexivity|].
      cbn [length repeat dense fold_right]. rewrite IH. unfold vzero. rewrite repeat_app, map_app. f_equal.
      clear. induction n; cbn [repeat map]; [reflexivity | rewrite IHn; reflexivity]. }
    rewrite E. apply xeq_refl_fin.
Qed.

(** * the loop of fixed_point, simulated through a representation relation *)
Section Sim.
Context {T U : Type} (F : T -> T) (G : U -> U) (cT : T -> T -> bool) (cU : U -> U -> bool) (R : T -> U -> Prop).
Hypothesis HF : forall a b, R a b -> R (F a) (G b).
Hypothesis Hc : forall a a' b b', R a b -> R a' b' -> cT a a' = cU b b'.

Lemma fp_while_sim kmax fuel k a a' b b' :
  R a b -> R a' b' ->
  match fp_while F cT kmax fuel k a a', fp_while G cU kmax fuel k b b' with
  | Some (k1, a0, a1), Some (k2, b0, b1) => k1 = k2 /\ R a0 b0 /\ R a1 b1
  | None, None => True
  | _, _ => False
  end.
Proof.
  revert k a a' b b'. induction fuel as [|fuel IH]; intros k a a' b b' H H'; cbn [fp_while]; rewrite (Hc a a' b b' H H');
    destruct (negb (cU b b') && (k <=? kmax)%nat); try (repeat split; auto; fail).
  apply IH; [exact H' | apply HF; exact H'].
Qed.

Theorem fixed_point_loop_sim kmax a b :
  R a b ->
  match fixed_point_loop F cT kmax a, fixed_point_loop G cU kmax b with
  | Some (a0, a1, w), Some (b0, b1, w') => R a0 b0 /\ R a1 b1 /\ w = w'
  | None, None => True
  | _, _ => False
  end.
Proof.
  intros H. unfold fixed_point_loop.
  pose proof (fp_while_sim kmax (kmax + 2) 0 a (F a) b (G b) H (HF a b H)) as S.
  destruct (fp_while F cT kmax (kmax + 2) 0 a (F a)) as [[[k1 a0] a1]|], (fp_while G cU kmax (kmax + 2) 0 b (G b)) as [[[k2 b0] b1]|]; try contradiction; auto.
  destruct S as (-> & H0 & H1). auto.
Qed.
End Sim.

Lemma viter_iter A c k : viter A c k = iter k (vstep A c) (vzero (length c)).
Proof. induction k as [|k IH]; cbn [viter iter]; [reflexivity | rewrite IH; reflexivity]. Qed.

(** * the run of fixed_point's loop on x = A x + c *)
Section Run.
Variables (A : list (list Q)) (c : list Q) (a : Q).
Hypothesis HA : Forall (Forall (fun q => 0 <= q)) A.
Hypothesis Hrow : Forall (fun r => rowsum r <= a) A.
Hypothesis Ha0 : 0 <= a.
Hypothesis Ha1 : a < 1.
Hypothesis Hlen : length A = length c.
Hypothesis Hc : Forall (fun q => 0 <= q) c.
Variable mu : list Q.
Hypothesis Hmu : veq mu (vstep A c mu).

(** the code's test at pass k implies the stop bound (tol >= 0 is implied when n > 0) *)
Theorem vstop_bound_test k tol :
  0 <= tol -> vclose tol (viter A c k) (viter A c (S k)) = true ->
  vle (viter A c k) mu /\ vle_off (tol / (1 - a)) mu (viter A c k) /\
  vle (viter A c (S k)) mu /\ vle_off (a * (tol / (1 - a))) mu (viter A c (S k)).
Proof.
  intros Ht H. apply vclose_sound in H as [_ H].
  apply (vstop_bound A c a HA Hrow Ha0 Ha1 Hlen mu Hmu Hc k tol Ht H).
Qed.

(** the test holds at every pass K with a^K C <= tol, C any bound on the entries of c *)
Theorem vtest_fires C K tol :
  0 <= C -> Forall (fun q => q <= C) c -> qpow a K * C <= tol ->
  vclose tol (viter A c K) (viter A c (S K)) = true.
Proof.
  intros HC Hb HK.
  assert (Ht : 0 <= tol). { eapply Qle_trans; [|exact HK]. apply Qmult_le_0_compat; [apply qpow_nonneg'; exact Ha0 | exact HC]. }
  apply vclose_complete.
  - pose proof (viter_chain A c a HA Hrow Hlen Hc K) as Hch.
    eapply vle_off_weaken; [exact Ht|]. apply vle_off_0. exact Hch.
  - eapply vle_off_weaken; [exact HK|]. apply (increments A c a HA Hrow Ha0 Hlen C K HC Hb).
Qed.

(** the loop (Proofs/Kleene_control.v: [fixed_point_loop], the model of
    fggs/sum_product.py:fixed_point) on dense vectors: with kmax >= K it does not warn, stops at
    some pass k <= K, and returns x_k with  x_k <= mu <= x_k + tol/(1-a) *)
Theorem vfixed_point_run C K tol kmax :
  0 <= C -> Forall (fun q => q <= C) c -> qpow a K * C <= tol -> (K <= kmax)%nat ->
  exists k, (k <= K)%nat /\
    fixed_point_loop (vstep A c) (vclose tol) kmax (vzero (length c))
      = Some (viter A c k, viter A c (S k), false) /\
    vle (viter A c k) mu /\ vle_off (tol / (1 - a)) mu (viter A c k).
Proof.
  intros HC Hb HK Hkm.
  assert (Ht : 0 <= tol). { eapply Qle_trans; [|exact HK]. apply Qmult_le_0_compat; [apply qpow_nonneg'; exact Ha0 | exact HC]. }
  destruct (fixed_point_loop_spec (vstep A c) (vclose tol) kmax (vzero (length c))) as (k' & E & Hk' & Hfail & Hstop).
  pose proof (vtest_fires C K tol HC Hb HK) as HT.
  assert (Hle : (k' <= K)%nat).
  { destruct (le_lt_dec k' K) as [L|L]; [exact L|]. specialize (Hfail K L). unfold fp_test in Hfail.
    rewrite <- !viter_iter in Hfail. change (vstep A c (viter A c K)) with (viter A c (S K)) in Hfail. congruence. }
  exists k'. split; [exact Hle|].
  assert (Hkk : (k' <= kmax)%nat) by lia.
  specialize (Hstop Hkk). unfold fp_test in Hstop. cbn [iter] in E, Hstop. rewrite <- !viter_iter in E, Hstop.
  change (vstep A c (viter A c k')) with (viter A c (S k')) in E, Hstop.
  assert (W : (kmax <? k')%nat = false) by (apply Nat.ltb_ge; exact Hkk). rewrite W in E.
  split; [exact E|].
  destruct (vstop_bound_test k' tol Ht Hstop) as (B1 & B2 & _). split; assumption.
Qed.

(** the same with the explicit pass count K = pass_bound a tol C = ceil((C - tol)/(tol (1-a))) *)
Corollary vfixed_point_run_explicit C tol kmax :
  0 <= C -> Forall (fun q => q <= C) c -> 0 < tol -> (pass_bound a tol C <= kmax)%nat ->
  exists k, (k <= pass_bound a tol C)%nat /\
    fixed_point_loop (vstep A c) (vclose tol) kmax (vzero (length c))
      = Some (viter A c k, viter A c (S k), false) /\
    vle (viter A c k) mu /\ vle_off (tol / (1 - a)) mu (viter A c k).
Proof.
  intros HC Hb Ht Hk. apply (vfixed_point_run C (pass_bound a tol C) tol kmax HC Hb); [|exact Hk].
  apply pass_bound_ok; assumption.
Qed.

(** the loop on MultiTensor-like block representations: any [FR] that implements x |-> A x + c on
    representations (whatever blocks it materialises), started from the empty MultiTensor, with
    the code's test [mt_close] (absent block = zero), returns a representation of that x_k *)
Theorem mt_fixed_point_run shapes (FR : list block -> list block) C K tol kmax :
  fold_right Nat.add 0%nat shapes = length c ->
  (forall X x, represents shapes X x -> represents shapes (FR X) (vstep A c x)) ->
  0 <= C -> Forall (fun q => q <= C) c -> qpow a K * C <= tol -> (K <= kmax)%nat ->
  exists k Y0 Y1, (k <= K)%nat /\
    fixed_point_loop FR (mt_close (XFin 0) tol) kmax (repeat None (length shapes)) = Some (Y0, Y1, false) /\
    represents shapes Y0 (viter A c k) /\ represents shapes Y1 (viter A c (S k)) /\
    vle (viter A c k) mu /\ vle_off (tol / (1 - a)) mu (viter A c k).
Proof.
  intros Hsh HFR HC Hb HK Hkm.
  assert (Ht : 0 <= tol). { eapply Qle_trans; [|exact HK]. apply Qmult_le_0_compat; [apply qpow_nonneg'; exact Ha0 | exact HC]. }
  destruct (vfixed_point_run C K tol kmax HC Hb HK Hkm) as (k & Hk & E & B1 & B2).
  pose proof (fixed_point_loop_sim FR (vstep A c) (mt_close (XFin 0) tol) (vclose tol) (represents shapes) HFR
                (fun X X' x x' H H' => mt_close_represents tol shapes X X' x x' Ht H H') kmax
                (repeat None (length shapes)) (vzero (fold_right Nat.add 0%nat shapes)) (empty_represents shapes)) as S.
  rewrite Hsh in S.
  rewrite E in S.
  destruct (fixed_point_loop FR (mt_close (XFin 0) tol) kmax (repeat None (length shapes))) as [[[Y0 Y1] w]|]; [|contradiction].
  destruct S as (R0 & R1 & ->). exists k, Y0, Y1. auto 10.
Qed.

End Run.

(** * the check function *)
Lemma forallb_Forall {T : Type} (f : T -> bool) (P : T -> Prop) :
  (forall x, f x = true -> P x) -> forall l, forallb f l = true -> Forall P l.
Proof. intros H l. induction l as [|x l IH]; cbn [forallb]; intros E; constructor; apply andb_true_iff in E as [E1 E2]; auto. Qed.

Lemma Forall_forallb {T : Type} (f : T -> bool) (P : T -> Prop) :
  (forall x, P x -> f x = true) -> forall l, Forall P l -> forallb f l = true.
Proof. intros H l F. induction F; cbn [forallb]; [reflexivity|]. rewrite H, IHF by assumption. reflexivity. Qed.

Lemma forall2b_Forall2 {T : Type} (f : T -> T -> bool) (P : T -> T -> Prop) :
  (forall x y, f x y = true -> P x y) -> forall l l', forall2b f l l' = true -> Forall2 P l l'.
Proof.
  intros H l. induction l as [|x l IH]; intros [|y l'] E; cbn [forall2b] in E; try discriminate; constructor;
    apply andb_true_iff in E as [E1 E2]; auto.
Qed.

Lemma Forall2_forall2b {T : Type} (f : T -> T -> bool) (P : T -> T -> Prop) :
  (forall x y, P x y -> f x y = true) -> forall l l', Forall2 P l l' -> forall2b f l l' = true.
Proof. intros H l l' F. induction F; cbn [forall2b]; [reflexivity|]. rewrite H, IHF by assumption. reflexivity. Qed.

Definition vguard (A : list (list Q)) (c mu : list Q) (tol : Q) (obs : list Q) : bool :=
  forallb (forallb (Qle_bool 0)) A && forallb (Qle_bool 0) c && Qle_bool 0 tol
  && negb (Qle_bool 1 (mnorm A)) && Nat.eqb (length A) (length c) && Nat.eqb (length mu) (length c)
  && Nat.eqb (length obs) (length c).

Lemma vguard_spec A c mu tol obs :
  vguard A c mu tol obs = true ->
  Forall (Forall (fun q => 0 <= q)) A /\ Forall (fun q => 0 <= q) c /\ 0 <= tol /\ mnorm A < 1 /\
  length A = length c /\ length mu = length c /\ length obs = length c.
Proof.
  unfold vguard. rewrite !andb_true_iff, negb_true_iff, !Nat.eqb_eq.
  intros [[[[[[H1 H2] H3] H4] H5] H6] H7]. repeat split; auto.
  - eapply forallb_Forall; [|exact H1]. intros r. apply forallb_Forall. intros q. apply Qle_bool_iff.
  - eapply forallb_Forall; [|exact H2]. intros q. apply Qle_bool_iff.
  - apply Qle_bool_iff. exact H3.
  - destruct (Qlt_le_dec (mnorm A) 1) as [L|L]; [exact L|]. apply Qle_bool_iff in L. congruence.
Qed.

Lemma Hrow_mnorm A : Forall (fun r => rowsum r <= mnorm A) A.
Proof. apply Forall_forall. intros r. apply rowsum_le_mnorm. Qed.

Lemma band_check t d mu v : 0 <= d -> vle v mu -> vle_off t mu v ->
  forall2b (fun m o => Qle_bool (m - t - d) o && Qle_bool o (m + d)) mu v = true.
Proof.
  intros Hd B1 B2. induction B2 as [|m o mu' v' Hmo B2 IH]; [reflexivity|]. inversion B1; subst. cbn [forall2b].
  rewrite IH by assumption. rewrite andb_true_r. apply andb_true_iff. split; apply Qle_bool_iff; lra.
Qed.

(** the exact iterate at which the loop stops is accepted with no rounding allowance *)
Theorem vtol_check_sound A c mu tol k :
  Forall (Forall (fun q => 0 <= q)) A -> Forall (fun q => 0 <= q) c -> 0 <= tol -> mnorm A < 1 ->
  length A = length c -> veq mu (vstep A c mu) ->
  vclose tol (viter A c k) (viter A c (S k)) = true ->
  vtol_check (A, c, mu, tol, 0, viter A c k) = 0%nat.
Proof.
  intros HA Hc Ht Hn Hl Hmu Hs. unfold vtol_check.
  assert (Lmu : length mu = length c) by (apply (mu_length A c Hl mu Hmu)).
  assert (G : vguard A c mu tol (viter A c k) = true).
  { unfold vguard. rewrite !andb_true_iff, negb_true_iff, !Nat.eqb_eq. repeat split; auto.
    - eapply Forall_forallb; [|exact HA]. intros r. apply Forall_forallb. intros q. apply Qle_bool_iff.
    - eapply Forall_forallb; [|exact Hc]. intros q. apply Qle_bool_iff.
    - apply Qle_bool_iff. exact Ht.
    - destruct (Qle_bool 1 (mnorm A)) eqn:E; [|reflexivity]. apply Qle_bool_iff in E. lra.
    - apply viter_length. exact Hl. }
  unfold vguard in G. rewrite G. cbn [negb].
  assert (E : forall2b Qeq_bool mu (vstep A c mu) = true).
  { eapply Forall2_forall2b; [|exact Hmu]. intros x y. apply Qeq_bool_iff. }
  rewrite E. cbn [negb].
  destruct (vstop_bound_test A c (mnorm A) HA (Hrow_mnorm A) (mnorm_nonneg A) Hn Hl Hc mu Hmu k tol Ht Hs) as (B1 & B2 & _).
  assert (B : forall2b (fun m o => Qle_bool (m - tol / (1 - mnorm A) - 0) o && Qle_bool o (m + 0)) mu (viter A c k) = true).
  { apply band_check; [lra | exact B1 | exact B2]. }
  rewrite B. reflexivity.
Qed.

(** a vector with some component further below the fixed point than the bound plus the rounding
    allowance is rejected *)
Theorem vtol_check_rejects A c mu tol delta obs :
  vguard A c mu tol obs = true -> veq mu (vstep A c mu) ->
  Exists (fun mo => snd mo < fst mo - tol / (1 - mnorm A) - delta) (combine mu obs) ->
  vtol_check (A, c, mu, tol, delta, obs) = 1%nat.
Proof.
  intros G Hmu Hex. unfold vtol_check. unfold vguard in G. rewrite G. cbn [negb].
  assert (E : forall2b Qeq_bool mu (vstep A c mu) = true).
  { eapply Forall2_forall2b; [|exact Hmu]. intros x y. apply Qeq_bool_iff. }
  rewrite E. cbn [negb].
  match goal with |- (if ?b then _ else _) = _ => destruct b eqn:B end; [|reflexivity].
  exfalso. clear G E Hmu. revert obs Hex B. induction mu as [|m mu' IH]; intros [|o obs] Hex B; cbn [combine] in Hex; try (inversion Hex; fail).
  cbn [forall2b] in B. apply andb_true_iff in B as [B1 B2]. apply andb_true_iff in B1 as [B1 _]. apply Qle_bool_iff in B1.
  inversion Hex as [? ? H|? ? H]; subst; [cbn [fst snd] in H; lra | eapply IH; eassumption].
Qed.
