(** Prop-level well-formedness for the C15 models and its boolean reflection. *)
From Coq Require Import List Arith Bool PeanoNat Lia Permutation.
Import ListNotations.
Require Import Fggs.Model.Replace Fggs.Proofs.Replace_base.

Record wf_graph (g : graph) : Prop := {
  wf_nodes : NoDup (map n_id (g_nodes g));
  wf_edges : NoDup (map e_id (g_edges g));
  wf_att : forall e, In e (g_edges g) -> incl (e_att e) (g_nodes g);
  wf_typed : forall e, In e (g_edges g) -> l_type (e_label e) = map n_label (e_att e);
  wf_labs : forall e, In e (g_edges g) -> In (e_label e) (g_elabs g);
  wf_ext : incl (g_ext g) (g_nodes g);
  wf_tbl : NoDup (map l_name (g_elabs g)) }.

Lemma sub_nodes_incl : forall l ns, sub_nodes l ns = true <-> incl l ns.
Proof.
  unfold sub_nodes, incl; intros. rewrite forallb_forall.
  split; intros H x Hx; apply (memb_In node_eqb node_eqb_eq); auto.
Qed.

Lemma wf_graphb_iff : forall g, wf_graphb g = true <-> wf_graph g.
Proof.
  intros g. unfold wf_graphb. rewrite !andb_true_iff.
  rewrite !(nodupb_NoDup id_eqb id_eqb_eq), (nodupb_NoDup Nat.eqb Nat.eqb_eq), sub_nodes_incl, forallb_forall.
  split.
  - intros [[[[H1 H2] H3] H4] H5]. constructor; auto; intros e He; specialize (H3 e He);
      rewrite !andb_true_iff in H3; destruct H3 as [[A B] C].
    + apply sub_nodes_incl; auto.
    + apply (list_eqb_eq Nat.eqb Nat.eqb_eq); auto.
    + apply (memb_In elabel_eqb elabel_eqb_eq); auto.
  - intros [H1 H2 H3 H4 H5 H6 H7]. repeat split; auto. intros e He.
    rewrite !andb_true_iff. repeat split.
    + apply sub_nodes_incl; auto.
    + apply (list_eqb_eq Nat.eqb Nat.eqb_eq); auto.
    + apply (memb_In elabel_eqb elabel_eqb_eq); auto.
Qed.

Definition id_lt (nx : nat) (i : id) : Prop := match i with Explicit _ => True | Fresh n => n < nx end.
Definition below (nx : nat) (g : graph) : Prop :=
  (forall n, In n (g_nodes g) -> id_lt nx (n_id n)) /\ (forall e, In e (g_edges g) -> id_lt nx (e_id e)).

Lemma id_below_iff : forall nx i, id_below nx i = true <-> id_lt nx i.
Proof. destruct i; simpl; [tauto | apply Nat.ltb_lt]. Qed.

Lemma belowb_iff : forall nx g, belowb nx g = true <-> below nx g.
Proof.
  intros. unfold belowb, below. rewrite andb_true_iff, !forallb_forall.
  split; intros [A B]; split; intros x Hx; apply id_below_iff; auto.
Qed.

Lemma id_lt_mono : forall a b i, a <= b -> id_lt a i -> id_lt b i.
Proof. destruct i; simpl; auto; lia. Qed.

Lemma id_lt_fresh_neq : forall nx i k, id_lt nx i -> nx <= k -> i <> Fresh k.
Proof. destruct i; simpl; intros; try congruence. intro H1; inversion H1; lia. Qed.

(** labels drawn from a name-functional universe *)
Definition functional (L : list elabel) : Prop := forall a b, In a L -> In b L -> l_name a = l_name b -> a = b.
Lemma functionalb_iff : forall L, functionalb L = true <-> functional L.
Proof.
  intros. unfold functionalb, functional. rewrite forallb_forall. split.
  - intros H a b Ha Hb Hn. specialize (H a Ha). rewrite forallb_forall in H. specialize (H b Hb).
    apply orb_true_iff in H. destruct H as [H|H].
    + apply negb_true_iff in H. apply Nat.eqb_neq in H. congruence.
    + apply elabel_eqb_eq; auto.
  - intros H a Ha. apply forallb_forall. intros b Hb. destruct (Nat.eqb (l_name a) (l_name b)) eqn:E; simpl; auto.
    apply Nat.eqb_eq in E. apply elabel_eqb_eq. auto.
Qed.

Definition labels_ok (L : list elabel) (g : graph) : Prop :=
  incl (g_elabs g) L /\ forall e, In e (g_edges g) -> In (e_label e) L.
Lemma labels_in_iff : forall L g, labels_in L g = true <-> labels_ok L g.
Proof.
  intros. unfold labels_in, labels_ok. rewrite andb_true_iff, !forallb_forall. split; intros [A B]; split.
  - intros x Hx. apply (memb_In elabel_eqb elabel_eqb_eq); auto.
  - intros x Hx. apply (memb_In elabel_eqb elabel_eqb_eq); auto.
  - intros x Hx. apply (memb_In elabel_eqb elabel_eqb_eq); auto.
  - intros x Hx. apply (memb_In elabel_eqb elabel_eqb_eq); auto.
Qed.

Record wf_rule (r : rule) : Prop := {
  wr_graph : wf_graph (r_rhs r);
  wr_ext : NoDup (g_ext (r_rhs r));
  wr_type : l_type (r_lhs r) = gtype (r_rhs r);
  wr_nt : l_term (r_lhs r) = false }.
Lemma wf_ruleb_iff : forall r, wf_ruleb r = true <-> wf_rule r.
Proof.
  intros. unfold wf_ruleb. rewrite !andb_true_iff, wf_graphb_iff, (nodupb_NoDup node_eqb node_eqb_eq),
    (list_eqb_eq Nat.eqb Nat.eqb_eq), negb_true_iff.
  split; [intros [[[A B] C] D]; constructor; auto | intros [A B C D]; auto].
Qed.

Lemma wf_graph_nodup_nodes : forall g, wf_graph g -> NoDup (g_nodes g).
Proof. intros g H. eapply NoDup_map_NoDup. apply (wf_nodes g H). Qed.
Lemma wf_graph_nodup_edges : forall g, wf_graph g -> NoDup (g_edges g).
Proof. intros g H. eapply NoDup_map_NoDup. apply (wf_edges g H). Qed.
