(** C02 -- the critical quadratic system (Model/Critical.v): the residual is the square of the error. *)
From Coq Require Import QArith Bool List Lqa.
Require Import Fggs.Model.Magnitude Fggs.Model.Critical Fggs.Proofs.Magnitude_proofs.
Import ListNotations.
Local Open Scope Q_scope.

Lemma crit_residual a b c x : 0 < c -> (1 - a) * (1 - a) == 4 * c * b ->
  qF a b c x - x == c * (crit_xs a c - x) * (crit_xs a c - x).
Proof.
  intros Hc Hd. unfold qF, crit_xs.
  assert (Hb : b == (1 - a) * (1 - a) / (4 * c)) by (field_simplify_eq; lra).
  rewrite Hb. field. lra.
Qed.

Lemma crit_xs_fixed a b c : 0 < c -> (1 - a) * (1 - a) == 4 * c * b -> crit_xs a c == qF a b c (crit_xs a c).
Proof.
  intros Hc Hd. pose proof (crit_residual a b c (crit_xs a c) Hc Hd) as H.
  assert (H0 : c * (crit_xs a c - crit_xs a c) * (crit_xs a c - crit_xs a c) == 0) by ring.
  lra.
Qed.

Lemma crit_xs_pos a c : a < 1 -> 0 < c -> 0 < crit_xs a c.
Proof.
  intros Ha Hc. unfold crit_xs. apply Qlt_shift_div_l; [lra|]. rewrite Qmult_0_l. lra.
Qed.

Lemma sq_nonneg x : 0 <= x * x.
Proof.
  destruct (Qlt_le_dec x 0).
  - setoid_replace (x * x) with ((- x) * (- x)) by ring. apply Qmult_le_0_compat; lra.
  - apply Qmult_le_0_compat; lra.
Qed.

Lemma sq_le e d : 0 <= e -> e <= d -> e * e <= d * d.
Proof.
  intros He Hed. apply Qle_trans with (e * d).
  - rewrite (Qmult_comm e d). apply Qmult_le_compat_r; assumption.
  - apply Qmult_le_compat_r; lra.
Qed.

Lemma crit_b_nonneg a b c : 0 < c -> (1 - a) * (1 - a) == 4 * c * b -> 0 <= b.
Proof.
  intros Hc Hd. pose proof (sq_nonneg (1 - a)).
  assert (H0 : 0 <= c * b) by lra.
  assert (Hb : b == (c * b) / c) by (field; lra).
  rewrite Hb. apply Qle_shift_div_l; [lra|]. rewrite Qmult_0_l. exact H0.
Qed.

(** the stopping test at x bounds the error of x: c (xs - x)^2 <= tol *)
Theorem crit_stop_bound a b c x tol : 0 < c -> (1 - a) * (1 - a) == 4 * c * b ->
  qF a b c x - x <= tol -> c * (crit_xs a c - x) * (crit_xs a c - x) <= tol.
Proof. intros Hc Hd H. rewrite <- (crit_residual a b c x Hc Hd). exact H. Qed.

(** every Kleene iterate is below xs, and they increase *)
Theorem crit_iter_below a b c k : 0 <= a -> a < 1 -> 0 < c -> (1 - a) * (1 - a) == 4 * c * b ->
  qiter a b c k <= crit_xs a c /\ qiter a b c k <= qiter a b c (S k).
Proof.
  intros Ha Ha1 Hc Hd. pose proof (crit_b_nonneg a b c Hc Hd) as Hb.
  split.
  - apply cert_upper; try lra.
    + pose proof (crit_xs_pos a c Ha1 Hc). lra.
    + pose proof (crit_xs_fixed a b c Hc Hd). lra.
  - apply qiter_mono; lra.
Qed.

Lemma guard_spec a b c tol delta : crit_guard a b c tol delta = true ->
  0 <= a /\ a < 1 /\ 0 < c /\ 0 <= tol /\ 0 <= delta /\ (1 - a) * (1 - a) == 4 * c * b.
Proof.
  unfold crit_guard, Qlt_bool. rewrite !andb_true_iff, !negb_true_iff. intros [[[[[H1 H2] H3] H4] H5] H6].
  apply Qle_bool_iff in H1, H4, H5. apply Qeq_bool_iff in H6.
  repeat split; try assumption.
  - destruct (Qlt_le_dec a 1) as [?|Hn]; [assumption|]. apply Qle_bool_iff in Hn. congruence.
  - destruct (Qlt_le_dec 0 c) as [?|Hn]; [assumption|]. apply Qle_bool_iff in Hn. congruence.
Qed.

Lemma guard_intro a b c tol delta :
  0 <= a -> a < 1 -> 0 < c -> 0 <= tol -> 0 <= delta -> (1 - a) * (1 - a) == 4 * c * b ->
  crit_guard a b c tol delta = true.
Proof.
  intros H1 H2 H3 H4 H5 H6. unfold crit_guard, Qlt_bool.
  rewrite !andb_true_iff, !negb_true_iff. repeat split.
  - apply Qle_bool_iff; assumption.
  - destruct (Qle_bool 1 a) eqn:E; [|reflexivity]. apply Qle_bool_iff in E. lra.
  - destruct (Qle_bool c 0) eqn:E; [|reflexivity]. apply Qle_bool_iff in E. lra.
  - apply Qle_bool_iff; assumption.
  - apply Qle_bool_iff; assumption.
  - apply Qeq_bool_iff; assumption.
Qed.

(** the check accepts every value between an iterate at which the stopping test holds and the
    solution: what fixed_point (x_k itself) and newton (between F(x_k) and xs) return *)
Theorem crit_check_sound a b c tol delta x obs :
  0 <= a -> a < 1 -> 0 < c -> 0 <= tol -> 0 <= delta -> (1 - a) * (1 - a) == 4 * c * b ->
  x <= obs -> obs <= crit_xs a c -> qF a b c x - x <= tol ->
  crit_check ((a, b, c), tol, delta, obs) = 0%nat.
Proof.
  intros Ha Ha1 Hc Ht Hdl Hd Hxo Hox Hstop. unfold crit_check.
  rewrite (guard_intro a b c tol delta Ha Ha1 Hc Ht Hdl Hd). cbn [negb].
  pose proof (crit_stop_bound a b c x tol Hc Hd Hstop) as Hb.
  set (xs := crit_xs a c) in *.
  assert (H1 : Qle_bool obs (xs + delta) = true) by (apply Qle_bool_iff; lra).
  rewrite H1. cbn [andb].
  destruct (Qle_bool (xs - delta - obs) 0) eqn:E; [reflexivity|].
  assert (He : 0 < xs - delta - obs).
  { destruct (Qlt_le_dec 0 (xs - delta - obs)) as [?|Hn]; [assumption|]. apply Qle_bool_iff in Hn. congruence. }
  cbn [orb].
  assert (H2 : Qle_bool (c * (xs - delta - obs) * (xs - delta - obs)) tol = true).
  { apply Qle_bool_iff.
    assert (Hsq : (xs - delta - obs) * (xs - delta - obs) <= (xs - x) * (xs - x)) by (apply sq_le; lra).
    assert (Hc2 : c * ((xs - delta - obs) * (xs - delta - obs)) <= c * ((xs - x) * (xs - x))).
    { rewrite (Qmult_comm c), (Qmult_comm c ((xs - x) * (xs - x))). apply Qmult_le_compat_r; lra. }
    rewrite <- !Qmult_assoc in Hb |- *. lra. }
  rewrite H2. reflexivity.
Qed.

(** the exact fixed-point run is accepted: the iterate at which the loop stops *)
Theorem crit_check_accepts_fixed_point a b c tol k :
  0 <= a -> a < 1 -> 0 < c -> 0 <= tol -> (1 - a) * (1 - a) == 4 * c * b ->
  qiter a b c (S k) - qiter a b c k <= tol ->
  crit_check ((a, b, c), tol, 0, qiter a b c k) = 0%nat.
Proof.
  intros Ha Ha1 Hc Ht Hd Hstop.
  destruct (crit_iter_below a b c k Ha Ha1 Hc Hd) as [Hle _].
  apply (crit_check_sound a b c tol 0 (qiter a b c k) (qiter a b c k)); try assumption; try lra.
Qed.

(** verdict 0 means: the error (beyond the rounding allowance) squared is at most tol / c -- it
    vanishes as tol does -- and verdict 1 is returned for everything else inside the guard *)
Theorem crit_check_accepts_only a b c tol delta obs :
  crit_check ((a, b, c), tol, delta, obs) = 0%nat ->
  obs <= crit_xs a c + delta /\
  (crit_xs a c - delta <= obs \/ c * (crit_xs a c - delta - obs) * (crit_xs a c - delta - obs) <= tol).
Proof.
  unfold crit_check. destruct (crit_guard a b c tol delta); cbn [negb]; [|discriminate].
  destruct (Qle_bool obs (crit_xs a c + delta)) eqn:E1; cbn [andb]; [|discriminate].
  apply Qle_bool_iff in E1. split; [assumption|].
  destruct (Qle_bool (crit_xs a c - delta - obs) 0) eqn:E2; cbn [orb] in *.
  - apply Qle_bool_iff in E2. left. lra.
  - destruct (Qle_bool (c * (crit_xs a c - delta - obs) * (crit_xs a c - delta - obs)) tol) eqn:E3; [|discriminate].
    apply Qle_bool_iff in E3. right. assumption.
Qed.

Theorem crit_check_rejects a b c tol delta obs :
  0 <= a -> a < 1 -> 0 < c -> 0 <= tol -> 0 <= delta -> (1 - a) * (1 - a) == 4 * c * b ->
  obs < crit_xs a c - delta -> tol < c * (crit_xs a c - delta - obs) * (crit_xs a c - delta - obs) ->
  crit_check ((a, b, c), tol, delta, obs) = 1%nat.
Proof.
  intros Ha Ha1 Hc Ht Hdl Hd Hlt Hbig. unfold crit_check.
  rewrite (guard_intro a b c tol delta Ha Ha1 Hc Ht Hdl Hd). cbn [negb].
  destruct (Qle_bool (crit_xs a c - delta - obs) 0) eqn:E2.
  { apply Qle_bool_iff in E2. lra. }
  destruct (Qle_bool (c * (crit_xs a c - delta - obs) * (crit_xs a c - delta - obs)) tol) eqn:E3.
  { apply Qle_bool_iff in E3. lra. }
  cbn [orb]. rewrite andb_false_r. reflexivity.
Qed.

(** Newton's step x + (F(x) - x) / (1 - F'(x)) at the critical system halves the error exactly:
    convergence is only linear here (Esparza-Kiefer-Luttenberger's bound is attained) *)
Theorem crit_newton_halves a b c x : 0 < c -> (1 - a) * (1 - a) == 4 * c * b -> x < crit_xs a c ->
  crit_xs a c - (x + (qF a b c x - x) / (1 - qL a c x)) == (crit_xs a c - x) / 2.
Proof.
  intros Hc Hd Hx. rewrite (crit_residual a b c x Hc Hd).
  assert (HL : 1 - qL a c x == 2 * c * (crit_xs a c - x)).
  { unfold qL, crit_xs. field. lra. }
  rewrite HL. field. split; lra.
Qed.

(** ladders: iterates of an increasing sequence taken at non-decreasing indices pass ladder_mono *)
Lemma qiter_mono_le a b c : 0 <= a -> 0 <= b -> 0 <= c ->
  forall k1 k2, (k1 <= k2)%nat -> qiter a b c k1 <= qiter a b c k2.
Proof.
  intros Ha Hb Hc k1 k2 Hle. induction Hle as [|k2 Hle IH]; [lra|].
  pose proof (qiter_mono a b c Ha Hb Hc k2). lra.
Qed.

(** a smaller tol cannot stop earlier: if k1 is the FIRST index passing the test at tol1 and the
    test at tol2 <= tol1 passes at k2, then k1 <= k2, hence value(k1) <= value(k2) *)
Theorem ladder_step_monotone a b c : 0 <= a -> 0 <= b -> 0 <= c ->
  forall tol1 tol2 k1 k2, tol2 <= tol1 ->
    (forall j, (j < k1)%nat -> ~ qiter a b c (S j) - qiter a b c j <= tol1) ->
    qiter a b c (S k2) - qiter a b c k2 <= tol2 ->
    qiter a b c k1 <= qiter a b c k2.
Proof.
  intros Ha Hb Hc tol1 tol2 k1 k2 Ht Hfirst H2.
  apply qiter_mono_le; try assumption.
  destruct (Nat.le_gt_cases k1 k2) as [?|Hgt]; [assumption|].
  exfalso. apply (Hfirst k2 Hgt). lra.
Qed.

Theorem ladder_check_rejects delta t1 o1 t2 o2 r :
  0 <= delta -> o2 < o1 - delta -> ladder_sorted ((t1, o1) :: (t2, o2) :: r) = true ->
  ladder_check (delta, (t1, o1) :: (t2, o2) :: r) = 2%nat.
Proof.
  intros Hd Hlt Hs. unfold ladder_check.
  assert (H0 : Qle_bool 0 delta = true) by (apply Qle_bool_iff; assumption).
  rewrite H0, Hs. cbn [andb negb ladder_mono].
  destruct (Qle_bool (o1 - delta) o2) eqn:E; [apply Qle_bool_iff in E; lra|reflexivity].
Qed.

Example crit_example : crit_check ((0, 1 # 2, 1 # 2), 1 # 100, 0, 9 # 10) = 0%nat /\
                       crit_check ((0, 1 # 2, 1 # 2), 1 # 1000, 0, 9 # 10) = 1%nat /\
                       ladder_check (0, [(1 # 100, 9 # 10); (1 # 1000, 8 # 10)]) = 2%nat.
Proof. vm_compute. repeat split. Qed.
