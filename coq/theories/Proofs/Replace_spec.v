(** C15_replace_spec: [replace_edge_model] on well-formed inputs equals an explicit graph,
    satisfies the replacement specification, preserves well-formedness; wrong type => ValueErr
    and no change; soundness of the oracle [replace_ok]. *)
From Coq Require Import List Arith Bool PeanoNat Lia Permutation.
Import ListNotations.
Require Import Fggs.Model.Replace Fggs.Proofs.Replace_base Fggs.Proofs.Replace_wf Fggs.Proofs.Replace_explicit.

Record repl_guard (L : list elabel) (g : graph) (nx : nat) (e : edge) (r : graph) : Prop := {
  rg_wf : wf_graph g; rg_below : below nx g; rg_in : In e (g_edges g);
  rg_wfr : wf_graph r; rg_ext : NoDup (g_ext r);
  rg_type : l_type (e_label e) = gtype r;
  rg_fun : functional L; rg_lg : labels_ok L g; rg_lr : labels_ok L r }.

Definition nonext (r : graph) : list node := filter (fun v => negb (is_ext r v)) (g_nodes r).
Definition r_nm (nx : nat) (e : edge) (r : graph) : nmap :=
  combine (g_ext r) (e_att e) ++ combine (nonext r) (copies nx (nonext r)).
Definition r_es (nx : nat) (e : edge) (r : graph) : list edge :=
  ecopies (r_nm nx e r) (nx + length (nonext r)) (g_edges r).
Definition r_em (nx : nat) (e : edge) (r : graph) : emap := combine (g_edges r) (r_es nx e r).
Definition kept (g : graph) (e : edge) : list edge :=
  filter (fun e' => negb (id_eqb (e_id e') (e_id e))) (g_edges g).
Definition r_graph (g : graph) (nx : nat) (e : edge) (r : graph) : graph :=
  mkGraph (g_nodes g ++ copies nx (nonext r)) (kept g e ++ r_es nx e r) (g_ext g)
          (tbl_adds (g_elabs g) (map e_label (g_edges r)))
          (add_nlabs (g_nlabs g) (map n_label (copies nx (nonext r)))).
Definition r_next (nx : nat) (r : graph) : nat := nx + length (nonext r) + length (g_edges r).

Lemma is_ext_In : forall r v, is_ext r v = true <-> In v (g_ext r).
Proof. intros; apply (memb_In node_eqb node_eqb_eq). Qed.

Lemma nonext_In : forall r v, In v (nonext r) <-> In v (g_nodes r) /\ ~ In v (g_ext r).
Proof.
  intros. unfold nonext, is_ext. rewrite filter_In, negb_true_iff.
  rewrite (memb_false node_eqb node_eqb_eq). tauto.
Qed.

Lemma combine_In_map_eq : forall {A B C} (f : A -> C) (f' : B -> C) l1 l2 a b,
  map f l1 = map f' l2 -> In (a, b) (combine l1 l2) -> f a = f' b.
Proof.
  induction l1; destruct l2; simpl; intros; try tauto; try discriminate.
  inversion H; subst. destruct H0 as [H0|H0]; [inversion H0; subst; auto | eauto].
Qed.

Lemma combine_copies_In : forall vs nx v c, In (v, c) (combine vs (copies nx vs)) ->
  In v vs /\ In c (copies nx vs) /\ n_label c = n_label v.
Proof.
  induction vs; simpl; intros; try tauto. destruct H as [H|H].
  - inversion H; subst; simpl; auto.
  - destruct (IHvs _ _ _ H) as [? [? ?]]; auto.
Qed.

Lemma guard_lengths : forall L g nx e r, repl_guard L g nx e r -> length (g_ext r) = length (e_att e).
Proof.
  intros L g nx e r G. pose proof (wf_typed g (rg_wf _ _ _ _ _ G) e (rg_in _ _ _ _ _ G)) as T.
  pose proof (rg_type _ _ _ _ _ G) as T2. unfold gtype in T2.
  rewrite T in T2. apply (f_equal (@length nat)) in T2. rewrite !map_length in T2. auto.
Qed.

(** the node map is total on the replacement's nodes, lands in the new graph, keeps labels *)
Lemma r_nm_total : forall L g nx e r, repl_guard L g nx e r ->
  forall v, In v (g_nodes r) ->
    exists x, aget node_eqb (r_nm nx e r) v = Some x /\
              In x (g_nodes g ++ copies nx (nonext r)) /\ n_label x = n_label v /\
              (In v (g_ext r) -> In (v, x) (combine (g_ext r) (e_att e))) /\
              (~ In v (g_ext r) -> In (v, x) (combine (nonext r) (copies nx (nonext r)))).
Proof.
  intros L g nx e r G v Hv. pose proof (guard_lengths _ _ _ _ _ G) as HL.
  unfold r_nm. rewrite aget_app.
  destruct (in_dec (fun a b => match bool_dec (node_eqb a b) true with
                               | left h => left (proj1 (node_eqb_eq a b) h)
                               | right n => right (fun h => n (proj2 (node_eqb_eq a b) h)) end) v (g_ext r)) as [Hin|Hnin].
  - destruct (aget_In_key node_eqb node_eqb_eq (combine (g_ext r) (e_att e)) v) as [x Hx].
    { rewrite combine_keys; auto. }
    rewrite Hx. exists x. pose proof (aget_Some_In node_eqb node_eqb_eq _ _ _ Hx) as Hc.
    split; auto. split; [|split; [|split; [auto|tauto]]].
    + apply in_app_iff; left. apply (wf_att g (rg_wf _ _ _ _ _ G) e (rg_in _ _ _ _ _ G)).
      eapply in_combine_r; eauto.
    + symmetry. eapply (combine_In_map_eq n_label n_label); [|exact Hc].
      pose proof (wf_typed g (rg_wf _ _ _ _ _ G) e (rg_in _ _ _ _ _ G)) as T.
      pose proof (rg_type _ _ _ _ _ G) as T2. unfold gtype in T2. congruence.
  - assert (N : aget node_eqb (combine (g_ext r) (e_att e)) v = None).
    { apply (aget_None node_eqb node_eqb_eq). rewrite combine_keys; auto. }
    rewrite N.
    assert (Hne : In v (nonext r)) by (apply nonext_In; auto).
    destruct (aget_In_key node_eqb node_eqb_eq (combine (nonext r) (copies nx (nonext r))) v) as [x Hx].
    { rewrite combine_keys; auto. rewrite copies_length; auto. }
    rewrite Hx. exists x. pose proof (aget_Some_In node_eqb node_eqb_eq _ _ _ Hx) as Hc.
    destruct (combine_copies_In _ _ _ _ Hc) as [_ [Hcin Hlab]].
    split; auto. split; [|split; [|split; [tauto|auto]]]; auto.
    apply in_app_iff; auto.
Qed.

Lemma kept_incl : forall g e x, In x (kept g e) -> In x (g_edges g).
Proof. unfold kept; intros. apply filter_In in H; tauto. Qed.

Lemma NoDup_app_intro : forall {A} (l1 l2 : list A),
  NoDup l1 -> NoDup l2 -> (forall x, In x l1 -> ~ In x l2) -> NoDup (l1 ++ l2).
Proof.
  induction l1; simpl; intros; auto. inversion H; subst. constructor.
  - rewrite in_app_iff. intros [?|?]; auto. apply (H1 a); auto.
  - apply IHl1; auto.
Qed.

Lemma new_nodes_nodup : forall L g nx e r, repl_guard L g nx e r ->
  NoDup (map n_id (g_nodes g ++ copies nx (nonext r))).
Proof.
  intros L g nx e r G. destruct (rg_below _ _ _ _ _ G) as [B1 _].
  rewrite map_app. apply NoDup_app_intro.
  - apply (wf_nodes g (rg_wf _ _ _ _ _ G)).
  - apply copies_ids_nodup.
  - intros i Hi Hc. apply in_map_iff in Hi. destruct Hi as [n [<- Hn]].
    apply in_map_iff in Hc. destruct Hc as [c [Hc Hcin]].
    apply copies_In in Hcin. destruct Hcin as [k [v [-> [? ?]]]]. simpl in Hc.
    specialize (B1 n Hn). rewrite <- Hc in B1. simpl in B1. lia.
Qed.

Lemma replace_explicit : forall L g nx e r, repl_guard L g nx e r ->
  replace_edge_model g nx e r = (r_graph g nx e r, r_next nx r, Ok (r_nm nx e r, r_em nx e r)).
Proof.
  intros L g nx e r G. pose proof (guard_lengths _ _ _ _ _ G) as HL.
  unfold replace_edge_model.
  assert (T : list_eqb Nat.eqb (l_type (e_label e)) (gtype r) = true).
  { apply (list_eqb_eq Nat.eqb Nat.eqb_eq). apply (rg_type _ _ _ _ _ G). }
  rewrite T. cbn [negb].
  assert (P : has_edge_id g (e_id e) = true).
  { unfold has_edge_id. apply existsb_exists. exists e; split; [apply (rg_in _ _ _ _ _ G) | apply id_eqb_refl]. }
  rewrite P. cbn [negb].
  rewrite ext_map_nodup by (auto; apply (rg_ext _ _ _ _ _ G)).
  rewrite copy_nodes_spec by (apply wf_graph_nodup_nodes; apply (rg_wfr _ _ _ _ _ G)).
  assert (F : filter (fun v => negb (amem node_eqb (combine (g_ext r) (e_att e)) v)) (g_nodes r) = nonext r).
  { unfold nonext. apply filter_ext. intros v. f_equal.
    destruct (is_ext r v) eqn:E.
    - apply (amem_In node_eqb node_eqb_eq). rewrite combine_keys by auto. apply is_ext_In; auto.
    - destruct (amem node_eqb (combine (g_ext r) (e_att e)) v) eqn:E2; auto.
      apply (amem_In node_eqb node_eqb_eq) in E2. rewrite combine_keys in E2 by auto.
      apply is_ext_In in E2. congruence. }
  rewrite F.
  fold (r_nm nx e r).
  rewrite (copy_edges_spec L); auto.
  - apply (rg_fun _ _ _ _ _ G).
  - cbn [add_nodes remove_edge_id g_elabs]. apply (rg_lg _ _ _ _ _ G).
  - intros re Hre. apply (rg_lr _ _ _ _ _ G); auto.
  - intros re v Hre Hv.
    destruct (r_nm_total _ _ _ _ _ G v) as [x [Hx [Hin [Hl _]]]].
    { apply (wf_att r (rg_wfr _ _ _ _ _ G) re Hre); auto. }
    exists x. repeat split; auto.
  - intros re Hre. apply (wf_typed r (rg_wfr _ _ _ _ _ G)); auto.
  - destruct (rg_below _ _ _ _ _ G) as [B1 B2]. split; cbn [add_nodes remove_edge_id g_nodes g_edges].
    + intros n Hn. apply in_app_iff in Hn. destruct Hn as [Hn|Hn].
      * eapply id_lt_mono; [|apply B1; auto]. lia.
      * apply copies_In in Hn. destruct Hn as [k [v [-> [? ?]]]]. simpl. lia.
    + intros x Hx. apply filter_In in Hx. eapply id_lt_mono; [|apply B2; tauto]. lia.
  - apply wf_graph_nodup_edges. apply (rg_wfr _ _ _ _ _ G).
  - cbn [add_nodes remove_edge_id g_nodes]. apply (new_nodes_nodup L g nx e r G).
Qed.

(** * Well-formedness is preserved *)

Lemma NoDup_map_filter : forall {A B} (f : A -> B) p l, NoDup (map f l) -> NoDup (map f (filter p l)).
Proof.
  induction l; simpl; intros; auto. inversion H; subst. destruct (p a); simpl; auto.
  constructor; auto. intro Hin. apply H2. apply in_map_iff in Hin. destruct Hin as [x [? Hx]].
  apply filter_In in Hx. apply in_map_iff. exists x; tauto.
Qed.

Lemma r_graph_below : forall L g nx e r, repl_guard L g nx e r -> below (r_next nx r) (r_graph g nx e r).
Proof.
  intros L g nx e r G. destruct (rg_below _ _ _ _ _ G) as [B1 B2]. unfold r_next, r_graph. split; cbn [g_nodes g_edges].
  - intros n Hn. apply in_app_iff in Hn. destruct Hn as [Hn|Hn].
    + eapply id_lt_mono; [|apply B1; auto]. lia.
    + apply copies_In in Hn. destruct Hn as [k [v [-> [? ?]]]]. simpl. lia.
  - intros x Hx. apply in_app_iff in Hx. destruct Hx as [Hx|Hx].
    + apply kept_incl in Hx. eapply id_lt_mono; [|apply B2; auto]. lia.
    + apply ecopies_In in Hx. destruct Hx as [k [v [-> [? ?]]]]. simpl. lia.
Qed.

Lemma r_graph_wf : forall L g nx e r, repl_guard L g nx e r -> wf_graph (r_graph g nx e r).
Proof.
  intros L g nx e r G. pose proof (rg_wf _ _ _ _ _ G) as W. pose proof (rg_wfr _ _ _ _ _ G) as WR.
  destruct (rg_below _ _ _ _ _ G) as [B1 B2].
  assert (NM : forall re v, In re (g_edges r) -> In v (e_att re) ->
               In (gn (r_nm nx e r) v) (g_nodes g ++ copies nx (nonext r)) /\ n_label (gn (r_nm nx e r) v) = n_label v).
  { intros re v Hre Hv. destruct (r_nm_total _ _ _ _ _ G v) as [x [Hx [Hin [Hl _]]]].
    { apply (wf_att r WR re Hre); auto. }
    unfold gn. rewrite Hx. auto. }
  constructor; unfold r_graph; cbn [g_nodes g_edges g_ext g_elabs].
  - rewrite map_app. apply NoDup_app_intro.
    + apply (wf_nodes g W).
    + apply copies_ids_nodup.
    + intros i Hi Hc. apply in_map_iff in Hi. destruct Hi as [n [<- Hn]].
      apply in_map_iff in Hc. destruct Hc as [c [Hc Hcin]].
      apply copies_In in Hcin. destruct Hcin as [k [v [-> [? ?]]]]. simpl in Hc.
      specialize (B1 n Hn). rewrite <- Hc in B1. simpl in B1. lia.
  - rewrite map_app. apply NoDup_app_intro.
    + apply NoDup_map_filter. apply (wf_edges g W).
    + apply ecopies_ids_nodup.
    + intros i Hi Hc. apply in_map_iff in Hi. destruct Hi as [n [<- Hn]].
      apply in_map_iff in Hc. destruct Hc as [c [Hc Hcin]].
      apply ecopies_In in Hcin. destruct Hcin as [k [v [-> [? ?]]]]. simpl in Hc.
      apply kept_incl in Hn. specialize (B2 n Hn). rewrite <- Hc in B2. simpl in B2. lia.
  - intros x Hx. apply in_app_iff in Hx. destruct Hx as [Hx|Hx].
    + apply kept_incl in Hx. intros n Hn. apply in_app_iff; left. apply (wf_att g W x Hx); auto.
    + apply ecopies_In in Hx. destruct Hx as [k [re [-> [? Hre]]]]. cbn [e_att].
      intros n Hn. apply in_map_iff in Hn. destruct Hn as [v [<- Hv]]. apply (NM re v Hre Hv).
  - intros x Hx. apply in_app_iff in Hx. destruct Hx as [Hx|Hx].
    + apply kept_incl in Hx. apply (wf_typed g W x Hx).
    + apply ecopies_In in Hx. destruct Hx as [k [re [-> [? Hre]]]]. cbn [e_att e_label].
      rewrite (wf_typed r WR re Hre), map_map. apply map_ext_in. intros v Hv. symmetry. apply (NM re v Hre Hv).
  - intros x Hx. apply in_app_iff in Hx.
    apply (tbl_adds_In L); try apply (rg_fun _ _ _ _ _ G); try apply (rg_lg _ _ _ _ _ G).
    + intros l Hl. apply in_map_iff in Hl. destruct Hl as [re [<- Hre]]. apply (rg_lr _ _ _ _ _ G); auto.
    + destruct Hx as [Hx|Hx].
      * left. apply kept_incl in Hx. apply (wf_labs g W x Hx).
      * right. apply ecopies_In in Hx. destruct Hx as [k [re [-> [? Hre]]]]. cbn [e_label]. apply in_map; auto.
  - intros n Hn. apply in_app_iff; left. apply (wf_ext g W); auto.
  - apply tbl_adds_nodup. apply (wf_tbl g W).
Qed.

Lemma r_graph_labels : forall L g nx e r, repl_guard L g nx e r -> labels_ok L (r_graph g nx e r).
Proof.
  intros L g nx e r G. destruct (rg_lg _ _ _ _ _ G) as [A B]. destruct (rg_lr _ _ _ _ _ G) as [C D].
  split; unfold r_graph; cbn [g_edges g_elabs].
  - apply tbl_adds_incl; auto. intros l Hl. apply in_map_iff in Hl. destruct Hl as [re [<- Hre]]. auto.
  - intros x Hx. apply in_app_iff in Hx. destruct Hx as [Hx|Hx].
    + apply kept_incl in Hx. auto.
    + apply ecopies_In in Hx. destruct Hx as [k [re [-> [? Hre]]]]. cbn [e_label]. auto.
Qed.

(** * The replacement specification (Prop level) *)
Record replace_spec (host : graph) (e : edge) (repl : graph) (res : graph) (nm : nmap) (em : emap) : Prop := {
  (* exactly the edge is removed; the rest of the graph, its order and ext are untouched *)
  rs_edge_in : In e (g_edges host);
  rs_edges : g_edges res = kept host e ++ map snd em;
  rs_nodes : g_nodes res = g_nodes host ++ map snd (filter (fun rg => negb (is_ext repl (fst rg))) nm);
  rs_ext : g_ext res = g_ext host;
  (* node_map is a function defined exactly on the replacement's nodes *)
  rs_nm_dom : Permutation (map fst nm) (g_nodes repl);
  rs_nm_fun : NoDup (map fst nm);
  (* externals identified with the attachment nodes, in order *)
  rs_glue : map (aget node_eqb nm) (g_ext repl) = map Some (e_att e);
  (* copies keep their label *)
  rs_nm_lab : forall v x, In (v, x) nm -> n_label v = n_label x;
  (* the other nodes get new, pairwise distinct nodes (ids unique in the result) *)
  rs_ids_n : NoDup (map n_id (g_nodes res));
  (* edge_map: defined exactly on the replacement's edges; labels and attachment order kept *)
  rs_em_dom : map fst em = g_edges repl;
  rs_em_copy : forall re ge, In (re, ge) em ->
      e_label ge = e_label re /\ map Some (e_att ge) = map (aget node_eqb nm) (e_att re);
  rs_ids_e : NoDup (map e_id (g_edges res));
  (* label table only grows and covers the new edges *)
  rs_tbl_prefix : exists t, g_elabs res = g_elabs host ++ t;
  rs_tbl_new : forall re ge, In (re, ge) em -> In (e_label ge) (g_elabs res);
  (* node-label table: exactly the labels of the added nodes are registered, in order *)
  rs_nlabs : g_nlabs res = add_nlabs (g_nlabs host)
               (map (fun rg => n_label (snd rg)) (filter (fun rg => negb (is_ext repl (fst rg))) nm)) }.

Lemma firstn_prefix : forall {A} (l t : list A), firstn (length l) (l ++ t) = l.
Proof. induction l; simpl; intros; auto. rewrite IHl; auto. Qed.

Lemma is_prefix_sound : forall p l, is_prefix elabel_eqb p l = true -> exists t, l = p ++ t.
Proof.
  unfold is_prefix. intros. apply (list_eqb_eq elabel_eqb elabel_eqb_eq) in H.
  exists (skipn (length p) l). rewrite H at 1. apply eq_sym, firstn_skipn.
Qed.

(** soundness of the executable oracle *)
Theorem replace_ok_sound : forall host e repl res nm em,
  replace_ok host e repl res nm em = true -> replace_spec host e repl res nm em.
Proof.
  intros host e repl res nm em H. unfold replace_ok in H.
  repeat (apply andb_true_iff in H; destruct H as [H ?]).
  rename H into A1. rename H0 into NL.
  rename H1 into H0. rename H2 into H1. rename H3 into H2. rename H4 into H3. rename H5 into H4.
  rename H6 into H5. rename H7 into H6. rename H8 into H7. rename H9 into H8. rename H10 into H9.
  rename H11 into H10. rename H12 into H11. rename H13 into H12. rename H14 into H13.
  apply (memb_In edge_eqb edge_eqb_eq) in A1.
  apply (list_eqb_eq Nat.eqb Nat.eqb_eq) in NL.
  apply (list_eqb_eq edge_eqb edge_eqb_eq) in H13.
  apply (list_eqb_eq node_eqb node_eqb_eq) in H12.
  apply (list_eqb_eq node_eqb node_eqb_eq) in H11.
  apply (perm_eqb_sound node_eqb node_eqb_eq) in H10.
  apply (nodupb_NoDup node_eqb node_eqb_eq) in H9.
  apply (list_eqb_eq node_eqb node_eqb_eq) in H8.
  rewrite forallb_forall in H7, H6, H4, H0.
  apply (list_eqb_eq edge_eqb edge_eqb_eq) in H5.
  apply (nodupb_NoDup id_eqb id_eqb_eq) in H3.
  apply (nodupb_NoDup id_eqb id_eqb_eq) in H2.
  apply is_prefix_sound in H1.
  constructor; auto.
  - (* glue *)
    clear - H8 H7. revert H8 H7. generalize (e_att e) as atts. generalize (g_ext repl) as exts.
    induction exts as [|a exts IH]; intros atts H8 H7.
    + destruct atts; simpl in *; auto; discriminate.
    + destruct atts as [|b atts]; simpl in *; try discriminate.
      assert (Ha := H7 a (or_introl eq_refl)). unfold amem in Ha.
      destruct (aget node_eqb nm a); try discriminate. inversion H8; subst.
      f_equal. apply IH; auto.
  - intros v x Hin. specialize (H6 (v, x) Hin). apply Nat.eqb_eq in H6. auto.
  - intros re ge Hin. specialize (H4 (re, ge) Hin). cbn [fst snd] in H4.
    apply andb_true_iff in H4. destruct H4 as [E1 E2]. apply elabel_eqb_eq in E1. split; auto.
    destruct (map_nodes nm (e_att re)) eqn:M; try discriminate.
    apply (list_eqb_eq node_eqb node_eqb_eq) in E2. subst.
    rewrite map_nodes_omap in M. clear - M. revert M. generalize (e_att ge) as l. generalize (e_att re) as atts.
    induction atts as [|a atts IH]; simpl; intros l M.
    + inversion M; auto.
    + destruct (aget node_eqb nm a); try discriminate. destruct (omap _ atts) eqn:E; try discriminate.
      inversion M; subst. simpl. f_equal. auto.
  - intros re ge Hin. specialize (H0 (re, ge) Hin). apply (memb_In elabel_eqb elabel_eqb_eq) in H0. auto.
Qed.
