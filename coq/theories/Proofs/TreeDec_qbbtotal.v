(** The model of [quickbb] returns for EVERY simple undirected graph: the fuel suffices and the
    [assert f == g] at the leaves of the branch and bound cannot fail.
    The assert could only fail when the remaining graph is a single edge, everything eliminated
    before was isolated (g = 0) and the incumbent is >= 2; but then the whole graph has maximum
    degree <= 1, so min_fill (the initial incumbent) is <= 1. *)
From Coq Require Import List Arith Bool PeanoNat Lia Permutation Setoid Morphisms.
Import ListNotations.
Require Import Fggs.Model.TreeDec Fggs.Proofs.TreeDec_graph Fggs.Proofs.TreeDec_tdok
               Fggs.Proofs.TreeDec_elim Fggs.Proofs.TreeDec_qbb Fggs.Proofs.TreeDec_tw
               Fggs.Proofs.TreeDec_complete Fggs.Proofs.TreeDec_lower Fggs.Proofs.TreeDec_minor.

(** * graphs of maximum degree <= 1 *)
Lemma deg_eliminate_isolated g v x : wf_graph g -> deg g v = 0 -> x <> v ->
  deg (eliminate_node g v) x = deg g x.
Proof.
  intros W D Hx. unfold deg in *.
  assert (Nv : nbrs g v = []) by (destruct (nbrs g v); [auto|discriminate]).
  assert (E : forall y, In y (nbrs (eliminate_node g v) x) <-> In y (nbrs g x)).
  { intro y. rewrite In_nbrs_eliminate by auto. rewrite Nv. cbn [In]. split; [tauto|].
    intro H. split; auto. split; [|auto]. intro; subst y.
    apply (wf_sym g W) in H. rewrite Nv in H. destruct H. }
  apply Nat.le_antisymm; apply NoDup_incl_length.
  - apply (wf_eliminate g v W). - intros y Hy. now apply E.
  - apply W. - intros y Hy. now apply E.
Qed.

Lemma maxdeg1_back order : forall g, wf_graph g -> prefix_ok g order -> elim_width g order = 0 ->
  (forall x, deg (elim_seq g order) x <= 1) -> forall x, deg g x <= 1.
Proof.
  induction order as [|v r IH]; intros g W P E H x.
  - exact (H x).
  - cbn [prefix_ok elim_width elim_seq] in *. destruct P as [Hv P].
    assert (D : deg g v = 0) by lia.
    assert (E' : elim_width (eliminate_node g v) r = 0) by lia.
    destruct (Nat.eq_dec x v) as [->|Hx]; [lia|].
    rewrite <- (deg_eliminate_isolated g v x W D Hx).
    apply (IH _ (wf_eliminate g v W) P E' H).
Qed.

Lemma maxdeg1_eliminate g v : wf_graph g -> (forall x, deg g x <= 1) ->
  forall x, deg (eliminate_node g v) x <= 1.
Proof.
  intros W H x. specialize (H x) as Hx. unfold deg in *.
  assert (I : incl (nbrs (eliminate_node g v) x) (nbrs g x)).
  { intros y Hy. apply In_nbrs_eliminate in Hy; auto. destruct Hy as [_ [_ [Hy|[Hne [H1 H2]]]]]; auto.
    exfalso. specialize (H v). unfold deg in H.
    pose proof (wf_nodup g W v) as Nd.
    destruct (nbrs g v) as [|a [|b l]]; cbn in *; lia. }
  apply NoDup_incl_length in I; [lia|]. apply (wf_eliminate g v W).
Qed.

Lemma maxdeg1_width order : forall g, wf_graph g -> (forall x, deg g x <= 1) -> elim_width g order <= 1.
Proof.
  induction order as [|v r IH]; intros g W H; cbn [elim_width]; [lia|].
  specialize (IH _ (wf_eliminate g v W) (maxdeg1_eliminate g v W H)). specialize (H v). lia.
Qed.

(** * minor_min_width is at least the minimum degree *)
Lemma mmw_loop_mono fuel : forall g d r, mmw_loop fuel g d = Some r -> d <= r.
Proof.
  induction fuel as [|fuel IH]; intros g d r H; cbn [mmw_loop] in H; cbv zeta in H.
  - destruct (argmin (deg g) (gverts g)) as [v|]; [|inversion H; subst; lia].
    destruct (argmin _ (nbrs g v)) as [u|]; [discriminate|inversion H; subst; lia].
  - destruct (argmin (deg g) (gverts g)) as [v|]; [|inversion H; subst; lia].
    destruct (argmin _ (nbrs g v)) as [u|]; [|inversion H; subst; lia].
    apply IH in H. lia.
Qed.
Lemma mmw_loop_ge_min_degree fuel g d l : g <> [] -> (forall x, In x (gverts g) -> 1 <= deg g x) ->
  mmw_loop fuel g d = Some l -> 1 <= l.
Proof.
  intros Hne Hd H. destruct fuel as [|fuel]; cbn [mmw_loop] in H; cbv zeta in H.
  - destruct (argmin (deg g) (gverts g)) as [v|] eqn:A.
    + pose proof (Hd v (argmin_In _ _ _ A)) as D.
      destruct (argmin _ (nbrs g v)) as [u|]; [discriminate|inversion H; subst; lia].
    + apply argmin_None in A. destruct g; [congruence|cbn in A; discriminate].
  - destruct (argmin (deg g) (gverts g)) as [v|] eqn:A.
    + pose proof (Hd v (argmin_In _ _ _ A)) as D.
      destruct (argmin _ (nbrs g v)) as [u|]; [apply mmw_loop_mono in H; lia|inversion H; subst; lia].
    + apply argmin_None in A. destruct g; [congruence|cbn in A; discriminate].
Qed.
Lemma mmw_ge_min_degree g l : g <> [] -> (forall x, In x (gverts g) -> 1 <= deg g x) ->
  minor_min_width g = Some l -> 1 <= l.
Proof. unfold minor_min_width. apply mmw_loop_ge_min_degree. Qed.

(** * bb never fails *)
Section BB.
  Variable g0 : graph.
  Hypothesis W0 : wf_graph g0.
  Variable d0 : nat.
  Hypothesis HD : (forall x, deg g0 x <= 1) -> d0 <= 1.

  Lemma mmw_small g : wf_graph g -> length g < 2 -> minor_min_width g = Some 0.
  Proof.
    intros W L. destruct (minor_min_width_lower_bound g W) as [l [H1 H2]].
    pose proof (tw_perm_le g (gverts g) (Permutation_refl _)).
    pose proof (elim_width_bound (gverts g) g W (Permutation_refl _)).
    replace l with 0 in H1 by lia. exact H1.
  Qed.

  Lemma bb_total fuel : forall lb g order sep f gg best,
    prefix_ok g0 order -> g = elim_seq g0 order -> gg = elim_width g0 order ->
    length g < fuel ->
    (exists l, minor_min_width g = Some l /\ l <= f) ->
    f < fst best -> fst best <= d0 ->
    (length g < 2 -> f = gg) ->
    exists r, bb fuel lb g order sep f gg best = Some r /\ fst r <= fst best.
  Proof.
    induction fuel as [|fuel IH]; intros lb g order sep f gg best P Eg Egg Lf [l [Hl Hlf]] Hfb Hbd Hleaf; [lia|].
    assert (W : wf_graph g) by (subst g; now apply wf_elim_seq).
    cbn [bb]. destruct (length g <? 2) eqn:L2.
    - apply Nat.ltb_lt in L2. apply Nat.ltb_lt in Hfb. rewrite Hfb. apply Nat.ltb_lt in Hfb.
      rewrite (Hleaf L2), Nat.eqb_refl. eexists. split; [reflexivity|]. cbn [fst]. rewrite <- (Hleaf L2). lia.
    - apply Nat.ltb_ge in L2.
      remember (candidates g lb sep (gverts g) []) as vs eqn:Evs.
      assert (Hvs : incl vs (gverts g)).
      { subst vs. apply candidates_incl; [intros x []|apply incl_refl]. }
      clear Evs.
      assert (Fold : forall vs, incl vs (gverts g) -> forall b, fst b <= fst best ->
                exists r, fold_left (fun (ob : option (nat * list nat)) v =>
                   match ob with
                   | None => None
                   | Some best =>
                     let g1 := eliminate_node g v in
                     let gg1 := Nat.max gg (deg g v) in
                     match minor_min_width g1 with
                     | None => None
                     | Some l1 =>
                       let f1 := Nat.max gg l1 in
                       if f1 <? fst best then bb fuel lb g1 (order ++ [v]) (nbrs g v) f1 gg1 best
                       else Some best
                     end
                   end) vs (Some b) = Some r /\ fst r <= fst b).
      { clear Hvs vs. induction vs as [|v vs IHvs]; intros Hvs b Hb; cbn [fold_left].
        - eexists. split; [reflexivity|lia].
        - assert (Hv : In v (gverts g)) by (apply Hvs; cbn; auto).
          assert (Hvs' : incl vs (gverts g)) by (intros x Hx; apply Hvs; cbn; auto).
          cbv zeta.
          pose proof (wf_eliminate g v W) as W1.
          pose proof (length_eliminate g v (wf_keys g W) Hv) as L1.
          destruct (minor_min_width_lower_bound _ W1) as [l1 [Hl1 _]]. rewrite Hl1.
          destruct (Nat.max gg l1 <? fst b) eqn:C.
          + apply Nat.ltb_lt in C.
            destruct (IH lb (eliminate_node g v) (order ++ [v]) (nbrs g v) (Nat.max gg l1) (Nat.max gg (deg g v)) b)
              as [r1 [Hr1 Hr1b]].
            * apply prefix_ok_app; auto. now rewrite <- Eg.
            * rewrite elim_seq_app, <- Eg. reflexivity.
            * rewrite elim_width_app, <- Eg, <- Egg. cbn [elim_width]. lia.
            * lia.
            * exists l1. split; auto. lia.
            * exact C.
            * lia.
            * (* the leaf assertion *)
              intro Ls. rewrite (mmw_small _ W1 Ls) in Hl1. injection Hl1 as El1. subst l1.
              assert (Lg : length g = 2) by lia.
              pose proof (deg_lt_length g v W Hv) as Dv.
              destruct (Nat.eq_dec (deg g v) 0) as [D0|D1]; [lia|].
              destruct (Nat.eq_dec gg 0) as [G0|G1]; [|lia].
              exfalso.
              (* g is a single edge and everything before was isolated *)
              assert (Hall : forall x, In x (gverts g) -> 1 <= deg g x).
              { intros x Hx. destruct (Nat.eq_dec x v) as [->|Hxv]; [lia|].
                assert (Hn : exists y, In y (nbrs g v)).
                { unfold deg in D1. destruct (nbrs g v) as [|y ys]; [cbn in D1; lia|]. exists y. cbn; auto. }
                destruct Hn as [y Hy].
                assert (y = x).
                { pose proof (wf_closed g W v y Hy) as Hyk.
                  assert (Hyv : y <> v) by (intro Eyv; subst y; now apply (wf_irrefl g W v)).
                  pose proof (wf_keys g W) as Nd. unfold gverts in *.
                  destruct g as [|p1 [|p2 [|p3 g']]]; cbn in Lg; try lia. cbn in Hx, Hyk, Hv.
                  destruct Hx as [Hx|[Hx|[]]]; destruct Hyk as [Hyk|[Hyk|[]]]; destruct Hv as [Hv|[Hv|[]]]; congruence. }
                subst y. apply (wf_sym g W) in Hy. unfold deg. destruct (nbrs g x); [destruct Hy|cbn; lia]. }
              assert (Hg : g <> []) by (intro Eg0; rewrite Eg0 in Lg; cbn in Lg; lia).
              pose proof (mmw_ge_min_degree g l Hg Hall Hl) as Hl1'.
              assert (Hdeg : forall x, deg g x <= 1).
              { intro x. destruct (in_dec Nat.eq_dec x (gverts g)) as [Hx|Hx].
                - pose proof (deg_lt_length g x W Hx). lia.
                - unfold deg. rewrite nbrs_not_key; auto. }
              assert (H0 : forall x, deg g0 x <= 1).
              { apply (maxdeg1_back order g0 W0 P); [lia|]. now rewrite <- Eg. }
              specialize (HD H0). lia.
            * rewrite Hr1. destruct (IHvs Hvs' r1) as [r [Hr Hrb]]; [lia|].
              exists r. split; auto. lia.
          + destruct (IHvs Hvs' b Hb) as [r [Hr Hrb]]. exists r. auto. }
      destruct (Fold vs Hvs best (le_n _)) as [r [Hr Hrb]]. exists r. split; [exact Hr|exact Hrb].
  Qed.
End BB.

Theorem quickbb_total g : wf_graph g -> exists w order, quickbb g = Some (w, order).
Proof.
  intro W. unfold quickbb.
  pose proof (wf_normalize g W) as Wn. set (gn := normalize g) in *.
  destruct (min_fill_reports_width gn (wf_keys _ Wn)) as [d [o [Em [P D]]]]. rewrite Em.
  destruct (minor_min_width_lower_bound gn Wn) as [lb [Hlb _]]. rewrite Hlb. cbn [fst].
  destruct (lb <? d) eqn:C; [|eauto].
  apply Nat.ltb_lt in C.
  assert (HDp : (forall x, deg gn x <= 1) -> d <= 1) by (intro H; rewrite D; now apply maxdeg1_width).
  destruct (bb_total gn Wn d HDp (S (length gn)) lb gn [] [] lb 0 (d, o)) as [[w ord] [Hr _]].
  - exact I.
  - reflexivity.
  - reflexivity.
  - lia.
  - exists lb. split; auto.
  - exact C.
  - cbn [fst]. lia.
  - intro L. pose proof (elim_width_bound o gn Wn P). lia.
  - rewrite Hr. eauto.
Qed.

(** quickbb, every graph: returns, and its tree decomposition is valid with the reported width *)
Theorem quickbb_valid g : wf_graph g ->
  exists w order t, quickbb g = Some (w, order) /\ Permutation order (gverts g) /\ w = elim_width g order /\
                    tree_decomposition 1 g = Some t /\ valid_td g t /\ width t = w /\ tw_perm g <= w.
Proof.
  intro W. destruct (quickbb_total g W) as [w [o H]].
  destruct (quickbb_valid_partial g w o W H) as [P [D [t [T [V Wd]]]]].
  exists w, o, t. repeat (split; auto). subst w. now apply tw_perm_le.
Qed.
