(** Composition ("glue") theorems for C01: the generic theorems of the sum-product development
    (premises: the semiring law record [sr_ring o], and premises about the component order)
    composed with
      - the law records proved for the three carriers in Proofs/SemiringLaws.v (C08), and
      - the full Tarjan theorem of C19 through Proofs/Instances_scc.v
        ([closed (nt_graph G) = true] for every grammar),
    so that the end-to-end statements carry no law premise and no premise about the order:
    for every well-formed grammar the order is the one computed by the Tarjan model, and if it
    passes [nonrecursive_order] (iff the grammar has a rank function) every entry of
    [sum_products_nonrec] is the sum over all derivation trees.  This is exactly what
    [sp_check] evaluates. *)
From Coq Require Import List Arith Bool PeanoNat Lia.
Import ListNotations.
Require Import Fggs.Model.Semiring Fggs.Model.SCC Fggs.Model.SumProduct Fggs.Model.SumProductCheck
               Fggs.Model.EReal Fggs.Model.Trop.
Require Import Fggs.Proofs.BigSum Fggs.Proofs.SP_trees Fggs.Proofs.SP_nonrec Fggs.Proofs.SP_driver
               Fggs.Proofs.SP_main Fggs.Proofs.SP_check_sound Fggs.Proofs.SP_scc_glue
               Fggs.Proofs.SP_examples Fggs.Proofs.Instances_scc.
Require Fggs.Proofs.SemiringLaws.

Section Generic.
Context {R : Type} (o : sr_ops R).
Hypothesis Hr : sr_ring o.

(** the five-fold conclusion of the C01 end-to-end theorems *)
Definition sp_entry_correct (G : grammar) (w : tmt (R:=R)) (order : list (list nat)) (X : nat) (xi : list nat) : Prop :=
  let N := length (nonterminals G) in
  let v := env_of o (sum_products_nonrec o G w order) X xi in
  v = env_of o (Ztab o G (env_of o w) N) X xi
  /\ v = Zk o G (env_of o w) N X xi
  /\ v = sumS o (enum_trees G N X xi) (weight o G (env_of o w))
  /\ NoDup (enum_trees G N X xi)
  /\ (forall t, In t (enum_trees G N X xi) <-> wf_dtree G X xi t).

(** C01 end to end, no premise about the order: Tarjan's algorithm as coded succeeds on the
    nonterminal graph, its output passes the verified oracle, it passes [nonrecursive_order]
    iff the grammar is non-recursive (has a rank function), and then every entry of the
    code-shaped driver run with THAT order is the sum over all derivation trees *)
Theorem sum_products_end_to_end G w :
  wf_grammar G = true -> (forall l, tget w l <> None -> is_term G l = true) ->
  exists order,
    scc (nt_graph G) = Some order /\ scc_ok (nt_graph G) order = true
    /\ ((exists rank, ranked G rank) <-> nonrecursive_order G order = true)
    /\ (nonrecursive_order G order = true ->
        forall X xi, is_term G X = false -> In xi (all_assts (lshape G X)) ->
          sp_entry_correct G w order X xi).
Proof.
  intros Hwf Hkeys. destruct (scc_nt_graph_ok G) as (order & Hs & Hok).
  exists order. split; trivial. split; trivial. split.
  - split.
    + intros [rank Hrk]. exact (ranked_scc_nonrecursive G rank order Hrk Hok).
    + intros Hnr. eexists. exact (scc_nonrecursive_ranked G order Hok Hnr).
  - intros Hnr X xi HX Hxi. exact (sum_products_scc_correct o Hr G w order Hwf Hkeys Hok Hnr X xi HX Hxi).
Qed.

(** the same, for a grammar given with a rank function (Prop-level non-recursiveness) *)
Corollary sum_products_end_to_end_ranked G w rank :
  wf_grammar G = true -> (forall l, tget w l <> None -> is_term G l = true) -> ranked G rank ->
  exists order,
    scc (nt_graph G) = Some order /\ nonrecursive_order G order = true
    /\ forall X xi, is_term G X = false -> In xi (all_assts (lshape G X)) ->
         sp_entry_correct G w order X xi.
Proof.
  intros Hwf Hkeys Hrk. destruct (sum_products_end_to_end G w Hwf Hkeys) as (order & Hs & _ & Hiff & H).
  exists order. split; trivial.
  assert (Hnr : nonrecursive_order G order = true) by (apply Hiff; now exists rank).
  split; trivial. now apply H.
Qed.

(** what guards 2 and 3 of [sp_check] establish when the verdict is 0 *)
Lemma sp_check_zero_guards {W B} (of_wire : W -> R) (within : R -> B -> bool) (eqb : R -> R -> bool) gw ws obs :
  sp_check o of_wire within eqb (gw, ws, obs) = 0 ->
  let G := grammar_of_w gw in
  wf_grammar G = true
  /\ exists order, scc (nt_graph G) = Some order /\ nonrecursive_order G order = true.
Proof.
  unfold sp_check. cbn zeta. set (G := grammar_of_w gw).
  destruct (wf_grammar G); [|discriminate]. cbn [negb].
  destruct (scc (nt_graph G)) as [order|]; [|discriminate].
  destruct (nonrecursive_order G order) eqn:Hnr; [|discriminate]. intros _.
  split; trivial. now exists order.
Qed.

(** soundness of the oracle of the correspondence check, at full strength: verdict 0 means that
    the grammar is well-formed and non-recursive, and every observed cell of every nonterminal
    is accepted by [within] against the sum over ALL derivation trees (each listed once) *)
Theorem sp_check_sound_trees {W B} (of_wire : W -> R) (within : R -> B -> bool) (eqb : R -> R -> bool) gw ws obs :
  sp_check o of_wire within eqb (gw, ws, obs) = 0 ->
  let G := grammar_of_w gw in
  let Wt := env_of o (weights_tmt of_wire G ws) in
  let N := length (nonterminals G) in
  wf_grammar G = true
  /\ (exists rank, ranked G rank)
  /\ forall X, is_term G X = false ->
       (exists ob, obs_get obs X = Some ob
                   /\ Forall2 (fun xi b => within (sumS o (enum_trees G N X xi) (weight o G Wt)) b = true)
                              (all_assts (lshape G X)) ob)
       /\ forall xi, NoDup (enum_trees G N X xi)
                     /\ forall t, In t (enum_trees G N X xi) <-> wf_dtree G X xi t.
Proof.
  intros H G Wt N.
  destruct (sp_check_zero_guards of_wire within eqb gw ws obs H) as (Hwf & order & Hs & Hnr).
  fold G in Hwf, Hs, Hnr.
  pose proof (scc_nonrecursive_ranked G order (scc_nt_graph_some G order Hs) Hnr) as Hrk.
  destruct (sp_check_sound o of_wire within eqb gw ws obs H) as [_ Hcells].
  fold G in Hcells. fold Wt in Hcells. fold N in Hcells.
  split; trivial. split; [eexists; exact Hrk|].
  intros X HX. split.
  - destruct (Hcells X HX) as (ob & Hob & Hall). exists ob. split; trivial.
    clear -Hall Hr Hrk HX. induction Hall as [|xi b l ob Hxb _ IH]; constructor; trivial.
    destruct (Zk_nonrec_all_trees o Hr G Wt _ Hrk N X xi HX (le_n _)) as (E & _).
    fold N in E. now rewrite <- E.
  - intros xi. destruct (Zk_nonrec_all_trees o Hr G Wt _ Hrk N X xi HX (le_n _)) as (_ & Hnd & Hall & _).
    split; trivial.
Qed.
End Generic.

(** * the side condition on the weight table *)
(** [sum_products_nonrec] looks a label up by its FIRST entry, so the theorems above ask that
    the keys of the weight table be terminals.  For the wire format of the checks this is the
    boolean test below; the harness lists exactly the terminals that carry a weight
    ([weights_wire]: the keys of spec["weights"]), so it holds by construction there, and a
    violation would surface as verdict 20 of [sp_check], never silently (see notes/GLUE.md). *)
Lemma weights_tmt_keys {R W} (of_wire : W -> R) G (ws : list (nat * list W)) :
  forallb (fun p => is_term G (fst p)) ws = true ->
  forall l, tget (weights_tmt of_wire G ws) l <> None -> is_term G l = true.
Proof.
  induction ws as [|[a vs] ws IH]; intros Hall l Hl; cbn [weights_tmt map tget fst snd] in Hl; [now destruct Hl|].
  cbn [forallb fst] in Hall. apply andb_true_iff in Hall. destruct Hall as [Ha Hall].
  destruct (Nat.eqb a l) eqn:E.
  - apply Nat.eqb_eq in E. now subst l.
  - now apply IH.
Qed.

Lemma weights_tmt_keys_terminals {R W} (of_wire : W -> R) G (ws : list (nat * list W)) :
  (forall p, In p ws -> In (fst p) (terminals G)) ->
  forall l, tget (weights_tmt of_wire G ws) l <> None -> is_term G l = true.
Proof.
  intros H. apply weights_tmt_keys. apply forallb_forall. intros p Hp.
  specialize (H p Hp). unfold terminals in H. apply filter_In in H. tauto.
Qed.

(** * instances: Real (and Log, read through exp), Viterbi, Bool *)
Definition ereal_end_to_end := @sum_products_end_to_end ereal ereal_ops SemiringLaws.ereal_ring.
Definition trop_end_to_end := @sum_products_end_to_end trop trop_ops SemiringLaws.trop_ring.
Definition bool_end_to_end := @sum_products_end_to_end bool bool_ops SemiringLaws.bool_ring.

Definition ereal_end_to_end_ranked := @sum_products_end_to_end_ranked ereal ereal_ops SemiringLaws.ereal_ring.
Definition trop_end_to_end_ranked := @sum_products_end_to_end_ranked trop trop_ops SemiringLaws.trop_ring.
Definition bool_end_to_end_ranked := @sum_products_end_to_end_ranked bool bool_ops SemiringLaws.bool_ring.

Definition ereal_sum_products_eq_spec := @sum_products_nonrec_correct ereal ereal_ops SemiringLaws.ereal_ring.
Definition trop_sum_products_eq_spec := @sum_products_nonrec_correct trop trop_ops SemiringLaws.trop_ring.

Definition ereal_Zk_is_tree_sum := @Zk_is_tree_sum ereal ereal_ops SemiringLaws.ereal_ring.
Definition trop_Zk_is_tree_sum := @Zk_is_tree_sum trop trop_ops SemiringLaws.trop_ring.

Theorem sp_check_real_sound_trees gw ws obs :
  sp_check_real (gw, ws, obs) = 0 ->
  let G := grammar_of_w gw in
  let Wt := env_of ereal_ops (weights_tmt ereal_of G ws) in
  let N := length (nonterminals G) in
  wf_grammar G = true
  /\ (exists rank, ranked G rank)
  /\ forall X, is_term G X = false ->
       (exists ob, obs_get obs X = Some ob
                   /\ Forall2 (fun xi b => real_within (sumS ereal_ops (enum_trees G N X xi) (weight ereal_ops G Wt)) b = true)
                              (all_assts (lshape G X)) ob)
       /\ forall xi, NoDup (enum_trees G N X xi)
                     /\ forall t, In t (enum_trees G N X xi) <-> wf_dtree G X xi t.
Proof. exact (sp_check_sound_trees ereal_ops SemiringLaws.ereal_ring ereal_of real_within eeqb gw ws obs). Qed.

Theorem sp_check_trop_sound_trees gw ws obs :
  sp_check_trop (gw, ws, obs) = 0 ->
  let G := grammar_of_w gw in
  let Wt := env_of trop_ops (weights_tmt trop_of G ws) in
  let N := length (nonterminals G) in
  wf_grammar G = true
  /\ (exists rank, ranked G rank)
  /\ forall X, is_term G X = false ->
       (exists ob, obs_get obs X = Some ob
                   /\ Forall2 (fun xi (b : (nat * QArith_base.Q) * (nat * QArith_base.Q)) =>
                                 trop_within (sumS trop_ops (enum_trees G N X xi) (weight trop_ops G Wt)) (fst b) (snd b) = true)
                              (all_assts (lshape G X)) ob)
       /\ forall xi, NoDup (enum_trees G N X xi)
                     /\ forall t, In t (enum_trees G N X xi) <-> wf_dtree G X xi t.
Proof.
  exact (sp_check_sound_trees trop_ops SemiringLaws.trop_ring trop_of
           (fun x (b : (nat * QArith_base.Q) * (nat * QArith_base.Q)) => trop_within x (fst b) (snd b)) teqb gw ws obs).
Qed.

(** Bool: the observed table IS the table of the sums over all derivation trees *)
Theorem sp_check_bool_sound_trees gw ws obs :
  sp_check_bool (gw, ws, obs) = 0 ->
  let G := grammar_of_w gw in
  let Wt := env_of bool_ops (weights_tmt (fun b : bool => b) G ws) in
  let N := length (nonterminals G) in
  wf_grammar G = true
  /\ (exists rank, ranked G rank)
  /\ forall X, is_term G X = false ->
       (exists ob, obs_get obs X = Some ob
                   /\ ob = map (fun xi => sumS bool_ops (enum_trees G N X xi) (weight bool_ops G Wt)) (all_assts (lshape G X)))
       /\ forall xi, NoDup (enum_trees G N X xi)
                     /\ forall t, In t (enum_trees G N X xi) <-> wf_dtree G X xi t.
Proof.
  intros H G Wt N.
  destruct (sp_check_sound_trees bool_ops SemiringLaws.bool_ring (fun b : bool => b) Bool.eqb Bool.eqb gw ws obs H)
    as (Hwf & Hrk & Hall).
  fold G in Hwf, Hrk, Hall. fold Wt in Hall. fold N in Hall.
  split; trivial. split; trivial. intros X HX. destruct (Hall X HX) as ((ob & Hob & Hcells) & Htrees).
  split; trivial. exists ob. split; trivial.
  clear -Hcells. induction Hcells as [|xi b l ob Hxb _ IH]; [reflexivity|]. cbn [map]. f_equal; trivial.
  symmetry. now apply eqb_prop.
Qed.

(** the premises of the end-to-end theorems are satisfiable: the example grammar of
    Proofs/SP_examples.v, the order Tarjan returns on it, an empty weight table *)
Example end_to_end_hypotheses :
  wf_grammar G_ex = true /\ ranked G_ex rank_ex
  /\ scc (nt_graph G_ex) = Some [[1]; [2]; [3]]
  /\ nonrecursive_order G_ex [[1]; [2]; [3]] = true
  /\ (forall l, tget (@nil (nat * table (R:=bool))) l <> None -> is_term G_ex l = true).
Proof.
  split; [exact G_ex_wf|]. split; [exact G_ex_ranked|]. split; [reflexivity|]. split; [reflexivity|].
  intros l H. now destruct H.
Qed.
