(** C05: [C05_edges_once] in its final form -- for every rule, every valid tree decomposition
    ([valid_td] of C10) of its primal graph, every order of the adjacency lists, of the bags
    and of the [bag & parent] sets: what [factorize_rule_model] returns. *)
From Coq Require Import List Arith Bool PeanoNat Lia Permutation.
Import ListNotations.
Require Import Fggs.Model.Conj Fggs.Proofs.ConjBase Fggs.Proofs.ConjNames.
Require Import Fggs.Model.TreeDec Fggs.Proofs.TreeDec_graph Fggs.Proofs.TreeDec_tdok Fggs.Model.Factorize
               Fggs.Proofs.Fz_fresh Fggs.Proofs.Fz_rooted Fggs.Proofs.Fz_struct Fggs.Proofs.Fz_main
               Fggs.Proofs.Fz_bridge.

Definition head_of (c : frule) : elabel * list nat := (fr_lhs c, fr_ext c).
(** the edge by which a rule is used: [Edge(child_lhs, child_ext)] *)
Definition use_edge (c : frule) : fedge := new_edge (fr_lhs c) (fr_ext c).

Definition wf_rule (r : frule) : Prop :=
  NoDup (fr_ids r) /\ atts_in_ids r /\ incl (fr_ext r) (fr_ids r).

Section Final.
Variable r : frule.
Variable t : ftd.
Variable ords : list (list nat).
Notation rules_of := (rules_of_rt r t ords).

(** (lhs, ext) of the rules: the root's and one per non-root bag *)
Lemma rules_heads nm : forall T parent,
  Permutation (map head_of (rules_of nm T parent))
              ((nm (rt_root T), ext_at r ords parent (rt_root T))
               :: map (fun j => (nm j, nth j ords [])) (fresh_idx T None)).
Proof.
  induction T as [i cs IH] using rt_ind'. intro parent.
  rewrite rules_of_rt_eq, map_app, fresh_idx_eq. cbn [map app head_of fr_lhs fr_ext mk_rule rt_root].
  eapply perm_trans; [apply Permutation_app_comm|]. cbn [app]. constructor. clear parent.
  induction cs as [|c cs IHc]; [constructor|]. cbn [flat_map]. rewrite !map_app, fresh_idx_some.
  inversion IH as [|? ? IH1 IH2]; subst.
  apply Permutation_app; [apply (IH1 (Some i))|apply IHc; exact IH2].
Qed.

Theorem edges_once_final labels rs ls :
  wf_rule r -> ftd_wfb t = true -> valid_td (primal r) (td_of_ftd t) ->
  factorize_rule_model r labels t ords = Ok (rs, ls) ->
  exists front last,
    rs = front ++ [last] /\ fr_lhs last = fr_lhs r /\ fr_ext last = fr_ext r
    (* every original edge occurs exactly once, unchanged, in the new rules; all other edges
       are the uses of the fresh rules: exactly one edge lhs(c)(ext(c)) per new rule c *)
    /\ Permutation (flat_map fr_edges rs) (fr_edges r ++ map use_edge front)
    (* every new rule's node set is a bag: a duplicate-free set of original nodes with their
       labels; no more nodes than the original rule *)
    /\ (forall c, In c rs ->
          (exists j, j < length t /\ fr_ids c = bag_of t j)
          /\ NoDup (fr_ids c) /\ incl (fr_ids c) (fr_ids r)
          /\ fr_nodes c = map (fun v => (v, nlabel (fr_nodes r) v)) (fr_ids c)
          /\ length (fr_nodes c) <= length (fr_nodes r))
    (* the union of the bags is the node set *)
    /\ (forall v, In v (fr_ids r) <-> exists c, In c rs /\ In v (fr_ids c))
    (* the fresh left-hand sides: nonterminals typed by their externals, with names that are
       not in the label set and pairwise different (so each has exactly one rule) ... *)
    /\ (forall c, In c front ->
          el_term (fr_lhs c) = false /\ el_type (fr_lhs c) = map (nlabel (fr_nodes r)) (fr_ext c)
          /\ ~ In (el_name (fr_lhs c)) (map el_name (init_labels r labels)))
    /\ NoDup (map (fun c => el_name (fr_lhs c)) front)
    (* ... and exactly one use *)
    /\ (forall c, In c front -> count_label (fr_lhs c) rs = 1)
    (* the label set afterwards *)
    /\ Permutation ls (map fr_lhs front ++ init_labels r labels).
Proof.
  intros (NDi & A & Ext) WF V H.
  destruct (find_root (fr_ext r) t 0) as [root|] eqn:FR; [|unfold factorize_rule_model, factorize_rule_from in H; rewrite FR in H; discriminate].
  destruct (valid_rooted r t WF V root NDi A Ext FR) as (T & RV).
  destruct (edges_once r t ords labels root T rs ls (conj NDi A) FR RV H)
    as (nm & _ & _ & NB & CV & _ & _ & _). clear nm.
  destruct (model_output r t ords labels root T rs ls FR RV H) as (nm' & Ers & Eroot & Els & NO' & OO).
  assert (Rt : rt_root T = root) by (eapply rooted_of_root; apply RV).
  destruct (rules_last r t ords nm' T None) as (front & EL). rewrite <- Ers in EL.
  set (last := mk_rule r (nm' (rt_root T)) (bag_of t (rt_root T))
                       (place_edges r (bag_of t (rt_root T)) (pbag t None) ++ kid_edges ords nm' (rt_kids T))
                       (ext_at r ords None (rt_root T))) in EL.
  exists front, last.
  (* heads of the front rules = heads of the non-root bags *)
  assert (PH : Permutation (map head_of front) (map (fun j => (nm' j, nth j ords [])) (fresh_idx T None))).
  { pose proof (rules_heads nm' T None) as P. rewrite <- Ers, EL, map_app in P. cbn [map] in P.
    apply Permutation_cons_inv with (a := head_of last).
    eapply perm_trans; [|exact P]. apply Permutation_cons_append. }
  assert (HF : forall c, In c front -> exists j, In j (fresh_idx T None) /\ fr_lhs c = nm' j /\ fr_ext c = nth j ords []).
  { intros c Hc. assert (Hh : In (head_of c) (map head_of front)) by now apply in_map.
    eapply Permutation_in in Hh; [|exact PH]. apply in_map_iff in Hh. destruct Hh as (j & E & Hj).
    exists j. unfold head_of in E. injection E as E1 E2. auto. }
  (* the edge permutation with nm' *)
  assert (PE' : Permutation (flat_map fr_edges rs) (fr_edges r ++ map (fresh_edge ords nm') (fresh_idx T None))).
  { rewrite Ers. eapply perm_trans; [apply rules_edges|]. apply Permutation_app_tail.
    apply placements_perm; trivial. apply RV. }
  split; [exact EL|]. split; [unfold last; cbn; now rewrite Rt|]. split; [reflexivity|].
  split.
  { eapply perm_trans; [exact PE'|]. apply Permutation_app_head.
    assert (E1 : map use_edge front = map (fun p => new_edge (fst p) (snd p)) (map head_of front)).
    { rewrite map_map. reflexivity. }
    assert (E2 : map (fresh_edge ords nm') (fresh_idx T None)
                 = map (fun p => new_edge (fst p) (snd p)) (map (fun j => (nm' j, nth j ords [])) (fresh_idx T None))).
    { rewrite map_map. reflexivity. }
    rewrite E1, E2. apply Permutation_map. now apply Permutation_sym. }
  split.
  { intros c Hc. destruct (NB c Hc) as (j & Hj & Ei & En & Hl).
    pose proof (rr_valid r t root T RV) as Vt.
    split; [exists j; split; [now apply (rr_range r t root T RV)|exact Ei]|].
    split; [rewrite Ei; now apply (rv_bags_nodup r t T Vt)|].
    split; [rewrite Ei; intros x Hx; now apply (rv_bags_sub r t T Vt j)|].
    split; [now rewrite Ei|exact Hl]. }
  split; [exact CV|].
  split.
  { intros c Hc. destruct (HF c Hc) as (j & Hj & -> & ->). destruct NO' as [n1 n2 n3 n4]. auto. }
  split.
  { assert (E : map (fun c => el_name (fr_lhs c)) front = map (fun p => el_name (fst p)) (map head_of front)).
    { rewrite map_map. reflexivity. }
    rewrite E. eapply Permutation_NoDup; [apply Permutation_map, Permutation_sym; exact PH|].
    rewrite map_map. cbn [fst]. apply NO'. }
  split.
  { intros c Hc. destruct (HF c Hc) as (j & Hj & -> & _).
    (* count through PE' *)
    unfold count_label.
    assert (CP : forall l l' : list fedge, Permutation l l' ->
              length (filter (fun e => elabel_eqb (fe_lab e) (nm' j)) l) = length (filter (fun e => elabel_eqb (fe_lab e) (nm' j)) l')).
    { intros l l' P. induction P; cbn [filter]; try congruence.
      - destruct (elabel_eqb _ _); cbn [length]; congruence.
      - destruct (elabel_eqb (fe_lab x) _), (elabel_eqb (fe_lab y) _); reflexivity. }
    rewrite (CP _ _ PE'), filter_app, app_length.
    assert (Z : filter (fun e => elabel_eqb (fe_lab e) (nm' j)) (fr_edges r) = []).
    { assert (G : forall l, incl l (fr_edges r) -> filter (fun e => elabel_eqb (fe_lab e) (nm' j)) l = []).
      { induction l as [|e l IHl]; intro I; [reflexivity|]. cbn [filter].
        rewrite (orig_label_not_fresh r ords labels nm' _ e j NO') by (trivial; apply I; now left).
        apply IHl. intros x Hx. apply I. now right. }
      apply G. apply incl_refl. }
    rewrite Z. cbn [length Nat.add].
    destruct NO' as [n1 n2 n3 n4]. revert Hj n4. clear. generalize (fresh_idx T None) as idx.
    induction idx as [|k idx IHk]; intros Hj ND; [destruct Hj|].
    cbn [map filter]. cbn [map] in ND. inversion ND as [|? ? Hk ND']; subst.
    unfold fresh_edge at 1. cbn [fe_lab new_edge]. destruct Hj as [->|Hj].
    - rewrite elabel_eqb_refl. cbn [length]. f_equal.
      assert (G : forall l, (forall k, In k l -> el_name (nm' k) <> el_name (nm' j)) ->
                  filter (fun e => elabel_eqb (fe_lab e) (nm' j)) (map (fresh_edge ords nm') l) = []).
      { induction l as [|k l IHl]; intro Hn; [reflexivity|]. cbn [map filter]. unfold fresh_edge at 1. cbn [fe_lab new_edge].
        destruct (elabel_eqb (nm' k) (nm' j)) eqn:E.
        - apply elabel_eqb_eq in E. exfalso. apply (Hn k (or_introl eq_refl)). now rewrite E.
        - apply IHl. intros k' Hk'. apply Hn. now right. }
      rewrite G; [reflexivity|]. intros k Hkin E. apply Hk. rewrite <- E. apply in_map_iff. eauto.
    - destruct (elabel_eqb (nm' k) (nm' j)) eqn:E.
      + apply elabel_eqb_eq in E. exfalso. apply Hk. rewrite E. apply in_map_iff. eauto.
      + now apply IHk. }
  rewrite Els. apply Permutation_app_tail.
  eapply perm_trans; [apply Permutation_sym, Permutation_rev|].
  assert (E : map fr_lhs front = map fst (map head_of front)) by (rewrite map_map; reflexivity).
  rewrite E. eapply perm_trans; [|apply Permutation_map, Permutation_sym; exact PH].
  rewrite map_map. cbn [fst]. apply Permutation_refl.
Qed.

End Final.
