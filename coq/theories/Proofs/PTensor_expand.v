(** [expand] refines dense broadcasting: the element of the expanded tensor at [idx] is the element
    of the operand at the index obtained by dropping the new leading dimensions and replacing the
    index of every size-1 dimension by 0. *)
From Coq Require Import List Arith Lia PeanoNat Bool PArith.
Import ListNotations.
Require Import Fggs.Model.Axis Fggs.Model.PTensor.
Require Import Fggs.Proofs.Axis_sem Fggs.Proofs.Axis_unify Fggs.Proofs.Axis_antiunify.
Require Import Fggs.Proofs.PTensor_sem Fggs.Proofs.PTensor_dense Fggs.Proofs.PTensor_views Fggs.Proofs.Axis_antiunify_inv Fggs.Proofs.PTensor_gen.

(** what the loop of [expand] does, in processing order (last dimension first) *)
Inductive exp_rel : list axis -> list nat -> positive -> list axis -> list pn -> positive -> Prop :=
| xr_nil next : exp_rel [] [] next [] [] next
| xr_new n ns next ar nr next' :
    exp_rel [] ns (Pos.succ next) ar nr next' ->
    exp_rel [] (n :: ns) next (Phys next n :: ar) ((next, n) :: nr) next'
| xr_bcast e evs n ns next ar nr next' :
    numel e = 1 -> n <> 1 ->
    numel (if is_unit e then Phys next n else productAxis [e; Phys next n]) = n ->
    exp_rel evs ns (Pos.succ next) ar nr next' ->
    exp_rel (e :: evs) (n :: ns) next
            ((if is_unit e then Phys next n else productAxis [e; Phys next n]) :: ar) ((next, n) :: nr) next'
| xr_keep e evs n ns next ar nr next' :
    (numel e <> 1 \/ n = 1) -> numel e = n ->
    exp_rel evs ns next ar nr next' ->
    exp_rel (e :: evs) (n :: ns) next (e :: ar) nr next'.

Lemma expand_loop_rel : forall ns evs next news acc news' vs' next',
  expand_loop evs ns next news acc = Some (news', vs', next') ->
  exists ar nr, exp_rel evs ns next ar nr next' /\ vs' = rev ar ++ acc /\ news' = rev nr ++ news.
Proof.
  induction ns as [|n ns IH]; intros evs next news acc news' vs' next' H.
  - destruct evs; simpl in H; [|discriminate]. inversion H; subst. exists [], []. split; [constructor|split; reflexivity].
  - destruct evs as [|e evs]; cbn [expand_loop] in H.
    + destruct (IH _ _ _ _ _ _ _ H) as (ar & nr & R & -> & ->).
      exists (Phys next n :: ar), ((next, n) :: nr). split; [constructor; exact R|].
      simpl. rewrite <- !app_assoc. split; reflexivity.
    + destruct (Nat.eqb (numel e) 1 && negb (Nat.eqb n 1)) eqn:C.
      * apply andb_true_iff in C. destruct C as [C1 C2]. apply Nat.eqb_eq in C1. apply negb_true_iff in C2. apply Nat.eqb_neq in C2.
        destruct (Nat.eqb_spec (numel (if is_unit e then Phys next n else productAxis [e; Phys next n])) n) as [En|]; [|discriminate].
        destruct (IH _ _ _ _ _ _ _ H) as (ar & nr & R & -> & ->).
        eexists (_ :: ar), ((next, n) :: nr). split; [apply xr_bcast; eassumption|].
        simpl. rewrite <- !app_assoc. split; reflexivity.
      * destruct (Nat.eqb_spec (numel e) n) as [En|]; [|discriminate].
        destruct (IH _ _ _ _ _ _ _ H) as (ar & nr & R & -> & ->).
        exists (e :: ar), nr. split.
        -- apply xr_keep; [|exact En|exact R]. apply andb_false_iff in C. destruct C as [C|C].
           ++ left. apply Nat.eqb_neq. exact C.
           ++ right. apply negb_false_iff in C. apply Nat.eqb_eq. exact C.
        -- simpl. rewrite <- app_assoc. split; reflexivity.
Qed.

(** the index seen by the operand (processing order): size-1 dimensions are read at 0 *)
Fixpoint bidxr (evs : list axis) (idxr : list nat) : list nat :=
  match evs, idxr with
  | e :: evs', i :: idxr' => (if Nat.eqb (numel e) 1 then 0 else i) :: bidxr evs' idxr'
  | _, _ => []
  end.

(** the values the new variables must take: the index of their dimension *)
Fixpoint newvals (evs : list axis) (ns idxr : list nat) : list nat :=
  match ns, idxr with
  | n :: ns', i :: idxr' =>
      match evs with
      | [] => i :: newvals [] ns' idxr'
      | e :: evs' => if Nat.eqb (numel e) 1 && negb (Nat.eqb n 1) then i :: newvals evs' ns' idxr'
                     else newvals evs' ns' idxr'
      end
  | _, _ => []
  end.

Lemma eval_size1 rho e : inrange rho e -> numel e = 1 -> eval rho e = 0.
Proof. intros R H. pose proof (eval_bound rho e R). lia. Qed.

(** semantic content of the loop *)
Lemma exp_rel_sem evs ns next ar nr next' : exp_rel evs ns next ar nr next' ->
  (forall e, In e evs -> below next e) ->
  (next <= next')%positive /\
  (forall k n, In (k, n) nr -> (next <= k)%positive /\ (k < next')%positive) /\
  NoDup (map fst nr) /\
  (forall kn, In kn (flat_map fvn ar) <-> In kn (flat_map fvn evs) \/ In kn nr) /\
  length ar = length ns /\
  forall rho idxr, Forall2 lt idxr ns ->
    ((Forall (inrange rho) ar /\ evals rho ar = idxr) <->
     (Forall (inrange rho) evs /\ evals rho evs = bidxr evs idxr /\
      map (fun kn => rho (fst kn)) nr = newvals evs ns idxr)).
Proof.
  induction 1 as [next|n ns next ar nr next' R IH|e evs n ns next ar nr next' E1 Nn En R IH|e evs n ns next ar nr next' C En R IH];
    intros Bel.
  - split; [lia|]. split; [intros k n []|]. split; [constructor|]. split; [intros kn; simpl; tauto|]. split; [reflexivity|].
    intros rho idxr B. destruct idxr; [|inversion B]. split.
    + intros _. split; [constructor|]. split; reflexivity.
    + intros _. split; [constructor|reflexivity].
  - destruct (IH (fun e H => match H with end)) as (L1 & K & ND & FV & Len & Sem).
    split; [lia|]. split.
    { intros k m [Hk|Hk]; [inversion Hk as [[Ek Em]]; rewrite <- Ek; split; lia|]. destruct (K k m Hk). split; lia. }
    split.
    { simpl. constructor; [|exact ND]. intros Hin. apply in_map_iff in Hin. destruct Hin as ([k m] & Ek & Hk). simpl in Ek. subst k.
      destruct (K _ _ Hk). lia. }
    split.
    { intros kn. simpl. rewrite FV. simpl. tauto. }
    split; [simpl; f_equal; exact Len|].
    intros rho idxr B. destruct idxr as [|i idxr']; [inversion B|].
    assert (HB : i < n /\ Forall2 lt idxr' ns) by (inversion B; auto). destruct HB as [Hi B'].
    specialize (Sem rho idxr' B'). cbn [newvals bidxr]. split.
    + intros [Rr Ee]. apply Forall_cons_iff in Rr. destruct Rr as [Rk Rr']. unfold evals in Ee. simpl in Ee. injection Ee as Ek Ee'.
      destruct (proj1 Sem (conj Rr' Ee')) as (_ & _ & Ev).
      split; [constructor|]. split; [reflexivity|]. simpl. rewrite Ev, Ek. reflexivity.
    + intros (_ & _ & Ev). simpl in Ev. injection Ev as Ek Ev'.
      destruct (proj2 Sem (conj (Forall_nil _) (conj eq_refl Ev'))) as [Rr' Ee'].
      split; [constructor; [simpl; rewrite Ek; exact Hi|exact Rr']|]. unfold evals in *. simpl. rewrite Ek, Ee'. reflexivity.
  - assert (Bel' : forall e0, In e0 evs -> below (Pos.succ next) e0).
    { intros e0 H0 k Hk. pose proof (Bel e0 (or_intror H0) k Hk). lia. }
    destruct (IH Bel') as (L1 & K & ND & FV & Len & Sem).
    set (e' := if is_unit e then Phys next n else productAxis [e; Phys next n]) in *.
    assert (FVe : forall kn, In kn (fvn e') <-> In kn (fvn e) \/ kn = (next, n)).
    { intros kn. unfold e'. destruct (is_unit e) eqn:U.
      - destruct e as [| [|] |]; try discriminate. simpl. intuition.
      - rewrite fvn_productAxis. simpl. rewrite ?app_nil_r, ?in_app_iff. simpl. intuition. }
    assert (Ev' : forall rho, inrange rho e -> eval rho e' = rho next).
    { intros rho Re. unfold e'. destruct (is_unit e); [reflexivity|].
      rewrite (proj1 (productAxis_sem rho [e; Phys next n])). unfold evalL. simpl. rewrite (eval_size1 rho e Re E1). lia. }
    assert (Rng : forall rho, inrange rho e' <-> inrange rho e /\ rho next < n).
    { intros rho. unfold e'. destruct (is_unit e) eqn:U.
      - destruct e as [| [|] |]; try discriminate. simpl. tauto.
      - rewrite inrange_productAxis. split.
        + intros F. apply Forall_cons_iff in F. destruct F as [F1 F2]. apply Forall_cons_iff in F2. destruct F2 as [F3 _].
          split; [exact F1|exact F3].
        + intros [F1 F2]. constructor; [exact F1|constructor; [exact F2|constructor]]. }
    clearbody e'.
    split; [lia|]. split.
    { intros k m [Hk|Hk]; [inversion Hk as [[Ek Em]]; rewrite <- Ek; split; lia|]. destruct (K k m Hk). split; lia. }
    split.
    { simpl. constructor; [|exact ND]. intros Hin. apply in_map_iff in Hin. destruct Hin as ([k m] & Ek & Hk). simpl in Ek. subst k.
      destruct (K _ _ Hk). lia. }
    split.
    { intros kn. simpl. rewrite !in_app_iff, FV, FVe. simpl. intuition. }
    split; [simpl; f_equal; exact Len|].
    intros rho idxr B. destruct idxr as [|i idxr']; [inversion B|].
    assert (HB : i < n /\ Forall2 lt idxr' ns) by (inversion B; auto). destruct HB as [Hi B'].
    specialize (Sem rho idxr' B').
    assert (Cnd : Nat.eqb (numel e) 1 && negb (Nat.eqb n 1) = true).
    { rewrite E1. simpl. apply negb_true_iff. apply Nat.eqb_neq. exact Nn. }
    cbn [bidxr newvals]. rewrite Cnd, E1. simpl Nat.eqb. cbv iota. split.
    + intros [Rr Ee]. apply Forall_cons_iff in Rr. destruct Rr as [Rk Rr']. unfold evals in Ee. simpl in Ee. injection Ee as Ek Ee'.
      apply (Rng rho) in Rk. destruct Rk as [Re Rn].
      destruct (proj1 Sem (conj Rr' Ee')) as (Rv & Eb & Ev).
      split; [constructor; assumption|]. split.
      * unfold evals. simpl. rewrite (eval_size1 rho e Re E1). f_equal. exact Eb.
      * simpl. rewrite Ev. f_equal. rewrite <- (Ev' rho Re). exact Ek.
    + intros (Rv & Eb & Ev). apply Forall_cons_iff in Rv. destruct Rv as [Re Rv'].
      unfold evals in Eb. simpl in Eb. injection Eb as _ Eb'.
      simpl in Ev. injection Ev as Ek Ev2.
      destruct (proj2 Sem (conj Rv' (conj Eb' Ev2))) as [Rr' Ee'].
      split; [constructor; [apply (Rng rho); split; [exact Re|rewrite Ek; exact Hi]|exact Rr']|].
      unfold evals in *. simpl. rewrite (Ev' rho Re), Ek, Ee'. reflexivity.
  - assert (Bel' : forall e0, In e0 evs -> below next e0) by (intros e0 H0; apply Bel; right; exact H0).
    destruct (IH Bel') as (L1 & K & ND & FV & Len & Sem).
    split; [exact L1|]. split; [exact K|]. split; [exact ND|]. split.
    { intros kn. simpl. rewrite !in_app_iff, FV. tauto. }
    split; [simpl; f_equal; exact Len|].
    intros rho idxr B. destruct idxr as [|i idxr']; [inversion B|].
    assert (HB : i < n /\ Forall2 lt idxr' ns) by (inversion B; auto). destruct HB as [Hi B'].
    specialize (Sem rho idxr' B').
    assert (Cnd : Nat.eqb (numel e) 1 && negb (Nat.eqb n 1) = false).
    { destruct C as [C|C]; [apply andb_false_iff; left; apply Nat.eqb_neq; exact C|].
      rewrite C. apply andb_false_iff. right. reflexivity. }
    cbn [bidxr newvals]. rewrite Cnd. split.
    + intros [Rr Ee]. apply Forall_cons_iff in Rr. destruct Rr as [Re Rr']. unfold evals in Ee. simpl in Ee. injection Ee as Ek Ee'.
      destruct (proj1 Sem (conj Rr' Ee')) as (Rv & Eb & Ev).
      split; [constructor; assumption|]. split; [|exact Ev].
      unfold evals. simpl. f_equal; [|exact Eb].
      destruct (Nat.eqb_spec (numel e) 1) as [E1|_]; [|exact Ek]. apply eval_size1; assumption.
    + intros (Rv & Eb & Ev). apply Forall_cons_iff in Rv. destruct Rv as [Re Rv'].
      unfold evals in Eb. simpl in Eb. injection Eb as Ek Eb'.
      destruct (proj2 Sem (conj Rv' (conj Eb' Ev))) as [Rr' Ee'].
      split; [constructor; assumption|]. unfold evals in *. simpl. rewrite Ee'. f_equal.
      destruct (Nat.eqb_spec (numel e) 1) as [E1|_]; [|exact Ek].
      rewrite Ek. destruct C as [C|C]; [congruence|]. rewrite C in Hi. lia.
Qed.

Lemma below_eval_upd (B : positive) rho1 rho2 e :
  below B e -> (forall k, (k < B)%positive -> rho1 k = rho2 k) -> eval rho1 e = eval rho2 e.
Proof. intros Be H. apply eval_ext. intros k Hk. apply H. exact (Be k Hk). Qed.

Lemma below_inrange_upd (B : positive) rho1 rho2 e :
  below B e -> (forall k, (k < B)%positive -> rho1 k = rho2 k) -> inrange rho1 e -> inrange rho2 e.
Proof.
  intros Be H R. apply inrange_fvn. intros k n Hk. rewrite <- H.
  - exact (proj2 (inrange_fvn rho1 e) R k n Hk).
  - apply Be. apply fv_of_fvn. eauto.
Qed.

Lemma skipn_app_exact' {A} (l1 l2 : list A) : skipn (length l1) (l1 ++ l2) = l2.
Proof. induction l1; simpl; auto. Qed.

Lemma exp_rel_lengths evs ns next ar nr next' : exp_rel evs ns next ar nr next' -> length evs <= length ns.
Proof. induction 1; simpl; lia. Qed.

Lemma bidxr_length evs : forall idxr, length evs <= length idxr -> length (bidxr evs idxr) = length evs.
Proof.
  induction evs as [|e evs IH]; intros idxr L; [reflexivity|]. destruct idxr as [|i idxr]; [simpl in L; lia|].
  simpl. f_equal. apply IH. simpl in L. lia.
Qed.

Lemma newvals_length evs ns next ar nr next' : exp_rel evs ns next ar nr next' ->
  forall idxr, length idxr = length ns -> length (newvals evs ns idxr) = length nr.
Proof.
  induction 1 as [next|n ns next ar nr next' R IH|e evs n ns next ar nr next' E1 Nn En R IH|e evs n ns next ar nr next' C En R IH];
    intros idxr L; destruct idxr as [|i idxr]; try discriminate; simpl in L.
  - reflexivity.
  - cbn [newvals]. simpl. f_equal. apply IH. lia.
  - cbn [newvals]. rewrite E1. replace (negb (Nat.eqb n 1)) with true by (symmetry; apply negb_true_iff; apply Nat.eqb_neq; exact Nn).
    simpl. f_equal. apply IH. lia.
  - cbn [newvals].
    replace (Nat.eqb (numel e) 1 && negb (Nat.eqb n 1)) with false; [apply IH; lia|].
    symmetry. destruct C as [C|C]; [apply andb_false_iff; left; apply Nat.eqb_neq; exact C|].
    rewrite C. apply andb_false_iff. right. reflexivity.
Qed.

(** update an environment on a list of keys *)
Definition upd (keys : list positive) (vals : list nat) (rho : env) : env :=
  fun k => match assoc k (combine keys vals) with Some v => v | None => rho k end.

Lemma upd_keys keys : forall vals rho, NoDup keys -> length vals = length keys -> map (upd keys vals rho) keys = vals.
Proof.
  induction keys as [|k keys IH]; intros vals rho ND L; destruct vals as [|v vals]; try discriminate; [reflexivity|].
  inversion ND as [|? ? Hnot ND']; subst. simpl. f_equal.
  - unfold upd. simpl. rewrite Pos.eqb_refl. reflexivity.
  - rewrite <- (IH vals rho ND') at 2 by (simpl in L; lia). apply map_ext_in. intros k' Hk'.
    unfold upd. simpl. destruct (Pos.eqb_spec k k') as [->|_]; [contradiction|reflexivity].
Qed.

Lemma upd_other keys vals rho k : ~ In k keys -> upd keys vals rho k = rho k.
Proof.
  intros H. unfold upd. destruct (assoc k (combine keys vals)) eqn:E; [|reflexivity].
  apply assoc_In in E. apply in_combine_l in E. contradiction.
Qed.

Lemma Forall2_rev {A B} (R : A -> B -> Prop) l1 l2 : Forall2 R l1 l2 -> Forall2 R (rev l1) (rev l2).
Proof.
  induction 1 as [|x y l1 l2 Hxy H IH]; [constructor|]. simpl. apply Forall2_app; [exact IH|constructor; [exact Hxy|constructor]].
Qed.

Lemma flat_map_rev_In' {A B} (f : A -> list B) l x : In x (flat_map f (rev l)) <-> In x (flat_map f l).
Proof.
  rewrite !in_flat_map. split; intros (y & Hy & H); exists y; (split; [|exact H]); [apply in_rev|apply in_rev; rewrite rev_involutive]; exact Hy.
Qed.

Lemma pcoords_app ps1 ps2 rho : pcoords (ps1 ++ ps2) rho = pcoords ps1 rho ++ pcoords ps2 rho.
Proof. unfold pcoords. apply map_app. Qed.

Section Expand.
Variable V : Type.

(** C06 (expand): broadcasting semantics *)
Theorem expand_refines (t t' : ptensor V) sizes next next' idx :
  wf V t -> (forall e, In e (vaxes t) -> below next e) ->
  pt_expand V sizes next t = Some (t', next') -> Forall2 lt idx sizes ->
  denote V t' idx = denote V t (rev (bidxr (rev (vaxes t)) (rev idx))).
Proof.
  intros W Bel H B. unfold pt_expand in H.
  destruct (expand_loop (rev (vaxes t)) (rev sizes) next [] []) as [[[news vs] nx]|] eqn:EL; [|discriminate].
  inversion H; subst t' next'. clear H.
  destruct (expand_loop_rel _ _ _ _ _ _ _ _ EL) as (ar & nr & R & -> & ->). rewrite !app_nil_r.
  assert (Bel' : forall e, In e (rev (vaxes t)) -> below next e) by (intros e He; apply Bel; apply in_rev; exact He).
  destruct (exp_rel_sem _ _ _ _ _ _ R Bel') as (L1 & K & ND & FV & Len & Sem).
  pose proof (Forall2_rev _ _ _ B) as Br. specialize (fun rho => Sem rho (rev idx) Br).
  set (T' := mkPT _ _ _ _).
  assert (Li : length idx = length (vaxes T')).
  { cbn [vaxes T']. rewrite rev_length, Len, rev_length. exact (Forall2_len _ _ _ B). }
  assert (Cov : covers (paxes T') (vaxes T')).
  { cbn [paxes vaxes T']. intros k Hk. apply in_map_iff in Hk. destruct Hk as ([k' n] & <- & Hk). simpl.
    apply In_fv_fvn. exists n. apply flat_map_rev_In'. apply FV.
    apply in_app_or in Hk. destruct Hk as [Hk|Hk]; [right; apply in_rev; exact Hk|left].
    apply flat_map_rev_In'. apply (wf_fv V t W). exact Hk. }
  (* keys of the new variables are not variables of t *)
  assert (Fresh : forall k, In k (map fst nr) -> ~ In k (map fst (paxes t))).
  { intros k Hk Hp. apply in_map_iff in Hk. destruct Hk as ([k1 n1] & E1 & Hk). simpl in E1. subst k1.
    apply in_map_iff in Hp. destruct Hp as ([k2 n2] & E2 & Hp). simpl in E2. subst k2.
    apply (wf_fv V t W) in Hp. apply in_flat_map in Hp. destruct Hp as (e & He & Hp).
    assert (In k (fv e)) by (apply fv_of_fvn; eauto). pose proof (Bel e He k H). destruct (K _ _ Hk). lia. }
  assert (Pget : forall rho, pget V T' rho = pget V t rho).
  { intros rho. unfold pget. cbn [physical paxes T']. rewrite pcoords_app.
    replace (length (rev nr)) with (length (pcoords (rev nr) rho)) by (unfold pcoords; apply map_length).
    rewrite skipn_app_exact'. reflexivity. }
  destruct (denote_cases V T' idx Cov Li) as [(rho & Rr & Er & D)|[N D]].
  - rewrite D, Pget. cbn [vaxes T'] in Rr, Er.
    assert (Ra : Forall (inrange rho) ar) by (rewrite <- (rev_involutive ar); apply Forall_rev; exact Rr).
    assert (Ea : evals rho ar = rev idx).
    { rewrite <- Er. unfold evals. rewrite map_rev, rev_involutive. reflexivity. }
    destruct (proj1 (Sem rho) (conj Ra Ea)) as (Rv & Eb & _).
    rewrite <- Eb. unfold evals. rewrite map_rev, rev_involutive. symmetry.
    apply (denote_backed V t rho (wf_covers V t W)).
    rewrite <- (rev_involutive (vaxes t)). apply Forall_rev. exact Rv.
  - rewrite D. cbn [default T']. symmetry.
    assert (Lb : length (rev (bidxr (rev (vaxes t)) (rev idx))) = length (vaxes t)).
    { rewrite rev_length, bidxr_length; [apply rev_length|].
      pose proof (exp_rel_lengths _ _ _ _ _ _ R). rewrite !rev_length in *. rewrite (Forall2_len _ _ _ B). assumption. }
    destruct (denote_cases V t _ (wf_covers V t W) Lb) as [(rho & Rr & Er & _)|[_ Dt]]; [|exact Dt].
    exfalso.
    set (vals := newvals (rev (vaxes t)) (rev sizes) (rev idx)).
    set (rho' := upd (map fst nr) vals rho).
    assert (Lv : length vals = length (map fst nr)).
    { rewrite map_length. apply (newvals_length _ _ _ _ _ _ R). rewrite !rev_length. exact (Forall2_len _ _ _ B). }
    assert (Same : forall k, (k < next)%positive -> rho k = rho' k).
    { intros k Hk. unfold rho'. rewrite upd_other; [reflexivity|]. intros Hin. apply in_map_iff in Hin.
      destruct Hin as ([k1 n1] & E1 & Hin). simpl in E1. subst k1. destruct (K _ _ Hin). lia. }
    assert (Rv : Forall (inrange rho') (rev (vaxes t))).
    { rewrite Forall_forall. intros e He. apply (below_inrange_upd next rho rho' e (Bel' e He) Same).
      rewrite Forall_forall in Rr. apply Rr. apply in_rev. exact He. }
    assert (Eb : evals rho' (rev (vaxes t)) = bidxr (rev (vaxes t)) (rev idx)).
    { transitivity (evals rho (rev (vaxes t))).
      - unfold evals. apply map_ext_in. intros e He. symmetry. apply (below_eval_upd next rho rho' e (Bel' e He) Same).
      - unfold evals. rewrite map_rev. unfold evals in Er. rewrite Er, rev_involutive. reflexivity. }
    assert (Ev : map (fun kn : pn => rho' (fst kn)) nr = vals).
    { transitivity (map rho' (map fst nr)); [rewrite map_map; reflexivity|]. unfold rho'. apply upd_keys; assumption. }
    destruct (proj2 (Sem rho') (conj Rv (conj Eb Ev))) as [Ra Ea].
    apply (N rho'); cbn [vaxes T'].
    + apply Forall_rev. exact Ra.
    + unfold evals in *. rewrite map_rev, Ea, rev_involutive. reflexivity.
Qed.

End Expand.
