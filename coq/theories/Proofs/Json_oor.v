(** C14: out-of-range attachment / external node numbers (after the repair of F10, commit 2f3a5c1:
    [if vi < 0: raise IndexError] inside the [try]).

    - every number outside [0..n-1] -- negative ones included -- gives exactly [Err ValueErr], at the
      indexing statement and in the two loops of [json_to_hrg];
    - a document that [json_to_hrg] accepts contains no node number outside [0..n-1]. *)
From Coq Require Import List Arith Bool PeanoNat ZArith Lia.
Import ListNotations.
Require Import Fggs.Model.Json Fggs.Proofs.Json_base.
Local Open Scope nat_scope.

Lemma att_index_oor : forall {A : Type} (l : list A) z,
  oor (length l) z = true -> att_index l (JInt z) = Err ValueErr.
Proof.
  intros A l z H. unfold oor in H. apply orb_true_iff in H.
  unfold att_index, json_neg, py_index.
  destruct (z <? 0)%Z eqn:Ez; [reflexivity|].
  destruct H as [H|H]; [discriminate|]. apply Z.ltb_ge in Ez. apply Z.leb_le in H.
  rewrite (proj2 (Z.ltb_ge z 0) Ez).
  destruct (nth_error l (Z.to_nat z)) eqn:E; [|reflexivity].
  assert (Z.to_nat z < length l) by (apply nth_error_Some; congruence). lia.
Qed.

Lemma att_index_negative : forall {A : Type} (l : list A) z, (z < 0)%Z -> att_index l (JInt z) = Err ValueErr.
Proof.
  intros A l z H. apply att_index_oor. unfold oor. apply orb_true_iff. left. now apply Z.ltb_lt.
Qed.

Lemma att_index_too_big : forall {A : Type} (l : list A) z,
  (Z.of_nat (length l) <= z)%Z -> att_index l (JInt z) = Err ValueErr.
Proof.
  intros A l z H. apply att_index_oor. unfold oor. apply orb_true_iff. right. now apply Z.leb_le.
Qed.

Lemma att_index_ok_in_range : forall {A : Type} (l : list A) z x,
  att_index l (JInt z) = Ok x -> oor (length l) z = false.
Proof.
  intros A l z x H. destruct (oor (length l) z) eqn:E; [|reflexivity].
  rewrite (att_index_oor l z E) in H. discriminate.
Qed.

(** a JInt element either indexes or raises ValueError -- never another error *)
Lemma att_index_int_cases : forall {A : Type} (l : list A) z,
  (exists x, att_index l (JInt z) = Ok x) \/ att_index l (JInt z) = Err ValueErr.
Proof.
  intros A l z. unfold att_index, json_neg, py_index.
  destruct (z <? 0)%Z; [now right|].
  destruct (z <? 0)%Z; [now right|].
  destruct (nth_error l _); eauto.
Qed.

Definition is_int (j : json) : Prop := exists z, j = JInt z.

(** the loop [for vi in ...: try: nodes[vi] except IndexError: raise ValueError] *)
Lemma mapM_att_index_rejects : forall {A : Type} (nodes : list A) la,
  Forall is_int la -> Exists (fun j => num_sat oor (length nodes) j = true) la ->
  mapM (att_index nodes) la = Err ValueErr.
Proof.
  intros A nodes. induction la as [|j la IH]; intros Hint Hex; [inversion Hex|].
  inversion Hint as [|? ? [z ->] Hint']; subst. cbn [mapM].
  destruct (att_index_int_cases nodes z) as [[x Hx]|He].
  - rewrite Hx. cbn [bind]. inversion Hex as [? ? H|? ? H]; subst.
    + cbn in H. rewrite (att_index_oor nodes z H) in Hx. discriminate.
    + rewrite (IH Hint' H). reflexivity.
  - rewrite He. reflexivity.
Qed.

(** an edge whose attachment list contains such a number makes the edge loop raise ValueError *)
Lemma parse_edges_rejects : forall tbl nodes je l c seen d la,
  je = JDict d -> dict_find d k_attachments = Some (JList la) ->
  Forall is_int la -> Exists (fun j => num_sat oor (length nodes) j = true) la ->
  parse_edges tbl nodes (je :: l) c seen = Err ValueErr.
Proof.
  intros tbl nodes je l c seen d la -> Hd Hint Hex. cbn [parse_edges jget]. rewrite Hd. cbn [bind jiter].
  rewrite (mapM_att_index_rejects nodes la Hint Hex). reflexivity.
Qed.

(** * accepted documents *)
Lemma mapM_att_index_ok : forall {A : Type} (nodes : list A) la r p,
  (forall z x, att_index nodes (JInt z) = Ok x -> p (length nodes) z = false) ->
  mapM (att_index nodes) la = Ok r -> existsb (num_sat p (length nodes)) la = false.
Proof.
  intros A nodes la r p Hp H. apply mapM_Forall2 in H.
  induction H as [|j x la r Hj _ IH]; cbn; [reflexivity|]. rewrite IH, orb_false_r.
  destruct j; cbn; try reflexivity. eapply Hp. exact Hj.
Qed.

Lemma parse_nodes_length : forall l c seen ns c', parse_nodes l c seen = Ok (ns, c') -> length ns = length l.
Proof.
  induction l as [|jn l IH]; intros c seen ns c' H; cbn in H.
  - inversion H. reflexivity.
  - apply bind_ok in H as [lab [_ H]]. apply bind_ok in H as [name [_ H]]. apply bind_ok in H as [o [_ H]].
    apply bind_ok in H as [ic [_ H]]. destruct (id_mem (fst ic) seen); [discriminate|].
    apply bind_ok in H as [[ns' c''] [Hr H]]. inversion H; subst. cbn. f_equal. eapply IH. exact Hr.
Qed.

Section Accepted.
  Variable p : nat -> Z -> bool.
  Hypothesis p_ok : forall (nodes : list node) z x, att_index nodes (JInt z) = Ok x -> p (length nodes) z = false.

  Lemma parse_edges_accepts : forall tbl nodes le c seen r,
    parse_edges tbl nodes le c seen = Ok r ->
    existsb (fun je => existsb (num_sat p (length nodes)) (list_of (jget je k_attachments))) le = false.
  Proof.
    intros tbl nodes. induction le as [|je le IH]; intros c seen r H; cbn in H; [reflexivity|].
    apply bind_ok in H as [ja [Hja H]]. apply bind_ok in H as [la [Hla H]]. apply bind_ok in H as [att [Hatt H]].
    apply bind_ok in H as [jl [_ H]]. apply bind_ok in H as [lab [_ H]]. apply bind_ok in H as [o [_ H]].
    apply bind_ok in H as [ic [_ H]].
    destruct (negb (strs_eqb (el_type lab) (map n_label att))); [discriminate|].
    destruct (id_mem (fst ic) seen); [discriminate|].
    apply bind_ok in H as [r' [Hr' _]].
    cbn [existsb]. rewrite (IH _ _ _ Hr'), orb_false_r. unfold list_of. rewrite Hja, Hla.
    eapply mapM_att_index_ok; [|exact Hatt]. intros z x. apply p_ok.
  Qed.

  Lemma parse_rule_accepts : forall tbl jr c r, parse_rule tbl jr c = Ok r -> rule_has_num p jr = false.
  Proof.
    intros tbl jr c r H. unfold parse_rule in H.
    apply bind_ok in H as [jl [_ H]]. apply bind_ok in H as [lhs [_ H]]. apply bind_ok in H as [jrhs [Hrhs H]].
    apply bind_ok in H as [jn [Hjn H]]. apply bind_ok in H as [ln [Hln H]]. apply bind_ok in H as [[ns c1] [Hns H]].
    apply bind_ok in H as [jes [Hjes H]]. apply bind_ok in H as [le [Hle H]]. apply bind_ok in H as [ec [Hec H]].
    apply bind_ok in H as [oext [Hoext H]]. apply bind_ok in H as [lext [Hlext H]]. apply bind_ok in H as [ext [Hext _]].
    unfold rule_has_num. rewrite Hrhs.
    assert (length (list_of (jget jrhs k_nodes)) = length ns) as ->.
    { unfold list_of. rewrite Hjn, Hln. symmetry. eapply parse_nodes_length. exact Hns. }
    cbn [fst] in *. apply orb_false_iff. split.
    - unfold list_of at 2. rewrite Hjes, Hle. eapply parse_edges_accepts. exact Hec.
    - assert (list_of (jget jrhs k_externals) = lext) as ->.
      { unfold list_of, jget. unfold jget_opt in Hoext. destruct jrhs; try discriminate.
        inversion Hoext; subst. destruct (dict_find d k_externals) as [x|].
        - now rewrite Hlext.
        - now inversion Hlext. }
      eapply mapM_att_index_ok; [|exact Hext]. intros z x. apply p_ok.
  Qed.

  Lemma parse_rules_accepts : forall tbl l c acc r,
    parse_rules tbl l c acc = Ok r -> existsb (rule_has_num p) l = false.
  Proof.
    intros tbl. induction l as [|jr l IH]; intros c acc r H; cbn in H; [reflexivity|].
    apply bind_ok in H as [rc [Hrc H]]. cbn. now rewrite (parse_rule_accepts _ _ _ _ Hrc), (IH _ _ _ H).
  Qed.

  Lemma json_to_hrg_accepts : forall c j g, json_to_hrg_model c j = Ok g -> has_num p j = false.
  Proof.
    intros c j g H. unfold json_to_hrg_model in H.
    apply bind_ok in H as [jt [_ H]]. apply bind_ok in H as [it [_ H]]. apply bind_ok in H as [l1 [_ H]].
    apply bind_ok in H as [jn [_ H]]. apply bind_ok in H as [inn [_ H]]. apply bind_ok in H as [labels [_ H]].
    apply bind_ok in H as [js [_ H]]. apply bind_ok in H as [start [_ H]].
    destruct (el_term start); [discriminate|].
    apply bind_ok in H as [tbl [_ H]]. apply bind_ok in H as [jr [Hjr H]]. apply bind_ok in H as [lr [Hlr H]].
    apply bind_ok in H as [rs [Hrs _]].
    unfold has_num, list_of. rewrite Hjr, Hlr. eapply parse_rules_accepts. exact Hrs.
  Qed.
End Accepted.

(** whatever [json_to_hrg] accepts has all its node numbers within [0..n-1] *)
Theorem accepted_in_range : forall c j g, json_to_hrg_model c j = Ok g -> has_oor j = false.
Proof.
  intros c j g. apply json_to_hrg_accepts. intros nodes z x. apply att_index_ok_in_range.
Qed.

(** the document that exhibited F10 (attachment number -1) is now rejected with ValueError *)
Definition f10_doc : json :=
  JDict [(k_terminals, JDict [([116], JDict [(k_type, JList [JStr [78]; JStr [78]])])]);
         (k_nonterminals, JDict [([83], JDict [(k_type, JList [])])]);
         (k_start, JStr [83]);
         (k_rules, JList [JDict [(k_lhs, JStr [83]);
                                 (k_rhs, JDict [(k_nodes, JList [JDict [(k_label, JStr [78]); (k_id, JStr [97])];
                                                                 JDict [(k_label, JStr [78]); (k_id, JStr [98])]]);
                                                (k_edges, JList [JDict [(k_attachments, JList [JInt 0; JInt (-1)]);
                                                                        (k_label, JStr [116])]])])]])].

Example f10_doc_rejected : has_oor f10_doc = true /\ json_to_hrg_model 0 f10_doc = Err ValueErr.
Proof. split; vm_compute; reflexivity. Qed.

(** hypotheses of [parse_edges_rejects] are satisfiable: attachment number -1 with 2 nodes *)
Example parse_edges_rejects_ex :
  parse_edges [] [mkNode [78] (Explicit [97]); mkNode [78] (Explicit [98])]
              [JDict [(k_attachments, JList [JInt 0; JInt (-1)]); (k_label, JStr [116])]] 0 [] = Err ValueErr.
Proof.
  eapply parse_edges_rejects; [reflexivity|reflexivity| |].
  - repeat constructor; eexists; reflexivity.
  - apply Exists_cons_tl, Exists_cons_hd. reflexivity.
Qed.
