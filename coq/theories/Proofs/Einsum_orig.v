(** C07: from the operands the algorithm works on back to the given operands.  [default_to(zero)]
    and [freshen] must not change what the operands denote inside their shapes; this is the
    decidable premise [cert_pre] (brute-force denotations compared cell by cell, evaluated on every
    case).  Since the specification only reads the operands inside their shapes
    ([einsum_dense_ext_bounds]), it has the same value on both lists of operands. *)
From Coq Require Import List Arith Bool PeanoNat Lia PArith.
Import ListNotations.
Require Import Fggs.Model.Semiring Fggs.Model.SumProduct.
Require Import Fggs.Proofs.BigSum Fggs.Proofs.SP_trees.
Require Import Fggs.Model.Axis Fggs.Model.PTensor Fggs.Model.AxisCheck Fggs.Model.Einsum Fggs.Model.EinsumCheck Fggs.Model.EinsumCert.
Require Import Fggs.Proofs.Axis_sem Fggs.Proofs.Axis_repr Fggs.Proofs.PTensor_sem Fggs.Proofs.PTensor_dense.
Require Import Fggs.Proofs.Einsum_dense Fggs.Proofs.Einsum_envs Fggs.Proofs.Einsum_support Fggs.Proofs.Einsum_form.
Require Import Fggs.Proofs.Einsum_main Fggs.Proofs.Einsum_oracle Fggs.Proofs.Einsum_project Fggs.Proofs.Einsum_top.

Lemma combine_bound (f : nat -> nat) (ls vs : list nat) l v :
  Forall2 lt vs (map f ls) -> In (l, v) (combine ls vs) -> v < f l.
Proof.
  revert vs. induction ls as [|x ls IH]; intros [|y vs] F H; try contradiction.
  simpl in F. inversion F; subst. destruct H as [E|H]; [inversion E; subst; assumption|eauto].
Qed.

Lemma Forall2_In_combine {A B} (P : A -> B -> Prop) l l' a b : Forall2 P l l' -> In (a, b) (combine l l') -> P a b.
Proof. induction 1 as [|x y l l' E _ IH]; [intros []|]. intros [E'|H]; [inversion E'; subst; exact E|exact (IH H)]. Qed.

Section Orig.
Context {R : Type} (o : sr_ops R).
Notation ptensor := (ptensor R).
Notation dflt := ((@nil nat), (fun _ : list nat => Semiring.zero o)).

(** the specification reads the operands only inside their shapes *)
Theorem einsum_dense_ext_bounds (ops ops' : list (operand (R:=R))) inputs output oidx :
  map fst ops = map fst ops' ->
  Forall2 (fun op inp => fst op = map (lval (label_sizes (map fst ops) inputs)) inp) ops inputs ->
  Forall2 lt oidx (map (lval (label_sizes (map fst ops) inputs)) output) ->
  (forall j idx, j < length ops -> Forall2 lt idx (fst (nth j ops dflt)) ->
     snd (nth j ops dflt) idx = snd (nth j ops' dflt) idx) ->
  einsum_dense o ops inputs output oidx = einsum_dense o ops' inputs output oidx.
Proof.
  intros Hs Hdim Hb Hf. unfold einsum_dense. rewrite <- Hs. destruct (out_consistent output oidx) eqn:OC; [|reflexivity].
  cbv zeta. set (sz := label_sizes (map fst ops) inputs) in *. set (summed := summed_labels inputs output).
  apply (sumS_ext o). intros sv Hsv. apply in_all_assts in Hsv.
  set (env := combine output oidx ++ combine summed sv).
  assert (Lo : length output = length oidx).
  { apply Forall2_len in Hb. rewrite map_length in Hb. symmetry. exact Hb. }
  assert (Lsv : length sv = length summed).
  { apply Forall2_len in Hsv. rewrite map_length in Hsv. exact Hsv. }
  assert (B : forall l, In l (concat inputs) -> lval env l < lval sz l).
  { intros l Hl. unfold env, lval at 1. rewrite lassoc_app.
    destruct (lassoc l (combine output oidx)) as [v|] eqn:E1.
    - apply lassoc_In in E1. exact (combine_bound (lval sz) output oidx l v Hb E1).
    - assert (Hno : ~ In l output).
      { apply lassoc_None in E1. rewrite map_fst_combine_le in E1 by lia. exact E1. }
      assert (Hs' : In l summed) by (apply dedup_nat_In; split; assumption).
      destruct (lassoc l (combine summed sv)) as [v|] eqn:E2.
      + apply lassoc_In in E2. exact (combine_bound (lval sz) summed sv l v Hsv E2).
      + exfalso. apply lassoc_None in E2. rewrite map_fst_combine_le in E2 by lia. exact (E2 Hs'). }
  unfold einsum_term.
  assert (Hl : length ops = length ops') by (apply (f_equal (@length _)) in Hs; rewrite !map_length in Hs; exact Hs).
  clearbody env. clear Hs Hb Hsv OC Lo Lsv. revert ops' Hf Hl B. clearbody sz.
  induction Hdim as [|op inp ops0 inputs0 Ed Hd IH]; intros [|op' ops'] Hf Hl B; try discriminate; [reflexivity|].
  cbn [combine]. rewrite !(prodS_cons o). f_equal.
  - cbn [fst snd]. apply (Hf 0 _ (Nat.lt_0_succ _)). cbn [nth]. rewrite Ed.
    apply Forall2_map_l. intros l Hl'. apply B. simpl. apply in_or_app. left. exact Hl'.
  - apply IH; [|simpl in Hl; lia|].
    + intros j idx Hj Hb'. apply (Hf (S j) idx); [simpl; lia|exact Hb'].
    + intros l Hl'. apply B. simpl. apply in_or_app. right. exact Hl'.
Qed.

Variable veqb : R -> R -> bool.
Hypothesis Hveqb : forall a b, veqb a b = true -> a = b.

Theorem einsum_dense_original (r : erun (R:=R)) (ts0 : list ptensor) inputs output oidx :
  cert_operands o veqb r inputs output = true -> cert_pre veqb r ts0 = true ->
  Forall2 lt oidx (einsum_shape (map (dn (R:=R)) (map st_pt (er_ts r))) inputs output) ->
  einsum_dense o (map (dn (R:=R)) (map st_pt (er_ts r))) inputs output oidx
  = einsum_dense o (map (dn (R:=R)) ts0) inputs output oidx.
Proof.
  intros CO CP Hb. set (ts := map st_pt (er_ts r)) in *.
  destruct (co_facts o veqb Hveqb r inputs output CO) as (HL & HW & HD & HF & HN & Hout & Hi2v & Hsz). fold ts in HL, HW, HD, HF, HN, Hi2v, Hsz.
  unfold cert_pre in CP. fold ts in CP. apply andb_true_iff in CP. destruct CP as [CP P3]. apply andb_true_iff in CP. destruct CP as [P1 P2].
  apply Nat.eqb_eq in P1.
  pose proof (forallb_combine_Forall2 _ ts0 ts P1 P3) as F3. clear P3.
  assert (Es : map fst (map (dn (R:=R)) ts) = map fst (map (dn (R:=R)) ts0)).
  { rewrite !map_map. cbn [dn fst]. clear -F3. induction F3 as [|t0 t l l' E _ IH]; [reflexivity|].
    simpl. f_equal; [|exact IH]. cbn [fst snd] in E. apply andb_true_iff in E. destruct E as [E _]. apply leqb_eq in E. symmetry. exact E. }
  apply einsum_dense_ext_bounds; [exact Es| |exact Hb|].
  - (* every dimension has the size of its label *)
    rewrite map_map. cbn [dn fst]. change (map (fun x : ptensor => shape R x) ts) with (map (shape R) ts).
    assert (G : forall (tl : list ptensor) il, Forall2 (fun t inp => length (vaxes t) = length inp) tl il ->
              (forall l e, In (l, e) (occurrences tl il) -> In (l, e) (occurrences ts inputs)) ->
              Forall2 (fun op inp => fst op = map (lval (label_sizes (map (shape R) ts) inputs)) inp) (map (dn (R:=R)) tl) il).
    { induction 1 as [|t inp tl il Ft F2 IH]; intros Hocc; constructor.
      - cbn [dn fst]. unfold shape.
        apply (map_eq_combine numel (lval (label_sizes (map (shape R) ts) inputs)) (vaxes t) inp Ft). intros e l Hin.
        assert (Hoc : In (l, e) (occurrences ts inputs)) by (apply Hocc; rewrite occurrences_cons; apply in_or_app; left; exact Hin).
        destruct (Hsz l e Hoc) as (e0 & E0 & En). rewrite <- En. symmetry.
        pose proof (sz_spec ts inputs (er_i2v r) HF Hsz l e0) as S. rewrite map_map in S. cbn [dn fst] in S.
        apply S; [|exact E0]. apply (in_concat_occ ts inputs l HF). exists e. exact Hoc.
      - apply IH. intros l e Hin. apply Hocc. rewrite occurrences_cons. apply in_or_app. right. exact Hin. }
    apply (G ts inputs HF). auto.
  - (* the operands agree inside their shapes *)
    intros j idx Hj Hbj. rewrite map_length in Hj.
    set (d0 := mkPT (fun _ : list nat => Semiring.zero o) [] [] (Semiring.zero o)).
    rewrite (nth_indep (map (dn (R:=R)) ts) _ (dn d0)) in Hbj |- * by (rewrite map_length; exact Hj).
    rewrite (nth_indep (map (dn (R:=R)) ts0) _ (dn d0)) by (rewrite map_length; lia).
    rewrite !map_nth in *. cbn [dn fst snd] in *.
    set (t := nth j ts d0) in *. set (t0 := nth j ts0 d0).
    assert (Ht : In t ts) by (apply nth_In; exact Hj).
    assert (Ht0 : In t0 ts0) by (apply nth_In; lia).
    assert (Hpair : In (t0, t) (combine ts0 ts)).
    { unfold t0, t. rewrite <- (combine_nth ts0 ts j d0 d0 P1). apply nth_In. rewrite combine_length. lia. }
    pose proof (Forall2_In_combine _ _ _ _ _ F3 Hpair) as Q.
    cbv beta in Q. apply andb_true_iff in Q. destruct Q as [Q1 Q2]. apply leqb_eq in Q1.
    rewrite forallb_forall in Q2.
    assert (Hin : In idx (all_assts (shape R t0))) by (rewrite Q1; apply in_all_assts; exact Hbj).
    pose proof (Hveqb _ _ (Q2 idx Hin)) as Ed.
    assert (L : length idx = length (vaxes t)).
    { apply Forall2_len in Hbj. unfold shape in Hbj. rewrite map_length in Hbj. exact Hbj. }
    assert (L0 : length idx = length (vaxes t0)).
    { assert (X : length (shape R t0) = length (shape R t)) by (rewrite Q1; reflexivity). unfold shape in X. rewrite !map_length in X. lia. }
    rewrite Forall_forall in HW. rewrite forallb_forall in P2.
    rewrite <- (dspec_denote t idx (HW t Ht) L), <- Ed. apply dspec_denote; [|exact L0].
    exact (repr_inv_wf R t0 _ (P2 t0 Ht0)).
Qed.

(** the result of the run against the specification on the GIVEN operands *)
Hypothesis Hr : sr_ring o.

Theorem einsum_correct_original genabled next (ts0 : list (stensor (R:=R))) inputs output r :
  einsum_run o veqb genabled next ts0 inputs output = Ok r ->
  Forall (st_ok (R:=R)) (er_ts r) ->
  cert_pre veqb r (map st_pt ts0) = true -> cert_operands o veqb r inputs output = true ->
  (er_failed r || er_zero_axis r = false -> cert_subst r = true /\ cert_views r = true) ->
  cert_complete r inputs = true ->
  forall oidx, Forall2 lt oidx (einsum_shape (map (dn (R:=R)) (operands_of r)) inputs output) ->
  denote R (er_raw r) oidx = einsum_dense o (map (dn (R:=R)) (map st_pt ts0)) inputs output oidx.
Proof.
  intros Hrun OK CP CO CSV CC oidx Hb.
  rewrite <- (einsum_dense_original r (map st_pt ts0) inputs output oidx CO CP Hb).
  destruct (er_failed r || er_zero_axis r) eqn:Ez.
  - exact (einsum_zero_correct o Hr veqb Hveqb genabled next ts0 inputs output r Hrun Ez CO CC oidx).
  - apply orb_false_iff in Ez. destruct Ez as [Ef Eza]. destruct (CSV eq_refl) as [CS CV].
    assert (Lo : length oidx = length output).
    { apply Forall2_len in Hb. unfold einsum_shape in Hb. rewrite map_length in Hb. exact Hb. }
    exact (proj2 (einsum_raw_correct o Hr veqb Hveqb genabled next ts0 inputs output r Hrun Ef Eza OK CO CS CV oidx Lo) CC).
Qed.
End Orig.
