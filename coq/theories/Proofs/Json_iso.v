(** C14: what "the same grammar up to renaming of implicit ids" means ([hrg_iso]), and soundness
    of the executable checker [hrg_iso_b] that judges the implementation's round-tripped grammars. *)
From Coq Require Import List Arith Bool PeanoNat Lia Permutation.
Import ListNotations.
Require Import Fggs.Model.Json Fggs.Proofs.Json_base.
Local Open Scope nat_scope.

(** * the specification *)

(** explicit ids are kept; an implicit id may become any implicit id *)
Definition id_match (i i' : nid) : Prop :=
  match i, i' with
  | Explicit s, Explicit s' => s = s'
  | Implicit _, Implicit _ => True
  | _, _ => False
  end.

Definition node_match (v v' : node) : Prop := n_label v = n_label v' /\ id_match (n_id v) (n_id v').

(** the bijection between the nodes, given as two lists read in parallel *)
Definition paired (ns ns' : list node) (v v' : node) : Prop := In (v, v') (combine ns ns').

Definition edge_match (ns ns' : list node) (e e' : edge) : Prop :=
  e_label e = e_label e' /\ id_match (e_id e) (e_id e') /\ Forall2 (paired ns ns') (e_att e) (e_att e').

(** [ns]/[ns'] enumerate the nodes of [g]/[g'] without repetition (the node dicts compare as maps,
    so storage order is immaterial); corresponding nodes have the same label and the same explicit
    id; [ext] corresponds position by position; the edges correspond one to one with equal labels,
    matching ids and attachments corresponding position by position. *)
Definition graph_iso (g g' : graph) : Prop :=
  exists ns ns' es es',
    Permutation ns (g_nodes g) /\ Permutation ns' (g_nodes g') /\
    NoDup (map n_id ns) /\ NoDup (map n_id ns') /\
    Forall2 node_match ns ns' /\
    Forall2 (paired ns ns') (g_ext g) (g_ext g') /\
    Permutation es (g_edges g) /\ Permutation es' (g_edges g') /\
    Forall2 (edge_match ns ns') es es'.

Definition rule_iso (r r' : rule) : Prop := r_lhs r = r_lhs r' /\ graph_iso (r_rhs r) (r_rhs r').

(** the edge-label tables are the same map name -> label *)
Definition same_labels (g g' : hrg) : Prop :=
  NoDup (map el_name (h_labels g)) /\ NoDup (map el_name (h_labels g')) /\
  forall l, In l (h_labels g) <-> In l (h_labels g').

(** same start, same labels and types, the same left-hand sides in the same order, and for each the
    rules isomorphic in order *)
Definition hrg_iso (g g' : hrg) : Prop :=
  h_start g = h_start g' /\ same_labels g g' /\
  Forall2 (fun kl kl' => fst kl = fst kl' /\ Forall2 rule_iso (snd kl) (snd kl')) (h_rules g) (h_rules g').

(** * consequences of the specification *)
Lemma Forall2_concat : forall {A B : Type} (R : A -> B -> Prop) la lb,
  Forall2 (Forall2 R) la lb -> Forall2 R (concat la) (concat lb).
Proof. intros A B R la lb H. induction H; cbn; [constructor|]. now apply Forall2_app. Qed.

Lemma hrg_iso_all_rules : forall g g', hrg_iso g g' -> Forall2 rule_iso (all_rules g) (all_rules g').
Proof.
  intros g g' [_ [_ H]]. unfold all_rules. apply Forall2_concat.
  induction H as [|kl kl' l l' [_ Hr] _ IH]; cbn; constructor; assumption.
Qed.

Lemma hrg_iso_rules_of : forall g g' lhs, hrg_iso g g' ->
  Forall2 rule_iso (rules_of (h_rules g) lhs) (rules_of (h_rules g') lhs).
Proof.
  intros g g' lhs [_ [_ H]]. induction H as [|[k l] [k' l'] rs rs' [Hk Hr] _ IH]; cbn; [constructor|].
  cbn in Hk. subst k'. destruct (elabel_eqb k lhs); assumption.
Qed.

Lemma NoDup_map_inv' : forall {A B : Type} (f : A -> B) l, NoDup (map f l) -> NoDup l.
Proof.
  intros A B f. induction l as [|x l IH]; intro H; [constructor|]. cbn in H. inversion H; subst.
  constructor; [|now apply IH]. intro Hin. apply H2. now apply in_map.
Qed.

Lemma combine_fst_unique : forall {A B : Type} (la : list A) (lb : list B) a b1 b2,
  NoDup la -> In (a, b1) (combine la lb) -> In (a, b2) (combine la lb) -> b1 = b2.
Proof.
  intros A B. induction la as [|x la IH]; intros lb a b1 b2 Hnd H1 H2; [inversion H1|].
  destruct lb as [|y lb]; [inversion H1|]. cbn in *. inversion Hnd; subst.
  destruct H1 as [H1|H1], H2 as [H2|H2].
  - congruence.
  - inversion H1; subst. apply in_combine_l in H2. contradiction.
  - inversion H2; subst. apply in_combine_l in H1. contradiction.
  - eapply IH; eassumption.
Qed.

Lemma combine_snd_unique : forall {A B : Type} (la : list A) (lb : list B) a1 a2 b,
  NoDup lb -> In (a1, b) (combine la lb) -> In (a2, b) (combine la lb) -> a1 = a2.
Proof.
  intros A B. induction la as [|x la IH]; intros lb a1 a2 b Hnd H1 H2; [inversion H1|].
  destruct lb as [|y lb]; [inversion H1|]. cbn in *. inversion Hnd; subst.
  destruct H1 as [H1|H1], H2 as [H2|H2].
  - congruence.
  - inversion H1; subst. apply in_combine_r in H2. contradiction.
  - inversion H2; subst. apply in_combine_r in H1. contradiction.
  - eapply IH; eassumption.
Qed.

(** the pairing of a graph isomorphism is one-to-one ... *)
Lemma paired_functional : forall ns ns' v v1 v2,
  NoDup (map n_id ns) -> paired ns ns' v v1 -> paired ns ns' v v2 -> v1 = v2.
Proof. intros ns ns' v v1 v2 H. apply combine_fst_unique. eapply NoDup_map_inv'. exact H. Qed.

Lemma paired_injective : forall ns ns' v1 v2 v',
  NoDup (map n_id ns') -> paired ns ns' v1 v' -> paired ns ns' v2 v' -> v1 = v2.
Proof. intros ns ns' v1 v2 v' H. apply combine_snd_unique. eapply NoDup_map_inv'. exact H. Qed.

(** ... and the identity on nodes with an explicit id *)
Lemma paired_explicit_fixed : forall ns ns' v v' s,
  Forall2 node_match ns ns' -> paired ns ns' v v' -> n_id v = Explicit s -> v' = v.
Proof.
  intros ns ns' v v' s H. unfold paired. induction H as [|x y l l' [Hl Hi] _ IH]; intros Hp Hs; [inversion Hp|].
  cbn in Hp. destruct Hp as [Hp|Hp]; [|now apply IH].
  inversion Hp; subst. destruct v as [lv iv], v' as [lv' iv']. cbn in *. subst.
  destruct iv'; cbn in Hi; [now subst|contradiction].
Qed.

Lemma paired_label : forall ns ns' v v',
  Forall2 node_match ns ns' -> paired ns ns' v v' -> n_label v' = n_label v.
Proof.
  intros ns ns' v v' H. unfold paired. induction H as [|x y l l' [Hl Hi] _ IH]; intros Hp; [inversion Hp|].
  cbn in Hp. destruct Hp as [Hp|Hp]; [|now apply IH]. inversion Hp; subst. now symmetry.
Qed.

(** * soundness of the checker *)
Lemma forall2b_Forall2 : forall {A B : Type} (p : A -> B -> bool) (P : A -> B -> Prop) a b,
  (forall x y, p x y = true -> P x y) -> forall2b p a b = true -> Forall2 P a b.
Proof.
  intros A B p P. induction a as [|x a IH]; intros [|y b] Hp H; cbn in H; try discriminate; [constructor|].
  apply andb_true_iff in H as [H1 H2]. constructor; [now apply Hp|now apply IH].
Qed.

Lemma id_match_b_sound : forall i i', id_match_b i i' = true -> id_match i i'.
Proof. intros [s|n] [s'|n']; cbn; intro H; try discriminate; [now apply str_eqb_eq|exact I]. Qed.

Lemma node_match_b_sound : forall v v', node_match_b v v' = true -> node_match v v'.
Proof.
  intros v v' H. unfold node_match_b in H. apply andb_true_iff in H as [H1 H2].
  split; [now apply str_eqb_eq|now apply id_match_b_sound].
Qed.

Lemma paired_b_sound : forall ns ns' v v', paired_b ns ns' v v' = true -> paired ns ns' v v'.
Proof.
  intros ns ns' v v' H. unfold paired_b in H. apply existsb_exists in H as [[a b] [Hin H]]. cbn in H.
  apply andb_true_iff in H as [H1 H2]. apply node_eqb_eq in H1, H2. now subst.
Qed.

Lemma select_seq_gen : forall {A : Type} (pre l : list A),
  select (pre ++ l) (seq (length pre) (length l)) = Some l.
Proof.
  intros A pre l. revert pre. induction l as [|x l IH]; intro pre; cbn; [reflexivity|].
  rewrite nth_error_app2 by lia. rewrite Nat.sub_diag. cbn.
  specialize (IH (pre ++ [x])). rewrite <- app_assoc in IH. cbn in IH.
  rewrite app_length in IH. cbn in IH. rewrite Nat.add_1_r in IH. now rewrite IH.
Qed.

Lemma select_seq : forall {A : Type} (l : list A), select l (seq 0 (length l)) = Some l.
Proof. intros A l. exact (select_seq_gen [] l). Qed.

Lemma select_perm : forall {A : Type} (l : list A) p q r,
  Permutation p q -> select l p = Some r -> exists r', select l q = Some r' /\ Permutation r r'.
Proof.
  intros A l p q r H. revert r. induction H as [|i p q H IH|i j p|p q s H1 IH1 H2 IH2]; intros r Hs.
  - exists r. split; [assumption|reflexivity].
  - cbn in Hs. destruct (nth_error l i) as [x|] eqn:Ei; [|discriminate].
    destruct (select l p) as [r0|] eqn:Ep; [|discriminate]. inversion Hs; subst.
    destruct (IH r0 eq_refl) as [r' [Hr' Hp]]. exists (x :: r'). cbn. rewrite Ei, Hr'. split; [reflexivity|now constructor].
  - cbn in Hs. destruct (nth_error l j) as [y|] eqn:Ej; [|discriminate].
    destruct (nth_error l i) as [x|] eqn:Ei; [|discriminate].
    destruct (select l p) as [r0|] eqn:Ep; [|discriminate]. inversion Hs; subst.
    exists (x :: y :: r0). cbn. rewrite Ei, Ej, Ep. split; [reflexivity|apply perm_swap].
  - destruct (IH1 r Hs) as [r1 [Hr1 Hp1]]. destruct (IH2 r1 Hr1) as [r2 [Hr2 Hp2]].
    exists r2. split; [assumption|]. now transitivity r1.
Qed.

Lemma is_perm_select : forall {A : Type} (l : list A) p r,
  is_perm_b p (length l) = true -> select l p = Some r -> Permutation r l.
Proof.
  intros A l p r H Hs. unfold is_perm_b in H. apply andb_true_iff in H as [H H3]. apply andb_true_iff in H as [H1 H2].
  apply Nat.eqb_eq in H1. apply nodup_nat_NoDup in H2. rewrite forallb_forall in H3.
  assert (Permutation p (seq 0 (length l))) as Hp.
  { apply NoDup_Permutation_bis; [assumption|rewrite seq_length; lia|].
    intros i Hi. apply in_seq. specialize (H3 i Hi). apply Nat.ltb_lt in H3. lia. }
  destruct (select_perm l p _ r Hp Hs) as [r' [Hr' Hpr]]. rewrite select_seq in Hr'. inversion Hr'; subst.
  assumption.
Qed.

Theorem graph_iso_b_sound : forall g g' pn pe, graph_iso_b g g' pn pe = true -> graph_iso g g'.
Proof.
  intros g g' pn pe H. unfold graph_iso_b in H.
  destruct (select (g_nodes g') pn) as [ns'|] eqn:En; [|discriminate].
  destruct (select (g_edges g') pe) as [es'|] eqn:Ee; [|discriminate].
  do 6 (apply andb_true_iff in H as [H ?]).
  exists (g_nodes g), ns', (g_edges g), es'. repeat split.
  - reflexivity.
  - apply (is_perm_select (g_nodes g') pn ns'); assumption.
  - now apply nodup_ids_NoDup.
  - now apply nodup_ids_NoDup.
  - eapply forall2b_Forall2; [|eassumption]. apply node_match_b_sound.
  - eapply forall2b_Forall2; [|eassumption]. apply paired_b_sound.
  - reflexivity.
  - apply (is_perm_select (g_edges g') pe es'); assumption.
  - eapply forall2b_Forall2; [|eassumption]. intros e e' He. cbn in He.
    apply andb_true_iff in He as [He Ha]. apply andb_true_iff in He as [Hl Hi].
    split; [now apply elabel_eqb_eq|]. split; [now apply id_match_b_sound|].
    eapply forall2b_Forall2; [|eassumption]. apply paired_b_sound.
Qed.

Lemma rule_iso_b_sound : forall r r' p, rule_iso_b r r' p = true -> rule_iso r r'.
Proof.
  intros r r' p H. unfold rule_iso_b in H. apply andb_true_iff in H as [H1 H2].
  split; [now apply elabel_eqb_eq|]. eapply graph_iso_b_sound. exact H2.
Qed.

Lemma forall3b_Forall2 : forall {A B C : Type} (p : A -> B -> C -> bool) (P : A -> B -> Prop) a b c,
  (forall x y z, p x y z = true -> P x y) -> forall3b p a b c = true -> Forall2 P a b.
Proof.
  intros A B C p P. induction a as [|x a IH]; intros [|y b] [|z c] Hp H; cbn in H; try discriminate; [constructor|].
  apply andb_true_iff in H as [H1 H2]. constructor; [eapply Hp; exact H1|eapply IH; eassumption].
Qed.

Lemma app_eq_length : forall {A : Type} (a c b d : list A), length a = length c -> a ++ b = c ++ d -> a = c /\ b = d.
Proof.
  intros A. induction a as [|x a IH]; intros [|y c] b d Hl H; cbn in *; try discriminate; [now split|].
  inversion H; subst. destruct (IH c b d) as [-> ->]; [lia|assumption|now split].
Qed.

Lemma Forall2_len : forall {A B : Type} (R : A -> B -> Prop) a b, Forall2 R a b -> length a = length b.
Proof. intros A B R a b H. induction H; cbn; [reflexivity|]. now f_equal. Qed.

Lemma Forall2_concat_split : forall {A B : Type} (R : A -> B -> Prop) la lb,
  Forall2 (fun x y => length x = length y) la lb -> Forall2 R (concat la) (concat lb) ->
  Forall2 (Forall2 R) la lb.
Proof.
  intros A B R la lb Hl. induction Hl as [|x y la lb Hxy _ IH]; intro H; cbn in H; [constructor|].
  apply Forall2_app_inv_l in H as [l1 [l2 [H1 [H2 E]]]].
  assert (length x = length l1) as Hlen by (eapply Forall2_len; exact H1).
  destruct (app_eq_length y l1 (concat lb) l2) as [E1 E2]; [congruence|assumption|]. subst l1 l2.
  constructor; [assumption|now apply IH].
Qed.

Theorem hrg_iso_b_sound : forall g g' perms, hrg_iso_b g g' perms = true -> hrg_iso g g'.
Proof.
  intros g g' perms H. unfold hrg_iso_b in H. do 6 (apply andb_true_iff in H as [H ?]).
  split; [now apply elabel_eqb_eq|]. split.
  - split; [now apply nodup_strs_NoDup|]. split; [now apply nodup_strs_NoDup|].
    intro l. split; intro Hin.
    + apply label_mem_In. match goal with Hf : forallb _ (h_labels g) = true |- _ => rewrite forallb_forall in Hf; now apply Hf end.
    + apply label_mem_In. match goal with Hf : forallb _ (h_labels g') = true |- _ => rewrite forallb_forall in Hf; now apply Hf end.
  - assert (Forall2 rule_iso (all_rules g) (all_rules g')) as Hall.
    { eapply forall3b_Forall2; [|eassumption]. apply rule_iso_b_sound. }
    match goal with Hk : forall2b _ (h_rules g) (h_rules g') = true |- _ => rename Hk into Hkeys end.
    assert (Forall2 (fun kl kl' => fst kl = fst kl' /\ length (snd kl) = length (snd kl')) (h_rules g) (h_rules g')) as Hk.
    { eapply forall2b_Forall2; [|exact Hkeys]. intros kl kl' Hb. cbn in Hb. apply andb_true_iff in Hb as [Hb1 Hb2].
      split; [now apply elabel_eqb_eq|now apply Nat.eqb_eq]. }
    unfold all_rules in Hall. apply Forall2_concat_split in Hall.
    + clear - Hk Hall. induction Hk as [|kl kl' l l' [Hf _] _ IH]; cbn in *; [constructor|].
      inversion Hall; subst. constructor; [now split|now apply IH].
    + clear - Hk. induction Hk as [|kl kl' l l' [_ Hlen] _ IH]; cbn; constructor; assumption.
Qed.

(** [align_rules] only changes the order of the left-hand sides *)
Lemma align_rules_rules_of : forall g g' k, NoDup (map fst (h_rules g)) -> In k (map fst (h_rules g)) ->
  rules_of (h_rules (align_rules g g')) k = rules_of (h_rules g') k.
Proof.
  intros g g' k. unfold align_rules. cbn [h_rules]. generalize (h_rules g'). intro R'.
  induction (h_rules g) as [|[k0 l0] R IH]; intros Hnd Hin; [inversion Hin|].
  cbn [map fst rules_of] in *. inversion Hnd as [|? ? Hn Hnd']; subst.
  destruct (elabel_eqb k0 k) eqn:E.
  - apply elabel_eqb_eq in E. now subst.
  - apply elabel_eqb_neq in E. destruct Hin as [Hin|Hin]; [contradiction|]. now apply IH.
Qed.

Lemma align_rules_labels : forall g g', h_labels (align_rules g g') = h_labels g' /\ h_start (align_rules g g') = h_start g'.
Proof. intros. split; reflexivity. Qed.

(** the hypotheses are satisfiable: a two-node rule whose nodes are stored in the other order and
    whose implicit node was renumbered *)
Example graph_iso_b_ex :
  let t := mkEL [116] [[78]; [78]] true in
  let a := mkNode [78] (Explicit [97]) in
  graph_iso_b (mkGraph [mkNode [78] (Implicit 7); a] [mkEdge t [a; mkNode [78] (Implicit 7)] (Implicit 8)] [a])
              (mkGraph [a; mkNode [78] (Implicit 0)] [mkEdge t [a; mkNode [78] (Implicit 0)] (Implicit 1)] [a])
              [1; 0] [0] = true.
Proof. reflexivity. Qed.
