(** C20, part 3: InterpretationMixin -- add_domain, add_factor, new_finite_domain,
    new_finite_factor, shape.  add_factor succeeds iff the label is terminal, consistent with the
    label table, not bound yet, and the factor's domains equal the domains of the label's node
    labels one by one.  (Before /repo 19d007a a bound label was silently rebound, F14: kept as a
    record about [add_factor_old] at the end.) *)
From Coq Require Import List Arith Bool PeanoNat ZArith QArith Lia.
Import ListNotations.
Require Import Fggs.Model.Domain Fggs.Proofs.Domain_dom Fggs.Proofs.Domain_fac.
Local Open Scope nat_scope.

Lemma elabel_eqb_eq a b : elabel_eqb a b = true <-> a = b.
Proof.
  destruct a as [[n1 t1] b1], b as [[n2 t2] b2]. unfold elabel_eqb, el_name, el_type, el_terminal; cbn [fst snd].
  rewrite !andb_true_iff, Nat.eqb_eq, nat_list_eqb_eq, eqb_true_iff.
  split; [intros [[-> ->] ->]; auto | intros H; injection H; auto].
Qed.

Lemma el_find_name l n e : el_find l n = Some e -> el_name e = n.
Proof.
  induction l as [|a l IH]; cbn; [discriminate|].
  destruct (Nat.eqb (el_name a) n) eqn:E; auto.
  intros H; injection H as <-. apply Nat.eqb_eq; auto.
Qed.

Lemma el_find_set l e n :
  el_find (el_set l e) n = if Nat.eqb (el_name e) n then Some e else el_find l n.
Proof.
  induction l as [|a l IH]; cbn.
  - reflexivity.
  - destruct (Nat.eqb (el_name a) (el_name e)) eqn:E; cbn.
    + apply Nat.eqb_eq in E. rewrite E. destruct (Nat.eqb (el_name e) n); reflexivity.
    + destruct (Nat.eqb (el_name a) n) eqn:E'.
      * apply Nat.eqb_eq in E'. destruct (Nat.eqb (el_name e) n) eqn:E''; auto.
        apply Nat.eqb_eq in E''. apply Nat.eqb_neq in E. congruence.
      * apply IH.
Qed.

Lemma mapM_Forall2 {A B} (f : A -> result B) : forall l bs,
  mapM f l = Ok bs <-> Forall2 (fun a b => f a = Ok b) l bs.
Proof.
  induction l as [|a l IH]; intros bs; cbn.
  - split.
    + intros H; injection H as <-. constructor.
    + intros H; inversion H; reflexivity.
  - destruct (f a) as [b|e] eqn:Ea.
    + destruct (mapM f l) as [bs'|e] eqn:El.
      * split.
        -- intros H; injection H as <-. constructor; auto. apply IH; reflexivity.
        -- intros H; inversion H; subst. f_equal. f_equal; [congruence|].
           assert (Ok bs' = Ok l') by (apply IH; auto). congruence.
      * split; [discriminate|]. intros H; inversion H; subst.
        assert (Err e = Ok l') by (apply IH; auto). discriminate.
    + split; [discriminate|]. intros H; inversion H; subst. congruence.
Qed.

(** * add_domain *)
Theorem add_domain_iff s n d :
  snd (add_domain s n d) = RNone <-> dmem Nat.eqb (st_doms s) n = false.
Proof.
  unfold add_domain. cbn [add_node_label st_doms mk_state fst snd].
  destruct (dmem Nat.eqb (st_doms s) n); cbn; split; auto; discriminate.
Qed.

(** a failing add_domain raises ValueError and leaves every table unchanged *)
Theorem add_domain_fails s n d : dmem Nat.eqb (st_doms s) n = true ->
  add_domain s n d = (s, RErr ValueErr).
Proof. unfold add_domain. intros ->. reflexivity. Qed.

Theorem add_domain_post s n d : dmem Nat.eqb (st_doms s) n = false ->
  let s' := fst (add_domain s n d) in
  dget Nat.eqb (st_doms s') n = Some d /\
  (forall m, m <> n -> dget Nat.eqb (st_doms s') m = dget Nat.eqb (st_doms s) m) /\
  st_facs s' = st_facs s /\ st_els s' = st_els s.
Proof.
  unfold add_domain. cbn [add_node_label st_doms mk_state fst snd]. intros ->.
  cbn [fst snd st_doms st_facs st_els mk_state].
  split; [|split; [|split; reflexivity]].
  - rewrite (dget_dset Nat.eqb Nat.eqb_eq), Nat.eqb_refl. reflexivity.
  - intros m Hm. rewrite (dget_dset Nat.eqb Nat.eqb_eq).
    destruct (Nat.eqb n m) eqn:E; auto. apply Nat.eqb_eq in E. congruence.
Qed.

Theorem new_finite_domain_iff s n k items :
  (snd (new_finite_domain s n k items) = RDom (mk_finite k items) <-> dmem Nat.eqb (st_doms s) n = false) /\
  (dmem Nat.eqb (st_doms s) n = true -> new_finite_domain s n k items = (s, RErr ValueErr)).
Proof.
  unfold new_finite_domain, add_domain. cbn [add_node_label st_doms mk_state fst snd].
  destruct (dmem Nat.eqb (st_doms s) n); cbn; split; try split; auto; discriminate.
Qed.

(** * add_factor *)
Lemma doms_match_check doms : forall nls ds,
  doms_match doms nls ds = Nat.eqb (length ds) (length nls) && check_doms doms nls ds.
Proof.
  induction nls as [|nl nls IH]; intros [|d ds]; cbn; auto.
  destruct (dget Nat.eqb doms nl) as [d'|]; [|rewrite andb_false_r; reflexivity].
  destruct (dom_eqb d d'); cbn; [apply IH | rewrite andb_false_r; reflexivity].
Qed.

(** the meaning of the boolean specification *)
Theorem doms_match_iff doms nls ds :
  doms_match doms nls ds = true <->
  Forall2 (fun nl d => exists d', dget Nat.eqb doms nl = Some d' /\ dom_content d = dom_content d') nls ds.
Proof.
  revert ds. induction nls as [|nl nls IH]; intros [|d ds]; cbn.
  - split; [constructor | reflexivity].
  - split; [discriminate|]. intros H; inversion H.
  - split; [discriminate|]. intros H; inversion H.
  - destruct (dget Nat.eqb doms nl) as [d'|] eqn:E.
    + rewrite andb_true_iff, IH, dom_eqb_content. split.
      * intros [H1 H2]. constructor; [exists d'; split; auto | auto].
      * intros H; inversion H; subst. destruct H3 as [d'' [E1 E2]].
        rewrite E in E1. injection E1 as <-. auto.
    + split; [discriminate|]. intros H; inversion H; subst. destruct H3 as [d'' [E1 _]]. congruence.
Qed.

Theorem bind_spec_guarded_iff s e f :
  bind_spec_guarded s e f = true <->
  el_terminal e = true /\
  (forall e', el_find (st_els s) (el_name e) = Some e' -> e' = e) /\
  length (fac_doms f) = length (el_type e) /\
  Forall2 (fun nl d => exists d', dget Nat.eqb (st_doms s) nl = Some d' /\ dom_content d = dom_content d')
          (el_type e) (fac_doms f).
Proof.
  unfold bind_spec_guarded, label_consistent. rewrite !andb_true_iff, doms_match_iff. split.
  - intros [[H1 H2] H3]. split; auto. split; [|split; auto].
    + intros e' E. rewrite E in H2. apply elabel_eqb_eq; auto.
    + symmetry. eapply Forall2_len; eauto.
  - intros [H1 [H2 [_ H4]]]. split; auto. split; auto.
    destruct (el_find (st_els s) (el_name e)) as [e'|]; auto.
    apply elabel_eqb_eq. auto.
Qed.

(** what add_factor does, in equations *)
Ltac af_unfold :=
  unfold add_factor, label_clash, bind_spec, bind_spec_guarded, label_consistent, add_edge_label, label_bound, fac_arity.
Ltac af_leaf := repeat split; auto; try discriminate.

Lemma add_factor_run s e f :
  snd (add_factor s e f) = (if bind_spec s e f then RNone else RErr ValueErr) /\
  (bind_spec s e f = false -> fst (add_factor s e f) = s) /\
  st_doms (fst (add_factor s e f)) = st_doms s /\
  st_facs (fst (add_factor s e f)) =
    (if bind_spec s e f then dset Nat.eqb (st_facs s) (el_name e) f else st_facs s) /\
  st_nls (fst (add_factor s e f)) = st_nls s /\
  (bind_spec s e f = true -> st_els (fst (add_factor s e f)) = el_set (st_els s) e).
Proof.
  af_unfold. rewrite doms_match_check.
  destruct (el_terminal e); cbn [negb andb]; [|af_leaf].
  destruct (el_find (st_els s) (el_name e)) as [e'|];
    [destruct (elabel_eqb e' e); cbn [negb andb]; [|af_leaf]|];
    (destruct (dmem Nat.eqb (st_facs s) (el_name e)); cbn [negb];
     rewrite ?andb_false_r, ?andb_true_r; [af_leaf|]);
    (destruct (Nat.eqb (length (fac_doms f)) (length (el_type e))); cbn [negb andb]; [|af_leaf]);
    (destruct (check_doms (st_doms s) (el_type e) (fac_doms f));
     cbn [negb fst snd st_doms st_facs st_els st_nls mk_state]; [|af_leaf]);
    af_leaf.
Qed.

Lemma add_factor_outcome s e f :
  snd (add_factor s e f) = if bind_spec s e f then RNone else RErr ValueErr.
Proof. apply add_factor_run. Qed.

Theorem bind_spec_iff s e f :
  bind_spec s e f = true <->
  el_terminal e = true /\
  (forall e', el_find (st_els s) (el_name e) = Some e' -> e' = e) /\
  length (fac_doms f) = length (el_type e) /\
  Forall2 (fun nl d => exists d', dget Nat.eqb (st_doms s) nl = Some d' /\ dom_content d = dom_content d')
          (el_type e) (fac_doms f) /\
  dmem Nat.eqb (st_facs s) (el_name e) = false.
Proof.
  unfold bind_spec. rewrite andb_true_iff, negb_true_iff, bind_spec_guarded_iff. tauto.
Qed.

(** C20_binding, full strength: add_factor succeeds iff the label is terminal, no different
    label of that name is registered, arities agree, every node label is mapped to a domain equal
    to the factor's, and the label is not already bound *)
Theorem add_factor_iff s e f :
  snd (add_factor s e f) = RNone <->
  el_terminal e = true /\
  (forall e', el_find (st_els s) (el_name e) = Some e' -> e' = e) /\
  length (fac_doms f) = length (el_type e) /\
  Forall2 (fun nl d => exists d', dget Nat.eqb (st_doms s) nl = Some d' /\ dom_content d = dom_content d')
          (el_type e) (fac_doms f) /\
  dmem Nat.eqb (st_facs s) (el_name e) = false.
Proof.
  rewrite add_factor_outcome, <- bind_spec_iff.
  destruct (bind_spec s e f); split; auto; discriminate.
Qed.

Theorem add_factor_spec s e f : snd (add_factor s e f) = RNone <-> bind_spec s e f = true.
Proof. rewrite add_factor_outcome. destruct (bind_spec s e f); split; auto; discriminate. Qed.

(** a failing add_factor raises ValueError and leaves every table unchanged (since /repo 6c89611
    the label is registered only when the call succeeds) *)
Theorem add_factor_fails s e f : snd (add_factor s e f) <> RNone ->
  add_factor s e f = (s, RErr ValueErr).
Proof.
  destruct (add_factor_run s e f) as [Ho [Hs _]]. rewrite Ho.
  destruct (bind_spec s e f); [congruence|]. intros _.
  destruct (add_factor s e f) as [s1 r]. cbn [fst snd] in *. rewrite Ho, (Hs eq_refl). reflexivity.
Qed.

(** a successful add_factor registers the label, stores the factor, and changes nothing else *)
Theorem add_factor_post s e f : snd (add_factor s e f) = RNone ->
  let s' := fst (add_factor s e f) in
  dget Nat.eqb (st_facs s') (el_name e) = Some f /\
  (forall m, m <> el_name e -> dget Nat.eqb (st_facs s') m = dget Nat.eqb (st_facs s) m) /\
  st_doms s' = st_doms s /\ st_nls s' = st_nls s /\
  el_find (st_els s') (el_name e) = Some e /\
  (forall m, m <> el_name e -> el_find (st_els s') m = el_find (st_els s) m).
Proof.
  destruct (add_factor_run s e f) as [Ho [_ [Hd [Hf [Hn He]]]]]. rewrite Ho.
  destruct (bind_spec s e f); [|discriminate]. intros _. cbv zeta. rewrite Hf, Hd, Hn, (He eq_refl).
  split; [|split; [|split; [|split; [|split]]]]; auto.
  - rewrite (dget_dset Nat.eqb Nat.eqb_eq), Nat.eqb_refl. reflexivity.
  - intros m Hne. rewrite (dget_dset Nat.eqb Nat.eqb_eq).
    destruct (Nat.eqb (el_name e) m) eqn:E; auto. apply Nat.eqb_eq in E. congruence.
  - rewrite el_find_set, Nat.eqb_refl. reflexivity.
  - intros m Hne. rewrite el_find_set.
    destruct (Nat.eqb (el_name e) m) eqn:E; auto. apply Nat.eqb_eq in E. congruence.
Qed.

(** a bound label is refused and nothing changes *)
Theorem add_factor_bound s e f : dmem Nat.eqb (st_facs s) (el_name e) = true ->
  add_factor s e f = (s, RErr ValueErr).
Proof.
  intros Hb. apply add_factor_fails. rewrite add_factor_outcome.
  assert (E : bind_spec s e f = false) by (unfold bind_spec; rewrite Hb; apply andb_false_r).
  rewrite E. discriminate.
Qed.

Example binding_example :
  let d := mk_finite Reiterable [VOther 0; VOther 1] in
  let s : istate := ([0], [], [(0, d)], []) in
  let f := FFinite [mk_finite OneShot [VOther 0; VOther 1]; d] [2; 2] [1; 2; 3; 4]%Q in
  bind_spec s (7, [0; 0], true) f = true /\
  snd (add_factor s (7, [0; 0], true) f) = RNone /\
  snd (add_factor (fst (add_factor s (7, [0; 0], true) f)) (7, [0; 0], true) f) = RErr ValueErr.
Proof. repeat split; reflexivity. Qed.

(** * shape *)
Theorem shape_of_iff s a sh :
  shape_of s a = Ok sh <->
  Forall2 (fun nl sz => exists d, dget Nat.eqb (st_doms s) nl = Some d /\ dom_size d = sz) (shape_labels a) sh.
Proof.
  unfold shape_of. rewrite mapM_Forall2. split; intros H.
  - induction H as [|nl sz nls szs H1 H2 IH]; constructor; auto.
    destruct (dget Nat.eqb (st_doms s) nl) as [d|]; [|discriminate]. injection H1 as <-. eauto.
  - induction H as [|nl sz nls szs H1 H2 IH]; constructor; auto.
    destruct H1 as [d [-> <-]]. reflexivity.
Qed.

Theorem shape_of_keyerror s a nl :
  In nl (shape_labels a) -> dget Nat.eqb (st_doms s) nl = None -> exists e, shape_of s a = Err e.
Proof.
  intros Hin Hn. destruct (shape_of s a) as [sh|e] eqn:E; eauto.
  apply shape_of_iff in E. exfalso. revert Hin. induction E as [|x sz nls szs H1 H2 IH]; cbn; auto.
  intros [->|H]; auto. destruct H1 as [d [H1 _]]. congruence.
Qed.

(** the four kinds of argument mean the same list of node labels *)
Theorem shape_arg_kinds s e :
  shape_of s (SEdgeLabel e) = shape_of s (SLabels (el_type e)) /\
  shape_of s (SEdge e) = shape_of s (SLabels (el_type e)) /\
  shape_of s (SNodes (el_type e)) = shape_of s (SLabels (el_type e)).
Proof. repeat split; reflexivity. Qed.

(** after a successful binding, shape(label) is the tuple of the factor's domain sizes -- for a
    FiniteFactor built by the constructor, the shape of its weights *)
Theorem shape_after_binding s e f : snd (add_factor s e f) = RNone ->
  shape_of (fst (add_factor s e f)) (SEdgeLabel e) = Ok (map dom_size (fac_doms f)).
Proof.
  intros H. pose proof (add_factor_post s e f H) as [_ [_ [Hd _]]].
  apply add_factor_iff in H. destruct H as [_ [_ [_ [HF _]]]].
  apply shape_of_iff. cbn [shape_labels]. rewrite Hd.
  induction HF as [|nl d nls ds [d' [H1 H2]] HF IH]; cbn [map]; constructor; auto.
  exists d'. split; auto. symmetry. apply dom_eqb_size, dom_eqb_content; auto.
Qed.

Corollary shape_after_binding_finite s e doms w sh d :
  mk_finite_factor doms w = Ok (FFinite doms sh d) ->
  snd (add_factor s e (FFinite doms sh d)) = RNone ->
  shape_of (fst (add_factor s e (FFinite doms sh d))) (SEdgeLabel e) = Ok (map Some sh).
Proof.
  intros Hm Hb. rewrite (shape_after_binding s e _ Hb). cbn [fac_doms].
  apply finite_factor_accepts_iff in Hm. destruct Hm as [Hf [sh' [d' [_ [E1 E2]]]]].
  injection E2 as E2 _. subst sh sh'. rewrite sizes_of_size; auto.
Qed.

(** * new_finite_factor *)
Lemma check_doms_self doms : forall nls ds,
  mapM (fun nl => match dget Nat.eqb doms nl with Some d => Ok d | None => Err KeyErr end) nls = Ok ds ->
  doms_match doms nls ds = true.
Proof.
  intros nls ds H. apply mapM_Forall2 in H. apply doms_match_iff.
  induction H as [|nl d nls ds H1 H2 IH]; constructor; auto.
  destruct (dget Nat.eqb doms nl) as [d'|]; [|discriminate]. injection H1 as ->. eauto.
Qed.

(** new_finite_factor(name, weights) returns the new factor iff the name is a registered terminal
    label without a factor, all its node labels have domains, and the weights have the shape of
    those domains' sizes *)
Theorem new_finite_factor_iff s n w f :
  snd (new_finite_factor s n w) = RFac f <->
  exists e doms, el_find (st_els s) n = Some e /\ el_terminal e = true /\
    dmem Nat.eqb (st_facs s) n = false /\
    mapM (fun nl => match dget Nat.eqb (st_doms s) nl with Some d => Ok d | None => Err KeyErr end) (el_type e) = Ok doms /\
    mk_finite_factor doms w = Ok f.
Proof.
  unfold new_finite_factor.
  destruct (el_find (st_els s) n) as [e|] eqn:Ee.
  2:{ cbn. split; [discriminate|]. intros [e [doms [H _]]]. discriminate. }
  destruct (mapM (fun nl => match dget Nat.eqb (st_doms s) nl with Some d => Ok d | None => Err KeyErr end) (el_type e))
    as [doms|x] eqn:Ed.
  2:{ cbn. split; [discriminate|]. intros [e' [doms [H [_ [_ [H2 _]]]]]]. injection H as <-. congruence. }
  destruct (mk_finite_factor doms w) as [f'|x] eqn:Ef.
  2:{ cbn. split; [discriminate|]. intros [e' [doms' [H [_ [_ [H2 H3]]]]]]. injection H as <-.
      rewrite Ed in H2. injection H2 as <-. congruence. }
  pose proof (add_factor_outcome s e f') as Ho.
  assert (Hg : bind_spec s e f' = el_terminal e && negb (dmem Nat.eqb (st_facs s) n)).
  { unfold bind_spec, bind_spec_guarded, label_consistent. rewrite (el_find_name _ _ _ Ee), Ee.
    assert (elabel_eqb e e = true) as -> by (apply elabel_eqb_eq; reflexivity).
    apply finite_factor_accepts_iff in Ef. destruct Ef as [_ [sh [d [_ [_ ->]]]]]. cbn [fac_doms].
    rewrite (check_doms_self _ _ _ Ed). destruct (el_terminal e); reflexivity. }
  rewrite Hg in Ho. destruct (add_factor s e f') as [s1 r]. cbn [snd] in Ho. subst r.
  destruct (el_terminal e) eqn:Et, (dmem Nat.eqb (st_facs s) n) eqn:Eb; cbn [snd andb negb].
  - split; [discriminate|]. intros [e' [doms' [H [_ [H1 _]]]]]. discriminate.
  - split.
    + intros H; injection H as <-. exists e, doms. auto.
    + intros [e' [doms' [H [_ [_ [H2 H3]]]]]]. injection H as <-. rewrite Ed in H2. injection H2 as <-. congruence.
  - split; [discriminate|]. intros [e' [doms' [H [H1 _]]]]. injection H as <-. congruence.
  - split; [discriminate|]. intros [e' [doms' [H [H1 _]]]]. injection H as <-. congruence.
Qed.

(** * The verdict the check computes for the model's own outcome is 0 *)
Theorem step_oracle_add_factor s e f :
  step_oracle s (OAddFactor e f) (snd (add_factor s e f)) = 0.
Proof.
  cbn [step_oracle]. rewrite add_factor_outcome.
  destruct (bind_spec s e f); reflexivity.
Qed.

(** * Record of F14 (repaired in /repo 19d007a) *)
(** [el in self.factors] looked an EdgeLabel up among str keys: constantly false *)
Definition add_factor_old (s : istate) (e : elabel) (f : factor) : istate * outcome :=
  if negb (el_terminal e) then (s, RErr ValueErr)
  else match add_edge_label s e with
       | (s1, RNone) =>
         if existsb (fun _ : name * factor => false) (st_facs s1) then (s1, RErr ValueErr)
         else if negb (Nat.eqb (fac_arity f) (length (el_type e))) then (s1, RErr ValueErr)
         else if negb (check_doms (st_doms s1) (el_type e) (fac_doms f)) then (s1, RErr ValueErr)
         else (mk_state (st_nls s1) (st_els s1) (st_doms s1) (dset Nat.eqb (st_facs s1) (el_name e) f), RNone)
       | (s1, r) => (s1, r)
       end.
Definition f14_state : istate := ([], [(0, [], true)], [], [(0, FConst [] 1)]).
Theorem binding_refuted_old :
  dmem Nat.eqb (st_facs f14_state) 0 = true /\
  snd (add_factor_old f14_state (0, [], true) (FConst [] 2)) = RNone /\
  dget Nat.eqb (st_facs (fst (add_factor_old f14_state (0, [], true) (FConst [] 2)))) 0 = Some (FConst [] 2) /\
  snd (add_factor f14_state (0, [], true) (FConst [] 2)) = RErr ValueErr.
Proof. repeat split; reflexivity. Qed.

(** new_finite_factor, too, changes nothing unless it returns the new factor *)
Theorem new_finite_factor_fails s n w :
  (forall f, snd (new_finite_factor s n w) <> RFac f) -> fst (new_finite_factor s n w) = s.
Proof.
  unfold new_finite_factor.
  destruct (el_find (st_els s) n) as [e|]; [|reflexivity].
  destruct (mapM (fun nl => match dget Nat.eqb (st_doms s) nl with Some d => Ok d | None => Err KeyErr end) (el_type e))
    as [doms|x]; [|reflexivity].
  destruct (mk_finite_factor doms w) as [f|x]; [|reflexivity].
  intros H. destruct (add_factor s e f) as [s1 r] eqn:E.
  destruct r;
    try (assert (Hn : snd (add_factor s e f) <> RNone) by (rewrite E; discriminate);
         rewrite (add_factor_fails s e f Hn) in E; injection E as <- _; reflexivity).
  exfalso. apply (H f). reflexivity.
Qed.
