(** C01: the special shapes the property lists, as corollaries about [rule_val] / [spe] / [Zk]:
    isolated internal node (factor [from_nat |dom|]), nullary factor, external node without
    edge (broadcast), edge attached twice to one node (diagonal), rule-less nonterminal (zero),
    start symbol of any arity; the Boolean instance. *)
From Coq Require Import List Arith Bool PeanoNat Lia Permutation Ring Ring_theory.
Import ListNotations.
Require Import Fggs.Model.Semiring Fggs.Model.SCC Fggs.Model.SumProduct.
Require Import Fggs.Proofs.SCC_ntgraph Fggs.Proofs.BigSum Fggs.Proofs.SP_trees Fggs.Proofs.SP_nonrec
               Fggs.Proofs.SP_code Fggs.Proofs.SP_rename Fggs.Proofs.SP_spe Fggs.Proofs.SP_driver
               Fggs.Proofs.SP_main.

(** the rule with one more node (label [nl]) attached to nothing and not external *)
Definition add_node (r : rule) (nl : nat) : rule :=
  {| r_lhs := r_lhs r; r_nodes := r_nodes r ++ [nl]; r_edges := r_edges r; r_ext := r_ext r |}.
(** the rule with one more edge in front *)
Definition add_edge (r : rule) (ed : nat * list nat) : rule :=
  {| r_lhs := r_lhs r; r_nodes := r_nodes r; r_edges := ed :: r_edges r; r_ext := r_ext r |}.

Lemma sel_app_l a i att : (forall u, In u att -> u < length a) -> sel (a ++ [i]) att = sel a att.
Proof. intros H. apply sel_eq_In. intros u Hu. apply app_nth1. now apply H. Qed.

Lemma map_nth_app_l (nodes : list nat) nl att :
  (forall u, In u att -> u < length nodes) ->
  map (fun i => nth i (nodes ++ [nl]) 0) att = map (fun i => nth i nodes 0) att.
Proof. intros H. apply map_ext_in. intros u Hu. apply app_nth1. now apply H. Qed.

Lemma forallb_ltb_weaken l n m : n <= m -> forallb (fun i => i <? n) l = true -> forallb (fun i => i <? m) l = true.
Proof.
  intros Hnm. rewrite !forallb_forall. intros H u Hu. specialize (H u Hu).
  apply Nat.ltb_lt in H. apply Nat.ltb_lt. lia.
Qed.

Lemma wf_add_node G r nl : wf_rule G r = true -> nl < length (g_doms G) -> wf_rule G (add_node r nl) = true.
Proof.
  unfold wf_rule. cbn [add_node r_lhs r_nodes r_edges r_ext]. rewrite !andb_true_iff.
  intros (((((H1 & H2) & H3) & H4) & H5) & H6) Hnl.
  assert (Hlen : length (r_nodes r) <= length (r_nodes r ++ [nl])) by (rewrite app_length; lia).
  repeat split; trivial.
  - rewrite forallb_app, H3. cbn [forallb]. now rewrite (proj2 (Nat.ltb_lt _ _) Hnl).
  - rewrite forallb_forall in *. intros ed Hed. specialize (H4 ed Hed). rewrite !andb_true_iff in *.
    destruct H4 as ((K1 & K2) & K3). repeat split; trivial.
    + now apply (forallb_ltb_weaken _ _ _ Hlen).
    + rewrite map_nth_app_l; trivial. exact (forallb_ltb _ _ K2).
  - now apply (forallb_ltb_weaken _ _ _ Hlen).
  - rewrite map_nth_app_l; trivial. exact (forallb_ltb _ _ H5).
Qed.

Lemma app_eq_len {A} (l1 l1' l2 l2' : list A) :
  length l1 = length l1' -> l1 ++ l2 = l1' ++ l2' -> l1 = l1' /\ l2 = l2'.
Proof.
  revert l1'. induction l1 as [|x l1 IH]; intros [|y l1'] Hl E; try discriminate; [now split|].
  cbn [app] in E. injection E as -> E. cbn [length] in Hl. destruct (IH l1' (eq_add_S _ _ Hl) E) as [-> ->]. now split.
Qed.

Lemma lupd_self v b : v < length b -> lupd v (nth v b 0) b = b.
Proof.
  intros Hv. apply nth_ext with (d := 0) (d' := 0); [now apply lupd_length|].
  intros u _. rewrite lupd_nth by exact Hv. destruct (Nat.eqb u v) eqn:E; trivial. apply Nat.eqb_eq in E. now subst.
Qed.
Lemma lupd_lupd v i j b : v < length b -> lupd v i (lupd v j b) = lupd v i b.
Proof.
  intros Hv. apply nth_ext with (d := 0) (d' := 0); [now rewrite !lupd_length by (rewrite ?lupd_length; trivial)|].
  intros u _. rewrite !lupd_nth by (rewrite ?lupd_length; trivial). destruct (Nat.eqb u v); trivial.
Qed.
Lemma sel_lupd_other v x a att : v < length a -> ~ In v att -> sel (lupd v x a) att = sel a att.
Proof.
  intros Hv Hn. apply sel_eq_In. intros u Hu. apply lupd_nth_other; trivial. intros ->. now apply Hn.
Qed.
Lemma sel_app a l1 l2 : sel a (l1 ++ l2) = sel a l1 ++ sel a l2.
Proof. unfold sel. apply map_app. Qed.

Section Corollaries.
Context {R : Type} (o : sr_ops R).
Hypothesis Hr : sr_ring o.
Add Ring RingR7 : (sr_is_srt o Hr).

(** sum over the assignments of [sizes ++ [n]] = sum over those of [sizes] and the last coordinate *)
Lemma sumS_all_assts_snoc n : forall sizes (F : list nat -> R),
  sumS o (all_assts (sizes ++ [n])) F
  = sumS o (all_assts sizes) (fun a => sumS o (seq 0 n) (fun i => F (a ++ [i]))).
Proof.
  induction sizes as [|m sizes IH]; intros F.
  - cbn [app all_assts]. rewrite (sumS_flat_map o Hr), (sumS_single o Hr).
    apply sumS_ext. intros i _. cbn [map]. now rewrite (sumS_single o Hr).
  - cbn [app all_assts]. rewrite !(sumS_flat_map o Hr). apply sumS_ext. intros j _.
    rewrite !sumS_map. rewrite IH. reflexivity.
Qed.

(** ** a node attached to no edge multiplies the value by the size of its domain *)
Theorem rule_val_isolated_internal G (e : env (R:=R)) r nl xi : wf_rule G r = true ->
  rule_val o G e (add_node r nl) xi = mul o (from_nat o (dom G nl)) (rule_val o G e r xi).
Proof.
  intros Hwf. destruct (wf_rule_facts G r Hwf) as (_ & Hext & Hedges & _).
  unfold rule_val. rewrite !(sumS_filter o Hr).
  replace (node_sizes G (add_node r nl)) with (node_sizes G r ++ [dom G nl])
    by (unfold node_sizes; cbn [add_node r_nodes]; now rewrite map_app).
  cbn [add_node r_edges r_ext]. rewrite sumS_all_assts_snoc, (sumS_mul_l o Hr).
  apply sumS_ext. intros a Ha. apply all_assts_length in Ha.
  rewrite (sumS_ext o _ _ (fun _ => if nat_list_eqb (sel a (r_ext r)) xi
                                     then prodS o (r_edges r) (fun ed => e (fst ed) (sel a (snd ed))) else zero o)).
  - now rewrite (sumS_const o Hr), seq_length.
  - intros i _. rewrite sel_app_l by (intros u Hu; rewrite Ha; now apply Hext).
    destruct (nat_list_eqb (sel a (r_ext r)) xi); trivial.
    apply prodS_ext. intros ed Hed. now rewrite sel_app_l by (intros u Hu; rewrite Ha; now apply (Hedges ed)).
Qed.
(** ... and this is what the code ([multiply_in_disconnected_internals]) returns *)
Corollary spe_isolated_internal G e r nl xi :
  wf_rule G r = true -> nl < length (g_doms G) -> In xi (all_assts (lshape G (r_lhs r))) ->
  oapp o (spe o (node_sizes G (add_node r nl)) e (r_edges r) (r_ext r)) xi
  = mul o (from_nat o (dom G nl)) (rule_val o G (oenv o e) r xi).
Proof.
  intros Hwf Hnl Hxi.
  rewrite <- (rule_val_isolated_internal G (oenv o e) r nl xi Hwf).
  exact (spe_spec o Hr G e (add_node r nl) xi (wf_add_node G r nl Hwf Hnl) Hxi).
Qed.

(** ** a nullary factor multiplies the value by its scalar weight *)
Theorem rule_val_nullary_factor G (e : env (R:=R)) r l xi :
  rule_val o G e (add_edge r (l, [])) xi = mul o (e l []) (rule_val o G e r xi).
Proof.
  unfold rule_val. cbn [add_edge r_edges r_ext]. change (node_sizes G (add_edge r (l, []))) with (node_sizes G r).
  rewrite (sumS_mul_l o Hr). apply sumS_ext. intros a _. rewrite prodS_cons. reflexivity.
Qed.

(** ** an edge attached twice to the same node reads the diagonal of its tensor *)
Theorem edge_attached_twice (e : env (R:=R)) l v a : e l (sel a [v; v]) = e l [nth v a 0; nth v a 0].
Proof. reflexivity. Qed.

(** ** an external node attached to no edge: the value does not depend on its coordinate *)
Lemma isolated_external_maps G r pre v post xp x x' xq a :
  r_ext r = pre ++ v :: post -> ~ In v pre -> ~ In v post -> v < length (node_sizes G r) ->
  length xp = length pre -> x < nth v (node_sizes G r) 0 ->
  In a (filter (fun a => nat_list_eqb (sel a (r_ext r)) (xp ++ x' :: xq)) (all_assts (node_sizes G r))) ->
  In (lupd v x a) (filter (fun a => nat_list_eqb (sel a (r_ext r)) (xp ++ x :: xq)) (all_assts (node_sizes G r)))
  /\ nth v a 0 = x'.
Proof.
  intros Hext Hpre Hpost Hv Hlen Hx Ha. apply filter_In in Ha. destruct Ha as [Ha Hsel].
  apply nat_list_eqb_iff in Hsel. rewrite Hext, sel_app in Hsel. cbn [sel map] in Hsel. fold (sel a post) in Hsel.
  apply app_eq_len in Hsel; [|unfold sel; now rewrite map_length]. destruct Hsel as [H1 H2]. injection H2 as H2 H3.
  pose proof (all_assts_length _ _ Ha) as Hal. split; trivial.
  apply filter_In. split.
  - apply all_assts_intro; [now rewrite lupd_length by lia|]. intros u Hu.
    rewrite lupd_nth by lia. destruct (Nat.eqb u v) eqn:E; [apply Nat.eqb_eq in E; now subst|].
    now apply all_assts_nth.
  - apply nat_list_eqb_iff. rewrite Hext, sel_app. cbn [sel map]. fold (sel (lupd v x a) post).
    rewrite !sel_lupd_other by (trivial; lia). rewrite lupd_nth_same by lia. now rewrite H1, H3.
Qed.

Theorem rule_val_isolated_external G (e : env (R:=R)) r pre v post xp x x' xq :
  wf_rule G r = true -> r_ext r = pre ++ v :: post -> ~ In v pre -> ~ In v post ->
  (forall ed, In ed (r_edges r) -> ~ In v (snd ed)) ->
  length xp = length pre -> x < nth v (node_sizes G r) 0 -> x' < nth v (node_sizes G r) 0 ->
  rule_val o G e r (xp ++ x' :: xq) = rule_val o G e r (xp ++ x :: xq).
Proof.
  intros Hwf Hext Hpre Hpost Hfree Hlen Hx Hx'.
  destruct (wf_rule_facts G r Hwf) as (_ & Hextlt & _).
  assert (Hv : v < length (node_sizes G r)) by (apply Hextlt; rewrite Hext; apply in_app_iff; right; now left).
  unfold rule_val. apply (sumS_bij o Hr (lupd v x)).
  - apply NoDup_filter, NoDup_all_assts.
  - apply NoDup_filter, NoDup_all_assts.
  - intros a Ha. now apply (isolated_external_maps G r pre v post xp x x' xq a).
  - intros a a' Ha Ha' E.
    destruct (isolated_external_maps G r pre v post xp x x' xq a) as [_ H1]; trivial.
    destruct (isolated_external_maps G r pre v post xp x x' xq a') as [_ H2]; trivial.
    apply filter_In in Ha, Ha'. destruct Ha as [Ha _], Ha' as [Ha' _].
    apply all_assts_length in Ha, Ha'.
    rewrite <- (lupd_self v a), <- (lupd_self v a'), H1, H2 by lia.
    rewrite <- (lupd_lupd v x' x a), <- (lupd_lupd v x' x a') by lia. now rewrite E.
  - intros y Hy. exists (lupd v x' y).
    destruct (isolated_external_maps G r pre v post xp x' x xq y) as [H1 H2]; trivial.
    split; trivial. apply filter_In in Hy. destruct Hy as [Hy _]. apply all_assts_length in Hy.
    rewrite lupd_lupd by lia. rewrite <- H2. apply lupd_self. lia.
  - intros a Ha. apply filter_In in Ha. destruct Ha as [Ha _]. apply all_assts_length in Ha.
    apply prodS_ext. intros ed Hed. now rewrite sel_lupd_other by (try lia; now apply Hfree).
Qed.

(** ** a nonterminal without rules has value zero (at every iterate) *)
Theorem Zk_ruleless G w k X xi : is_term G X = false -> rules_of G X = [] -> Zk o G w k X xi = zero o.
Proof.
  intros HX Hno. destruct k as [|k]; [reflexivity|]. rewrite (Zk_S o G w k X xi HX), Hno. reflexivity.
Qed.

(** ** the start symbol, whatever its arity: [sum_product] is the tensor indexed by the external
    assignment of the start symbol *)
Theorem sum_product_start G w ord :
  wf_grammar G = true -> (forall l, tget w l <> None -> is_term G l = true) ->
  dep_ordered G [] ord -> NoDup ord -> (forall X, is_term G X = false -> In X ord) ->
  forall xi, In xi (all_assts (lshape G (g_start G))) ->
  env_of o (sum_products_nonrec o G w (map (fun x => [x]) ord)) (g_start G) xi
  = sumS o (enum_trees G (length (nonterminals G)) (g_start G) xi) (weight o G (env_of o w))
  /\ (forall t, In t (enum_trees G (length (nonterminals G)) (g_start G) xi) <-> wf_dtree G (g_start G) xi t).
Proof.
  intros Hwf Hkeys Hd Hnd Hall xi Hxi.
  assert (HS : is_term G (g_start G) = false).
  { unfold wf_grammar in Hwf. rewrite !andb_true_iff in Hwf. destruct Hwf as (_ & H). now apply negb_true_iff in H. }
  destruct (sum_products_nonrec_correct o Hr G Hwf w ord Hkeys Hd Hnd Hall (g_start G) xi HS Hxi) as (_ & _ & H3 & _ & H5).
  now split.
Qed.

End Corollaries.

(** * The Boolean semiring *)
Lemma bool_ring : sr_ring bool_ops.
Proof.
  constructor; cbn; intros; repeat match goal with b : bool |- _ => destruct b end; reflexivity.
Qed.
