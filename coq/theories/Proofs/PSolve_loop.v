(** C09 tier B -- the axis loop of PatternedTensor.solve computes a support that contains the
    support of [b] and is closed under [a].
    [psolve_loop_closed] (the loop of the current code, exit = injective renaming): on the normal
    exit, if no warning was issued (and every physical axis of the arguments has one size), the
    support of the returned axis contains the support of the initial axis and is closed under the
    pattern of [a].  No premise on the unifier: a unifier computed without a warning preserves
    sizes (Proofs/PSolve_sized.v).
    [psolve_loop_early]: on the [b.clone()] exit no column of [a] meets the support of [b].
    [psolve_loop_old_refuted]: the exit test before /repo commit 6df0afb (finding F25) returned
    supports that are not closed; [psolve_loop_old_guarded]: it did when its antisubst happened to
    be an injective renaming. *)
From Coq Require Import List Arith Lia PeanoNat Bool PArith.
Import ListNotations.
Require Import Fggs.Model.Axis Fggs.Model.AxisCheck Fggs.Model.PTensor Fggs.Model.PSolve.
Require Import Fggs.Proofs.Axis_sem Fggs.Proofs.Axis_unify Fggs.Proofs.Axis_antiunify.
Require Import Fggs.Proofs.Axis_clone Fggs.Proofs.Axis_subst Fggs.Proofs.PSolve_anti Fggs.Proofs.PSolve_step Fggs.Proofs.PSolve_sized.
Require Import Fggs.Proofs.Axis_complete_gen.

Definition closed_under (a0 a1 : axis) (P : nat -> Prop) : Prop := forall v', aimg a0 a1 P v' -> P v'.

(** the warning flag of the loop only grows *)
Lemma loop_warn_mono exit : forall fuel a0 a1 e i, li_warn i = true ->
  match psolve_loop_gen exit fuel a0 a1 e i with
  | LDone _ _ i' | LEarly _ i' | LFuel _ i' => li_warn i' = true
  | LErr _ => True
  end.
Proof.
  induction fuel as [|fuel IH]; intros a0 a1 e i Wi; [exact Wi|]. cbn [psolve_loop_gen].
  destruct (unify _ e a1 _) as [[[|] st]|]; [| |exact I].
  - destruct (clone _ _ a0) as [c|]; [|exact I].
    destruct (antiunify _ e c _) as [[g ast]|]; [|exact I].
    destruct (exit (as_list ast)).
    + cbn [li_warn]. rewrite Wi. reflexivity.
    + apply IH. cbn [li_warn]. rewrite Wi. reflexivity.
  - cbn [li_warn]. rewrite Wi. reflexivity.
Qed.

Lemma loop_warn_false exit fuel a0 a1 e i :
  match psolve_loop_gen exit fuel a0 a1 e i with
  | LDone _ _ i' | LEarly _ i' | LFuel _ i' => li_warn i' = false -> li_warn i = false
  | LErr _ => True
  end.
Proof.
  pose proof (loop_warn_mono exit fuel a0 a1 e i) as M.
  destruct (psolve_loop_gen exit fuel a0 a1 e i); try exact I;
    intros W; apply not_true_false; intros Wi; rewrite (M Wi) in W; discriminate.
Qed.

(** what holds of the axis at the head of every pass *)
Record linv (a0 a1 e0 e : axis) (next : positive) : Prop := {
  lv_a0 : below next a0;
  lv_a1 : below next a1;
  lv_e : below next e;
  lv_dj : forall k, In k (fv e) -> ~ In k (fv a0 ++ fv a1);
  lv_sz : exists sz, szc sz a0 /\ szc sz a1 /\ szc sz e;
  lv_sup : forall v, rng e0 v -> rng e v }.

Lemma linv_init next a0 a1 e0 sz : below next a0 -> below next a1 -> below next e0 ->
  (forall k, In k (fv e0) -> ~ In k (fv a0 ++ fv a1)) ->
  szc sz a0 -> szc sz a1 -> szc sz e0 -> linv a0 a1 e0 e0 next.
Proof. intros. constructor; eauto. Qed.

(** one pass, all facts (the unifier is size-preserving by [unify_sized]) *)
Lemma pass_facts a0 a1 e0 e i st c g ast :
  linv a0 a1 e0 e (li_next i) ->
  unify (ps_ufuel e a1) e a1 (ust0 (li_next i)) = Ok (true, st) ->
  clone (ps_cfuel (us_subst st) a0) (us_subst st) a0 = Ok c ->
  antiunify (ps_afuel e c) e c (astate0 (us_next st)) = Ok (g, ast) ->
  us_warn st = false -> as_warn ast = false ->
  linv a0 a1 e0 g (as_next ast) /\
  (forall v', aimg a0 a1 (rng e) v' -> rng g v') /\
  (acq_injective (as_list ast) = true -> forall v, rng g v -> rng e v) /\
  numel g = numel e /\ (forall k n n', In (k, n) (fvn g) -> In (k, n') (fvn g) -> n = n').
Proof.
  intros [B0 B1 Be Dj (sz & S0 & S1 & Se) Sup] U Cl An Wu Wa.
  destruct (step_covers (li_next i) a0 a1 e B0 B1 Be Dj _ _ _ st c g ast U Cl An Wu Wa) as (C1 & C2 & C3 & C4 & C5 & C6 & C7).
  destruct (pass_frame (li_next i) a1 e B1 Be _ true st U) as [L _].
  destruct (unify_sized _ e a1 (li_next i) true st sz Be B1 Se S1 U Wu) as (sz' & A & Ss).
  assert (Fr : forall x, below (li_next i) x -> forall k, In k (fv x) -> ~ In k (fv g)).
  { intros x Bx k Hk Hg. pose proof (proj1 (C4 k Hg)). pose proof (Bx k Hk). lia. }
  split; [|split; [|split; [exact C3|split; [exact C6|exact C7]]]].
  - constructor.
    + eapply below_mono; [exact C5|exact B0].
    + eapply below_mono; [exact C5|exact B1].
    + intros k Hk. exact (proj2 (C4 k Hk)).
    + intros k Hk Hin. pose proof (proj1 (C4 k Hk)) as Lk. apply in_app_or in Hin.
      destruct Hin as [Hin|Hin]; [pose proof (B0 k Hin)|pose proof (B1 k Hin)]; lia.
    + exists (sz_with sz g). split; [apply sz_with_other; [exact (Fr a0 B0)|exact S0]|].
      split; [apply sz_with_other; [exact (Fr a1 B1)|exact S1]|apply sz_with_g; exact C7].
    + intros v Hv. apply C1. apply Sup. exact Hv.
  - apply C2; [exact (szs_Sized sz' _ Ss)|]. apply (szs_sized_for sz' _ _ Ss). eapply szc_agree; [exact A|exact B0|exact S0].
Qed.

(** what is claimed of a result; [acq_injective ents] is what the exit test of the current code
    establishes and what the exit test before 6df0afb did not *)
Definition res_ok (a0 a1 e0 : axis) (r : lres) : Prop :=
  match r with
  | LDone g ents i' =>
      li_warn i' = false ->
      (numel g = numel e0 /\ (forall k n n', In (k, n) (fvn g) -> In (k, n') (fvn g) -> n = n') /\
       (forall v, rng e0 v -> rng g v)) /\
      (acq_injective ents = true -> closed_under a0 a1 (rng g))
  | LEarly e' i' =>
      li_warn i' = false -> (forall v, rng e0 v -> rng e' v) /\ (forall v, rng e' v -> rng a1 v -> False)
  | _ => True
  end.

Theorem psolve_loop_gen_inv (exit : list aentry -> bool) : forall fuel a0 a1 e0 e i,
  linv a0 a1 e0 e (li_next i) -> numel e = numel e0 -> res_ok a0 a1 e0 (psolve_loop_gen exit fuel a0 a1 e i).
Proof.
  induction fuel as [|fuel IH]; intros a0 a1 e0 e i Inv Ne; [exact I|].
  cbn [psolve_loop_gen] in *.
  change {| us_subst := []; us_next := li_next i; us_warn := false |} with (ust0 (li_next i)) in *.
  destruct (unify (ps_ufuel e a1) e a1 (ust0 (li_next i))) as [[[|] st]|] eqn:U; [| |exact I].
  - (* unified *)
    destruct (clone (ps_cfuel (us_subst st) a0) (us_subst st) a0) as [c|] eqn:Cl; [|exact I].
    change {| as_list := []; as_next := us_next st; as_warn := false |} with (astate0 (us_next st)) in *.
    destruct (antiunify (ps_afuel e c) e c (astate0 (us_next st))) as [[g ast]|] eqn:An; [|exact I].
    set (i' := mkLI (S (li_iters i)) (as_next ast) (li_warn i || us_warn st || as_warn ast) (li_trace i ++ [(us_subst st, c)])) in *.
    assert (Facts : li_warn i' = false -> _) by
      (intros Wf; cbn [li_warn i'] in Wf; apply orb_false_elim in Wf; destruct Wf as [Wf Wa];
       apply orb_false_elim in Wf; destruct Wf as [Wi Wu]; exact (pass_facts a0 a1 e0 e i st c g ast Inv U Cl An Wu Wa)).
    destruct (exit (as_list ast)) eqn:Ex.
    + (* the loop is left *)
      cbn [res_ok]. intros Wf. destruct (Facts Wf) as (Inv' & Img & Inj & Ng & Cg).
      split; [split; [congruence|split; [exact Cg|exact (lv_sup _ _ _ _ _ Inv')]]|].
      intros Ex' v' Hv'. apply Img. revert Hv'. apply aimg_mono. exact (Inj Ex').
    + (* another pass *)
      pose proof (loop_warn_false exit fuel a0 a1 g i') as WF'.
      specialize (IH a0 a1 e0 g i').
      destruct (psolve_loop_gen exit fuel a0 a1 g i') as [g' ents' i''|e' i''|e' i''|er]; try exact I.
      * cbn [res_ok] in *. intros Wf. destruct (Facts (WF' Wf)) as (Inv' & _ & _ & Ng & _). apply IH; [exact Inv'|congruence|exact Wf].
      * cbn [res_ok] in *. intros Wf. destruct (Facts (WF' Wf)) as (Inv' & _ & _ & Ng & _). apply IH; [exact Inv'|congruence|exact Wf].
  - (* not unifiable *)
    cbn [res_ok]. intros Wf. cbn [li_warn] in Wf. apply orb_false_elim in Wf. destruct Wf as [Wi Wu].
    destruct Inv as [B0 B1 Be Dj _ Sup].
    split; [exact Sup|]. exact (step_disjoint (li_next i) a0 a1 e B1 Be Dj _ st U Wu).
Qed.

(** the loop is only left through its exit test *)
Lemma loop_done_exit exit : forall fuel a0 a1 e i g ents i',
  psolve_loop_gen exit fuel a0 a1 e i = LDone g ents i' -> exit ents = true.
Proof.
  induction fuel as [|fuel IH]; intros a0 a1 e i g ents i' H; [discriminate|]. cbn [psolve_loop_gen] in H.
  destruct (unify _ e a1 _) as [[[|] st]|]; try discriminate.
  destruct (clone _ _ a0) as [c|]; [|discriminate].
  destruct (antiunify _ e c _) as [[g1 ast]|]; [|discriminate].
  destruct (exit (as_list ast)) eqn:Ex; [inversion H; subst; exact Ex|exact (IH _ _ _ _ _ _ _ H)].
Qed.

Section Run.
Variables (next : positive) (a0 a1 e0 : axis) (sz : positive -> nat).
Hypothesis B0 : below next a0.
Hypothesis B1 : below next a1.
Hypothesis Be : below next e0.
Hypothesis Dj : forall k, In k (fv e0) -> ~ In k (fv a0 ++ fv a1).
(** every physical axis has one size *)
Hypothesis S0 : szc sz a0.
Hypothesis S1 : szc sz a1.
Hypothesis Se : szc sz e0.

Let Inv0 := linv_init next a0 a1 e0 sz B0 B1 Be Dj S0 S1 Se.

(** C09_psolve_loop_closed: the loop of the current code *)
Theorem psolve_loop_closed fuel g ents i' :
  psolve_loop fuel a0 a1 e0 (mkLI 0 next false []) = LDone g ents i' -> li_warn i' = false ->
  (forall v, rng e0 v -> rng g v) /\ closed_under a0 a1 (rng g).
Proof.
  intros H W.
  pose proof (psolve_loop_gen_inv acq_injective fuel a0 a1 e0 e0 (mkLI 0 next false []) Inv0 eq_refl) as R.
  unfold psolve_loop in H. rewrite H in R. destruct (R W) as [(_ & _ & Sup) Cl].
  split; [exact Sup|exact (Cl (loop_done_exit _ _ _ _ _ _ _ _ _ H))].
Qed.

(** the returned axis has the size of the initial one, and each of its physical axes one size *)
Theorem psolve_loop_shape fuel g ents i' :
  psolve_loop fuel a0 a1 e0 (mkLI 0 next false []) = LDone g ents i' -> li_warn i' = false ->
  numel g = numel e0 /\ (forall k n n', In (k, n) (fvn g) -> In (k, n') (fvn g) -> n = n').
Proof.
  intros H W.
  pose proof (psolve_loop_gen_inv acq_injective fuel a0 a1 e0 e0 (mkLI 0 next false []) Inv0 eq_refl) as R.
  unfold psolve_loop in H. rewrite H in R. destruct (R W) as [(N & C & _) _]. split; assumption.
Qed.

(** C09_psolve_loop_early *)
Theorem psolve_loop_early fuel e' i' :
  psolve_loop fuel a0 a1 e0 (mkLI 0 next false []) = LEarly e' i' ->
  li_warn i' = false ->
  forall v, rng e0 v -> rng a1 v -> False.
Proof.
  intros H W v Hv Ha.
  pose proof (psolve_loop_gen_inv acq_injective fuel a0 a1 e0 e0 (mkLI 0 next false []) Inv0 eq_refl) as R.
  unfold psolve_loop in H. rewrite H in R. destruct (R W) as [Sup1 Sup2]. exact (Sup2 v (Sup1 v Hv) Ha).
Qed.

(** the exit test before 6df0afb, under the guard that the repair turned into the test *)
Theorem psolve_loop_old_guarded fuel g ents i' :
  psolve_loop_old fuel a0 a1 e0 (mkLI 0 next false []) = LDone g ents i' ->
  li_warn i' = false -> acq_injective ents = true ->
  (forall v, rng e0 v -> rng g v) /\ closed_under a0 a1 (rng g).
Proof.
  intros H W Ex.
  pose proof (psolve_loop_gen_inv acq_all_phys fuel a0 a1 e0 e0 (mkLI 0 next false []) Inv0 eq_refl) as R.
  unfold psolve_loop_old in H. rewrite H in R. destruct (R W) as [(_ & _ & Sup) Cl]. split; [exact Sup|exact (Cl Ex)].
Qed.
End Run.

(** * finding F25: the exit test before /repo commit 6df0afb.
    [b] is supported on the cells (x, x, inl) of the index type 2 x 2 x (1+1); [a] maps column
    (r, inl, inl) to the rows (r', q, r).  The first pass generalises (x, x, inl) with the image
    (r', q, inl) to (k, k', inl): both recorded first parts are the physical axis x, the old test
    stops, although (inr, inl, inl) is now in the support and [a] maps it to (r', q, inr). *)
Definition f25_inl : axis := Sum 0 (Prod []) 1.
Definition f25_b0 : axis := Prod [Phys 1 2; Phys 1 2; f25_inl].
Definition f25_a0 : axis := Prod [Phys 2 2; Phys 3 2; Phys 4 2].
Definition f25_a1 : axis := Prod [Phys 4 2; f25_inl; f25_inl].

Lemma below_b next e : forallb (fun k => Pos.ltb k next) (fv e) = true -> below next e.
Proof. rewrite forallb_forall. intros H k Hk. apply Pos.ltb_lt. exact (H k Hk). Qed.

Lemma szc_b sz e : forallb (fun kn => Nat.eqb (snd kn) (sz (fst kn))) (fvn e) = true -> szc sz e.
Proof. rewrite forallb_forall. intros H k n Hk. specialize (H (k, n) Hk). apply Nat.eqb_eq in H. exact H. Qed.

Theorem psolve_loop_old_refuted :
  exists a0 a1 e0 next sz g ents i',
    below next a0 /\ below next a1 /\ below next e0 /\
    (forall k, In k (fv e0) -> ~ In k (fv a0 ++ fv a1)) /\
    szc sz a0 /\ szc sz a1 /\ szc sz e0 /\
    psolve_loop_old (loop_fuel e0) a0 a1 e0 (mkLI 0 next false []) = LDone g ents i' /\
    li_warn i' = false /\ ~ closed_under a0 a1 (rng g).
Proof.
  exists f25_a0, f25_a1, f25_b0, 5%positive, (fun _ => 2).
  eexists. eexists. eexists.
  split; [apply below_b; reflexivity|]. split; [apply below_b; reflexivity|]. split; [apply below_b; reflexivity|].
  split. { intros k Hk Hin. simpl in Hk, Hin. destruct Hk as [<-|[<-|[]]]; repeat (destruct Hin as [Hin|Hin]; [discriminate|]); exact Hin. }
  split; [apply szc_b; reflexivity|]. split; [apply szc_b; reflexivity|]. split; [apply szc_b; reflexivity|].
  split; [vm_compute; reflexivity|]. split; [reflexivity|].
  intros C.
  (* column (inr, inl, inl) = 4 is supported, its image (inl, inl, inr) = 1 is not *)
  assert (H1 : rng (Prod [Phys 5 2; Phys 6 2; f25_inl]) 1).
  { apply C. exists (fun k => match k with 4%positive => 1 | _ => 0 end). simpl.
    split; [repeat split; lia|]. split; [repeat split; lia|]. split; [|reflexivity].
    exists (fun k => match k with 5%positive => 1 | _ => 0 end). simpl. split; [repeat split; lia|reflexivity]. }
  destruct H1 as (rho & _ & E). simpl in E. lia.
Qed.

(** the same input with the exit test of the current code: the loop goes on and returns the full
    support *)
Example psolve_loop_f25_now :
  exists ents i', psolve_loop (loop_fuel f25_b0) f25_a0 f25_a1 f25_b0 (mkLI 0 5 false [])
                  = LDone (Prod [Phys 10 2; Phys 11 2; Phys 12 2]) ents i' /\ li_iters i' = 3 /\ li_warn i' = false.
Proof. eexists. eexists. split; [vm_compute; reflexivity|]. repeat split. Qed.
