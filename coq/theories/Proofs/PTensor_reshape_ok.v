(** [reshape_or_view] always succeeds on typed tensors when the target merges adjacent dimensions
    and/or inserts / removes size-1 dimensions (the "always succeeds" half of property C06, for the model
    [pt_reshape], explicit target sizes i.e. no [-1] entry).

    [merges shp s]: [s] is obtained from [shp] by replacing consecutive groups of dimensions (possibly
    empty: a new size-1 dimension) by their products.  For such a target
    - the sweep of [unify] over [productAxis goals] against [productAxis self.vaxes] only ever meets a
      target axis (unbound, fresh) that is at least as large as the next factor of [self], so it binds or
      splits *target* axes only ([merge_loop]): it returns True, never binds an axis of [self], within the
      fuel of the model;
    - hence [prime_factors] of every physical axis of [self] is the axis itself (the [cast] succeeds and
      torch's reshape of the storage is the identity);
    - [clone] of the target axes terminates ([clone_total_typed]: on a well-typed acyclic substitution every
      binding is entered at most once along a chain of nested calls) and keeps the sizes, so the final
      [assert] holds. *)
From Coq Require Import List Arith Lia PeanoNat Bool PArith.
Import ListNotations.
Require Import Fggs.Model.Axis Fggs.Model.AxisCheck Fggs.Model.PTensor Fggs.Model.PTensorOps Fggs.Model.PTensorCheck Fggs.Model.PTensorOpsCheck.
Require Import Fggs.Proofs.Axis_sem Fggs.Proofs.Axis_unify Fggs.Proofs.Axis_complete_gen Fggs.Proofs.Axis_typed Fggs.Proofs.Axis_total.
Require Import Fggs.Proofs.Axis_fuel Fggs.Proofs.Axis_mgu Fggs.Proofs.Axis_rank Fggs.Proofs.Axis_clone Fggs.Proofs.Axis_subst Fggs.Proofs.Axis_stride_total.
Require Import Fggs.Proofs.PTensor_sem Fggs.Proofs.PTensor_dense Fggs.Proofs.PTensor_gen Fggs.Proofs.PTensor_binary Fggs.Proofs.PTensor_struct.
Require Import Fggs.Proofs.PTEqual_typed Fggs.Proofs.PTensor_reshape Fggs.Proofs.PTensor_reshape_typed.
Local Open Scope nat_scope.

(** * [clone] terminates on well-typed substitutions *)
Definition fbudget (rk : positive -> nat) (s : subst) (r : nat) : nat :=
  asize_list (map snd (filter (fun kT : positive * axis => rk (fst kT) <? r) s)).

Lemma fbudget_mono rk s r r' : r' <= r -> fbudget rk s r' <= fbudget rk s r.
Proof.
  intros L. unfold fbudget. induction s as [|[k1 T1] s IH]; simpl; [lia|].
  destruct (Nat.ltb_spec (rk k1) r'), (Nat.ltb_spec (rk k1) r); simpl; lia.
Qed.

Lemma fbudget_step rk s k T r r' : In (k, T) s -> rk k < r -> r' <= rk k ->
  fbudget rk s r' + asize T <= fbudget rk s r.
Proof.
  induction s as [|[k0 T0] s IH]; intros H L1 L2; [contradiction|].
  assert (M : fbudget rk s r' <= fbudget rk s r) by (apply fbudget_mono; lia).
  unfold fbudget in *. simpl. destruct H as [H|H].
  - inversion H; subst. destruct (Nat.ltb_spec (rk k) r) as [_|]; [|lia].
    destruct (Nat.ltb_spec (rk k) r') as [|_]; [lia|]. simpl. lia.
  - specialize (IH H L1 L2). destruct (Nat.ltb_spec (rk k0) r'), (Nat.ltb_spec (rk k0) r); simpl; lia.
Qed.

Lemma fbudget_le rk s r : fbudget rk s r <= asize_list (map snd s).
Proof. unfold fbudget. induction s as [|[k T] s IH]; simpl; [lia|]. destruct (rk k <? r); simpl; lia. Qed.

Lemma asize_list_app l1 l2 : asize_list (l1 ++ l2) = asize_list l1 + asize_list l2.
Proof. induction l1 as [|x l1 IH]; simpl; [reflexivity|]. fold (asize_list (l1 ++ l2)). fold (asize_list l1). rewrite IH. lia. Qed.

Section CloneTotal.
Variable G : ctx.
Variable sigma : subst.
Hypothesis W : wts G sigma.

Definition rbudget (r : nat) : nat := fbudget (rank G sigma) sigma r.

Lemma rbudget_step k T r r' : In (k, T) sigma -> rank G sigma k < r -> r' <= rank G sigma k ->
  rbudget r' + asize T <= rbudget r.
Proof. apply fbudget_step. Qed.

Lemma rbudget_le r : rbudget r <= asize_list (map snd sigma).
Proof. apply fbudget_le. Qed.

Lemma clone_total_r : forall r fuel e, (forall j T, In j (fv e) -> In (j, T) sigma -> rank G sigma j < r) ->
  asize e + rbudget r <= fuel -> exists c, clone fuel sigma e = Ok c.
Proof.
  induction r as [r IHr] using lt_wf_ind. induction fuel as [|fuel IHf]; intros e Hr Hf; [pose proof (asize_pos e); lia|].
  destruct e as [k n|l|b t a]; cbn [clone].
  - destruct (assoc k sigma) as [T|] eqn:A; [|eauto]. apply assoc_In in A.
    pose proof (Hr k T (or_introl eq_refl) A) as Lk.
    apply (IHr (rank G sigma k) Lk).
    + intros j T' Hj _. exact (rank_decreases G sigma W k T j A Hj).
    + pose proof (rbudget_step k T r (rank G sigma k) A Lk (le_n _)). simpl in Hf. lia.
  - destruct (Fggs.Proofs.Axis_clone.mapM_total (clone fuel sigma) l) as (l' & ->); [|cbn [bind]; eauto].
    intros x Hx. apply IHf.
    + intros j T Hj HT. apply (Hr j T); [|exact HT]. simpl. apply in_flat_map. eauto.
    + pose proof (asize_In x l Hx). simpl in Hf. fold (asize_list l) in Hf. lia.
  - destruct (IHf t) as (c & ->); [exact Hr|simpl in Hf; lia|]. cbn [bind]. eauto.
Qed.

Theorem clone_total_typed fuel e : asize e + asize_list (map snd sigma) <= fuel -> exists c, clone fuel sigma e = Ok c.
Proof.
  intros Hf. apply (clone_total_r (S (max_rank G sigma))).
  - intros j T _ HT. pose proof (max_rank_ge G sigma sigma j T HT). unfold max_rank. lia.
  - pose proof (rbudget_le (S (max_rank G sigma))). lia.
Qed.

End CloneTotal.

(** * the class of targets *)
Inductive merges : list nat -> list nat -> Prop :=
| m_ones shp : Forall (fun n => n = 1) shp -> merges shp []
| m_group g shp s : merges shp s -> merges (g ++ shp) (prodl' g :: s).

Lemma prodl'_app a b : prodl' (a ++ b) = prodl' a * prodl' b.
Proof. unfold prodl'. induction a as [|x a IH]; simpl; [lia|]. rewrite IH. lia. Qed.

Lemma merges_prod shp s : merges shp s -> prodl' s = prodl' shp.
Proof.
  induction 1 as [shp F|g shp s _ IH].
  - induction F as [|x l Hx _ IH]; [reflexivity|]. subst x. unfold prodl' in *. simpl in *. lia.
  - rewrite prodl'_app. unfold prodl' in *. simpl. rewrite IH. reflexivity.
Qed.

(** inserting / removing size-1 dimensions is a special case *)
Definition nonunit (l : list nat) : list nat := filter (fun n => negb (Nat.eqb n 1)) l.

Lemma nonunit_head shp n rest : nonunit shp = n :: rest ->
  exists ones shp', shp = ones ++ n :: shp' /\ Forall (fun m => m = 1) ones /\ nonunit shp' = rest /\ n <> 1.
Proof.
  induction shp as [|x shp IH]; intros H; simpl in H; [discriminate|]. destruct (Nat.eqb_spec x 1) as [->|Nx]; simpl in H.
  - destruct (IH H) as (ones & shp' & -> & F & E & N). exists (1 :: ones), shp'. repeat split; trivial. constructor; trivial.
  - inversion H; subst. exists [], shp. repeat split; trivial.
Qed.

Lemma unit_edit_merges : forall s shp, nonunit shp = nonunit s -> merges shp s.
Proof.
  induction s as [|n s IH]; intros shp H.
  - apply m_ones. simpl in H. clear -H. induction shp as [|x shp IH]; [constructor|]. simpl in H.
    destruct (Nat.eqb_spec x 1) as [->|]; [constructor; [reflexivity|exact (IH H)]|discriminate].
  - simpl in H. destruct (Nat.eqb_spec n 1) as [->|Nn]; simpl in H.
    + change shp with ([] ++ shp). change 1 with (prodl' []). apply m_group. apply IH. exact H.
    + destruct (nonunit_head shp n (nonunit s) H) as (ones & shp' & -> & F & E & _).
      replace (ones ++ n :: shp') with ((ones ++ [n]) ++ shp') by (rewrite <- app_assoc; reflexivity).
      replace n with (prodl' (ones ++ [n])) at 2.
      * apply m_group. apply IH. exact E.
      * rewrite prodl'_app. clear -F. unfold prodl'. simpl. induction F as [|x l Hx _ IH]; simpl; [lia|]. subst x. simpl in *. lia.
Qed.

(** * the sweep of [unify] on a merge target *)
Inductive rgrouped : list pn -> list axis -> Prop :=
| rg_nil : rgrouped [] []
| rg_cons k n grp es fs : n = prodn grp -> grp <> [] -> rgrouped es fs -> rgrouped ((k, n) :: es) (grp ++ fs).

Lemma rgrouped_snoc es fs : rgrouped es fs -> forall k n grp, n = prodn grp -> grp <> [] ->
  rgrouped (es ++ [(k, n)]) (fs ++ grp).
Proof.
  induction 1 as [|k0 n0 grp0 es fs E0 N0 _ IH]; intros k n grp E N.
  - simpl. rewrite <- (app_nil_r grp). apply rg_cons; [exact E|exact N|constructor].
  - simpl. rewrite <- app_assoc. apply rg_cons; [exact E0|exact N0|]. apply IH; assumption.
Qed.

Lemma prodn_rev l : prodn (rev l) = prodn l.
Proof. induction l as [|x l IH]; [reflexivity|]. simpl. rewrite prodn_app, IH. simpl. fold (prodn l). lia. Qed.

Definition factor_ok (B : positive) (x : axis) : Prop := is_prod x = false /\ 2 <= numel x /\ below B x.

Lemma prodn_ge2 B l : Forall (factor_ok B) l -> l <> [] -> 2 <= prodn l.
Proof.
  intros F N. destruct l as [|x l]; [congruence|]. inversion F as [|? ? (_ & Hx & _) Fl]; subst. rewrite prodn_cons.
  assert (1 <= prodn l).
  { clear -Fl. induction Fl as [|y l (_ & Hy & _) _ IH]; [simpl; lia|]. rewrite prodn_cons. nia. }
  nia.
Qed.

Lemma assoc_snoc_other {A} k k' (a : A) s : k <> k' -> assoc k (s ++ [(k', a)]) = assoc k s.
Proof.
  intros N. rewrite assoc_app. destruct (assoc k s); [reflexivity|]. simpl. destruct (Pos.eqb_spec k' k); [congruence|reflexivity].
Qed.

(** binding an unbound physical axis *)
Lemma unify_bind_phys fuel k n T st :
  assoc k (us_subst st) = None ->
  (forall k' n', T = Phys k' n' -> assoc k' (us_subst st) = None /\ k' <> k) ->
  exists st1, unify (S fuel) (Phys k n) T st = Ok (true, st1) /\
              us_subst st1 = us_subst st ++ [(k, T)] /\ us_next st1 = us_next st.
Proof.
  intros A HT.
  assert (L1 : lookup (lookup_fuel (us_subst st)) (us_subst st) (Phys k n) = Ok (Phys k n)).
  { unfold lookup_fuel. cbn [lookup]. rewrite A. reflexivity. }
  assert (LT : lookup (lookup_fuel (us_subst st)) (us_subst st) T = Ok T).
  { unfold lookup_fuel. destruct T as [k' n'|l|b t a]; [|reflexivity|reflexivity]. cbn [lookup]. rewrite (proj1 (HT k' n' eq_refl)). reflexivity. }
  assert (So : same_object (Phys k n) T = false).
  { destruct T as [k' n'|l|b t a]; [|reflexivity|reflexivity]. simpl. apply Pos.eqb_neq. intros E. exact (proj2 (HT k' n' eq_refl) (eq_sym E)). }
  cbn [unify]. rewrite L1. cbn [bind]. rewrite LT. cbn [bind].
  rewrite So. destruct (Nat.eqb (numel (Phys k n)) (numel T)); destruct T; eexists; (split; [reflexivity|split; reflexivity]).
Qed.

Lemma merge_loop B : forall fsr es fuel st,
  rgrouped es fsr -> Forall (factor_ok B) fsr ->
  (forall k T, In (k, T) (us_subst st) -> (B <= k)%positive /\ (k < us_next st)%positive) ->
  NoDup (map fst es) -> (forall k n, In (k, n) es -> (B <= k)%positive /\ (k < us_next st)%positive /\ assoc k (us_subst st) = None) ->
  length fsr + 1 <= fuel ->
  exists st', unify_loop fuel (paxes_axes' es) fsr st = Ok (true, st') /\
    (forall k T, In (k, T) (us_subst st') -> (B <= k)%positive) /\
    asize_list (map snd (us_subst st')) <= asize_list (map snd (us_subst st)) + asize_list fsr + 2 * length fsr.
Proof.
  intros fsr. remember (length fsr) as m eqn:Em. revert fsr Em.
  induction m as [|m IH]; intros fsr Em es fuel st RG FO Ks ND Ke Hf.
  - destruct fsr; [|discriminate]. inversion RG as [|? ? grp ? ? _ Ng _ E1 E2]; subst.
    + destruct fuel as [|fuel]; [lia|]. exists st. split; [reflexivity|]. split; [intros k T H; exact (proj1 (Ks k T H))|simpl; lia].
    + destruct grp; [congruence|discriminate].
  - inversion RG as [|k n grp es' fs' En Ng RG' E1 E2]; subst; [discriminate|].
    destruct grp as [|f9 grp']; [congruence|]. clear Ng.
    cbn [app] in *. inversion FO as [|? ? (Np & N2 & Bf) FO']; subst. simpl in Em. injection Em as Em.
    destruct fuel as [|fuel]; [lia|]. simpl in Hf.
    destruct (Ke k (prodn (f9 :: grp')) (or_introl eq_refl)) as (Bk & Lk & Ak).
    inversion ND as [|? ? Hk ND']; subst.
    assert (Tphys : forall (s : subst), (forall k0 T0, In (k0, T0) s -> (B <= k0)%positive) ->
              forall k' n', f9 = Phys k' n' -> assoc k' s = None /\ k' <> k).
    { intros s Hs k' n' ->. assert (Lt : (k' < B)%positive) by (apply Bf; left; reflexivity). split; [|lia].
      destruct (assoc k' s) as [T0|] eqn:A0; [|reflexivity]. apply assoc_In in A0. specialize (Hs _ _ A0). lia. }
    cbn [paxes_axes' map fst snd unify_loop]. cbn [numel]. rewrite prodn_cons.
    destruct grp' as [|f8 grp''].
    + (* the last factor of the group: bind the target axis to it *)
      cbn [prodn fold_right]. rewrite Nat.mul_1_r, Nat.eqb_refl.
      destruct fuel as [|fuel]; [simpl in Hf; lia|].
      destruct (unify_bind_phys fuel k (numel f9 * 1) f9 st Ak) as (st1 & E1 & S1 & N1).
      { apply Tphys. intros k0 T0 H0. exact (proj1 (Ks k0 T0 H0)). }
      rewrite Nat.mul_1_r in E1. rewrite E1. cbn [bind fst snd].
      destruct (IH fs' eq_refl es' (S fuel) st1 RG' FO') as (st' & E' & K' & Z'); trivial.
      * rewrite S1, N1. intros k0 T0 H0. apply in_app_or in H0. destruct H0 as [H0|[H0|[]]]; [exact (Ks _ _ H0)|]. inversion H0; subst. split; assumption.
      * intros k0 n0 H0. destruct (Ke k0 n0 (or_intror H0)) as (A1 & A2 & A3). rewrite S1, N1. split; [exact A1|]. split; [exact A2|].
        rewrite assoc_snoc_other; [exact A3|]. intros ->. apply Hk. apply in_map_iff. exists (k, n0). auto.
      * simpl in Hf |- *. lia.
      * exists st'. split; [exact E'|]. split; [exact K'|]. rewrite S1, map_app, asize_list_app in Z'. simpl in Z'. simpl. lia.
    + (* more factors remain in the group: split the target axis *)
      set (P := prodn (f8 :: grp'')).
      assert (FOg : Forall (factor_ok B) (f8 :: grp'')).
      { clear - FO'. apply Forall_app in FO'. tauto. }
      assert (P2 : 2 <= P) by (apply (prodn_ge2 B); [exact FOg|discriminate]).
      fold P.
      destruct (Nat.eqb_spec (numel f9 * P) (numel f9)) as [Eq|_]; [nia|].
      destruct (Nat.ltb_spec (numel f9 * P) (numel f9)) as [Lt|_]; [nia|].
      destruct (Nat.eqb_spec (numel f9) 0) as [Z|_]; [lia|].
      rewrite (Nat.mul_comm (numel f9) P), Nat.mod_mul by lia. cbn [negb Nat.eqb]. rewrite Nat.div_mul by lia.
      unfold u_fresh. set (nx := us_next st).
      set (st0 := {| us_subst := us_subst st; us_next := Pos.succ nx; us_warn := us_warn st |}).
      rewrite (productAxis_pair nx P f9 Np).
      destruct fuel as [|fuel]; [simpl in Hf; lia|].
      destruct (unify_bind_phys fuel k (P * numel f9) (Prod [Phys nx P; f9]) st0 Ak) as (st1 & E1 & S1 & N1).
      { intros k' n' Ep. discriminate. }
      rewrite E1. cbn [bind fst snd].
      assert (Anx : assoc nx (us_subst st) = None).
      { destruct (assoc nx (us_subst st)) as [T0|] eqn:A0; [|reflexivity]. apply assoc_In in A0. destruct (Ks _ _ A0). unfold nx in *. lia. }
      destruct (IH ((f8 :: grp'') ++ fs') eq_refl ((nx, P) :: es') (S fuel) st1) as (st' & E' & K' & Z').
      * apply rg_cons; [reflexivity|discriminate|exact RG'].
      * exact FO'.
      * rewrite S1, N1. cbn [us_subst us_next st0]. intros k0 T0 H0. apply in_app_or in H0.
        destruct H0 as [H0|[H0|[]]]; [destruct (Ks _ _ H0); split; [assumption|fold nx in H1; lia]|]. inversion H0; subst. split; [exact Bk|fold nx in Lk; lia].
      * cbn [map fst]. constructor; [|exact ND']. intros Hin. apply in_map_iff in Hin. destruct Hin as ([k0 n0] & Ek0 & H0). simpl in Ek0. subst k0.
        destruct (Ke nx n0 (or_intror H0)) as (_ & L0 & _). unfold nx in L0. lia.
      * rewrite S1, N1. cbn [us_subst us_next st0]. intros k0 n0 [H0|H0].
        -- inversion H0; subst k0 n0. split; [unfold nx; destruct (Ke k _ (or_introl eq_refl)); lia|]. split; [lia|].
           rewrite assoc_snoc_other; [exact Anx|]. fold nx in Lk. lia.
        -- destruct (Ke k0 n0 (or_intror H0)) as (A1 & A2 & A3). split; [exact A1|]. split; [fold nx in A2; lia|].
           rewrite assoc_snoc_other; [exact A3|]. intros ->. apply Hk. apply in_map_iff. exists (k, n0). auto.
      * simpl in Hf. simpl. lia.
      * exists st'. split; [exact E'|]. split; [exact K'|]. rewrite S1 in Z'. cbn [us_subst st0] in Z'.
        rewrite map_app, asize_list_app in Z'. simpl in Z'. simpl. lia.
Qed.
