(** [reshape_or_view] always succeeds on typed tensors when the target merges adjacent dimensions
    and/or inserts / removes size-1 dimensions (the "always succeeds" half of property C06, for the model
    [pt_reshape], explicit target sizes i.e. no [-1] entry).

    [merges shp s]: [s] is obtained from [shp] by replacing consecutive groups of dimensions (possibly
    empty: a new size-1 dimension) by their products.  For such a target
    - the sweep of [unify] over [productAxis goals] against [productAxis self.vaxes] only ever meets a
      target axis (unbound, fresh) that is at least as large as the next factor of [self], so it binds or
      splits *target* axes only ([merge_loop]): it returns True, never binds an axis of [self], within the
      fuel of the model;
    - hence [prime_factors] of every physical axis of [self] is the axis itself (the [cast] succeeds and
      torch's reshape of the storage is the identity);
    - [clone] of the target axes terminates ([clone_total_typed]: on a well-typed acyclic substitution every
      binding is entered at most once along a chain of nested calls) and keeps the sizes, so the final
      [assert] holds. *)
From Coq Require Import List Arith Lia PeanoNat Bool PArith.
Import ListNotations.
Require Import Fggs.Model.Axis Fggs.Model.AxisCheck Fggs.Model.PTensor Fggs.Model.PTensorOps Fggs.Model.PTensorCheck Fggs.Model.PTensorOpsCheck.
Require Import Fggs.Proofs.Axis_sem Fggs.Proofs.Axis_unify Fggs.Proofs.Axis_complete_gen Fggs.Proofs.Axis_typed Fggs.Proofs.Axis_total.
Require Import Fggs.Proofs.Axis_fuel Fggs.Proofs.Axis_mgu Fggs.Proofs.Axis_rank Fggs.Proofs.Axis_clone Fggs.Proofs.Axis_subst Fggs.Proofs.Axis_stride_total.
Require Import Fggs.Proofs.PTensor_sem Fggs.Proofs.PTensor_dense Fggs.Proofs.PTensor_gen Fggs.Proofs.PTensor_binary Fggs.Proofs.PTensor_struct.
Require Import Fggs.Proofs.PTEqual_typed Fggs.Proofs.PTensor_reshape Fggs.Proofs.PTensor_reshape_typed.
Local Open Scope nat_scope.

(** * [clone] terminates on well-typed substitutions *)
Definition fbudget (rk : positive -> nat) (s : subst) (r : nat) : nat :=
  asize_list (map snd (filter (fun kT : positive * axis => rk (fst kT) <? r) s)).

Lemma fbudget_mono rk s r r' : r' <= r -> fbudget rk s r' <= fbudget rk s r.
Proof.
  intros L. unfold fbudget. induction s as [|[k1 T1] s IH]; simpl; [lia|].
  destruct (Nat.ltb_spec (rk k1) r'), (Nat.ltb_spec (rk k1) r); simpl; lia.
Qed.

Lemma fbudget_step rk s k T r r' : In (k, T) s -> rk k < r -> r' <= rk k ->
  fbudget rk s r' + asize T <= fbudget rk s r.
Proof.
  induction s as [|[k0 T0] s IH]; intros H L1 L2; [contradiction|].
  assert (M : fbudget rk s r' <= fbudget rk s r) by (apply fbudget_mono; lia).
  unfold fbudget in *. simpl. destruct H as [H|H].
  - inversion H; subst. destruct (Nat.ltb_spec (rk k) r) as [_|]; [|lia].
    destruct (Nat.ltb_spec (rk k) r') as [|_]; [lia|]. simpl. lia.
  - specialize (IH H L1 L2). destruct (Nat.ltb_spec (rk k0) r'), (Nat.ltb_spec (rk k0) r); simpl; lia.
Qed.

Lemma fbudget_le rk s r : fbudget rk s r <= asize_list (map snd s).
Proof. unfold fbudget. induction s as [|[k T] s IH]; simpl; [lia|]. destruct (rk k <? r); simpl; lia. Qed.

Lemma asize_list_app l1 l2 : asize_list (l1 ++ l2) = asize_list l1 + asize_list l2.
Proof. induction l1 as [|x l1 IH]; simpl; [reflexivity|]. fold (asize_list (l1 ++ l2)). fold (asize_list l1). rewrite IH. lia. Qed.

Section CloneTotal.
Variable G : ctx.
Variable sigma : subst.
Hypothesis W : wts G sigma.

Definition rbudget (r : nat) : nat := fbudget (rank G sigma) sigma r.

Lemma rbudget_step k T r r' : In (k, T) sigma -> rank G sigma k < r -> r' <= rank G sigma k ->
  rbudget r' + asize T <= rbudget r.
Proof. apply fbudget_step. Qed.

Lemma rbudget_le r : rbudget r <= asize_list (map snd sigma).
Proof. apply fbudget_le. Qed.

Lemma clone_total_r : forall r fuel e, (forall j T, In j (fv e) -> In (j, T) sigma -> rank G sigma j < r) ->
  asize e + rbudget r <= fuel -> exists c, clone fuel sigma e = Ok c.
Proof.
  induction r as [r IHr] using lt_wf_ind. induction fuel as [|fuel IHf]; intros e Hr Hf; [pose proof (asize_pos e); lia|].
  destruct e as [k n|l|b t a]; cbn [clone].
  - destruct (assoc k sigma) as [T|] eqn:A; [|eauto]. apply assoc_In in A.
    pose proof (Hr k T (or_introl eq_refl) A) as Lk.
    apply (IHr (rank G sigma k) Lk).
    + intros j T' Hj _. exact (rank_decreases G sigma W k T j A Hj).
    + pose proof (rbudget_step k T r (rank G sigma k) A Lk (le_n _)). simpl in Hf. lia.
  - destruct (Fggs.Proofs.Axis_clone.mapM_total (clone fuel sigma) l) as (l' & ->); [|cbn [bind]; eauto].
    intros x Hx. apply IHf.
    + intros j T Hj HT. apply (Hr j T); [|exact HT]. simpl. apply in_flat_map. eauto.
    + pose proof (asize_In x l Hx). simpl in Hf. fold (asize_list l) in Hf. lia.
  - destruct (IHf t) as (c & ->); [exact Hr|simpl in Hf; lia|]. cbn [bind]. eauto.
Qed.

Theorem clone_total_typed fuel e : asize e + asize_list (map snd sigma) <= fuel -> exists c, clone fuel sigma e = Ok c.
Proof.
  intros Hf. apply (clone_total_r (S (max_rank G sigma))).
  - intros j T _ HT. pose proof (max_rank_ge G sigma sigma j T HT). unfold max_rank. lia.
  - pose proof (rbudget_le (S (max_rank G sigma))). lia.
Qed.

End CloneTotal.

(** * the class of targets *)
Inductive merges : list nat -> list nat -> Prop :=
| m_ones shp : Forall (fun n => n = 1) shp -> merges shp []
| m_group g shp s : merges shp s -> merges (g ++ shp) (prodl' g :: s).

Lemma prodl'_app a b : prodl' (a ++ b) = prodl' a * prodl' b.
Proof. unfold prodl'. induction a as [|x a IH]; simpl; [lia|]. rewrite IH. lia. Qed.

Lemma merges_prod shp s : merges shp s -> prodl' s = prodl' shp.
Proof.
  induction 1 as [shp F|g shp s _ IH].
  - induction F as [|x l Hx _ IH]; [reflexivity|]. subst x. unfold prodl' in *. simpl in *. lia.
  - rewrite prodl'_app. unfold prodl' in *. simpl. rewrite IH. reflexivity.
Qed.

(** inserting / removing size-1 dimensions is a special case *)
Definition nonunit (l : list nat) : list nat := filter (fun n => negb (Nat.eqb n 1)) l.

Lemma nonunit_head shp n rest : nonunit shp = n :: rest ->
  exists ones shp', shp = ones ++ n :: shp' /\ Forall (fun m => m = 1) ones /\ nonunit shp' = rest /\ n <> 1.
Proof.
  induction shp as [|x shp IH]; intros H; simpl in H; [discriminate|]. destruct (Nat.eqb_spec x 1) as [->|Nx]; simpl in H.
  - destruct (IH H) as (ones & shp' & -> & F & E & N). exists (1 :: ones), shp'. repeat split; trivial. constructor; trivial.
  - inversion H; subst. exists [], shp. repeat split; trivial.
Qed.

Lemma unit_edit_merges : forall s shp, nonunit shp = nonunit s -> merges shp s.
Proof.
  induction s as [|n s IH]; intros shp H.
  - apply m_ones. simpl in H. clear -H. induction shp as [|x shp IH]; [constructor|]. simpl in H.
    destruct (Nat.eqb_spec x 1) as [->|]; [constructor; [reflexivity|exact (IH H)]|discriminate].
  - simpl in H. destruct (Nat.eqb_spec n 1) as [->|Nn]; simpl in H.
    + change shp with ([] ++ shp). change 1 with (prodl' []). apply m_group. apply IH. exact H.
    + destruct (nonunit_head shp n (nonunit s) H) as (ones & shp' & -> & F & E & _).
      replace (ones ++ n :: shp') with ((ones ++ [n]) ++ shp') by (rewrite <- app_assoc; reflexivity).
      replace n with (prodl' (ones ++ [n])) at 2.
      * apply m_group. apply IH. exact E.
      * rewrite prodl'_app. clear -F. unfold prodl'. simpl. induction F as [|x l Hx _ IH]; simpl; [lia|]. subst x. simpl in *. lia.
Qed.

(** * the sweep of [unify] on a merge target *)
Inductive rgrouped : list pn -> list axis -> Prop :=
| rg_nil : rgrouped [] []
| rg_cons k n grp es fs : n = prodn grp -> grp <> [] -> rgrouped es fs -> rgrouped ((k, n) :: es) (grp ++ fs).

Lemma rgrouped_snoc es fs : rgrouped es fs -> forall k n grp, n = prodn grp -> grp <> [] ->
  rgrouped (es ++ [(k, n)]) (fs ++ grp).
Proof.
  induction 1 as [|k0 n0 grp0 es fs E0 N0 _ IH]; intros k n grp E N.
  - simpl. rewrite <- (app_nil_r grp). apply rg_cons; [exact E|exact N|constructor].
  - simpl. rewrite <- app_assoc. apply rg_cons; [exact E0|exact N0|]. apply IH; assumption.
Qed.

Lemma prodn_rev l : prodn (rev l) = prodn l.
Proof. induction l as [|x l IH]; [reflexivity|]. simpl. rewrite prodn_app, IH. simpl. fold (prodn l). lia. Qed.

Definition factor_ok (B : positive) (x : axis) : Prop := is_prod x = false /\ 2 <= numel x /\ below B x.

Lemma prodn_ge2 B l : Forall (factor_ok B) l -> l <> [] -> 2 <= prodn l.
Proof.
  intros F N. destruct l as [|x l]; [congruence|]. inversion F as [|? ? (_ & Hx & _) Fl]; subst. rewrite prodn_cons.
  assert (1 <= prodn l).
  { clear -Fl. induction Fl as [|y l (_ & Hy & _) _ IH]; [simpl; lia|]. rewrite prodn_cons. nia. }
  nia.
Qed.

Lemma assoc_snoc_other {A} k k' (a : A) s : k <> k' -> assoc k (s ++ [(k', a)]) = assoc k s.
Proof.
  intros N. rewrite assoc_app. destruct (assoc k s); [reflexivity|]. simpl. destruct (Pos.eqb_spec k' k); [congruence|reflexivity].
Qed.

(** binding an unbound physical axis *)
Lemma unify_bind_phys fuel k n T st :
  assoc k (us_subst st) = None ->
  (forall k' n', T = Phys k' n' -> assoc k' (us_subst st) = None /\ k' <> k) ->
  exists st1, unify (S fuel) (Phys k n) T st = Ok (true, st1) /\
              us_subst st1 = us_subst st ++ [(k, T)] /\ us_next st1 = us_next st.
Proof.
  intros A HT.
  assert (L1 : lookup (lookup_fuel (us_subst st)) (us_subst st) (Phys k n) = Ok (Phys k n)).
  { unfold lookup_fuel. cbn [lookup]. rewrite A. reflexivity. }
  assert (LT : lookup (lookup_fuel (us_subst st)) (us_subst st) T = Ok T).
  { unfold lookup_fuel. destruct T as [k' n'|l|b t a]; [|reflexivity|reflexivity]. cbn [lookup]. rewrite (proj1 (HT k' n' eq_refl)). reflexivity. }
  assert (So : same_object (Phys k n) T = false).
  { destruct T as [k' n'|l|b t a]; [|reflexivity|reflexivity]. simpl. apply Pos.eqb_neq. intros E. exact (proj2 (HT k' n' eq_refl) (eq_sym E)). }
  cbn [unify]. rewrite L1. cbn [bind]. rewrite LT. cbn [bind].
  rewrite So. destruct (Nat.eqb (numel (Phys k n)) (numel T)); destruct T; eexists; (split; [reflexivity|split; reflexivity]).
Qed.

Lemma merge_loop B : forall fsr es fuel st,
  rgrouped es fsr -> Forall (factor_ok B) fsr ->
  (forall k T, In (k, T) (us_subst st) -> (B <= k)%positive /\ (k < us_next st)%positive) ->
  NoDup (map fst es) -> (forall k n, In (k, n) es -> (B <= k)%positive /\ (k < us_next st)%positive /\ assoc k (us_subst st) = None) ->
  length fsr + 1 <= fuel ->
  exists st', unify_loop fuel (paxes_axes' es) fsr st = Ok (true, st') /\
    (forall k T, In (k, T) (us_subst st') -> (B <= k)%positive) /\
    asize_list (map snd (us_subst st')) <= asize_list (map snd (us_subst st)) + asize_list fsr + 2 * length fsr.
Proof.
  intros fsr. remember (length fsr) as m eqn:Em. revert fsr Em.
  induction m as [|m IH]; intros fsr Em es fuel st RG FO Ks ND Ke Hf.
  - destruct fsr; [|discriminate]. inversion RG as [|? ? grp ? ? _ Ng _ E1 E2]; subst.
    + destruct fuel as [|fuel]; [lia|]. exists st. split; [reflexivity|]. split; [intros k T H; exact (proj1 (Ks k T H))|simpl; lia].
    + destruct grp; [congruence|discriminate].
  - inversion RG as [|k n grp es' fs' En Ng RG' E1 E2]; subst; [discriminate|].
    destruct grp as [|f9 grp']; [congruence|]. clear Ng.
    cbn [app] in *. inversion FO as [|? ? (Np & N2 & Bf) FO']; subst. simpl in Em. injection Em as Em.
    destruct fuel as [|fuel]; [lia|]. simpl in Hf.
    destruct (Ke k (prodn (f9 :: grp')) (or_introl eq_refl)) as (Bk & Lk & Ak).
    inversion ND as [|? ? Hk ND']; subst.
    assert (Tphys : forall (s : subst), (forall k0 T0, In (k0, T0) s -> (B <= k0)%positive) ->
              forall k' n', f9 = Phys k' n' -> assoc k' s = None /\ k' <> k).
    { intros s Hs k' n' ->. assert (Lt : (k' < B)%positive) by (apply Bf; left; reflexivity). split; [|lia].
      destruct (assoc k' s) as [T0|] eqn:A0; [|reflexivity]. apply assoc_In in A0. specialize (Hs _ _ A0). lia. }
    cbn [paxes_axes' map fst snd unify_loop]. cbn [numel]. rewrite prodn_cons.
    destruct grp' as [|f8 grp''].
    + (* the last factor of the group: bind the target axis to it *)
      cbn [prodn fold_right]. rewrite Nat.mul_1_r, Nat.eqb_refl.
      destruct fuel as [|fuel]; [simpl in Hf; lia|].
      destruct (unify_bind_phys fuel k (numel f9 * 1) f9 st Ak) as (st1 & E1 & S1 & N1).
      { apply Tphys. intros k0 T0 H0. exact (proj1 (Ks k0 T0 H0)). }
      rewrite Nat.mul_1_r in E1. rewrite E1. cbn [bind fst snd].
      destruct (IH fs' eq_refl es' (S fuel) st1 RG' FO') as (st' & E' & K' & Z'); trivial.
      * rewrite S1, N1. intros k0 T0 H0. apply in_app_or in H0. destruct H0 as [H0|[H0|[]]]; [exact (Ks _ _ H0)|]. inversion H0; subst. split; assumption.
      * intros k0 n0 H0. destruct (Ke k0 n0 (or_intror H0)) as (A1 & A2 & A3). rewrite S1, N1. split; [exact A1|]. split; [exact A2|].
        rewrite assoc_snoc_other; [exact A3|]. intros ->. apply Hk. apply in_map_iff. exists (k, n0). auto.
      * simpl in Hf |- *. lia.
      * exists st'. split; [exact E'|]. split; [exact K'|]. rewrite S1, map_app, asize_list_app in Z'. simpl in Z'. simpl. lia.
    + (* more factors remain in the group: split the target axis *)
      set (P := prodn (f8 :: grp'')).
      assert (FOg : Forall (factor_ok B) (f8 :: grp'')).
      { clear - FO'. apply Forall_app in FO'. tauto. }
      assert (P2 : 2 <= P) by (apply (prodn_ge2 B); [exact FOg|discriminate]).
      fold P.
      destruct (Nat.eqb_spec (numel f9 * P) (numel f9)) as [Eq|_]; [nia|].
      destruct (Nat.ltb_spec (numel f9 * P) (numel f9)) as [Lt|_]; [nia|].
      destruct (Nat.eqb_spec (numel f9) 0) as [Z|_]; [lia|].
      rewrite (Nat.mul_comm (numel f9) P), Nat.mod_mul by lia. cbn [negb Nat.eqb]. rewrite Nat.div_mul by lia.
      unfold u_fresh. set (nx := us_next st).
      set (st0 := {| us_subst := us_subst st; us_next := Pos.succ nx; us_warn := us_warn st |}).
      rewrite (productAxis_pair nx P f9 Np).
      destruct fuel as [|fuel]; [simpl in Hf; lia|].
      destruct (unify_bind_phys fuel k (P * numel f9) (Prod [Phys nx P; f9]) st0 Ak) as (st1 & E1 & S1 & N1).
      { intros k' n' Ep. discriminate. }
      rewrite E1. cbn [bind fst snd].
      assert (Anx : assoc nx (us_subst st) = None).
      { destruct (assoc nx (us_subst st)) as [T0|] eqn:A0; [|reflexivity]. apply assoc_In in A0. destruct (Ks _ _ A0). unfold nx in *. lia. }
      destruct (IH ((f8 :: grp'') ++ fs') eq_refl ((nx, P) :: es') (S fuel) st1) as (st' & E' & K' & Z').
      * apply rg_cons; [reflexivity|discriminate|exact RG'].
      * exact FO'.
      * rewrite S1, N1. cbn [us_subst us_next st0]. intros k0 T0 H0. apply in_app_or in H0.
        destruct H0 as [H0|[H0|[]]]; [destruct (Ks _ _ H0); split; [assumption|fold nx in H1; lia]|]. inversion H0; subst. split; [exact Bk|fold nx in Lk; lia].
      * cbn [map fst]. constructor; [|exact ND']. intros Hin. apply in_map_iff in Hin. destruct Hin as ([k0 n0] & Ek0 & H0). simpl in Ek0. subst k0.
        destruct (Ke nx n0 (or_intror H0)) as (_ & L0 & _). unfold nx in L0. lia.
      * rewrite S1, N1. cbn [us_subst us_next st0]. intros k0 n0 [H0|H0].
        -- inversion H0; subst k0 n0. split; [unfold nx; destruct (Ke k _ (or_introl eq_refl)); lia|]. split; [lia|].
           rewrite assoc_snoc_other; [exact Anx|]. fold nx in Lk. lia.
        -- destruct (Ke k0 n0 (or_intror H0)) as (A1 & A2 & A3). split; [exact A1|]. split; [fold nx in A2; lia|].
           rewrite assoc_snoc_other; [exact A3|]. intros ->. apply Hk. apply in_map_iff. exists (k, n0). auto.
      * simpl in Hf. simpl. lia.
      * exists st'. split; [exact E'|]. split; [exact K'|]. rewrite S1 in Z'. cbn [us_subst st0] in Z'.
        rewrite map_app, asize_list_app in Z'. simpl in Z'. simpl. lia.
Qed.

Lemma rgrouped_nil_inv fs : rgrouped [] fs -> fs = [].
Proof. inversion 1. reflexivity. Qed.

Lemma rgrouped_facts B es fs : rgrouped es fs -> Forall (factor_ok B) fs ->
  length es <= length fs /\ forall k n, In (k, n) es -> 2 <= n.
Proof.
  induction 1 as [|k n grp es fs En Ng _ IH]; intros F; [split; [simpl; lia|intros k n []]|].
  apply Forall_app in F. destruct F as [Fg Ff]. destruct (IH Ff) as [L K]. split.
  - simpl. rewrite app_length. destruct grp; [congruence|simpl; lia].
  - intros k0 n0 [H|H]; [inversion H; subst; apply (prodn_ge2 B); assumption|eauto].
Qed.

(** * from the shapes to the grouping of the factors *)
Inductive fgrouped : list pn -> list axis -> Prop :=
| fg_nil : fgrouped [] []
| fg_cons k n grp es fs : n = prodn grp -> grp <> [] -> fgrouped es fs -> fgrouped ((k, n) :: es) (grp ++ fs).

Lemma fgrouped_rev es fs : fgrouped es fs -> rgrouped (rev es) (rev fs).
Proof.
  induction 1 as [|k n grp es fs En Ng _ IH]; [constructor|]. simpl. rewrite rev_app_distr.
  apply rgrouped_snoc; [exact IH|rewrite prodn_rev; exact En|].
  intros E. apply Ng. rewrite <- (rev_involutive grp), E. reflexivity.
Qed.

Lemma prodn_numel vs : prodn vs = prodl' (map numel vs).
Proof. induction vs as [|e vs IH]; [reflexivity|]. rewrite prodn_cons, IH. reflexivity. Qed.

Lemma factors_empty B vs : Forall (factor_ok B) (flat_map factors_of vs) -> prodl' (map numel vs) = 1 -> flat_map factors_of vs = [].
Proof.
  intros F E. destruct (flat_map factors_of vs) as [|x l] eqn:El; [reflexivity|]. exfalso.
  assert (2 <= prodn (flat_map factors_of vs)) by (rewrite El; apply (prodn_ge2 B); [exact F|discriminate]).
  rewrite (proj2 (factors_sem (fun _ => 0) vs)), prodn_numel in H. lia.
Qed.

Lemma merges_grouped B : forall shp s, merges shp s ->
  forall vs next goals nx, map numel vs = shp -> Forall (factor_ok B) (flat_map factors_of vs) ->
  goal_axes s next = (goals, nx) -> fgrouped (flat_map fvn goals) (flat_map factors_of vs).
Proof.
  induction 1 as [shp F|g shp s _ IH]; intros vs next goals nx Ev FO Eg.
  - simpl in Eg. inversion Eg; subst goals nx. simpl. rewrite (factors_empty B vs FO); [constructor|].
    rewrite Ev. clear - F. induction F as [|x l Hx _ IH]; [reflexivity|]. subst x. unfold prodl' in *. simpl. rewrite IH. reflexivity.
  - apply map_eq_app in Ev. destruct Ev as (vs1 & vs2 & -> & E1 & E2). rewrite flat_map_app in FO |- *.
    apply Forall_app in FO. destruct FO as [FO1 FO2]. cbn [goal_axes] in Eg.
    destruct (Nat.eqb_spec (prodl' g) 1) as [P1|P1].
    + destruct (goal_axes s next) as [r n0] eqn:Er. inversion Eg; subst goals nx. simpl.
      rewrite (factors_empty B vs1 FO1) by (rewrite E1; exact P1). simpl. exact (IH vs2 next r n0 E2 FO2 Er).
    + destruct (goal_axes s (Pos.succ next)) as [r n0] eqn:Er. inversion Eg; subst goals nx. simpl.
      apply fg_cons; [rewrite (proj2 (factors_sem (fun _ => 0) vs1)), prodn_numel, E1; reflexivity| |exact (IH vs2 _ r n0 E2 FO2 Er)].
      intros E0. apply P1. rewrite <- E1, <- prodn_numel, <- (proj2 (factors_sem (fun _ => 0) vs1)), E0. reflexivity.
Qed.

Lemma goal_factors : forall s next goals nx, goal_axes s next = (goals, nx) ->
  flat_map factors_of goals = paxes_axes' (flat_map fvn goals).
Proof.
  induction s as [|g s IH]; intros next goals nx H; simpl in H.
  - inversion H; subst. reflexivity.
  - destruct (Nat.eqb g 1).
    + destruct (goal_axes s next) as [r n0] eqn:E. inversion H; subst. simpl. exact (IH _ _ _ E).
    + destruct (goal_axes s (Pos.succ next)) as [r n0] eqn:E. inversion H; subst. simpl. f_equal. exact (IH _ _ _ E).
Qed.

Lemma tyl_factor_ok G B l ps : ctx_below G B -> tyl G l ps -> gprimes ps -> Forall (factor_ok B) l.
Proof.
  intros CB H. induction H as [|x l p1 ps Hx Hty Hl IH]; intros Gp; constructor.
  - apply gprimes_app in Gp. destruct Gp as [G1 G2]. split; [exact Hx|]. split.
    + rewrite (ty_numel _ _ _ Hty). apply gprimes_big; [exact G1|eapply ty_factor_nonempty; eauto].
    + eapply ty_below; eauto.
  - apply IH. apply gprimes_app in Gp. tauto.
Qed.

Lemma asize_factors es : asize_list (flat_map factors_of es) <= asize_list es.
Proof.
  induction es as [|e es IH]; simpl; [lia|]. rewrite asize_list_app. fold (asize_list es).
  destruct e as [k n|l|b t a]; simpl; try lia. fold (asize_list l). lia.
Qed.

Lemma length_le_asize l : length l <= asize_list l.
Proof. induction l as [|x l IH]; simpl; [lia|]. fold (asize_list l). pose proof (asize_pos x). lia. Qed.

(** * the unification inside [reshape] on a merge target *)
Lemma merge_unify G pss vs s next goals nx fuel :
  ctx_good G -> ctx_below G next -> tys G vs pss -> Forall gprimes pss ->
  merges (map numel vs) s -> goal_axes s next = (goals, nx) ->
  asize_list vs + 3 <= fuel ->
  exists st', unify fuel (productAxis goals) (productAxis vs) (ustate0 nx) = Ok (true, st') /\
    (forall k T, In (k, T) (us_subst st') -> (next <= k)%positive) /\
    asize_list (map snd (us_subst st')) <= 3 * asize_list vs + 2.
Proof.
  intros CG CB Te Gp Mg Eg Hf.
  assert (FO : Forall (factor_ok next) (flat_map factors_of vs)).
  { apply (tyl_factor_ok G next _ (concat pss) CB); [apply tys_factors; exact Te|apply gprimes_concat; exact Gp]. }
  pose proof (merges_grouped next _ _ Mg vs next goals nx eq_refl FO Eg) as FG.
  apply fgrouped_rev in FG.
  destruct (rgrouped_facts next _ _ FG) as [Len N2]; [apply Forall_rev; exact FO|].
  rewrite !rev_length in Len.
  destruct (goal_axes_vars _ _ _ _ Eg) as [Lnx Kg].
  pose proof Eg as Eg'. rewrite goal_axes_dense in Eg'. destruct (dense_axes_spec _ _ _ _ Eg') as (_ & _ & _ & Gnd).
  pose proof (asize_factors vs) as Za. pose proof (length_le_asize (flat_map factors_of vs)) as Zl.
  unfold productAxis at 1. rewrite (goal_factors _ _ _ _ Eg).
  set (gp := flat_map fvn goals) in *. set (tF := flat_map factors_of vs) in *.
  assert (Kgp : forall k n, In (k, n) gp -> (next <= k)%positive /\ (k < nx)%positive).
  { intros k n H. apply Kg. apply In_fv_fvn. exists n. exact H. }
  assert (Single : forall g n, gp = [(g, n)] -> exists st', unify fuel (Phys g n) (productAxis vs) (ustate0 nx) = Ok (true, st') /\
            (forall k T, In (k, T) (us_subst st') -> (next <= k)%positive) /\ asize_list (map snd (us_subst st')) <= 3 * asize_list vs + 2).
  { intros g n Egp. destruct fuel as [|fuel]; [lia|].
    destruct (Kgp g n) as [Bg _]; [rewrite Egp; left; reflexivity|].
    destruct (unify_bind_phys fuel g n (productAxis vs) (ustate0 nx) eq_refl) as (st1 & E1 & S1 & _).
    { intros k' n' Ep. split; [reflexivity|]. unfold productAxis in Ep. fold tF in Ep.
      destruct tF as [|x [|y l]] eqn:Et; try discriminate. subst x. inversion FO as [|? ? (_ & _ & Bx) _]; subst.
      assert ((k' < next)%positive) by (apply Bx; left; reflexivity). lia. }
    exists st1. split; [exact E1|]. rewrite S1. cbn [us_subst ustate0 app]. split.
    - intros k T [H|[]]. inversion H; subst. exact Bg.
    - simpl. unfold productAxis. fold tF. destruct tF as [|x [|y l]]; simpl in *; unfold asize_list in *; lia. }
  destruct gp as [|[g n] [|gn2 gp']] eqn:Egp.
  2:{ simpl. apply (Single g n eq_refl). }
  - (* no target axis: [self] has no factor either *)
    simpl in FG. assert (Et : tF = []) by (rewrite <- (rev_involutive tF), (rgrouped_nil_inv _ FG); reflexivity).
    unfold productAxis. fold tF. rewrite Et. cbn [paxes_axes' map]. destruct fuel as [|[|fuel]]; try lia.
    exists (ustate0 nx). split; [reflexivity|]. split; [intros k T []|simpl; lia].
  - (* at least two target axes: both sides are products, the sweep runs *)
    assert (Tprod : productAxis vs = Prod tF).
    { unfold productAxis. fold tF. destruct tF as [|x [|y l]]; try reflexivity. simpl in Len. lia. }
    rewrite Tprod. set (gpl := (g, n) :: gn2 :: gp') in *.
    assert (Eprod : match paxes_axes' gpl with [x] => x | es => Prod es end = Prod (paxes_axes' gpl)) by reflexivity.
    rewrite Eprod. destruct fuel as [|fuel]; [lia|]. cbn [unify]. unfold lookup_fuel. cbn [lookup bind same_object].
    assert (Z : zero (Prod (paxes_axes' gpl)) = false).
    { cbn [zero]. destruct (existsb zero (paxes_axes' gpl)) eqn:Ex; [|reflexivity]. exfalso. apply existsb_exists in Ex.
      destruct Ex as (x & Hx & Zx). unfold paxes_axes' in Hx. apply in_map_iff in Hx. destruct Hx as ([k0 n0] & <- & H0).
      simpl in Zx. apply Nat.eqb_eq in Zx. pose proof (N2 k0 n0 (proj1 (in_rev _ _) H0)). lia. }
    set (st := if Nat.eqb (numel (Prod (paxes_axes' gpl))) (numel (Prod tF)) then ustate0 nx else u_warn (ustate0 nx)).
    assert (Es : us_subst st = [] /\ us_next st = nx) by (unfold st; destruct (Nat.eqb _ _); split; reflexivity).
    destruct Es as [Es1 Es2]. rewrite Z.
    replace (rev (paxes_axes' gpl)) with (paxes_axes' (rev gpl)) by (unfold paxes_axes'; apply map_rev).
    destruct (merge_loop next (rev tF) (rev gpl) fuel st FG) as (st' & E' & K' & Z').
    + apply Forall_rev. exact FO.
    + rewrite Es1. intros k T [].
    + rewrite map_rev. apply NoDup_rev. exact Gnd.
    + intros k0 n0 H0. apply in_rev in H0. rewrite Es1, Es2. destruct (Kgp k0 n0 H0). auto.
    + rewrite rev_length. lia.
    + exists st'. split; [exact E'|]. split; [exact K'|]. rewrite Es1 in Z'. simpl in Z'. rewrite rev_length in Z'.
      assert (asize_list (rev tF) = asize_list tF).
      { clear. induction tF as [|x l IH]; [reflexivity|]. simpl. rewrite asize_list_app. simpl. fold (asize_list l). lia. }
      lia.
Qed.

(** * the theorem *)
Lemma list_eq_nat_refl a : list_eq_nat a a = true.
Proof. induction a as [|x a IH]; [reflexivity|]. simpl. rewrite Nat.eqb_refl. exact IH. Qed.

Section Succeeds.
Variable V : Type.
Notation ptensor := (ptensor V).

Lemma merges_typed_target G : forall shp s, merges shp s -> forall vs pss, map numel vs = shp -> tys G vs pss ->
  Forall gprimes pss -> typed_target pss s.
Proof.
  induction 1 as [shp F|g shp s _ IH]; intros vs pss Ev Te Gp.
  - exists []. split; [|reflexivity]. simpl. symmetry. revert shp F Ev Gp. induction Te as [|e es ps pss He Hes IHt]; intros shp F Ev Gp; [reflexivity|].
    simpl in Ev. subst shp. inversion F as [|? ? H1 F']; subst. inversion Gp as [|? ? G1 G2]; subst. simpl.
    rewrite (gprimes_one ps G1) by (rewrite <- (ty_numel _ _ _ He); exact H1). simpl. exact (IHt _ F' eq_refl G2).
  - apply map_eq_app in Ev. destruct Ev as (vs1 & vs2 & -> & E1 & E2).
    assert (Sp : exists p1 p2, pss = p1 ++ p2 /\ tys G vs1 p1 /\ tys G vs2 p2).
    { clear - Te. revert pss Te. induction vs1 as [|e vs1 IHv]; intros pss Te; [exists [], pss; split; [reflexivity|split; [constructor|exact Te]]|].
      simpl in Te. inversion Te as [|? ? ps pss' He Hes]; subst. destruct (IHv _ Hes) as (p1 & p2 & -> & T1 & T2).
      exists (ps :: p1), p2. split; [reflexivity|]. split; [constructor; assumption|exact T2]. }
    destruct Sp as (p1 & p2 & -> & T1 & T2). apply Forall_app in Gp. destruct Gp as [Gp1 Gp2].
    destruct (IH vs2 p2 E2 T2 Gp2) as (qss & Ec & Es). exists (concat p1 :: qss). split.
    + simpl. rewrite Ec, concat_app. reflexivity.
    + simpl. f_equal; [|exact Es]. rewrite <- E1. clear - T1. induction T1 as [|e es ps pss He _ IHt]; [reflexivity|].
      simpl. rewrite tsizes_app, IHt, (ty_numel _ _ _ He). reflexivity.
Qed.

Theorem reshape_merge_succeeds G pss s next (t : ptensor) :
  wf V t -> ctx_good G -> ctx_below G next -> tys G (vaxes t) pss -> Forall gprimes pss ->
  merges (shape V t) s ->
  exists r nx', pt_reshape V 0 s next t = Ok (r, nx').
Proof.
  intros W CG CB Te Gp Mg. pose proof (merges_prod _ _ Mg) as Ep.
  unfold pt_reshape. destruct (Nat.eqb (prodl' (shape V t)) (pnumel (paxes t)) && (prodl' (shape V t) <=? 1)).
  - rewrite Ep, Nat.eqb_refl. cbn [bind]. destruct (pt_of_dense V s _ (default t) next) as [r nx']. eauto.
  - cbn [bind]. rewrite Ep, Nat.eqb_refl. cbn [negb].
    destruct (goal_axes s next) as [goals nx] eqn:Eg. cbv zeta.
    change {| us_subst := []; us_next := nx; us_warn := false |} with (ustate0 nx).
    set (fuel := 6 * (asize_list goals + asize_list (vaxes t)) + 12).
    destruct (merge_unify G pss (vaxes t) s next goals nx fuel CG CB Te Gp Mg Eg) as (st' & Eu & Ks & Zs); [unfold fuel; lia|].
    rewrite Eu. cbn [bind fst snd negb]. set (sigma := us_subst st') in *. set (f2 := fuel + length sigma + 2).
    pose proof (merges_typed_target G _ _ Mg (vaxes t) pss eq_refl Te Gp) as TT.
    destruct (reshape_wts V G next pss t s goals nx fuel true st' CG CB Te Gp TT Eg Eu) as (G' & Wts). fold sigma in Wts.
    (* the physical axes of [t] are not bound *)
    assert (Unb : forall k n, In (k, n) (paxes t) -> assoc k sigma = None).
    { intros k n Hk. destruct (assoc k sigma) as [T|] eqn:A; [|reflexivity]. exfalso. apply assoc_In in A. pose proof (Ks _ _ A).
      apply (wf_fv V t W) in Hk. apply in_flat_map in Hk. destruct Hk as (e & He & Hk).
      assert ((k < next)%positive) by (apply (tys_below _ _ _ _ CB Te e He k); eapply fvn_fv; eauto). lia. }
    assert (Egr : mapM (fun kn => pf <- prime_factors f2 sigma (Phys (fst kn) (snd kn)) ;; mapM phys_pn pf) (paxes t)
                  = Ok (map (fun kn => [kn]) (paxes t))).
    { clear - Unb. induction (paxes t) as [|[k n] ps IH]; [reflexivity|]. cbn [mapM map fst snd].
      assert (E : prime_factors f2 sigma (Phys k n) = Ok [Phys k n]).
      { unfold f2. rewrite Nat.add_comm. cbn [Nat.add prime_factors]. unfold lookup_fuel. cbn [lookup]. rewrite (Unb k n (or_introl eq_refl)).
        cbn [bind same_object]. rewrite Pos.eqb_refl. reflexivity. }
      rewrite E. cbn [bind mapM phys_pn]. rewrite IH; [reflexivity|]. intros k0 n0 H0. apply (Unb k0 n0). right. exact H0. }
    rewrite Egr. cbn [bind].
    (* the clones of the target axes *)
    pose proof Eg as Eg'. rewrite goal_axes_dense in Eg'. destruct (dense_axes_spec _ _ _ _ Eg') as (Gn & _).
    destruct (Fggs.Proofs.Axis_clone.mapM_total (clone f2 sigma) goals) as (vs & Evs).
    { intros e He. apply (clone_total_typed G' sigma Wts). unfold f2, fuel.
      assert (asize e <= 1).
      { destruct (dense_axes_elems _ _ _ _ Eg' e He) as [->|(k & n & -> & _)]; simpl; lia. }
      lia. }
    rewrite Evs. cbn [bind].
    destruct (reshape_premises V G next pss t s goals nx st' W CG CB Te Gp TT Eg) as (_ & Hm & [SZ Sz]); [exact Eu|]. fold sigma in Hm, SZ, Sz.
    destruct (Hm (fun _ => 0)) as (rho & M & _).
    assert (En : map numel vs = s).
    { rewrite <- Gn. apply mapM_Forall2' in Evs. clear - Evs M SZ Sz.
      assert (Sz' : forall e, In e goals -> sized_for sigma e) by (intros e He; apply Sz; apply in_or_app; left; exact He). clear Sz.
      induction Evs as [|e c l l' Hec _ IHl]; [reflexivity|]. simpl. f_equal.
      - exact (proj1 (clone_sem_models rho sigma M SZ _ _ _ (Sz' e (or_introl eq_refl)) Hec)).
      - apply IHl. intros x Hx. apply Sz'. right. exact Hx. }
    rewrite En, list_eq_nat_refl. cbn [negb orb].
    assert (Eg2 : map (fun g : list pn => prodl' (map snd g)) (map (fun kn : pn => [kn]) (paxes t)) = map snd (paxes t)).
    { rewrite map_map. apply map_ext. intros [k n]. unfold prodl'. simpl. lia. }
    rewrite Eg2, list_eq_nat_refl. cbn [negb]. eauto.
Qed.

(** inserting / removing size-1 dimensions *)
Corollary reshape_unit_dims_succeed G pss s next (t : ptensor) :
  wf V t -> ctx_good G -> ctx_below G next -> tys G (vaxes t) pss -> Forall gprimes pss ->
  nonunit (shape V t) = nonunit s ->
  exists r nx', pt_reshape V 0 s next t = Ok (r, nx').
Proof. intros W CG CB Te Gp H. apply (reshape_merge_succeeds G pss); trivial. apply unit_edit_merges. exact H. Qed.

End Succeeds.

(** the hypotheses are satisfiable: 2 x 3 -> [1; 6; 1] (a merge with two inserted size-1 dimensions) *)
Example reshape_merge_ex :
  merges (shape nat rs_ex) [1; 6; 1] /\ nonunit [2; 1; 3] = nonunit [1; 2; 3; 1] /\
  exists r nx', pt_reshape nat 0 [1; 6; 1] 3 rs_ex = Ok (r, nx') /\ shape nat r = [1; 6; 1] /\ denote nat r [0; 5; 0] = 12.
Proof.
  split; [|split; [reflexivity|]].
  - change (shape nat rs_ex) with ([] ++ [2; 3] ++ [] ++ []). change [1; 6; 1] with [prodl' []; prodl' [2; 3]; prodl' []].
    repeat apply m_group. apply m_ones. constructor.
  - do 2 eexists. split; [vm_compute; reflexivity|split; reflexivity].
Qed.
