(** C08, exact-arithmetic level: the three carriers
      bool  (BoolSemiring),
      ereal (RealSemiring; LogSemiring read through exp),
      trop  (ViterbiSemiring)
    are commutative semirings ([sr_ring]: associativity, commutativity, identities,
    distributivity, annihilation -- including the infinite elements), naturally ordered
    ([sr_ordered]) and star semirings whose star is the least solution of y = 1 + x*y
    ([sr_star]).  Also: [sub], [from_nat], [sum_list] statements per carrier. *)
From Coq Require Import QArith Qcanon Lqa Bool List Ring_theory Permutation.
Import ListNotations.
Require Import Fggs.Model.Semiring Fggs.Model.EReal Fggs.Model.Trop Fggs.Proofs.SemiringGeneric.
Open Scope Qc_scope.

(* ------------------------------------------------------------------------- *)
(** * Qc -> Q bridge *)

Lemma Qc_eq_iff (a b : Qc) : a = b <-> (this a == this b)%Q.
Proof. split; [intros ->; reflexivity | apply Qc_is_canon]. Qed.

Ltac qc2q :=
  repeat match goal with
  | H : @eq Qc _ _ |- _ => apply Qc_eq_iff in H
  | H : ~ @eq Qc _ _ |- _ => rewrite Qc_eq_iff in H
  | H : Qcle _ _ |- _ => unfold Qcle in H
  | H : Qclt _ _ |- _ => unfold Qclt in H
  end;
  try apply Qc_eq_iff; unfold Qcle, Qclt;
  repeat (rewrite ?this_plus, ?this_mult, ?this_minus, ?this_opp, ?this_inv in * );
  change (this 0) with 0%Q in *; change (this 1) with 1%Q in *; cbn [this] in *.

Lemma Qle_bool_false x y : Qle_bool x y = false <-> (y < x)%Q.
Proof.
  split; intros H.
  - apply Qnot_le_lt. intros C. apply Qle_bool_iff in C. congruence.
  - destruct (Qle_bool x y) eqn:E; [|reflexivity]. apply Qle_bool_iff in E. lra.
Qed.

(* ------------------------------------------------------------------------- *)
(** * Bool *)

Theorem bool_ring : sr_ring bool_ops.
Proof.
  constructor; cbn; intros; repeat match goal with b : bool |- _ => destruct b end; reflexivity.
Qed.

Theorem bool_ordered : sr_ordered bool_ops.
Proof.
  constructor; cbn; intros;
    repeat match goal with b : bool |- _ => destruct b end; cbn in *; auto; try discriminate;
    repeat match goal with H : ?a = ?a -> _ |- _ => specialize (H eq_refl) end; auto; try discriminate.
Qed.

Theorem bool_star : sr_star bool_ops.
Proof.
  constructor; cbn.
  - intros []; reflexivity.
  - intros a b x H E. apply H. destruct b; [|discriminate]. destruct a, x; reflexivity.
Qed.

Lemma bool_star_one : star bool_ops (one bool_ops) = one bool_ops.
Proof. reflexivity. Qed.

(** BoolSemiring.sub: x && not y.  (x - y) + y = x || y, which is x exactly when y <= x *)
Definition bsub (x y : bool) : bool := x && negb y.
Lemma bsub_add x y : add bool_ops (bsub x y) y = orb x y.
Proof. destruct x, y; reflexivity. Qed.
Lemma bsub_le x y : le bool_ops y x -> add bool_ops (bsub x y) y = x.
Proof. cbn. destruct x, y; cbn; intros H; try reflexivity. symmetry; apply H; reflexivity. Qed.
(** it is the least d with x <= d + y *)
Lemma bsub_least x y d : le bool_ops x (add bool_ops d y) -> le bool_ops (bsub x y) d.
Proof. cbn. destruct x, y, d; cbn; auto. Qed.
Lemma bsub_not_le x y : ~ le bool_ops y x -> bsub x y = bsub x x.
Proof. cbn. destruct x, y; cbn; intros H; try reflexivity. exfalso; apply H; auto. Qed.

Lemma bool_from_nat n : from_nat bool_ops n = negb (Nat.eqb n 0).
Proof. destruct n; reflexivity. Qed.

(* ------------------------------------------------------------------------- *)
(** * ereal = [0, +inf] *)

Lemma Fin_eq a b : qv a = qv b -> Fin a = Fin b.
Proof. intros H. f_equal. apply nnq_eq, H. Qed.

Lemma nnq_nonneg (a : nnq) : 0 <= qv a.
Proof. unfold Qcle. change (this 0) with 0%Q. apply nnb_le. exact (qnn a). Qed.

Lemma is0_iff a : is0 a = true <-> qv a = 0.
Proof. unfold is0. rewrite Qeq_bool_iff, Qc_eq_iff. reflexivity. Qed.
Lemma is0_true_eq a : is0 a = true -> a = nn0.
Proof. intros H. apply nnq_eq. apply is0_iff, H. Qed.
Lemma is0_false_pos a : is0 a = false -> 0 < qv a.
Proof.
  intros H. pose proof (nnq_nonneg a) as Hn.
  assert (Hz : qv a <> 0) by (intros C; apply is0_iff in C; congruence).
  qc2q. lra.
Qed.
Lemma is0_nn0 : is0 nn0 = true.  Proof. reflexivity. Qed.
Lemma is0_nn1 : is0 nn1 = false. Proof. reflexivity. Qed.
Lemma is0_nnmul a b : is0 (nnmul a b) = is0 a || is0 b.
Proof.
  apply eq_true_iff_eq. rewrite orb_true_iff, !is0_iff. cbn [qv nnmul]. split.
  - apply Qcmult_integral.
  - intros [-> | ->]; ring.
Qed.
Lemma is0_nnadd a b : is0 (nnadd a b) = is0 a && is0 b.
Proof.
  apply eq_true_iff_eq. rewrite andb_true_iff, !is0_iff. cbn [qv nnadd].
  pose proof (nnq_nonneg a) as Ha. pose proof (nnq_nonneg b) as Hb.
  split; [intros H; split | intros [H1 H2]]; qc2q; lra.
Qed.

Ltac ecrush :=
  repeat (cbn [eadd emul orb andb zero one add mul ereal_ops];
          rewrite ?is0_nnmul, ?is0_nnadd, ?is0_nn0, ?is0_nn1;
          try match goal with
          | |- context [is0 ?a] =>
              is_var a; let E := fresh "E" in
              destruct (is0 a) eqn:E; [apply is0_true_eq in E; subst a|]
          end);
  try reflexivity; try discriminate;
  try (apply Fin_eq; cbn [qv nnadd nnmul nn0 nn1]; ring).

Lemma eadd_0_l x : eadd (Fin nn0) x = x.
Proof. destruct x; ecrush. Qed.
Lemma eadd_comm x y : eadd x y = eadd y x.
Proof. destruct x, y; ecrush. Qed.
Lemma eadd_assoc x y z : eadd x (eadd y z) = eadd (eadd x y) z.
Proof. destruct x, y, z; ecrush. Qed.
Lemma emul_1_l x : emul (Fin nn1) x = x.
Proof. destruct x; ecrush. Qed.
(** annihilation, including 0 * inf = 0 *)
Lemma emul_0_l x : emul (Fin nn0) x = Fin nn0.
Proof. destruct x; ecrush. Qed.
Lemma emul_comm x y : emul x y = emul y x.
Proof. destruct x, y; ecrush. Qed.
Lemma emul_assoc x y z : emul x (emul y z) = emul (emul x y) z.
Proof. destruct x, y, z; ecrush. Qed.
Lemma edistr_l x y z : emul (eadd x y) z = eadd (emul x z) (emul y z).
Proof. destruct x, y, z; ecrush. Qed.

Theorem ereal_ring : sr_ring ereal_ops.
Proof.
  constructor; cbn [zero one add mul ereal_ops].
  - exact eadd_0_l.
  - exact eadd_comm.
  - exact eadd_assoc.
  - exact emul_1_l.
  - exact emul_0_l.
  - exact emul_comm.
  - exact emul_assoc.
  - exact edistr_l.
Qed.

Lemma emul_0_r x : emul x (Fin nn0) = Fin nn0.
Proof. rewrite emul_comm. apply emul_0_l. Qed.
Lemma emul_inf_0 : emul PInf (Fin nn0) = Fin nn0 /\ emul (Fin nn0) PInf = Fin nn0.
Proof. split; reflexivity. Qed.

Lemma ele_refl x : ele x x.
Proof. destruct x; cbn; [apply Qcle_refl | exact I]. Qed.
Lemma ele_trans x y z : ele x y -> ele y z -> ele x z.
Proof. destruct x, y, z; cbn; try tauto. apply Qcle_trans. Qed.
Lemma ele_antisym x y : ele x y -> ele y x -> x = y.
Proof.
  destruct x, y; cbn; try tauto. intros H1 H2. apply Fin_eq. apply Qcle_antisym; assumption.
Qed.
Lemma ele_zero x : ele (Fin nn0) x.
Proof. destruct x; cbn; [apply nnq_nonneg | exact I]. Qed.
Lemma eadd_mono a b c d : ele a b -> ele c d -> ele (eadd a c) (eadd b d).
Proof.
  destruct a, b, c, d; cbn; try tauto. cbn [qv nnadd]. apply Qcplus_le_compat.
Qed.
Lemma emul_mono a b c : ele b c -> ele (emul a b) (emul a c).
Proof.
  destruct a as [a|], b as [b|], c as [c|]; cbn [emul ele]; try tauto.
  - intros H. cbn [qv nnmul]. rewrite (Qcmult_comm (qv a) (qv b)), (Qcmult_comm (qv a) (qv c)).
    apply Qcmult_le_compat_r; [exact H | apply nnq_nonneg].
  - intros _. destruct (is0 a) eqn:E; cbn; [|exact I].
    apply is0_true_eq in E; subst a. cbn [qv nnmul nn0].
    replace (0 * qv b) with 0 by ring. apply Qcle_refl.
  - intros _. destruct (is0 a); cbn; [apply Qcle_refl | exact I].
  - intros H. destruct (is0 b) eqn:Eb; destruct (is0 c) eqn:Ec; cbn; try exact I; try apply Qcle_refl.
    apply is0_true_eq in Ec; subst c. apply is0_false_pos in Eb. cbn [qv nn0] in H.
    exfalso. qc2q. lra.
  - intros _. destruct (is0 b); cbn; exact I.
Qed.

Theorem ereal_ordered : sr_ordered ereal_ops.
Proof.
  constructor; cbn [zero one add mul le ereal_ops].
  - exact ele_refl.
  - exact ele_trans.
  - exact ele_antisym.
  - exact ele_zero.
  - exact eadd_mono.
  - exact emul_mono.
Qed.

(** star *)
Lemma inv_1m_nn a : Qle_bool 1 (this (qv a)) = false -> nnb (/ (1 - qv a)) = true.
Proof.
  intros H. apply Qle_bool_false in H. rewrite nnb_le, this_inv, this_minus.
  change (this 1) with 1%Q. apply Qlt_le_weak, Qinv_lt_0_compat. lra.
Qed.

Lemma estar_fin_lt1 a : Qle_bool 1 (this (qv a)) = false ->
  exists s : nnq, estar (Fin a) = Fin s /\ qv s = / (1 - qv a).
Proof.
  intros H. unfold estar. rewrite H. eexists; split; [reflexivity|].
  apply nn_of_Qc_qv, inv_1m_nn, H.
Qed.

Lemma estar_unfold a : estar a = eadd (Fin nn1) (emul a (estar a)).
Proof.
  destruct a as [a|]; [|reflexivity].
  destruct (Qle_bool 1 (this (qv a))) eqn:E.
  - unfold estar. rewrite E. cbn [emul eadd].
    destruct (is0 a) eqn:E0; [|reflexivity].
    apply is0_true_eq in E0; subst a. discriminate E.
  - destruct (estar_fin_lt1 a E) as (s & -> & Hs). cbn [emul eadd]. apply Fin_eq.
    cbn [qv nnadd nnmul nn1]. rewrite Hs. apply Qle_bool_false in E.
    field. intros C. qc2q. lra.
Qed.

Lemma estar_ind a b x : ele (eadd (emul a x) b) x -> ele (emul (estar a) b) x.
Proof.
  destruct x as [x|]; [|intros _; destruct (emul (estar a) b); exact I].
  destruct a as [a|], b as [b|]; cbn [emul eadd ele estar].
  - (* all finite *)
    cbn [qv nnadd nnmul]. intros H.
    pose proof (nnq_nonneg a) as Ha. pose proof (nnq_nonneg b) as Hb. pose proof (nnq_nonneg x) as Hx.
    destruct (Qle_bool 1 (this (qv a))) eqn:E.
    + (* a >= 1: b must be 0 *)
      apply Qle_bool_iff in E. cbn [emul].
      assert (Hb0 : qv b = 0).
      { qc2q. set (A := this (qv a)) in *. set (X := this (qv x)) in *. set (B := this (qv b)) in *.
        assert (X <= A * X)%Q.
        { setoid_replace X with (1 * X)%Q at 1 by ring. apply Qmult_le_compat_r; assumption. }
        lra. }
      apply is0_iff in Hb0. rewrite Hb0. cbn. exact Hx.
    + (* a < 1 *)
      apply Qle_bool_false in E. cbn [emul ele qv nnmul].
      rewrite (nn_of_Qc_qv _ (inv_1m_nn a (proj2 (Qle_bool_false _ _) E))).
      qc2q. set (A := this (qv a)) in *. set (X := this (qv x)) in *. set (B := this (qv b)) in *.
      assert (HA : (0 < 1 - A)%Q) by lra.
      assert (HB : (B <= X * (1 - A))%Q) by lra.
      assert (H1 : (/ (1 - A) * B <= / (1 - A) * (X * (1 - A)))%Q).
      { apply Qmult_le_l; [apply Qinv_lt_0_compat; exact HA | exact HB]. }
      assert (H2 : (/ (1 - A) * (X * (1 - A)) == X)%Q) by (field; lra).
      lra.
  - (* b = inf: the hypothesis is false *)
    intros [].
  - (* a = inf, b finite *)
    destruct (is0 x) eqn:Ex; cbn [eadd ele]; [|intros []].
    apply is0_true_eq in Ex; subst x. cbn [qv nnadd nn0]. intros H.
    assert (Hb0 : qv b = 0).
    { pose proof (nnq_nonneg b) as Hb. qc2q. lra. }
    apply is0_iff in Hb0. rewrite Hb0. cbn. apply Qcle_refl.
  - destruct (is0 x); cbn; intros [].
Qed.

Theorem ereal_star : sr_star ereal_ops.
Proof. constructor; cbn [zero one add mul le star ereal_ops]; [exact estar_unfold | exact estar_ind]. Qed.

(** not idempotent: star one = +inf, the sum 1 + 1 + ... *)
Lemma estar_one : star ereal_ops (one ereal_ops) = PInf.
Proof. reflexivity. Qed.
Lemma estar_ge1 a : 1 <= qv a -> estar (Fin a) = PInf.
Proof. intros H. unfold estar. apply Qle_bool_iff in H. cbn in H. rewrite H. reflexivity. Qed.
Lemma estar_inf : estar PInf = PInf.
Proof. reflexivity. Qed.
Lemma estar_lt1 a : qv a < 1 -> exists s, estar (Fin a) = Fin s /\ qv s * (1 - qv a) = 1.
Proof.
  intros H. assert (E : Qle_bool 1 (this (qv a)) = false) by (apply Qle_bool_false; exact H).
  destruct (estar_fin_lt1 a E) as (s & Hs & Hv). exists s. split; [exact Hs|].
  rewrite Hv. field. intros C. qc2q. lra.
Qed.

(** RealSemiring.sub (relu (x - y), nan -> 0): (x - y) + y = x whenever y <= x; otherwise it
    returns zero = sub x x, as the doc string of Semiring.sub promises *)
Lemma esub_add x y : ele y x -> eadd (esub x y) y = x.
Proof.
  destruct x as [x|], y as [y|]; cbn [ele esub eadd]; try tauto; try reflexivity.
  intros H. apply Fin_eq. cbn [qv nnadd]. rewrite nn_of_Qc_qv.
  - ring.
  - rewrite nnb_le, this_minus. qc2q. lra.
Qed.
Lemma esub_self x : esub x x = Fin nn0.
Proof.
  destruct x as [x|]; [|reflexivity]. cbn. apply Fin_eq. cbn [qv nn0].
  replace (qv x - qv x) with 0 by ring. reflexivity.
Qed.
Lemma esub_not_le x y : ~ ele y x -> esub x y = esub x x.
Proof.
  rewrite esub_self. destruct x as [x|], y as [y|]; cbn [ele esub]; try tauto; try reflexivity.
  intros H. apply Fin_eq. unfold nn_of_Qc.
  destruct (Sumbool.sumbool_of_bool (nnb (qv x - qv y))) as [e|e]; [|reflexivity].
  exfalso. apply H. apply nnb_le in e. rewrite this_minus in e. qc2q. lra.
Qed.
(** and it is the least d with x <= d + y, when y is finite or x is *)
Lemma esub_least x y d : ele x (eadd d y) -> ele (esub x y) d.
Proof.
  destruct x as [x|], y as [y|], d as [d|]; cbn [ele esub eadd]; try tauto;
    try apply nnq_nonneg; try (intros _; apply nnq_nonneg).
  intros H. cbn [qv nnadd] in H. unfold nn_of_Qc.
  destruct (Sumbool.sumbool_of_bool (nnb (qv x - qv y))) as [e|e]; cbn [qv].
  - qc2q. lra.
  - apply nnq_nonneg.
Qed.

(** from_int: the code casts the integer; the homomorphism sends n to the rational n *)
Lemma nnb_inject_nat n : nnb (Q2Qc (inject_Z (Z.of_nat n))) = true.
Proof.
  rewrite nnb_le. cbn [this Q2Qc]. rewrite Qred_correct.
  unfold Qle; cbn. rewrite Z.mul_1_r. apply Zle_0_nat.
Qed.
Definition nn_of_nat (n : nat) : nnq := {| qv := Q2Qc (inject_Z (Z.of_nat n)); qnn := nnb_inject_nat n |}.
Lemma ereal_from_nat n : from_nat ereal_ops n = Fin (nn_of_nat n).
Proof.
  induction n as [|n IH]; cbn [from_nat].
  - apply Fin_eq. reflexivity.
  - rewrite IH. cbn [add one ereal_ops eadd]. apply Fin_eq. cbn [qv nnadd nn1 nn_of_nat].
    apply Qc_is_canon. rewrite this_plus. cbn [this Q2Qc]. rewrite !Qred_correct.
    rewrite Nat2Z.inj_succ. unfold Z.succ. rewrite inject_Z_plus. change (this 1) with 1%Q.
    change (inject_Z 1) with 1%Q. ring.
Qed.

(* ------------------------------------------------------------------------- *)
(** * trop = [-inf, +inf] with max and + *)

Ltac qle_cases :=
  repeat match goal with
  | |- context [Qle_bool ?a ?b] =>
      let E := fresh "E" in
      destruct (Qle_bool a b) eqn:E; [apply Qle_bool_iff in E | apply Qle_bool_false in E]
  end.

Ltac tfin := try reflexivity; try (f_equal; apply Qc_is_canon;
                                  repeat rewrite ?this_plus in *; change (this 0) with 0%Q in *; lra);
             try (exfalso; repeat rewrite ?this_plus in *; change (this 0) with 0%Q in *; lra).

Lemma tmax_0_l x : tmax NInf x = x.
Proof. destruct x; reflexivity. Qed.
Lemma tmax_comm x y : tmax x y = tmax y x.
Proof. destruct x, y; cbn [tmax]; try reflexivity. qle_cases; tfin. Qed.
Lemma tmax_assoc x y z : tmax x (tmax y z) = tmax (tmax x y) z.
Proof.
  destruct x as [|a|], y as [|b|], z as [|c|]; cbn [tmax]; try reflexivity;
    qle_cases; cbn [tmax]; try reflexivity; qle_cases; tfin.
Qed.
Lemma tmax_idem x : tmax x x = x.
Proof. destruct x; cbn [tmax]; try reflexivity. qle_cases; tfin. Qed.
Lemma tplus_1_l x : tplus (TFin 0) x = x.
Proof. destruct x; cbn [tplus]; try reflexivity. f_equal. ring. Qed.
(** annihilation, including (-inf) + (+inf) = -inf *)
Lemma tplus_0_l x : tplus NInf x = NInf.
Proof. destruct x; reflexivity. Qed.
Lemma tplus_comm x y : tplus x y = tplus y x.
Proof. destruct x, y; cbn [tplus]; try reflexivity. f_equal. ring. Qed.
Lemma tplus_assoc x y z : tplus x (tplus y z) = tplus (tplus x y) z.
Proof. destruct x, y, z; cbn [tplus]; try reflexivity. f_equal. ring. Qed.
Lemma tdistr_l x y z : tplus (tmax x y) z = tmax (tplus x z) (tplus y z).
Proof.
  destruct x as [|a|], y as [|b|], z as [|c|]; cbn [tmax tplus]; try reflexivity;
    qle_cases; cbn [tplus]; tfin.
Qed.

Theorem trop_ring : sr_ring trop_ops.
Proof.
  constructor; cbn [zero one add mul trop_ops].
  - exact tmax_0_l.
  - exact tmax_comm.
  - exact tmax_assoc.
  - exact tplus_1_l.
  - exact tplus_0_l.
  - exact tplus_comm.
  - exact tplus_assoc.
  - exact tdistr_l.
Qed.

Lemma tplus_0_r x : tplus x NInf = NInf.
Proof. rewrite tplus_comm. apply tplus_0_l. Qed.
Lemma tplus_ninf_pinf : tplus NInf TPInf = NInf /\ tplus TPInf NInf = NInf.
Proof. split; reflexivity. Qed.

Lemma tle_refl x : tle x x.
Proof. destruct x; cbn; try exact I. apply Qcle_refl. Qed.
Lemma tle_trans x y z : tle x y -> tle y z -> tle x z.
Proof. destruct x, y, z; cbn; try tauto. apply Qcle_trans. Qed.
Lemma tle_antisym x y : tle x y -> tle y x -> x = y.
Proof.
  destruct x, y; cbn; try tauto. intros H1 H2. f_equal. apply Qcle_antisym; assumption.
Qed.
Lemma tle_zero x : tle NInf x.
Proof. exact I. Qed.
Lemma tle_max_iff x y : tle x y <-> tmax x y = y.
Proof.
  destruct x as [|a|], y as [|b|]; cbn [tle tmax]; try (split; [reflexivity | intros _; exact I]);
    try (split; [intros [] | discriminate]).
  unfold Qcle. qle_cases; split; intros H; try reflexivity; try assumption.
  - lra.
  - injection H as H. subst b. lra.
Qed.
Lemma tmax_mono a b c d : tle a b -> tle c d -> tle (tmax a c) (tmax b d).
Proof.
  destruct a as [|a|], b as [|b|], c as [|c|], d as [|d|]; cbn [tle tmax]; try tauto;
    unfold Qcle; intros H1 H2; qle_cases; cbn [tle]; try exact I; unfold Qcle; try lra.
Qed.
Lemma tplus_mono a b c : tle b c -> tle (tplus a b) (tplus a c).
Proof.
  destruct a as [|a|], b as [|b|], c as [|c|]; cbn [tle tplus]; try tauto.
  unfold Qcle. rewrite !this_plus. intros H. lra.
Qed.

Theorem trop_ordered : sr_ordered trop_ops.
Proof.
  constructor; cbn [zero one add mul le trop_ops].
  - exact tle_refl.
  - exact tle_trans.
  - exact tle_antisym.
  - exact tle_zero.
  - exact tmax_mono.
  - exact tplus_mono.
Qed.

Lemma tstar_unfold a : tstar a = tmax (TFin 0) (tplus a (tstar a)).
Proof.
  destruct a as [|a|]; cbn [tstar]; try reflexivity.
  qle_cases; cbn [tplus tmax]; [|reflexivity].
  qle_cases; tfin.
Qed.

Lemma tle_max_r x y : tle y (tmax x y).
Proof.
  destruct x as [|a|], y as [|b|]; cbn [tle tmax]; try exact I; try apply Qcle_refl.
  qle_cases; cbn [tle]; unfold Qcle; lra.
Qed.
Lemma tle_max_l x y : tle x (tmax x y).
Proof. rewrite tmax_comm. apply tle_max_r. Qed.

Lemma tstar_ind a b x : tle (tmax (tplus a x) b) x -> tle (tplus (tstar a) b) x.
Proof.
  intros H.
  assert (Hb : tle b x) by (eapply tle_trans; [apply tle_max_r | exact H]).
  assert (Ha : tle (tplus a x) x) by (eapply tle_trans; [apply tle_max_l | exact H]).
  clear H. destruct a as [|a|]; cbn [tstar].
  - rewrite tplus_1_l. exact Hb.
  - destruct (Qle_bool (this a) 0) eqn:E; [rewrite tplus_1_l; exact Hb|].
    apply Qle_bool_false in E.
    destruct b as [|b|], x as [|x|]; cbn [tplus tle] in *; try tauto.
    unfold Qcle in Ha. rewrite this_plus in Ha. lra.
  - destruct b as [|b|], x as [|x|]; cbn [tplus tle] in *; tauto.
Qed.

Theorem trop_star : sr_star trop_ops.
Proof. constructor; cbn [zero one add mul le star trop_ops]; [exact tstar_unfold | exact tstar_ind]. Qed.

(** idempotent: star one = one *)
Lemma tstar_one : star trop_ops (one trop_ops) = one trop_ops.
Proof. reflexivity. Qed.
Lemma tstar_pos a : 0 < a -> tstar (TFin a) = TPInf.
Proof.
  intros H. cbn [tstar]. destruct (Qle_bool (this a) 0) eqn:E; [|reflexivity].
  apply Qle_bool_iff in E. unfold Qclt in H. change (this 0) with 0%Q in H. lra.
Qed.
Lemma tstar_nonpos a : a <= 0 -> tstar (TFin a) = TFin 0.
Proof.
  intros H. cbn [tstar]. unfold Qcle in H. change (this 0) with 0%Q in H.
  apply Qle_bool_iff in H. rewrite H. reflexivity.
Qed.

(** ViterbiSemiring.sub returns x: max(x, y) = x whenever y <= x (and max is idempotent, so
    x itself is a valid difference); when y > x there is no d with max(d, y) = x *)
Definition tsub (x y : trop) : trop := x.
Lemma tsub_add x y : tle y x -> tmax (tsub x y) y = x.
Proof. intros H. unfold tsub. rewrite tmax_comm. apply tle_max_iff, H. Qed.
Lemma tsub_none x y d : ~ tle y x -> tmax d y <> x.
Proof. intros H E. apply H. rewrite <- E. apply tle_max_r. Qed.

Lemma trop_from_nat n : from_nat trop_ops n = match n with O => NInf | _ => TFin 0 end.
Proof.
  induction n as [|n IH]; [reflexivity|]. cbn [from_nat]. rewrite IH.
  destruct n; reflexivity.
Qed.

(* ------------------------------------------------------------------------- *)
(** * Summary statements used by Props/C08.v *)

Theorem semiring_laws_all :
  (sr_ring bool_ops /\ sr_ordered bool_ops /\ sr_star bool_ops) /\
  (sr_ring ereal_ops /\ sr_ordered ereal_ops /\ sr_star ereal_ops) /\
  (sr_ring trop_ops /\ sr_ordered trop_ops /\ sr_star trop_ops).
Proof.
  repeat split;
    first [ apply bool_ring | apply bool_ordered | apply bool_star
          | apply ereal_ring | apply ereal_ordered | apply ereal_star
          | apply trop_ring | apply trop_ordered | apply trop_star ].
Qed.

(** zero annihilates every element, the infinite ones included *)
Theorem annihilation_all :
  (forall x : bool, mul bool_ops (zero bool_ops) x = zero bool_ops /\ mul bool_ops x (zero bool_ops) = zero bool_ops) /\
  (forall x : ereal, mul ereal_ops (zero ereal_ops) x = zero ereal_ops /\ mul ereal_ops x (zero ereal_ops) = zero ereal_ops) /\
  (forall x : trop, mul trop_ops (zero trop_ops) x = zero trop_ops /\ mul trop_ops x (zero trop_ops) = zero trop_ops).
Proof.
  split; [|split]; intros x; split.
  - apply (sr_mul_0_l _ bool_ring).
  - apply (sr_mul_0_r _ bool_ring).
  - apply (sr_mul_0_l _ ereal_ring).
  - apply (sr_mul_0_r _ ereal_ring).
  - apply (sr_mul_0_l _ trop_ring).
  - apply (sr_mul_0_r _ trop_ring).
Qed.

(** star x is the least solution of y = 1 + x*y *)
Theorem star_least_solution_all :
  (forall x : bool, star bool_ops x = add bool_ops (one bool_ops) (mul bool_ops x (star bool_ops x)) /\
       forall y, y = add bool_ops (one bool_ops) (mul bool_ops x y) -> le bool_ops (star bool_ops x) y) /\
  (forall x : ereal, star ereal_ops x = add ereal_ops (one ereal_ops) (mul ereal_ops x (star ereal_ops x)) /\
       forall y, y = add ereal_ops (one ereal_ops) (mul ereal_ops x y) -> le ereal_ops (star ereal_ops x) y) /\
  (forall x : trop, star trop_ops x = add trop_ops (one trop_ops) (mul trop_ops x (star trop_ops x)) /\
       forall y, y = add trop_ops (one trop_ops) (mul trop_ops x y) -> le trop_ops (star trop_ops x) y).
Proof.
  split; [|split]; intros x; split.
  - apply (star_unfold _ bool_star).
  - apply (star_least _ bool_ring bool_ordered bool_star).
  - apply (star_unfold _ ereal_star).
  - apply (star_least _ ereal_ring ereal_ordered ereal_star).
  - apply (star_unfold _ trop_star).
  - apply (star_least _ trop_ring trop_ordered trop_star).
Qed.

Theorem star_one_all :
  star bool_ops (one bool_ops) = one bool_ops /\
  star trop_ops (one trop_ops) = one trop_ops /\
  star ereal_ops (one ereal_ops) = PInf.
Proof. repeat split. Qed.

(** from_nat is a semiring homomorphism from the naturals, and the only one *)
Theorem from_nat_hom_unique_all :
  forall (S : Type) (o : sr_ops S), sr_ring o ->
    from_nat o 0%nat = zero o /\ from_nat o 1%nat = one o /\
    (forall n m, from_nat o (n + m)%nat = add o (from_nat o n) (from_nat o m)) /\
    (forall n m, from_nat o (n * m)%nat = mul o (from_nat o n) (from_nat o m)) /\
    (forall h : nat -> S, h 0%nat = zero o -> h 1%nat = one o ->
        (forall n m, h (n + m)%nat = add o (h n) (h m)) -> forall n, h n = from_nat o n).
Proof.
  intros S o R. repeat split.
  - apply from_nat_1, R.
  - apply from_nat_add, R.
  - apply from_nat_mul, R.
  - apply from_nat_unique.
Qed.

Theorem sub_add_all :
  (forall x y : bool, le bool_ops y x -> add bool_ops (bsub x y) y = x) /\
  (forall x y : ereal, le ereal_ops y x -> add ereal_ops (esub x y) y = x) /\
  (forall x y : trop, le trop_ops y x -> add trop_ops (tsub x y) y = x).
Proof. split; [exact bsub_le | split; [exact esub_add | exact tsub_add]]. Qed.

(** hypotheses are satisfiable by non-trivial values *)
Example esub_add_ex : ele (Fin nn1) (Fin (nnadd nn1 nn1)) /\ eadd (esub (Fin (nnadd nn1 nn1)) (Fin nn1)) (Fin nn1) = Fin (nnadd nn1 nn1).
Proof. split; [cbn; discriminate | apply esub_add; cbn; discriminate]. Qed.
Example estar_ind_ex :
  let h := Fin (nn_of_Q (1#2)) in
  ele (eadd (emul h (Fin (nnadd nn1 nn1))) (Fin nn1)) (Fin (nnadd nn1 nn1)) /\ emul (estar h) (Fin nn1) = Fin (nnadd nn1 nn1).
Proof. split; [cbn; discriminate | apply Fin_eq; reflexivity]. Qed.
Example tstar_ind_ex :
  tle (tmax (tplus (TFin (-(1))) (TFin 1)) (TFin 1)) (TFin 1) /\ tplus (tstar (TFin (-(1)))) (TFin 1) = TFin 1.
Proof. split; [cbn; discriminate | reflexivity]. Qed.
