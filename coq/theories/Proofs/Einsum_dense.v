(** C07 (a): facts about the dense specification [einsum_dense]: the empty operand list gives
    [one]; a zero-size summed index gives [zero]; the operands may be permuted; the value only
    depends on the operand entries inside their shapes. *)
From Coq Require Import List Arith Bool PeanoNat Lia Permutation Ring Ring_theory PArith.
Import ListNotations.
Require Import Fggs.Model.Semiring Fggs.Model.SumProduct.
Require Import Fggs.Model.Axis Fggs.Model.AxisCheck Fggs.Model.Einsum.
Require Import Fggs.Proofs.BigSum Fggs.Proofs.SP_trees.

(** * labels *)
Lemma lassoc_app {A} l (e1 e2 : list (nat * A)) :
  lassoc l (e1 ++ e2) = match lassoc l e1 with Some v => Some v | None => lassoc l e2 end.
Proof.
  induction e1 as [|[l' v] e1 IH]; [reflexivity|]. simpl. destruct (Nat.eqb l' l); [reflexivity|exact IH].
Qed.

Lemma lassoc_In {A} l (e : list (nat * A)) v : lassoc l e = Some v -> In (l, v) e.
Proof.
  induction e as [|[l' v'] e IH]; simpl; [discriminate|].
  destruct (Nat.eqb_spec l' l) as [->|]; intros H; [inversion H; left; reflexivity|right; auto].
Qed.

Lemma lassoc_None {A} l (e : list (nat * A)) : lassoc l e = None <-> ~ In l (map fst e).
Proof.
  induction e as [|[l' v'] e IH]; simpl; [tauto|].
  destruct (Nat.eqb_spec l' l) as [->|Hne]; [split; [discriminate|intros H; exfalso; apply H; left; reflexivity]|].
  rewrite IH. split; [intros H [E|E]; [congruence|auto]|intros H E; apply H; right; exact E].
Qed.

Lemma lassoc_combine_nth (ls : list nat) (vs : list nat) l :
  NoDup ls -> length ls = length vs -> forall j, j < length ls -> nth j ls 0 = l ->
  lassoc l (combine ls vs) = Some (nth j vs 0).
Proof.
  intros ND. revert vs. induction ND as [|x ls Hx ND IH]; intros vs Hl j Hj Hn; [simpl in Hj; lia|].
  destruct vs as [|v vs]; [discriminate|]. simpl. destruct j as [|j].
  - simpl in Hn. subst. rewrite Nat.eqb_refl. reflexivity.
  - simpl in Hn. destruct (Nat.eqb_spec x l) as [->|Hne].
    + exfalso. apply Hx. rewrite <- Hn. apply nth_In. simpl in Hj. lia.
    + simpl. apply IH; [simpl in Hl; lia|simpl in Hj; lia|exact Hn].
Qed.

(** with distinct output labels every index tuple of the right length is consistent *)
Lemma out_consistent_NoDup output oidx : NoDup output -> length output = length oidx ->
  out_consistent output oidx = true.
Proof.
  intros ND Hl. unfold out_consistent. rewrite Hl, Nat.eqb_refl. simpl.
  apply forallb_forall. intros [l v] Hin. simpl.
  destruct (In_nth _ _ (0, 0) Hin) as (j & Hj & Ej). rewrite combine_length, <- Hl, Nat.min_id in Hj.
  rewrite combine_nth in Ej by exact Hl. inversion Ej; subst.
  unfold lval. rewrite (lassoc_combine_nth output oidx _ ND Hl j Hj eq_refl). apply Nat.eqb_refl.
Qed.

Section DenseFacts.
Context {R : Type} (o : sr_ops R).
Hypothesis Hr : sr_ring o.
Add Ring RingED : (sr_is_srt o Hr).

(** the empty operand list: [one] *)
Theorem einsum_dense_empty : einsum_dense o [] [] [] [] = one o.
Proof.
  unfold einsum_dense, einsum_term. simpl. unfold sumS, prodS. simpl. ring.
Qed.

(** a summed index of size zero: [zero] *)
Theorem einsum_dense_zero_size ops inputs output oidx l :
  In l (summed_labels inputs output) ->
  lval (label_sizes (map fst ops) inputs) l = 0 ->
  einsum_dense o ops inputs output oidx = Semiring.zero o.
Proof.
  intros Hin Hz. unfold einsum_dense. destruct (out_consistent output oidx); [|reflexivity].
  cbv zeta. set (summed := summed_labels inputs output) in *.
  set (sz := label_sizes (map fst ops) inputs) in *.
  assert (E : all_assts (map (lval sz) summed) = []).
  { clearbody summed. induction summed as [|x s IH]; [contradiction|]. simpl.
    destruct Hin as [->|Hin].
    - rewrite Hz. reflexivity.
    - rewrite (IH Hin). clear. induction (seq 0 (lval sz x)) as [|i l IHl]; [reflexivity|exact IHl]. }
  rewrite E. reflexivity.
Qed.

(** the operands (with their index lists) may be permuted *)
Lemma einsum_term_perm (pairs pairs' : list (operand (R:=R) * list nat)) env :
  Permutation pairs pairs' ->
  prodS o pairs (fun oi => snd (fst oi) (map (lval env) (snd oi)))
  = prodS o pairs' (fun oi => snd (fst oi) (map (lval env) (snd oi))).
Proof. intros P. apply (prodS_perm o Hr). exact P. Qed.

(** permuting the operands does not change the value, provided the labels keep their sizes and
    the summed-out labels are enumerated in the same order (e.g. a permutation that keeps first
    appearances; in general the order of summation is a permutation as well, see
    [einsum_dense_perm]) *)
Theorem einsum_dense_perm_same_order ops inputs ops' inputs' output oidx :
  length ops = length inputs -> length ops' = length inputs' ->
  Permutation (combine ops inputs) (combine ops' inputs') ->
  summed_labels inputs' output = summed_labels inputs output ->
  map (lval (label_sizes (map fst ops') inputs')) (summed_labels inputs output)
  = map (lval (label_sizes (map fst ops) inputs)) (summed_labels inputs output) ->
  einsum_dense o ops' inputs' output oidx = einsum_dense o ops inputs output oidx.
Proof.
  intros L L' P Es Ez. unfold einsum_dense. destruct (out_consistent output oidx); [|reflexivity].
  cbv zeta. rewrite Es, Ez. apply (sumS_ext o). intros sv _. unfold einsum_term.
  symmetry. apply einsum_term_perm. exact P.
Qed.

(** the value only depends on the operand entries *)
Lemma einsum_dense_ext ops ops' inputs output oidx :
  map fst ops = map fst ops' ->
  (forall j idx, j < length ops -> snd (nth j ops ([], fun _ => Semiring.zero o)) idx
                                   = snd (nth j ops' ([], fun _ => Semiring.zero o)) idx) ->
  einsum_dense o ops inputs output oidx = einsum_dense o ops' inputs output oidx.
Proof.
  intros Hs Hf. unfold einsum_dense. rewrite Hs. destruct (out_consistent output oidx); [|reflexivity].
  cbv zeta. apply (sumS_ext o). intros sv _. unfold einsum_term.
  assert (Hl : length ops = length ops') by (rewrite <- (map_length fst ops), Hs, map_length; reflexivity).
  clear Hs. generalize (combine output oidx ++ combine (summed_labels inputs output) sv). intros env.
  revert ops' inputs Hf Hl. induction ops as [|op ops IH]; intros [|op' ops'] inputs Hf Hl; try discriminate; [reflexivity|].
  destruct inputs as [|inp inputs]; [reflexivity|].
  cbn [combine]. rewrite !(prodS_cons o). f_equal.
  - exact (Hf 0 _ (Nat.lt_0_succ _)).
  - apply IH; [|simpl in Hl; lia]. intros j idx Hj. apply (Hf (S j) idx). simpl. lia.
Qed.
End DenseFacts.
