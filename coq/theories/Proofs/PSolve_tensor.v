(** C09 tier B -- the link to the tensors: for patterned tensors [a] (a matrix) and [b] (a vector)
    whose default is the semiring zero, the dense tensors they DENOTE ([PTensor.denote] = what
    [__getitem__] returns, C06) satisfy the premises of [psolve_denotes_least]: an entry that no
    in-range environment of the pattern evaluates to is the default. *)
From Coq Require Import List Arith Lia PeanoNat Bool PArith.
Import ListNotations.
Require Import Fggs.Model.Semiring Fggs.Model.Axis Fggs.Model.AxisCheck Fggs.Model.PTensor Fggs.Model.Solve Fggs.Model.PSolve.
Require Import Fggs.Proofs.Axis_sem Fggs.Proofs.PTensor_sem Fggs.Proofs.SolveElim Fggs.Proofs.SolveRefine.
Require Import Fggs.Proofs.PSolve_anti Fggs.Proofs.PSolve_step Fggs.Proofs.PSolve_sized Fggs.Proofs.PSolve_loop Fggs.Proofs.PSolve_dense Fggs.Proofs.PSolve_main.
Require Import Fggs.Proofs.Axis_complete_gen.

Section Tensor.
Context {S : Type} (o : sr_ops S).
Hypothesis Hring : sr_ring o.
Hypothesis Hord : sr_ordered o.
Hypothesis Hstar : sr_star o.

(** the dense matrix / vector a patterned tensor denotes *)
Definition dense_mat (n : nat) (t : ptensor S) : mat S := tab2 n n (fun i j => denote S t [i; j]).
Definition dense_col (n : nat) (t : ptensor S) : mat S := tab2 n 1 (fun i _ => denote S t [i]).

Variables (a b : ptensor S) (a0 a1 b0 : axis) (next : positive) (sz : positive -> nat) (n : nat).
Hypothesis Va : vaxes a = [a0; a1].
Hypothesis Vb : vaxes b = [b0].
Hypothesis Da : default a = Semiring.zero o.
Hypothesis Db : default b = Semiring.zero o.
Hypothesis B0 : below next a0.
Hypothesis B1 : below next a1.
Hypothesis Bb : below next b0.
Hypothesis Dj : forall k, In k (fv b0) -> ~ In k (fv a0 ++ fv a1).
Hypothesis S0 : szc sz a0.
Hypothesis S1 : szc sz a1.
Hypothesis Sb : szc sz b0.
Hypothesis Nb : numel b0 = n.

Lemma dense_mat_zero i j : i < n -> j < n ->
  (forall rho, inrange rho a0 -> inrange rho a1 -> eval rho a0 = i -> eval rho a1 = j -> False) ->
  get2 o (dense_mat n a) i j = Semiring.zero o.
Proof.
  intros Hi Hj H. unfold dense_mat. rewrite get2_tab2 by assumption. rewrite <- Da.
  apply denote_unbacked; [rewrite Va; reflexivity|]. rewrite Va. intros rho R E.
  inversion R as [|? ? R0 R']; subst. inversion R' as [|? ? R1 _]; subst.
  unfold evals in E. simpl in E. inversion E. exact (H rho R0 R1 H1 H2).
Qed.

Lemma dense_col_zero i c : i < n -> c < 1 -> ~ rng b0 i -> get2 o (dense_col n b) i c = Semiring.zero o.
Proof.
  intros Hi Hc H. unfold dense_col. rewrite get2_tab2 by assumption. rewrite <- Db.
  apply denote_unbacked; [rewrite Vb; reflexivity|]. rewrite Vb. intros rho R E.
  inversion R as [|? ? R0 _]; subst. unfold evals in E. simpl in E. inversion E. apply H. exists rho. split; assumption.
Qed.

(** C09_psolve_tensor_least: on the normal exit, the model's result (gather along the computed
    axis, dense solve, scatter) is the least solution of x = A x + b for the tensors' denotations *)
Theorem psolve_tensor_least fuel g ents i' :
  psolve_loop fuel a0 a1 b0 (mkLI 0 next false []) = LDone g ents i' -> li_warn i' = false ->
  least_spec o n (dense_mat n a) (col o n (dense_col n b) 0)
    (fun v => if v <? n then get2 o (psolve_dense o n 1 g [] (dense_mat n a) (dense_col n b)) v 0 else Semiring.zero o).
Proof.
  intros H W.
  apply (psolve_dense_least_spec o Hring Hord Hstar next a0 a1 b0 B0 B1 Bb Dj sz S0 S1 Sb n 1
           (dense_mat n a) (dense_col n b) Nb dense_mat_zero dense_col_zero fuel g ents i' [] H W).
  - change (sup_cols []) with [0]. constructor; [intros []|constructor].
  - change (sup_cols []) with [0]. intros c [<-|[]]. apply le_n.
  - change (sup_cols []) with [0]. intros i c _ Hc Hn. exfalso. apply Hn. left. lia.
  - apply le_n.
Qed.

(** ... and on the [b.clone()] exit the least solution is the denotation of [b] *)
Theorem psolve_tensor_early_least fuel e' i' :
  psolve_loop fuel a0 a1 b0 (mkLI 0 next false []) = LEarly e' i' -> li_warn i' = false ->
  forall v, v < n -> get1 o (solve_model o n (dense_mat n a) (col o n (dense_col n b) 0)) v = denote S b [v].
Proof.
  intros H W v Hv.
  rewrite <- (solve_model_mat_col o n 1 (dense_mat n a) (dense_col n b) v 0 Hv (le_n 1)).
  rewrite (psolve_early_least o Hring Hord Hstar next a0 a1 b0 B0 B1 Bb Dj sz S0 S1 Sb n 1
             (dense_mat n a) (dense_col n b) dense_mat_zero dense_col_zero fuel e' i' H W v 0 Hv (le_n 1)).
  unfold dense_col. rewrite get2_tab2 by (try exact Hv; apply le_n). reflexivity.
Qed.
End Tensor.
