(** C01: non-recursive grammars.  A rank function strictly decreasing along the rules makes the
    Kleene iterates stabilise after rank+1 steps, bounds the depth of every derivation tree, and
    can be normalised to take values below the number of nonterminals; hence [Zk] at
    k = number of nonterminals is the sum over ALL derivation trees. *)
From Coq Require Import List Arith Bool PeanoNat Lia Permutation Ring Ring_theory.
Import ListNotations.
Require Import Fggs.Model.Semiring Fggs.Model.SCC Fggs.Model.SumProduct.
Require Import Fggs.Proofs.SCC_ntgraph Fggs.Proofs.BigSum Fggs.Proofs.SP_trees.

(** [rank] strictly decreases from the left-hand side of every rule (of a nonterminal) to every
    nonterminal edge label of its right-hand side *)
Definition ranked (G : grammar) (rank : nat -> nat) : Prop :=
  forall r, In r (g_rules G) -> is_term G (r_lhs r) = false ->
  forall ed, In ed (r_edges r) -> is_term G (fst ed) = false -> rank (fst ed) < rank (r_lhs r).

Lemma in_rules_of G X r : In r (rules_of G X) <-> In r (g_rules G) /\ r_lhs r = X.
Proof. unfold rules_of. rewrite filter_In, Nat.eqb_eq. tauto. Qed.

Lemma get_rule_In G ri : ri < length (g_rules G) -> In (get_rule G ri) (g_rules G).
Proof. apply nth_In. Qed.

Section NonRec.
Context {R : Type} (o : sr_ops R).
Hypothesis Hr : sr_ring o.

(** [rule_val] only reads the environment at the labels of the rule's edges, at index tuples
    obtained by restricting an in-range assignment *)
Lemma rule_val_ext G (e e' : env (R:=R)) r xi :
  (forall ed a, In ed (r_edges r) -> In a (all_assts (node_sizes G r)) ->
                e (fst ed) (sel a (snd ed)) = e' (fst ed) (sel a (snd ed))) ->
  rule_val o G e r xi = rule_val o G e' r xi.
Proof.
  intros H. unfold rule_val. apply sumS_ext. intros a Ha. apply filter_In in Ha.
  apply prodS_ext. intros ed Hed. apply H; tauto.
Qed.

Theorem Zk_stable G w rank : ranked G rank ->
  forall k X xi, is_term G X = false -> rank X < k -> Zk o G w (S k) X xi = Zk o G w k X xi.
Proof.
  intros Hrk. induction k as [|k IH]; intros X xi HX Hk; [lia|].
  rewrite (Zk_S o G w (S k)), (Zk_S o G w k) by exact HX.
  apply sumS_ext. intros r Hrin. apply in_rules_of in Hrin. destruct Hrin as [Hrin <-].
  apply rule_val_ext. intros ed a Hed _. unfold env_k.
  destruct (is_term G (fst ed)) eqn:Ht; [reflexivity|].
  apply IH; trivial. specialize (Hrk r Hrin HX ed Hed Ht). lia.
Qed.

Corollary Zk_stable_ge G w rank : ranked G rank ->
  forall k X xi, is_term G X = false -> rank X < k -> Zk o G w k X xi = Zk o G w (S (rank X)) X xi.
Proof.
  intros Hrk k X xi HX Hk. induction k as [|k IH]; [lia|].
  destruct (Nat.eq_dec k (rank X)) as [->|Hne]; [reflexivity|].
  rewrite (Zk_stable G w rank Hrk) by (trivial; lia). apply IH. lia.
Qed.
End NonRec.

(** every derivation tree of a ranked grammar has depth <= rank + 1 *)
Lemma wf_dtree_depth_aux G rank : ranked G rank ->
  forall n t, depth t <= n -> forall X xi, is_term G X = false -> wf_dtree G X xi t -> depth t <= S (rank X).
Proof.
  intros Hrk. induction n as [|n IH]; intros [ri a ch] Hd X xi HX Hwf; [cbn [depth] in Hd; lia|].
  cbn [wf_dtree] in Hwf. destruct Hwf as (Hri & Hlhs & _ & _ & Hch).
  apply depth_DT_le. apply depth_DT_le in Hd. apply all2_Forall2 in Hch.
  pose proof (get_rule_In G ri Hri) as Hin. subst X.
  assert (Hes : forall ed, In ed (r_edges (get_rule G ri)) -> is_term G (fst ed) = false ->
                           rank (fst ed) < rank (r_lhs (get_rule G ri))) by (intros; now apply Hrk).
  clear Hin Hri. revert Hes. induction Hch as [|c ed ch es Hc _ IHch]; intros Hes; constructor.
  - destruct c as [t'|]; [|cbn; lia]. destruct Hc as [Ht Hw]. cbn [opt_depth].
    inversion Hd as [|? ? Hdc _]; subst. cbn [opt_depth] in Hdc.
    pose proof (IH t' Hdc _ _ Ht Hw). specialize (Hes ed (or_introl eq_refl) Ht). lia.
  - apply IHch; [now inversion Hd|]. intros ed' Hed'. apply Hes. now right.
Qed.
Theorem wf_dtree_depth G rank : ranked G rank ->
  forall X xi t, is_term G X = false -> wf_dtree G X xi t -> depth t <= S (rank X).
Proof. intros Hrk X xi t. now apply (wf_dtree_depth_aux G rank Hrk (depth t)). Qed.

(** for k > rank X, [enum_trees G k X xi] lists ALL derivation trees of X with external assignment xi *)
Theorem enum_trees_all G rank : ranked G rank ->
  forall k X xi t, is_term G X = false -> rank X < k ->
  (In t (enum_trees G k X xi) <-> wf_dtree G X xi t).
Proof.
  intros Hrk k X xi t HX Hk. rewrite enum_trees_spec. split; [tauto|]. intros Hwf. split; trivial.
  pose proof (wf_dtree_depth G rank Hrk X xi t HX Hwf). lia.
Qed.

(** * Normalising the rank: the height of a nonterminal in the dependency relation *)
Definition deps (G : grammar) (X : nat) : list nat :=
  flat_map (fun r => map fst (filter (fun ed => negb (is_term G (fst ed))) (r_edges r))) (rules_of G X).

Lemma in_deps G X Y :
  In Y (deps G X) <-> exists r ed, In r (g_rules G) /\ r_lhs r = X /\ In ed (r_edges r)
                                   /\ is_term G (fst ed) = false /\ fst ed = Y.
Proof.
  unfold deps. rewrite in_flat_map. split.
  - intros (r & Hr & HY). apply in_rules_of in Hr. rewrite in_map_iff in HY.
    destruct HY as (ed & <- & Hed). apply filter_In in Hed. destruct Hed as [Hed Ht].
    apply negb_true_iff in Ht. exists r, ed. tauto.
  - intros (r & ed & Hr & HX & Hed & Ht & <-). exists r. split; [apply in_rules_of; tauto|].
    apply in_map. apply filter_In. split; trivial. now rewrite Ht.
Qed.

Lemma ranked_deps G rank :
  ranked G rank <-> (forall X Y, is_term G X = false -> In Y (deps G X) -> rank Y < rank X).
Proof.
  split.
  - intros H X Y HX HY. apply in_deps in HY. destruct HY as (r & ed & Hr & <- & Hed & Ht & <-). now apply H.
  - intros H r Hr HX ed Hed Ht. apply H; trivial. apply in_deps. exists r, ed. tauto.
Qed.

Definition list_max (l : list nat) : nat := fold_right Nat.max 0 l.
Lemma list_max_ge l x : In x l -> x <= list_max l.
Proof. induction l as [|y l IH]; [intros []|]. intros [->|H]; cbn [list_max fold_right]; [lia|]. specialize (IH H). unfold list_max in IH. lia. Qed.
Lemma list_max_le l m : (forall x, In x l -> x <= m) -> list_max l <= m.
Proof.
  induction l as [|y l IH]; intros H; cbn [list_max fold_right]; [lia|].
  apply Nat.max_lub; [apply H; now left|]. apply IH. intros x Hx. apply H. now right.
Qed.
Lemma list_max_attained l : list_max l = 0 \/ In (list_max l) l.
Proof.
  induction l as [|y l IH]; [now left|]. cbn [list_max fold_right]. fold (list_max l).
  destruct (Nat.max_spec y (list_max l)) as [[_ ->]|[_ ->]]; [|right; now left].
  destruct IH as [->|IH]; [now left|right; now right].
Qed.

Fixpoint height (G : grammar) (k : nat) (X : nat) : nat :=
  match k with
  | 0 => 0
  | S k => list_max (map (fun Y => S (height G k Y)) (deps G X))
  end.

Lemma deps_nonterminal G X Y : In Y (deps G X) -> is_term G Y = false.
Proof. rewrite in_deps. intros (r & ed & _ & _ & _ & Ht & <-). exact Ht. Qed.

Lemma height_le_rank G rank : ranked G rank ->
  forall k X, is_term G X = false -> height G k X <= rank X.
Proof.
  rewrite ranked_deps. intros Hrk. induction k as [|k IH]; intros X HX; cbn [height]; [lia|].
  apply list_max_le. intros x Hx. rewrite in_map_iff in Hx. destruct Hx as (Y & <- & HY).
  specialize (Hrk X Y HX HY). specialize (IH Y (deps_nonterminal G X Y HY)). lia.
Qed.

Lemma height_stable G rank : ranked G rank ->
  forall k X, is_term G X = false -> rank X <= k -> height G (S k) X = height G k X.
Proof.
  rewrite ranked_deps. intros Hrk. induction k as [|k IH]; intros X HX Hk.
  - cbn [height]. destruct (deps G X) as [|Y l] eqn:E; [reflexivity|].
    assert (HY : In Y (deps G X)) by (rewrite E; now left). specialize (Hrk X Y HX HY). lia.
  - cbn [height]. f_equal. apply map_ext_in. intros Y HY. f_equal.
    change (height G (S k) Y = height G k Y). apply IH; [exact (deps_nonterminal G X Y HY)|].
    specialize (Hrk X Y HX HY). lia.
Qed.
Lemma height_stable_ge G rank : ranked G rank ->
  forall j k X, is_term G X = false -> rank X <= k -> height G (j + k) X = height G k X.
Proof.
  intros Hrk. induction j as [|j IH]; intros k X HX Hk; [reflexivity|].
  cbn [Nat.add]. rewrite (height_stable G rank Hrk) by (trivial; lia). now apply IH.
Qed.

(** a dependency chain *)
Fixpoint chain (G : grammar) (l : list nat) : Prop :=
  match l with
  | X :: ((Y :: _) as l') => In Y (deps G X) /\ chain G l'
  | _ => True
  end.

Lemma height_chain G : forall k X, exists l, chain G (X :: l) /\ length l = height G k X.
Proof.
  induction k as [|k IH]; intros X; [exists []; split; [exact I|reflexivity]|].
  cbn [height]. destruct (list_max_attained (map (fun Y => S (height G k Y)) (deps G X))) as [->|Hin].
  - exists []. split; [exact I|reflexivity].
  - rewrite in_map_iff in Hin. destruct Hin as (Y & HYeq & HY). rewrite <- HYeq.
    destruct (IH Y) as (l & Hl & Hlen). exists (Y :: l). split; [split; trivial|]. cbn [length]. now rewrite Hlen.
Qed.

Lemma chain_ranks G rank : ranked G rank ->
  forall l X, is_term G X = false -> chain G (X :: l) ->
  Forall (fun Y => is_term G Y = false /\ rank Y < rank X) l /\ NoDup (X :: l).
Proof.
  rewrite ranked_deps. intros Hrk. induction l as [|Y l IH]; intros X HX Hc.
  - split; [constructor|]. constructor; [intros []|constructor].
  - destruct Hc as [HY Hc]. pose proof (deps_nonterminal G X Y HY) as HtY.
    specialize (Hrk X Y HX HY). destruct (IH Y HtY Hc) as [Hall Hnd].
    assert (Hall' : Forall (fun Z => is_term G Z = false /\ rank Z < rank X) (Y :: l)).
    { constructor; [tauto|]. eapply Forall_impl; [|exact Hall]. cbn beta. intros Z [? ?]. split; trivial. lia. }
    split; trivial. constructor; trivial.
    intros Hin. rewrite Forall_forall in Hall'. specialize (Hall' X Hin). lia.
Qed.

Lemma nonterminal_In G X : is_term G X = false -> In X (nonterminals G).
Proof.
  intros HX. unfold nonterminals. apply filter_In. split; [|now rewrite HX].
  apply in_seq. split; [lia|]. cbn [Nat.add].
  destruct (Nat.lt_ge_cases X (length (g_labels G))) as [H|H]; trivial.
  unfold is_term in HX. rewrite nth_overflow in HX by exact H. discriminate.
Qed.

Lemma height_lt_nonterminals G rank : ranked G rank ->
  forall k X, is_term G X = false -> height G k X < length (nonterminals G).
Proof.
  intros Hrk k X HX. destruct (height_chain G k X) as (l & Hc & <-).
  destruct (chain_ranks G rank Hrk l X HX Hc) as [Hall Hnd].
  assert (Hincl : incl (X :: l) (nonterminals G)).
  { intros Z [<-|HZ]; [now apply nonterminal_In|]. rewrite Forall_forall in Hall.
    apply nonterminal_In. now apply Hall. }
  pose proof (NoDup_incl_length Hnd Hincl) as Hlen. cbn [length] in Hlen. lia.
Qed.

(** every ranked grammar has a rank function with values below the number of nonterminals *)
Theorem ranked_normalise G rank : ranked G rank ->
  exists rank', ranked G rank' /\ forall X, is_term G X = false -> rank' X < length (nonterminals G).
Proof.
  intros Hrk. set (M := list_max (map rank (nonterminals G))).
  assert (HM : forall X, is_term G X = false -> rank X <= M).
  { intros X HX. apply list_max_ge. apply in_map. now apply nonterminal_In. }
  exists (height G M). split; [|intros X HX; now apply (height_lt_nonterminals G rank Hrk)].
  apply ranked_deps. intros X Y HX HY.
  rewrite <- (height_stable G rank Hrk M X HX (HM X HX)). cbn [height].
  assert (S (height G M Y) <= list_max (map (fun Y => S (height G M Y)) (deps G X))); [|lia].
  apply list_max_ge. now apply (in_map (fun Y => S (height G M Y))).
Qed.

Section NonRecMain.
Context {R : Type} (o : sr_ops R).
Hypothesis Hr : sr_ring o.

(** C01, the mathematical content: for a non-recursive grammar, the iterate number
    [#nonterminals] (the value the specification [Ztab] tabulates) is the sum over ALL derivation
    trees of X and all assignments of the product of the factor weights; every tree is listed
    exactly once; and further iteration does not change it *)
Theorem Zk_nonrec_all_trees G w rank : ranked G rank ->
  forall k X xi, is_term G X = false -> length (nonterminals G) <= k ->
  Zk o G w k X xi = sumS o (enum_trees G k X xi) (weight o G w)
  /\ NoDup (enum_trees G k X xi)
  /\ (forall t, In t (enum_trees G k X xi) <-> wf_dtree G X xi t)
  /\ Zk o G w k X xi = Zk o G w (length (nonterminals G)) X xi.
Proof.
  intros Hrk k X xi HX Hk.
  destruct (ranked_normalise G rank Hrk) as (rank' & Hrk' & Hb). specialize (Hb X HX).
  split; [now apply (Zk_is_tree_sum o Hr)|]. split; [apply enum_trees_NoDup|]. split.
  - intros t. apply (enum_trees_all G rank' Hrk'); trivial. lia.
  - rewrite (Zk_stable_ge o G w rank' Hrk' k X xi HX) by lia.
    now rewrite (Zk_stable_ge o G w rank' Hrk' (length (nonterminals G)) X xi HX) by lia.
Qed.
End NonRecMain.
