(** Consequences of acyclicity of a well-typed substitution ([wts], Proofs/Axis_typed.v):
    - a rank on physical axes that strictly decreases from a bound axis to every axis occurring in
      its binding (type weight first; for variable-to-variable bindings, insertion order), hence an
      induction principle [wts_rank_ind];
    - every assignment of the unbound axes extends to an environment satisfying all bindings
      ([model_exists]); if the assignment respects the sizes, so does the extension ([model_fits])
      and every typed axis is in range under it;
    - reachability through the bindings, and injectivity: two in-range environments satisfying the
      bindings that agree on an axis agree on every axis reachable from it ([reach_inj]). *)
From Coq Require Import List Arith Lia PeanoNat Bool PArith.
Import ListNotations.
Require Import Fggs.Model.Axis Fggs.Proofs.Axis_sem Fggs.Proofs.Axis_unify Fggs.Proofs.Axis_complete_gen Fggs.Proofs.Axis_typed.

(** * the type of every variable of a typed axis is a part of the axis' type *)
Lemma length_le_tws ps : length ps <= tws ps.
Proof. induction ps as [|p ps IH]; simpl; [lia|]. fold (tws ps). pose proof (tw_pos p). lia. Qed.

Lemma tw_summand' pre tj post : tws (tprimes tj) < tws [TSum (pre ++ tj :: post)].
Proof.
  pose proof (tws_tprimes tj). unfold tws at 2. simpl. fold (tws (pre ++ tj :: post)). rewrite tws_app, tws_cons. lia.
Qed.

Lemma ty_weight_both G :
  (forall e ps, ty G e ps -> forall j, In j (fv e) -> tws (G j) <= tws ps /\ (is_phys e = false -> tws (G j) < tws ps)) /\
  (forall l ps, tyl G l ps -> forall j, In j (flat_map fv l) -> tws (G j) + (length l - 1) <= tws ps).
Proof.
  apply ty_tyl_ind.
  - intros k n _ _ j [<-|[]]. split; [lia|discriminate].
  - intros b t a pre tj post _ _ _ IH j Hj. destruct (IH j Hj) as [IH1 _].
    pose proof (tw_summand' pre tj post). split; [lia|intros _; lia].
  - intros l ps Hl _ IH j Hj. specialize (IH j Hj).
    assert (2 <= length l).
    { destruct l as [|x [|y l]]; simpl in *; [contradiction|congruence|lia]. }
    split; [lia|intros _; lia].
  - intros j [].
  - intros x l p1 ps Hx Hty IHx Hl IHl j Hj. simpl in Hj. rewrite tws_app.
    pose proof (ty_factor_nonempty _ _ _ Hty Hx) as N1. pose proof (tws_pos _ N1).
    pose proof (tyl_length _ _ _ Hl). pose proof (length_le_tws ps).
    apply in_app_or in Hj. destruct Hj as [Hj|Hj].
    + destruct (IHx j Hj) as [A _]. simpl. lia.
    + specialize (IHl j Hj). simpl. destruct l; [contradiction|simpl in *; lia].
Qed.

(** * rank *)
Fixpoint vrank (s : subst) (k : positive) : nat :=
  match s with
  | [] => 0
  | (k', _) :: s' => if Pos.eqb k' k then S (length s') else vrank s' k
  end.

Lemma vrank_le s k : vrank s k <= length s.
Proof. induction s as [|[k' T] s IH]; simpl; [lia|]. destruct (Pos.eqb k' k); lia. Qed.

Lemma vrank_app_None s1 s2 k : assoc k s1 = None -> vrank (s1 ++ s2) k = vrank s2 k.
Proof.
  induction s1 as [|[k' T] s1 IH]; simpl; [reflexivity|]. destruct (Pos.eqb k' k); [discriminate|exact IH].
Qed.

Definition rank (G : ctx) (s : subst) (k : positive) : nat := tws (G k) * S (length s) + vrank s k.

Lemma in_split_first {A} k (a : A) (s : list (positive * A)) : NoDup (map fst s) -> In (k, a) s ->
  exists s1 s2, s = s1 ++ (k, a) :: s2 /\ assoc k s1 = None.
Proof. intros N H. apply assoc_split. apply assoc_In_nodup; assumption. Qed.

Lemma rank_decreases G s : wts G s ->
  forall k T j, In (k, T) s -> In j (fv T) -> rank G s j < rank G s k.
Proof.
  intros W k T j Hk Hj. destruct (wts_ty G s W k T Hk) as [Gk HT].
  pose proof (vrank_le s j) as Vj. unfold rank.
  destruct T as [j' n|l|b t a].
  - simpl in Hj. destruct Hj as [<-|[]]. apply ty_phys_inv in HT. destruct HT as (E & _). rewrite E.
    destruct (in_split_first _ _ _ (wts_nodup G s W) Hk) as (s1 & s2 & Es & A1).
    destruct (wts_fwd G s W _ _ _ _ _ Es) as [Njk Aj].
    assert (V1 : vrank s k = S (length s2)).
    { rewrite Es, vrank_app_None by exact A1. simpl. rewrite Pos.eqb_refl. reflexivity. }
    assert (V2 : vrank s j' <= length s2).
    { rewrite Es, vrank_app_None by exact Aj. simpl. destruct (Pos.eqb_spec k j'); [congruence|]. apply vrank_le. }
    lia.
  - destruct (proj1 (ty_weight_both G) _ _ HT j Hj) as [_ A]. specialize (A eq_refl). nia.
  - destruct (proj1 (ty_weight_both G) _ _ HT j Hj) as [_ A]. specialize (A eq_refl). nia.
Qed.

Theorem wts_rank_ind G s : wts G s -> forall P : positive -> Prop,
  (forall k, (forall T j, In (k, T) s -> In j (fv T) -> P j) -> P k) -> forall k, P k.
Proof.
  intros W P H k. remember (rank G s k) as r eqn:Er. revert k Er.
  induction r as [r IH] using lt_wf_ind. intros k ->. apply H. intros T j Hk Hj.
  apply (IH (rank G s j)); [eapply rank_decreases; eauto|reflexivity].
Qed.

(** * sizes written in a typed axis are the sizes of the types *)
Lemma ty_sized_both G :
  (forall e ps, ty G e ps -> forall j n, In (j, n) (fvn e) -> n = tsizes (G j)) /\
  (forall l ps, tyl G l ps -> forall j n, In (j, n) (flat_map fvn l) -> n = tsizes (G j)).
Proof.
  apply ty_tyl_ind.
  - intros k n _ -> j n' [E|[]]. inversion E; subst. reflexivity.
  - intros b t a pre tj post _ _ _ IH j n Hj. exact (IH j n Hj).
  - intros l ps _ _ IH j n Hj. exact (IH j n Hj).
  - intros j n [].
  - intros x l p1 ps _ _ IHx _ IHl j n Hj. simpl in Hj. apply in_app_or in Hj. destruct Hj; eauto.
Qed.

Definition fits (G : ctx) (rho : env) : Prop := forall k, G k <> [] -> rho k < tsizes (G k).

Lemma fvn_fv e j n : In (j, n) (fvn e) -> In j (fv e).
Proof.
  induction e as [k m|l IH|b t a IH] using axis_ind'; simpl.
  - intros [E|[]]. inversion E; subst. left. reflexivity.
  - intros H. apply in_flat_map in H. destruct H as (x & Hx & H). apply in_flat_map. exists x. split; [exact Hx|].
    rewrite Forall_forall in IH. apply IH; assumption.
  - exact IH.
Qed.

Lemma inrange_of_fvn rho e : (forall j n, In (j, n) (fvn e) -> rho j < n) -> inrange rho e.
Proof.
  induction e as [k m|l IH|b t a IH] using axis_ind'; intros H.
  - simpl. apply H. left. reflexivity.
  - apply inrange_Prod. rewrite Forall_forall in *. intros x Hx. apply IH; [exact Hx|]. intros j n Hj. apply H.
    simpl. apply in_flat_map. eauto.
  - simpl. apply IH. exact H.
Qed.

Lemma fvn_of_inrange rho e : inrange rho e -> forall j n, In (j, n) (fvn e) -> rho j < n.
Proof.
  induction e as [k m|l IH|b t a IH] using axis_ind'; intros R j n Hj.
  - simpl in *. destruct Hj as [E|[]]. inversion E; subst. exact R.
  - apply inrange_Prod in R. simpl in Hj. apply in_flat_map in Hj. destruct Hj as (x & Hx & Hj).
    rewrite Forall_forall in *. eapply IH; eauto.
  - simpl in *. eapply IH; eauto.
Qed.

Lemma ty_inrange G rho e ps : ty G e ps -> fits G rho -> inrange rho e.
Proof.
  intros H F. apply inrange_of_fvn. intros j n Hj. rewrite (proj1 (ty_sized_both G) _ _ H j n Hj).
  apply F. apply (proj1 (ty_fv_both G) _ _ H). eapply fvn_fv; eauto.
Qed.

(** * environments satisfying the bindings *)
Lemma models_In rho s k T : models rho s -> In (k, T) s -> rho k = eval rho T.
Proof. intros M H. unfold models in M. rewrite Forall_forall in M. exact (M _ H). Qed.

Definition max_rank (G : ctx) (s : subst) : nat := fold_right Nat.max 0 (map (fun kT : positive * axis => rank G s (fst kT)) s).

Lemma max_rank_ge G s0 (s : subst) k T : In (k, T) s -> rank G s0 k <= fold_right Nat.max 0 (map (fun kT : positive * axis => rank G s0 (fst kT)) s).
Proof.
  induction s as [|[k' T'] s IH]; simpl; intros H; [contradiction|]. destruct H as [H|H].
  - inversion H; subst. lia.
  - specialize (IH H). lia.
Qed.

Theorem model_exists G s (g : env) : wts G s ->
  exists rho, models rho s /\ forall k, assoc k s = None -> rho k = g k.
Proof.
  intros W.
  assert (Step : forall r, exists rho, (forall k, assoc k s = None -> rho k = g k) /\
                                       (forall k T, In (k, T) s -> rank G s k < r -> rho k = eval rho T)).
  { induction r as [|r (rho & U & M)].
    - exists g. split; [reflexivity|]. intros k T _ L. lia.
    - set (rho' := fun k => match assoc k s with
                            | Some T => if Nat.eqb (rank G s k) r then eval rho T else rho k
                            | None => rho k
                            end).
      assert (Same : forall j, rank G s j < r -> rho' j = rho j).
      { intros j L. unfold rho'. destruct (assoc j s); [|reflexivity]. destruct (Nat.eqb_spec (rank G s j) r); [lia|reflexivity]. }
      exists rho'. split.
      + intros k A. unfold rho'. rewrite A. apply U. exact A.
      + intros k T Hk L. pose proof (assoc_In_nodup _ _ _ (wts_nodup G s W) Hk) as A.
        assert (ET : eval rho' T = eval rho T).
        { apply eval_ext_fv. intros j Hj. apply Same. pose proof (rank_decreases G s W k T j Hk Hj). lia. }
        rewrite ET. unfold rho'. rewrite A. destruct (Nat.eqb_spec (rank G s k) r); [reflexivity|].
        apply M; [exact Hk|lia]. }
  destruct (Step (S (max_rank G s))) as (rho & U & M). exists rho. split; [|exact U].
  unfold models. apply Forall_forall. intros [k T] H. simpl. apply (M k T H).
  pose proof (max_rank_ge G s s k T H). unfold max_rank. lia.
Qed.

Theorem model_fits G s rho : wts G s -> models rho s ->
  (forall k, assoc k s = None -> G k <> [] -> rho k < tsizes (G k)) -> fits G rho.
Proof.
  intros W M U. unfold fits. apply (wts_rank_ind G s W (fun k => G k <> [] -> rho k < tsizes (G k))).
  intros k IH Gk. destruct (assoc k s) as [T|] eqn:A; [|apply U; assumption].
  apply assoc_In in A. destruct (wts_ty G s W k T A) as [_ HT].
  rewrite (models_In _ _ _ _ M A), <- (ty_numel _ _ _ HT). apply eval_bound.
  apply inrange_of_fvn. intros j n Hj. rewrite (proj1 (ty_sized_both G) _ _ HT j n Hj).
  apply (IH T j A); [eapply fvn_fv; eauto|]. apply (proj1 (ty_fv_both G) _ _ HT). eapply fvn_fv; eauto.
Qed.

Lemma fits_inr_s G s rho : wts G s -> fits G rho -> inr_s rho s.
Proof.
  intros W F. unfold inr_s. apply Forall_forall. intros [k T] H. simpl.
  destruct (wts_ty G s W k T H) as [_ HT]. eapply ty_inrange; eauto.
Qed.

(** * reachability *)
Inductive reach (s : subst) : positive -> positive -> Prop :=
| reach_refl k : reach s k k
| reach_step k T j j' : In (k, T) s -> In j (fv T) -> reach s j j' -> reach s k j'.

Lemma reach_trans s a b c : reach s a b -> reach s b c -> reach s a c.
Proof. induction 1 as [|k T j j' Hk Hj _ IH]; intros H; [exact H|]. eapply reach_step; eauto. Qed.

Theorem reach_inj s rho1 rho2 : models rho1 s -> models rho2 s -> inr_s rho1 s -> inr_s rho2 s ->
  forall k j, reach s k j -> rho1 k = rho2 k -> rho1 j = rho2 j.
Proof.
  intros M1 M2 R1 R2 k j H. induction H as [|k T j j' Hk Hj _ IH]; intros E; [exact E|].
  apply IH. rewrite (models_In _ _ _ _ M1 Hk), (models_In _ _ _ _ M2 Hk) in E.
  unfold inr_s in *. rewrite Forall_forall in R1, R2.
  exact (eval_inj rho1 rho2 T (R1 _ Hk) (R2 _ Hk) E j Hj).
Qed.

(** a reachable axis other than the start occurs in some binding *)
Lemma reach_occurs s k j : reach s k j -> k = j \/ exists k' T, In (k', T) s /\ In j (fv T).
Proof.
  induction 1 as [|k T j j' Hk Hj _ IH]; [left; reflexivity|]. right.
  destruct IH as [<-|IH]; [eauto|exact IH].
Qed.

(** the end of the forwarding chain is reachable *)
Lemma lookup_reach s : forall m e look, lookup m s e = Ok look ->
  forall k n, e = Phys k n -> forall j, In j (fv look) -> reach s k j.
Proof.
  induction m as [|m IH]; intros e look H k n -> j Hj; simpl in H.
  - destruct (assoc k s) eqn:A; [discriminate|]. inversion H; subst. simpl in Hj. destruct Hj as [<-|[]]. constructor.
  - destruct (assoc k s) as [T|] eqn:A.
    + apply assoc_In in A. destruct T as [j1 n1|l|b t a].
      * eapply reach_step; [exact A|left; reflexivity|]. eapply IH; eauto.
      * destruct m; simpl in H; inversion H; subst; eapply reach_step; [exact A|exact Hj|constructor|exact A|exact Hj|constructor].
      * destruct m; simpl in H; inversion H; subst; eapply reach_step; [exact A|exact Hj|constructor|exact A|exact Hj|constructor].
    + inversion H; subst. simpl in Hj. destruct Hj as [<-|[]]. constructor.
Qed.

Example model_exists_ex :
  let s := [(1%positive, Prod [Phys 2 2; Phys 3 3]); (2%positive, Phys 4 2)] in
  exists rho, models rho s /\ rho 4%positive = 1 /\ rho 3%positive = 2 /\ rho 1%positive = 5.
Proof.
  exists (fun k => match k with 1%positive => 5 | 2%positive => 1 | 3%positive => 2 | 4%positive => 1 | _ => 0 end).
  split; [repeat constructor|auto].
Qed.
