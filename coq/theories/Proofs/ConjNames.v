(** C17, names: [unique_label_name] terminates within |names|+1 probes and returns the first
    free candidate; [nonterminal_pairs] builds an injective, total, fresh nt_map; a genuine
    terminal/terminal label conflict makes [conjoin_hrgs] raise ValueError. *)
From Coq Require Import List Arith Bool PeanoNat Lia Decimal DecimalNat FinFun.
Import ListNotations.
Require Import Fggs.Model.Conj Fggs.Proofs.ConjBase.

(** * decimal suffixes are injective *)
Lemma uint_codes_inj : forall u v, uint_codes u = uint_codes v -> u = v.
Proof.
  induction u; destruct v; simpl; intros H; try discriminate; try reflexivity;
    injection H as H; f_equal; apply IHu; exact H.
Qed.

Lemma dec_inj : forall n m, dec n = dec m -> n = m.
Proof.
  unfold dec. intros n m H. apply uint_codes_inj in H.
  rewrite <- (Unsigned.of_to n), <- (Unsigned.of_to m), H. reflexivity.
Qed.

Lemma suffixed_inj : forall name i j, suffixed name i = suffixed name j -> i = j.
Proof.
  unfold suffixed. intros name i j H. apply app_inv_head in H. injection H as H.
  apply dec_inj. exact H.
Qed.

Lemma suffixed_neq : forall name i, suffixed name i <> name.
Proof.
  unfold suffixed. intros name i H. apply (f_equal (@length nat)) in H.
  rewrite app_length in H. simpl in H. lia.
Qed.

(** * the probing loop *)
Lemma uniq_loop_some : forall fuel i name names o,
  uniq_loop fuel i name names = Some o ->
  exists j, i <= j /\ j < i + fuel /\ o = suffixed name j /\ smem o names = false /\
            forall k, i <= k -> k < j -> smem (suffixed name k) names = true.
Proof.
  induction fuel as [|f IH]; simpl; intros i name names o H; [discriminate|].
  destruct (smem (suffixed name i) names) eqn:E.
  - apply IH in H. destruct H as [j [Hj1 [Hj2 [Ho [Hn Hk]]]]]. exists j.
    split; [lia|]. split; [lia|]. split; [exact Ho|]. split; [exact Hn|].
    intros k Hk1 Hk2. destruct (Nat.eq_dec k i) as [->|Hne]; [exact E|]. apply Hk; lia.
  - injection H as <-. exists i.
    split; [lia|]. split; [lia|]. split; [reflexivity|]. split; [exact E|]. intros; lia.
Qed.

Lemma uniq_loop_none : forall fuel i name names,
  uniq_loop fuel i name names = None ->
  forall k, i <= k -> k < i + fuel -> smem (suffixed name k) names = true.
Proof.
  induction fuel as [|f IH]; simpl; intros i name names H k Hk1 Hk2; [lia|].
  destruct (smem (suffixed name i) names) eqn:E; [|discriminate].
  destruct (Nat.eq_dec k i) as [->|Hne]; [exact E|]. apply (IH (S i)); auto; lia.
Qed.

Lemma uniq_loop_mono : forall f f' i name names o,
  uniq_loop f i name names = Some o -> f <= f' -> uniq_loop f' i name names = Some o.
Proof.
  induction f as [|f IH]; simpl; intros f' i name names o H Hle; [discriminate|].
  destruct f' as [|f']; [lia|]. simpl.
  destruct (smem (suffixed name i) names); [apply IH; [exact H | lia] | exact H].
Qed.

(** pigeonhole: name, name_1, ..., name_|names| are |names|+1 distinct strings *)
Lemma probes_suffice : forall name names,
  smem name names = true ->
  (forall k, 1 <= k -> k < 1 + length names -> smem (suffixed name k) names = true) -> False.
Proof.
  intros name names H0 H.
  set (cands := name :: map (suffixed name) (seq 1 (length names))).
  assert (ND : NoDup cands).
  { constructor.
    - rewrite in_map_iff. intros [k [E _]]. apply suffixed_neq in E. exact E.
    - apply Injective_map_NoDup; [|apply seq_NoDup]. intros i j. apply suffixed_inj. }
  assert (I : incl cands names).
  { intros x [<-|Hx]; [apply smem_In; exact H0|].
    apply in_map_iff in Hx. destruct Hx as [k [<- Hk]]. apply in_seq in Hk.
    apply smem_In. apply H; lia. }
  pose proof (NoDup_incl_length ND I) as L. unfold cands in L. simpl in L.
  rewrite map_length, seq_length in L. lia.
Qed.

(** the specification of [unique_label_name]: the first of name, name_1, name_2, ... not in names *)
Definition unique_spec (name : str) (names : list str) (o : str) : Prop :=
  ~ In o names /\
  (o = name \/
   (In name names /\ exists j, 1 <= j /\ o = suffixed name j /\
                               forall k, 1 <= k -> k < j -> In (suffixed name k) names)).

(** |names|+1 probes suffice: the loop never runs out of fuel *)
Theorem unique_name_total : forall name names, exists o, unique_name name names = Some o.
Proof.
  intros. unfold unique_name, unique_name_fuel. destruct (smem name names) eqn:E; [|eauto].
  destruct (uniq_loop (length names) 1 name names) eqn:L; [eauto|]. exfalso.
  apply (probes_suffice name names E). intros k Hk1 Hk2.
  apply (uniq_loop_none _ _ _ _ L); lia.
Qed.

Theorem unique_name_spec : forall name names o,
  unique_name name names = Some o ->
  unique_spec name names o /\
  (o = name \/ exists j, 1 <= j <= length names /\ o = suffixed name j).
Proof.
  unfold unique_name, unique_name_fuel, unique_spec. intros name names o H.
  destruct (smem name names) eqn:E.
  - apply uniq_loop_some in H. destruct H as [j [Hj1 [Hj2 [Ho [Hn Hk]]]]].
    split; [split|].
    + apply smem_false. exact Hn.
    + right. split; [apply smem_In; exact E|]. exists j. split; [lia|]. split; [exact Ho|].
      intros k Hk1 Hk2. apply smem_In. apply Hk; lia.
    + right. exists j. split; [lia | exact Ho].
  - injection H as <-. split; [split|]; auto. apply smem_false. exact E.
Qed.

(** the specification determines the result *)
Lemma unique_spec_unique : forall name names o o',
  unique_spec name names o -> unique_spec name names o' -> o = o'.
Proof.
  unfold unique_spec. intros name names o o' [N1 [->|[I1 [j [Hj [-> Hk]]]]]] [N2 [->|[I2 [j' [Hj' [-> Hk']]]]]].
  - reflexivity.
  - contradiction.
  - contradiction.
  - destruct (Nat.lt_trichotomy j j') as [L|[->|L]].
    + exfalso. apply N1. apply Hk'; lia.
    + reflexivity.
    + exfalso. apply N2. apply Hk; lia.
Qed.

(** any larger fuel gives the same answer *)
Theorem unique_name_fuel_enough : forall f name names,
  length names <= f -> unique_name_fuel f name names = unique_name name names.
Proof.
  intros f name names Hle. destruct (unique_name_total name names) as [o Ho]. rewrite Ho.
  unfold unique_name, unique_name_fuel in *. destruct (smem name names); [|exact Ho].
  eapply uniq_loop_mono; eauto.
Qed.

(** the label set is used only through membership: its order (a Python set) is immaterial *)
Lemma smem_ext : forall l l', (forall x : str, In x l <-> In x l') -> forall x, smem x l = smem x l'.
Proof.
  intros l l' H x. destruct (smem x l) eqn:E1, (smem x l') eqn:E2; try reflexivity.
  - apply smem_In in E1. apply H in E1. apply smem_In in E1. congruence.
  - apply smem_In in E2. apply H in E2. apply smem_In in E2. congruence.
Qed.

Lemma uniq_loop_ext : forall l l', (forall x : str, In x l <-> In x l') ->
  forall f i name, uniq_loop f i name l = uniq_loop f i name l'.
Proof.
  intros l l' H. induction f as [|f IH]; simpl; intros; [reflexivity|].
  rewrite (smem_ext l l' H). rewrite IH. reflexivity.
Qed.

Theorem unique_name_ext : forall name l l',
  (forall x, In x l <-> In x l') -> unique_name name l = unique_name name l'.
Proof.
  intros name l l' H.
  rewrite <- (unique_name_fuel_enough (max (length l) (length l')) name l) by lia.
  rewrite <- (unique_name_fuel_enough (max (length l) (length l')) name l') by lia.
  unfold unique_name_fuel. rewrite (smem_ext l l' H), (uniq_loop_ext l l' H). reflexivity.
Qed.

(** * the oracle [unique_ok] is sound *)
Lemma find_suffix_some : forall name out n i j,
  find_suffix name out n i = Some j -> i <= j /\ out = suffixed name j.
Proof.
  induction n as [|n IH]; simpl; intros i j H; [discriminate|].
  destruct (str_eqb out (suffixed name i)) eqn:E.
  - injection H as <-. apply str_eqb_eq in E. auto.
  - apply IH in H. destruct H. split; [lia | assumption].
Qed.

Lemma all_before_spec : forall name names i,
  all_before name names i = true -> forall k, 1 <= k -> k <= i -> In (suffixed name k) names.
Proof.
  induction i as [|i IH]; simpl; intros H k Hk1 Hk2; [lia|].
  apply andb_true_iff in H. destruct H as [H1 H2].
  destruct (Nat.eq_dec k (S i)) as [->|Hne]; [apply smem_In; exact H1|]. apply IH; auto; lia.
Qed.

Theorem unique_ok_sound : forall name names out,
  unique_ok name names out = true -> unique_spec name names out.
Proof.
  unfold unique_ok, unique_spec. intros name names out H.
  apply andb_true_iff in H. destruct H as [H1 H2]. apply negb_true_iff in H1.
  split; [apply smem_false; exact H1|].
  destruct (str_eqb out name) eqn:E; [left; apply str_eqb_eq; exact E|].
  right. apply andb_true_iff in H2. destruct H2 as [H2 H3]. split; [apply smem_In; exact H2|].
  destruct (find_suffix name out (S (length names)) 1) as [j|] eqn:F; [|discriminate].
  apply find_suffix_some in F. destruct F as [F1 F2]. exists j. split; [exact F1|]. split; [exact F2|].
  intros k Hk1 Hk2. apply (all_before_spec name names (pred j) H3); lia.
Qed.

(** * nt_map as a dictionary *)
Definition vname (kv : (elabel * elabel) * elabel) : str := el_name (snd kv).

Lemma key_eqb_sym : forall a b, key_eqb a b = key_eqb b a.
Proof.
  intros a b. destruct (key_eqb a b) eqn:E1, (key_eqb b a) eqn:E2; try reflexivity.
  - apply key_eqb_eq in E1. subst. rewrite key_eqb_refl in E2. discriminate.
  - apply key_eqb_eq in E2. subst. rewrite key_eqb_refl in E1. discriminate.
Qed.

Lemma nt_get_set : forall m k v k',
  nt_get (nt_set m k v) k' = if key_eqb k k' then Some v else nt_get m k'.
Proof.
  induction m as [|[k0 v0] m IH]; simpl; intros k v k'; [reflexivity|].
  destruct (key_eqb k0 k) eqn:E; simpl.
  - apply key_eqb_eq in E. subst. destruct (key_eqb k k'); reflexivity.
  - rewrite IH. destruct (key_eqb k0 k') eqn:E'; [|reflexivity].
    apply key_eqb_eq in E'. subst. rewrite key_eqb_sym, E. reflexivity.
Qed.

Lemma nt_get_in : forall m k v, nt_get m k = Some v -> In (k, v) m.
Proof.
  induction m as [|[k0 v0] m IH]; simpl; intros k v H; [discriminate|].
  destruct (key_eqb k0 k) eqn:E.
  - apply key_eqb_eq in E. injection H as <-. subst. left. reflexivity.
  - right. apply IH. exact H.
Qed.

Lemma nt_set_in : forall m k v k1 v1,
  In (k1, v1) (nt_set m k v) -> (k1 = k /\ v1 = v) \/ In (k1, v1) m.
Proof.
  induction m as [|[k0 v0] m IH]; simpl; intros k v k1 v1 H.
  - destruct H as [H|[]]. injection H as <- <-. left. auto.
  - destruct (key_eqb k0 k) eqn:E.
    + destruct H as [H|H].
      * injection H as <- <-. apply key_eqb_eq in E. left. auto.
      * right. right. exact H.
    + destruct H as [H|H]; [right; left; exact H|].
      apply IH in H. destruct H as [H|H]; [left; exact H | right; right; exact H].
Qed.

Lemma nt_set_keys : forall m k v, NoDup (map fst m) -> NoDup (map fst (nt_set m k v)).
Proof.
  induction m as [|[k0 v0] m IH]; simpl; intros k v H.
  - constructor; [intros [] | constructor].
  - inversion H as [|? ? H1 H2]; subst. destruct (key_eqb k0 k) eqn:E; simpl.
    + constructor; assumption.
    + constructor; [|apply IH; exact H2].
      intros Hin. apply in_map_iff in Hin. destruct Hin as [[k1 v1] [E1 Hin]]. simpl in E1. subst.
      apply nt_set_in in Hin. destruct Hin as [[-> _]|Hin].
      * rewrite key_eqb_refl in E. discriminate.
      * apply H1. apply in_map_iff. exists (k0, v1). auto.
Qed.

Lemma nt_set_vnames : forall m k v,
  NoDup (map vname m) -> ~ In (el_name v) (map vname m) -> NoDup (map vname (nt_set m k v)).
Proof.
  induction m as [|[k0 v0] m IH]; simpl; intros k v H N.
  - constructor; [intros [] | constructor].
  - inversion H as [|? ? H1 H2]; subst. destruct (key_eqb k0 k) eqn:E; simpl.
    + constructor; [|exact H2]. intros Hin. apply N. right. exact Hin.
    + constructor.
      * intros Hin. apply in_map_iff in Hin. destruct Hin as [[k1 v1] [E1 Hin]].
        apply nt_set_in in Hin. destruct Hin as [[-> ->]|Hin].
        -- apply N. left. symmetry. exact E1.
        -- apply H1. apply in_map_iff. exists (k1, v1). auto.
      * apply IH; [exact H2|]. intros Hin. apply N. right. exact Hin.
Qed.

Lemma in_nt_get : forall m k v, NoDup (map fst m) -> In (k, v) m -> nt_get m k = Some v.
Proof.
  induction m as [|[k0 v0] m IH]; simpl; intros k v H Hin; [contradiction|].
  inversion H as [|? ? H1 H2]; subst. destruct Hin as [E|Hin].
  - injection E as -> ->. rewrite key_eqb_refl. reflexivity.
  - destruct (key_eqb k0 k) eqn:E.
    + apply key_eqb_eq in E. subst. exfalso. apply H1. apply in_map_iff. exists (k, v). auto.
    + apply IH; assumption.
Qed.

Lemma NoDup_map_inj_in {A B} (f : A -> B) : forall l x y,
  NoDup (map f l) -> In x l -> In y l -> f x = f y -> x = y.
Proof.
  induction l as [|a l IH]; simpl; intros x y H Hx Hy E; [contradiction|].
  inversion H as [|? ? H1 H2]; subst. destruct Hx as [->|Hx], Hy as [->|Hy].
  - reflexivity.
  - exfalso. apply H1. rewrite E. apply in_map. exact Hy.
  - exfalso. apply H1. rewrite <- E. apply in_map. exact Hx.
  - apply IH; assumption.
Qed.

(** * nonterminal_pairs *)
Definition ntp_inv (base : list elabel) (st : ntmap * list elabel) : Prop :=
  incl base (snd st) /\
  NoDup (map fst (fst st)) /\
  NoDup (map vname (fst st)) /\
  forall k v, In (k, v) (fst st) ->
    In v (snd st) /\ el_term v = false /\ el_type v = el_type (fst k) /\
    ~ In (el_name v) (map el_name base).

Definition dom (st : ntmap * list elabel) (k : elabel * elabel) : Prop := nt_get (fst st) k <> None.

Lemma ntp_step_ok : forall el1 st el2, exists st', ntp_step el1 st el2 = Ok st'.
Proof.
  intros. unfold ntp_step, unique_label_name_model.
  destruct (unique_name_total (pair_name (el_name el1) (el_name el2)) (map el_name (snd st))) as [o Ho].
  rewrite Ho. eauto.
Qed.

Lemma ntp_step_inv : forall base el1 st el2 st',
  ntp_inv base st -> ntp_step el1 st el2 = Ok st' ->
  ntp_inv base st' /\ (forall k, dom st k -> dom st' k) /\ dom st' (el1, el2).
Proof.
  intros base el1 [m labels] el2 st' [I1 [I2 [I3 I4]]] H. unfold ntp_step, unique_label_name_model in H.
  simpl in *.
  destruct (unique_name (pair_name (el_name el1) (el_name el2)) (map el_name labels)) as [nm|] eqn:U;
    [|discriminate].
  injection H as <-. apply unique_name_spec in U. destruct U as [[Nin _] _].
  set (new_nt := {| el_name := nm; el_type := el_type el1; el_term := false |}).
  assert (Nv : ~ In nm (map vname m)).
  { intros Hin. apply in_map_iff in Hin. destruct Hin as [[k v] [E Hin]]. unfold vname in E. simpl in E.
    apply Nin. subst nm. apply in_map. apply (I4 k v Hin). }
  split; [|split].
  - unfold ntp_inv. simpl. split; [|split; [|split]].
    + intros x Hx. right. apply I1. exact Hx.
    + apply nt_set_keys. exact I2.
    + apply nt_set_vnames; [exact I3 | exact Nv].
    + intros k v Hin. apply nt_set_in in Hin. destruct Hin as [[-> ->]|Hin].
      * split; [left; reflexivity|]. split; [reflexivity|]. split; [reflexivity|].
        simpl. intros Hb. apply Nin. apply in_map_iff in Hb. destruct Hb as [b [Eb Hb]].
        rewrite <- Eb. apply in_map. apply I1. exact Hb.
      * destruct (I4 k v Hin) as [J1 J2]. split; [right; exact J1 | exact J2].
  - unfold dom. simpl. intros k Hk. rewrite nt_get_set. destruct (key_eqb (el1, el2) k); [discriminate | exact Hk].
  - unfold dom. simpl. rewrite nt_get_set, key_eqb_refl. discriminate.
Qed.

Lemma ntp_inner_inv : forall base el1 nts2 st st',
  ntp_inv base st -> mfold (ntp_step el1) nts2 st = Ok st' ->
  ntp_inv base st' /\ (forall k, dom st k -> dom st' k) /\ (forall b, In b nts2 -> dom st' (el1, b)).
Proof.
  induction nts2 as [|b0 nts2 IH]; simpl; intros st st' I H.
  - injection H as <-. split; [exact I|]. split; [auto|]. intros b [].
  - destruct (ntp_step el1 st b0) as [st1|] eqn:E; [|discriminate].
    destruct (ntp_step_inv _ _ _ _ _ I E) as [I' [M D]].
    destruct (IH _ _ I' H) as [I'' [M' D']].
    split; [exact I''|]. split; [auto|]. intros b [<-|Hb]; [apply M'; exact D | apply D'; exact Hb].
Qed.

Lemma ntp_inner_ok : forall el1 nts2 st, exists st', mfold (ntp_step el1) nts2 st = Ok st'.
Proof.
  induction nts2 as [|b0 nts2 IH]; simpl; intros st; [eauto|].
  destruct (ntp_step_ok el1 st b0) as [st1 E]. rewrite E. apply IH.
Qed.

Lemma ntp_outer_inv : forall base nts2 nts1 st st',
  ntp_inv base st -> mfold (ntp_outer nts2) nts1 st = Ok st' ->
  ntp_inv base st' /\ (forall k, dom st k -> dom st' k) /\
  (forall a b, In a nts1 -> In b nts2 -> dom st' (a, b)).
Proof.
  induction nts1 as [|a0 nts1 IH]; simpl; intros st st' I H.
  - injection H as <-. split; [exact I|]. split; [auto|]. intros a b [].
  - destruct (ntp_outer nts2 st a0) as [st1|] eqn:E; [|discriminate]. unfold ntp_outer in E.
    destruct (ntp_inner_inv _ _ _ _ _ I E) as [I' [M D]].
    destruct (IH _ _ I' H) as [I'' [M' D']].
    split; [exact I''|]. split; [auto|].
    intros a b [<-|Ha] Hb; [apply M'; apply D; exact Hb | apply D'; assumption].
Qed.

Lemma ntp_outer_ok : forall nts2 nts1 st, exists st', mfold (ntp_outer nts2) nts1 st = Ok st'.
Proof.
  induction nts1 as [|a0 nts1 IH]; simpl; intros st; [eauto|].
  unfold ntp_outer at 1. destruct (ntp_inner_ok a0 nts2 st) as [st1 E]. rewrite E. apply IH.
Qed.

(** [nonterminal_pairs] never fails *)
Theorem nonterminal_pairs_total : forall h1 h2, exists m, nonterminal_pairs_model h1 h2 = Ok m.
Proof.
  intros. unfold nonterminal_pairs_model, nonterminal_pairs_state.
  destruct (ntp_outer_ok (nonterminals h2) (nonterminals h1) ([], h_elabels h1 ++ h_elabels h2)) as [st E].
  rewrite E. simpl. eauto.
Qed.

(** the properties of nt_map claimed by C17 *)
Definition ntmap_spec (h1 h2 : hrg) (m : ntmap) : Prop :=
  (* total on pairs of nonterminals *)
  (forall a b, In a (nonterminals h1) -> In b (nonterminals h2) -> exists v, nt_get m (a, b) = Some v) /\
  (* values are nonterminal labels typed like the first component, with names that collide
     with no label of either grammar *)
  (forall k v, nt_get m k = Some v ->
     el_term v = false /\ el_type v = el_type (fst k) /\
     ~ In (el_name v) (map el_name (h_elabels h1 ++ h_elabels h2))) /\
  (* pairwise distinct names; in particular nt_map is injective *)
  (forall k1 k2 v1 v2, nt_get m k1 = Some v1 -> nt_get m k2 = Some v2 ->
     el_name v1 = el_name v2 -> k1 = k2).

Theorem nonterminal_pairs_spec : forall h1 h2 m,
  nonterminal_pairs_model h1 h2 = Ok m -> ntmap_spec h1 h2 m.
Proof.
  intros h1 h2 m H. unfold nonterminal_pairs_model in H. apply bind_ok in H.
  destruct H as [st [H E]]. injection E as <-. unfold nonterminal_pairs_state in H.
  assert (I0 : ntp_inv (h_elabels h1 ++ h_elabels h2) ([], h_elabels h1 ++ h_elabels h2)).
  { unfold ntp_inv. simpl. split; [apply incl_refl|]. split; [constructor|]. split; [constructor|].
    intros k v []. }
  destruct (ntp_outer_inv _ _ _ _ _ I0 H) as [[I1 [I2 [I3 I4]]] [_ D]].
  unfold ntmap_spec. split; [|split].
  - intros a b Ha Hb. specialize (D a b Ha Hb). unfold dom in D.
    destruct (nt_get (fst st) (a, b)); [eauto | contradiction].
  - intros k v G. apply nt_get_in in G. destruct (I4 k v G) as [_ J]. exact J.
  - intros k1 k2 v1 v2 G1 G2 E. apply nt_get_in in G1. apply nt_get_in in G2.
    assert (X : (k1, v1) = (k2, v2)) by (apply (NoDup_map_inj_in vname (fst st)); auto).
    injection X as X _. exact X.
Qed.

Corollary nt_map_injective : forall h1 h2 m k1 k2 v,
  nonterminal_pairs_model h1 h2 = Ok m -> nt_get m k1 = Some v -> nt_get m k2 = Some v -> k1 = k2.
Proof.
  intros h1 h2 m k1 k2 v H G1 G2. destruct (nonterminal_pairs_spec _ _ _ H) as [_ [_ Inj]].
  apply (Inj k1 k2 v v G1 G2 eq_refl).
Qed.

(** the oracle [ntmap_ok] is sound (on well-formed label tables) *)
Lemma all_pairs_in : forall h1 h2 a b,
  In (a, b) (all_pairs h1 h2) <-> In a (nonterminals h1) /\ In b (nonterminals h2).
Proof.
  intros. unfold all_pairs. rewrite in_flat_map. split.
  - intros [a' [Ha Hin]]. apply in_map_iff in Hin. destruct Hin as [b' [E Hb]].
    injection E as -> ->. auto.
  - intros [Ha Hb]. exists a. split; [exact Ha|]. apply in_map. exact Hb.
Qed.

Theorem ntmap_ok_sound : forall h1 h2 m, ntmap_ok h1 h2 m = true -> ntmap_spec h1 h2 m.
Proof.
  intros h1 h2 m H. unfold ntmap_ok in H. repeat rewrite andb_true_iff in H.
  destruct H as [[[[K1 K2] _] ND] V]. rewrite forallb_forall in K1, K2, V.
  apply nodup_str_NoDup in ND.
  assert (ND' : NoDup (map vname m)).
  { replace (map vname m) with (map (fun kv : elabel * elabel * elabel => el_name (snd kv)) m); [exact ND|].
    apply map_ext. reflexivity. }
  unfold ntmap_spec. split; [|split].
  - intros a b Ha Hb. assert (Hin : In (a, b) (all_pairs h1 h2)) by (apply all_pairs_in; auto).
    specialize (K1 _ Hin). apply (existsb_eqb_In key_eqb key_eqb_eq) in K1.
    apply in_map_iff in K1. destruct K1 as [[k v] [E Hkv]]. simpl in E. subst k.
    clear - Hkv. induction m as [|[k0 v0] m IH]; simpl in *; [contradiction|].
    destruct (key_eqb k0 (a, b)) eqn:Ek; [eauto|]. destruct Hkv as [E|Hkv]; [|auto].
    injection E as E1 _. subst k0. rewrite key_eqb_refl in Ek. discriminate.
  - intros k v G. apply nt_get_in in G. specialize (V _ G). simpl in V.
    repeat rewrite andb_true_iff in V. destruct V as [[V1 V2] V3].
    unfold is_nt in V1. apply negb_true_iff in V1. apply nats_eqb_eq in V2.
    apply negb_true_iff in V3. apply smem_false in V3. auto.
  - intros k1 k2 v1 v2 G1 G2 E. apply nt_get_in in G1. apply nt_get_in in G2.
    assert (X : (k1, v1) = (k2, v2)) by (apply (NoDup_map_inj_in vname m); auto).
    injection X as X _. exact X.
Qed.

(** * a genuine terminal/terminal conflict raises ValueError *)
Lemma ncol_nil : forall h1 h2, fst (check_namespace_collisions_model h1 h2) = [].
Proof.
  intros. unfold check_namespace_collisions_model. simpl.
  induction (h_nlabels h1) as [|x l IH]; simpl; [reflexivity|]. rewrite IH, app_nil_r.
  destruct (find (Nat.eqb x) (h_nlabels h2)) eqn:F; [|reflexivity].
  apply find_some in F. destruct F as [_ F]. rewrite F. reflexivity.
Qed.

Lemma find_label_unique : forall t b,
  NoDup (map el_name t) -> In b t -> find_label (el_name b) t = Some b.
Proof.
  unfold find_label. induction t as [|x t IH]; simpl; intros b ND Hb; [contradiction|].
  inversion ND as [|? ? N1 N2]; subst. destruct Hb as [->|Hb].
  - rewrite str_eqb_refl. reflexivity.
  - destruct (str_eqb (el_name x) (el_name b)) eqn:E.
    + apply str_eqb_eq in E. exfalso. apply N1. rewrite E. apply in_map. exact Hb.
    + apply IH; assumption.
Qed.

Theorem tt_conflict_raises : forall h1 h2,
  NoDup (map el_name (h_elabels h2)) -> has_tt_conflict h1 h2 = true ->
  conjoin_hrgs_model h1 h2 = Err ValueErr.
Proof.
  intros h1 h2 ND H. unfold conjoin_hrgs_model, conjoin_hrgs_tagged.
  pose proof (ncol_nil h1 h2) as N.
  destruct (check_namespace_collisions_model h1 h2) as [n_col e_col] eqn:C. simpl in N. subst n_col.
  assert (T : existsb tt_conflict e_col = true).
  { unfold has_tt_conflict in H. apply existsb_exists in H. destruct H as [a [Ha H]].
    apply existsb_exists in H. destruct H as [b [Hb H]]. repeat rewrite andb_true_iff in H.
    destruct H as [[[E1 E2] E3] E4]. apply str_eqb_eq in E1. apply negb_true_iff in E2.
    apply existsb_exists. exists (a, b). split; [|unfold tt_conflict; simpl; rewrite E3, E4; reflexivity].
    unfold check_namespace_collisions_model in C. injection C as _ <-.
    apply in_flat_map. exists a. split; [exact Ha|].
    rewrite E1, (find_label_unique _ _ ND Hb), E2. left. reflexivity. }
  rewrite T. reflexivity.
Qed.
