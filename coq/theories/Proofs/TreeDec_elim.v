(** The elimination game gives a valid tree decomposition (unbounded):
    for every simple undirected graph and every permutation of its vertices the model of
    [tree_decomposition_from_order] returns a valid tree decomposition whose width is the
    elimination width of the order; [min_fill] returns a permutation together with exactly
    that width.  Proof plan: DESIGN.md Appendix C (C10) -- induction over the order with the
    strengthened invariant "valid for the remaining graph and every clique of the
    remaining graph lies in some bag". *)
From Coq Require Import List Arith Bool PeanoNat Lia Permutation Setoid Morphisms.
Import ListNotations.
Require Import Fggs.Model.TreeDec Fggs.Proofs.TreeDec_graph Fggs.Proofs.TreeDec_tdok.

(** * auxiliary facts *)
Lemma set_eqb_refl a : set_eqb a a = true.
Proof. unfold set_eqb. assert (subset a a = true) by (apply subset_incl, incl_refl). now rewrite H. Qed.
Lemma set_eqb_In a b x : set_eqb a b = true -> (In x a <-> In x b).
Proof.
  unfold set_eqb. rewrite andb_true_iff, !subset_incl. intros [H1 H2]. split; auto.
Qed.

Lemma bag_index_some (bs : list bag) (b : bag) i : bag_index bs b = Some i ->
  exists c, nth_error bs i = Some c /\ set_eqb c b = true.
Proof.
  revert i. induction bs as [|c bs IH]; cbn; intros i H; [discriminate|].
  destruct (set_eqb c b) eqn:E.
  - inversion H; subst. exists c. auto.
  - destruct (bag_index bs b) as [j|]; [|discriminate]. inversion H; subst. cbn. auto.
Qed.
Lemma bag_index_In (bs : list bag) (b : bag) : In b bs -> exists i, bag_index bs b = Some i.
Proof.
  induction bs as [|c bs IH]; cbn; intro H; [destruct H|].
  destruct (set_eqb c b) eqn:E; eauto.
  destruct H as [->|H]; [rewrite set_eqb_refl in E; discriminate|].
  destruct (IH H) as [i Hi]. rewrite Hi. cbn. eauto.
Qed.
Lemma bag_index_app_some (bs l : list bag) (b : bag) i : bag_index bs b = Some i -> bag_index (bs ++ l) b = Some i.
Proof.
  revert i. induction bs as [|c bs IH]; cbn; intros i H; [discriminate|].
  destruct (set_eqb c b); auto.
  destruct (bag_index bs b) as [j|]; [|discriminate]. now rewrite (IH j eq_refl).
Qed.
Lemma bag_index_app_new (bs : list bag) (b : bag) : (forall c, In c bs -> set_eqb c b = false) ->
  bag_index (bs ++ [b]) b = Some (length bs).
Proof.
  induction bs as [|c bs IH]; cbn; intro H.
  - now rewrite set_eqb_refl.
  - rewrite (H c) by auto. rewrite IH by auto. reflexivity.
Qed.
Lemma bag_index_none (bs : list bag) (b : bag) : (forall c, In c bs -> set_eqb c b = false) -> bag_index bs b = None.
Proof.
  induction bs as [|c bs IH]; cbn; intro H; auto.
  rewrite (H c) by auto. rewrite IH by auto. reflexivity.
Qed.

Lemma find_super_some c bs : (exists b, In b bs /\ incl c b) ->
  exists tv, find_super c bs = Some tv /\ In tv bs /\ incl c tv.
Proof.
  induction bs as [|b bs IH]; cbn; intros [b0 [Hb Hi]]; [destruct Hb|].
  destruct (subset c b) eqn:E.
  - exists b. split; auto. split; auto. now apply subset_incl.
  - destruct Hb as [->|Hb].
    + apply subset_incl in Hi. congruence.
    + destruct IH as [tv [H1 [H2 H3]]]; eauto.
Qed.

Lemma max_bag_app bs b es es' : max_bag (bs ++ [b], es) = Nat.max (max_bag (bs, es')) (length b).
Proof.
  unfold max_bag. cbn [fst]. induction bs as [|c bs IH]; cbn.
  - lia.
  - rewrite IH. lia.
Qed.

Lemma has_edge_false es i j : (forall a b, In (a, b) es -> a <> j /\ b <> j) -> has_edge es i j = false.
Proof.
  intro H. unfold has_edge. apply not_true_is_false. intro E. apply existsb_exists in E.
  destruct E as [[a b] [Hab E]]. cbn in E. destruct (H a b Hab) as [H1 H2].
  apply orb_true_iff in E. destruct E as [E|E]; apply andb_true_iff in E; destruct E as [E1 E2];
    apply Nat.eqb_eq in E1, E2; congruence.
Qed.

Lemma t_add_node_new (bags : list bag) es (tnew : bag) : (forall c, In c bags -> set_eqb c tnew = false) ->
  t_add_node (bags, es) tnew = (bags ++ [tnew], es).
Proof. intro H. unfold t_add_node. cbn [fst snd]. now rewrite (bag_index_none bags tnew H). Qed.
Lemma t_add_edge_new (bags : list bag) es (tv tnew : bag) i :
  bag_index bags tv = Some i -> (forall c, In c bags -> set_eqb c tnew = false) ->
  has_edge es i (length bags) = false ->
  t_add_edge (bags ++ [tnew], es) tv tnew = Some (bags ++ [tnew], es ++ [(i, length bags)]).
Proof.
  intros Hi Hn He. unfold t_add_edge. cbn [fst snd].
  rewrite (bag_index_app_some bags [tnew] tv i Hi).
  rewrite (bag_index_app_new bags tnew Hn). rewrite He. reflexivity.
Qed.

(** * elimination width is bounded by the number of vertices *)
Lemma perm_tail_eliminate g v rest : NoDup (gverts g) ->
  Permutation (v :: rest) (gverts g) -> Permutation rest (gverts (eliminate_node g v)).
Proof.
  intros Hk P. rewrite gverts_eliminate.
  assert (Hv : In v (gverts g)) by (eapply Permutation_in; [eassumption|cbn; auto]).
  pose proof (NoDup_perm_remove v (gverts g) Hk Hv) as P2.
  eapply Permutation_cons_inv. eapply perm_trans; eassumption.
Qed.

Lemma elim_width_bound order : forall g, wf_graph g -> Permutation order (gverts g) ->
  elim_width g order <= pred (length g).
Proof.
  induction order as [|v rest IH]; intros g W P; cbn [elim_width]; [lia|].
  assert (Hv : In v (gverts g)) by (eapply Permutation_in; [eassumption|cbn; auto]).
  pose proof (deg_lt_length g v W Hv) as D.
  pose proof (length_eliminate g v (wf_keys g W) Hv) as L.
  specialize (IH (eliminate_node g v) (wf_eliminate g v W) (perm_tail_eliminate g v rest (wf_keys g W) P)).
  lia.
Qed.

(** * the invariant *)
Definition clique_of (g : graph) (c : list nat) : Prop :=
  (forall x, In x c -> In x (gverts g)) /\
  (forall x y, In x c -> In y c -> x <> y -> In y (nbrs g x)).

Record inv (g : graph) (t : td) : Prop := {
  inv_valid : valid_td g t;
  inv_clique : forall c, clique_of g c -> exists b, In b (fst t) /\ incl c b }.

Lemma holds_app bags es es' tnew x a :
  holds (bags ++ [tnew], es') x a <-> holds (bags, es) x a \/ (a = length bags /\ In x tnew).
Proof.
  unfold holds. cbn [fst]. split.
  - intros [b [H1 H2]]. destruct (Nat.lt_ge_cases a (length bags)) as [L|L].
    + rewrite nth_error_app1 in H1 by auto. left. eauto.
    + rewrite nth_error_app2 in H1 by auto. destruct (a - length bags) as [|k] eqn:E.
      * cbn in H1. inversion H1; subst. right. split; [lia|auto].
      * cbn in H1. destruct k; discriminate.
  - intros [[b [H1 H2]]|[-> H]].
    + exists b. split; auto. rewrite nth_error_app1; auto. apply nth_error_Some. congruence.
    + exists tnew. split; auto. rewrite nth_error_app2 by auto. now rewrite Nat.sub_diag.
Qed.

(** one step of [td_build]: attaching the bag of the eliminated vertex as a new leaf *)
Lemma inv_step g v bags es i tv :
  wf_graph g -> In v (gverts g) ->
  inv (eliminate_node g v) (bags, es) ->
  nth_error bags i = Some tv -> incl (nbrs g v) tv ->
  inv g (bags ++ [set_add v (nbrs g v)], es ++ [(i, length bags)]).
Proof.
  intros W Hv [V C] Hi Hc.
  set (g' := eliminate_node g v) in *. set (c := nbrs g v) in *. set (tnew := set_add v c).
  set (n := length bags).
  assert (Hin : i < n) by (apply nth_error_Some; congruence).
  assert (Hold : forall b x, In b bags -> In x b -> In x (gverts g) /\ x <> v).
  { intros b x Hb Hx. pose proof (vt_sub g' _ V b x Hb Hx) as H. unfold g' in H.
    rewrite gverts_eliminate in H. now apply set_remove_In in H. }
  assert (Hcv : forall x, In x c -> In x (gverts g) /\ x <> v).
  { intros x Hx. split; [eapply (wf_closed g W); eauto|]. intro E. subst. now apply (wf_irrefl g W v). }
  assert (Htn : forall x, In x tnew <-> x = v \/ In x c) by (intro x; apply set_add_In).
  constructor; [constructor|]; cbn [fst snd].
  - (* tree *)
    rewrite app_length. cbn [length]. rewrite Nat.add_1_r. fold n.
    eapply tree_leaf with (ns := seq 0 n) (es := es) (v := n) (u := i) (e := (i, n)).
    + exact (vt_tree g' _ V).
    + apply in_seq. lia.
    + rewrite in_seq. lia.
    + auto.
    + rewrite seq_S. cbn. apply Permutation_sym, Permutation_cons_append.
    + apply Permutation_sym, Permutation_cons_append.
  - (* bags are duplicate-free *)
    intros b Hb. apply in_app_or in Hb. destruct Hb as [Hb|[<-|[]]].
    + exact (vt_nodup g' _ V b Hb).
    + apply set_add_NoDup, W.
  - (* bags within the vertex set *)
    intros b x Hb Hx. apply in_app_or in Hb. destruct Hb as [Hb|[<-|[]]].
    + apply (Hold b x Hb Hx).
    + apply Htn in Hx. destruct Hx as [->|Hx]; auto. now apply Hcv.
  - (* vertex cover *)
    intros x Hx. destruct (Nat.eq_dec x v) as [->|Hne].
    + exists tnew. split; [apply in_or_app; right; cbn; auto|]. apply Htn. auto.
    + destruct (vt_vertex g' _ V x) as [b [Hb Hxb]].
      { unfold g'. rewrite gverts_eliminate. apply set_remove_In. auto. }
      exists b. split; auto. apply in_or_app. auto.
  - (* edge cover *)
    intros x y Hxy.
    destruct (Nat.eq_dec x v) as [->|Hx].
    { exists tnew. split; [apply in_or_app; right; cbn; auto|]. rewrite !Htn. auto. }
    destruct (Nat.eq_dec y v) as [->|Hy].
    { exists tnew. split; [apply in_or_app; right; cbn; auto|]. rewrite !Htn. split; auto.
      right. now apply (wf_sym g W). }
    destruct (vt_edge g' _ V x y) as [b [Hb H]].
    { unfold g'. apply In_nbrs_eliminate; auto. }
    exists b. split; auto. apply in_or_app. auto.
  - (* running intersection *)
    intros x a b Ha Hb.
    set (R := fun p q => eadj es p q /\ holds (bags, es) x p /\ holds (bags, es) x q).
    set (R' := fun p q => eadj (es ++ [(i, n)]) p q /\
                          holds (bags ++ [tnew], es ++ [(i, n)]) x p /\ holds (bags ++ [tnew], es ++ [(i, n)]) x q).
    assert (M : forall p q, R p q -> R' p q).
    { intros p q [[H|H] [H1 H2]]; (split; [|split; apply (holds_app bags es); auto]).
      - left. apply in_or_app. auto.
      - right. apply in_or_app. auto. }
    assert (Old : forall p q, holds (bags, es) x p -> holds (bags, es) x q -> walk R' p q).
    { intros p q Hp Hq. eapply walk_mono; [apply M|]. exact (vt_run g' _ V x p q Hp Hq). }
    assert (NoV : forall p, holds (bags, es) x p -> x <> v).
    { intros p [b0 [H1 H2]]. apply nth_error_In in H1. cbn in H1. apply (Hold b0 x H1 H2). }
    assert (Hi' : In x c -> holds (bags, es) x i).
    { intro Hx. exists tv. split; auto. }
    assert (Step : In x c -> R' n i).
    { intro Hx. split; [right; apply in_or_app; right; cbn; auto|].
      split; apply (holds_app bags es); [right|left]; auto. split; auto. apply Htn. auto. }
    assert (Step' : In x c -> R' i n).
    { intro Hx. destruct (Step Hx) as [H1 [H2 H3]]. split; [apply eadj_sym; auto|auto]. }
    apply (holds_app bags es) in Ha. apply (holds_app bags es) in Hb. fold n in Ha, Hb.
    destruct Ha as [Ha|[-> Ha]]; destruct Hb as [Hb|[-> Hb]].
    + now apply Old.
    + apply Htn in Hb. destruct Hb as [->|Hb]; [exfalso; eapply NoV; eauto|].
      eapply walk_trans; [apply Old; [exact Ha|exact (Hi' Hb)]|]. apply walk_one. auto.
    + apply Htn in Ha. destruct Ha as [->|Ha]; [exfalso; eapply NoV; eauto|].
      eapply walk_cons; [apply Step; auto|]. apply Old; auto.
    + constructor.
  - (* every clique lies in a bag *)
    intros c' [K1 K2].
    destruct (in_dec Nat.eq_dec v c') as [Hvc|Hvc].
    + exists tnew. split; [apply in_or_app; right; cbn; auto|].
      intros x Hx. apply Htn. destruct (Nat.eq_dec x v) as [->|Hne]; [auto|].
      right. apply (K2 v x); auto.
    + destruct (C c') as [b [Hb Hcb]].
      { split.
        - intros x Hx. unfold g'. rewrite gverts_eliminate. apply set_remove_In. split; auto.
          intro E. subst. auto.
        - intros x y Hx Hy Hne. unfold g'. apply In_nbrs_eliminate; auto.
          split; [intro E; subst; auto|]. split; [intro E; subst; auto|]. left. auto. }
      exists b. split; auto. apply in_or_app. auto.
Qed.

(** the early exit: the neighbourhood of [v] is everything that is left *)
Lemma inv_last g v :
  wf_graph g -> In v (gverts g) -> length (eliminate_node g v) <= length (nbrs g v) ->
  inv g ([set_add v (nbrs g v)], []).
Proof.
  intros W Hv L. set (c := nbrs g v) in *. set (tnew := set_add v c).
  assert (Htn : forall x, In x tnew <-> x = v \/ In x c) by (intro x; apply set_add_In).
  assert (Hcv : forall x, In x c -> In x (gverts g) /\ x <> v).
  { intros x Hx. split; [eapply (wf_closed g W); eauto|]. intro E. subst. now apply (wf_irrefl g W v). }
  assert (All : forall x, In x (gverts g) -> In x tnew).
  { intros x Hx. apply Htn. destruct (Nat.eq_dec x v) as [->|Hne]; auto. right.
    assert (I : incl c (set_remove v (gverts g))).
    { intros y Hy. apply set_remove_In. now apply Hcv. }
    assert (I2 : incl (set_remove v (gverts g)) c).
    { apply NoDup_length_incl; auto; [apply W|].
      rewrite <- gverts_eliminate. unfold gverts. rewrite map_length. exact L. }
    apply I2. apply set_remove_In. auto. }
  constructor; [constructor|]; cbn [fst snd length].
  - apply tree_single.
  - intros b [<-|[]]. apply set_add_NoDup, W.
  - intros b x [<-|[]] Hx. apply Htn in Hx. destruct Hx as [->|Hx]; auto. now apply Hcv.
  - intros x Hx. exists tnew. split; cbn; auto.
  - intros x y Hxy. exists tnew. split; [cbn; auto|]. split; apply All.
    + eapply nbrs_In_key; eauto.
    + eapply (wf_closed g W); eauto.
  - intros x a b [ba [Ha _]] [bb [Hb _]]. cbn in Ha, Hb.
    destruct a as [|a]; [|destruct a; discriminate]. destruct b as [|b]; [|destruct b; discriminate].
    constructor.
  - intros c' [K1 K2]. exists tnew. split; [cbn; auto|]. intros x Hx. apply All, K1, Hx.
Qed.

Lemma td_build_inv order : forall g, wf_graph g -> order <> [] -> Permutation order (gverts g) ->
  exists t, td_build g order = Some t /\ inv g t /\ max_bag t = S (elim_width g order).
Proof.
  induction order as [|v rest IH]; intros g W Hne P; [congruence|].
  assert (Hv : In v (gverts g)) by (eapply Permutation_in; [eassumption|cbn; auto]).
  pose proof (wf_eliminate g v W) as W'.
  pose proof (perm_tail_eliminate g v rest (wf_keys g W) P) as P'.
  cbn [td_build elim_width]. rewrite (proj2 (has_key_In g v) Hv). cbn [negb].
  set (g' := eliminate_node g v) in *. set (c := nbrs g v). fold (deg g v).
  assert (Hvc : ~ In v c) by apply (wf_irrefl g W v).
  assert (Ltn : length (set_add v c) = S (length c)) by now apply set_add_length.
  destruct (length c <? length g') eqn:E.
  - apply Nat.ltb_lt in E.
    assert (Hr : rest <> []).
    { intro R. subst rest. apply Permutation_length in P'. cbn in P'. unfold gverts in P'.
      rewrite map_length in P'. lia. }
    destruct (IH g' W' Hr P') as [t [Hb [I M]]]. rewrite Hb. destruct t as [bags es].
    assert (K : clique_of g' c).
    { split.
      - intros x Hx. unfold g'. rewrite gverts_eliminate. apply set_remove_In. split.
        + eapply (wf_closed g W); eauto.
        + intro Ex. subst. auto.
      - intros x y Hx Hy Hxy. unfold g'. apply In_nbrs_eliminate; auto.
        split; [intro Ex; subst; auto|]. split; [intro Ex; subst; auto|]. right. auto. }
    destruct (find_super_some c bags (inv_clique g' _ I c K)) as [tv [F [Htv Hctv]]].
    cbn [fst]. rewrite F.
    assert (Hnov : forall b, In b bags -> set_eqb b (set_add v c) = false).
    { intros b Hb0. apply not_true_is_false. intro Eq.
      pose proof (proj2 (set_eqb_In _ _ v Eq)) as H.
      assert (Hvb : In v b) by (apply H, set_add_In; auto).
      pose proof (vt_sub g' _ (inv_valid g' _ I) b v Hb0 Hvb) as H2. unfold g' in H2.
      rewrite gverts_eliminate in H2. apply set_remove_In in H2. tauto. }
    destruct (bag_index_In bags tv Htv) as [i Hi].
    destruct (bag_index_some bags tv i Hi) as [tv' [Hn Heq]].
    rewrite (t_add_node_new bags es _ Hnov).
    rewrite (t_add_edge_new bags es tv _ i Hi Hnov).
    + eexists. split; [reflexivity|]. split.
      * eapply inv_step; eauto. intros x Hx. apply (set_eqb_In _ _ x Heq). auto.
      * rewrite (max_bag_app bags _ _ es), M, Ltn. unfold deg. fold c. lia.
    + apply has_edge_false. intros a b Hab.
      destruct (tree_on_edges_in _ _ a b (vt_tree g' _ (inv_valid g' _ I)) Hab) as [Ha Hb1].
      cbn [fst] in Ha, Hb1. apply in_seq in Ha, Hb1. lia.
  - apply Nat.ltb_ge in E. eexists. split; [reflexivity|]. split.
    + apply inv_last; auto.
    + unfold max_bag. cbn [fst map fold_right]. rewrite Ltn.
      pose proof (elim_width_bound rest g' W' P') as B. unfold deg. fold c. lia.
Qed.

(** * the theorem *)
Theorem elimination_td_valid :
  forall g order, wf_graph g -> Permutation order (gverts g) ->
    exists t, tdfo g order = Some t /\ valid_td g t /\ width t = elim_width g order.
Proof.
  intros g order W P. destruct order as [|v rest].
  - apply Permutation_nil in P. destruct g as [|p g]; [|discriminate].
    exists ([[]], []). split; [reflexivity|]. split; [|reflexivity].
    constructor; cbn [fst snd length].
    + apply tree_single.
    + intros b [<-|[]]. constructor.
    + intros b x [<-|[]] [].
    + intros x [].
    + intros x y [].
    + intros x i j [b [Hb Hx]]. destruct i as [|i]; [|destruct i; discriminate].
      cbn in Hb. inversion Hb; subst. destruct Hx.
  - destruct (td_build_inv (v :: rest) g W) as [t [Hb [I M]]]; [congruence|auto|].
    exists t. split; [exact Hb|]. split; [apply I|]. unfold width. rewrite M. reflexivity.
Qed.

(** * min_fill *)
Lemma argmin_from_In key l b kb : argmin_from key l b kb = b \/ In (argmin_from key l b kb) l.
Proof.
  revert b kb. induction l as [|x l IH]; intros b kb; cbn [argmin_from In]; auto.
  destruct (key x <? kb).
  - destruct (IH x (key x)) as [H|H]; [rewrite H|]; auto.
  - destruct (IH b kb); auto.
Qed.
Lemma argmin_In key l u : argmin key l = Some u -> In u l.
Proof.
  destruct l as [|x l]; cbn; intro H; [discriminate|]. inversion H.
  destruct (argmin_from_In key l x (key x)) as [E|E]; [rewrite E|]; auto.
Qed.
Lemma argmin_None key l : argmin key l = None -> l = [].
Proof. destruct l; cbn; [auto|discriminate]. Qed.

Lemma min_fill_loop_spec fuel : forall g dmax acc, NoDup (gverts g) -> length g <= fuel ->
  exists order, min_fill_loop fuel g dmax acc = Some (Nat.max dmax (elim_width g order), acc ++ order)
                /\ Permutation order (gverts g).
Proof.
  induction fuel as [|fuel IH]; intros g dmax acc Hk L.
  - destruct g; [|cbn in L; lia]. exists []. cbn. rewrite Nat.max_0_r, app_nil_r. auto.
  - cbn [min_fill_loop]. destruct (argmin (count_fillin g) (gverts g)) as [u|] eqn:A.
    + apply argmin_In in A.
      assert (Hk' : NoDup (gverts (eliminate_node g u))) by (rewrite gverts_eliminate; now apply set_remove_NoDup).
      pose proof (length_eliminate g u Hk A) as L'.
      destruct (IH (eliminate_node g u) (Nat.max dmax (deg g u)) (acc ++ [u]) Hk') as [o [E P]]; [lia|].
      exists (u :: o). split.
      * rewrite E. cbn [elim_width]. rewrite <- app_assoc. cbn [app]. f_equal. f_equal. lia.
      * rewrite gverts_eliminate in P.
        eapply perm_trans; [apply perm_skip, P|]. apply Permutation_sym. now apply NoDup_perm_remove.
    + apply argmin_None in A. exists []. cbn. rewrite Nat.max_0_r, app_nil_r. split; auto.
      rewrite A. auto.
Qed.

Theorem min_fill_reports_width g : NoDup (gverts g) ->
  exists d order, min_fill g = Some (d, order) /\ Permutation order (gverts g) /\ d = elim_width g order.
Proof.
  intro Hk. destruct (min_fill_loop_spec (length g) g 0 [] Hk (le_n _)) as [o [E P]].
  exists (elim_width g o), o. unfold min_fill. rewrite E. cbn. auto.
Qed.

Theorem tree_decomposition_min_fill_valid g : wf_graph g ->
  exists d order t, min_fill g = Some (d, order) /\ Permutation order (gverts g) /\ d = elim_width g order /\
                    tree_decomposition 0 g = Some t /\ valid_td g t /\ width t = d.
Proof.
  intro W. destruct (min_fill_reports_width g (wf_keys g W)) as [d [o [E [P D]]]].
  destruct (elimination_td_valid g o W P) as [t [T [V Wd]]].
  exists d, o, t. cbn [tree_decomposition]. rewrite E.
  split; [reflexivity|]. split; [exact P|]. split; [exact D|]. split; [exact T|]. split; [exact V|]. congruence.
Qed.

(** hypotheses are satisfiable: the 4-cycle with a chord, eliminated in the order 2,0,3,1 *)
Example elimination_example :
  let g := [(0,[1;3]);(1,[0;2;3]);(2,[1;3]);(3,[0;1;2])] in
  wf_graphb g = true /\ is_perm [2;0;3;1] (gverts g) = true /\
  tdfo g [2;0;3;1] = Some ([[0;1;3];[1;2;3]], [(0,1)]).
Proof. vm_compute. auto. Qed.
