(** C02, parts 2 (rounded iteration) and 3 (certified enclosures of the least fixed point).
    [Ktab] (Kleene iteration on tables, every cell rounded down by [rd]) stays below the exact
    iterates [Zk]; a successful [enclosure] returns [lo, u] with  lo <= Zk (4 j)  and
    Zk k <= u for all k,  hence lo <= (least fixed point) <= u;  with rd = infl = id (Bool,
    Viterbi) lo = u is exactly the least fixed point. *)
From Coq Require Import QArith Qcanon Qround Lqa List Arith Bool PeanoNat Lia Ring_theory.
Import ListNotations.
Require Import Fggs.Model.SCC Fggs.Model.SumProduct Fggs.Model.SumProductCheck
               Fggs.Model.EReal Fggs.Model.Trop Fggs.Model.Kleene Fggs.Proofs.SP_mono Fggs.Model.Semiring.
Local Open Scope nat_scope.

(** * tables *)
Section Tables.
Context {R : Type} (o : sr_ops R).

Lemma tab_get_map_in (l : list (list nat)) (f : list nat -> R) xi :
  In xi l -> tab_get o (map (fun k => (k, f k)) l) xi = f xi.
Proof.
  induction l as [|k l IH]; intros Hin; [destruct Hin|].
  cbn [map tab_get]. destruct (nat_list_eqb k xi) eqn:E.
  - apply nat_list_eqb_eq in E. subst k. reflexivity.
  - destruct Hin as [->|Hin]; [rewrite nat_list_eqb_refl in E; discriminate | apply IH; exact Hin].
Qed.

Lemma tab_get_map_notin (l : list (list nat)) (f : list nat -> R) xi :
  ~ In xi l -> tab_get o (map (fun k => (k, f k)) l) xi = zero o.
Proof.
  induction l as [|k l IH]; intros Hin; [reflexivity|].
  cbn [map tab_get]. destruct (nat_list_eqb k xi) eqn:E.
  - apply nat_list_eqb_eq in E. subst k. exfalso. apply Hin. left. reflexivity.
  - apply IH. intros H. apply Hin. right. exact H.
Qed.

Lemma In_list_nat_dec (xi : list nat) l : {In xi l} + {~ In xi l}.
Proof. apply in_dec. apply list_eq_dec. apply Nat.eq_dec. Qed.

(** reading a tabulated function: in range the function, out of range zero *)
Theorem tab_get_tabulate shape (f : list nat -> R) xi :
  In xi (all_assts shape) -> tab_get o (tabulate shape f) xi = f xi.
Proof. apply tab_get_map_in. Qed.

Theorem tab_get_tabulate_out shape (f : list nat -> R) xi :
  ~ In xi (all_assts shape) -> tab_get o (tabulate shape f) xi = zero o.
Proof. apply tab_get_map_notin. Qed.

(** [env_of] through the association list *)
Lemma env_of_tmt_get (t : tmt (R:=R)) X xi :
  env_of o t X xi = match tmt_get t X with Some tb => tab_get o tb xi | None => zero o end.
Proof.
  unfold env_of. induction t as [|[a tb] t IH]; [reflexivity|].
  cbn [tmt_get]. destruct (Nat.eqb a X); [reflexivity | exact IH].
Qed.

Lemma tmt_get_map_in (l : list nat) (g : nat -> list (list nat * R)) X :
  In X l -> tmt_get (map (fun Y => (Y, g Y)) l) X = Some (g X).
Proof.
  induction l as [|Y l IH]; intros Hin; [destruct Hin|].
  cbn [map tmt_get]. destruct (Nat.eqb Y X) eqn:E.
  - apply Nat.eqb_eq in E. subst Y. reflexivity.
  - destruct Hin as [->|Hin]; [rewrite Nat.eqb_refl in E; discriminate | apply IH; exact Hin].
Qed.

Lemma tmt_get_map_notin (l : list nat) (g : nat -> list (list nat * R)) X :
  ~ In X l -> tmt_get (map (fun Y => (Y, g Y)) l) X = None.
Proof.
  induction l as [|Y l IH]; intros Hin; [reflexivity|].
  cbn [map tmt_get]. destruct (Nat.eqb Y X) eqn:E.
  - apply Nat.eqb_eq in E. subst Y. exfalso. apply Hin. left. reflexivity.
  - apply IH. intros H. apply Hin. right. exact H.
Qed.

(** the tables built by [Kstep]/[Ktab]/[Ztab]: one tabulated function per listed label *)
Lemma env_of_tabmap_in (l : list nat) (sh : nat -> list nat) (f : nat -> list nat -> R) X xi :
  In X l -> In xi (all_assts (sh X)) ->
  env_of o (map (fun Y => (Y, tabulate (sh Y) (f Y))) l) X xi = f X xi.
Proof.
  intros HX Hxi. rewrite env_of_tmt_get.
  pose proof (tmt_get_map_in l (fun Y => tabulate (sh Y) (f Y)) X HX) as E; cbn beta in E; rewrite E; clear E.
  apply tab_get_tabulate. exact Hxi.
Qed.

Lemma env_of_tabmap_cases (l : list nat) (sh : nat -> list nat) (f : nat -> list nat -> R) X xi :
  env_of o (map (fun Y => (Y, tabulate (sh Y) (f Y))) l) X xi = f X xi
  \/ env_of o (map (fun Y => (Y, tabulate (sh Y) (f Y))) l) X xi = zero o.
Proof.
  rewrite env_of_tmt_get.
  destruct (in_dec Nat.eq_dec X l) as [HX|HX].
  - pose proof (tmt_get_map_in l (fun Y => tabulate (sh Y) (f Y)) X HX) as E; cbn beta in E; rewrite E; clear E.
    destruct (In_list_nat_dec xi (all_assts (sh X))) as [Hxi|Hxi].
    + left. apply tab_get_tabulate. exact Hxi.
    + right. apply tab_get_tabulate_out. exact Hxi.
  - pose proof (tmt_get_map_notin l (fun Y => tabulate (sh Y) (f Y)) X HX) as E; cbn beta in E; rewrite E; clear E. right. reflexivity.
Qed.

(** out-of-range behaviour of [env_of] on such tables: zero *)
Lemma env_of_tabmap_out (l : list nat) (sh : nat -> list nat) (f : nat -> list nat -> R) X xi :
  ~ (In X l /\ In xi (all_assts (sh X))) ->
  env_of o (map (fun Y => (Y, tabulate (sh Y) (f Y))) l) X xi = zero o.
Proof.
  intros H. rewrite env_of_tmt_get.
  destruct (in_dec Nat.eq_dec X l) as [HX|HX].
  - pose proof (tmt_get_map_in l (fun Y => tabulate (sh Y) (f Y)) X HX) as E; cbn beta in E; rewrite E; clear E.
    apply tab_get_tabulate_out. intros Hxi. apply H. split; assumption.
  - pose proof (tmt_get_map_notin l (fun Y => tabulate (sh Y) (f Y)) X HX) as E; cbn beta in E; rewrite E; clear E. reflexivity.
Qed.

Lemma inflate_id (t : tmt (R:=R)) : inflate (fun x => x) t = t.
Proof.
  unfold inflate. rewrite <- (map_id t) at 2. apply map_ext. intros [a tb]. cbn [fst snd]. f_equal.
  rewrite <- (map_id tb) at 2. apply map_ext. intros [k v]. reflexivity.
Qed.
End Tables.

(** * rounded Kleene iteration and enclosures *)
Section Enclosure.
Context {R : Type} (o : sr_ops R).
Hypothesis Hr : sr_ring o.
Hypothesis Ho : sr_ordered o.
Variables (rd infl : R -> R) (leb : R -> R -> bool).
Hypothesis rd_le : forall x, le o (rd x) x.
Hypothesis leb_sound : forall x y, leb x y = true -> le o x y.

Local Notation "x <== y" := (le o x y) (at level 70).

Lemma env_of_Kstep_in G w prev X xi :
  In X (nonterminals G) -> In xi (all_assts (lshape G X)) ->
  env_of o (Kstep o rd G w prev) X xi = rd (step o G w (env_of o prev) X xi).
Proof.
  intros HX Hxi. unfold Kstep.
  apply (env_of_tabmap_in o (nonterminals G) (lshape G)
           (fun Y xj => rd (step o G w (env_of o prev) Y xj)) X xi HX Hxi).
Qed.

Lemma env_of_Kstep_cases G w prev X xi :
  env_of o (Kstep o rd G w prev) X xi = rd (step o G w (env_of o prev) X xi)
  \/ env_of o (Kstep o rd G w prev) X xi = zero o.
Proof.
  unfold Kstep.
  apply (env_of_tabmap_cases o (nonterminals G) (lshape G)
           (fun Y xj => rd (step o G w (env_of o prev) Y xj)) X xi).
Qed.

Lemma env_of_Ktab0 G w X xi : env_of o (Ktab o rd G w 0) X xi = zero o.
Proof.
  cbn [Ktab].
  destruct (env_of_tabmap_cases o (nonterminals G) (lshape G) (fun _ _ => zero o) X xi) as [H|H]; exact H.
Qed.

(** part 2, with rounding: the rounded iterates are pointwise below the exact ones -- at
    EVERY label and index tuple, because out-of-range reads of a table give zero *)
Theorem Ktab_below_Zk G w k : env_le o (env_of o (Ktab o rd G w k)) (Zk o G w k).
Proof.
  induction k as [|k IH]; intros X xi.
  - rewrite env_of_Ktab0. apply (zero_le o Ho).
  - cbn [Ktab Zk]. destruct (env_of_Kstep_cases G w (Ktab o rd G w k) X xi) as [E|E]; rewrite E.
    + apply (le_trans o Ho) with (step o G w (env_of o (Ktab o rd G w k)) X xi); [apply rd_le|].
      apply (step_mono o Hr Ho). exact IH.
    + apply (zero_le o Ho).
Qed.

(** the form asked for: nonterminal of a well-formed grammar, in-range tuple *)
Corollary Ktab_below_Zk_on G w k : env_le_on o G (env_of o (Ktab o rd G w k)) (Zk o G w k).
Proof. apply env_le_le_on. apply Ktab_below_Zk. Qed.

(** hence also below every pre-fixed point (on the range) *)
Corollary Ktab_below_prefix G w (v : env (R:=R)) k :
  wf_grammar G = true -> env_le_on o G (step o G w v) v -> env_le_on o G (env_of o (Ktab o rd G w k)) v.
Proof.
  intros Hwf Hv X xi HX Hxi.
  apply (le_trans o Ho) with (Zk o G w k X xi); [apply Ktab_below_Zk|].
  apply (park_on o Hr Ho G w v Hwf Hv k X xi HX Hxi).
Qed.

(** [prefix_ok] is sound *)
Lemma prefix_ok_sound G w u :
  prefix_ok o leb G w u = true -> env_le_on o G (step o G w (env_of o u)) (env_of o u).
Proof.
  unfold prefix_ok. intros H X xi HX Hxi.
  rewrite forallb_forall in H. specialize (H X HX).
  rewrite forallb_forall in H. apply leb_sound. apply H. exact Hxi.
Qed.

Lemma Ktab_add4 G w k :
  Kstep o rd G w (Kstep o rd G w (Kstep o rd G w (Kstep o rd G w (Ktab o rd G w k)))) = Ktab o rd G w (4 + k).
Proof. reflexivity. Qed.

(** what a successful [enclosure_from] returns *)
Lemma enclosure_from_spec G w rounds k0 lo u :
  enclosure_from o rd infl leb G w rounds (Ktab o rd G w k0) = Some (lo, u) ->
  exists j, j <= rounds /\ lo = Ktab o rd G w (k0 + 4 * j) /\ u = inflate infl lo
            /\ prefix_ok o leb G w u = true.
Proof.
  revert k0. induction rounds as [|r IH]; intros k0; cbn [enclosure_from].
  - destruct (prefix_ok o leb G w (inflate infl (Ktab o rd G w k0))) eqn:E; [|discriminate].
    intros H. injection H as <- <-. exists 0. rewrite Nat.add_0_r. auto.
  - destruct (prefix_ok o leb G w (inflate infl (Ktab o rd G w k0))) eqn:E.
    + intros H. injection H as <- <-. exists 0. rewrite Nat.add_0_r. split; [lia|]. auto.
    + rewrite Ktab_add4. intros H. destruct (IH (4 + k0) H) as (j & Hj & Hlo & Hu & Hp).
      exists (S j). split; [lia|]. split; [|auto].
      rewrite Hlo. f_equal. lia.
Qed.

Lemma enclosure_spec G w K lo u :
  enclosure o rd infl leb G w K = Some (lo, u) ->
  exists j, j <= K /\ lo = Ktab o rd G w (4 * j) /\ u = inflate infl lo /\ prefix_ok o leb G w u = true.
Proof. unfold enclosure. intros H. apply (enclosure_from_spec G w K 0 lo u H). Qed.

(** part 3: soundness of the enclosure.  [u] is above every Kleene iterate (hence above their
    limit, the least fixed point) and [lo] is below the iterate number 4 j, j = the number of
    extra rounds used (hence below the limit, and below every pre-fixed point) *)
Theorem enclosure_sound G w K lo u :
  wf_grammar G = true ->
  enclosure o rd infl leb G w K = Some (lo, u) ->
  (forall k, env_le_on o G (Zk o G w k) (env_of o u))
  /\ (exists j, j <= K /\ lo = Ktab o rd G w (4 * j)
                /\ env_le_on o G (env_of o lo) (Zk o G w (4 * j)))
  /\ (forall v : env (R:=R), env_le_on o G (step o G w v) v -> env_le_on o G (env_of o lo) v)
  /\ env_le_on o G (env_of o lo) (env_of o u)
  /\ env_le_on o G (step o G w (env_of o u)) (env_of o u).
Proof.
  intros Hwf H. destruct (enclosure_spec G w K lo u H) as (j & Hj & Hlo & Hu & Hp).
  pose proof (prefix_ok_sound G w u Hp) as Hpre.
  pose proof (park_on o Hr Ho G w (env_of o u) Hwf Hpre) as Hup.
  assert (Hlow : env_le_on o G (env_of o lo) (Zk o G w (4 * j))).
  { rewrite Hlo. apply Ktab_below_Zk_on. }
  split; [exact Hup|]. split; [exists j; auto|]. split; [|split; [|exact Hpre]].
  - intros v Hv. rewrite Hlo. apply Ktab_below_prefix; assumption.
  - intros X xi HX Hxi. apply (le_trans o Ho) with (Zk o G w (4 * j) X xi); [apply Hlow | apply Hup]; assumption.
Qed.

End Enclosure.

(** * exact case: no rounding, no inflation (Bool, Viterbi) *)
Section Exact.
Context {R : Type} (o : sr_ops R).
Hypothesis Hr : sr_ring o.
Hypothesis Ho : sr_ordered o.
Variable (leb : R -> R -> bool).
Hypothesis leb_sound : forall x y, leb x y = true -> le o x y.

Let idR : R -> R := fun x => x.

Lemma id_le : forall x, le o (idR x) x.
Proof. intros x. apply (le_refl o Ho). Qed.

(** without rounding the tables are the exact iterates (on the range) *)
Theorem Ktab_exact G w k :
  wf_grammar G = true -> env_eq_on G (env_of o (Ktab o (fun x => x) G w k)) (Zk o G w k).
Proof.
  intros Hwf. induction k as [|k IH]; intros X xi HX Hxi.
  - rewrite env_of_Ktab0. reflexivity.
  - cbn [Ktab Zk]. rewrite (env_of_Kstep_in o (fun x => x) G w _ X xi HX Hxi).
    apply (step_ext_on o G w _ _ Hwf IH).
Qed.

(** the enclosure is a single point: the least fixed point, reached after 4 j steps *)
Theorem enclosure_exact G w K lo u :
  wf_grammar G = true ->
  enclosure o (fun x => x) (fun x => x) leb G w K = Some (lo, u) ->
  u = lo
  /\ env_eq_on G (step o G w (env_of o lo)) (env_of o lo)
  /\ (forall v : env (R:=R), env_le_on o G (step o G w v) v -> env_le_on o G (env_of o lo) v)
  /\ (forall k, env_le_on o G (Zk o G w k) (env_of o lo))
  /\ (exists j, j <= K /\ env_eq_on G (env_of o lo) (Zk o G w (4 * j))).
Proof.
  intros Hwf H.
  destruct (enclosure_spec o (fun x => x) (fun x => x) leb G w K lo u H) as (j & Hj & Hlo & Hu & Hp).
  rewrite inflate_id in Hu. subst u.
  destruct (enclosure_sound o Hr Ho (fun x => x) (fun x => x) leb id_le leb_sound G w K lo lo Hwf H)
    as (Hup & _ & Hleast & _ & Hpre).
  assert (Heq : env_eq_on G (env_of o lo) (Zk o G w (4 * j))).
  { rewrite Hlo. apply Ktab_exact. exact Hwf. }
  split; [reflexivity|]. split; [|split; [exact Hleast|split; [exact Hup|exists j; auto]]].
  intros X xi HX Hxi. apply (le_antisym o Ho); [apply Hpre; assumption|].
  rewrite (Heq X xi HX Hxi).
  apply (le_trans o Ho) with (Zk o G w (S (4 * j)) X xi); [apply (Zk_chain o Hr Ho)|].
  cbn [Zk]. apply (step_mono_on o Hr Ho G w _ _ Hwf). apply Hup.
Qed.
End Exact.

(** * instances: the side conditions of the three carriers *)

(** Bool *)
Lemma bool_leb_sound (x y : bool) : implb x y = true -> le bool_ops x y.
Proof. destruct x, y; cbn; auto; discriminate. Qed.

(** the Boolean semiring laws (a dozen case analyses; stated here so that the Boolean
    instance theorem has no premises) *)
Lemma bool_sr_ring : sr_ring bool_ops.
Proof.
  constructor; cbn; intros; repeat match goal with b : bool |- _ => destruct b end; reflexivity.
Qed.
Lemma bool_sr_ordered : sr_ordered bool_ops.
Proof.
  constructor; cbn; intros; repeat match goal with b : bool |- _ => destruct b end; auto;
    try discriminate; try (symmetry; auto; fail); auto.
Qed.

Theorem enclosure_bool_exact G w K lo u :
  wf_grammar G = true ->
  enclosure bool_ops (fun x => x) (fun x => x) (fun a b : bool => implb a b) G w K = Some (lo, u) ->
  u = lo
  /\ env_eq_on G (step bool_ops G w (env_of bool_ops lo)) (env_of bool_ops lo)
  /\ (forall v : env (R:=bool), env_le_on bool_ops G (step bool_ops G w v) v -> env_le_on bool_ops G (env_of bool_ops lo) v)
  /\ (forall k, env_le_on bool_ops G (Zk bool_ops G w k) (env_of bool_ops lo))
  /\ (exists j, j <= K /\ env_eq_on G (env_of bool_ops lo) (Zk bool_ops G w (4 * j))).
Proof.
  apply (enclosure_exact bool_ops bool_sr_ring bool_sr_ordered (fun a b : bool => implb a b) bool_leb_sound).
Qed.

(** Viterbi *)
Lemma tleb_sound x y : tleb x y = true -> tle x y.
Proof.
  destruct x, y; cbn; auto; try discriminate.
  intros H. apply Qle_bool_iff in H. exact H.
Qed.

Theorem enclosure_trop_exact :
  sr_ring trop_ops -> sr_ordered trop_ops -> forall G w K lo u,
  wf_grammar G = true ->
  enclosure trop_ops (fun x => x) (fun x => x) tleb G w K = Some (lo, u) ->
  u = lo
  /\ env_eq_on G (step trop_ops G w (env_of trop_ops lo)) (env_of trop_ops lo)
  /\ (forall v : env (R:=trop), env_le_on trop_ops G (step trop_ops G w v) v -> env_le_on trop_ops G (env_of trop_ops lo) v)
  /\ (forall k, env_le_on trop_ops G (Zk trop_ops G w k) (env_of trop_ops lo))
  /\ (exists j, j <= K /\ env_eq_on G (env_of trop_ops lo) (Zk trop_ops G w (4 * j))).
Proof.
  intros Hr Ho. apply (enclosure_exact trop_ops Hr Ho tleb tleb_sound).
Qed.

(** Real *)
Lemma eleb_sound x y : eleb x y = true -> ele x y.
Proof.
  destruct x as [a|], y as [b|]; cbn; auto; try discriminate.
  intros H. apply Qle_bool_iff in H. exact H.
Qed.

Local Open Scope Q_scope.
Lemma grid_pos : 0 < grid.
Proof. reflexivity. Qed.

Lemma rd_q_le q : rd_q q <= q.
Proof.
  unfold rd_q. destruct (Qle_bool (1073741824 # 1) q) eqn:E.
  - apply Qle_bool_iff. exact E.
  - apply Qle_shift_div_r; [exact grid_pos|].
    apply (Qfloor_le (q * grid)).
Qed.

Lemma rd_real_le x : ele (rd_real x) x.
Proof.
  destruct x as [a|]; cbn [rd_real ele]; [|exact I].
  unfold nn_of_Q, nn_of_Qc.
  destruct (Sumbool.sumbool_of_bool (nnb (Q2Qc (rd_q (this (qv a)))))) as [e|e]; cbn [qv].
  - unfold Qcle. cbn [this Q2Qc]. rewrite Qred_correct. apply rd_q_le.
  - unfold Qcle. pose proof (qnn a) as Ha. apply nnb_le in Ha. exact Ha.
Qed.

Theorem enclosure_real_sound :
  sr_ring ereal_ops -> sr_ordered ereal_ops -> forall G w K lo u,
  wf_grammar G = true ->
  enclosure ereal_ops rd_real infl_real eleb G w K = Some (lo, u) ->
  (forall k, env_le_on ereal_ops G (Zk ereal_ops G w k) (env_of ereal_ops u))
  /\ (exists j, (j <= K)%nat /\ lo = Ktab ereal_ops rd_real G w (4 * j)
                /\ env_le_on ereal_ops G (env_of ereal_ops lo) (Zk ereal_ops G w (4 * j)))
  /\ (forall v : env (R:=ereal), env_le_on ereal_ops G (step ereal_ops G w v) v -> env_le_on ereal_ops G (env_of ereal_ops lo) v)
  /\ env_le_on ereal_ops G (env_of ereal_ops lo) (env_of ereal_ops u)
  /\ env_le_on ereal_ops G (step ereal_ops G w (env_of ereal_ops u)) (env_of ereal_ops u).
Proof.
  intros Hr Ho. apply (enclosure_sound ereal_ops Hr Ho rd_real infl_real eleb rd_real_le eleb_sound).
Qed.
