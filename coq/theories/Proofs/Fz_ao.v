(** sums over [assts_over]: splitting the variable list, factoring out, product of sums over
    disjoint variable sets *)
From Coq Require Import List Arith Bool PeanoNat Lia Permutation Ring Ring_theory.
Import ListNotations.
Require Import Fggs.Model.Semiring Fggs.Model.SCC Fggs.Model.SumProduct.
Require Import Fggs.Proofs.SCC_ntgraph Fggs.Proofs.BigSum Fggs.Proofs.SP_trees Fggs.Proofs.SP_nonrec
               Fggs.Proofs.SP_code Fggs.Proofs.SP_rename Fggs.Proofs.SP_main.

Section AO.
Context {R : Type} (o : sr_ops R).
Hypothesis Hr : sr_ring o.
Add Ring RingRAO : (sr_is_srt o Hr).

Lemma AO_sum_app sizes (F : list nat -> R) u : forall w a,
  sumS o (assts_over sizes (u ++ w) a) F = sumS o (assts_over sizes u a) (fun a' => sumS o (assts_over sizes w a') F).
Proof.
  induction u as [|v u IH]; intros w a.
  - cbn [app assts_over]. now rewrite (sumS_single o Hr).
  - cbn [app]. rewrite !assts_over_cons, !(sumS_flat_map o Hr). apply sumS_ext. intros i _. apply IH.
Qed.

(** members of [assts_over] keep the length and the coordinates outside the variables *)
Lemma AO_keeps sizes vs a a' : (forall v, In v vs -> v < length a) -> In a' (assts_over sizes vs a) ->
  length a' = length a /\ forall u, ~ In u vs -> nth u a' 0 = nth u a 0.
Proof. intros H Ha. apply in_AO_fwd in Ha; trivial. tauto. Qed.

Lemma dep_const S (F : list nat -> R) sizes vs a a' : dep_only S F ->
  (forall v, In v vs -> ~ In v S) -> (forall v, In v vs -> v < length a) ->
  In a' (assts_over sizes vs a) -> F a' = F a.
Proof.
  intros D Hd Hr' Ha. apply D. intros u Hu. apply (AO_keeps sizes vs a a' Hr' Ha). intro H. exact (Hd u H Hu).
Qed.

Lemma dep_only_mono S S' (F : list nat -> R) : incl S S' -> dep_only S F -> dep_only S' F.
Proof. intros I D a a' H. apply D. intros u Hu. apply H. now apply I. Qed.

Lemma dep_only_prod {A} (cs : list A) (S : A -> list nat) (P : A -> list nat -> R) :
  (forall c, In c cs -> dep_only (S c) (P c)) ->
  dep_only (flat_map S cs) (fun a => prodS o cs (fun c => P c a)).
Proof.
  intros D a a' H. apply prodS_ext. intros c Hc. apply (D c Hc). intros u Hu. apply H. apply in_flat_map. eauto.
Qed.

(** pairwise separation of the children: nobody reads the others' variables *)
Fixpoint separated {A} (S W : A -> list nat) (cs : list A) : Prop :=
  match cs with
  | [] => True
  | c :: cs' => (forall c', In c' cs' -> (forall v, In v (W c') -> ~ In v (S c)) /\ (forall v, In v (W c) -> ~ In v (S c')))
                /\ separated S W cs'
  end.

Theorem prod_of_AO_sums {A} sizes (S W : A -> list nat) (P : A -> list nat -> R) : forall cs a,
  (forall c, In c cs -> dep_only (S c) (P c)) ->
  separated S W cs ->
  (forall c v, In c cs -> In v (W c) -> v < length a) ->
  prodS o cs (fun c => sumS o (assts_over sizes (W c) a) (P c))
  = sumS o (assts_over sizes (flat_map W cs) a) (fun a' => prodS o cs (fun c => P c a')).
Proof.
  induction cs as [|c cs IH]; intros a D Sep Rg.
  - cbn [flat_map assts_over]. now rewrite (sumS_single o Hr).
  - destruct Sep as [Sep1 Sep2]. rewrite prodS_cons. cbn [flat_map]. rewrite AO_sum_app.
    rewrite IH; trivial; [|intros c' Hc'; apply D; now right|intros c' v Hc'; apply Rg; now right].
    rewrite (sumS_mul_r o Hr). apply sumS_ext. intros x Hx.
    assert (Rc : forall v, In v (W c) -> v < length a) by (intros v Hv; apply (Rg c); [now left|exact Hv]).
    destruct (AO_keeps sizes (W c) a x Rc Hx) as [Lx Kx].
    (* the rest does not read the variables of c *)
    assert (E1 : sumS o (assts_over sizes (flat_map W cs) a) (fun a' => prodS o cs (fun c0 => P c0 a'))
                 = sumS o (assts_over sizes (flat_map W cs) x) (fun a' => prodS o cs (fun c0 => P c0 a'))).
    { apply (AO_sum_indep o Hr (flat_map S cs)).
      - apply dep_only_prod. intros c' Hc'. apply D. now right.
      - intros v Hv. apply in_flat_map in Hv. destruct Hv as (c' & Hc' & Hv). rewrite Lx.
        split; [|split; [|reflexivity]]; apply (Rg c'); trivial; now right.
      - intros u Hu. right. apply in_flat_map in Hu. destruct Hu as (c' & Hc' & Hu). symmetry. apply Kx.
        intro Hw. exact (proj2 (Sep1 c' Hc') u Hw Hu). }
    rewrite E1, (sumS_mul_l o Hr). apply sumS_ext. intros y Hy. rewrite prodS_cons. f_equal.
    symmetry. apply (dep_const (S c) (P c) sizes (flat_map W cs) x y); trivial.
    + apply D. now left.
    + intros v Hv. apply in_flat_map in Hv. destruct Hv as (c' & Hc' & Hv). exact (proj1 (Sep1 c' Hc') v Hv).
    + intros v Hv. apply in_flat_map in Hv. destruct Hv as (c' & Hc' & Hv). rewrite Lx. apply (Rg c'); trivial. now right.
Qed.

End AO.
