(** On typed pairs the model of [equal] / [allclose] does not fail: [unify] answers with the fuel
    the model gives it ([unify_model_fuel_total], Proofs/Axis_fuel_suffices.v), [stride] and [fv]
    terminate within their fuel, every
    key of the accumulated stride dict is a free axis (no KeyError in [project]), and the free axes
    of the second view are exactly [subaxes] (the [__debug__] check of [project] passes).  Hence the
    executable premise [compare_pre_b] of C13_equal_correct holds on every such pair. *)
From Coq Require Import List Arith Lia PeanoNat Bool PArith QArith Qcanon.
Import ListNotations.
Require Import Fggs.Model.Axis Fggs.Model.AxisCheck Fggs.Model.XVal Fggs.Model.PTensor Fggs.Model.PTensorCheck Fggs.Model.PTEqual.
Require Import Fggs.Proofs.Axis_sem Fggs.Proofs.Axis_unify Fggs.Proofs.Axis_complete_gen Fggs.Proofs.Axis_typed Fggs.Proofs.Axis_total.
Require Import Fggs.Proofs.Axis_fuel Fggs.Proofs.Axis_mgu Fggs.Proofs.Axis_rank Fggs.Proofs.Axis_stride_typed Fggs.Proofs.Axis_stride_total.
Require Import Fggs.Proofs.PTensor_sem Fggs.Proofs.PTensor_dense Fggs.Proofs.Axis_repr Fggs.Proofs.PTensor_gen Fggs.Proofs.Axis_complete.
Require Import Fggs.Proofs.PTEqual_count Fggs.Proofs.PTEqual_sem Fggs.Proofs.PTEqual_freshen Fggs.Proofs.PTEqual_main.
Require Import Fggs.Proofs.PTEqual_typed Fggs.Proofs.PTEqual_typed_main.
Require Import Fggs.Proofs.Axis_total_path Fggs.Proofs.Axis_coarsen Fggs.Proofs.Axis_fuel_suffices.
Local Open Scope nat_scope.

(** * small facts *)
Lemma mapM_total {A B} (f : A -> res B) l : (forall x, In x l -> exists y, f x = Ok y) -> exists r, mapM f l = Ok r.
Proof.
  induction l as [|x l IH]; intros H; simpl; [eauto|].
  destruct (H x (or_introl eq_refl)) as (y & ->). cbn [bind].
  destruct IH as (r & ->); [intros z Hz; apply H; right; exact Hz|]. cbn [bind]. eauto.
Qed.

Lemma In_assoc_some {A} k (a : A) s : In (k, a) s -> exists a', assoc k s = Some a'.
Proof.
  induction s as [|[k' a0] s IH]; intros H; [contradiction|]. simpl. destruct (Pos.eqb_spec k' k) as [->|Ne]; [eauto|].
  destruct H as [H|H]; [inversion H; congruence|exact (IH H)].
Qed.

Lemma seteq_complete (l l' : list positive) : (forall x, In x l <-> In x l') -> seteq Pos.eqb l l' = true.
Proof.
  intros H. unfold seteq, subset. apply andb_true_iff. split; apply forallb_forall; intros x Hx;
    apply (memb_In Pos.eqb Pos.eqb_eq); apply H; exact Hx.
Qed.

Lemma fv_fold_sup fuel sigma : forall l a0 r,
  fold_left (fv_step fuel sigma) l (Ok a0) = Ok r ->
  (forall y, In y a0 -> In y r) /\
  (forall x rx, In x l -> fv_occ fuel sigma x = Ok rx -> forall y, In y rx -> In y r).
Proof.
  induction l as [|x l IH]; intros a0 r H; cbn [fold_left] in H.
  - inversion H; subst. split; [auto|intros ? ? []].
  - unfold fv_step at 2 in H. cbn [bind] in H. destruct (fv_occ fuel sigma x) as [rx|e] eqn:Ex.
    + cbn [bind] in H. destruct (IH _ _ H) as [K1 K2]. split.
      * intros y Hy. apply K1. apply in_or_app. left. exact Hy.
      * intros z rz [<-|Hz] Ez y Hy.
        -- rewrite Ex in Ez. inversion Ez; subst. apply K1. apply in_or_app. right. exact Hy.
        -- eapply K2; eauto.
    + cbn [bind] in H. rewrite fold_fail in H; [discriminate|]. intros e' x'. reflexivity.
Qed.

Lemma fv_fold_total fuel sigma l : (forall x, In x l -> exists rx, fv_occ fuel sigma x = Ok rx) ->
  forall a0, exists r, fold_left (fv_step fuel sigma) l (Ok a0) = Ok r.
Proof.
  induction l as [|x l IH]; intros H a0; cbn [fold_left]; [eauto|].
  destruct (H x (or_introl eq_refl)) as (rx & Ex). unfold fv_step at 2. cbn [bind]. rewrite Ex. cbn [bind].
  apply IH. intros y Hy. apply H. right. exact Hy.
Qed.

Lemma strided_In sigma fuel ps ss os : strided sigma fuel ps ss -> In os ss ->
  exists k n, In (k, n) ps /\ stride fuel sigma (Phys k n) = Ok os.
Proof.
  intros S. induction S as [|[k n] os0 ps ss E S IH]; intros H; [contradiction|]. destruct H as [<-|H].
  - exists k, n. split; [left; reflexivity|exact E].
  - destruct (IH H) as (k' & n' & Hk & Ek). exists k', n'. split; [right; exact Hk|exact Ek].
Qed.

Lemma strided_In' sigma fuel ps ss k n : strided sigma fuel ps ss -> In (k, n) ps ->
  exists os, In os ss /\ stride fuel sigma (Phys k n) = Ok os.
Proof.
  intros S. induction S as [|[k0 n0] os0 ps ss E S IH]; intros H; [contradiction|]. destruct H as [H|H].
  - inversion H; subst. exists os0. split; [left; reflexivity|exact E].
  - destruct (IH H) as (os & Hos & Eos). exists os. split; [right; exact Hos|exact Eos].
Qed.

(** * the free axes of the two views coincide *)
Section Keys.
Variable V : Type.
Variable G : ctx.
Variable sigma : subst.
Hypothesis CG : ctx_good G.
Hypothesis W : wts G sigma.
Variable fuel : nat.
Variable pss : list (list ity).

Lemma view_keys_incl (w1 w2 : ptensor V) ss1 ss2 :
  wf V w1 -> wf V w2 -> tys G (vaxes w1) pss -> tys G (vaxes w2) pss ->
  strided sigma fuel (paxes w1) ss1 -> strided sigma fuel (paxes w2) ss2 ->
  (forall rho, fits G rho -> models rho sigma -> evals rho (vaxes w1) = evals rho (vaxes w2)) ->
  forall j, (exists os, In os ss1 /\ In j (keys (snd os))) -> exists os, In os ss2 /\ In j (keys (snd os)).
Proof.
  intros W1 W2 T1 T2 S1 S2 Snd j (os & Hos & Hj).
  set (K2 := flat_map (fun os => keys (snd os)) ss2).
  destruct (in_dec Pos.eq_dec j K2) as [Hin|Hnot].
  { apply in_flat_map in Hin. exact Hin. }
  exfalso.
  destruct (strided_keys sigma _ _ _ _ _ S1 Hos Hj) as [Uj (k & n & Hk & R)].
  assert (Gj : G j <> []).
  { destruct (reach_occurs _ _ _ R) as [<-|(k' & T & Hk' & HjT)].
    - apply (wf_fv V w1 W1) in Hk. exact (proj2 (tys_sized _ _ _ T1 k n Hk)).
    - destruct (wts_ty _ _ W k' T Hk') as [_ HT]. exact (proj1 (ty_fv_both G) _ _ HT j HjT). }
  set (g1 := fun x : positive => if Pos.eqb x j then 1 else 0).
  destruct (model_exists G sigma (fun _ => 0) W) as (rho0 & M0 & U0).
  destruct (model_exists G sigma g1 W) as (rho1 & M1 & U1).
  assert (F0 : fits G rho0).
  { apply (model_fits G sigma rho0 W M0). intros x A Gx. rewrite (U0 x A). pose proof (gprimes_pos _ (CG x)). lia. }
  assert (F1 : fits G rho1).
  { apply (model_fits G sigma rho1 W M1). intros x A Gx. rewrite (U1 x A). unfold g1.
    destruct (Pos.eqb_spec x j) as [->|_]; [pose proof (gprimes_big _ (CG j) Gj); lia|pose proof (gprimes_pos _ (CG x)); lia]. }
  (* the two environments agree on the physical axes of [w2] ... *)
  assert (A2 : forall k', In k' (map fst (paxes w2)) -> rho0 k' = rho1 k').
  { intros k' Hk'. apply in_map_iff in Hk'. destruct Hk' as ([k2 n2] & <- & Hk2). simpl.
    destruct (strided_In' _ _ _ _ _ _ S2 Hk2) as ([o2 s2] & Hos2 & E2).
    pose proof (stride_affine rho0 sigma M0 _ _ _ _ E2) as Aff0. pose proof (stride_affine rho1 sigma M1 _ _ _ _ E2) as Aff1.
    simpl in Aff0, Aff1. rewrite Aff0, Aff1. f_equal. apply lin_eval_ext. intros x Hx.
    destruct (stride_keys_ok sigma _ _ _ _ E2) as [_ Kx]. destruct (Kx x Hx) as [Ux _].
    rewrite (U0 x Ux), (U1 x Ux). unfold g1. destruct (Pos.eqb_spec x j) as [->|_]; [|reflexivity].
    exfalso. apply Hnot. unfold K2. apply in_flat_map. exists (o2, s2). auto. }
  (* ... hence give [w1] the same index tuple, hence agree on the axes of [w1] and on [j] *)
  assert (E2 : evals rho0 (vaxes w2) = evals rho1 (vaxes w2)).
  { apply evals_ext. intros x Hx. apply A2. apply (fv_paxes V w2 W2). exact Hx. }
  assert (E1 : evals rho0 (vaxes w1) = evals rho1 (vaxes w1)).
  { rewrite (Snd rho0 F0 M0), (Snd rho1 F1 M1). exact E2. }
  assert (A1 : rho0 k = rho1 k).
  { apply (pattern_injective (vaxes w1) rho0 rho1 (tys_inrange _ _ _ _ T1 F0) (tys_inrange _ _ _ _ T1 F1) E1).
    apply (wf_covers V w1 W1). apply in_map_iff. exists (k, n). auto. }
  pose proof (reach_inj sigma rho0 rho1 M0 M1 (fits_inr_s _ _ _ W F0) (fits_inr_s _ _ _ W F1) k j R A1) as Ej.
  rewrite (U0 j Uj), (U1 j Uj) in Ej. unfold g1 in Ej. rewrite Pos.eqb_refl in Ej. discriminate.
Qed.

End Keys.

(** * the model does not fail *)
Section Total.
Variable V : Type.
Variables t u : ptensor V.
Hypothesis Wt : wf V t.
Hypothesis Wu : wf V u.
Variable G : ctx.
Variable next : positive.
Variable pss : list (list ity).
Hypothesis CG : ctx_good G.
Hypothesis CB : ctx_below G next.
Hypothesis Te : tys G (vaxes t) pss.
Hypothesis Tf : tys G (vaxes u) pss.
Hypothesis Gp : Forall gprimes pss.

Theorem overlap_model_total : exists ov, overlap_model V next t u = Ok ov.
Proof.
  unfold overlap_model.
  destruct (unify_model_fuel_total G _ _ pss next CG CB Te Tf Gp) as (b & st' & G' & E & Wn & L & X & T').
  change (ustate0 next) with {| us_subst := []; us_next := next; us_warn := false |} in E. rewrite E. cbn [bind fst snd].
  destruct b; [|eauto].
  destruct (unify_typed_mgu_any_fuel G _ _ pss next _ true st' CG CB Te Tf Gp E) as (_ & _ & HU).
  set (sigma := us_subst st') in *.
  pose proof (ts_wts _ _ T') as W. fold sigma in W. pose proof (ts_good _ _ T') as CG'.
  assert (Te' : tys G' (vaxes t) pss) by (eapply tys_ext; eauto).
  assert (Tf' : tys G' (vaxes u) pss) by (eapply tys_ext; eauto).
  assert (TyP : forall (w : ptensor V), wf V w -> tys G' (vaxes w) pss -> forall k n, In (k, n) (paxes w) -> ty G' (Phys k n) (G' k)).
  { intros w Ww Tw k n Hk. apply (wf_fv V w Ww) in Hk. destruct (tys_sized _ _ _ Tw k n Hk) as [-> Gk]. constructor; auto. }
  assert (StrP : forall (w : ptensor V), wf V w -> tys G' (vaxes w) pss ->
            exists ss, mapM (stride (sub_fuel sigma) sigma) (paxes_axes (paxes w)) = Ok ss).
  { intros w Ww Tw. apply mapM_total. intros x Hx. unfold paxes_axes in Hx. apply in_map_iff in Hx.
    destruct Hx as ([k n] & <- & Hk). simpl.
    destruct (stride_total_typed G' sigma W k n (TyP w Ww Tw k n Hk)) as (o & s & Es). eauto. }
  destruct (StrP t Wt Te') as (ss & Ess). destruct (StrP u Wu Tf') as (su & Esu). rewrite Ess. cbn [bind].
  pose proof (strided_of_mapM _ _ _ _ Ess) as Sss. pose proof (strided_of_mapM _ _ _ _ Esu) as Ssu.
  (* subaxes: [fv] terminates and yields every key of the stride dict *)
  assert (Esub : exists sub, subaxes_of (sub_fuel sigma) sigma (paxes_axes (paxes t)) ss = Ok sub).
  { unfold subaxes_of, fv_list.
    change (fold_left _ (paxes_axes (paxes t)) (Ok [])) with (fold_left (fv_step (sub_fuel sigma) sigma) (paxes_axes (paxes t)) (Ok [])).
    assert (FvP : forall x, In x (paxes_axes (paxes t)) -> exists rx, fv_occ (sub_fuel sigma) sigma x = Ok rx).
    { intros x Hx. unfold paxes_axes in Hx. apply in_map_iff in Hx. destruct Hx as ([k n] & <- & Hk). simpl.
      destruct (strided_In' _ _ _ _ _ _ Sss Hk) as ([o s] & _ & Es). destruct (stride_fv_occ sigma _ _ _ _ Es) as (r & Er & _). eauto. }
    destruct (fv_fold_total _ _ _ FvP []) as (r0 & Er0). rewrite Er0. cbn [bind].
    apply mapM_total. intros j Hj. unfold stride_keys in Hj. apply (stride_keys_fold ss [] j) in Hj.
    destruct Hj as [[]|(os & Hos & Hjo)].
    destruct (strided_In _ _ _ _ _ Sss Hos) as (k & n & Hk & Es). destruct os as [o s].
    destruct (stride_fv_occ sigma _ _ _ _ Es) as (r & Er & Kr). specialize (Kr j Hjo).
    apply in_map_iff in Kr. destruct Kr as ([j' nj] & Ej & Hjr). simpl in Ej. subst j'.
    assert (Hj0 : In (j, nj) r0).
    { apply (proj2 (fv_fold_sup _ _ _ _ _ Er0) (Phys k n) r); [|exact Er|exact Hjr].
      unfold paxes_axes. apply in_map_iff. exists (k, n). auto. }
    destruct (dedup_keys [] r0 j nj Hj0 eq_refl) as (n' & Hd). destruct (In_assoc_some _ _ _ Hd) as (a' & ->). eauto. }
  destruct Esub as (sub & Esub). rewrite Esub. cbn [bind]. rewrite Esu. cbn [bind].
  destruct (subaxes_spec _ _ _ _ _ Esub) as (fvs0 & _ & Ksub & _).
  assert (Snd : forall rho, fits G' rho -> models rho sigma -> evals rho (vaxes t) = evals rho (vaxes u)).
  { intros rho F M. unfold evals. exact (proj1 (HU rho (tys_inrange _ _ _ _ Te' F) (tys_inrange _ _ _ _ Tf' F)) M). }
  assert (Eseq : seteq Pos.eqb (stride_keys su) (map fst sub) = true).
  { apply seteq_complete. intros j. rewrite Ksub. unfold stride_keys.
    rewrite (stride_keys_fold su [] j), (stride_keys_fold ss [] j). split; intros [[]|H]; right.
    - apply (view_keys_incl V G' sigma CG' W _ pss u t su ss Wu Wt Tf' Te' Ssu Sss); [|exact H].
      intros rho F M. symmetry. apply Snd; assumption.
    - apply (view_keys_incl V G' sigma CG' W _ pss t u ss su Wt Wu Te' Tf' Sss Ssu Snd). exact H. }
  rewrite Eseq. eauto.
Qed.

End Total.

(** * the executable premise *)
Lemma nodup_tuples_complete l : NoDup l -> nodup_tuples l = true.
Proof.
  induction 1 as [|x l Hx _ IH]; [reflexivity|]. simpl. rewrite IH, andb_true_r. apply negb_true_iff.
  destruct (memb nat_list_eqb x l) eqn:M; [|reflexivity]. exfalso. apply Hx. apply (memb_In _ nat_list_eqb_eq). exact M.
Qed.

Lemma tlookup_complete {A} (f g : A -> list nat) (l : list A) x :
  In x l -> (forall y, In y l -> f y = f x -> y = x) ->
  tlookup (f x) (map (fun y => (f y, g y)) l) = Some (g x).
Proof.
  induction l as [|y l IH]; intros H Inj; [contradiction|]. simpl.
  destruct (nat_list_eqb (f y) (f x)) eqn:E.
  - apply nat_list_eqb_eq in E. rewrite (Inj y (or_introl eq_refl) E). reflexivity.
  - destruct H as [->|H]; [exfalso; assert (nat_list_eqb (f x) (f x) = true) by (apply nat_list_eqb_eq; reflexivity); congruence|].
    apply IH; [exact H|]. intros z Hz. apply Inj. right. exact Hz.
Qed.

Lemma overlap_ok_b_complete (t u : pt) cs : overlap_ok xval t u cs -> overlap_ok_b t u cs = true.
Proof.
  intros (N & S & C). unfold overlap_ok_b. apply andb_true_iff. split; [apply andb_true_iff; split|].
  - apply nodup_tuples_complete. exact N.
  - apply forallb_forall. intros cc Hcc. destruct (S cc Hcc) as (pi & pj & Hpi & Hpj & F1 & F2 & Ec).
    unfold cell_table. rewrite F1, F2.
    rewrite (tlookup_complete (map snd) (fun pi => evals (env_of pi) (vaxes t)) _ pi Hpi);
      [|intros y Hy Ey; apply (all_envs_coords_inj (paxes t)); assumption].
    rewrite (tlookup_complete (map snd) (fun pi => evals (env_of pi) (vaxes u)) _ pj Hpj);
      [|intros y Hy Ey; apply (all_envs_coords_inj (paxes u)); assumption].
    apply nat_list_eqb_eq. exact Ec.
  - unfold cell_table. rewrite forallb_map'. apply forallb_forall. intros pi Hpi.
    rewrite forallb_map'. apply forallb_forall. intros pj Hpj. cbn [fst snd].
    destruct (nat_list_eqb (evals (env_of pi) (vaxes t)) (evals (env_of pj) (vaxes u))) eqn:E; [|reflexivity].
    apply nat_list_eqb_eq in E. simpl. apply (memb_In _ pair_eqb_eq). apply C; assumption.
Qed.

Lemma asize_rename g e : asize (rename_axis g e) = asize e.
Proof.
  induction e as [k n|l IH|b t a IH] using axis_ind'; simpl; [reflexivity| |rewrite IH; reflexivity].
  f_equal. induction l as [|x l IHl]; simpl; [reflexivity|]. inversion IH; subst. rewrite H1, IHl by assumption. reflexivity.
Qed.

Lemma asize_list_rename g es : asize_list (map (rename_axis g) es) = asize_list es.
Proof. induction es as [|e es IH]; simpl; [reflexivity|]. rewrite asize_rename, IH. reflexivity. Qed.

(** the model of [overlap] answers on [t] and the (possibly freshened) [other] of a call [t.equal(u)] *)
Lemma freshened_overlap_total G next pss (t u : pt) :
  typed_pair xval G next pss t u ->
  exists ov, overlap_model xval (snd (freshened xval next t u)) t (fst (freshened xval next t u)) = Ok ov.
Proof.
  intros TP. pose proof (tp_wft _ _ _ _ _ _ TP) as Wt. pose proof (tp_wfu _ _ _ _ _ _ TP) as Wu.
  unfold freshened. destruct (pt_isdisjoint xval t u) eqn:D; cbn [fst snd].
  - apply (overlap_model_total xval t u Wt Wu G next pss); apply TP.
  - apply (overlap_model_total xval t _ Wt (pt_freshen_wf xval u next Wu) (fresh_ctx xval u G next) _ pss).
    + exact (fresh_ctx_good xval t u G next pss TP).
    + exact (fresh_ctx_below xval t u G next pss TP).
    + exact (fresh_tys_t xval t u G next pss TP).
    + exact (fresh_tys_u xval t u G next pss TP).
    + apply TP.
Qed.

(** C13's premise holds on every typed pair *)
Theorem compare_pre_typed G next pss (t u : pt) :
  typed_pair xval G next pss t u -> wf_b t = true -> wf_b u = true ->
  compare_pre_b next t u = true.
Proof.
  intros TP Bt Bu. unfold compare_pre_b.
  pose proof (freshened_overlap_ok xval t u G next pss TP) as Hov. cbv zeta in Hov.
  pose proof (freshened_overlap_total G next pss t u TP) as Tot.
  destruct (freshened xval next t u) as [u' next'] eqn:F. cbn [fst snd] in *.
  rewrite Bt, Bu. cbn [andb]. unfold overlap_exact_b. destruct Tot as (ov & Eov).
  unfold overlap_cs in Hov. rewrite Eov in *. destruct ov as [o|]; apply overlap_ok_b_complete; apply Hov; reflexivity.
Qed.

(** hence [equal] / [allclose] answer, and answer correctly *)
Corollary compare_decides_typed cmp G next pss (t u : pt) :
  typed_pair xval G next pss t u -> wf_b t = true -> wf_b u = true ->
  exists b, compare_model xval cmp next t u = Ok b /\ (b = true <-> cellwise cmp t u).
Proof.
  intros TP Bt Bu. pose proof (compare_pre_typed G next pss t u TP Bt Bu) as P.
  destruct (compare_model_total cmp next t u P) as (b & E). exists b. split; [exact E|].
  exact (compare_model_correct cmp next t u b P E).
Qed.

(** * premise-free: on every typed pair the model answers, and the answer is the truth
    (no executable premise, no condition on the fuel, [wf] instead of [wf_b]) *)
Theorem compare_total_typed cmp G next pss (t u : pt) :
  typed_pair xval G next pss t u ->
  exists b, compare_model xval cmp next t u = Ok b /\ (b = true <-> cellwise cmp t u).
Proof.
  intros TP.
  assert (Tot : exists b, compare_model xval cmp next t u = Ok b).
  { pose proof (freshened_overlap_total G next pss t u TP) as (ov & Eov). unfold compare_model.
    destruct (nat_list_eqb (shape xval t) (shape xval u)); cbn [negb]; [|eauto].
    destruct (freshened xval next t u) as [u' next']. cbn [fst snd] in Eov.
    apply compare_core_total. unfold overlap_cs. rewrite Eov. destruct ov; eauto. }
  destruct Tot as (b & E). exists b. split; [exact E|].
  exact (compare_model_correct_typed cmp G next pss t u b TP E).
Qed.

Theorem equal_total_typed G next pss (t u : pt) :
  typed_pair xval G next pss t u ->
  exists b, equal_model next t u = Ok b /\
    (b = true <-> shape xval t = shape xval u /\
                  forall idx, in_bounds (shape xval t) idx -> denote xval t idx = denote xval u idx /\ denote xval t idx <> XNaN).
Proof.
  intros TP. destruct (compare_total_typed xeq_num G next pss t u TP) as (b & E & _).
  exists b. split; [exact E|]. exact (equal_correct_typed G next pss t u b TP E).
Qed.

Theorem allclose_total_typed rtol atol en G next pss (t u : pt) :
  typed_pair xval G next pss t u ->
  exists b, allclose_model rtol atol en next t u = Ok b /\
    (b = true <-> shape xval t = shape xval u /\
                  forall idx, in_bounds (shape xval t) idx -> xisclose rtol atol en (denote xval t idx) (denote xval u idx) = true).
Proof.
  intros TP. destruct (compare_total_typed (xisclose rtol atol en) G next pss t u TP) as (b & E & _).
  exists b. split; [exact E|]. exact (allclose_correct_typed rtol atol en G next pss t u b TP E).
Qed.
