(** C05, grammar level, part 3: the factorised grammar REFINES the original one in the sense of
    Proofs/SP_refine.v -- so the sum-product of every original nonterminal is unchanged:
    - the label numbering [lab_idx] of the factorised grammar extends the original one;
    - the value of the new rule for the original left-hand side equals the value of the original
      rule at EVERY external assignment ([sum_product_rule_all]: [C05_sum_product_rule] plus the
      case where the assignment is not the restriction of an in-range assignment of the nodes:
      both values are zero);
    - the fresh nonterminals of one call are ranked by their position in the call's output
      (post-order, Fz_post.v) and owned by the rule's left-hand side. *)
From Coq Require Import List Arith Bool PeanoNat Lia Permutation Ring Ring_theory.
Import ListNotations.
Require Import Fggs.Model.Conj Fggs.Proofs.ConjBase.
Require Import Fggs.Model.TreeDec Fggs.Proofs.TreeDec_graph Fggs.Proofs.TreeDec_tdok Fggs.Model.Factorize
               Fggs.Proofs.Fz_rooted Fggs.Proofs.Fz_struct Fggs.Proofs.Fz_main Fggs.Proofs.Fz_final
               Fggs.Proofs.Fz_bridge Fggs.Proofs.Fz_inline Fggs.Proofs.Fz_post Fggs.Proofs.Fz_glue.
Require Import Fggs.Model.Semiring Fggs.Model.SCC Fggs.Model.SumProduct.
Require Import Fggs.Proofs.SCC_ntgraph Fggs.Proofs.BigSum Fggs.Proofs.SP_trees Fggs.Proofs.SP_nonrec
               Fggs.Proofs.SP_main Fggs.Proofs.SP_unfold Fggs.Proofs.Fz_embed Fggs.Proofs.Fz_treeval
               Fggs.Proofs.SP_refine.

(** * [index_by] / [lab_idx]: the numbering of a table that is extended at its end *)
Lemma index_by_app_in {A} (p : A -> bool) l l' : existsb p l = true -> index_by p (l ++ l') = index_by p l.
Proof.
  induction l as [|x l IH]; cbn [existsb index_by app]; [discriminate|].
  destruct (p x); [reflexivity|]. cbn [orb]. intro H. now rewrite IH.
Qed.
Lemma index_by_lt {A} (p : A -> bool) l : existsb p l = true <-> index_by p l < length l.
Proof.
  induction l as [|x l IH]; cbn [existsb index_by length]; [split; [discriminate|lia]|].
  destruct (p x); cbn [orb]; [split; [lia|reflexivity]|]. rewrite IH. lia.
Qed.
Lemma index_by_nth {A} (p : A -> bool) l d : existsb p l = true -> p (nth (index_by p l) l d) = true.
Proof.
  induction l as [|x l IH]; cbn [existsb index_by nth]; [discriminate|].
  destruct (p x) eqn:E; [intros _; exact E|]. cbn [orb nth]. exact IH.
Qed.
Lemma index_by_ge {A} (p : A -> bool) l l' : existsb p l = false -> length l <= index_by p (l ++ l').
Proof.
  induction l as [|x l IH]; cbn [existsb index_by app length]; [lia|].
  destruct (p x); [discriminate|]. cbn [orb]. intro H. specialize (IH H). lia.
Qed.

Lemma existsb_elabel tbl l : existsb (elabel_eqb l) tbl = true <-> In l tbl.
Proof.
  rewrite existsb_exists. split.
  - intros (x & Hx & E). apply elabel_eqb_eq in E. now subst.
  - intro H. exists l. split; [exact H|apply elabel_eqb_refl].
Qed.
Lemma lab_idx_app tbl ex l : In l tbl -> lab_idx (tbl ++ ex) l = lab_idx tbl l.
Proof. intro H. apply index_by_app_in. now apply existsb_elabel. Qed.
Lemma lab_idx_lt tbl l : In l tbl <-> lab_idx tbl l < length tbl.
Proof. rewrite <- existsb_elabel. apply index_by_lt. Qed.
Lemma lab_idx_nth tbl l d : In l tbl -> nth (lab_idx tbl l) tbl d = l.
Proof.
  intro H. apply existsb_elabel in H. pose proof (index_by_nth (elabel_eqb l) tbl d H) as E.
  apply elabel_eqb_eq in E. now symmetry.
Qed.
Lemma lab_idx_ge tbl ex l : ~ In l tbl -> length tbl <= lab_idx (tbl ++ ex) l.
Proof.
  intro H. apply index_by_ge. destruct (existsb (elabel_eqb l) tbl) eqn:E; [|reflexivity].
  apply existsb_elabel in E. contradiction.
Qed.
Lemma lab_idx_inj tbl a b : In a tbl -> In b tbl -> lab_idx tbl a = lab_idx tbl b -> a = b.
Proof. intros Ha Hb E. rewrite <- (lab_idx_nth tbl a a Ha), E. now apply lab_idx_nth. Qed.

Lemma pos_of_lt ids v : pos_of ids v < length ids -> In v ids.
Proof.
  unfold pos_of. intro H. apply index_by_lt in H. apply existsb_exists in H. destruct H as (x & Hx & E).
  apply Nat.eqb_eq in E. now subst.
Qed.

(** * the translated grammar *)
Definition dlabel : elabel := {| el_name := []; el_type := []; el_term := true |}.
Lemma is_term_nth doms h i : is_term (to_sp_grammar doms h) i = el_term (nth i (fh_elabels h) dlabel).
Proof.
  unfold is_term, to_sp_grammar. cbn [g_labels].
  change (true, @nil nat) with ((fun l => (el_term l, el_type l)) dlabel). now rewrite map_nth.
Qed.
Lemma is_term_idx doms h l : In l (fh_elabels h) -> is_term (to_sp_grammar doms h) (lab_idx (fh_elabels h) l) = el_term l.
Proof. intro H. now rewrite is_term_nth, lab_idx_nth. Qed.
Lemma is_term_overflow doms h i : length (fh_elabels h) <= i -> is_term (to_sp_grammar doms h) i = true.
Proof. intro H. rewrite is_term_nth, nth_overflow by exact H. reflexivity. Qed.

Lemma to_sp_rule_ext tbl ex r : In (fr_lhs r) tbl -> (forall e, In e (fr_edges r) -> In (fe_lab e) tbl) ->
  to_sp_rule (tbl ++ ex) r = to_sp_rule tbl r.
Proof.
  intros H1 H2. unfold to_sp_rule. f_equal; [now apply lab_idx_app|].
  apply map_ext_in. intros e He. f_equal. apply lab_idx_app. now apply H2.
Qed.

(** what the theorems assume of the input grammar: rules with distinct node ids = positions,
    attachments and externals among the nodes, all labels in the label table, nonterminal
    left-hand sides -- this is what [wf_grammar] of the translation says (and [HRG] guarantees) *)
Definition wf_fhrg (g : fhrg) : Prop :=
  forall r, In r (fh_all_rules g) ->
    Fz_final.wf_rule r /\ fr_ids r = seq 0 (length (fr_nodes r))
    /\ In (fr_lhs r) (fh_elabels g) /\ el_term (fr_lhs r) = false
    /\ forall e, In e (fr_edges r) -> In (fe_lab e) (fh_elabels g).
Definition ids_are_positions (g : fhrg) : Prop :=
  forall r, In r (fh_all_rules g) -> fr_ids r = seq 0 (length (fr_nodes r)).

Lemma wf_grammar_wf_fhrg doms g :
  wf_grammar (to_sp_grammar doms g) = true -> ids_are_positions g -> wf_fhrg g.
Proof.
  intros W Hids r Hr. set (G := to_sp_grammar doms g).
  assert (Wr : SumProduct.wf_rule G (to_sp_rule (fh_elabels g) r) = true).
  { apply (SP_mono.wf_grammar_rule G); trivial. unfold G, to_sp_grammar. cbn [g_rules]. now apply in_map. }
  unfold SumProduct.wf_rule in Wr. repeat (apply andb_true_iff in Wr; destruct Wr as [Wr ?]).
  cbn [r_lhs r_nodes r_edges r_ext to_sp_rule] in *.
  assert (Ll : length (g_labels G) = length (fh_elabels g)) by (unfold G, to_sp_grammar; cbn; now rewrite map_length).
  assert (Ln : length (map snd (fr_nodes r)) = length (fr_ids r)) by (unfold fr_ids; now rewrite !map_length).
  apply Nat.ltb_lt in Wr. rewrite Ll in Wr. apply lab_idx_lt in Wr.
  split; [|split; [now apply Hids|split; [exact Wr|split]]].
  - split; [rewrite (Hids r Hr); apply seq_NoDup|]. split.
    + intros e He v Hv. match goal with H : forallb _ (map _ (fr_edges r)) = true |- _ => rename H into He' end.
      rewrite forallb_forall in He'. specialize (He' _ (in_map _ _ e He)). cbn [fst snd] in He'.
      apply andb_true_iff in He'. destruct He' as [He' _]. apply andb_true_iff in He'. destruct He' as [_ He'].
      rewrite forallb_forall in He'. specialize (He' _ (in_map _ _ v Hv)). apply Nat.ltb_lt in He'.
      rewrite Ln in He'. now apply pos_of_lt.
    + intros v Hv. match goal with H : forallb _ (map _ (fr_ext r)) = true |- _ => rename H into Hx end.
      rewrite forallb_forall in Hx. specialize (Hx _ (in_map _ _ v Hv)). apply Nat.ltb_lt in Hx.
      rewrite Ln in Hx. now apply pos_of_lt.
  - match goal with H : negb _ = true |- _ => rename H into Hn end. apply negb_true_iff in Hn.
    unfold G in Hn. now rewrite is_term_idx in Hn.
  - intros e He. match goal with H : forallb _ (map _ (fr_edges r)) = true |- _ => rename H into He' end.
    rewrite forallb_forall in He'. specialize (He' _ (in_map _ _ e He)). cbn [fst snd] in He'.
    apply andb_true_iff in He'. destruct He' as [He' _]. apply andb_true_iff in He'. destruct He' as [He' _].
    apply Nat.ltb_lt in He'. rewrite Ll in He'. now apply lab_idx_lt.
Qed.

(** * the value of the new rule at EVERY external assignment *)
Section ValueAll.
Context {R : Type} (o : sr_ops R).
Hypothesis Hr : sr_ring o.

(** a rule on a bag of a global node numbering is zero at an external assignment that is not
    the restriction of an in-range global assignment (no domain being empty) *)
Lemma sub_rule_unrepresentable G labels bag lhs edges X (e : env (R:=R)) xi :
  (forall v, In v bag -> v < length labels) -> incl X bag ->
  (forall v, v < length labels -> 0 < dom G (nth v labels 0)) ->
  (forall a, In a (all_assts (map (dom G) labels)) -> sel a X <> xi) ->
  rule_val o G e (sub_rule labels lhs bag edges X) xi = zero o.
Proof.
  intros Bn HX Pos Hno. unfold rule_val.
  destruct (filter _ _) as [|b l] eqn:F; [apply sumS_nil|]. exfalso.
  assert (Hb : In b (b :: l)) by now left. rewrite <- F in Hb. apply filter_In in Hb. destruct Hb as [Hb Hs].
  apply nat_list_eqb_iff in Hs. rewrite sub_sizes in Hb by exact Bn. cbn [r_ext sub_rule] in Hs.
  apply (Hno (glob labels bag [] b)).
  - apply all_assts_intro; [rewrite glob_length; now rewrite map_length|].
    intros v Hv. rewrite map_length in Hv. rewrite sizes_nth by exact Hv.
    destruct (in_dec Nat.eq_dec v bag) as [Hin|Hnin].
    + rewrite glob_in by trivial. pose proof (all_assts_nth _ _ (index_of v bag) Hb) as Hlt.
      rewrite map_length in Hlt. specialize (Hlt (index_of_lt _ _ Hin)).
      rewrite nth_map_in in Hlt by (now apply index_of_lt). rewrite index_of_In_nth in Hlt by exact Hin.
      now rewrite sizes_nth in Hlt by exact Hv.
    + rewrite glob_out by trivial. replace (nth v [] 0) with 0 by (now destruct v). now apply Pos.
  - rewrite sel_glob by trivial. exact Hs.
Qed.

Lemma sum_product_rule_pos r t ords labels front last ls G lab (e' : env (R:=R)) :
  Fz_final.wf_rule r -> fr_ids r = seq 0 (length (fr_nodes r)) ->
  ftd_wfb t = true -> valid_td (primal r) (td_of_ftd t) ->
  factorize_rule_model r labels t ords = Ok (front ++ [last], ls) ->
  (forall l, In l (map snd (fr_nodes r)) -> 0 < dom G l) ->
  (forall c, In c front -> forall zeta, e' (lab (fr_lhs c)) zeta = rule_val o G e' (tr lab c) zeta) ->
  forall xi, rule_val o G e' (tr lab last) xi = rule_val o G e' (tr lab r) xi.
Proof.
  intros W Hids WF V H Pos Heq xi.
  assert (Ll : length (map snd (fr_nodes r)) = length (fr_nodes r)) by now rewrite map_length.
  destruct (filter (fun a => nat_list_eqb (sel a (fr_ext r)) xi) (all_assts (map (dom G) (map snd (fr_nodes r))))) as [|a l] eqn:F.
  - assert (Hno : forall a, In a (all_assts (map (dom G) (map snd (fr_nodes r)))) -> sel a (fr_ext r) <> xi).
    { intros a Ha E. assert (Hin : In a []); [|destruct Hin]. rewrite <- F. apply filter_In. split; trivial.
      now apply nat_list_eqb_iff. }
    assert (Pos' : forall v, v < length (map snd (fr_nodes r)) -> 0 < dom G (nth v (map snd (fr_nodes r)) 0))
      by (intros v Hv; apply Pos; now apply nth_In).
    pose proof (call_facts_model _ _ _ _ _ _ _ W WF V H) as CF.
    destruct (cf_last _ _ _ _ _ CF) as (b & es & -> & NDb & Ib & Eb).
    destruct W as (NDi & A & Ext).
    assert (Bb : forall v, In v b -> v < length (fr_nodes r)).
    { intros v Hv. apply Ib in Hv. rewrite Hids in Hv. apply in_seq in Hv. lia. }
    assert (Bs : forall v, In v (seq 0 (length (fr_nodes r))) -> v < length (fr_nodes r)) by (intros v Hv; apply in_seq in Hv; lia).
    assert (Etr : tr lab r = tr lab (mk_rule r (fr_lhs r) (seq 0 (length (fr_nodes r))) (fr_edges r) (fr_ext r))).
    { rewrite <- Hids, <- (rule_eta r G Hids NDi). reflexivity. }
    rewrite Etr, (tr_mk r lab Hids _ _ _ _ Bb), (tr_mk r lab Hids _ _ _ _ Bs).
    rewrite !sub_rule_unrepresentable; trivial.
    + intros v Hv. rewrite Ll. now apply Bs.
    + rewrite <- Hids. exact Ext.
    + intros v Hv. rewrite Ll. now apply Bb.
  - assert (Ha : In a (a :: l)) by now left. rewrite <- F in Ha. apply filter_In in Ha. destruct Ha as [Ha Hs].
    apply nat_list_eqb_iff in Hs.
    destruct (sum_product_rule o Hr r t ords labels _ ls G lab e' W Hids WF V H) as (f' & l' & E & HV).
    apply app_inj_tail in E. destruct E as [<- <-]. rewrite <- Hs. now apply HV.
Qed.
(** ** an empty domain: everything is zero *)
Lemma all_assts_zero sizes : In 0 sizes -> all_assts sizes = [].
Proof.
  induction sizes as [|n rest IH]; [intros []|]. intros [->|H]; cbn [all_assts]; [reflexivity|].
  rewrite (IH H). induction (seq 0 n) as [|i l IHl]; [reflexivity|]. cbn [flat_map map app]. exact IHl.
Qed.

Lemma sub_rule_empty_dom G labels bag lhs edges X (e : env (R:=R)) xi x :
  (forall v, In v bag -> v < length labels) -> In x bag -> dom G (nth x labels 0) = 0 ->
  rule_val o G e (sub_rule labels lhs bag edges X) xi = zero o.
Proof.
  intros Bn Hx D. unfold rule_val. rewrite sub_sizes by exact Bn.
  rewrite all_assts_zero; [cbn [filter]; apply sumS_nil|].
  apply in_map_iff. exists x. split; trivial. rewrite sizes_nth by (now apply Bn). exact D.
Qed.

(** a node with an empty domain somewhere in the subtree makes the subtree's rule zero, in every
    environment that solves the equations of the fresh nonterminals below *)
Lemma tree_zero r t ords nm G lab (e' : env (R:=R)) x :
  fr_ids r = seq 0 (length (fr_nodes r)) ->
  dom G (nth x (map snd (fr_nodes r)) 0) = 0 ->
  forall T parent, (forall j v, In j (rt_indices T) -> In v (bag_of t j) -> v < length (fr_nodes r)) ->
    eqs_ok o r t ords nm G lab e' T -> occurs t x T ->
    forall zeta, rule_val o G e' (tr lab (Fz_inline.root_rule r t ords nm T parent)) zeta = zero o.
Proof.
  intros Hids D. induction T as [i cs IH] using rt_ind'. intros parent B Eq (j & Hj & Hx) zeta.
  rewrite Forall_forall in IH. unfold Fz_inline.root_rule. cbn [rt_root rt_kids].
  assert (Bi : forall v, In v (bag_of t i) -> v < length (fr_nodes r)).
  { intros v Hv. apply (B i v); [rewrite rt_indices_eq; now left|exact Hv]. }
  rewrite (tr_mk r lab Hids _ _ _ _ Bi).
  rewrite rt_indices_eq in Hj. destruct Hj as [<-|Hj].
  - apply (sub_rule_empty_dom _ _ _ _ _ _ _ _ x); trivial. intros v Hv. rewrite map_length. now apply Bi.
  - apply in_flat_map in Hj. destruct Hj as (c & Hc & Hj).
    inversion Eq as [i0 cs0 E1 E2]; subst.
    assert (Z : forall zeta', e' (lab (nm (rt_root c))) zeta' = zero o).
    { intro zeta'. rewrite (E2 c zeta' Hc). apply (IH c Hc (Some i)).
      - intros j' v Hj' Hv. apply (B j' v); trivial. rewrite rt_indices_eq. right. apply in_flat_map. eauto.
      - now apply E1.
      - exists j. auto. }
    unfold rule_val. apply (sumS_all_zero o Hr). intros a _. cbn [r_edges sub_rule].
    apply (prodS_zero o Hr) with (x := (lab (nm (rt_root c)), map (fun v => index_of v (bag_of t i)) (nth (rt_root c) ords []))).
    + apply in_map_iff. exists (lab (nm (rt_root c)), nth (rt_root c) ords []). split; [reflexivity|].
      apply in_map_iff. exists (new_edge (nm (rt_root c)) (nth (rt_root c) ords [])). split; [reflexivity|].
      apply in_or_app. right. unfold kid_edges. now apply (in_map (fun c => new_edge (nm (rt_root c)) (nth (rt_root c) ords []))).
    + cbn [fst]. apply Z.
Qed.

Theorem sum_product_rule_all r t ords labels front last ls G lab (e' : env (R:=R)) :
  Fz_final.wf_rule r -> fr_ids r = seq 0 (length (fr_nodes r)) ->
  ftd_wfb t = true -> valid_td (primal r) (td_of_ftd t) ->
  factorize_rule_model r labels t ords = Ok (front ++ [last], ls) ->
  (forall c, In c front -> forall zeta, e' (lab (fr_lhs c)) zeta = rule_val o G e' (tr lab c) zeta) ->
  forall xi, rule_val o G e' (tr lab last) xi = rule_val o G e' (tr lab r) xi.
Proof.
  intros W Hids WF V H Heq xi.
  destruct (existsb (fun l => dom G l =? 0) (map snd (fr_nodes r))) eqn:EX.
  - apply existsb_exists in EX. destruct EX as (l0 & Hl0 & D). apply Nat.eqb_eq in D.
    apply (In_nth _ _ 0) in Hl0. destruct Hl0 as (x & Hx & El0). rewrite <- El0 in D. clear El0 l0.
    assert (RHS : rule_val o G e' (tr lab r) xi = zero o).
    { unfold rule_val. change (node_sizes G (tr lab r)) with (map (dom G) (map snd (fr_nodes r))).
      rewrite all_assts_zero; [cbn [filter]; apply sumS_nil|]. apply in_map_iff. eexists. split; [exact D|].
      now apply nth_In. }
    rewrite RHS. destruct W as (NDi & A & Ext).
    destruct (find_root (fr_ext r) t 0) as [root|] eqn:FR;
      [|unfold factorize_rule_model, factorize_rule_from in H; rewrite FR in H; discriminate].
    destruct (Fz_bridge.valid_rooted r t WF V root NDi A Ext FR) as (T & RV).
    destruct (model_output r t ords labels root T _ ls FR RV H) as (nm & Ers & _).
    destruct T as [i cs]. rewrite rules_of_rt_eq in Ers. apply app_inj_tail in Ers. destruct Ers as [Ef El]. subst front last.
    pose proof (rr_valid r t root _ RV) as Vt.
    change (mk_rule r (nm i) (bag_of t i) (place_edges r (bag_of t i) (pbag t None) ++ kid_edges ords nm cs) (ext_at r ords None i))
      with (Fz_inline.root_rule r t ords nm (RT i cs) None).
    apply (tree_zero r t ords nm G lab e' x Hids D).
    + intros j v Hj Hv. pose proof (rv_bags_sub r t _ Vt j v Hj Hv) as Hin. rewrite Hids in Hin. apply in_seq in Hin. lia.
    + apply (eqs_from o r t ords nm G lab e'). exact Heq.
    + apply (rv_vertex r t _ Vt). rewrite Hids. apply in_seq. rewrite map_length in Hx. lia.
  - apply (sum_product_rule_pos r t ords labels front last ls G lab e' W Hids WF V H); trivial.
    intros l Hl. destruct (Nat.eq_dec (dom G l) 0) as [E|E]; [|lia]. exfalso.
    assert (existsb (fun l => dom G l =? 0) (map snd (fr_nodes r)) = true); [|congruence].
    apply existsb_exists. exists l. split; trivial. now apply Nat.eqb_eq.
Qed.
End ValueAll.

(** * list helpers *)
Lemma filter_none {A} (p : A -> bool) l : (forall c, In c l -> p c = false) -> filter p l = [].
Proof.
  induction l as [|x l IH]; intro H; [reflexivity|]. cbn [filter]. rewrite (H x) by now left.
  apply IH. intros c Hc. apply H. now right.
Qed.
Lemma map_flat_map {A B C} (f : B -> C) (g : A -> list B) l : map f (flat_map g l) = flat_map (fun x => map f (g x)) l.
Proof. induction l as [|x l IH]; [reflexivity|]. cbn [flat_map]. now rewrite map_app, IH. Qed.
Lemma flat_map_single {A B} (f : A -> B) l : flat_map (fun x => [f x]) l = map f l.
Proof. induction l as [|x l IH]; [reflexivity|]. cbn [flat_map map app]. now rewrite IH. Qed.
Lemma map_combine_seq {A B} (g : A -> B) (l : list A) : forall s,
  map (fun qc : nat * A => g (snd qc)) (combine (seq s (length l)) l) = map g l.
Proof. induction l as [|x l IH]; intro s; [reflexivity|]. cbn [length seq combine map snd]. now rewrite IH. Qed.
Lemma in_combine_seq {A} (l : list A) : forall s q d, nth_error l q = Some d -> In (s + q, d) (combine (seq s (length l)) l).
Proof.
  induction l as [|x l IH]; intros s [|q] d H; try discriminate; cbn [length seq combine].
  - cbn in H. injection H as ->. left. f_equal. lia.
  - right. replace (s + S q) with (S s + q) by lia. now apply IH.
Qed.
Lemma in_combine_seq_lt {A} (l : list A) : forall s q d, In (q, d) (combine (seq s (length l)) l) -> q < s + length l.
Proof. intros s q d H. apply in_combine_l in H. apply in_seq in H. lia. Qed.
Lemma NoDup_map_from {A B C} (f : A -> B) (g : A -> C) l :
  NoDup (map g l) -> (forall a b, In a l -> In b l -> f a = f b -> g a = g b) -> NoDup (map f l).
Proof.
  induction l as [|x l IH]; intros ND H; cbn [map]; [constructor|]. cbn [map] in ND. inversion ND as [|? ? Hx ND']; subst.
  constructor.
  - intro Hin. apply in_map_iff in Hin. destruct Hin as (y & E & Hy). apply Hx.
    rewrite <- (H y x (or_intror Hy) (or_introl eq_refl) E). now apply in_map.
  - apply IH; trivial. intros a b Ha Hb. apply H; now right.
Qed.

Section Sums.
Context {R : Type} (o : sr_ops R).
Hypothesis Hr : sr_ring o.
Add Ring RingFG : (sr_is_srt o Hr).

Lemma sumS_single_key {A} (k : A -> nat) (f : A -> R) l d : NoDup (map k l) -> In d l ->
  sumS o l (fun c => if k c =? k d then f c else zero o) = f d.
Proof.
  induction l as [|a l IH]; intros ND Hd; [destruct Hd|]. cbn [map] in ND. inversion ND as [|? ? Ha ND']; subst.
  rewrite sumS_cons. destruct Hd as [->|Hd].
  - rewrite Nat.eqb_refl. rewrite (sumS_all_zero o Hr); [ring|]. intros c Hc.
    destruct (Nat.eqb_spec (k c) (k d)) as [E|]; [|reflexivity]. exfalso. apply Ha. rewrite <- E. now apply in_map.
  - destruct (Nat.eqb_spec (k a) (k d)) as [E|]; [exfalso; apply Ha; rewrite E; now apply in_map|].
    rewrite (IH ND' Hd). ring.
Qed.

Lemma sum_segments {A B C} (p : B -> bool) (F : B -> R) (p0 : C -> bool) (F0 : C -> R)
      (segf : A -> list B) (one : A -> C) cs :
  (forall x, In x cs -> sumS o (filter p (segf x)) F = sumS o (filter p0 [one x]) F0) ->
  sumS o (filter p (flat_map segf cs)) F = sumS o (filter p0 (map one cs)) F0.
Proof.
  induction cs as [|x cs IH]; intro H; [reflexivity|]. cbn [flat_map map].
  change (one x :: map one cs) with ([one x] ++ map one cs).
  rewrite !filter_app, !(sumS_app o Hr), (H x) by now left. f_equal. apply IH. intros y Hy. apply H. now right.
Qed.
End Sums.

(** * the tables: owner and rank of the fresh nonterminals *)
Definition key (tbl' : list elabel) (c : frule) : nat := lab_idx tbl' (fr_lhs c).
Definition entries (tbl tbl' : list elabel) (cs : list call) : list (nat * (nat * nat)) :=
  flat_map (fun x => map (fun qc : nat * frule => (key tbl' (snd qc), (lab_idx tbl (fr_lhs (c_rule x)), fst qc)))
                         (combine (seq 0 (length (c_front x))) (c_front x))) cs.
Definition lookup (es : list (nat * (nat * nat))) (l : nat) : nat * nat :=
  match find (fun e => fst e =? l) es with Some e => snd e | None => (0, 0) end.
Definition owner_of tbl tbl' cs (l : nat) : nat := fst (lookup (entries tbl tbl' cs) l).
Definition rk_of tbl tbl' cs (l : nat) : nat := snd (lookup (entries tbl tbl' cs) l).
Definition M_of (cs : list call) : nat := S (SP_nonrec.list_max (map (fun x => length (c_front x)) cs)).

Lemma lookup_In es k v : NoDup (map fst es) -> In (k, v) es -> lookup es k = v.
Proof.
  unfold lookup. induction es as [|[k0 v0] es IH]; intros ND H; [destruct H|]. cbn [map fst] in ND.
  inversion ND as [|? ? Hk ND']; subst. cbn [find fst].
  destruct (Nat.eqb_spec k0 k) as [->|Hne].
  - destruct H as [[= <-]|H]; [reflexivity|]. exfalso. apply Hk. change k with (fst (k, v)). now apply in_map.
  - destruct H as [[= -> _]|H]; [contradiction|]. now apply IH.
Qed.
Lemma entries_keys tbl tbl' cs : map fst (entries tbl tbl' cs) = map (key tbl') (all_fronts cs).
Proof.
  unfold entries, all_fronts. induction cs as [|x cs IH]; [reflexivity|]. cbn [flat_map].
  rewrite !map_app, IH. f_equal. rewrite map_map. cbn [fst]. apply (map_combine_seq (key tbl')).
Qed.
Lemma entries_In tbl tbl' cs x q d : In x cs -> nth_error (c_front x) q = Some d ->
  In (key tbl' d, (lab_idx tbl (fr_lhs (c_rule x)), q)) (entries tbl tbl' cs).
Proof.
  intros Hx Hq. unfold entries. apply in_flat_map. exists x. split; trivial.
  apply in_map_iff. exists (q, d). split; [reflexivity|]. exact (in_combine_seq _ 0 q d Hq).
Qed.
Lemma rk_bound tbl tbl' cs l : rk_of tbl tbl' cs l < M_of cs.
Proof.
  unfold rk_of, lookup, M_of. destruct (find _ _) as [e|] eqn:F; [|cbn; lia].
  apply find_some in F. destruct F as [F _]. unfold entries in F. apply in_flat_map in F. destruct F as (x & Hx & F).
  apply in_map_iff in F. destruct F as ([q d] & <- & Hq). cbn [snd fst]. apply in_combine_seq_lt in Hq.
  assert (length (c_front x) <= SP_nonrec.list_max (map (fun x => length (c_front x)) cs)); [|lia].
  apply list_max_ge. now apply (in_map (fun x => length (c_front x))).
Qed.

(** * the factorised grammar refines the original one *)
Section Refines.
Variables (doms : list nat) (g g' : fhrg) (cs : list call).
Hypothesis SP : fz_spec g g' cs.
Hypothesis WFG : wf_fhrg g.

Let tbl := fh_elabels g.
Let tbl' := fh_elabels g'.
Let G := to_sp_grammar doms g.
Let G' := to_sp_grammar doms g'.
Let n0 := length tbl.
Let ts := to_sp_rule tbl.
Let ts' := to_sp_rule tbl'.
Let rk := rk_of tbl tbl' cs.
Let owner := owner_of tbl tbl' cs.

Lemma tbl_ext : exists ex, tbl' = tbl ++ ex.
Proof. apply SP. Qed.

Lemma idx_same l : In l tbl -> lab_idx tbl' l = lab_idx tbl l.
Proof. intro H. destruct tbl_ext as (ex & ->). now apply lab_idx_app. Qed.
Lemma in_tbl' l : In l tbl -> In l tbl'.
Proof. intro H. destruct tbl_ext as (ex & ->). apply in_or_app. now left. Qed.

Lemma term_same l : l < n0 -> is_term G' l = is_term G l.
Proof.
  intro H. unfold G, G'. rewrite !is_term_nth. fold tbl tbl'. destruct tbl_ext as (ex & ->). now rewrite app_nth1.
Qed.

Lemma rule_in x : In x cs -> In (c_rule x) (fh_all_rules g).
Proof. intro H. rewrite <- (fs_rules _ _ _ SP). now apply in_map. Qed.

Lemma call_cf x : In x cs -> exists labels ls, incl tbl labels /\ call_facts (c_rule x) labels (c_front x) (c_last x) ls.
Proof.
  intro Hx. destruct (fs_calls _ _ _ SP x Hx) as (labels & t & ords & ls & IL & WF & V & H).
  exists labels, ls. split; [exact IL|]. destruct (WFG _ (rule_in x Hx)) as (W & _).
  exact (call_facts_model _ _ _ _ _ _ _ W WF V H).
Qed.

Lemma seg_in x d : In x cs -> In d (seg x) -> In d (fh_all_rules g').
Proof.
  intros Hx Hd. eapply Permutation_in; [apply Permutation_sym, (fs_perm _ _ _ SP)|]. apply in_flat_map. eauto.
Qed.
Lemma rule_of_g' d : In d (fh_all_rules g') -> exists x, In x cs /\ (In d (c_front x) \/ d = c_last x).
Proof.
  intro Hd. eapply Permutation_in in Hd; [|apply (fs_perm _ _ _ SP)]. apply in_flat_map in Hd.
  destruct Hd as (x & Hx & Hd). exists x. split; trivial. unfold seg in Hd. apply in_app_or in Hd.
  destruct Hd as [Hd|[<-|[]]]; auto.
Qed.

(** a fresh left-hand side: a nonterminal of the new table, numbered after the old labels *)
Lemma front_key x d : In x cs -> In d (c_front x) ->
  In (fr_lhs d) tbl' /\ n0 <= key tbl' d /\ is_term G' (key tbl' d) = false.
Proof.
  intros Hx Hd. destruct (call_cf x Hx) as (labels & ls & IL & CF).
  assert (Hin : In (fr_lhs d) tbl').
  { apply (fs_lhs_in _ _ _ SP). apply (seg_in x); trivial. apply in_or_app. now left. }
  split; [exact Hin|]. split.
  - unfold key. destruct tbl_ext as (ex & E). rewrite E. apply lab_idx_ge. intro Hl.
    apply (cf_new _ _ _ _ _ CF d Hd). unfold init_labels. rewrite map_app, in_app_iff. right. right.
    apply in_map. now apply IL.
  - unfold G', key. rewrite is_term_idx by exact Hin. now apply (cf_nt _ _ _ _ _ CF).
Qed.
Lemma last_key x : In x cs -> key tbl' (c_last x) = lab_idx tbl (fr_lhs (c_rule x)) /\ key tbl' (c_last x) < n0.
Proof.
  intro Hx. destruct (call_cf x Hx) as (labels & ls & IL & CF). destruct (WFG _ (rule_in x Hx)) as (_ & _ & Hl & _).
  unfold key. rewrite (cf_lhs _ _ _ _ _ CF), (idx_same _ Hl). split; [reflexivity|]. now apply lab_idx_lt.
Qed.

Lemma keys_nodup : NoDup (map (key tbl') (all_fronts cs)).
Proof.
  apply (NoDup_map_from _ lname); [apply SP|]. intros a b Ha Hb E. unfold all_fronts in Ha, Hb.
  apply in_flat_map in Ha, Hb. destruct Ha as (x & Hx & Ha), Hb as (y & Hy & Hb).
  unfold lname. f_equal. apply (lab_idx_inj tbl'); trivial; [apply (front_key x a Hx Ha)|apply (front_key y b Hy Hb)].
Qed.

Lemma lookup_front x q d : In x cs -> nth_error (c_front x) q = Some d ->
  owner (key tbl' d) = lab_idx tbl (fr_lhs (c_rule x)) /\ rk (key tbl' d) = q.
Proof.
  intros Hx Hq. unfold owner, rk, owner_of, rk_of.
  rewrite (lookup_In _ _ _ ltac:(rewrite entries_keys; exact keys_nodup) (entries_In tbl tbl' cs x q d Hx Hq)).
  split; reflexivity.
Qed.

(** the edges of a new rule: original edges of the rule, or uses of earlier fresh rules *)
Lemma edge_cases x q d : In x cs -> nth_error (seg x) q = Some d -> forall e, In e (fr_edges d) ->
  In e (fr_edges (c_rule x))
  \/ exists q' d', q' < q /\ nth_error (c_front x) q' = Some d' /\ fe_lab e = fr_lhs d'.
Proof.
  intros Hx Hq e He. destruct (call_cf x Hx) as (labels & ls & IL & CF).
  destruct (cf_post _ _ _ _ _ CF q d Hq e He) as [O|(q' & d' & L & N & E)]; [now left|]. right.
  exists q', d'. split; [exact L|]. split; [|exact E].
  assert (Lq : q < length (seg x)) by (apply nth_error_Some; congruence).
  unfold seg in Lq. rewrite app_length in Lq. cbn [length] in Lq.
  unfold seg in N. rewrite nth_error_app1 in N by lia. exact N.
Qed.

(** an original edge with a nonterminal label is a dependency in [G] *)
Lemma orig_edge_dep x e : In x cs -> In e (fr_edges (c_rule x)) -> is_term G' (lab_idx tbl' (fe_lab e)) = false ->
  lab_idx tbl' (fe_lab e) < n0 /\ In (lab_idx tbl' (fe_lab e)) (deps G (lab_idx tbl (fr_lhs (c_rule x)))).
Proof.
  intros Hx He T. pose proof (rule_in x Hx) as Hr. destruct (WFG _ Hr) as (_ & _ & _ & _ & He').
  specialize (He' e He). rewrite (idx_same _ He') in *.
  assert (Hlt : lab_idx tbl (fe_lab e) < n0) by now apply lab_idx_lt.
  split; [exact Hlt|]. apply in_deps. exists (ts (c_rule x)).
  exists (lab_idx tbl (fe_lab e), map (pos_of (fr_ids (c_rule x))) (fe_att e)).
  split; [unfold G, to_sp_grammar; cbn [g_rules]; now apply in_map|]. split; [reflexivity|].
  split; [unfold ts, to_sp_rule; cbn [r_edges]; now apply (in_map (fun e => (lab_idx tbl (fe_lab e), map (pos_of (fr_ids (c_rule x))) (fe_att e))))|].
  split; [|reflexivity]. cbn [fst]. now rewrite <- (term_same _ Hlt).
Qed.

Section Step.
Context {R : Type} (o : sr_ops R).
Hypothesis Hr : sr_ring o.
Variables (w x : env (R:=R)).
Hypothesis FE : fresh_eqs o G' n0 w x.
Let e' : env (R:=R) := fun l => if is_term G' l then w l else x l.
Let e0 : env (R:=R) := fun l => if is_term G l then w l else x l.

Lemma sum_rules_G' X (F : rule -> R) :
  sumS o (rules_of G' X) F = sumS o (filter (fun c => r_lhs c =? X) (map ts' (flat_map seg cs))) F.
Proof.
  unfold rules_of. rewrite !(sumS_filter o Hr). apply (sumS_perm o Hr).
  unfold G', to_sp_grammar. cbn [g_rules]. apply Permutation_map. apply SP.
Qed.

(** a fresh nonterminal has exactly one rule in the whole grammar *)
Lemma fresh_one_rule y d (F : rule -> R) : In y cs -> In d (c_front y) ->
  sumS o (rules_of G' (key tbl' d)) F = F (ts' d).
Proof.
  intros Hy Hd. rewrite sum_rules_G', (sumS_filter o Hr).
  assert (P : Permutation (flat_map seg cs) (all_fronts cs ++ map c_last cs)).
  { unfold seg, all_fronts. rewrite <- (flat_map_single c_last). apply flat_map_app_perm. }
  rewrite (sumS_perm o Hr _ _ _ (Permutation_map ts' P)), map_app, (sumS_app o Hr).
  rewrite (sumS_map o ts' (all_fronts cs)), (sumS_map o ts' (map c_last cs)).
  rewrite (sumS_all_zero o Hr (map c_last cs)).
  2:{ intros c Hc. apply in_map_iff in Hc. destruct Hc as (z & <- & Hz).
      change (r_lhs (ts' (c_last z))) with (key tbl' (c_last z)).
      destruct (Nat.eqb_spec (key tbl' (c_last z)) (key tbl' d)) as [E|]; [|reflexivity].
      pose proof (proj2 (last_key z Hz)). pose proof (proj1 (proj2 (front_key y d Hy Hd))). lia. }
  change (fun c => if r_lhs (ts' c) =? key tbl' d then F (ts' c) else zero o)
    with (fun c => if key tbl' c =? key tbl' d then F (ts' c) else zero o).
  rewrite (sumS_single_key o Hr (key tbl') (fun c => F (ts' c)) _ d keys_nodup).
  - apply (r_add_0_r o Hr).
  - unfold all_fronts. apply in_flat_map. eauto.
Qed.

Lemma orig_rule_same r xi : In r (fh_all_rules g) -> rule_val o G' e' (ts' r) xi = rule_val o G e0 (ts r) xi.
Proof.
  intro Hin. destruct (WFG _ Hin) as (_ & _ & Hl & _ & He).
  assert (E : ts' r = ts r).
  { unfold ts', ts. destruct tbl_ext as (ex & ->). now apply to_sp_rule_ext. }
  rewrite E, (rule_val_doms o G' G) by reflexivity. apply (rule_val_ext o). intros ed a Hed _.
  unfold ts, to_sp_rule in Hed. cbn [r_edges] in Hed. apply in_map_iff in Hed. destruct Hed as (e & <- & Hed). cbn [fst snd].
  unfold e', e0. rewrite term_same; [reflexivity|]. apply lab_idx_lt. now apply He.
Qed.

Theorem step_same X xi : X < n0 -> is_term G X = false -> step o G' w x X xi = step o G w x X xi.
Proof.
  intros HX TX. unfold step. rewrite (term_same X HX), TX. fold e' e0.
  rewrite sum_rules_G', map_flat_map.
  unfold rules_of, G at 1, to_sp_grammar. cbn [g_rules]. rewrite <- (fs_rules _ _ _ SP), map_map.
  apply (sum_segments o Hr). intros y Hy.
  destruct (call_cf y Hy) as (labels & ls & IL & CF). pose proof (rule_in y Hy) as Hin.
  destruct (WFG _ Hin) as (W & Hids & Hl & _ & He).
  unfold seg. rewrite map_app, filter_app, (sumS_app o Hr).
  assert (Z : filter (fun c => r_lhs c =? X) (map ts' (c_front y)) = []).
  { apply filter_none. intros c Hc. apply in_map_iff in Hc. destruct Hc as (d & <- & Hd).
    change (r_lhs (ts' d)) with (key tbl' d). pose proof (proj1 (proj2 (front_key y d Hy Hd))).
    destruct (Nat.eqb_spec (key tbl' d) X); [lia|reflexivity]. }
  rewrite Z, sumS_nil, (SRadd_0_l (sr_is_srt o Hr)). cbn [map filter].
  assert (EL : r_lhs (ts' (c_last y)) = r_lhs (to_sp_rule (fh_elabels g) (c_rule y))) by exact (proj1 (last_key y Hy)).
  rewrite EL. destruct (r_lhs (to_sp_rule (fh_elabels g) (c_rule y)) =? X); [|reflexivity]. rewrite !(sumS_single o Hr).
  etransitivity; [|exact (orig_rule_same _ xi Hin)].
  destruct (fs_calls _ _ _ SP y Hy) as (labels' & t & ords & ls' & _ & WF & V & H).
  apply (sum_product_rule_all o Hr (c_rule y) t ords labels' (c_front y) (c_last y) ls' G' (lab_idx tbl') e' W Hids WF V H).
  - intros c Hc zeta. destruct (front_key y c Hy Hc) as (_ & Hge & Tc).
    change (lab_idx tbl' (fr_lhs c)) with (key tbl' c). unfold e' at 1. rewrite Tc.
    rewrite (FE _ Hge Tc zeta). unfold step. rewrite Tc. fold e'.
    exact (fresh_one_rule y c (fun c0 => rule_val o G' e' c0 zeta) Hy Hc).
Qed.
End Step.

Theorem factorize_refines : refines G G' n0 (M_of cs) rk owner.
Proof.
  constructor.
  - apply term_same.
  - intros l Hl. now apply is_term_overflow.
  - intros R o Hr w x FE X xi HX TX. now apply step_same.
  - intro l. apply rk_bound.
  - (* rules of an original nonterminal *)
    intros c Hc Hl Tl ed Hed Ted. unfold G', to_sp_grammar in Hc. cbn [g_rules] in Hc.
    apply in_map_iff in Hc. destruct Hc as (d & <- & Hd). change (r_lhs (to_sp_rule (fh_elabels g') d)) with (key tbl' d) in *.
    destruct (rule_of_g' d Hd) as (y & Hy & [Hf| ->]).
    { pose proof (proj1 (proj2 (front_key y d Hy Hf))). lia. }
    cbn [r_edges to_sp_rule] in Hed. apply in_map_iff in Hed. destruct Hed as (e & <- & He). cbn [fst] in *.
    rewrite (proj1 (last_key y Hy)).
    assert (Hq : nth_error (seg y) (length (c_front y)) = Some (c_last y)).
    { unfold seg. rewrite nth_error_app2, Nat.sub_diag by lia. reflexivity. }
    destruct (edge_cases y _ _ Hy Hq e He) as [O|(q' & d' & L & N & E)].
    + left. now apply orig_edge_dep.
    + right. rewrite E. change (lab_idx (fh_elabels g') (fr_lhs d')) with (key tbl' d').
      split; [apply (front_key y d' Hy (nth_error_In _ _ N))|]. apply (lookup_front y q' d' Hy N).
  - (* rules of a fresh nonterminal *)
    intros c Hc Hl Tl. unfold G', to_sp_grammar in Hc. cbn [g_rules] in Hc.
    apply in_map_iff in Hc. destruct Hc as (d & <- & Hd). change (r_lhs (to_sp_rule (fh_elabels g') d)) with (key tbl' d) in *.
    destruct (rule_of_g' d Hd) as (y & Hy & [Hf| ->]).
    2:{ pose proof (proj2 (last_key y Hy)). lia. }
    apply In_nth_error in Hf. destruct Hf as (q & Hq).
    destruct (lookup_front y q d Hy Hq) as [Eo Er]. rewrite Eo.
    pose proof (rule_in y Hy) as Hin. destruct (WFG _ Hin) as (_ & _ & Hlt & Hnt & _).
    split; [now apply lab_idx_lt|]. split; [unfold G; now rewrite is_term_idx|].
    intros ed Hed Ted. cbn [r_edges to_sp_rule] in Hed. apply in_map_iff in Hed. destruct Hed as (e & <- & He). cbn [fst] in *.
    assert (Hq' : nth_error (seg y) q = Some d).
    { unfold seg. rewrite nth_error_app1; [exact Hq|]. apply nth_error_Some. congruence. }
    destruct (edge_cases y _ _ Hy Hq' e He) as [O|(q' & d' & L & N & E)].
    + left. now apply orig_edge_dep.
    + right. rewrite E. change (lab_idx (fh_elabels g') (fr_lhs d')) with (key tbl' d').
      split; [apply (front_key y d' Hy (nth_error_In _ _ N))|].
      destruct (lookup_front y q' d' Hy N) as [Eo' Er']. rewrite Eo', Er', Er. split; [reflexivity|exact L].
Qed.

End Refines.
