(** C18 heap model: the frame property of every operation.
    [frame_rel M V st st']: going from [st] to [st'] only objects in [M] were mutated, only the
    storages of PatternedTensors in [M] were written, an old object's storage is the one it had
    or a new one, and a new object's storage is new or that of an object in [V]. *)
From Coq Require Import List Arith Bool PeanoNat ZArith Lia.
Import ListNotations.
Require Import Fggs.Model.Heap.

(** ** lists *)
Lemma set_nth_length A n (l : list A) x : length (set_nth n l x) = length l.
Proof. revert n. induction l as [|h t IH]; intros [|n]; cbn; auto. Qed.

Lemma nth_error_set_nth_eq A n (l : list A) x : n < length l -> nth_error (set_nth n l x) n = Some x.
Proof.
  revert n. induction l as [|h t IH]; intros [|n] H; cbn in *; try lia; auto.
  apply IH. lia.
Qed.

Lemma nth_error_set_nth_neq A n m (l : list A) x : n <> m -> nth_error (set_nth n l x) m = nth_error l m.
Proof.
  revert n m. induction l as [|h t IH]; intros [|n] [|m] H; cbn; auto; try congruence.
Qed.

Lemma set_nth_oob A n (l : list A) x : length l <= n -> set_nth n l x = l.
Proof.
  revert n. induction l as [|h t IH]; intros [|n] H; cbn in *; auto; try lia.
  f_equal. apply IH. lia.
Qed.

Lemma nth_error_app_old A (l l' : list A) n : n < length l -> nth_error (l ++ l') n = nth_error l n.
Proof. intros. apply nth_error_app1. exact H. Qed.

Lemma memb_In x l : memb x l = true <-> In x l.
Proof.
  unfold memb. rewrite existsb_exists. split.
  - intros [y [Hy He]]. apply Nat.eqb_eq in He. subst. exact Hy.
  - intros H. exists x. split; [exact H | apply Nat.eqb_refl].
Qed.

Lemma lookup_In k d e : lookup k d = Some e -> In e (map snd d).
Proof.
  induction d as [|[k' r] t IH]; cbn; [discriminate|].
  destruct (k' =? k); intros H; [inversion H; auto | right; auto].
Qed.

(** ** the relation *)
Record frame_rel (M V : list nat) (st st' : state) : Prop := {
  fr_store_len : length (st_store st) <= length (st_store st');
  fr_objs_len : length (st_objs st) <= length (st_objs st');
  fr_store : forall sid, sid < length (st_store st) ->
             (forall r p, In r M -> get_obj st r = Some (OPT p) -> pt_sid p <> sid) ->
             nth_error (st_store st') sid = nth_error (st_store st) sid;
  fr_objs : forall r, r < length (st_objs st) -> ~ In r M -> get_obj st' r = get_obj st r;
  fr_old : forall r p', r < length (st_objs st) -> get_obj st' r = Some (OPT p') ->
           exists p, get_obj st r = Some (OPT p) /\ (pt_sid p' = pt_sid p \/ length (st_store st) <= pt_sid p');
  fr_new : forall r p', length (st_objs st) <= r -> get_obj st' r = Some (OPT p') ->
           length (st_store st) <= pt_sid p' \/
           exists a p, In a V /\ get_obj st a = Some (OPT p) /\ pt_sid p = pt_sid p'
}.

Lemma get_obj_oob st r : length (st_objs st) <= r -> get_obj st r = None.
Proof. intros. apply nth_error_None. exact H. Qed.

Lemma get_obj_lt st r o : get_obj st r = Some o -> r < length (st_objs st).
Proof. intros H. apply nth_error_Some. unfold get_obj in H. congruence. Qed.

Lemma frame_refl M V st : frame_rel M V st st.
Proof.
  constructor; auto.
  - intros r p' Hr H. exists p'. auto.
  - intros r p' Hr H. rewrite get_obj_oob in H by exact Hr. discriminate.
Qed.

Lemma frame_weaken M V M' V' st st' :
  frame_rel M V st st' -> incl M M' -> incl V V' -> frame_rel M' V' st st'.
Proof.
  intros [a b c d e f] HM HV. constructor; auto.
  - intros sid Hs H. apply c; [exact Hs|]. intros r p Hr. apply H. apply HM. exact Hr.
  - intros r p' Hr H. destruct (f r p' Hr H) as [?|[a0 [p [Ha Hp]]]]; auto.
    right. exists a0, p. split; [apply HV; exact Ha | exact Hp].
Qed.

(** sequential composition (no view sources) *)
Lemma frame_trans M M1 st st1 st2 :
  frame_rel M [] st st1 -> frame_rel M1 [] st1 st2 ->
  (forall r, In r M1 -> r < length (st_objs st) -> In r M) ->
  frame_rel M [] st st2.
Proof.
  intros [a b c d e f] [a1 b1 c1 d1 e1 f1] HM. constructor; try lia.
  - intros sid Hs H. rewrite c1; [apply c; auto | lia |].
    intros r p1 Hr Hg Heq.
    destruct (Nat.lt_ge_cases r (length (st_objs st))) as [Hlt|Hge].
    + destruct (e r p1 Hlt Hg) as [p [Hp [Hs1|Hs1]]]; [|lia].
      apply (H r p (HM r Hr Hlt) Hp). congruence.
    + destruct (f r p1 Hge Hg) as [Hs1|[a0 [p [[] _]]]]. lia.
  - intros r Hr Hn. rewrite d1; [apply d; auto | lia |].
    intros Hin. apply Hn. apply HM; auto.
  - intros r p2 Hr Hg. destruct (e1 r p2 ltac:(lia) Hg) as [p1 [Hp1 Hs1]].
    destruct (e r p1 Hr Hp1) as [p [Hp Hs]]. exists p. split; [exact Hp|].
    destruct Hs1 as [Hs1|Hs1]; [|right; lia]. rewrite Hs1. exact Hs.
  - intros r p2 Hr Hg. left.
    destruct (Nat.lt_ge_cases r (length (st_objs st1))) as [Hlt|Hge].
    + destruct (e1 r p2 Hlt Hg) as [p1 [Hp1 Hs1]].
      destruct (f r p1 Hr Hp1) as [Hs|[a0 [p [[] _]]]].
      destruct Hs1 as [Hs1|Hs1]; lia.
    + destruct (f1 r p2 Hge Hg) as [Hs|[a0 [p [[] _]]]]. lia.
Qed.

(** append-only transitions *)
Lemma frame_app V st st' nw ex :
  st_objs st' = st_objs st ++ nw -> st_store st' = st_store st ++ ex ->
  (forall p', In (OPT p') nw -> length (st_store st) <= pt_sid p' \/
              exists a p, In a V /\ get_obj st a = Some (OPT p) /\ pt_sid p = pt_sid p') ->
  frame_rel [] V st st'.
Proof.
  intros Ho Hs Hn. constructor.
  - rewrite Hs, app_length. lia.
  - rewrite Ho, app_length. lia.
  - intros sid Hl _. rewrite Hs. apply nth_error_app1. exact Hl.
  - intros r Hr _. unfold get_obj. rewrite Ho. apply nth_error_app1. exact Hr.
  - intros r p' Hr Hg. unfold get_obj in Hg. rewrite Ho, nth_error_app1 in Hg by exact Hr.
    exists p'. auto.
  - intros r p' Hr Hg. unfold get_obj in Hg. rewrite Ho, nth_error_app2 in Hg by exact Hr.
    apply Hn. eapply nth_error_In. exact Hg.
Qed.

Lemma frame_mk_fresh st vals cs lay dflt dt : frame_rel [] [] st (fst (mk_fresh st vals cs lay dflt dt)).
Proof.
  unfold mk_fresh, alloc, new_obj. cbn.
  eapply frame_app; cbn; [reflexivity | reflexivity |].
  intros p' [H|[]]. inversion H. cbn. left. lia.
Qed.

Lemma mk_fresh_ref st vals cs lay dflt dt : snd (mk_fresh st vals cs lay dflt dt) = length (st_objs st).
Proof. reflexivity. Qed.

Lemma get_obj_set_eq st r o : r < length (st_objs st) -> get_obj (set_obj st r o) r = Some o.
Proof. intros. unfold get_obj, set_obj. cbn. apply nth_error_set_nth_eq. exact H. Qed.

Lemma get_obj_set_neq st r r' o : r <> r' -> get_obj (set_obj st r o) r' = get_obj st r'.
Proof. intros. unfold get_obj, set_obj. cbn. apply nth_error_set_nth_neq. exact H. Qed.

Lemma frame_write st r p cells vals :
  get_obj st r = Some (OPT p) -> frame_rel [r] [] st (write st (pt_sid p) cells vals).
Proof.
  intros Hg. unfold write. destruct (nth_error (st_store st) (pt_sid p)) as [s|] eqn:E; [|apply frame_refl].
  constructor; cbn; try rewrite set_nth_length; auto.
  - intros sid Hl H. apply nth_error_set_nth_neq. apply (H r p); cbn; auto.
  - intros r0 p' Hr H. exists p'. auto.
  - intros r0 p' Hr H. unfold get_obj in H. cbn in H. apply nth_error_None in Hr. congruence.
Qed.

Lemma frame_set_pt st r p p' :
  get_obj st r = Some (OPT p) -> pt_sid p' = pt_sid p -> frame_rel [r] [] st (set_obj st r (OPT p')).
Proof.
  intros Hg Hs. pose proof (get_obj_lt _ _ _ Hg) as Hlt.
  constructor; cbn; try rewrite set_nth_length; auto.
  - intros r0 Hr Hn. apply get_obj_set_neq. intros ->. apply Hn. cbn. auto.
  - intros r0 p0 Hr H. destruct (Nat.eq_dec r r0) as [<-|Hne].
    + rewrite get_obj_set_eq in H by exact Hlt. inversion H. subst. exists p. auto.
    + rewrite get_obj_set_neq in H by exact Hne. exists p0. auto.
  - intros r0 p0 Hr H. unfold get_obj, set_obj in H. cbn in H.
    assert (nth_error (set_nth r (st_objs st) (OPT p')) r0 = None).
    { apply nth_error_None. rewrite set_nth_length. exact Hr. }
    congruence.
Qed.

Lemma frame_rebind st r p p' vals :
  get_obj st r = Some (OPT p) -> pt_sid p' = length (st_store st) ->
  frame_rel [r] [] st (set_obj (fst (alloc st vals)) r (OPT p')).
Proof.
  intros Hg Hs. pose proof (get_obj_lt _ _ _ Hg) as Hlt.
  constructor; cbn; try rewrite set_nth_length; try rewrite app_length; cbn; try lia.
  - intros sid Hl _. apply nth_error_app1. exact Hl.
  - intros r0 Hr Hn. unfold get_obj. cbn. apply nth_error_set_nth_neq. intros ->. apply Hn. cbn. auto.
  - intros r0 p0 Hr H. unfold get_obj in *. cbn in H. destruct (Nat.eq_dec r r0) as [<-|Hne].
    + rewrite nth_error_set_nth_eq in H by exact Hlt. inversion H. subst. exists p. split; auto. right. lia.
    + rewrite nth_error_set_nth_neq in H by exact Hne. exists p0. auto.
  - intros r0 p0 Hr H. unfold get_obj in H. cbn in H.
    assert (nth_error (set_nth r (st_objs st) (OPT p')) r0 = None).
    { apply nth_error_None. rewrite set_nth_length. exact Hr. }
    congruence.
Qed.

Lemma frame_set_mt st m d d' :
  get_obj st m = Some (OMT d) -> frame_rel [m] [] st (set_obj st m (OMT d')).
Proof.
  intros Hg. pose proof (get_obj_lt _ _ _ Hg) as Hlt.
  constructor; cbn; try rewrite set_nth_length; auto.
  - intros r0 Hr Hn. apply get_obj_set_neq. intros ->. apply Hn. cbn. auto.
  - intros r0 p0 Hr H. destruct (Nat.eq_dec m r0) as [<-|Hne].
    + rewrite get_obj_set_eq in H by exact Hlt. discriminate.
    + rewrite get_obj_set_neq in H by exact Hne. exists p0. auto.
  - intros r0 p0 Hr H. unfold get_obj, set_obj in H. cbn in H.
    assert (nth_error (set_nth m (st_objs st) (OMT d')) r0 = None).
    { apply nth_error_None. rewrite set_nth_length. exact Hr. }
    congruence.
Qed.

Lemma get_pt_obj st r p : get_pt st r = Some p -> get_obj st r = Some (OPT p).
Proof. unfold get_pt. destruct (get_obj st r) as [[q|d]|]; intros H; inversion H; reflexivity. Qed.
Lemma get_mt_obj st r d : get_mt st r = Some d -> get_obj st r = Some (OMT d).
Proof. unfold get_mt. destruct (get_obj st r) as [[q|d0]|]; intros H; inversion H; reflexivity. Qed.

(** a new PatternedTensor, then a dictionary update of [m] *)
Lemma frame_fresh_set_mt st m d d' vals cs lay dflt dt :
  get_mt st m = Some d ->
  frame_rel [m] [] st (set_obj (fst (mk_fresh st vals cs lay dflt dt)) m (OMT d')).
Proof.
  intros Hg. apply get_mt_obj in Hg. pose proof (get_obj_lt _ _ _ Hg) as Hlt.
  eapply frame_trans with (M1 := [m]).
  - eapply frame_weaken; [apply (frame_mk_fresh st vals cs lay dflt dt) | | apply incl_refl]. intros x [].
  - eapply frame_set_mt with (d := d).
    rewrite (fr_objs _ _ _ _ (frame_mk_fresh st vals cs lay dflt dt)); auto.
  - auto.
Qed.

(** ** single operations *)
Lemma copy_into_frame st dst src st' o :
  copy_into st dst src = (st', o) -> frame_rel [dst] [] st st'.
Proof.
  unfold copy_into. destruct (get_pt st dst) as [p|] eqn:Ep; [|intros H; inversion H; apply frame_refl].
  destruct (get_pt st src) as [q|] eqn:Eq; [|intros H; inversion H; apply frame_refl].
  apply get_pt_obj in Ep.
  destruct (_ && _ && _).
  - destruct (_ && _); intros H; inversion H; subst; [apply frame_refl|].
    set (st1 := write st (pt_sid p) _ _).
    assert (F1 : frame_rel [dst] [] st st1) by (apply frame_write; exact Ep).
    assert (Hg1 : get_obj st1 dst = Some (OPT p)).
    { unfold st1, write. destruct (nth_error (st_store st) (pt_sid p)); exact Ep. }
    eapply frame_trans with (M1 := [dst]); [exact F1 | apply (frame_set_pt _ _ _ _ Hg1); reflexivity | auto].
  - intros H. inversion H; subst.
    apply (frame_rebind st dst p _ (place (phys st q) (clone_cells (pt_cells q))) Ep). reflexivity.
Qed.

Lemma map_inplace_frame st f x st' o :
  map_inplace st f x = (st', o) -> frame_rel [x] [] st st'.
Proof.
  unfold map_inplace. destruct (get_pt st x) as [p|] eqn:Ep; [|intros H; inversion H; apply frame_refl].
  apply get_pt_obj in Ep.
  set (p1 := mkpt _ _ _ _ _).
  assert (F1 : frame_rel [x] [] st (set_obj st x (OPT p1))) by (apply (frame_set_pt _ _ _ _ Ep); reflexivity).
  destruct (nodupb (pt_cells p)); intros H; inversion H; subst; [|exact F1].
  eapply frame_trans with (M1 := [x]); [exact F1 | | auto].
  assert (Hg1 : get_obj (set_obj st x (OPT p1)) x = Some (OPT p1)).
  { apply get_obj_set_eq. eapply get_obj_lt. exact Ep. }
  apply (frame_write _ _ p1 _ _ Hg1).
Qed.

Lemma bin_fresh_eq st b p q prm : exists vals cs lay dflt dt, bin_fresh st b p q prm = mk_fresh st vals cs lay dflt dt.
Proof. unfold bin_fresh, bin_vals. do 5 eexists. reflexivity. Qed.

Lemma single_frame (body : state -> nat -> nat -> nat -> layout * list nat -> state * out) :
  (body = add_single \/ body = isub_single \/ body = max_single) ->
  forall st m k x prm st' o, body st m k x prm = (st', o) -> frame_rel [m] [] st st'.
Proof.
  intros Hb st m k x prm st' o.
  assert (R : forall (s : state) o', (s, o') = (st', o) -> s = st -> frame_rel [m] [] st st').
  { intros s o' H1 H2. inversion H1. subst. apply frame_refl. }
  destruct Hb as [->|[->| ->]]; unfold add_single, isub_single, max_single;
    (destruct (get_mt st m) as [d|] eqn:Ed; [|intros H; eapply R; eauto]);
    (destruct (get_pt st x) as [q|] eqn:Eq; [|intros H; eapply R; eauto]);
    (destruct (lookup k d) as [e|] eqn:El).
  all: try (destruct (get_pt st e) as [p|] eqn:Ee; [|intros H; eapply R; eauto];
            destruct (bin_fresh_eq st 0 p q prm) as [v0 [c0 [l0 [d0 [t0 E0]]]]];
            destruct (bin_fresh_eq st 1 p q prm) as [v1 [c1 [l1 [d1 [t1 E1]]]]];
            destruct (bin_fresh_eq st 3 p q prm) as [v3 [c3 [l3 [d3 [t3 E3]]]]];
            try rewrite E0; try rewrite E1; try rewrite E3;
            match goal with |- context [mk_fresh ?s ?v ?c ?l ?dd ?t] =>
              destruct (mk_fresh s v c l dd t) as [st1 r] eqn:Em;
              intros H; inversion H; subst;
              change st1 with (fst (st1, r)); rewrite <- Em; eapply frame_fresh_set_mt; eauto end).
  - intros H. inversion H. subst. eapply frame_set_mt. apply get_mt_obj. exact Ed.
  - unfold bin_vals.
    match goal with |- context [mk_fresh ?s ?v ?c ?l ?dd ?t] =>
      destruct (mk_fresh s v c l dd t) as [st1 r] eqn:Em;
      intros H; inversion H; subst;
      change st1 with (fst (st1, r)); rewrite <- Em; eapply frame_fresh_set_mt; eauto end.
  - intros H. inversion H. subst. eapply frame_set_mt. apply get_mt_obj. exact Ed.
Qed.

(** loops *)
Lemma loop_frame A (body : state -> A -> state * out) M (I : state -> Prop) st0 :
  (forall st a st' o, I st -> frame_rel M [] st0 st -> body st a = (st', o) ->
     I st' /\ exists M1, frame_rel M1 [] st st' /\ (forall r, In r M1 -> r < length (st_objs st0) -> In r M)) ->
  forall l st st' o, I st -> frame_rel M [] st0 st -> loop body st l = (st', o) ->
     I st' /\ frame_rel M [] st0 st'.
Proof.
  intros Hbody l. induction l as [|a t IH]; intros st st' o HI HF H; cbn in H.
  - inversion H. subst. auto.
  - destruct (body st a) as [st1 o1] eqn:Eb.
    destruct (Hbody _ _ _ _ HI HF Eb) as [HI1 [M1 [HF1 HM1]]].
    assert (HF01 : frame_rel M [] st0 st1) by (eapply frame_trans; eauto).
    destruct o1; try (inversion H; subst; auto; fail).
    eapply IH; eauto.
Qed.

Lemma loop_single_frame (body : state -> nat -> nat -> nat -> layout * list nat -> state * out) :
  (body = add_single \/ body = isub_single \/ body = max_single) ->
  forall m prms l st st' o,
  loop (fun st kr => body st m (fst kr) (snd kr) (prm_of prms (fst kr))) st l = (st', o) ->
  frame_rel [m] [] st st'.
Proof.
  intros Hb m prms l st st' o H.
  eapply (loop_frame _ _ [m] (fun _ => True) st) in H; [apply H | | exact I | apply frame_refl].
  intros s a s' o' _ _ Hs. split; [exact I|]. exists [m]. split; [|auto].
  eapply single_frame; eauto.
Qed.

Lemma ddel_In d k e : In e (map snd (ddel d k)) -> In e (map snd d).
Proof.
  induction d as [|[k' r] t IH]; cbn; [auto|].
  destruct (k' =? k); cbn; [auto|]. intros [H|H]; auto.
Qed.

(** also: an element of the destination dictionary afterwards is an element it had before, or a new object *)
Lemma mcopy_frame_elems st m n st' o :
  mcopy st m n = (st', o) ->
  frame_rel (m :: mt_elems st m) [] st st' /\
  (get_mt st m <> None -> exists d', get_mt st' m = Some d' /\
     forall e, In e (map snd d') ->
               In e (mt_elems st m) \/ (length (st_objs st) <= e /\ e < length (st_objs st'))).
Proof.
  unfold mcopy. destruct (get_mt st m) as [d|] eqn:Ed; [|intros H; inversion H; split; [apply frame_refl | congruence]].
  assert (Hm : m < length (st_objs st)) by (apply get_mt_obj in Ed; eapply get_obj_lt; exact Ed).
  assert (Keep0 : exists d', get_mt st m = Some d' /\
     forall e, In e (map snd d') ->
               In e (mt_elems st m) \/ (length (st_objs st) <= e /\ e < length (st_objs st))).
  { exists d. split; [exact Ed|]. intros e He. left. unfold mt_elems. rewrite Ed. exact He. }
  destruct (get_mt st n) as [dn|] eqn:Edn; [|intros H; inversion H; subst; split; [apply frame_refl | intros _; exact Keep0]].
  destruct (find _ d) as [kr|].
  { intros H. inversion H. subst. split.
    - eapply frame_weaken; [eapply frame_set_mt; apply get_mt_obj; exact Ed | | apply incl_refl].
      intros x [<-|[]]. cbn. auto.
    - intros _. exists (ddel d (fst kr)). split.
      + unfold get_mt. rewrite get_obj_set_eq by exact Hm. reflexivity.
      + intros e He. left. unfold mt_elems. rewrite Ed. eapply ddel_In. exact He. }
  intros H.
  set (M := m :: mt_elems st m).
  set (Inv := fun s : state => exists d1, get_mt s m = Some d1 /\
                 forall e, In e (map snd d1) ->
                           In e (mt_elems st m) \/ (length (st_objs st) <= e /\ e < length (st_objs s))).
  eapply (loop_frame _ _ M Inv st) in H; [destruct H as [HI HF]; split; [exact HF | intros _; exact HI] | | exact Keep0 | apply frame_refl].
  intros s k s' o' [d1 [Hd1 Hel]] HF Hb. unfold mcopy_body in Hb. rewrite Hd1 in Hb.
  assert (Keep : Inv s) by (exists d1; auto).
  destruct (get_mt s n) as [dn1|]; [|inversion Hb; subst; split; [auto|exists []; split; [apply frame_refl|intros r []]]].
  destruct (lookup k dn1) as [sr|]; [|inversion Hb; subst; split; [auto|exists []; split; [apply frame_refl|intros r []]]].
  destruct (lookup k d1) as [e|] eqn:El.
  - pose proof (copy_into_frame _ _ _ _ _ Hb) as HFc. split.
    + (* m is a MultiTensor, e a PatternedTensor or the call changed nothing *)
      exists d1. split; [|intros e0 He0; destruct (Hel e0 He0) as [?|[? ?]]; [left; assumption|right; pose proof (fr_objs_len _ _ _ _ HFc); lia]].
      unfold copy_into in Hb. destruct (get_pt s e) as [p|] eqn:Ep; [|inversion Hb; subst; exact Hd1].
      assert (Hne : e <> m).
      { intros ->. unfold get_pt, get_mt in *. destruct (get_obj s m) as [[?|?]|]; discriminate. }
      unfold get_mt. rewrite (fr_objs _ _ _ _ HFc); [exact Hd1 | | intros [Hx|[]]; congruence].
      apply get_mt_obj in Hd1. eapply get_obj_lt. exact Hd1.
    + exists [e]. split; [exact HFc|]. intros r [<-|[]] Hr. right.
      destruct (Hel e (lookup_In _ _ _ El)) as [?|[? ?]]; [assumption|lia].
  - destruct (get_pt s sr) as [q|]; [|inversion Hb; subst; split; [auto|exists []; split; [apply frame_refl|intros r []]]].
    unfold clone_pt in Hb.
    destruct (mk_fresh s (phys s q) (clone_cells (pt_cells q)) (pt_lay q) (pt_dflt q) (pt_dt q)) as [s1 r] eqn:Em.
    inversion Hb. subst s' o'. clear Hb.
    assert (Hr : r = length (st_objs s)) by (rewrite <- (mk_fresh_ref s (phys s q) (clone_cells (pt_cells q)) (pt_lay q) (pt_dflt q) (pt_dt q)), Em; reflexivity).
    assert (HF1 : frame_rel [m] [] s (set_obj s1 m (OMT (d1 ++ [(k, r)])))).
    { change s1 with (fst (s1, r)). rewrite <- Em. eapply frame_fresh_set_mt. exact Hd1. }
    split.
    + exists (d1 ++ [(k, r)]). split.
      * unfold get_mt. rewrite get_obj_set_eq; [reflexivity|].
        pose proof (fr_objs_len _ _ _ _ (frame_mk_fresh s (phys s q) (clone_cells (pt_cells q)) (pt_lay q) (pt_dflt q) (pt_dt q))) as Hl.
        rewrite Em in Hl. cbn in Hl. apply get_mt_obj in Hd1. apply get_obj_lt in Hd1. lia.
      * pose proof (fr_objs_len _ _ _ _ HF) as Hl0.
        assert (Hl2 : length (st_objs (set_obj s1 m (OMT (d1 ++ [(k, r)])))) = S (length (st_objs s))).
        { cbn. rewrite set_nth_length. pose proof (f_equal fst Em) as Hs1. cbn [fst] in Hs1. rewrite <- Hs1.
          unfold mk_fresh, alloc, new_obj. cbn. rewrite app_length. cbn. lia. }
        intros e He. rewrite map_app in He. apply in_app_or in He. destruct He as [He|[He|[]]].
        -- destruct (Hel e He) as [?|[? ?]]; [left; assumption|right; lia].
        -- cbn in He. subst e. right. lia.
    + exists [m]. split; [exact HF1|]. intros r0 [<-|[]] _. left. reflexivity.
Qed.

Lemma mcopy_frame st m n st' o : mcopy st m n = (st', o) -> frame_rel (m :: mt_elems st m) [] st st'.
Proof. intros H. apply (mcopy_frame_elems _ _ _ _ _ H). Qed.

(** the clone is a new MultiTensor all of whose elements are new objects *)
Lemma mclone_frame_elems st m st' o :
  mclone st m = (st', o) ->
  frame_rel [] [] st st' /\
  (get_mt st m <> None -> exists d', get_mt st' (length (st_objs st)) = Some d' /\
     forall e, In e (map snd d') -> length (st_objs st) < e /\ e < length (st_objs st')).
Proof.
  unfold mclone. destruct (get_mt st m) as [dm|]; [|intros H; inversion H; split; [apply frame_refl | congruence]].
  unfold new_obj. set (st1 := mkst _ _).
  destruct (mcopy st1 (length (st_objs st)) m) as [st2 o2] eqn:Ec. intros H.
  assert (Hst : st2 = st') by (destruct o2; inversion H; reflexivity). subst st2.
  apply mcopy_frame_elems in Ec. destruct Ec as [Ec Hel].
  assert (F1 : frame_rel [] [] st st1).
  { eapply frame_app with (nw := [OMT []]) (ex := []); cbn; [reflexivity | rewrite app_nil_r; reflexivity |].
    intros p' [Hp|[]]. discriminate. }
  assert (Hg : get_mt st1 (length (st_objs st)) = Some []).
  { unfold get_mt, get_obj, st1. cbn. rewrite nth_error_app2, Nat.sub_diag by lia. reflexivity. }
  assert (Hm : mt_elems st1 (length (st_objs st)) = []) by (unfold mt_elems; rewrite Hg; reflexivity).
  split.
  - eapply frame_trans; [exact F1 | exact Ec |].
    intros r Hr Hlt. exfalso. rewrite Hm in Hr. destruct Hr as [<-|[]]. lia.
  - intros _. destruct Hel as [d' [Hd' He]]; [congruence|]. exists d'. split; [exact Hd'|].
    intros e Hin. rewrite Hm in He. destruct (He e Hin) as [[]|[H1 H2]].
    unfold st1 in H1. cbn in H1. rewrite app_length in H1. cbn in H1. lia.
Qed.

Lemma mclone_frame st m st' o : mclone st m = (st', o) -> frame_rel [] [] st st'.
Proof. intros H. apply (mclone_frame_elems _ _ _ _ H). Qed.

Lemma add_views_frame st x p items st' o :
  get_obj st x = Some (OPT p) ->
  add_views st (pt_sid p) (pt_cells p) (pt_dflt p) (pt_dt p) items = (st', o) -> frame_rel [] [x] st st'.
Proof.
  intros Hg H. unfold add_views in H. inversion H. subst.
  eapply frame_app with (ex := []); cbn; [reflexivity | rewrite app_nil_r; reflexivity |].
  intros p' Hin. apply in_map_iff in Hin. destruct Hin as [it [Hit _]]. inversion Hit. cbn.
  right. exists x, p. cbn. auto.
Qed.

Ltac fr_err := let H := fresh in intros H; inversion H; subst; apply frame_refl.

(** ** every operation *)
Theorem step_frame st o st' out0 :
  step st o = (st', out0) -> frame_rel (mutates st o) (vsrcs o) st st'.
Proof.
  destruct o; cbn [step mutates vsrcs].
  - (* ONew *) unfold ret1. intros H. inversion H. apply frame_mk_fresh.
  - (* OClone *) destruct (get_pt st x); [|fr_err]. unfold ret1, clone_pt. intros H. inversion H. apply frame_mk_fresh.
  - (* OMap *) apply map_inplace_frame.
  - (* OCopy *) apply copy_into_frame.
  - (* OView *) destruct (get_pt st x) as [p|] eqn:Ep; [|fr_err]. apply get_pt_obj in Ep.
    unfold ret1, new_obj. cbn. intros H. inversion H.
    eapply frame_app with (ex := []); cbn; [reflexivity | rewrite app_nil_r; reflexivity |].
    intros p' [Hp|[]]. inversion Hp. cbn. right. exists x, p. cbn. auto.
  - (* OExpand *) destruct (get_pt st x) as [p|] eqn:Ep; [|fr_err]. apply get_pt_obj in Ep.
    unfold ret1, new_obj. cbn. intros H. inversion H.
    eapply frame_app with (ex := []); cbn; [reflexivity | rewrite app_nil_r; reflexivity |].
    intros p' [Hp|[]]. inversion Hp. cbn. right. exists x, p. cbn. auto.
  - (* OGetItem *) destruct (get_pt st x) as [p|] eqn:Ep; [|fr_err]. apply get_pt_obj in Ep.
    unfold ret1, new_obj. cbn. intros H. inversion H.
    eapply frame_app with (ex := []); cbn; [reflexivity | rewrite app_nil_r; reflexivity |].
    intros p' [Hp|[]]. inversion Hp. cbn. right. exists x, p. cbn. auto.
  - (* OFull *) destruct (get_pt st x) as [p|] eqn:Ep; [|fr_err].
    unfold ret1, new_obj, alloc. cbn. intros H. inversion H.
    eapply frame_app; cbn; [reflexivity | reflexivity |].
    intros p' [Hp|[]]. inversion Hp. cbn. left. lia.
  - (* OIter *) destruct (get_pt st x) as [p|] eqn:Ep; [|fr_err]. apply get_pt_obj in Ep.
    destruct fr as [[n lay]|].
    + unfold alloc, add_views. cbn. intros H. inversion H.
      eapply frame_app; cbn; [reflexivity | reflexivity |].
      intros p' Hin. apply in_map_iff in Hin. destruct Hin as [it [Hit _]]. inversion Hit. cbn. left. lia.
    + apply add_views_frame. exact Ep.
  - (* ODefaultTo *) destruct (get_pt st x) as [p|] eqn:Ep; [|fr_err].
    destruct (Z.eqb _ _); [fr_err|]. unfold ret1. intros H. inversion H. apply frame_mk_fresh.
  - (* OTo *) destruct (get_pt st x) as [p|] eqn:Ep; [|fr_err]. apply get_pt_obj in Ep.
    destruct (_ =? _).
    + unfold ret1, new_obj. cbn. intros H. inversion H.
      eapply frame_app with (ex := []); cbn; [reflexivity | rewrite app_nil_r; reflexivity |].
      intros p' [Hp|[]]. inversion Hp. subst. right. exists x, p'. cbn. auto.
    + unfold ret1. intros H. inversion H.
      eapply frame_weaken; [apply frame_mk_fresh | apply incl_refl | intros a []].
  - (* OToDense *) destruct (get_pt st x); [|fr_err]. unfold ret1. intros H. inversion H. apply frame_mk_fresh.
  - (* OProject *) destruct (get_pt st x); [|fr_err]. unfold ret1. intros H. inversion H. apply frame_mk_fresh.
  - (* OBin *) destruct (get_pt st x) as [p|]; [|fr_err]. destruct (get_pt st y) as [q|]; [|fr_err].
    destruct (_ =? _); [|fr_err]. unfold ret1.
    destruct (bin_fresh_eq st b p q prm) as [v [c [l [d [t E]]]]]. rewrite E.
    intros H. inversion H. apply frame_mk_fresh.
  - (* OMNew *) unfold ret1, new_obj. cbn. intros H. inversion H.
    eapply frame_app with (nw := [OMT []]) (ex := []); cbn; [reflexivity | rewrite app_nil_r; reflexivity |].
    intros p' [Hp|[]]. discriminate.
  - (* OMSet *) destruct (get_mt st m) as [d|] eqn:Ed; [|fr_err]. destruct (get_pt st x); [|fr_err].
    intros H. inversion H. eapply frame_set_mt. apply get_mt_obj. exact Ed.
  - (* OMGet *) destruct (get_mt st m) as [d|] eqn:Ed; [|fr_err]. destruct (lookup k d); [fr_err|].
    unfold ret1, new_obj, alloc. cbn. intros H. inversion H.
    eapply frame_app; cbn; [reflexivity | reflexivity |].
    intros p' [Hp|[]]. inversion Hp. cbn. left. lia.
  - (* OMDel *) destruct (get_mt st m) as [d|] eqn:Ed; [|fr_err]. destruct (lookup k d); [|fr_err].
    intros H. inversion H. eapply frame_set_mt. apply get_mt_obj. exact Ed.
  - (* OMAddSingle *) apply single_frame. auto.
  - (* OMIadd *) destruct (get_mt st n) as [dn|]; [|fr_err]. apply (loop_single_frame add_single). auto.
  - (* OMIsub *) destruct (get_mt st n) as [dn|]; [|fr_err]. apply (loop_single_frame isub_single). auto.
  - (* OMMaximum *) destruct (get_mt st n) as [dn|]; [|fr_err]. apply (loop_single_frame max_single). auto.
  - (* OMCopy *) apply mcopy_frame.
  - (* OMClone *) apply mclone_frame.
  - (* OMAllclose *) unfold mallclose. destruct (get_mt st m); [|fr_err]. destruct (get_mt st n); [|fr_err].
    destruct (loop _ st l) as [s1 o1]. destruct o1; try fr_err.
    destruct (loop _ st l0) as [s2 o2]. destruct o2; fr_err.
Qed.
