(** C05: the recursion of [visit] seen as (1) rooting the decomposition ([root_td]: the tree of
    calls [visit(n, bag)] for [n in t[bag]], [n != parent]) and (2) a structural pass over the
    rooted tree ([visit_rt]).  [visit_eq]: the fuel-based model of Model/Factorize.v is exactly
    this composition.  [visit_rt_spec]: what the structural pass returns, as a pure function
    [rules_of_rt] of a naming of the bags, together with the freshness of the names. *)
From Coq Require Import List Arith Bool PeanoNat Lia Permutation.
Import ListNotations.
Require Import Fggs.Model.Conj Fggs.Proofs.ConjNames.
Require Import Fggs.Model.TreeDec Fggs.Proofs.TreeDec_graph Fggs.Model.Factorize Fggs.Proofs.Fz_fresh.

(** * list helpers *)
Lemma NoDup_app_disj {A} (l1 l2 : list A) a : NoDup (l1 ++ l2) -> In a l1 -> In a l2 -> False.
Proof.
  induction l1 as [|x l1 IH]; cbn [app]; intros ND H1 H2; [destruct H1|].
  inversion ND as [|? ? Hx ND']; subst. destruct H1 as [->|H1].
  - apply Hx. apply in_or_app. now right.
  - now apply IH.
Qed.
Lemma NoDup_app_intro' {A} (l1 l2 : list A) :
  NoDup l1 -> NoDup l2 -> (forall x, In x l1 -> In x l2 -> False) -> NoDup (l1 ++ l2).
Proof.
  intros H1 H2 Hd. induction l1 as [|x l1 IH]; [exact H2|].
  cbn [app]. inversion H1 as [|? ? Hx H1']; subst. constructor.
  - rewrite in_app_iff. intros [Hi|Hi]; [now apply Hx|]. apply (Hd x); [now left|trivial].
  - apply IH; trivial. intros y Hy. apply Hd. now right.
Qed.

Lemma NoDup_app_l {A} (l1 l2 : list A) : NoDup (l1 ++ l2) -> NoDup l1.
Proof.
  induction l1 as [|x l1 IH]; cbn [app]; intro H; [constructor|].
  inversion H as [|? ? Hx H']; subst. constructor; [|now apply IH]. intro Hi. apply Hx. apply in_or_app. now left.
Qed.
Lemma NoDup_app_r {A} (l1 l2 : list A) : NoDup (l1 ++ l2) -> NoDup l2.
Proof. induction l1 as [|x l1 IH]; cbn [app]; intro H; [exact H|]. inversion H; subst. now apply IH. Qed.
Lemma flat_map_ext_in {A B} (f g : A -> list B) l :
  (forall x, In x l -> f x = g x) -> flat_map f l = flat_map g l.
Proof.
  induction l as [|x l IH]; intro H; [reflexivity|]. cbn [flat_map].
  rewrite (H x) by now left. rewrite IH; [reflexivity|]. intros y Hy. apply H. now right.
Qed.
Lemma Forall2_mono {A B} (P Q : A -> B -> Prop) l l' :
  (forall x y, P x y -> Q x y) -> Forall2 P l l' -> Forall2 Q l l'.
Proof. intros H F. induction F; constructor; auto. Qed.

(** * rooted trees of bag indices *)
Inductive rt := RT (i : nat) (cs : list rt).
Definition rt_root (T : rt) : nat := match T with RT i _ => i end.
Definition rt_kids (T : rt) : list rt := match T with RT _ cs => cs end.

Section RtInd.
  Variable P : rt -> Prop.
  Hypothesis H : forall i cs, Forall P cs -> P (RT i cs).
  Fixpoint rt_ind' (T : rt) : P T :=
    match T with
    | RT i cs => H i cs ((fix go (l : list rt) : Forall P l :=
                            match l with
                            | [] => Forall_nil P
                            | c :: l' => Forall_cons c (rt_ind' c) (go l')
                            end) cs)
    end.
End RtInd.

Fixpoint rt_indices (T : rt) : list nat :=
  match T with
  | RT i cs => i :: (fix go (l : list rt) : list nat :=
                       match l with [] => [] | c :: l' => rt_indices c ++ go l' end) cs
  end.
Lemma rt_indices_eq i cs : rt_indices (RT i cs) = i :: flat_map rt_indices cs.
Proof. reflexivity. Qed.

Fixpoint rt_depth (T : rt) : nat :=
  match T with
  | RT i cs => S ((fix go (l : list rt) : nat :=
                     match l with [] => 0 | c :: l' => Nat.max (rt_depth c) (go l') end) cs)
  end.
Definition max_depth (cs : list rt) : nat := fold_right (fun c m => Nat.max (rt_depth c) m) 0 cs.
Lemma rt_depth_eq i cs : rt_depth (RT i cs) = S (max_depth cs).
Proof. reflexivity. Qed.
Lemma max_depth_In c cs : In c cs -> rt_depth c <= max_depth cs.
Proof.
  induction cs as [|d cs IH]; [intros []|]. intros [->|Hc]; cbn [max_depth fold_right]; [lia|].
  specialize (IH Hc). unfold max_depth in IH. lia.
Qed.

(** * rooting *)
Fixpoint map_opt {A B} (f : A -> option B) (l : list A) : option (list B) :=
  match l with
  | [] => Some []
  | x :: l' => match f x, map_opt f l' with Some y, Some ys => Some (y :: ys) | _, _ => None end
  end.

Definition kids_of (t : ftd) (i : nat) (parent : option nat) : list nat :=
  filter (fun n => negb (is_parent parent n)) (nbrs_of t i).

Fixpoint root_td (fuel : nat) (t : ftd) (i : nat) (parent : option nat) : option rt :=
  match fuel with
  | 0 => None
  | S f => option_map (RT i) (map_opt (fun n => root_td f t n (Some i)) (kids_of t i parent))
  end.

(** the relation computed by [root_td]: children = the neighbours other than the parent, in
    the order of the adjacency list *)
Inductive rooted_of (t : ftd) : nat -> option nat -> rt -> Prop :=
| rooted_node i parent cs :
    Forall2 (fun n c => rooted_of t n (Some i) c) (kids_of t i parent) cs ->
    rooted_of t i parent (RT i cs).

Lemma map_opt_Forall2 {A B} (f : A -> option B) l ys :
  map_opt f l = Some ys <-> Forall2 (fun x y => f x = Some y) l ys.
Proof.
  revert ys. induction l as [|x l IH]; intros ys; cbn [map_opt].
  - split; [intros [= <-]; constructor|intro H; inversion H; reflexivity].
  - destruct (f x) as [y|] eqn:Fx.
    + destruct (map_opt f l) as [ys'|] eqn:M.
      * split.
        -- intros [= <-]. constructor; [exact Fx|]. now apply IH.
        -- intro H. inversion H as [|? ? ? ? H1 H2]; subst. rewrite Fx in H1. injection H1 as <-.
           apply IH in H2. injection H2 as <-. reflexivity.
      * split; [discriminate|]. intro H. inversion H as [|? ? ? ? H1 H2]; subst.
        apply IH in H2. discriminate.
    + split; [discriminate|]. intro H. inversion H as [|? ? ? ? H1 H2]; subst. congruence.
Qed.

Lemma root_td_sound fuel t : forall i parent T, root_td fuel t i parent = Some T -> rooted_of t i parent T.
Proof.
  induction fuel as [|f IH]; intros i parent T H; [discriminate|].
  cbn [root_td] in H. destruct (map_opt _ _) as [cs|] eqn:M; [|discriminate]. injection H as <-.
  constructor. apply map_opt_Forall2 in M. eapply Forall2_mono; [|exact M]. intros n c Hc. now apply IH.
Qed.

Lemma root_td_complete t : forall T i parent fuel,
  rooted_of t i parent T -> rt_depth T <= fuel -> root_td fuel t i parent = Some T.
Proof.
  induction T as [j cs IH] using rt_ind'. intros i parent fuel R D.
  assert (Ej : i = j) by (inversion R; reflexivity). subst i.
  assert (HF : Forall2 (fun n c => rooted_of t n (Some j) c) (kids_of t j parent) cs) by (inversion R; assumption).
  rewrite rt_depth_eq in D.
  destruct fuel as [|f]; [lia|]. cbn [root_td].
  assert (M : map_opt (fun n => root_td f t n (Some j)) (kids_of t j parent) = Some cs).
  { apply map_opt_Forall2. clear R.
    assert (Hd : forall c, In c cs -> rt_depth c <= f) by (intros c Hc; apply max_depth_In in Hc; lia).
    clear D. induction HF as [|n c ns cs' Hnc HF' IHF]; constructor.
    - inversion IH as [|? ? IHc IHcs]; subst. apply IHc; [exact Hnc|]. apply Hd. now left.
    - inversion IH as [|? ? IHc IHcs]; subst. apply IHF; [exact IHcs|]. intros c' Hc'. apply Hd. now right. }
  rewrite M. reflexivity.
Qed.

(** * the structural pass *)
Section Pass.
Variable r : frule.
Variable t : ftd.
Variable ords : list (list nat).

Definition pbag (parent : option nat) : option (list nat) := option_map (bag_of t) parent.

Fixpoint visit_rt (T : rt) (parent : option nat) (st : fstate) : result (fstate * (elabel * list nat)) :=
  match T with
  | RT i cs =>
    hd <- visit_head r t ords i parent (fst st) ;;
    let '(labels, lhs, ext) := hd in
    res <- (fix go (l : list rt) (acc : fstate * list fedge) : result (fstate * list fedge) :=
              match l with
              | [] => Ok acc
              | c :: l' =>
                x <- visit_rt c (Some i) (fst acc) ;;
                if name_conflict (fst (snd x)) (snd acc) then Err ValueErr
                else go l' (fst x, snd acc ++ [new_edge (fst (snd x)) (snd (snd x))])
              end) cs ((labels, snd st), place_edges r (bag_of t i) (pbag parent)) ;;
    Ok ((fst (fst res), snd (fst res) ++ [mk_rule r lhs (bag_of t i) (snd res) ext]), (lhs, ext))
  end.

(** the loop over the children, as a function of its own *)
Fixpoint visit_kids (i : nat) (l : list rt) (acc : fstate * list fedge) : result (fstate * list fedge) :=
  match l with
  | [] => Ok acc
  | c :: l' =>
    x <- visit_rt c (Some i) (fst acc) ;;
    if name_conflict (fst (snd x)) (snd acc) then Err ValueErr
    else visit_kids i l' (fst x, snd acc ++ [new_edge (fst (snd x)) (snd (snd x))])
  end.

Lemma visit_rt_eq i cs parent st :
  visit_rt (RT i cs) parent st =
  (hd <- visit_head r t ords i parent (fst st) ;;
   let '(labels, lhs, ext) := hd in
   res <- visit_kids i cs ((labels, snd st), place_edges r (bag_of t i) (pbag parent)) ;;
   Ok ((fst (fst res), snd (fst res) ++ [mk_rule r lhs (bag_of t i) (snd res) ext]), (lhs, ext))).
Proof.
  cbn [visit_rt]. destruct (visit_head r t ords i parent (fst st)) as [[[labels lhs] ext]|e]; [|reflexivity].
  cbn [bind]. f_equal.
  generalize ((labels, snd st, place_edges r (bag_of t i) (pbag parent)) : fstate * list fedge).
  induction cs as [|c cs IH]; intro acc; cbn [visit_kids]; [reflexivity|].
  destruct (visit_rt c (Some i) (fst acc)) as [x|e]; [|reflexivity]. cbn [bind].
  destruct (name_conflict _ _); [reflexivity|]. apply IH.
Qed.

(** the model's [visit] is the structural pass over the tree that [root_td] builds *)
Theorem visit_eq fuel : forall i parent T st,
  root_td fuel t i parent = Some T -> visit fuel r t ords i parent st = visit_rt T parent st.
Proof.
  induction fuel as [|f IH]; intros i parent T st H; [discriminate|].
  cbn [root_td] in H. destruct (map_opt _ _) as [cs|] eqn:M; [|discriminate]. injection H as <-.
  rewrite visit_rt_eq. cbn [visit].
  destruct (visit_head r t ords i parent (fst st)) as [[[labels lhs] ext]|e]; [|reflexivity].
  cbn [bind]. unfold pbag.
  generalize ((labels, snd st, place_edges r (bag_of t i) (option_map (bag_of t) parent)) : fstate * list fedge).
  intro acc0.
  assert (E : forall ns cs acc0,
             map_opt (fun n => root_td f t n (Some i)) (filter (fun n => negb (is_parent parent n)) ns) = Some cs ->
             mfold (fun (acc : fstate * list fedge) n =>
                       if is_parent parent n then Ok acc
                       else c <- visit f r t ords n (Some i) (fst acc) ;;
                            if name_conflict (fst (snd c)) (snd acc) then Err ValueErr
                            else Ok (fst c, snd acc ++ [new_edge (fst (snd c)) (snd (snd c))]))
                    ns acc0
              = visit_kids i cs acc0).
  { clear M cs acc0. induction ns as [|n ns IHn]; intros cs acc0 M.
    - cbn in M. injection M as <-. reflexivity.
    - cbn [mfold filter] in *. destruct (is_parent parent n) eqn:Pn; cbn [negb] in M.
      + apply IHn. exact M.
      + cbn [map_opt] in M. destruct (root_td f t n (Some i)) as [c|] eqn:Rn; [|discriminate].
        destruct (map_opt _ (filter _ ns)) as [cs'|] eqn:M'; [|discriminate]. injection M as <-.
        cbn [visit_kids]. rewrite (IH n (Some i) c (fst acc0) Rn).
        destruct (visit_rt c (Some i) (fst acc0)) as [x|e]; [|reflexivity]. cbn [bind].
        destruct (name_conflict _ _); [reflexivity|]. apply IHn. reflexivity. }
  rewrite (E _ _ _ M). reflexivity.
Qed.

(** * the output as a function of the names of the bags *)
Definition ext_at (parent : option nat) (i : nat) : list nat :=
  match parent with None => fr_ext r | Some _ => nth i ords [] end.

Fixpoint rules_of_rt (nm : nat -> elabel) (T : rt) (parent : option nat) : list frule :=
  match T with
  | RT i cs =>
    (fix go (l : list rt) : list frule :=
       match l with [] => [] | c :: l' => rules_of_rt nm c (Some i) ++ go l' end) cs
    ++ [mk_rule r (nm i) (bag_of t i)
                (place_edges r (bag_of t i) (pbag parent)
                 ++ map (fun c => new_edge (nm (rt_root c)) (nth (rt_root c) ords [])) cs)
                (ext_at parent i)]
  end.
Definition kid_edges (nm : nat -> elabel) (cs : list rt) : list fedge :=
  map (fun c => new_edge (nm (rt_root c)) (nth (rt_root c) ords [])) cs.
Lemma rules_of_rt_eq nm i cs parent :
  rules_of_rt nm (RT i cs) parent =
  flat_map (fun c => rules_of_rt nm c (Some i)) cs
  ++ [mk_rule r (nm i) (bag_of t i) (place_edges r (bag_of t i) (pbag parent) ++ kid_edges nm cs) (ext_at parent i)].
Proof. reflexivity. Qed.

(** the bags that get a fresh name, in the order the names are chosen (pre-order) *)
Fixpoint fresh_idx (T : rt) (parent : option nat) : list nat :=
  match T with
  | RT i cs =>
    match parent with None => [] | Some _ => [i] end
    ++ (fix go (l : list rt) : list nat :=
          match l with [] => [] | c :: l' => fresh_idx c (Some i) ++ go l' end) cs
  end.
Lemma fresh_idx_eq i cs parent :
  fresh_idx (RT i cs) parent =
  match parent with None => [] | Some _ => [i] end ++ flat_map (fun c => fresh_idx c (Some i)) cs.
Proof. reflexivity. Qed.

Lemma fresh_idx_incl T : forall parent j, In j (fresh_idx T parent) -> In j (rt_indices T).
Proof.
  induction T as [i cs IH] using rt_ind'. intros parent j. rewrite fresh_idx_eq, rt_indices_eq, in_app_iff.
  intros [H|H].
  - destruct parent; [destruct H as [<-|[]]; now left|destruct H].
  - right. apply in_flat_map in H. destruct H as (c & Hc & Hj). apply in_flat_map. exists c. split; trivial.
    rewrite Forall_forall in IH. eapply IH; eauto.
Qed.

Lemma rules_of_rt_ext nm nm' T : forall parent,
  (forall j, In j (rt_indices T) -> nm j = nm' j) -> rules_of_rt nm T parent = rules_of_rt nm' T parent.
Proof.
  induction T as [i cs IH] using rt_ind'. intros parent E. rewrite !rules_of_rt_eq.
  rewrite rt_indices_eq in E. f_equal.
  - apply flat_map_ext_in. intros c Hc. rewrite Forall_forall in IH. apply IH; trivial.
    intros j Hj. apply E. right. apply in_flat_map. eauto.
  - f_equal. rewrite (E i) by now left. f_equal. f_equal. unfold kid_edges. apply map_ext_in. intros c Hc.
    f_equal. apply E. right. apply in_flat_map. exists c. split; trivial. destruct c. rewrite rt_indices_eq. now left.
Qed.

(** what is known of the names *)
Record names_ok (nm : nat -> elabel) (L : list elabel) (idx : list nat) : Prop := {
  no_nt : forall j, In j idx -> el_term (nm j) = false;
  no_type : forall j, In j idx -> el_type (nm j) = map (nlabel (fr_nodes r)) (nth j ords []);
  no_fresh : forall j, In j idx -> ~ In (el_name (nm j)) (map el_name L);
  no_distinct : NoDup (map (fun j => el_name (nm j)) idx) }.

(** the oracle orders are orders of [bag & parent] *)
Fixpoint ords_ok (T : rt) (parent : option nat) : Prop :=
  match T with
  | RT i cs =>
    match parent with
    | None => True
    | Some p => is_perm (nth i ords []) (set_inter (bag_of t i) (bag_of t p)) = true
    end
    /\ (fix go (l : list rt) : Prop := match l with [] => True | c :: l' => ords_ok c (Some i) /\ go l' end) cs
  end.
Lemma ords_ok_eq i cs parent :
  ords_ok (RT i cs) parent <->
  match parent with
  | None => True
  | Some p => is_perm (nth i ords []) (set_inter (bag_of t i) (bag_of t p)) = true
  end /\ Forall (fun c => ords_ok c (Some i)) cs.
Proof.
  cbn [ords_ok]. apply and_iff_compat_l. induction cs as [|c cs IH].
  - split; auto.
  - rewrite IH. split; [intros [? ?]; now constructor|intro H; inversion H; auto].
Qed.

Definition upd (nm : nat -> elabel) (j : nat) (l : elabel) : nat -> elabel :=
  fun k => if k =? j then l else nm k.
(** take [nm1] on [idx], [nm2] elsewhere *)
Definition merge (idx : list nat) (nm1 nm2 : nat -> elabel) : nat -> elabel :=
  fun k => if mem k idx then nm1 k else nm2 k.

Lemma in_map_name (l : elabel) L : In l L -> In (el_name l) (map el_name L).
Proof. apply in_map. Qed.

(** ** the pass returns [rules_of_rt] for some naming of the bags with fresh names *)
Theorem visit_rt_spec : forall T parent L R L' R' lhs ext,
  NoDup (rt_indices T) ->
  visit_rt T parent (L, R) = Ok ((L', R'), (lhs, ext)) ->
  exists nm,
    R' = R ++ rules_of_rt nm T parent
    /\ lhs = nm (rt_root T) /\ ext = ext_at parent (rt_root T)
    /\ (parent = None -> nm (rt_root T) = fr_lhs r)
    /\ L' = rev (map nm (fresh_idx T parent)) ++ L
    /\ names_ok nm L (fresh_idx T parent)
    /\ ords_ok T parent.
Proof.
  induction T as [i cs IH] using rt_ind'. intros parent L R L' R' lhs ext ND H.
  rewrite visit_rt_eq in H. cbn [fst snd] in H.
  destruct (visit_head r t ords i parent L) as [[[L1 lhs1] ext1]|e] eqn:HD; [|discriminate].
  cbn [bind] in H.
  destruct (visit_kids i cs (L1, R, place_edges r (bag_of t i) (pbag parent))) as [[[L2 R2] es2]|e] eqn:K; [|discriminate].
  cbn [bind fst snd] in H. injection H as <- <- <- <-.
  rewrite rt_indices_eq in ND. inversion ND as [|? ? Hi NDc]; subst.
  (* the loop over the children, generalised *)
  assert (KS : forall cs0 L0 R0 es0 (nm0 : nat -> elabel) (seen : list nat),
             Forall (fun T => forall parent L R L' R' lhs ext, NoDup (rt_indices T) ->
                       visit_rt T parent (L, R) = Ok ((L', R'), (lhs, ext)) ->
                       exists nm, R' = R ++ rules_of_rt nm T parent /\ lhs = nm (rt_root T)
                         /\ ext = ext_at parent (rt_root T) /\ (parent = None -> nm (rt_root T) = fr_lhs r)
                         /\ L' = rev (map nm (fresh_idx T parent)) ++ L
                         /\ names_ok nm L (fresh_idx T parent) /\ ords_ok T parent) cs0 ->
             NoDup (flat_map rt_indices cs0) ->
             visit_kids i cs0 (L0, R0, es0) = Ok ((L2, R2), es2) ->
             exists nm,
               R2 = R0 ++ flat_map (fun c => rules_of_rt nm c (Some i)) cs0
               /\ es2 = es0 ++ kid_edges nm cs0
               /\ L2 = rev (map nm (flat_map (fun c => fresh_idx c (Some i)) cs0)) ++ L0
               /\ names_ok nm L0 (flat_map (fun c => fresh_idx c (Some i)) cs0)
               /\ Forall (fun c => ords_ok c (Some i)) cs0).
  { clear. induction cs0 as [|c cs0 IHc]; intros L0 R0 es0 nm0 seen IHs NDs Hk.
    - cbn [visit_kids] in Hk. injection Hk as <- <- <-. exists nm0. cbn [flat_map kid_edges map rev app].
      rewrite !app_nil_r. repeat split; try constructor; intros j [].
    - cbn [visit_kids fst snd] in Hk.
      destruct (visit_rt c (Some i) (L0, R0)) as [[[Lc Rc] [lc ec]]|e] eqn:Vc; [|discriminate].
      cbn [bind fst snd] in Hk. destruct (name_conflict lc es0) eqn:NC; [discriminate|].
      inversion IHs as [|? ? IHc1 IHs']; subst.
      cbn [flat_map] in NDs. pose proof (NoDup_app_r _ _ NDs) as NDs'.
      pose proof (NoDup_app_l _ _ NDs) as NDc1.
      destruct (IHc1 (Some i) L0 R0 Lc Rc lc ec NDc1 Vc) as (nm1 & E1 & E2 & E3 & _ & E5 & E6 & E7).
      destruct (IHc Lc Rc (es0 ++ [new_edge lc ec]) nm0 seen IHs' NDs' Hk) as (nm2 & F1 & F2 & F3 & F4 & F5).
      exists (merge (rt_indices c) nm1 nm2).
      assert (A1 : forall j, In j (rt_indices c) -> merge (rt_indices c) nm1 nm2 j = nm1 j).
      { intros j Hj. unfold merge. apply mem_In in Hj. now rewrite Hj. }
      assert (A2 : forall d j, In d cs0 -> In j (rt_indices d) -> merge (rt_indices c) nm1 nm2 j = nm2 j).
      { intros d j Hd Hj. unfold merge. destruct (mem j (rt_indices c)) eqn:M; [|reflexivity].
        exfalso. apply mem_In in M. revert NDs. clear -Hd Hj M. intro NDs.
        apply (NoDup_app_disj _ _ j NDs M).
        apply in_flat_map. eauto. }
      assert (A3 : flat_map (fun c0 => rules_of_rt (merge (rt_indices c) nm1 nm2) c0 (Some i)) cs0
                   = flat_map (fun c0 => rules_of_rt nm2 c0 (Some i)) cs0).
      { apply flat_map_ext_in. intros d Hd. apply rules_of_rt_ext. intros j Hj. eapply A2; eauto. }
      assert (A4 : map (merge (rt_indices c) nm1 nm2) (fresh_idx c (Some i)) = map nm1 (fresh_idx c (Some i))).
      { apply map_ext_in. intros j Hj. apply A1. eapply fresh_idx_incl; eauto. }
      assert (A5 : map (merge (rt_indices c) nm1 nm2) (flat_map (fun c0 => fresh_idx c0 (Some i)) cs0)
                   = map nm2 (flat_map (fun c0 => fresh_idx c0 (Some i)) cs0)).
      { apply map_ext_in. intros j Hj. apply in_flat_map in Hj. destruct Hj as (d & Hd & Hj).
        eapply A2; eauto. eapply fresh_idx_incl; eauto. }
      split; [|split; [|split; [|split]]].
      + cbn [flat_map]. rewrite (rules_of_rt_ext _ nm1 c (Some i) A1), A3, F1, E1. now rewrite app_assoc.
      + unfold kid_edges in *. cbn [map]. rewrite F2, <- app_assoc. cbn [app]. f_equal. f_equal.
        * rewrite A1 by (destruct c; rewrite rt_indices_eq; now left). f_equal; [congruence|].
          rewrite E3. destruct c. reflexivity.
        * apply map_ext_in. intros d Hd. f_equal. symmetry. eapply A2; eauto. destruct d. rewrite rt_indices_eq. now left.
      + cbn [flat_map]. rewrite map_app, rev_app_distr, A4, A5, F3, E5. now rewrite app_assoc.
      + cbn [flat_map]. destruct E6 as [e1 e2 e3 e4], F4 as [f1 f2 f3 f4].
        assert (B : forall j, In j (flat_map (fun c0 => fresh_idx c0 (Some i)) cs0) ->
                     merge (rt_indices c) nm1 nm2 j = nm2 j).
        { intros j Hj. apply in_flat_map in Hj. destruct Hj as (d & Hd & Hj). eapply A2; eauto. eapply fresh_idx_incl; eauto. }
        assert (B1 : forall j, In j (fresh_idx c (Some i)) -> merge (rt_indices c) nm1 nm2 j = nm1 j).
        { intros j Hj. apply A1. eapply fresh_idx_incl; eauto. }
        constructor.
        * intros j Hj. apply in_app_iff in Hj. destruct Hj as [Hj|Hj]; [rewrite B1|rewrite B]; auto.
        * intros j Hj. apply in_app_iff in Hj. destruct Hj as [Hj|Hj]; [rewrite B1|rewrite B]; auto.
        * intros j Hj. apply in_app_iff in Hj. destruct Hj as [Hj|Hj]; [rewrite B1 by exact Hj; auto|].
          rewrite B by exact Hj. intro Hin. apply (f3 j Hj). rewrite E5, map_app, in_app_iff. now right.
        * rewrite map_app. apply NoDup_app_intro'.
          -- erewrite map_ext_in; [exact e4|]. intros j Hj. cbn. now rewrite B1.
          -- erewrite map_ext_in; [exact f4|]. intros j Hj. cbn. now rewrite B.
          -- intros x Hx1 Hx2. apply in_map_iff in Hx1, Hx2.
             destruct Hx1 as (j1 & <- & Hj1), Hx2 as (j2 & Ex & Hj2).
             rewrite B in Ex by exact Hj2. rewrite B1 in Ex by exact Hj1.
             apply (f3 j2 Hj2). rewrite Ex, E5, map_app, in_app_iff. left.
             rewrite map_rev, <- in_rev, map_map. apply in_map_iff. eauto.
      + constructor; trivial. }
  destruct (KS cs L1 R (place_edges r (bag_of t i) (pbag parent)) (fun _ => lhs1) [] IH NDc K)
    as (nm & F1 & F2 & F3 & F4 & F5).
  exists (upd nm i lhs1).
  assert (U1 : upd nm i lhs1 i = lhs1) by (unfold upd; now rewrite Nat.eqb_refl).
  assert (U2 : forall j, In j (flat_map rt_indices cs) -> upd nm i lhs1 j = nm j).
  { intros j Hj. unfold upd. destruct (Nat.eqb_spec j i) as [->|]; [contradiction|reflexivity]. }
  assert (U3 : forall j, In j (flat_map (fun c => fresh_idx c (Some i)) cs) -> upd nm i lhs1 j = nm j).
  { intros j Hj. apply U2. apply in_flat_map in Hj. destruct Hj as (c & Hc & Hj). apply in_flat_map.
    exists c. split; trivial. eapply fresh_idx_incl; eauto. }
  rewrite rules_of_rt_eq, fresh_idx_eq, ords_ok_eq. cbn [rt_root].
  assert (G1 : flat_map (fun c => rules_of_rt (upd nm i lhs1) c (Some i)) cs
               = flat_map (fun c => rules_of_rt nm c (Some i)) cs).
  { apply flat_map_ext_in. intros c Hc. apply rules_of_rt_ext. intros j Hj. apply U2. apply in_flat_map. eauto. }
  assert (G2 : kid_edges (upd nm i lhs1) cs = kid_edges nm cs).
  { unfold kid_edges. apply map_ext_in. intros c Hc. f_equal. apply U2. apply in_flat_map. exists c. split; trivial.
    destruct c. rewrite rt_indices_eq. now left. }
  rewrite G1, G2, U1.
  destruct parent as [p|].
  - apply visit_head_child in HD. destruct HD as (-> & -> & HP & Ht & Hty & Hs).
    split; [|split; [|split; [|split; [|split; [|split]]]]].
    + rewrite F1, F2, <- app_assoc. reflexivity.
    + reflexivity.
    + reflexivity.
    + discriminate.
    + cbn [app map]. rewrite U1. erewrite map_ext_in; [|exact U3]. rewrite F3. cbn [rev]. rewrite <- app_assoc. reflexivity.
    + destruct F4 as [f1 f2 f3 f4]. constructor.
      * intros j [<-|Hj]; [now rewrite U1|]. rewrite U3 by exact Hj. auto.
      * intros j [<-|Hj]; [now rewrite U1|]. rewrite U3 by exact Hj. auto.
      * intros j [<-|Hj]; [rewrite U1; apply Hs|]. rewrite U3 by exact Hj. intro Hin. apply (f3 j Hj).
        cbn [map]. now right.
      * cbn [app map]. rewrite U1. constructor.
        -- intro Hin. apply in_map_iff in Hin. destruct Hin as (j & Ej & Hj). rewrite U3 in Ej by exact Hj.
           apply (f3 j Hj). cbn [map]. left. now symmetry.
        -- erewrite map_ext_in; [exact f4|]. intros j Hj. cbn. now rewrite U3.
    + split; trivial.
  - cbn in HD. injection HD as <- <- <-.
    split; [|split; [|split; [|split; [|split; [|split]]]]].
    + rewrite F1, F2, <- app_assoc. reflexivity.
    + reflexivity.
    + reflexivity.
    + reflexivity.
    + cbn [app]. erewrite map_ext_in; [|exact U3]. exact F3.
    + cbn [app]. destruct F4 as [f1 f2 f3 f4]. constructor.
      * intros j Hj. rewrite U3 by exact Hj. auto.
      * intros j Hj. rewrite U3 by exact Hj. auto.
      * intros j Hj. rewrite U3 by exact Hj. auto.
      * erewrite map_ext_in; [exact f4|]. intros j Hj. cbn. now rewrite U3.
    + split; trivial.
Qed.

End Pass.
