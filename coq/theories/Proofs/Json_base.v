(** C14: basic facts about the JSON model: decidable equalities, the error monad, lookups,
    the stable sort, positions. *)
From Coq Require Import List Arith Bool PeanoNat ZArith Lia Permutation Sorted.
Import ListNotations.
Require Import Fggs.Model.Json.
Local Open Scope nat_scope.

(** * equalities *)
Lemma str_eqb_refl : forall a, str_eqb a a = true.
Proof. induction a as [|x a IH]; cbn; [reflexivity|]. now rewrite Nat.eqb_refl. Qed.

Lemma str_eqb_eq : forall a b, str_eqb a b = true <-> a = b.
Proof.
  induction a as [|x a IH]; destruct b as [|y b]; cbn; split; intro H; try discriminate; try reflexivity.
  - apply andb_true_iff in H as [H1 H2]. apply Nat.eqb_eq in H1. apply IH in H2. now subst.
  - inversion H; subst. now rewrite Nat.eqb_refl, str_eqb_refl.
Qed.

Lemma str_eqb_neq : forall a b, str_eqb a b = false <-> a <> b.
Proof.
  intros a b. split.
  - intros H E. apply str_eqb_eq in E. congruence.
  - intro H. destruct (str_eqb a b) eqn:E; [|reflexivity]. apply str_eqb_eq in E. contradiction.
Qed.

Lemma strs_eqb_eq : forall a b, strs_eqb a b = true <-> a = b.
Proof.
  induction a as [|x a IH]; destruct b as [|y b]; cbn; split; intro H; try discriminate; try reflexivity.
  - apply andb_true_iff in H as [H1 H2]. apply str_eqb_eq in H1. apply IH in H2. now subst.
  - inversion H; subst. rewrite str_eqb_refl. cbn. now apply IH.
Qed.

Lemma nid_eqb_eq : forall a b, nid_eqb a b = true <-> a = b.
Proof.
  intros [s|m] [t|n]; cbn; split; intro H; try discriminate.
  - apply str_eqb_eq in H. now subst.
  - inversion H. apply str_eqb_refl.
  - apply Nat.eqb_eq in H. now subst.
  - inversion H. apply Nat.eqb_refl.
Qed.

Lemma nid_eqb_refl : forall a, nid_eqb a a = true.
Proof. intro a. now apply nid_eqb_eq. Qed.

Lemma node_eqb_eq : forall a b, node_eqb a b = true <-> a = b.
Proof.
  intros [la ia] [lb ib]; unfold node_eqb; cbn; split; intro H.
  - apply andb_true_iff in H as [H1 H2]. apply str_eqb_eq in H1. apply nid_eqb_eq in H2. now subst.
  - inversion H; subst. now rewrite str_eqb_refl, nid_eqb_refl.
Qed.

Lemma node_eqb_refl : forall a, node_eqb a a = true.
Proof. intro a. now apply node_eqb_eq. Qed.

Lemma elabel_eqb_eq : forall a b, elabel_eqb a b = true <-> a = b.
Proof.
  intros [na ta ba] [nb tb bb]; unfold elabel_eqb; cbn; split; intro H.
  - apply andb_true_iff in H as [H H3]. apply andb_true_iff in H as [H1 H2].
    apply str_eqb_eq in H1. apply strs_eqb_eq in H2. apply eqb_prop in H3. now subst.
  - inversion H; subst. rewrite str_eqb_refl. cbn. rewrite (proj2 (strs_eqb_eq tb tb) eq_refl). cbn.
    apply eqb_reflx.
Qed.

Lemma elabel_eqb_refl : forall a, elabel_eqb a a = true.
Proof. intro a. now apply elabel_eqb_eq. Qed.

Lemma elabel_eqb_neq : forall a b, elabel_eqb a b = false <-> a <> b.
Proof.
  intros a b. split.
  - intros H E. apply elabel_eqb_eq in E. congruence.
  - intro H. destruct (elabel_eqb a b) eqn:E; [|reflexivity]. apply elabel_eqb_eq in E. contradiction.
Qed.

Lemma nodes_eqb_eq : forall a b, nodes_eqb a b = true <-> a = b.
Proof.
  induction a as [|x a IH]; destruct b as [|y b]; cbn; split; intro H; try discriminate; try reflexivity.
  - apply andb_true_iff in H as [H1 H2]. apply node_eqb_eq in H1. apply IH in H2. now subst.
  - inversion H; subst. rewrite node_eqb_refl. cbn. now apply IH.
Qed.

Lemma edge_eqb_eq : forall a b, edge_eqb a b = true <-> a = b.
Proof.
  intros [la aa ia] [lb ab ib]; unfold edge_eqb; cbn; split; intro H.
  - apply andb_true_iff in H as [H H3]. apply andb_true_iff in H as [H1 H2].
    apply elabel_eqb_eq in H1. apply nodes_eqb_eq in H2. apply nid_eqb_eq in H3. now subst.
  - inversion H; subst. rewrite elabel_eqb_refl, nid_eqb_refl, (proj2 (nodes_eqb_eq ab ab) eq_refl). reflexivity.
Qed.

Lemma nats_eqb_eq : forall a b, nats_eqb a b = true <-> a = b.
Proof.
  induction a as [|x a IH]; destruct b as [|y b]; cbn; split; intro H; try discriminate; try reflexivity.
  - apply andb_true_iff in H as [H1 H2]. apply Nat.eqb_eq in H1. apply IH in H2. now subst.
  - inversion H; subst. rewrite Nat.eqb_refl. cbn. now apply IH.
Qed.

(** * membership tests *)
Lemma id_mem_In : forall i l, id_mem i l = true <-> In i l.
Proof.
  intros i l. unfold id_mem. rewrite existsb_exists. split.
  - intros [x [Hx E]]. apply nid_eqb_eq in E. now subst.
  - intro H. exists i. split; [assumption|apply nid_eqb_refl].
Qed.

Lemma id_mem_false : forall i l, id_mem i l = false <-> ~ In i l.
Proof.
  intros i l. rewrite <- id_mem_In. destruct (id_mem i l); split; intro H; congruence.
Qed.

Lemma nodup_ids_NoDup : forall l, nodup_ids l = true <-> NoDup l.
Proof.
  induction l as [|x l IH]; cbn.
  - split; [constructor|reflexivity].
  - rewrite andb_true_iff, negb_true_iff, id_mem_false, IH. split.
    + intros [H1 H2]. now constructor.
    + intro H. inversion H; subst. now split.
Qed.

Lemma node_mem_In : forall v l, node_mem v l = true <-> In v l.
Proof.
  intros v l. unfold node_mem. rewrite existsb_exists. split.
  - intros [x [Hx E]]. apply node_eqb_eq in E. now subst.
  - intro H. exists v. split; [assumption|apply node_eqb_refl].
Qed.

Lemma label_mem_In : forall x l, label_mem x l = true <-> In x l.
Proof.
  intros x l. unfold label_mem. rewrite existsb_exists. split.
  - intros [y [Hy E]]. apply elabel_eqb_eq in E. now subst.
  - intro H. exists x. split; [assumption|apply elabel_eqb_refl].
Qed.

Lemma nodup_strs_NoDup : forall l, nodup_strs l = true <-> NoDup l.
Proof.
  induction l as [|x l IH]; cbn.
  - split; [constructor|reflexivity].
  - rewrite andb_true_iff, negb_true_iff, IH. split.
    + intros [H1 H2]. constructor; [|assumption]. intro Hin.
      assert (existsb (str_eqb x) l = true) as E.
      { apply existsb_exists. exists x. split; [assumption|apply str_eqb_refl]. }
      congruence.
    + intro H. inversion H as [|? ? Hn Hd]; subst. split; [|assumption].
      destruct (existsb (str_eqb x) l) eqn:E; [|reflexivity].
      apply existsb_exists in E as [y [Hy E]]. apply str_eqb_eq in E. subst. contradiction.
Qed.

Lemma nodup_labels_NoDup : forall l, nodup_labels l = true <-> NoDup l.
Proof.
  induction l as [|x l IH]; cbn.
  - split; [constructor|reflexivity].
  - rewrite andb_true_iff, negb_true_iff, IH. split.
    + intros [H1 H2]. constructor; [|assumption]. intro Hin. apply label_mem_In in Hin. congruence.
    + intro H. inversion H as [|? ? Hn Hd]; subst. split; [|assumption].
      destruct (label_mem x l) eqn:E; [|reflexivity]. apply label_mem_In in E. contradiction.
Qed.

Lemma nodup_nat_NoDup : forall l, nodup_nat l = true <-> NoDup l.
Proof.
  induction l as [|x l IH]; cbn.
  - split; [constructor|reflexivity].
  - rewrite andb_true_iff, negb_true_iff, IH. split.
    + intros [H1 H2]. constructor; [|assumption]. intro Hin.
      assert (existsb (Nat.eqb x) l = true) as E.
      { apply existsb_exists. exists x. split; [assumption|apply Nat.eqb_refl]. }
      congruence.
    + intro H. inversion H as [|? ? Hn Hd]; subst. split; [|assumption].
      destruct (existsb (Nat.eqb x) l) eqn:E; [|reflexivity].
      apply existsb_exists in E as [y [Hy E]]. apply Nat.eqb_eq in E. subst. contradiction.
Qed.

(** * the error monad *)
Lemma bind_ok : forall {A B : Type} (x : res A) (f : A -> res B) b,
  bind x f = Ok b -> exists a, x = Ok a /\ f a = Ok b.
Proof. intros A B [a|e] f b H; cbn in H; [eauto|discriminate]. Qed.

Lemma mapM_Forall2 : forall {A B : Type} (f : A -> res B) l l',
  mapM f l = Ok l' <-> Forall2 (fun x y => f x = Ok y) l l'.
Proof.
  intros A B f. induction l as [|x l IH]; intros l'; cbn.
  - split; intro H; [inversion H; constructor|inversion H; reflexivity].
  - split; intro H.
    + apply bind_ok in H as [y [Hy H]]. apply bind_ok in H as [ys [Hys H]]. inversion H; subst.
      constructor; [assumption|now apply IH].
    + inversion H as [|? y ? ys Hy Hys]; subst. rewrite Hy. cbn. apply IH in Hys. rewrite Hys. reflexivity.
Qed.

Lemma mapM_map : forall {A B C : Type} (f : B -> res C) (g : A -> B) l,
  mapM f (map g l) = mapM (fun x => f (g x)) l.
Proof. intros A B C f g. induction l as [|x l IH]; cbn; [reflexivity|]. now rewrite IH. Qed.

Lemma mapM_ext_in : forall {A B : Type} (f g : A -> res B) l,
  (forall x, In x l -> f x = g x) -> mapM f l = mapM g l.
Proof.
  intros A B f g. induction l as [|x l IH]; intro H; cbn; [reflexivity|].
  rewrite (H x (or_introl eq_refl)), IH; [reflexivity|]. intros y Hy. apply H. now right.
Qed.

Lemma mapM_ok_map : forall {A B : Type} (f : A -> res B) (g : A -> B) l,
  (forall x, In x l -> f x = Ok (g x)) -> mapM f l = Ok (map g l).
Proof.
  intros A B f g. induction l as [|x l IH]; intro H; cbn; [reflexivity|].
  rewrite (H x (or_introl eq_refl)). cbn. rewrite IH; [reflexivity|]. intros y Hy. apply H. now right.
Qed.

(** * lookups in closed dictionaries *)
Lemma dict_find_hd : forall {V : Type} k (v : V) d, dict_find ((k, v) :: d) k = Some v.
Proof. intros. cbn. now rewrite str_eqb_refl. Qed.

(** * positions *)
Lemma find_index_some : forall {A : Type} (p : A -> bool) l i,
  find_index p l = Some i -> exists x, nth_error l i = Some x /\ p x = true.
Proof.
  intros A p. induction l as [|y l IH]; intros i H; cbn in H; [discriminate|].
  destruct (p y) eqn:Hp.
  - inversion H; subst. exists y. now split.
  - destruct (find_index p l) as [j|] eqn:Hj; [|discriminate]. inversion H; subst.
    destruct (IH j eq_refl) as [x [Hx Hpx]]. exists x. now split.
Qed.

Lemma find_index_in : forall {A : Type} (p : A -> bool) l x,
  In x l -> p x = true -> exists i, find_index p l = Some i.
Proof.
  intros A p. induction l as [|y l IH]; intros x Hin Hp; [inversion Hin|]. cbn.
  destruct (p y) eqn:Hpy; [eauto|]. destruct Hin as [Hin|Hin]; [subst; congruence|].
  destruct (IH x Hin Hp) as [i Hi]. rewrite Hi. eauto.
Qed.

Lemma node_num_in : forall nodes v, In v nodes ->
  exists i, node_num nodes v = Ok (JInt (Z.of_nat i)) /\ nth_error nodes i = Some v.
Proof.
  intros nodes v Hin. unfold node_num.
  destruct (find_index_in (node_eqb v) nodes v Hin (node_eqb_refl v)) as [i Hi]. rewrite Hi.
  exists i. split; [reflexivity|].
  destruct (find_index_some _ _ _ Hi) as [x [Hx E]]. apply node_eqb_eq in E. now subst.
Qed.

Lemma py_index_nat : forall {A : Type} (l : list A) i x,
  nth_error l i = Some x -> py_index l (JInt (Z.of_nat i)) = Ok x.
Proof.
  intros A l i x H. unfold py_index.
  destruct (Z.of_nat i <? 0)%Z eqn:E; [apply Z.ltb_lt in E; lia|].
  rewrite E. now rewrite Nat2Z.id, H.
Qed.

Lemma att_index_nat : forall {A : Type} (l : list A) i x,
  nth_error l i = Some x -> att_index l (JInt (Z.of_nat i)) = Ok x.
Proof.
  intros A l i x H. unfold att_index, json_neg.
  assert ((Z.of_nat i <? 0)%Z = false) as -> by (apply Z.ltb_ge; lia).
  now rewrite (py_index_nat l i x H).
Qed.

(** * the stable sort *)
Section SortFacts.
  Context {A : Type} (key : A -> str).

  Lemma insert_by_perm : forall x l, Permutation (insert_by key x l) (x :: l).
  Proof.
    intros x. induction l as [|y l IH]; cbn; [reflexivity|].
    destruct (str_leb (key x) (key y)); [reflexivity|].
    rewrite IH. apply perm_swap.
  Qed.

  Lemma sort_by_perm : forall l, Permutation (sort_by key l) l.
  Proof.
    induction l as [|x l IH]; cbn; [reflexivity|]. rewrite insert_by_perm. now constructor.
  Qed.

  Lemma sort_by_in : forall l x, In x (sort_by key l) <-> In x l.
  Proof.
    intros l x. split; apply Permutation_in; [apply sort_by_perm|apply Permutation_sym, sort_by_perm].
  Qed.

  Lemma sort_by_length : forall l, length (sort_by key l) = length l.
  Proof. intro l. apply Permutation_length, sort_by_perm. Qed.
End SortFacts.

Lemma str_leb_total : forall a b, str_leb a b = false -> str_leb b a = true.
Proof.
  induction a as [|x a IH]; destruct b as [|y b]; cbn -[Nat.ltb]; intro H; try discriminate; try reflexivity.
  destruct (x <? y) eqn:E1; [discriminate|]. destruct (y <? x) eqn:E2; [reflexivity|]. now apply IH.
Qed.

Lemma str_leb_refl : forall a, str_leb a a = true.
Proof. induction a as [|x a IH]; cbn -[Nat.ltb]; [reflexivity|]. now rewrite Nat.ltb_irrefl. Qed.

Lemma str_leb_trans : forall a b c, str_leb a b = true -> str_leb b c = true -> str_leb a c = true.
Proof.
  induction a as [|x a IH]; intros [|y b] [|z c]; cbn -[Nat.ltb]; intros H1 H2; try discriminate; try reflexivity.
  destruct (x <? y) eqn:Exy.
  - apply Nat.ltb_lt in Exy. destruct (y <? z) eqn:Eyz.
    + apply Nat.ltb_lt in Eyz. assert (x <? z = true) as -> by (apply Nat.ltb_lt; lia). reflexivity.
    + destruct (z <? y) eqn:Ezy; [discriminate|]. apply Nat.ltb_ge in Eyz, Ezy.
      assert (x <? z = true) as -> by (apply Nat.ltb_lt; lia). reflexivity.
  - destruct (y <? x) eqn:Eyx; [discriminate|]. apply Nat.ltb_ge in Exy, Eyx. assert (x = y) by lia. subst y.
    destruct (x <? z) eqn:Exz; [reflexivity|]. destruct (z <? x) eqn:Ezx; [discriminate|].
    now apply (IH b c).
Qed.

Section SortSorted.
  Context {A : Type} (key : A -> str).
  Definition kle (x y : A) : Prop := str_leb (key x) (key y) = true.

  Lemma insert_by_sorted : forall x l, StronglySorted kle l -> StronglySorted kle (insert_by key x l).
  Proof.
    intros x. induction l as [|y l IH]; intro Hs; cbn.
    - constructor; constructor.
    - inversion Hs as [|? ? Hs' Hall]; subst.
      destruct (str_leb (key x) (key y)) eqn:E.
      + constructor; [assumption|]. constructor; [exact E|].
        eapply Forall_impl; [|exact Hall]. intros z Hz. unfold kle in *. eapply str_leb_trans; eassumption.
      + constructor; [now apply IH|].
        apply (Permutation_Forall (Permutation_sym (insert_by_perm key x l))).
        constructor; [|assumption]. unfold kle. now apply str_leb_total.
  Qed.

  Lemma sort_by_sorted : forall l, StronglySorted kle (sort_by key l).
  Proof. induction l as [|x l IH]; cbn; [constructor|]. now apply insert_by_sorted. Qed.

  Lemma insert_by_hd : forall x l, Forall (kle x) l -> insert_by key x l = x :: l.
  Proof.
    intros x [|y l] H; cbn; [reflexivity|]. inversion H; subst. unfold kle in *. now rewrite H2.
  Qed.

  (** sorting a sorted list changes nothing *)
  Lemma sort_by_id : forall l, StronglySorted kle l -> sort_by key l = l.
  Proof.
    induction l as [|x l IH]; intro Hs; cbn; [reflexivity|].
    inversion Hs; subst. rewrite IH by assumption. now apply insert_by_hd.
  Qed.

  Lemma sort_by_idem : forall l, sort_by key (sort_by key l) = sort_by key l.
  Proof. intro l. apply sort_by_id, sort_by_sorted. Qed.
End SortSorted.

(** sorting depends on the keys only *)
Lemma sort_by_ext : forall {A : Type} (k1 k2 : A -> str) l,
  (forall x, In x l -> k1 x = k2 x) -> sort_by k1 l = sort_by k2 l.
Proof.
  intros A k1 k2. induction l as [|x l IH]; intro H; cbn; [reflexivity|].
  rewrite IH by (intros y Hy; apply H; now right).
  assert (forall m, (forall y, In y m -> k1 y = k2 y) -> insert_by k1 x m = insert_by k2 x m) as Hins.
  { induction m as [|y m IHm]; intro Hm; cbn; [reflexivity|].
    rewrite (H x (or_introl eq_refl)), (Hm y (or_introl eq_refl)).
    destruct (str_leb (k2 x) (k2 y)); [reflexivity|]. f_equal. apply IHm. intros z Hz. apply Hm. now right. }
  apply Hins. intros y Hy. apply H. right. now apply (sort_by_in k2 l y).
Qed.

(** * label tables *)
Lemma lab_get_in : forall tbl l, NoDup (map el_name tbl) -> In l tbl -> lab_get tbl (el_name l) = Some l.
Proof.
  induction tbl as [|x tbl IH]; intros l Hnd Hin; [inversion Hin|]. cbn in *. inversion Hnd as [|? ? Hn Hd]; subst.
  destruct Hin as [->|Hin].
  - now rewrite str_eqb_refl.
  - destruct (str_eqb (el_name x) (el_name l)) eqn:E.
    + apply str_eqb_eq in E. exfalso. apply Hn. rewrite E. now apply in_map.
    + now apply IH.
Qed.

Lemma lab_get_some : forall tbl name l, lab_get tbl name = Some l -> In l tbl /\ el_name l = name.
Proof.
  induction tbl as [|x tbl IH]; intros name l H; cbn in H; [discriminate|].
  destruct (str_eqb (el_name x) name) eqn:E.
  - inversion H; subst. apply str_eqb_eq in E. split; [now left|assumption].
  - destruct (IH _ _ H) as [H1 H2]. split; [now right|assumption].
Qed.

Lemma lab_get_none : forall tbl name, lab_get tbl name = None <-> ~ In name (map el_name tbl).
Proof.
  induction tbl as [|x tbl IH]; intros name; cbn.
  - split; [intros _ []|reflexivity].
  - destruct (str_eqb (el_name x) name) eqn:E.
    + apply str_eqb_eq in E. split; [discriminate|]. intro H. exfalso. apply H. now left.
    + apply str_eqb_neq in E. rewrite IH. split.
      * intros H [H1|H1]; contradiction.
      * intros H H1. apply H. now right.
Qed.

Lemma lab_set_fresh : forall tbl l, ~ In (el_name l) (map el_name tbl) -> lab_set tbl l = tbl ++ [l].
Proof.
  induction tbl as [|x tbl IH]; intros l H; cbn; [reflexivity|].
  destruct (str_eqb (el_name x) (el_name l)) eqn:E.
  - apply str_eqb_eq in E. exfalso. apply H. now left.
  - rewrite IH; [reflexivity|]. intro H1. apply H. now right.
Qed.

Lemma lab_set_same : forall tbl l, NoDup (map el_name tbl) -> In l tbl -> lab_set tbl l = tbl.
Proof.
  induction tbl as [|x tbl IH]; intros l Hnd Hin; [inversion Hin|]. cbn in *. inversion Hnd as [|? ? Hn Hd]; subst.
  destruct Hin as [->|Hin].
  - now rewrite str_eqb_refl.
  - destruct (str_eqb (el_name x) (el_name l)) eqn:E.
    + apply str_eqb_eq in E. exfalso. apply Hn. rewrite E. now apply in_map.
    + now rewrite IH.
Qed.
