(** C09 -- [multi_solve_model] returns the least solution of the assembled dense system.
    - [multi_solve_belim]: block by block, [multi_solve_model d order transpose a b] is the
      block elimination [belim] (Proofs/SolveBlock.v, N x N matrix instance of
      Proofs/SolveMatInst.v) of the block system [blockA transpose a], [semB b], for every
      bound N of the block sizes (from Proofs/MultiSolveLU.v; here the flattened copies
      [flat_a]/[flat_b] and the [transpose] flag are accounted for);
    - [multi_solve_least]: hence, by [mat_block_elimination], the assembled vector is the least
      solution of  x = A x + b  for the assembled dense system [assemble2]/[assemble1];
    - [multi_solve_is_dense_solve]: hence it equals [solve_model] of the assembled system
      (the fact the correspondence checks per case: verdict 13 is impossible,
      [multi_solve_never_13]). *)
From Coq Require Import List Arith Lia Bool PeanoNat Ring Setoid Morphisms Permutation.
Import ListNotations.
Require Import Fggs.Model.Semiring Fggs.Model.Solve Fggs.Model.MultiSolve.
Require Import Fggs.Proofs.SolveElim Fggs.Proofs.SolveRefine Fggs.Proofs.SolveBlock
               Fggs.Proofs.SolveMatInst Fggs.Proofs.SolveStar Fggs.Proofs.MultiMV
               Fggs.Proofs.MultiSolveSem Fggs.Proofs.MultiSolveLU Fggs.Proofs.MultiOrder.

(** * flat indices *)
Section Flat.
Context {S : Type} (o : sr_ops S).
Hypothesis Hring : sr_ring o.
Let SRth : semi_ring_theory (zero o) (one o) (add o) (mul o) (@eq S) := Hring.
Add Ring Sring8 : SRth.

Lemma total_cons a n d : total ((a, n) :: d) = n + total d.
Proof. reflexivity. Qed.

Lemma dim_le_total d x : dim d x <= total d.
Proof.
  induction d as [|[a n] d IH]; [cbn; lia|]. rewrite total_cons. cbn [dim].
  destruct (Nat.eqb a x); lia.
Qed.

Lemma offset_lt d x p : In x (map fst d) -> p < dim d x -> offset d x + p < total d.
Proof.
  induction d as [|[a n] d IH]; intros Hx Hp; [destruct Hx|].
  rewrite total_cons. cbn [dim offset] in *. destruct (Nat.eqb_spec a x) as [->|Hne]; [lia|].
  destruct Hx as [E|Hx]; [cbn in E; congruence|]. specialize (IH Hx Hp). lia.
Qed.

Lemma locate_offset d x p : In x (map fst d) -> p < dim d x -> locate d (offset d x + p) = (x, p).
Proof.
  induction d as [|[a n] d IH]; intros Hx Hp; [destruct Hx|].
  cbn [dim offset locate] in *. destruct (Nat.eqb_spec a x) as [->|Hne].
  - destruct (Nat.ltb_spec (0 + p) n); [reflexivity|lia].
  - destruct Hx as [E|Hx]; [cbn in E; congruence|].
    destruct (Nat.ltb_spec (n + offset d x + p) n); [lia|].
    replace (n + offset d x + p - n) with (offset d x + p) by lia. apply IH; assumption.
Qed.

Lemma locate_spec d i : NoDup (map fst d) -> i < total d ->
  In (fst (locate d i)) (map fst d) /\ snd (locate d i) < dim d (fst (locate d i))
  /\ i = offset d (fst (locate d i)) + snd (locate d i).
Proof.
  revert i. induction d as [|[a n] d IH]; intros i ND Hi; [cbn in Hi; lia|].
  rewrite total_cons in Hi. cbn [map fst] in ND. inversion ND as [|? ? Ha ND']; subst.
  cbn [locate]. destruct (Nat.ltb_spec i n) as [Hlt|Hge].
  - cbn [fst snd dim offset map]. rewrite Nat.eqb_refl. split; [now left|split; lia].
  - destruct (IH (i - n) ND' ltac:(lia)) as (H1 & H2 & H3).
    set (x := fst (locate d (i - n))) in *. set (p := snd (locate d (i - n))) in *.
    assert (Hne : a <> x) by (intros ->; contradiction).
    cbn [dim offset map fst]. destruct (Nat.eqb_spec a x); [contradiction|].
    split; [now right|split; [exact H2|lia]].
Qed.

Lemma sumS_shift n m (f : nat -> S) :
  sumS o nat (seq n m) f = sumS o nat (seq 0 m) (fun i => f (n + i)).
Proof.
  revert n f. induction m as [|m IH]; intros n f; [reflexivity|].
  cbn [seq]. rewrite !sumS_cons. rewrite (IH (Datatypes.S n) f), (IH 1 (fun i => f (n + i))). f_equal; [f_equal; lia|].
  apply sumS_ext. intros i _. f_equal. lia.
Qed.

(** a sum over the flat indices is a sum over the keys and the positions inside the blocks *)
Lemma sum_total d (f : nat -> S) : NoDup (map fst d) ->
  sumS o nat (seq 0 (total d)) f
  = sumS o nat (map fst d) (fun y => sumS o nat (seq 0 (dim d y)) (fun q => f (offset d y + q))).
Proof.
  revert f. induction d as [|[a n] d IH]; intros f ND; [reflexivity|].
  cbn [map fst] in ND. inversion ND as [|? ? Ha ND']; subst.
  rewrite total_cons. rewrite seq_app, (sumS_app o Hring). cbn [map fst]. rewrite sumS_cons.
  f_equal.
  - cbn [dim offset]. rewrite Nat.eqb_refl. reflexivity.
  - rewrite (sumS_shift (0 + n) (total d)). rewrite (IH _ ND').
    apply sumS_ext. intros y Hy.
    assert (Hne : a <> y) by (intros ->; contradiction).
    cbn [dim offset]. destruct (Nat.eqb_spec a y); [contradiction|].
    apply sumS_ext. intros q _. f_equal. lia.
Qed.

(** * the flattened copies made by multi_solve *)
Lemma lookup1_notin (b : @mt1 S) k : ~ In k (map fst b) -> lookup1 b k = None.
Proof.
  induction b as [|[a v] b IH]; intros H; [reflexivity|]. cbn [lookup1].
  destruct (Nat.eqb_spec a k) as [->|]; [exfalso; apply H; now left|].
  apply IH. intros H'. apply H. now right.
Qed.

Lemma lookup1_fold_set1 (b : @mt1 S) : NoDup (map fst b) -> forall acc k,
  lookup1 (fold_left (fun acc e => set1 acc (fst e) (snd e)) b acc) k
  = match lookup1 b k with Some v => Some v | None => lookup1 acc k end.
Proof.
  induction b as [|[a v] b IH]; intros ND acc k; [reflexivity|].
  cbn [map fst] in ND. inversion ND as [|? ? Ha ND']; subst.
  cbn [fold_left fst snd lookup1]. rewrite (IH ND'). rewrite lookup1_set1.
  destruct (Nat.eqb_spec a k) as [->|]; [|reflexivity].
  rewrite (lookup1_notin b k Ha). reflexivity.
Qed.

Lemma lookup1_flat_b (b : @mt1 S) k : NoDup (map fst b) -> lookup1 (flat_b b) k = lookup1 b k.
Proof.
  intros ND. unfold flat_b. rewrite (lookup1_fold_set1 b ND). destruct (lookup1 b k); reflexivity.
Qed.

Variable d : dims_t.

Definition flat_step (tr : bool) (acc : @mt2 S) (e : (key * key) * mat S) : @mt2 S :=
  let '((x, y), t) := e in
  if tr then set2 acc y x (transpose_model o (dim d x) (dim d y) t) else set2 acc x y t.

Lemma flat_a_fold tr a : flat_a o d tr a = fold_left (flat_step tr) a [].
Proof. reflexivity. Qed.

Lemma lookup2_fold_false (a : @mt2 S) : NoDup (map fst a) -> forall acc x y,
  lookup2 (fold_left (flat_step false) a acc) x y
  = match lookup2 a x y with Some m => Some m | None => lookup2 acc x y end.
Proof.
  induction a as [|[[u v] t] a IH]; intros ND acc x y; [reflexivity|].
  cbn [map fst] in ND. inversion ND as [|? ? Ha ND']; subst.
  cbn [fold_left flat_step lookup2]. rewrite (IH ND'). rewrite lookup2_set2.
  destruct (Nat.eqb u x && Nat.eqb v y) eqn:E; [|reflexivity].
  apply andb_true_iff in E. destruct E as [E1 E2]. apply Nat.eqb_eq in E1. apply Nat.eqb_eq in E2. subst.
  rewrite (lookup2_notin a x y Ha). reflexivity.
Qed.

Lemma fold_true_swap (a : @mt2 S) : forall acc,
  fold_left (flat_step true) a acc = fold_left (flat_step false) (map (swapT o d d) a) acc.
Proof.
  induction a as [|[[x y] t] a IH]; intros acc; [reflexivity|].
  cbn [map fold_left swapT flat_step]. apply IH.
Qed.

(** the reading of the flattened copy: the blocks of [a], transposed if [transpose] *)
Lemma semA_flat tr a x y : NoDup (map fst a) -> forall i j,
  semA o d (flat_a o d tr a) x y i j
  = if tr then semA o d a y x j i else semA o d a x y i j.
Proof.
  intros ND i j. rewrite flat_a_fold. destruct tr.
  - rewrite fold_true_swap.
    assert (ND' : NoDup (map fst (map (swapT o d d) a))).
    { rewrite map_fst_swapT.
      replace (map (fun e : key * key * mat S => (snd (fst e), fst (fst e))) a)
        with (map (fun k : key * key => (snd k, fst k)) (map fst a)) by (rewrite map_map; reflexivity).
      apply NoDup_swap. exact ND. }
    unfold semA, getm. rewrite (lookup2_fold_false _ ND'). rewrite lookup2_swapT.
    destruct (lookup2 a y x) as [t|].
    + apply pad2_transpose.
    + cbn [lookup2]. rewrite !pad2_zeros. reflexivity.
  - unfold semA, getm. rewrite (lookup2_fold_false a ND). destruct (lookup2 a x y); reflexivity.
Qed.

(** the block system solved by multi_solve: block (x, y) of the coefficient matrix *)
Definition blockA (tr : bool) (a : @mt2 S) : key -> key -> nat -> nat -> S :=
  fun x y => if tr then ct (semA o d a y x) else semA o d a x y.

Lemma blockA_out_r tr a x y p q : dim d y <= q -> blockA tr a x y p q = zero o.
Proof.
  intros H. unfold blockA. destruct tr.
  - unfold ct, semA. apply pad2_out_l. exact H.
  - unfold semA. apply pad2_out_r. exact H.
Qed.
Lemma blockA_out_l tr a x y p q : dim d x <= p -> blockA tr a x y p q = zero o.
Proof.
  intros H. unfold blockA. destruct tr.
  - unfold ct, semA. apply pad2_out_r. exact H.
  - unfold semA. apply pad2_out_l. exact H.
Qed.

(** entries of the assembled dense system *)
Lemma assemble1_get b x p : In x (map fst d) -> p < dim d x ->
  get1 o (assemble1 o d b) (offset d x + p) = semb o d b x p.
Proof.
  intros Hx Hp. unfold assemble1. rewrite get1_tab1 by (apply offset_lt; assumption).
  rewrite locate_offset by assumption. unfold semb. rewrite pad1_in by exact Hp. reflexivity.
Qed.

Lemma assemble2g_get a x y p q : In x (map fst d) -> In y (map fst d) -> p < dim d x -> q < dim d y ->
  get2 o (assemble2g o d d a) (offset d x + p) (offset d y + q) = get2 o (getm o d d a x y) p q.
Proof.
  intros Hx Hy Hp Hq. unfold assemble2g. rewrite get2_tab2 by (apply offset_lt; assumption).
  rewrite !locate_offset by assumption. reflexivity.
Qed.

Lemma assemble2_get tr a x y p q : In x (map fst d) -> In y (map fst d) -> p < dim d x -> q < dim d y ->
  get2 o (assemble2 o d tr a) (offset d x + p) (offset d y + q) = blockA tr a x y p q.
Proof.
  intros Hx Hy Hp Hq. unfold assemble2, blockA. destruct tr.
  - unfold transpose_model. rewrite get2_tab2 by (apply offset_lt; assumption).
    rewrite assemble2g_get by assumption. unfold ct, semA. rewrite pad2_in by assumption. reflexivity.
  - rewrite assemble2g_get by assumption. unfold semA. rewrite pad2_in by assumption. reflexivity.
Qed.

End Flat.

Section Dense.
Context {S : Type} (o : sr_ops S).
Hypothesis Hring : sr_ring o.
Hypothesis Hord : sr_ordered o.
Hypothesis Hstar : sr_star o.
Let SRth : semi_ring_theory (zero o) (one o) (add o) (mul o) (@eq S) := Hring.
Add Ring Sring9 : SRth.
Notation "a ⊕ b" := (add o a b) (at level 50, left associativity).
Notation "a ⊗ b" := (mul o a b) (at level 40, left associativity).

Variable d : dims_t.

Notation BEL N := (belim coef (nvec N) (cadd o) (cmul o N) (act o N) (vadd o N) (vzero o N)
                         (solve1 o N) (rstar o N) key Nat.eq_dec).
Notation SUMV N := (sumV (nvec N) (vadd o N) (vzero o N) key).

(** C09_multi_solve_refines, block level *)
Theorem multi_solve_belim N order tr a b :
  (forall x, dim d x <= N) -> NoDup order -> NoDup (map fst a) -> NoDup (map fst b) ->
  forall x, In x order ->
    semB o d N (multi_solve_model o d order tr a b) x
    = BEL N order (blockA o d tr a) (semB o d N b) x.
Proof.
  intros HN ND NDa NDb.
  unfold multi_solve_model. cbv zeta. rewrite (back_loop_gen o d).
  destruct (lu_back_belim o Hring Hord Hstar d N HN order ND
              (flat_a o d tr a) (flat_b b) (blockA o d tr a) (semB o d N b) []
              (NoDup_nil _) (fun _ _ H => H)) as [C1 _].
  - intros x y _ _ i j _ _. rewrite (semA_flat o d tr a x y NDa). unfold blockA. destruct tr; reflexivity.
  - intros x _. apply semB_lookup. apply lookup1_flat_b. exact NDb.
  - exact C1.
Qed.

(** * from the block system to the assembled dense system *)
Lemma gv_vzero N i : i < N -> gv o N (vzero o N) i = zero o.
Proof. intros H. unfold vzero. exact (gv_mkV o N _ i H). Qed.

Lemma gv_sumV N l (f : key -> nvec N) p : p < N ->
  gv o N (SUMV N l f) p = sumS o nat l (fun y => gv o N (f y) p).
Proof.
  intros Hp. induction l as [|y l IH]; cbn [sumV].
  - apply gv_vzero. exact Hp.
  - rewrite gv_vadd by exact Hp. rewrite IH. reflexivity.
Qed.

Lemma block_row_dense N tr a b order (xs : key -> nvec N) (Xd : nat -> S) :
  (forall x, dim d x <= N) -> NoDup (map fst d) -> Permutation order (map fst d) ->
  (forall y q, In y (map fst d) -> q < dim d y -> Xd (offset d y + q) = gv o N (xs y) q) ->
  forall x p, In x (map fst d) -> p < dim d x ->
  gv o N (vadd o N (SUMV N order (fun y => act o N (blockA o d tr a x y) (xs y))) (semB o d N b x)) p
  = sum_n o (total d) (fun J => get2 o (assemble2 o d tr a) (offset d x + p) J ⊗ Xd J)
    ⊕ get1 o (assemble1 o d b) (offset d x + p).
Proof.
  intros HN NDd P HX x p Hx Hp.
  assert (HpN : p < N) by (specialize (HN x); lia).
  rewrite gv_vadd, gv_sumV, gv_semB by exact HpN.
  rewrite (assemble1_get o d b x p Hx Hp). f_equal.
  rewrite sum_n_sumS, (sum_total o Hring d _ NDd).
  rewrite (sumS_perm o Hring nat _ _ _ P).
  apply sumS_ext. intros y Hy. rewrite gv_act by exact HpN.
  rewrite (sumS_pad o Hring (dim d y) N) by
    (try apply HN; intros q Hq; rewrite (blockA_out_r o d tr a x y p q Hq); ring).
  apply sumS_ext. intros q Hq. apply in_seq in Hq.
  rewrite (assemble2_get o d tr a x y p q) by (try assumption; lia).
  rewrite HX by (try assumption; lia). reflexivity.
Qed.

Lemma perm_of_enum (order keys : list key) :
  NoDup keys -> NoDup order -> (forall x, In x order <-> In x keys) -> Permutation order keys.
Proof. intros NDk NDo H. apply NoDup_Permutation; assumption. Qed.

(** C09_multi_solve_refines: the assembled result is the least solution of the assembled system *)
Theorem multi_solve_least order tr a b :
  NoDup (map fst d) -> NoDup order -> (forall x, In x order <-> In x (map fst d)) ->
  NoDup (map fst a) -> NoDup (map fst b) ->
  least_spec o (total d) (assemble2 o d tr a) (assemble1 o d b)
             (get1 o (assemble1 o d (multi_solve_model o d order tr a b))).
Proof.
  intros NDd ND Henum NDa NDb.
  set (N := total d).
  assert (HN : forall x, dim d x <= N) by (intros x; apply dim_le_total).
  assert (P : Permutation order (map fst d)) by (apply perm_of_enum; assumption).
  set (out := multi_solve_model o d order tr a b).
  set (A := blockA o d tr a). set (B := semB o d N b).
  set (xs := BEL N order A B).
  assert (E1 : forall x, In x order -> semB o d N out x = xs x)
    by (apply multi_solve_belim; assumption).
  destruct (mat_block_elimination o Hring Hord Hstar N key Nat.eq_dec order A B ND) as [Hsol Hleast].
  fold xs in Hsol, Hleast.
  assert (HX : forall y q, In y (map fst d) -> q < dim d y ->
                 get1 o (assemble1 o d out) (offset d y + q) = gv o N (xs y) q).
  { intros y q Hy Hq. rewrite (assemble1_get o d out y q Hy Hq).
    rewrite <- (E1 y (proj2 (Henum y) Hy)).
    rewrite gv_semB by (specialize (HN y); lia). reflexivity. }
  split.
  - intros i Hi. destruct (locate_spec d i NDd Hi) as (Hx & Hp & Ei).
    set (x := fst (locate d i)) in *. set (p := snd (locate d i)) in *.
    rewrite Ei at 1. rewrite (HX x p Hx Hp).
    rewrite (Hsol x (proj2 (Henum x) Hx)). unfold A at 1, B at 1.
    rewrite (block_row_dense N tr a b order xs (get1 o (assemble1 o d out)) HN NDd P HX x p Hx Hp).
    rewrite <- Ei. reflexivity.
  - intros Y HY i Hi. destruct (locate_spec d i NDd Hi) as (Hx & Hp & Ei).
    set (x := fst (locate d i)) in *. set (p := snd (locate d i)) in *.
    set (Yb := fun y => mkV N (fun q => if Nat.ltb q (dim d y) then Y (offset d y + q) else zero o)).
    assert (HYb : forall y q, q < N -> gv o N (Yb y) q = if Nat.ltb q (dim d y) then Y (offset d y + q) else zero o).
    { intros y q Hq. unfold Yb. exact (gv_mkV o N _ q Hq). }
    assert (HYX : forall y q, In y (map fst d) -> q < dim d y -> Y (offset d y + q) = gv o N (Yb y) q).
    { intros y q Hy Hq. rewrite HYb by (specialize (HN y); lia).
      destruct (Nat.ltb_spec q (dim d y)); [reflexivity|lia]. }
    assert (Hpre : bis_presol coef (nvec N) (act o N) (vadd o N) (vzero o N) (vle o N) key order A B Yb).
    { intros x' Hx' p' Hp'. apply Henum in Hx'. rewrite (HYb x' p' Hp').
      destruct (Nat.ltb_spec p' (dim d x')) as [Hin|Hout].
      - unfold A, B.
        rewrite (block_row_dense N tr a b order Yb Y HN NDd P HYX x' p' Hx' Hin).
        apply HY. apply offset_lt; assumption.
      - rewrite gv_vadd, gv_sumV by exact Hp'. unfold B. rewrite gv_semB by exact Hp'.
        unfold semb. rewrite pad1_out by exact Hout.
        rewrite (sumS_all_zero o Hring).
        + replace (zero o ⊕ zero o) with (zero o) by ring. apply (le_refl o Hord).
        + intros y _. rewrite gv_act by exact Hp'. apply (sumS_all_zero o Hring). intros q _.
          unfold A. rewrite (blockA_out_l o d tr a x' y p' q Hout). ring. }
    rewrite Ei. rewrite (HX x p Hx Hp). rewrite (HYX x p Hx Hp).
    apply (Hleast Yb Hpre x (proj2 (Henum x) Hx) p). specialize (HN x). lia.
Qed.

(** ... hence the dense solver's answer on the assembled system *)
Theorem multi_solve_is_dense_solve order tr a b :
  NoDup (map fst d) -> NoDup order -> (forall x, In x order <-> In x (map fst d)) ->
  NoDup (map fst a) -> NoDup (map fst b) ->
  forall i, i < total d ->
    get1 o (assemble1 o d (multi_solve_model o d order tr a b)) i
    = get1 o (solve_model o (total d) (assemble2 o d tr a) (assemble1 o d b)) i.
Proof.
  intros NDd ND Henum NDa NDb.
  apply (least_spec_unique o Hord (total d) (assemble2 o d tr a) (assemble1 o d b)).
  - apply multi_solve_least; assumption.
  - apply (solve_model_least_spec o Hring Hord Hstar).
Qed.

(** every elimination order gives the same assembled vector *)
Corollary multi_solve_order_irrelevant order order' tr a b :
  NoDup (map fst d) -> NoDup order -> (forall x, In x order <-> In x (map fst d)) ->
  NoDup order' -> (forall x, In x order' <-> In x (map fst d)) ->
  NoDup (map fst a) -> NoDup (map fst b) ->
  forall i, i < total d ->
    get1 o (assemble1 o d (multi_solve_model o d order tr a b)) i
    = get1 o (assemble1 o d (multi_solve_model o d order' tr a b)) i.
Proof.
  intros NDd ND H ND' H' NDa NDb i Hi.
  rewrite !multi_solve_is_dense_solve by assumption. reflexivity.
Qed.

(** the run-time cross-check of the correspondence (verdict 13 of [multi_solve_check_exact]:
    "the block model with the correct star differs from the dense model") can never fire *)
Theorem multi_solve_never_13 (eqb : S -> S -> bool) order tr a b :
  (forall x, eqb x x = true) ->
  NoDup (map fst d) -> NoDup order -> (forall x, In x order <-> In x (map fst d)) ->
  NoDup (map fst a) -> NoDup (map fst b) ->
  vec_all2 o eqb (total d) (assemble1 o d (multi_solve_model o d order tr a b))
           (solve_model o (total d) (assemble2 o d tr a) (assemble1 o d b)) = true.
Proof.
  intros Hrefl NDd ND Henum NDa NDb. unfold vec_all2. apply forallb_forall. intros i Hi.
  apply in_seq in Hi. rewrite multi_solve_is_dense_solve by (try assumption; lia). apply Hrefl.
Qed.

(** * the order the code uses *)
Lemma get2_zeros2_any n m p q : get2 o (zeros2 o n m) p q = zero o.
Proof.
  destruct (Nat.ltb_spec p n) as [Hp|Hp]; [destruct (Nat.ltb_spec q m) as [Hq|Hq]|].
  - apply get2_zeros2; assumption.
  - unfold get2, zeros2, tab2.
    rewrite (nth_map_seq (fun i => map (fun _ => zero o) (seq 0 m)) 0 n p []) by exact Hp.
    apply nth_overflow. rewrite map_length, seq_length. exact Hq.
  - unfold get2, zeros2, tab2. rewrite (nth_overflow _ []) by (rewrite map_length, seq_length; exact Hp).
    destruct q; reflexivity.
Qed.

(** the side facts behind the presence tests of multi_solve: the dense solver on an absent
    (zero) diagonal block is the identity, on an absent (zero) right-hand side it gives zero,
    and products with an absent block vanish *)
Lemma solve_model_zero_matrix n b i : i < n ->
  get1 o (solve_model o n (zeros2 o n n) b) i = get1 o b i.
Proof.
  intros Hi. rewrite solve_model_gjf by exact Hi. apply (gjf_zero_cols o Hring).
  intros k _ i'. apply get2_zeros2_any.
Qed.
Lemma solve_model_zero_rhs n A i : i < n ->
  get1 o (solve_model o n A (zeros1 o n)) i = zero o.
Proof.
  intros Hi. rewrite solve_model_gjf by exact Hi. apply (gjf_zero_rhs o Hring).
  intros i'. unfold get1, zeros1, tab1. destruct (Nat.ltb_spec i' n) as [H|H].
  - rewrite (nth_map_seq (fun _ => zero o) 0 n i' (zero o)) by exact H. reflexivity.
  - apply nth_overflow. rewrite map_length, seq_length. exact H.
Qed.
Lemma mm_model_zero_l p q r B i k : i < p -> k < r ->
  get2 o (mm_model o p q r (zeros2 o p q) B) i k = zero o.
Proof.
  intros Hi Hk. unfold mm_model. rewrite get2_tab2 by assumption.
  apply (sum_n_zero o Hring). intros j _. rewrite get2_zeros2_any. ring.
Qed.
Lemma mm_model_zero_r p q r A i k : i < p -> k < r ->
  get2 o (mm_model o p q r A (zeros2 o q r)) i k = zero o.
Proof.
  intros Hi Hk. unfold mm_model. rewrite get2_tab2 by assumption.
  apply (sum_n_zero o Hring). intros j _. rewrite get2_zeros2_any. ring.
Qed.

(** no block at all in [a] ([_order_nonterminals] returns [] then): the result is [b] *)
Theorem multi_solve_empty tr b :
  NoDup (map fst b) ->
  least_spec o (total d) (assemble2 o d tr []) (assemble1 o d b)
             (get1 o (assemble1 o d (multi_solve_model o d [] tr [] b))).
Proof.
  intros NDb.
  change (multi_solve_model o d [] tr [] b) with (flat_b b).
  assert (HX : forall i, i < total d -> get1 o (assemble1 o d (flat_b b)) i = get1 o (assemble1 o d b) i).
  { intros i Hi. unfold assemble1. rewrite !get1_tab1 by exact Hi.
    destruct (locate d i) as [x p]. unfold getv. rewrite lookup1_flat_b by exact NDb. reflexivity. }
  assert (HA : forall i j, i < total d -> j < total d -> get2 o (assemble2 o d tr []) i j = zero o).
  { intros i j Hi Hj.
    assert (G : forall i j, i < total d -> j < total d -> get2 o (assemble2g o d d []) i j = zero o).
    { intros i' j' Hi' Hj'. unfold assemble2g. rewrite get2_tab2 by assumption.
      destruct (locate d i') as [x p]. destruct (locate d j') as [y q].
      unfold getm. cbn [lookup2]. apply get2_zeros2_any. }
    unfold assemble2. destruct tr; [|apply G; assumption].
    unfold transpose_model. rewrite get2_tab2 by assumption. apply G; assumption. }
  assert (Hsum : forall (y : nat -> S) i, i < total d ->
            sum_n o (total d) (fun j => get2 o (assemble2 o d tr []) i j ⊗ y j) = zero o).
  { intros y i Hi. apply (sum_n_zero o Hring). intros j Hj. rewrite HA by assumption. ring. }
  split.
  - intros i Hi. rewrite Hsum by exact Hi. rewrite HX by exact Hi. ring.
  - intros Y HY i Hi. specialize (HY i Hi). rewrite Hsum in HY by exact Hi. rewrite HX by exact Hi.
    replace (zero o ⊕ get1 o (assemble1 o d b) i) with (get1 o (assemble1 o d b) i) in HY by ring.
    exact HY.
Qed.

(** with the elimination order computed by (the model of) [_order_nonterminals], whatever the
    iteration order of Python's sets *)
Theorem multi_solve_code_order (iter : list key -> list key) tr a b l :
  (forall s x, In x (iter s) -> In x s) -> (forall s x, In x s -> In x (iter s)) ->
  (forall s, NoDup s -> NoDup (iter s)) ->
  NoDup (map fst d) -> NoDup (map fst a) -> NoDup (map fst b) ->
  (forall e, In e (map fst a) -> In (snd e) (map fst d)) ->
  order_nonterminals_model iter (map fst a) (map fst d) = Some l ->
  least_spec o (total d) (assemble2 o d tr a) (assemble1 o d b)
             (get1 o (assemble1 o d (multi_solve_model o d l tr a b))).
Proof.
  intros I1 I2 I3 NDd NDa NDb Hk Hl.
  destruct a as [|e a'].
  - cbn in Hl. injection Hl as <-. apply multi_solve_empty. exact NDb.
  - destruct (order_model_enumerates iter I1 I2 I3 (map fst (e :: a')) (map fst d) l NDd Hk
                ltac:(discriminate) Hl) as [NDl Henum].
    apply multi_solve_least; assumption.
Qed.

(** * the least-solution property read block by block (the form used by C02's [linear]) *)
Definition block_sol (tr : bool) (a : @mt2 S) (b : @mt1 S) (xs : key -> nat -> S) : Prop :=
  forall n p, In n (map fst d) -> p < dim d n ->
    xs n p = sumS o nat (map fst d)
               (fun m => sum_n o (dim d m) (fun q => blockA o d tr a n m p q ⊗ xs m q))
             ⊕ semb o d b n p.
Definition block_presol (tr : bool) (a : @mt2 S) (b : @mt1 S) (ys : key -> nat -> S) : Prop :=
  forall n p, In n (map fst d) -> p < dim d n ->
    le o (sumS o nat (map fst d)
            (fun m => sum_n o (dim d m) (fun q => blockA o d tr a n m p q ⊗ ys m q))
          ⊕ semb o d b n p) (ys n p).

Lemma row_regroup tr a b (Xd : nat -> S) n p :
  NoDup (map fst d) -> In n (map fst d) -> p < dim d n ->
  sum_n o (total d) (fun J => get2 o (assemble2 o d tr a) (offset d n + p) J ⊗ Xd J)
  ⊕ get1 o (assemble1 o d b) (offset d n + p)
  = sumS o nat (map fst d)
      (fun m => sum_n o (dim d m) (fun q => blockA o d tr a n m p q ⊗ Xd (offset d m + q)))
    ⊕ semb o d b n p.
Proof.
  intros NDd Hn Hp. rewrite (assemble1_get o d b n p Hn Hp). f_equal.
  rewrite sum_n_sumS, (sum_total o Hring d _ NDd).
  apply sumS_ext. intros m Hm. rewrite sum_n_sumS. apply sumS_ext. intros q Hq. apply in_seq in Hq.
  rewrite (assemble2_get o d tr a n m p q) by (try assumption; lia). reflexivity.
Qed.

Theorem block_least_of_dense tr a b (sol : @mt1 S) :
  NoDup (map fst d) ->
  least_spec o (total d) (assemble2 o d tr a) (assemble1 o d b) (get1 o (assemble1 o d sol)) ->
  block_sol tr a b (semb o d sol)
  /\ forall ys, block_presol tr a b ys ->
       forall n p, In n (map fst d) -> p < dim d n -> le o (semb o d sol n p) (ys n p).
Proof.
  intros NDd [Hs Hl]. split.
  - intros n p Hn Hp. rewrite <- (assemble1_get o d sol n p Hn Hp).
    rewrite (Hs (offset d n + p) (offset_lt d n p Hn Hp)).
    rewrite (row_regroup tr a b _ n p NDd Hn Hp). f_equal.
    apply sumS_ext. intros m Hm. rewrite !sum_n_sumS. apply sumS_ext. intros q Hq. apply in_seq in Hq.
    rewrite (assemble1_get o d sol m q) by (try assumption; lia). reflexivity.
  - intros ys Hy n p Hn Hp.
    set (Y := fun i => ys (fst (locate d i)) (snd (locate d i))).
    assert (HY : forall m q, In m (map fst d) -> q < dim d m -> Y (offset d m + q) = ys m q).
    { intros m q Hm Hq. unfold Y. rewrite (locate_offset d m q Hm Hq). reflexivity. }
    rewrite <- (assemble1_get o d sol n p Hn Hp). rewrite <- (HY n p Hn Hp).
    apply Hl; [|apply offset_lt; assumption].
    intros i Hi. destruct (locate_spec d i NDd Hi) as (Hx & Hq & Ei).
    set (x := fst (locate d i)) in *. set (q := snd (locate d i)) in *.
    rewrite Ei. rewrite (row_regroup tr a b Y x q NDd Hx Hq). rewrite (HY x q Hx Hq).
    rewrite (sumS_ext o nat (map fst d)
               (fun m => sum_n o (dim d m) (fun q0 => blockA o d tr a x m q q0 ⊗ Y (offset d m + q0)))
               (fun m => sum_n o (dim d m) (fun q0 => blockA o d tr a x m q q0 ⊗ ys m q0))).
    + apply Hy; assumption.
    + intros m Hm. rewrite !sum_n_sumS. apply sumS_ext. intros q0 Hq0. apply in_seq in Hq0.
      rewrite HY by (try assumption; lia). reflexivity.
Qed.

End Dense.
