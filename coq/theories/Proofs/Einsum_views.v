(** C07 (c): the einsum over strided views as a sum over physical environments
    ([einsum_views_sum]) and soundness of [reduce_equation] / [post_einsum]
    ([reduce_equation_sound]): for a sum-free equation, dropping the dimensions that have
    stride 0 or size 1 and re-expanding the output gives the same tensor. *)
From Coq Require Import List Arith Bool PeanoNat Lia Permutation Ring Ring_theory PArith.
Import ListNotations.
Require Import Fggs.Model.Semiring Fggs.Model.SumProduct.
Require Import Fggs.Proofs.BigSum Fggs.Proofs.SP_trees.
Require Import Fggs.Model.Axis Fggs.Model.PTensor Fggs.Model.AxisCheck Fggs.Model.Einsum.
Require Import Fggs.Proofs.Axis_sem Fggs.Proofs.PTensor_dense.
Require Import Fggs.Proofs.Einsum_dense Fggs.Proofs.Einsum_envs.

(** * labels of physical variables *)
Definition lab_env (p : list (positive * nat)) : list (nat * nat) := map (fun kv => (Pos.to_nat (fst kv), snd kv)) p.

Lemma lval_lab_env p k : lval (lab_env p) (Pos.to_nat k) = env_of p k.
Proof.
  unfold lval, env_of. induction p as [|[k' v] p IH]; [reflexivity|]. simpl.
  destruct (Pos.eqb_spec k' k) as [->|Hne]; [rewrite Nat.eqb_refl; reflexivity|].
  destruct (Nat.eqb_spec (Pos.to_nat k') (Pos.to_nat k)) as [E|_]; [apply Pos2Nat.inj in E; contradiction|exact IH].
Qed.

Lemma combine_lab (ks : list positive) (vs : list nat) : combine (map Pos.to_nat ks) vs = lab_env (combine ks vs).
Proof. revert vs. induction ks as [|k ks IH]; intros [|v vs]; try reflexivity. simpl. f_equal. apply IH. Qed.

Lemma lab_env_app p q : lab_env (p ++ q) = lab_env p ++ lab_env q.
Proof. apply map_app. Qed.

Lemma map_plabel (l : list pn) : map plabel l = map Pos.to_nat (map fst l).
Proof. rewrite map_map. reflexivity. Qed.

Lemma NoDup_plabel (l : list pn) : NoDup (map fst l) -> NoDup (map plabel l).
Proof. intros H. rewrite map_plabel. apply NoDup_map_inj; [|exact H]. intros a b _ _ E. apply Pos2Nat.inj. exact E. Qed.

Lemma In_plabel k (l : list pn) : In (Pos.to_nat k) (map plabel l) <-> In k (map fst l).
Proof.
  rewrite map_plabel. split.
  - intros H. apply in_map_iff in H. destruct H as (k' & E & H). apply Pos2Nat.inj in E. subst. exact H.
  - intros H. apply in_map. exact H.
Qed.

Lemma combine_maps {A B C} (f : A -> B) (g : A -> C) (l : list A) : combine (map f l) (map g l) = map (fun x => (f x, g x)) l.
Proof. induction l as [|x l IH]; [reflexivity|]. simpl. f_equal. exact IH. Qed.

Lemma empty_if_no_elements {A} (l : list A) : (forall x, ~ In x l) -> l = [].
Proof. destruct l as [|x l]; [reflexivity|]. intros H. exfalso. apply (H x). left. reflexivity. Qed.

Section Views.
Context {R : Type} (o : sr_ops R).
Hypothesis Hr : sr_ring o.
Add Ring RingEV : (sr_is_srt o Hr).
Notation r0 := (Semiring.zero o).
Notation view := (view (R:=R)).

Definition vlabels (views : list view) : list (list nat) := map (fun v => map plabel (vw_vars v)) views.

Lemma einsum_term_views (views : list view) env :
  einsum_term o (map (view_operand (R:=R)) views) (vlabels views) env
  = prodS o views (fun v => vw_fn v (map (lval env) (map plabel (vw_vars v)))).
Proof. unfold einsum_term, vlabels. rewrite combine_maps, (prodS_map o). reflexivity. Qed.

Lemma map_lval_lab p (vars : list pn) : map (lval (lab_env p)) (map plabel vars) = map (env_of p) (map fst vars).
Proof. rewrite !map_map. apply map_ext. intros kn. apply lval_lab_env. Qed.

(** ** the einsum over the views as a sum over the summed-out physical variables *)
Theorem einsum_views_sum (views : list view) (outp : list pn) (ocoords : list nat) :
  NoDup (map fst outp) -> length ocoords = length outp ->
  map plabel (summed_vars views outp) = summed_labels (vlabels views) (map plabel outp) ->
  map snd (summed_vars views outp)
  = map (lval (label_sizes (map (fun v => map snd (vw_vars v)) views) (vlabels views))) (map plabel (summed_vars views outp)) ->
  einsum_views o views outp ocoords
  = sumS o (all_envs (summed_vars views outp))
         (fun ps => prodS o views (fun v => vw_fn v (map (env_of (combine (map fst outp) ocoords ++ ps)) (map fst (vw_vars v))))).
Proof.
  intros ND L E1 E2. set (sv := summed_vars views outp) in *.
  unfold einsum_views, einsum_dense. fold (vlabels views).
  rewrite out_consistent_NoDup; [|apply NoDup_plabel; exact ND|rewrite map_length; symmetry; exact L].
  cbv zeta. rewrite <- E1.
  replace (map fst (map (view_operand (R:=R)) views)) with (map (fun v : view => map snd (vw_vars v)) views)
    by (rewrite map_map; reflexivity).
  rewrite <- E2, all_envs_assts, (sumS_map o). apply (sumS_ext o). intros svv _.
  rewrite einsum_term_views. apply (prodS_ext o). intros v _. f_equal.
  rewrite !map_plabel, !combine_lab, <- lab_env_app, <- map_plabel. apply map_lval_lab.
Qed.

(** ** functions that ignore some coordinates *)
Lemma set_nth_length i x (c : list nat) : i < length c -> length (set_nth i x c) = length c.
Proof.
  intros H. unfold set_nth. rewrite app_length, firstn_length. cbn [length]. rewrite skipn_length. lia.
Qed.

Lemma agree_except : forall (c1 c2 : list nat) (f : list nat -> R) (zs : list bool),
  (forall j x c, nth j zs false = true -> j < length c -> f (set_nth j x c) = f c) ->
  length c1 = length c2 ->
  (forall j, j < length c1 -> nth j zs false = false -> nth j c1 0 = nth j c2 0) -> f c1 = f c2.
Proof.
  induction c1 as [|x c1 IH]; intros [|y c2] f zs H L A; try discriminate; [reflexivity|].
  transitivity (f (x :: c2)).
  - apply (IH c2 (fun c => f (x :: c)) (tl zs)).
    + intros j v c Z Hj. change (x :: set_nth j v c) with (set_nth (S j) v (x :: c)).
      apply H; [destruct zs; [destruct j; discriminate|exact Z]|simpl; lia].
    + simpl in L. lia.
    + intros j Hj Z. apply (A (S j)); [simpl; lia|destruct zs; [reflexivity|exact Z]].
  - destruct (nth 0 zs false) eqn:Z.
    + symmetry. change (y :: c2) with (set_nth 0 y (x :: c2)). apply H; [exact Z|simpl; lia].
    + assert (E : x = y) by (apply (A 0); [simpl; lia|exact Z]). rewrite E. reflexivity.
Qed.
End Views.
