(** [__getitem__] with a tuple of integers (a full or a partial index): the result denotes the
    sub-tensor [t[vis]], i.e. its element at [idx'] is the element of [t] at [vis ++ idx'];
    an in-range index never raises. *)
From Coq Require Import List Arith Lia PeanoNat Bool PArith.
Import ListNotations.
Require Import Fggs.Model.Axis Fggs.Model.PTensor.
Require Import Fggs.Proofs.Axis_sem Fggs.Proofs.Axis_unify Fggs.Proofs.Axis_antiunify Fggs.Proofs.Axis_antiunify_inv.
Require Import Fggs.Proofs.PTensor_sem Fggs.Proofs.PTensor_dense Fggs.Proofs.PTensor_views Fggs.Proofs.PTensor_gen.
Require Import Fggs.Proofs.Axis_clone Fggs.Proofs.PTensor_struct.

Lemma assoc_of_In' {A} k (s : list (positive * A)) a : NoDup (map fst s) -> In (k, a) s -> assoc k s = Some a.
Proof.
  induction s as [|[k' a'] s IH]; intros ND H; [contradiction|]. simpl in *. inversion ND as [|? ? Hk ND']; subst.
  destruct H as [H|H].
  - inversion H; subst. rewrite Pos.eqb_refl. reflexivity.
  - destruct (Pos.eqb_spec k' k) as [->|_]; [exfalso; apply Hk; apply in_map_iff; exists (k, a); auto|auto].
Qed.

Lemma evals_app' rho a b : evals rho (a ++ b) = evals rho a ++ evals rho b.
Proof. unfold evals. apply map_app. Qed.

(** * the keys bound by [index] are the old ones and the free axes of the pattern *)
Lemma index_keys e : forall pi v pi', index e pi v = IOk pi' ->
  forall k i, assoc k pi' = Some i -> assoc k pi = Some i \/ In k (fv e).
Proof.
  induction e as [k n|l IH|b t a IH] using axis_ind'; intros pi v pi' H k0 i0 Hk.
  - simpl in H. destruct (n <=? v); [discriminate|]. destruct (assoc k pi) as [i|] eqn:Ek.
    + destruct (Nat.eqb i v); [|discriminate]. inversion H; subst. left. exact Hk.
    + inversion H; subst. destruct (assoc k0 pi) as [j|] eqn:E0.
      * left. rewrite (assoc_app_Some _ _ _ _ E0) in Hk. exact Hk.
      * right. rewrite (assoc_app_None _ _ _ E0) in Hk. simpl in Hk. destruct (Pos.eqb_spec k k0); [left; assumption|discriminate].
  - rewrite index_Prod in H.
    assert (G : forall l, Forall (fun e => forall pi v pi', index e pi v = IOk pi' ->
                  forall k i, assoc k pi' = Some i -> assoc k pi = Some i \/ In k (fv e)) l ->
                forall pi1 q, index_prod pi v l = POk pi1 q ->
                forall k i, assoc k pi1 = Some i -> assoc k pi = Some i \/ In k (flat_map fv l)).
    { clear. induction l as [|x l IHl]; intros IH pi1 q H k i Hk.
      - simpl in H. inversion H; subst. left. exact Hk.
      - inversion IH as [|? ? Hx Hl]; subst. cbn [index_prod] in H. fold (index_prod pi v) in H.
        destruct (index_prod pi v l) as [pi0 q0| |] eqn:E0; try discriminate.
        destruct (Nat.eqb (numel x) 0); [discriminate|].
        destruct (index x pi0 (q0 mod numel x)) as [pi2| |] eqn:E2; try discriminate.
        inversion H; subst. clear H.
        destruct (Hx _ _ _ E2 k i Hk) as [Y|Y]; [|right; simpl; apply in_or_app; left; exact Y].
        destruct (IHl Hl _ _ eq_refl k i Y) as [Z|Z]; [left; exact Z|right; simpl; apply in_or_app; right; exact Z]. }
    destruct (index_prod pi v l) as [pi1 q| |] eqn:E; try discriminate.
    destruct (Nat.eqb q 0); [|discriminate]. inversion H; subst. exact (G l IH _ _ E k0 i0 Hk).
  - simpl in H. destruct (b + numel t + a <=? v); [discriminate|]. destruct (v <? b); [discriminate|].
    destruct (v - b <? numel t); [|discriminate]. exact (IH _ _ _ H k0 i0 Hk).
Qed.

Lemma index_list_keys es : forall pi vs pi', index_list es pi vs = IOk pi' ->
  forall k i, assoc k pi' = Some i -> assoc k pi = Some i \/ In k (flat_map fv es).
Proof.
  induction es as [|e es IH]; intros pi vs pi' H k i Hk.
  - simpl in H. inversion H; subst. left. exact Hk.
  - destruct vs as [|v vs]; [simpl in H; inversion H; subst; left; exact Hk|]. simpl in H.
    destruct (index e pi v) as [pi1| |] eqn:E1; try discriminate.
    destruct (IH _ _ _ H k i Hk) as [Y|Y]; [|right; simpl; apply in_or_app; right; exact Y].
    destruct (index_keys e _ _ _ E1 k i Y) as [Z|Z]; [left; exact Z|right; simpl; apply in_or_app; left; exact Z].
Qed.

Lemma index_list_app a : forall b pi va vb, length va = length a ->
  index_list (a ++ b) pi (va ++ vb) = match index_list a pi va with IOk pi' => index_list b pi' vb | o => o end.
Proof.
  induction a as [|x a IH]; intros b pi va vb L; destruct va as [|v va]; try discriminate; [reflexivity|].
  simpl. destruct (index x pi v); try reflexivity. apply IH. simpl in L. lia.
Qed.

(** * an in-range index never raises *)
Lemma index_in_range e : forall pi v, v < numel e -> index e pi v <> IErr.
Proof.
  induction e as [k n|l IH|b t a IH] using axis_ind'; intros pi v Hv.
  - simpl in *. destruct (n <=? v) eqn:E; [apply Nat.leb_le in E; lia|]. destruct (assoc k pi); [destruct (Nat.eqb n0 v)|]; discriminate.
  - rewrite index_Prod.
    assert (G : forall l, Forall (fun e => forall pi v, v < numel e -> index e pi v <> IErr) l ->
                prodn l > 0 ->
                (index_prod pi v l = PEmpty \/ exists pi1, index_prod pi v l = POk pi1 (v / prodn l))).
    { clear. induction l as [|x l IHl]; intros IH Pp.
      - right. exists pi. cbn [index_prod]. f_equal. change (prodn []) with 1. symmetry. apply Nat.div_1_r.
      - inversion IH as [|? ? Hx Hl]; subst. rewrite prodn_cons in Pp.
        assert (Px : numel x > 0) by nia. assert (Pl : prodn l > 0) by nia.
        cbn [index_prod]. fold (index_prod pi v). destruct (IHl Hl Pl) as [E|(pi1 & E)]; rewrite E; [left; reflexivity|].
        destruct (Nat.eqb_spec (numel x) 0); [lia|].
        destruct (index x pi1 ((v / prodn l) mod numel x)) as [pi2| |] eqn:E2.
        + right. exists pi2. f_equal. rewrite prodn_cons, Nat.div_div by lia. f_equal. apply Nat.mul_comm.
        + left. reflexivity.
        + exfalso. apply (Hx pi1 ((v / prodn l) mod numel x)); [apply Nat.mod_upper_bound; lia|exact E2]. }
    change (numel (Prod l)) with (prodn l) in Hv.
    destruct (G l IH) as [E|(pi1 & E)]; [lia|rewrite E; discriminate|].
    rewrite E, Nat.div_small by exact Hv. discriminate.
  - simpl in *. destruct (b + numel t + a <=? v) eqn:E; [apply Nat.leb_le in E; lia|].
    destruct (v <? b) eqn:Eb; [discriminate|]. apply Nat.ltb_ge in Eb.
    destruct (v - b <? numel t) eqn:Et; [|discriminate]. apply Nat.ltb_lt in Et. apply IH. exact Et.
Qed.

Lemma index_list_in_range es : forall pi vs, Forall2 lt vs (map numel (firstn (length vs) es)) -> index_list es pi vs <> IErr.
Proof.
  induction es as [|e es IH]; intros pi vs B.
  - destruct vs; discriminate.
  - destruct vs as [|v vs]; [discriminate|]. simpl in B. inversion B as [|? ? ? ? Hv B']; subst. simpl.
    destruct (index e pi v) eqn:E; [apply IH; exact B'|discriminate|exfalso; exact (index_in_range e pi v Hv E)].
Qed.

(** * the gather of [physical[tuple(pi.get(k, :) for k in paxes)]] *)
Section Fill.
Variable pi : list pn.
Fixpoint gi_fill (ps : list pn) (idx : list nat) : list nat :=
  match ps with
  | [] => []
  | (k, _) :: ps' =>
      match assoc k pi with
      | Some i => i :: gi_fill ps' idx
      | None => match idx with j :: idx' => j :: gi_fill ps' idx' | [] => 0 :: gi_fill ps' [] end
      end
  end.
End Fill.

Definition unbound_pn (pi : list pn) (kn : pn) : bool := match assoc (fst kn) pi with Some _ => false | None => true end.

Lemma gi_fill_spec pi ps rho : (forall k n i, In (k, n) ps -> assoc k pi = Some i -> rho k = i) ->
  gi_fill pi ps (pcoords (filter (unbound_pn pi) ps) rho) = pcoords ps rho.
Proof.
  induction ps as [|[k n] ps IH]; intros H; [reflexivity|].
  assert (IH' := IH (fun k' n' i' Hin => H k' n' i' (or_intror Hin))).
  cbn [gi_fill filter]. destruct (assoc k pi) as [i|] eqn:E.
  - assert (U : unbound_pn pi (k, n) = false) by (unfold unbound_pn; cbn [fst]; rewrite E; reflexivity).
    rewrite U. cbn [pcoords map fst]. rewrite (H k n i (or_introl eq_refl) E). f_equal. exact IH'.
  - assert (U : unbound_pn pi (k, n) = true) by (unfold unbound_pn; cbn [fst]; rewrite E; reflexivity).
    rewrite U. cbn [pcoords map fst]. f_equal. exact IH'.
Qed.

Definition gi_sigma (ps : list pn) (pi : list pn) : subst :=
  map (fun ki => (fst ki, Sum (snd ki) unitAxis (match assoc (fst ki) ps with Some n => n - snd ki - 1 | None => 0 end))) pi.

Lemma gi_sigma_assoc ps pi k :
  assoc k (gi_sigma ps pi) =
  match assoc k pi with
  | Some i => Some (Sum i unitAxis (match assoc k ps with Some n => n - i - 1 | None => 0 end))
  | None => None
  end.
Proof.
  induction pi as [|[k' i'] pi IH]; [reflexivity|]. simpl. destruct (Pos.eqb_spec k' k) as [->|_]; [reflexivity|exact IH].
Qed.

Section GetItem.
Variable V : Type.
Notation ptensor := (ptensor V).

Theorem getitem_refines vis next (t r : ptensor) nx :
  wf V t -> length vis <= length (vaxes t) ->
  pt_getitem V vis next t = Ok (r, nx) ->
  wf V r /\ shape V r = skipn (length vis) (shape V t) /\ default r = default t /\
  forall idx', in_bounds (shape V r) idx' -> denote V r idx' = denote V t (vis ++ idx').
Proof.
  intros W Lv H. unfold pt_getitem in H.
  set (pre := firstn (length vis) (vaxes t)) in *. set (rest := skipn (length vis) (vaxes t)) in *.
  assert (Evx : vaxes t = pre ++ rest) by (symmetry; apply firstn_skipn).
  assert (Lpre : length pre = length vis) by (unfold pre; rewrite firstn_length; lia).
  assert (Shp : skipn (length vis) (shape V t) = map numel rest) by (unfold shape, rest; apply skipn_map).
  destruct (index_list pre [] vis) as [pi| |] eqn:EI; [| |discriminate].
  - (* the index is occupied *)
    change (map (fun ki : pn => (fst ki, Sum (snd ki) unitAxis (match assoc (fst ki) (paxes t) with Some n => n - snd ki - 1 | None => 0 end))) pi)
      with (gi_sigma (paxes t) pi) in H.
    set (sigma := gi_sigma (paxes t) pi) in *.
    destruct (mapM (fun e => clone (asize e + 3) sigma e) rest) as [vs|] eqn:EM; [|discriminate].
    cbn [bind] in H. inversion H; subst r nx. clear H.
    destruct (index_list_sound pre [] vis pi (eq_sym Lpre) EI) as (_ & Bound & Sem).
    (* every binding of pi is for a free axis of the prefix, within its size *)
    assert (PiIn : forall k i, assoc k pi = Some i -> exists n, In (k, n) (paxes t) /\ i < n).
    { intros k i Hk. destruct (index_list_keys _ _ _ _ EI k i Hk) as [Hk'|Hk']; [discriminate|].
      apply In_fv_fvn in Hk'. destruct Hk' as (n & Hn). exists n. split.
      - apply (wf_fv V t W). rewrite Evx, flat_map_app. apply in_or_app. left. exact Hn.
      - destruct (Sem (env_of pi) (agrees_env_of pi)) as [_ Rg].
        pose proof (proj1 (inrange_list_fvn _ _) Rg k n Hn) as Q. unfold env_of in Q. rewrite Hk in Q. exact Q. }
    assert (CV : closed_vals sigma).
    { intros k c Hc. unfold sigma in Hc. rewrite gi_sigma_assoc in Hc. destruct (assoc k pi); inversion Hc. reflexivity. }
    assert (SZ : forall e, In e (vaxes t) -> sized_for sigma e).
    { intros e He k n c Hk Hc. unfold sigma in Hc. rewrite gi_sigma_assoc in Hc. destruct (assoc k pi) as [i|] eqn:Ei; inversion Hc; subst c.
      destruct (PiIn k i Ei) as (n' & Hn' & Hi).
      assert (Hkn : In (k, n) (paxes t)) by (apply (wf_fv V t W); apply in_flat_map; eauto).
      pose proof (keys_fun _ k n n' (wf_nodup V t W) Hkn Hn'). subst n'.
      rewrite (assoc_of_In' k (paxes t) n (wf_nodup V t W) Hkn). simpl. lia. }
    assert (Cenv : forall rho k, cenv sigma rho k = match assoc k pi with Some i => i | None => rho k end).
    { intros rho k. unfold cenv, sigma. rewrite gi_sigma_assoc. destruct (assoc k pi); [simpl; lia|reflexivity]. }
    assert (InRest : forall e, In e rest -> In e (vaxes t)) by (intros e He; rewrite Evx; apply in_or_app; right; exact He).
    assert (F2 : Forall2 (clone_ok sigma) rest vs).
    { apply mapM_Forall2' in EM. apply (Forall2_impl_in _ _ _ _ EM). intros x y Hx Hxy.
      eapply clone_spec; [exact CV|apply SZ; apply InRest; exact Hx|exact Hxy]. }
    destruct (clone_ok_list _ _ _ F2) as (_ & _ & FV).
    set (R := mkPT _ _ _ _).
    assert (SigNone : forall k, assoc k sigma = None <-> assoc k pi = None).
    { intros k. unfold sigma. rewrite gi_sigma_assoc. destruct (assoc k pi); split; congruence. }
    assert (WR : wf V R).
    { constructor; cbn [paxes vaxes R].
      - apply NoDup_map_filter'. apply (wf_nodup V t W).
      - intros k n. rewrite (FV (k, n)). cbn [fst]. rewrite filter_In, SigNone. cbn [fst]. split.
        + intros [Hk Hn]. split; [apply (wf_fv V t W); apply in_flat_map in Hk; destruct Hk as (e & He & Hk); apply in_flat_map; exists e; split; [apply InRest; exact He|exact Hk]|].
          rewrite Hn. reflexivity.
        + intros [Hk Hn]. destruct (assoc k pi) eqn:E; [discriminate|]. split; [|reflexivity].
          apply (wf_fv V t W) in Hk. rewrite Evx, flat_map_app in Hk. apply in_app_or in Hk. destruct Hk as [Hk|Hk]; [|exact Hk].
          exfalso. apply (Bound k); [apply In_fv_fvn; eauto|exact E]. }
    assert (Lvs : length vs = length rest) by (symmetry; eapply Forall2_len; eauto).
    assert (RngEq : forall rho, Forall (inrange rho) vs <-> Forall (inrange (cenv sigma rho)) rest).
    { intros rho. apply (Forall2_Forall_iff _ _ _ _ _ F2). intros x y Hx Hxy.
      apply clone_inrange; [exact CV|apply SZ; apply InRest; exact Hx|exact Hxy]. }
    assert (EvEq : forall rho, evals rho vs = evals (cenv sigma rho) rest).
    { intros rho. clear - F2. unfold evals. induction F2 as [|x y l l' (_ & E & _) _ IHl]; [reflexivity|]. simpl. rewrite E, IHl. reflexivity. }
    split; [exact WR|]. split.
    { rewrite Shp. unfold shape. cbn [vaxes R]. clear - F2. induction F2 as [|x y l l' (N & _) _ IHl]; [reflexivity|]. simpl. rewrite N, IHl. reflexivity. }
    split; [reflexivity|].
    intros idx' Bd.
    assert (Li' : length idx' = length rest).
    { rewrite (Forall2_len _ _ _ Bd). unfold shape. cbn [vaxes R]. rewrite map_length. exact Lvs. }
    apply denote_transfer; try assumption; try reflexivity.
    + rewrite app_length, Evx, app_length, Lpre, Li'. reflexivity.
    + cbn [vaxes R]. rewrite Lvs. exact Li'.
    + intros rho Rg Ev. rewrite Evx in Rg, Ev. apply Forall_app in Rg. destruct Rg as [Rp Rr].
      rewrite evals_app' in Ev. apply app_inj_len in Ev; [|unfold evals; rewrite map_length; exact Lpre]. destruct Ev as [Ep Er].
      assert (Ag : agrees rho pi).
      { destruct (index_list_complete pre rho [] Rp) as (pi2 & E2 & A2); [intros k i Hk; discriminate|].
        rewrite Ep, EI in E2. injection E2 as E2. rewrite E2. exact A2. }
      assert (Same : forall k, cenv sigma rho k = rho k).
      { intros k. rewrite Cenv. destruct (assoc k pi) as [i|] eqn:E; [symmetry; exact (Ag _ _ E)|reflexivity]. }
      exists rho. cbn [vaxes R]. split; [|split].
      * apply RngEq. apply (Forall_inrange_ext' rho); [|exact Rr]. intros k _. symmetry. apply Same.
      * rewrite EvEq, <- Er. apply evals_ext. intros k _. apply Same.
      * unfold pget. cbn [physical paxes R].
        change (physical t (gi_fill pi (paxes t) (pcoords (filter (unbound_pn pi) (paxes t)) rho)) = physical t (pcoords (paxes t) rho)).
        f_equal. apply gi_fill_spec. intros k n i _ Hk. exact (Ag _ _ Hk).
    + intros rho' R' E'. cbn [vaxes R] in R', E'. exists (cenv sigma rho').
      assert (Ag : agrees (cenv sigma rho') pi) by (intros k i Hk; rewrite Cenv, Hk; reflexivity).
      destruct (Sem _ Ag) as [Ep Rp]. rewrite Evx. split.
      * apply Forall_app. split; [exact Rp|apply RngEq; exact R'].
      * rewrite evals_app', Ep, <- EvEq, E'. reflexivity.
  - (* an unoccupied index: a tensor full of the default *)
    injection H as H.
    assert (Er : fst (pt_full V (map numel rest) (default t) next) = r) by (rewrite H; reflexivity).
    rewrite <- Er. clear H Er.
    destruct (full_refines V (map numel rest) (default t) next) as ([Wr _] & Sr & Dr).
    split; [exact Wr|]. split; [rewrite Shp; exact Sr|]. split.
    { unfold pt_full, pt_of_dense. destruct (dense_axes (map numel rest) next); reflexivity. }
    intros idx' Bd. rewrite Sr in Bd. rewrite (Dr idx' Bd). symmetry. unfold denote.
    rewrite Evx, index_list_app by (symmetry; exact Lpre). rewrite EI. reflexivity.
Qed.

(** an in-range (partial) index never raises *)
Theorem getitem_total vis next (t : ptensor) :
  Forall2 lt vis (firstn (length vis) (shape V t)) ->
  exists r nx, pt_getitem V vis next t = Ok (r, nx).
Proof.
  intros B. unfold pt_getitem.
  assert (NE : index_list (firstn (length vis) (vaxes t)) [] vis <> IErr).
  { apply index_list_in_range. unfold shape in B. rewrite firstn_map in B.
    rewrite firstn_firstn, Nat.min_id. exact B. }
  destruct (index_list (firstn (length vis) (vaxes t)) [] vis) as [pi| |] eqn:EI;
    [|destruct (pt_full V (map numel (skipn (length vis) (vaxes t))) (default t) next) as [r0 nx0]; eauto|congruence].
  set (sigma := map _ pi).
  destruct (mapM_total (fun e => clone (asize e + 3) sigma e) (skipn (length vis) (vaxes t))) as (vs & E).
  - intros e _. apply (clone_total _ 2); [|lia]. intros k c Hc. apply assoc_In in Hc. unfold sigma in Hc. apply in_map_iff in Hc.
    destruct Hc as (ki & Eki & _). inversion Eki; subst. split; [reflexivity|simpl; lia].
  - rewrite E. cbn [bind]. eauto.
Qed.

End GetItem.
