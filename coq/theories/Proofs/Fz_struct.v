(** C05: rooted tree decompositions ([rip]: running intersection in rooted form), the clique
    lemma (every set of pairwise co-bagged vertices lies in one bag) and the placement theorem:
    [visit]'s test "bag covers the edge and the parent does not" places every original edge in
    exactly one bag. *)
From Coq Require Import List Arith Bool PeanoNat Lia Permutation.
Import ListNotations.
Require Import Fggs.Model.Conj Fggs.Model.TreeDec Fggs.Proofs.TreeDec_graph Fggs.Model.Factorize
               Fggs.Proofs.Fz_rooted.

Lemma subset_false a b : subset a b = false -> exists x, In x a /\ ~ In x b.
Proof.
  unfold subset. induction a as [|x a IH]; cbn [forallb]; [discriminate|].
  destruct (mem x b) eqn:M; cbn [andb].
  - intro H. destruct (IH H) as (y & Hy & Hn). exists y. split; [now right|exact Hn].
  - intros _. exists x. split; [now left|]. now apply mem_nIn.
Qed.

Lemma root_in_indices T : In (rt_root T) (rt_indices T).
Proof. destruct T. rewrite rt_indices_eq. now left. Qed.

Lemma flat_map_app_perm {A B} (f g : A -> list B) l :
  Permutation (flat_map (fun x => f x ++ g x) l) (flat_map f l ++ flat_map g l).
Proof.
  induction l as [|x l IH]; [constructor|]. cbn [flat_map].
  rewrite <- !app_assoc. apply Permutation_app_head.
  eapply perm_trans; [apply Permutation_app_head; exact IH|].
  rewrite !app_assoc. apply Permutation_app_tail. apply Permutation_app_comm.
Qed.

(** if every element of [E] is selected by exactly one node, distributing [E] over the nodes
    loses and duplicates nothing *)
Lemma perm_from_counts {N X} (p : N -> X -> bool) (nodes : list N) (E : list X) :
  (forall e, In e E -> length (filter (fun n => p n e) nodes) = 1) ->
  Permutation (flat_map (fun n => filter (p n) E) nodes) E.
Proof.
  induction E as [|e E IH]; intro H.
  - clear. induction nodes; [constructor|]. cbn. exact IHnodes.
  - assert (E1 : forall n, filter (p n) (e :: E) = (if p n e then [e] else []) ++ filter (p n) E).
    { intro n. cbn [filter]. destruct (p n e); reflexivity. }
    rewrite (flat_map_ext _ _ E1).
    eapply perm_trans; [apply flat_map_app_perm|].
    assert (E2 : flat_map (fun n => if p n e then [e] else []) nodes = [e]).
    { specialize (H e (or_introl eq_refl)). revert H. clear. induction nodes as [|n nodes IHn]; cbn [filter flat_map length].
      - discriminate.
      - destruct (p n e); cbn [length app].
        + intro H. injection H as H. f_equal.
          clear IHn. induction nodes as [|m nodes IHm]; [reflexivity|]. cbn [filter flat_map] in *.
          destruct (p m e); [discriminate|]. apply IHm. exact H.
        + exact IHn. }
    rewrite E2. cbn [app]. constructor. apply IH. intros e' He'. apply H. now right.
Qed.

Section Struct.
Variable r : frule.
Variable t : ftd.

Definition occurs (x : nat) (T : rt) : Prop := exists j, In j (rt_indices T) /\ In x (bag_of t j).

(** running intersection, rooted: a vertex of the subtree of a child [c] that also lies in a bag
    of the tree outside that subtree lies in the bag of [c]'s root and in its parent's bag *)
Inductive rip : rt -> Prop :=
| rip_node i cs :
    (forall c, In c cs -> rip c) ->
    (forall c x j, In c cs -> occurs x c -> In j (i :: flat_map rt_indices cs) -> ~ In j (rt_indices c) ->
                   In x (bag_of t j) -> In x (bag_of t i) /\ In x (bag_of t (rt_root c))) ->
    rip (RT i cs).

Lemma occurs_child i cs c x : In c cs -> occurs x c -> occurs x (RT i cs).
Proof.
  intros Hc (j & Hj & Hx). exists j. split; [|exact Hx]. rewrite rt_indices_eq. right. apply in_flat_map. eauto.
Qed.

Lemma NoDup_child i cs c : NoDup (rt_indices (RT i cs)) -> In c cs -> NoDup (rt_indices c) /\ ~ In i (rt_indices c).
Proof.
  rewrite rt_indices_eq. intros ND Hc. inversion ND as [|? ? Hi ND']; subst. split.
  - clear Hi ND. induction cs as [|d cs IH]; [destruct Hc|]. cbn [flat_map] in ND'. destruct Hc as [->|Hc].
    + eapply NoDup_app_l; eauto.
    + apply IH; trivial. eapply NoDup_app_r; eauto.
  - intro H. apply Hi. apply in_flat_map. eauto.
Qed.

(** indices of two children at different positions are disjoint *)
Lemma NoDup_siblings cs : NoDup (flat_map rt_indices cs) ->
  forall l1 c l2, cs = l1 ++ c :: l2 -> forall j, In j (rt_indices c) -> ~ In j (flat_map rt_indices (l1 ++ l2)).
Proof.
  intros ND l1 c l2 -> j Hj Hin. rewrite flat_map_app in ND. cbn [flat_map] in ND.
  rewrite flat_map_app, in_app_iff in Hin. destruct Hin as [Hin|Hin].
  - apply (NoDup_app_disj _ _ j ND Hin). apply in_or_app. now left.
  - apply NoDup_app_r in ND. apply (NoDup_app_disj _ _ j ND Hj Hin).
Qed.

(** * the clique lemma *)
Theorem rip_clique : forall T, rip T -> NoDup (rt_indices T) -> forall S,
  (forall x, In x S -> occurs x T) ->
  (forall x y, In x S -> In y S -> x <> y ->
               exists j, In j (rt_indices T) /\ In x (bag_of t j) /\ In y (bag_of t j)) ->
  exists j, In j (rt_indices T) /\ incl S (bag_of t j).
Proof.
  induction 1 as [i cs Hc IH Hrip]. intros ND S Hocc Hpair.
  destruct (subset S (bag_of t i)) eqn:Sb.
  - exists i. split; [rewrite rt_indices_eq; now left|]. now apply subset_incl.
  - apply subset_false in Sb. destruct Sb as (x & HxS & Hxi).
    destruct (Hocc x HxS) as (j0 & Hj0 & Hxj0). rewrite rt_indices_eq in Hj0.
    destruct Hj0 as [<-|Hj0]; [contradiction|]. apply in_flat_map in Hj0. destruct Hj0 as (c & Hcc & Hj0).
    assert (Oxc : occurs x c) by (exists j0; auto).
    assert (In_c : forall j, In j (rt_indices (RT i cs)) -> In x (bag_of t j) -> In j (rt_indices c)).
    { intros j Hj Hxj. destruct (in_dec Nat.eq_dec j (rt_indices c)) as [Hin|Hnin]; [exact Hin|].
      exfalso. apply Hxi. rewrite rt_indices_eq in Hj. exact (proj1 (Hrip c x j Hcc Oxc Hj Hnin Hxj)). }
    destruct (NoDup_child i cs c ND Hcc) as [NDc Hic].
    destruct (IH c Hcc NDc S) as (j & Hj & Hincl).
    + intros y HyS. destruct (Nat.eq_dec x y) as [<-|Hne]; [exact Oxc|].
      destruct (Hpair x y HxS HyS Hne) as (j & Hj & Hxj & Hyj). exists j. split; [|exact Hyj]. now apply In_c.
    + intros y z HyS HzS Hne.
      destruct (Hpair y z HyS HzS Hne) as (j & Hj & Hyj & Hzj).
      destruct (in_dec Nat.eq_dec j (rt_indices c)) as [Hin|Hnin]; [exists j; auto|].
      assert (Oy : occurs y c).
      { destruct (Nat.eq_dec x y) as [<-|Hxy]; [exact Oxc|].
        destruct (Hpair x y HxS HyS Hxy) as (k & Hk & Hxk & Hyk). exists k. split; [|exact Hyk]. now apply In_c. }
      assert (Oz : occurs z c).
      { destruct (Nat.eq_dec x z) as [<-|Hxz]; [exact Oxc|].
        destruct (Hpair x z HxS HzS Hxz) as (k & Hk & Hxk & Hzk). exists k. split; [|exact Hzk]. now apply In_c. }
      rewrite rt_indices_eq in Hj.
      exists (rt_root c). split; [apply root_in_indices|]. split.
      * exact (proj2 (Hrip c y j Hcc Oy Hj Hnin Hyj)).
      * exact (proj2 (Hrip c z j Hcc Oz Hj Hnin Hzj)).
    + exists j. split; [|exact Hincl]. rewrite rt_indices_eq. right. apply in_flat_map. eauto.
Qed.

(** * placement of an edge *)
Definition placed_here (e : fedge) (b : list nat) (pb : option (list nat)) : bool :=
  subset (fe_att e) b && match pb with None => true | Some p => negb (subset (fe_att e) p) end.
Lemma place_edges_filter b pb : place_edges r b pb = filter (fun e => placed_here e b pb) (fr_edges r).
Proof. reflexivity. Qed.

(** the nodes of the rooted tree with their parents, in pre-order *)
Fixpoint rt_nodes (T : rt) (parent : option nat) : list (nat * option nat) :=
  match T with
  | RT i cs => (i, parent) :: (fix go (l : list rt) : list (nat * option nat) :=
                                 match l with [] => [] | c :: l' => rt_nodes c (Some i) ++ go l' end) cs
  end.
Lemma rt_nodes_eq i cs parent :
  rt_nodes (RT i cs) parent = (i, parent) :: flat_map (fun c => rt_nodes c (Some i)) cs.
Proof. reflexivity. Qed.

Definition node_places (e : fedge) (n : nat * option nat) : bool :=
  placed_here e (bag_of t (fst n)) (pbag t (snd n)).
Definition count_placed (e : fedge) (T : rt) (parent : option nat) : nat :=
  length (filter (node_places e) (rt_nodes T parent)).

Definition cov (S : list nat) (T : rt) : bool := existsb (fun j => subset S (bag_of t j)) (rt_indices T).
Definition par (S : list nat) (parent : option nat) : bool :=
  match parent with Some p => subset S (bag_of t p) | None => false end.

Lemma cov_spec S T : cov S T = true <-> exists j, In j (rt_indices T) /\ incl S (bag_of t j).
Proof.
  unfold cov. rewrite existsb_exists. split; intros (j & Hj & H); exists j; split; trivial; now apply subset_incl.
Qed.

Lemma filter_flat_map {A B} (p : B -> bool) (f : A -> list B) l :
  filter p (flat_map f l) = flat_map (fun x => filter p (f x)) l.
Proof. induction l as [|x l IH]; [reflexivity|]. cbn [flat_map]. now rewrite filter_app, IH. Qed.
Lemma length_filter_cons {A} (p : A -> bool) x l :
  length (filter p (x :: l)) = (if p x then 1 else 0) + length (filter p l).
Proof. cbn [filter]. destruct (p x); reflexivity. Qed.
Lemma length_flat_map_sum {A B} (f : A -> list B) l :
  length (flat_map f l) = fold_right (fun x s => length (f x) + s) 0 l.
Proof. induction l as [|x l IH]; [reflexivity|]. cbn [flat_map fold_right]. now rewrite app_length, IH. Qed.

Theorem count_placed_spec e : forall T, rip T -> NoDup (rt_indices T) -> forall parent,
  (forall x p, In x (fe_att e) -> occurs x T -> parent = Some p -> In x (bag_of t p) -> In x (bag_of t (rt_root T))) ->
  count_placed e T parent
  = if par (fe_att e) parent then 0 else if cov (fe_att e) T then 1 else 0.
Proof.
  set (S := fe_att e).
  induction 1 as [i cs Hc IH Hrip]. intros ND parent UP. cbn [rt_root] in UP.
  unfold count_placed. rewrite rt_nodes_eq, length_filter_cons, filter_flat_map, length_flat_map_sum.
  (* the children *)
  assert (Hkids : forall c, In c cs ->
            length (filter (node_places e) (rt_nodes c (Some i)))
            = if subset S (bag_of t i) then 0 else if cov S c then 1 else 0).
  { intros c Hcc. destruct (NoDup_child i cs c ND Hcc) as [NDc Hic].
    change (length (filter (node_places e) (rt_nodes c (Some i)))) with (count_placed e c (Some i)).
    rewrite (IH c Hcc NDc (Some i)); [reflexivity|].
    intros x p Hx Ox [= <-] Hxi.
    exact (proj2 (Hrip c x i Hcc Ox (or_introl eq_refl) Hic Hxi)). }
  unfold node_places at 1. cbn [fst snd]. unfold placed_here. fold S.
  destruct (subset S (bag_of t i)) eqn:Sb.
  - (* the bag covers the edge: it is placed here unless the parent covers it too; never below *)
    assert (Z : fold_right (fun c s => length (filter (node_places e) (rt_nodes c (Some i))) + s) 0 cs = 0).
    { clear -Hkids. induction cs as [|c cs IHc]; [reflexivity|]. cbn [fold_right].
      rewrite Hkids by now left. rewrite IHc; [reflexivity|]. intros d Hd. apply Hkids. now right. }
    rewrite Z. cbn [andb].
    assert (Cv : cov S (RT i cs) = true).
    { apply cov_spec. exists i. split; [rewrite rt_indices_eq; now left|]. now apply subset_incl. }
    rewrite Cv. destruct parent as [p|]; cbn [pbag option_map par]; [|reflexivity].
    destruct (subset S (bag_of t p)); reflexivity.
  - cbn [andb].
    assert (Sum : fold_right (fun c s => length (filter (node_places e) (rt_nodes c (Some i))) + s) 0 cs
                  = fold_right (fun c s => (if cov S c then 1 else 0) + s) 0 cs).
    { clear -Hkids. induction cs as [|c cs IHc]; [reflexivity|]. cbn [fold_right].
      rewrite Hkids by now left. rewrite IHc; [reflexivity|]. intros d Hd. apply Hkids. now right. }
    rewrite Sum. clear Sum Hkids.
    assert (NoCov : par S parent = true -> forall c, In c cs -> cov S c = false).
    { intros Hp c Hcc. destruct (cov S c) eqn:Cc; [|reflexivity]. exfalso.
      apply cov_spec in Cc. destruct Cc as (j & Hj & Hincl).
      destruct parent as [p|]; [|discriminate]. cbn [par] in Hp. apply subset_incl in Hp.
      assert (incl S (bag_of t i)).
      { intros x Hx. apply (UP x p Hx); trivial; [|now apply Hp].
        exists j. split; [|now apply Hincl]. rewrite rt_indices_eq. right. apply in_flat_map. eauto. }
      apply subset_incl in H. congruence. }
    assert (CovT : cov S (RT i cs) = existsb (cov S) cs).
    { unfold cov at 1. rewrite rt_indices_eq. cbn [existsb]. rewrite Sb. cbn [orb].
      clear. induction cs as [|c cs IHc]; [reflexivity|]. cbn [flat_map existsb]. rewrite existsb_app, IHc. reflexivity. }
    rewrite CovT.
    assert (AtMost : forall l1 c l2, cs = l1 ++ c :: l2 -> cov S c = true -> forall d, In d (l1 ++ l2) -> cov S d = false).
    { intros l1 c l2 E Cc d Hd. destruct (cov S d) eqn:Cd; [|reflexivity]. exfalso.
      apply cov_spec in Cc, Cd. destruct Cc as (j1 & Hj1 & Hi1), Cd as (j2 & Hj2 & Hi2).
      rewrite rt_indices_eq in ND. inversion ND as [|? ? _ ND']; subst.
      assert (Hcc : In c (l1 ++ c :: l2)) by (apply in_or_app; right; now left).
      assert (Hj2' : In j2 (flat_map rt_indices (l1 ++ l2))) by (apply in_flat_map; eauto).
      assert (Hn : ~ In j2 (rt_indices c)).
      { intro Hin. exact (NoDup_siblings _ ND' l1 c l2 eq_refl j2 Hin Hj2'). }
      assert (Hj2'' : In j2 (i :: flat_map rt_indices (l1 ++ c :: l2))).
      { right. rewrite flat_map_app in *. cbn [flat_map]. rewrite !in_app_iff in *. tauto. }
      assert (incl S (bag_of t i)).
      { intros x Hx. refine (proj1 (Hrip c x j2 Hcc _ Hj2'' Hn (Hi2 x Hx))). exists j1. split; [exact Hj1|now apply Hi1]. }
      apply subset_incl in H. congruence. }
    destruct (par S parent) eqn:Pp.
    + specialize (NoCov eq_refl). clear -NoCov. induction cs as [|c cs IHc]; [reflexivity|]. cbn [fold_right].
      rewrite NoCov by now left. rewrite IHc; [reflexivity|]. intros d Hd. apply NoCov. now right.
    + clear NoCov UP Hrip IH Hc CovT ND. revert AtMost. generalize (@nil rt) as pre.
      assert (G : forall cs pre, (forall l1 c l2, pre ++ cs = l1 ++ c :: l2 -> cov S c = true ->
                                    forall d, In d (l1 ++ l2) -> cov S d = false) ->
                  fold_right (fun c s => (if cov S c then 1 else 0) + s) 0 cs = (if existsb (cov S) cs then 1 else 0)).
      { clear. induction cs as [|c cs IHc]; intros pre AM; [reflexivity|]. cbn [fold_right existsb].
        destruct (cov S c) eqn:Cc; cbn [orb].
        - assert (Z : forall d, In d cs -> cov S d = false).
          { intros d Hd. apply (AM pre c cs eq_refl Cc). apply in_or_app. now right. }
          assert (Z2 : fold_right (fun c s => (if cov S c then 1 else 0) + s) 0 cs = 0).
          { clear -Z. induction cs as [|d cs IHd]; [reflexivity|]. cbn [fold_right]. rewrite Z by now left.
            rewrite IHd; [reflexivity|]. intros d' Hd'. apply Z. now right. }
          rewrite Z2. reflexivity.
        - cbn [Nat.add]. apply (IHc (pre ++ [c])). intros l1 c' l2 E. apply AM. rewrite <- E, <- app_assoc. reflexivity. }
      intros pre AM. apply (G cs []). exact AM.
Qed.

(** * a valid rooted decomposition of the rule's primal graph *)
Record rtd_valid (T : rt) : Prop := {
  rv_nodup : NoDup (rt_indices T);
  rv_rip : rip T;
  rv_bags_nodup : forall j, In j (rt_indices T) -> NoDup (bag_of t j);
  rv_bags_sub : forall j x, In j (rt_indices T) -> In x (bag_of t j) -> In x (fr_ids r);
  rv_vertex : forall x, In x (fr_ids r) -> occurs x T;
  rv_clique : forall S x y, In S (map fe_att (fr_edges r) ++ [fr_ext r]) -> In x S -> In y S -> x <> y ->
                exists j, In j (rt_indices T) /\ In x (bag_of t j) /\ In y (bag_of t j) }.

(** the original edges that [visit] puts into the new rules, over the whole tree *)
Definition placements (T : rt) (parent : option nat) : list fedge :=
  flat_map (fun n => place_edges r (bag_of t (fst n)) (pbag t (snd n))) (rt_nodes T parent).

Definition atts_in_ids : Prop := forall e, In e (fr_edges r) -> incl (fe_att e) (fr_ids r).

Theorem edge_covered T e : rtd_valid T -> atts_in_ids -> In e (fr_edges r) -> cov (fe_att e) T = true.
Proof.
  intros V A He. apply cov_spec. apply rip_clique; [apply V|apply V| |].
  - intros x Hx. apply V. now apply (A e).
  - intros x y Hx Hy Hne. apply (rv_clique T V (fe_att e)); trivial. apply in_or_app. left. now apply in_map.
Qed.

(** every original edge is placed in exactly one node of the tree *)
Theorem placed_once T e : rtd_valid T -> atts_in_ids -> In e (fr_edges r) -> count_placed e T None = 1.
Proof.
  intros V A He. rewrite count_placed_spec; [|apply V|apply V|discriminate].
  cbn [par]. now rewrite (edge_covered T e V A He).
Qed.

Theorem placements_perm T : rtd_valid T -> atts_in_ids -> Permutation (placements T None) (fr_edges r).
Proof.
  intros V A. unfold placements.
  apply (perm_from_counts (fun n e => placed_here e (bag_of t (fst n)) (pbag t (snd n)))).
  intros e He. exact (placed_once T e V A He).
Qed.

End Struct.
