(** What verdict 0 of the check functions of Model/TreeDec.v means at the Prop level
    (the oracles used on the implementation's outputs are sound). *)
From Coq Require Import List Arith Bool PeanoNat Lia Permutation Setoid Morphisms.
Import ListNotations.
Require Import Fggs.Model.TreeDec Fggs.Proofs.TreeDec_graph Fggs.Proofs.TreeDec_tdok
               Fggs.Proofs.TreeDec_elim Fggs.Proofs.TreeDec_qbb Fggs.Proofs.TreeDec_tw
               Fggs.Proofs.TreeDec_complete Fggs.Proofs.TreeDec_lower.

Lemma is_perm_sound a b : NoDup b -> is_perm a b = true -> Permutation a b.
Proof.
  unfold is_perm. rewrite !andb_true_iff, nodupb_NoDup, Nat.eqb_eq, subset_incl.
  intros Hb [[Ha Hl] Hi]. apply NoDup_Permutation_bis; auto. lia.
Qed.

(** tree_decomposition: verdict 0 => the implementation's tree is a valid tree decomposition;
    with the treewidth flag, an exact method's width is the treewidth *)
Theorem td_check_sound g m mode expect t :
  td_check (g, m, mode, expect, Some t) = 0 ->
  wf_graph g /\ valid_td g t /\ tw_perm g <= width t /\
  (flag_tw mode = true -> exact_method m = true -> width t = tw_perm g).
Proof.
  unfold td_check. destruct (wf_graphb g) eqn:Wb; cbn [negb]; [|discriminate].
  pose proof (wf_graphb_sound g Wb) as W.
  destruct (td_ok g t) eqn:Ok; cbn [negb]; [|discriminate].
  pose proof (td_ok_sound g t Ok) as V. intro H.
  split; auto. split; auto. split; [now apply td_width_lower_bound|].
  intros Ft Ex. rewrite Ft, Ex in H. cbv iota in H.
  destruct (tw_is g (width t)) eqn:Is; cbn [negb] in H; [|discriminate].
  symmetry. now apply (tw_is_iff g (width t) W).
Qed.

(** min_fill / quickbb called directly: verdict 0 => the order is a permutation of the vertices and
    the reported number is its elimination width; with the treewidth flag quickbb's number is the
    treewidth *)
Theorem order_check_sound g which mode expect w order :
  order_check (g, which, mode, expect, (w, order)) = 0 ->
  wf_graph g /\ Permutation order (gverts g) /\ elim_width g order = w /\ tw_perm g <= w /\
  (flag_tw mode = true -> which <> 0 -> w = tw_perm g).
Proof.
  unfold order_check. destruct (wf_graphb g) eqn:Wb; cbn [negb]; [|discriminate].
  pose proof (wf_graphb_sound g Wb) as W.
  destruct (is_perm order (gverts g)) eqn:P; cbn [negb]; [|discriminate].
  apply is_perm_sound in P; [|apply W].
  destruct (Nat.eqb_spec (elim_width g order) w) as [E|E]; cbn [negb]; [|discriminate].
  intro H. split; auto. split; auto. split; auto.
  split; [rewrite <- E; now apply tw_perm_le|].
  intros Ft Hw. rewrite Ft in H. cbv iota in H.
  destruct (Nat.eqb_spec which 0) as [E0|E0]; [congruence|]. cbv iota in H.
  destruct (tw_is g w) eqn:Is; cbn [negb] in H; [|discriminate].
  symmetry. now apply (tw_is_iff g w W).
Qed.

(** minor_min_width: verdict 0 with the treewidth flag => the reported number is a lower bound *)
Theorem mmw_check_sound g mode expect lb :
  mmw_check (g, mode, expect, lb) = 0 -> flag_tw mode = true -> wf_graph g /\ lb <= tw_perm g.
Proof.
  unfold mmw_check. destruct (wf_graphb g) eqn:Wb; cbn [negb]; [|discriminate].
  pose proof (wf_graphb_sound g Wb) as W. intros H Ft. rewrite Ft in H. cbv iota in H.
  destruct (tw_below (length g) g lb) eqn:B; [discriminate|].
  split; auto. apply Nat.nlt_ge. intro L. apply (tw_below_iff g lb W) in L. congruence.
Qed.

Example td_check_example :
  td_check ([(0,[1]);(1,[0;2]);(2,[1])], 1, 3, None, Some ([[0;1];[1;2]], [(0,1)])) = 0.
Proof. vm_compute. reflexivity. Qed.
