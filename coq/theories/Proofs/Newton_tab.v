(** C02 (tier B): (a) one pass of Newton's method only depends on the values of its argument on
    the component's range, so the table-level iteration run by the check function
    ([newton_comp], [kleene_comp] of Model/Newton.v) computes exactly [newton_iter] /
    [comp_kleene]; (b) on a linearly recursive component (every rule has at most one component
    edge) the equations are affine, Taylor's inequality is an equality at zero, and ONE Newton
    pass from zero returns the least fixed point -- which is why the check function may run a
    single pass for the components that [sum_products] downgrades to method 'linear'. *)
From Coq Require Import List Arith Bool PeanoNat Lia Ring Ring_theory.
Import ListNotations.
Require Import Fggs.Model.Semiring Fggs.Model.SCC Fggs.Model.SumProduct Fggs.Model.Kleene
               Fggs.Model.Dual Fggs.Model.Newton.
Require Import Fggs.Proofs.SCC_ntgraph Fggs.Proofs.BigSum Fggs.Proofs.SP_trees Fggs.Proofs.SP_nonrec
               Fggs.Proofs.SP_mono Fggs.Proofs.SP_driver Fggs.Proofs.Dual_ring Fggs.Proofs.Dual_leibniz
               Fggs.Proofs.Dual_J Fggs.Proofs.Dual_vjp Fggs.Proofs.Kleene_proofs Fggs.Proofs.Kleene_control
               Fggs.Proofs.Newton_taylor Fggs.Proofs.Newton_sandwich Fggs.Proofs.Newton_solve.

Section NewtonTab.
Context {R : Type} (o : sr_ops R).
Hypothesis Hr : sr_ring o.
Hypothesis Ho : sr_ordered o.
Add Ring RingNTab : (sr_is_srt o Hr).
Context (sub maxr rsd : R -> R -> R).
Hypothesis HL : newton_laws o sub maxr rsd.
Local Notation "x <== y" := (le o x y) (at level 70).

Variable G : grammar.
Hypothesis Hwf : wf_grammar G = true.
Variables (w inp : env (R:=R)) (comp : list nat).
Hypothesis Hnd : NoDup comp.
Hypothesis Hcomp_nt : forall m, In m comp -> is_term G m = false.
Variable solve : jmat (R:=R) -> env (R:=R) -> env (R:=R).
Hypothesis Hsolve : solve_spec o G comp solve.

Local Notation assts n := (all_assts (lshape G n)).
Local Notation F := (ncomp_step o G w inp comp).
Local Notation F0 := (newton_F0 o maxr G w inp comp).
Local Notation NJ := (newton_J o G w inp comp).
Local Notation NS := (newton_step o sub maxr G w inp comp solve).
Local Notation nu := (newton_iter o sub maxr G w inp comp solve).
Local Notation leon := (le_on o G comp).
Local Notation eqon := (eq_on G comp).
Local Notation AMV := (Amv o G comp).

(** the direction restricted to the component *)
Definition dcomp (d : env (R:=R)) : env (R:=R) := fun l i => if mem comp l then d l i else zero o.

(** [multi_mv (J x) d] is the derivative of the equations at x in the direction d *)
Lemma Amv_NJ_dstep x d n xi : In n comp -> In xi (assts n) ->
  AMV (J_val o (NJ x)) d n xi = dstep o G (env_k G w (comp_env inp comp x)) (dcomp d) n xi.
Proof.
  intros Hn Hxi. rewrite <- (J_mv_blocks o Hr G comp Hnd (NJ x) d n xi (newton_J_labels o G w inp comp x)).
  unfold newton_J. rewrite (Jx_is_derivative o Hr G Hwf comp _ d false n xi Hnd Hn Hxi).
  apply (dstep_ext o G). intros r ed a _ _ _. split; [|reflexivity]. unfold oenv, oapp, env_k.
  destruct (is_term G (fst ed)); reflexivity.
Qed.

(** ** (a) extensionality on the range *)
Lemma Amv_NJ_ext x y d : eqon x y -> forall n xi, In n comp -> In xi (assts n) ->
  AMV (J_val o (NJ x)) d n xi = AMV (J_val o (NJ y)) d n xi.
Proof.
  intros H n xi Hn Hxi. rewrite !Amv_NJ_dstep by assumption.
  apply (dstep_ext o G). intros r ed a Hrin Hed Ha. split; [|reflexivity].
  unfold env_k, comp_env. destruct (is_term G (fst ed)); [reflexivity|].
  destruct (mem comp (fst ed)) eqn:Em; [|reflexivity]. apply mem_In in Em. apply H; [exact Em|].
  apply (wf_rule_query_in_range G r ed a); trivial.
  apply in_rules_of in Hrin. apply (wf_grammar_rule G r Hwf). tauto.
Qed.

Lemma solve_ext A A' b b' :
  (forall y n xi, In n comp -> In xi (assts n) -> AMV A y n xi = AMV A' y n xi) ->
  eqon b b' -> eqon (solve A b) (solve A' b').
Proof.
  intros HA Hb. destruct (Hsolve A b) as [S1 L1]. destruct (Hsolve A' b') as [S2 L2].
  apply (le_on_antisym o Ho).
  - apply L1. intros n xi Hn Hxi. rewrite (HA _ n xi Hn Hxi), (Hb n xi Hn Hxi), <- (S2 n xi Hn Hxi).
    apply (le_refl o Ho).
  - apply L2. intros n xi Hn Hxi. rewrite <- (HA _ n xi Hn Hxi), <- (Hb n xi Hn Hxi), <- (S1 n xi Hn Hxi).
    apply (le_refl o Ho).
Qed.

Lemma F0_ext x y : eqon x y -> eqon (F0 x) (F0 y).
Proof.
  intros H n xi Hn Hxi. unfold newton_F0.
  rewrite (F_ext o Hr Ho G Hwf w inp comp x y H n xi), (H n xi Hn Hxi). reflexivity.
Qed.

(** C02_newton_step_ext: a pass reads its argument only on the component's range *)
Theorem newton_step_ext x y : eqon x y -> eqon (NS x) (NS y).
Proof.
  intros H n xi Hn Hxi.
  rewrite !(newton_step_unfold o sub maxr G w inp comp solve).
  rewrite (F0_ext x y H n xi Hn Hxi), (H n xi Hn Hxi). f_equal. f_equal.
  unfold newton_dX. apply solve_ext; trivial.
  - intros d m eta Hm Heta. now apply Amv_NJ_ext.
  - intros m eta Hm Heta. rewrite (F0_ext x y H m eta Hm Heta), (H m eta Hm Heta). reflexivity.
Qed.

(** ** (b) linearly recursive components: one pass from zero is exact *)
Lemma affine_at_zero (d : env (R:=R)) n xi :
  max_rhs G comp <= 1 -> In n comp -> In xi (assts n) ->
  F d n xi = add o (F (zero_env o) n xi) (AMV (J_val o (NJ (zero_env o))) d n xi).
Proof.
  intros Hmax Hn Hxi. rewrite (Amv_NJ_dstep (zero_env o) d n xi Hn Hxi).
  unfold ncomp_step, step, dstep. rewrite (Hcomp_nt n Hn). rewrite <- (sumS_add o Hr).
  apply BigSum.sumS_ext. intros r Hrin.
  fold (env_k G w (comp_env inp comp d)). fold (env_k G w (comp_env inp comp (zero_env o))).
  rewrite <- (taylor_rule_eq o Hr G (mem comp) (env_k G w (comp_env inp comp (zero_env o))) (dcomp d) r xi).
  - apply (rule_val_ext o). intros ed a _ _. unfold env_k, comp_env, dcomp, zero_env.
    destruct (is_term G (fst ed)) eqn:Et.
    + destruct (mem comp (fst ed)) eqn:Em; [|ring]. apply mem_In in Em. rewrite (Hcomp_nt _ Em) in Et. discriminate.
    + destruct (mem comp (fst ed)); ring.
  - pose proof (max_rhs_ge G comp n r Hn Hrin) as Hle. unfold comp_edges in Hle. lia.
  - intros l i El. unfold dcomp. now rewrite El.
  - intros l i El. unfold env_k, comp_env, zero_env. rewrite El.
    apply mem_In in El. now rewrite (Hcomp_nt l El).
Qed.

(** C02_newton_linear_one_pass *)
Theorem newton_linear_one_pass :
  max_rhs G comp <= 1 ->
  eqon (F (nu 1)) (nu 1) /\ (forall u, leon (F u) u -> leon (nu 1) u).
Proof.
  intros Hmax.
  assert (H0 : leon (zero_env o) (F (zero_env o))) by (intros n xi _ _; apply (zero_le o Ho)).
  set (D := newton_dX o sub maxr G w inp comp solve (zero_env o)).
  assert (E1 : eqon (nu 1) D).
  { intros n xi Hn Hxi. cbn [newton_iter].
    rewrite (step_is_x_plus_dX o Hr Ho sub maxr rsd HL G w inp comp solve Hsolve _ H0 n xi Hn Hxi).
    unfold env_add. fold D. unfold zero_env. ring. }
  assert (E2 : eqon (F D) D).
  { intros n xi Hn Hxi. rewrite (affine_at_zero D n xi Hmax Hn Hxi).
    pose proof (x_plus_dX o Hr Ho sub maxr rsd HL G w inp comp solve Hsolve _ H0 n xi Hn Hxi) as E.
    fold D in E. rewrite <- E. unfold zero_env. ring. }
  split.
  - intros n xi Hn Hxi. rewrite (F_ext o Hr Ho G Hwf w inp comp _ _ E1 n xi), (E1 n xi Hn Hxi). now apply E2.
  - intros u Hu. now apply (newton_below_prefix o Hr Ho sub maxr rsd HL G Hwf w inp comp Hnd Hcomp_nt solve Hsolve).
Qed.
End NewtonTab.

(** * the tables computed by the check function are the iterates *)
Section Refines.
Context {R : Type} (o : sr_ops R).
Hypothesis Hr : sr_ring o.
Hypothesis Ho : sr_ordered o.
Hypothesis Hs : sr_star o.
Context (sub maxr rsd : R -> R -> R).
Hypothesis HL : newton_laws o sub maxr rsd.
Variable G : grammar.
Hypothesis Hwf : wf_grammar G = true.
Variables (all : tmt (R:=R)) (comp : list nat).
Hypothesis Hnd : NoDup comp.
Hypothesis Hcomp_nt : forall m, In m comp -> is_term G m = false.

Lemma env_of_ntab (f : env (R:=R)) n xi :
  In n comp -> In xi (all_assts (lshape G n)) -> env_of o (ntab G comp f) n xi = f n xi.
Proof. intros Hn Hxi. unfold ntab. now apply (env_of_tabmap_in o comp (lshape G) f n xi). Qed.

(** C02_newton_comp_refines *)
Theorem newton_comp_refines k :
  eq_on G comp (env_of o (newton_comp o sub maxr G all comp k))
        (newton_iter o sub maxr G (env_of o all) (env_of o all) comp (solve_ms o G comp) k).
Proof.
  unfold newton_comp. induction k as [|k IH]; intros n xi Hn Hxi; cbn [iter_n newton_iter].
  - now apply env_of_ntab.
  - rewrite env_of_ntab by assumption.
    apply (newton_step_ext o Hr Ho sub maxr G Hwf (env_of o all) (env_of o all) comp Hnd
             (solve_ms o G comp) (solve_ms_spec o Hr Ho Hs G comp Hnd) _ _ IH n xi Hn Hxi).
Qed.

Theorem kleene_comp_refines k :
  eq_on G comp (env_of o (kleene_comp o G all comp k))
        (comp_kleene o G (env_of o all) (env_of o all) comp k).
Proof.
  unfold kleene_comp. induction k as [|k IH]; intros n xi Hn Hxi; cbn [iter_n comp_kleene].
  - now apply env_of_ntab.
  - rewrite env_of_ntab by assumption.
    apply (F_ext o Hr Ho G Hwf (env_of o all) (env_of o all) comp _ _ IH).
Qed.
End Refines.
