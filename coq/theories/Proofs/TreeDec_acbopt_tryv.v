(** The inner loops of [acb_connected] ([for v in j - i: for u in i: for l in chart[m]]):
    - they never hit [assert lm.issubset(union)]: every set [l - m] that is offered to the union is
      a component of g - bag, so it is disjoint from or contained in the union built so far;
    - if the vertex v is "covered" -- every vertex of j - bag lies in some [l - m] whose cell is
      YES -- the union becomes j - bag and the answer YES is set;
    - the normal form ([nf_step]) together with the completeness of the smaller cells makes the last
      vertex of an elimination order of j - i covered ([good_covered]). *)
From Coq Require Import List Arith Bool PeanoNat Lia Permutation.
Import ListNotations.
Require Import Fggs.Model.TreeDec Fggs.Proofs.TreeDec_graph Fggs.Proofs.TreeDec_tdok
               Fggs.Proofs.TreeDec_elim Fggs.Proofs.TreeDec_qbb Fggs.Proofs.TreeDec_tw
               Fggs.Proofs.TreeDec_complete Fggs.Proofs.TreeDec_lower
               Fggs.Proofs.TreeDec_rtree Fggs.Proofs.TreeDec_cc Fggs.Proofs.TreeDec_acb
               Fggs.Proofs.TreeDec_acbopt_cc Fggs.Proofs.TreeDec_acbopt_elim
               Fggs.Proofs.TreeDec_acbopt_nf Fggs.Proofs.TreeDec_acbopt_main.

Lemma length_diff (a b : list nat) : NoDup a -> NoDup b -> incl b a ->
  length a = length (set_diff a b) + length b.
Proof.
  intros Na Nb I.
  pose proof (filter_partition_perm (fun x => negb (mem x b)) a) as P.
  apply Permutation_length in P. rewrite app_length in P. fold (set_diff a b) in P. rewrite P. f_equal.
  apply NoDup_same_length; [now apply NoDup_filter|exact Nb|].
  intro x. rewrite filter_In, negb_involutive, mem_In. split; [tauto|]. intro H. split; auto.
Qed.

Definition tv_fun (ch : chart_t) (bg jb : list nat) (st : option (list nat * list rtree)) (u : nat) :=
  let m := set_remove u bg in
  match chart_get ch m with Some row => fold_left (try_l jb m) row st | None => st end.
Lemma try_vs_cons (ch : chart_t) (i j : bag) v vs :
  try_vs ch i j (v :: vs) =
  match fold_left (tv_fun ch (set_add v i) (set_diff j (set_add v i))) i (Some ([], [])) with
  | None => None
  | Some (union, children) =>
    if set_eqb union (set_diff j (set_add v i)) then Some (Some (RNode (set_add v i) children))
    else try_vs ch i j vs
  end.
Proof. reflexivity. Qed.

Section Complete.
  Variable g : graph.
  Hypothesis W : wf_graph g.
  Variable k : nat.

  (** what [build_chart] establishes, in terms of the shape only *)
  Record sshape_ok (sh : shape) : Prop := {
    ss_key : forall (i : bag) js, In (i, js) sh -> NoDup i /\ incl i (gverts g) /\ length i = k;
    ss_comp : forall (i : bag) js (j : bag), In (i, js) sh -> In j js ->
                compP g i (set_diff j i) /\ incl i j /\ NoDup j;
    ss_cover : forall (i : bag) js D, In (i, js) sh -> compP g i D ->
                 exists j, In j js /\ forall x, In x (set_diff j i) <-> In x D;
    ss_ne : forall (i : bag) js, In (i, js) sh -> js <> [];
    ss_dist : ForallOrdPairs sdiff (map fst sh);
    ss_sep : forall (i : bag) x u, In i (combinations (gverts g) k) ->
               In x (gverts g) -> In u (gverts g) -> ~ In x i -> ~ In u i ->
               (forall D, compP g i D -> In x D -> ~ In u D) -> In i (map fst sh) }.

  Lemma compP_grow s s' c c' : compP g s c -> (forall x, In x c' <-> In x c) -> NoDup c' ->
    incl s s' -> (forall x, In x c' -> ~ In x s') -> compP g s' c'.
  Proof.
    intros [C K] E Nd Is Hd. split.
    - constructor; auto.
      + intro E0. destruct c as [|x c0]; [exact (co_ne g s _ C eq_refl)|].
        assert (H : In x c') by (apply E; cbn; auto). rewrite E0 in H. destruct H.
      + intros x Hx. split; [|now apply Hd]. apply (co_out g s c C x). now apply E.
      + intros x y Hx Hy. apply E in Hx. destruct (co_closed g s c C x y Hx Hy) as [H|H]; auto.
        left. now apply E.
    - eapply connP_ext; [|exact K]. intro x. unfold inl. symmetry. apply E.
  Qed.

  (** * the inner loops never hit an [assert] *)
  Definition ust_ok (bg jb union : list nat) : Prop :=
    (forall x, In x union -> In x jb) /\
    (forall x, In x union -> exists E, compP g bg E /\ In x E /\ incl E union).

  Lemma try_l_total bg jb (m key : bag) (q : bag * cell) union children :
    ust_ok bg jb union -> (forall x, In x jb -> ~ In x bg) ->
    (forall x, In x key <-> In x m) -> incl m bg ->
    compP g key (set_diff (fst q) key) -> NoDup (fst q) ->
    exists union' children', try_l jb m (Some (union, children)) q = Some (union', children') /\
      ust_ok bg jb union' /\ incl union union' /\
      (cell_yes (snd q) <> None -> incl (set_diff (fst q) m) jb -> incl (set_diff (fst q) m) union').
  Proof.
    intros [U1 U2] Hjb Ekey Im Hc Nq. unfold try_l. set (lm := set_diff (fst q) m).
    destruct (cell_yes (snd q)) as [t|].
    2:{ exists union, children. split; [reflexivity|]. split; [split; auto|]. split; [apply incl_refl|].
        intro H. congruence. }
    destruct (subset lm jb) eqn:Es.
    2:{ exists union, children. split; [reflexivity|]. split; [split; auto|]. split; [apply incl_refl|].
        intros _ H. apply subset_incl in H. congruence. }
    apply subset_incl in Es.
    assert (Hlm : compP g bg lm).
    { apply (compP_grow key bg (set_diff (fst q) key) lm Hc).
      - intro x. unfold lm. rewrite !set_diff_In, Ekey. reflexivity.
      - now apply set_diff_NoDup.
      - intros x Hx. apply Im. now apply Ekey.
      - intros x Hx. apply Hjb. now apply Es. }
    destruct (length (set_inter lm union) =? 0) eqn:El.
    - exists (set_union union lm), (children ++ [t]). split; [reflexivity|]. split; [split|split].
      + intros x Hx. apply set_union_In in Hx. destruct Hx; auto.
      + intros x Hx. apply set_union_In in Hx. destruct Hx as [Hx|Hx].
        * destruct (U2 x Hx) as [E [H1 [H2 H3]]]. exists E. split; auto. split; auto.
          intros y Hy. apply set_union_In. auto.
        * exists lm. split; auto. split; auto. intros y Hy. apply set_union_In. auto.
      + intros x Hx. apply set_union_In. auto.
      + intros _ _ x Hx. apply set_union_In. auto.
    - destruct (set_inter lm union) as [|x r] eqn:Ei; [cbn in El; discriminate|].
      assert (Hx : In x (set_inter lm union)) by (rewrite Ei; cbn; auto).
      apply set_inter_In in Hx. destruct Hx as [Hx1 Hx2].
      destruct (U2 x Hx2) as [E [H1 [H2 H3]]].
      assert (I : incl lm union).
      { intros y Hy. apply H3. apply (compP_eq g bg lm E x); auto. }
      rewrite (proj2 (subset_incl lm union) I).
      exists union, children. split; [reflexivity|]. split; [split; auto|]. split; [apply incl_refl|auto].
  Qed.

  Lemma fold_try_l_total bg jb (m key : bag) (row : list (bag * cell)) :
    (forall x, In x jb -> ~ In x bg) -> (forall x, In x key <-> In x m) -> incl m bg ->
    (forall q, In q row -> compP g key (set_diff (fst q) key) /\ NoDup (fst q)) ->
    forall union children, ust_ok bg jb union ->
    exists union' children',
      fold_left (try_l jb m) row (Some (union, children)) = Some (union', children') /\
      ust_ok bg jb union' /\ incl union union' /\
      (forall q, In q row -> cell_yes (snd q) <> None -> incl (set_diff (fst q) m) jb ->
                 incl (set_diff (fst q) m) union').
  Proof.
    intros Hjb Ekey Im. induction row as [|q row IH]; intros Hrow union children U; cbn [fold_left].
    - exists union, children. split; [reflexivity|]. split; auto. split; [apply incl_refl|]. intros q [].
    - destruct (Hrow q (or_introl eq_refl)) as [Hc Nq].
      destruct (try_l_total bg jb m key q union children U Hjb Ekey Im Hc Nq)
        as [u1 [c1 [E1 [U1 [I1 Y1]]]]].
      rewrite E1.
      destruct (IH (fun q0 H0 => Hrow q0 (or_intror H0)) u1 c1 U1) as [u2 [c2 [E2 [U2 [I2 Y2]]]]].
      exists u2, c2. split; auto. split; auto. split; [eapply incl_tran; eauto|].
      intros q0 [<-|Hq0] Hy Hs; [|now apply Y2]. eapply incl_tran; [apply Y1; auto|exact I2].
  Qed.

  Section WithChart.
    Variable ch : chart_t.
    Variable sh : shape.
    Hypothesis Esh : cshape ch = sh.
    Hypothesis SS : sshape_ok sh.

    Lemma chart_row_facts (m : bag) row : chart_get ch m = Some row ->
      exists key : bag, (forall x, In x key <-> In x m) /\ In (key, map fst row) sh /\
        exists p : bag * list (bag * cell), In p ch /\ fst p = key /\ snd p = row.
    Proof.
      intro H. destruct (chart_get_spec ch m row H) as [p [Hp [Hs E]]].
      exists (fst p). split; [intro x; now apply set_eqb_In|]. split.
      - rewrite <- Esh, <- Hs. now apply in_cshape.
      - exists p. auto.
    Qed.

    Lemma fold_tv_total bg jb : (forall x, In x jb -> ~ In x bg) ->
      forall us union children, ust_ok bg jb union ->
      exists union' children',
        fold_left (tv_fun ch bg jb) us (Some (union, children)) = Some (union', children') /\
        ust_ok bg jb union' /\ incl union union' /\
        (forall u row (q : bag * cell), In u us -> chart_get ch (set_remove u bg) = Some row -> In q row ->
           cell_yes (snd q) <> None -> incl (set_diff (fst q) (set_remove u bg)) jb ->
           incl (set_diff (fst q) (set_remove u bg)) union').
    Proof.
      intros Hjb. induction us as [|u us IH]; intros union children U; cbn [fold_left].
      - exists union, children. split; [reflexivity|]. split; auto. split; [apply incl_refl|].
        intros u row q [].
      - unfold tv_fun at 2. cbv zeta.
        destruct (chart_get ch (set_remove u bg)) as [row|] eqn:Eg.
        + destruct (chart_row_facts _ row Eg) as [key [Ek [Hsh _]]].
          destruct (fold_try_l_total bg jb (set_remove u bg) key row Hjb Ek) with
            (union := union) (children := children) as [u1 [c1 [E1 [U1 [I1 Y1]]]]]; auto.
          * intros x Hx. apply set_remove_In in Hx. tauto.
          * intros q Hq. destruct (ss_comp sh SS key _ (fst q) Hsh (in_map fst _ _ Hq)) as [H1 [_ H3]]. auto.
          * rewrite E1. destruct (IH u1 c1 U1) as [u2 [c2 [E2 [U2 [I2 Y2]]]]].
            exists u2, c2. split; auto. split; auto. split; [eapply incl_tran; eauto|].
            intros u0 row0 q0 [<-|Hu0] Hg Hq0 Hy Hs; [|eapply Y2; eauto].
            rewrite Eg in Hg. inversion Hg; subst row0. eapply incl_tran; [apply Y1; auto|exact I2].
        + destruct (IH union children U) as [u2 [c2 [E2 [U2 [I2 Y2]]]]].
          exists u2, c2. split; auto. split; auto. split; auto.
          intros u0 row0 q0 [<-|Hu0] Hg Hq0 Hy Hs; [congruence|eapply Y2; eauto].
    Qed.

    Definition covered (i j : bag) (v : nat) : Prop :=
      forall x, In x (set_diff j (set_add v i)) ->
        exists u row (q : bag * cell), In u i /\ chart_get ch (set_remove u (set_add v i)) = Some row /\
          In q row /\ cell_yes (snd q) <> None /\
          incl (set_diff (fst q) (set_remove u (set_add v i))) (set_diff j (set_add v i)) /\
          In x (set_diff (fst q) (set_remove u (set_add v i))).

    Lemma try_vs_total (i j : bag) : forall vs,
      exists r, try_vs ch i j vs = Some r /\ ((exists v, In v vs /\ covered i j v) -> r <> None).
    Proof.
      induction vs as [|v vs IH].
      - exists None. split; [reflexivity|]. intros [v [[] _]].
      - rewrite try_vs_cons. set (bg := set_add v i). set (jb := set_diff j bg).
        assert (Hjb : forall x, In x jb -> ~ In x bg) by (intros x Hx; apply set_diff_In in Hx; tauto).
        assert (U0 : ust_ok bg jb []) by (split; intros x []).
        destruct (fold_tv_total bg jb Hjb i [] [] U0) as [u2 [c2 [E2 [[U2 _] [_ Y2]]]]].
        rewrite E2. destruct (set_eqb u2 jb) eqn:Eu.
        + eexists. split; [reflexivity|]. intros _. discriminate.
        + destruct IH as [r [Hr Hc]]. exists r. split; auto.
          intros [v0 [[<-|Hv0] Hcov]]; [|apply Hc; eauto].
          exfalso. rewrite seteq_set_eqb in Eu; [discriminate|].
          intro x. split; [apply U2|]. intro Hx.
          destruct (Hcov x Hx) as [u [row [q [Hu [Hg [Hq [Hy [Hs Hxq]]]]]]]].
          exact (Y2 u row q Hu Hg Hq Hy Hs x Hxq).
    Qed.

    (** the normal form makes the good vertex [covered] *)
    Lemma good_covered (i : bag) js (j : bag) : In (i, js) sh -> In j js ->
      (forall (p : bag * list (bag * cell)) (q : bag * cell), In p ch -> In q (snd p) ->
         length (fst q) < length j -> kelim g k (set_diff (fst q) (fst p)) -> cell_yes (snd q) <> None) ->
      forall v, In v (set_diff j i) ->
        (forall D, compP g (set_add v i) D -> incl D (set_diff j i) ->
           kelim g k D /\ exists u, In u i /\ forall x, In x D -> ~ In u (nbrs g x)) ->
        covered i j v.
    Proof.
      intros Hi Hj Hsmall v Hv Hgood x Hx.
      destruct (ss_key sh SS i js Hi) as [Ni [Vi Li]].
      destruct (ss_comp sh SS i js j Hi Hj) as [[CC KC] [Iij Nj]].
      set (C := set_diff j i) in *. set (bg := set_add v i) in *.
      assert (Hbg : forall y, In y bg <-> y = v \/ In y i) by (intro y; apply set_add_In).
      assert (HvC : In v C) by exact Hv.
      apply set_diff_In in Hv. destruct Hv as [Hvj Hvi].
      apply set_diff_In in Hx. destruct Hx as [Hxj Hxb].
      assert (HxC : In x C) by (apply set_diff_In; split; auto; intro H; apply Hxb, Hbg; auto).
      assert (HxV : In x (gverts g)) by (apply (co_out g i C CC x HxC)).
      destruct (comp_of g bg W x HxV Hxb) as [D [[CD KD] HxD]].
      assert (HDC : incl D C).
      { apply (conn_in_closed g i D C x); auto.
        - intros y Hy Hyi. apply (co_out g bg D CD y Hy). apply Hbg. auto.
        - exact (co_closed g i C CC). }
      destruct (Hgood D (conj CD KD) HDC) as [HkD [u [Hui Hun]]].
      set (m := set_remove u bg).
      assert (Hm : forall y, In y m <-> In y bg /\ y <> u) by (intro y; apply set_remove_In).
      assert (Nbg : NoDup bg) by (apply set_add_NoDup; exact Ni).
      assert (Nm : NoDup m) by (apply set_remove_NoDup; exact Nbg).
      assert (Hub : In u bg) by (apply Hbg; auto).
      assert (HuD : ~ In u D) by (intro H; apply (co_out g bg D CD u H); exact Hub).
      assert (Lm : length m = k).
      { pose proof (set_remove_length u bg Nbg Hub) as L. unfold bg in L at 2.
        rewrite set_add_length in L by exact Hvi. fold m in L. lia. }
      assert (Vbg : incl bg (gverts g)).
      { intros y Hy. apply Hbg in Hy. destruct Hy as [->|Hy]; auto. apply (co_out g i C CC v HvC). }
      assert (CmD : compP g m D).
      { split; [|exact KD]. constructor.
        - exact (co_nodup g bg D CD).
        - exact (co_ne g bg D CD).
        - intros y Hy. destruct (co_out g bg D CD y Hy) as [H1 H2]. split; auto.
          intro H. apply H2. now apply Hm.
        - intros y z Hy Hz. destruct (co_closed g bg D CD y z Hy Hz) as [H|H]; auto.
          right. apply Hm. split; auto. intro; subst z. exact (Hun y Hy Hz). }
      (* the combination equal to m as a set is a key *)
      set (m' := filter (fun y => mem y m) (gverts g)).
      assert (Hm' : forall y, In y m' <-> In y m).
      { intro y. unfold m'. rewrite filter_In, mem_In. split; [tauto|]. intro H. split; auto.
        apply Vbg. now apply Hm. }
      assert (Lm' : length m' = k).
      { rewrite <- Lm. apply NoDup_same_length; auto. apply NoDup_filter, W. }
      assert (Km' : In m' (map fst sh)).
      { apply (ss_sep sh SS m' x u); auto.
        - pose proof (filter_in_combinations (fun y => mem y m) (gverts g)) as H. fold m' in H.
          now rewrite Lm' in H.
        - rewrite Hm', Hm. tauto.
        - rewrite Hm', Hm. tauto.
        - intros D' CD' HxD' HuD'. apply HuD.
          apply (compP_eq g m D' D x); auto. eapply compP_ext; [|exact CD']. exact Hm'. }
      apply in_map_iff in Km'. destruct Km' as [[m0 js0] [E0 Hs0]]. cbn in E0. subst m0.
      rewrite <- Esh in Hs0. destruct (cshape_in ch m' js0 Hs0) as [p0 [Hp0 [Ep0 _]]].
      destruct (chart_get_exists ch p0 m Hp0) as [row Hg].
      { pose proof (seteq_set_eqb m' m Hm') as Em. rewrite <- Ep0 in Em. exact Em. }
      destruct (chart_row_facts m row Hg) as [key [Ek [Hsh [p [Hp [Epk Eps]]]]]].
      assert (CkD : compP g key D) by (eapply compP_ext; [|exact CmD]; intro y; symmetry; apply Ek).
      destruct (ss_cover sh SS key _ D Hsh CkD) as [j' [Hj' Ej']].
      apply in_map_iff in Hj'. destruct Hj' as [q [Eq Hq]]. subst j'.
      destruct (ss_key sh SS key _ Hsh) as [Nk [_ Lk]].
      destruct (ss_comp sh SS key _ (fst q) Hsh (in_map fst _ _ Hq)) as [_ [Ikq Nq]].
      assert (Elm : forall y, In y (set_diff (fst q) m) <-> In y D).
      { intro y. rewrite <- Ej', !set_diff_In, Ek. reflexivity. }
      exists u, row, q. split; auto. split; auto. split; auto. split; [|split].
      - apply (Hsmall p q Hp); [rewrite Eps; exact Hq| |].
        + rewrite (length_diff (fst q) key Nq Nk Ikq), (length_diff j i Nj Ni Iij). fold C.
          assert (length (set_diff (fst q) key) = length D).
          { apply NoDup_same_length; auto; [now apply set_diff_NoDup|exact (co_nodup g bg D CD)]. }
          assert (length (v :: D) <= length C).
          { apply NoDup_incl_length.
            - constructor; [|exact (co_nodup g bg D CD)]. intro H0. apply (co_out g bg D CD v H0). apply Hbg. auto.
            - intros y [<-|Hy]; auto. }
          cbn [length] in *. lia.
        + rewrite Epk. eapply kelim_ext; [|exact HkD]. intro y. symmetry. apply Ej'.
      - intros y Hy. apply Elm in Hy. apply set_diff_In. split.
        + pose proof (HDC y Hy) as H. apply set_diff_In in H. tauto.
        + apply (co_out g bg D CD y Hy).
      - apply Elm. exact HxD.
    Qed.
  End WithChart.
End Complete.
