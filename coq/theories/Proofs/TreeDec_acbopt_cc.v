(** [connected_components(g, s)] -- the part that the validity proof (TreeDec_cc.v) did not need:
    - it always returns (the fuel of both loops suffices), for every simple undirected graph;
    - every returned set is CONNECTED in g \ s ([compP] = closed under neighbours outside [s] and
      any two of its vertices are joined by a walk inside the set);
    - a connected set that meets a closed set and avoids its separator lies inside it, hence two
      components (of the same separator) that share a vertex are equal as sets. *)
From Coq Require Import List Arith Bool PeanoNat Lia Permutation.
Import ListNotations.
Require Import Fggs.Model.TreeDec Fggs.Proofs.TreeDec_graph Fggs.Proofs.TreeDec_tdok
               Fggs.Proofs.TreeDec_cc.

(** * connected vertex sets *)
Definition adjin (g : graph) (S : nat -> Prop) (a b : nat) : Prop := S a /\ S b /\ In b (nbrs g a).
Definition connP (g : graph) (S : nat -> Prop) : Prop := forall a b, S a -> S b -> walk (adjin g S) a b.
Definition inl (D : list nat) : nat -> Prop := fun x => In x D.

Lemma adjin_sym g S : wf_graph g -> forall a b, adjin g S a b -> adjin g S b a.
Proof. intros W a b [H1 [H2 H3]]. split; auto. split; auto. now apply (wf_sym g W). Qed.

Definition closed_in (g : graph) (s D : list nat) : Prop :=
  forall x y, In x D -> In y (nbrs g x) -> In y D \/ In y s.

(** a walk that avoids [s] and starts in a set closed under neighbours outside [s] stays in it *)
Lemma closed_walk g s D (S : nat -> Prop) : closed_in g s D -> (forall x, S x -> ~ In x s) ->
  forall a b, walk (adjin g S) a b -> In a D -> In b D.
Proof.
  intros Hc HS a b Wk. induction Wk as [a|a c b [Ha [Hc0 Hac]] Wk IH]; intro Hin; auto.
  apply IH. destruct (Hc a c Hin Hac) as [H|H]; auto. exfalso. exact (HS c Hc0 H).
Qed.

Definition compP (g : graph) (s D : list nat) : Prop := comp_ok g s D /\ connP g (inl D).

Lemma conn_in_closed g s' D D' x : connP g (inl D) -> (forall y, In y D -> ~ In y s') ->
  closed_in g s' D' -> In x D -> In x D' -> incl D D'.
Proof.
  intros Hc Hd Hcl HxD HxD' y Hy.
  apply (closed_walk g s' D' (inl D) Hcl Hd x y); auto.
Qed.

Lemma compP_eq g s D D' x : compP g s D -> compP g s D' -> In x D -> In x D' -> incl D D'.
Proof.
  intros [C1 K1] [C2 K2] H1 H2. apply (conn_in_closed g s D D' x); auto.
  - intros y Hy. apply (co_out g s D C1 y Hy).
  - intros a b Ha Hb. exact (co_closed g s D' C2 a b Ha Hb).
Qed.

Lemma comp_ok_ext g s s' D : (forall x, In x s <-> In x s') -> comp_ok g s D -> comp_ok g s' D.
Proof.
  intros E [A1 A2 A3 A4]. constructor; auto.
  - intros x Hx. destruct (A3 x Hx) as [H1 H2]. split; auto. intro H. apply H2. now apply E.
  - intros x y Hx Hy. destruct (A4 x y Hx Hy); auto. right. now apply E.
Qed.
Lemma compP_ext g s s' D : (forall x, In x s <-> In x s') -> compP g s D -> compP g s' D.
Proof. intros E [C K]. split; auto. eapply comp_ok_ext; eauto. Qed.

(** * the inner loop: everything it collects is reachable from the start vertex *)
Section CC2.
  Variable g : graph.
  Variable s : list nat.
  Hypothesis W : wf_graph g.

  Lemma cc_inner_reach (P : nat -> Prop) :
    (forall x y, P x -> In y (nbrs g x) -> ~ In y s -> P y) ->
    forall fuel comp agenda res, cc_inner fuel g s comp agenda = Some res ->
      (forall x, In x comp \/ In x agenda -> P x) -> forall x, In x res -> P x.
  Proof.
    intros Hstep. induction fuel as [|fuel IH]; intros comp agenda res Hr Hseed x Hx.
    - destruct agenda as [|v rest]; [|discriminate]. cbn in Hr. inversion Hr; subst. auto.
    - destruct agenda as [|v rest].
      + cbn in Hr. inversion Hr; subst. auto.
      + cbn [cc_inner] in Hr. apply (IH _ _ _ Hr); auto.
        intros z [Hz|Hz].
        * apply set_add_In in Hz. destruct Hz as [->|Hz]; apply Hseed; [right; cbn; auto|auto].
        * apply set_union_In in Hz. destruct Hz as [Hz|Hz]; [apply Hseed; right; cbn; auto|].
          apply set_diff_In in Hz. destruct Hz as [Hz Hs]. apply set_diff_In in Hz. destruct Hz as [Hz _].
          apply (Hstep v z); auto. apply Hseed. right. cbn; auto.
  Qed.

  Lemma cc_inner_total : forall fuel comp agenda,
    NoDup comp -> incl comp (gverts g) -> NoDup agenda ->
    (forall x, In x agenda -> In x (gverts g) /\ ~ In x comp) ->
    length g + 1 <= fuel + length comp ->
    exists res, cc_inner fuel g s comp agenda = Some res.
  Proof.
    induction fuel as [|fuel IH]; intros comp agenda Nc Ic Na Ha L.
    - destruct agenda as [|v rest]; [cbn; eauto|].
      exfalso. apply NoDup_incl_length in Ic; auto. unfold gverts in Ic. rewrite map_length in Ic. lia.
    - destruct agenda as [|v rest]; [cbn; eauto|].
      cbn [cc_inner]. destruct (Ha v (or_introl eq_refl)) as [Hv Hvc].
      inversion Na as [|? ? Hvr Nr]; subst.
      apply IH.
      + now apply set_add_NoDup.
      + intros x Hx. apply set_add_In in Hx. destruct Hx as [->|Hx]; auto.
      + now apply set_union_NoDup.
      + intros x Hx. apply set_union_In in Hx. rewrite set_add_In. destruct Hx as [Hx|Hx].
        * destruct (Ha x (or_intror Hx)) as [H1 H2]. split; auto. intros [->|H]; auto.
        * apply set_diff_In in Hx. destruct Hx as [Hx _]. apply set_diff_In in Hx. destruct Hx as [Hx Hn].
          split; [eapply (wf_closed g W); eauto|]. intro H. apply Hn. now apply set_add_In.
      + rewrite set_add_length; auto. lia.
  Qed.

  Lemma filter_length_le' {A} (f : A -> bool) l : length (filter f l) <= length l.
  Proof. induction l as [|a l IH]; cbn; [lia|]. destruct (f a); cbn; lia. Qed.
  Lemma filter_length_lt {A} (f : A -> bool) l x : In x l -> f x = false -> length (filter f l) < length l.
  Proof.
    induction l as [|a l IH]; intros Hx Hf; [destruct Hx|]. cbn.
    destruct Hx as [->|Hx].
    - rewrite Hf. pose proof (filter_length_le' f l). lia.
    - specialize (IH Hx Hf). destruct (f a); cbn; lia.
  Qed.

  (** what one run of the inner loop from a single start vertex gives *)
  Lemma cc_inner_comp v0 comp : outside g s v0 ->
    cc_inner (S (length g)) g s [] [v0] = Some comp -> compP g s comp /\ In v0 comp.
  Proof.
    intros Hv0 Ec.
    destruct (cc_inner_spec g s W _ _ _ _ Ec) as [R1 [R2 [R3 [R4 R5]]]].
    - intros x y [].
    - intros x [[]|[<-|[]]]. exact Hv0.
    - constructor.
    - assert (Hin : In v0 comp) by (apply R4; right; cbn; auto).
      split; [|exact Hin]. split.
      + constructor; auto. intro E. rewrite E in Hin. destruct Hin.
      + assert (Hr : forall x, In x comp -> In x comp /\ walk (adjin g (inl comp)) v0 x).
        { assert (Hstep : forall x y, In x comp /\ walk (adjin g (inl comp)) v0 x ->
                            In y (nbrs g x) -> ~ In y s ->
                            In y comp /\ walk (adjin g (inl comp)) v0 y).
          { intros x y [Hx Wk] Hy Hs. destruct (R1 x y Hx Hy) as [H|H]; [|contradiction].
            split; auto. eapply walk_trans; [exact Wk|]. apply walk_one. unfold adjin, inl. auto. }
          apply (cc_inner_reach (fun x => In x comp /\ walk (adjin g (inl comp)) v0 x)
                   Hstep (S (length g)) [] [v0] comp Ec).
          intros x [[]|[<-|[]]]. split; auto. constructor. }
        intros a b Ha Hb. eapply walk_trans.
        * apply walk_sym; [apply adjin_sym; exact W|]. apply (Hr a Ha).
        * apply (Hr b Hb).
  Qed.

  Lemma cc_outer_total : forall fuel nodes comps,
    (forall x, In x nodes -> outside g s x) -> length nodes <= fuel ->
    exists res, cc_outer fuel g s nodes comps = Some res.
  Proof.
    induction fuel as [|fuel IH]; intros nodes comps Hn L.
    - destruct nodes; [cbn; eauto|cbn in L; lia].
    - destruct nodes as [|v0 nodes']; [cbn; eauto|].
      cbn [cc_outer].
      destruct (Hn v0 (or_introl eq_refl)) as [Hv0 Hv0s].
      destruct (cc_inner_total (S (length g)) [] [v0]) as [comp Ec].
      + constructor.
      + intros x [].
      + constructor; [intros []|constructor].
      + intros x [<-|[]]. split; auto.
      + cbn. lia.
      + rewrite Ec. destruct (cc_inner_comp v0 comp (conj Hv0 Hv0s) Ec) as [_ Hin].
        apply IH.
        * intros x Hx. apply set_diff_In in Hx. apply Hn. tauto.
        * unfold set_diff.
          assert (length (filter (fun x => negb (mem x comp)) (v0 :: nodes')) < length (v0 :: nodes')).
          { apply (filter_length_lt _ _ v0); [cbn; auto|]. apply negb_false_iff. now apply mem_In. }
          cbn [length] in *. lia.
  Qed.

  Lemma cc_outer_conn : forall fuel nodes comps res,
    cc_outer fuel g s nodes comps = Some res ->
    (forall x, In x nodes -> outside g s x) -> Forall (compP g s) comps -> Forall (compP g s) res.
  Proof.
    induction fuel as [|fuel IH]; intros nodes comps res Hr Hn Hc.
    - destruct nodes; [|discriminate]. cbn in Hr. inversion Hr; subst. auto.
    - destruct nodes as [|v0 nodes'].
      + cbn in Hr. inversion Hr; subst. auto.
      + cbn [cc_outer] in Hr.
        destruct (cc_inner (S (length g)) g s [] [v0]) as [comp|] eqn:Ec; [|discriminate].
        apply (IH _ _ _ Hr).
        * intros x Hx. apply set_diff_In in Hx. apply Hn. tauto.
        * apply Forall_app. split; auto. constructor; [|constructor].
          apply (cc_inner_comp v0 comp); auto. apply Hn. cbn; auto.
  Qed.

  Theorem cc_total : exists comps, connected_components g s = Some comps.
  Proof.
    unfold connected_components. apply cc_outer_total.
    - intros x Hx. apply set_diff_In in Hx. destruct Hx as [Hx Hs]. split; auto.
      now apply (proj1 (sort_set_In _ _)).
    - unfold set_diff.
      pose proof (filter_length_le' (fun x => negb (mem x s)) (sort_set (gverts g))).
      assert (length (sort_set (gverts g)) <= length (gverts g)).
      { apply NoDup_incl_length; [apply sort_set_NoDup|]. intros x Hx. now apply (proj1 (sort_set_In _ _)). }
      unfold gverts in *. rewrite map_length in *. lia.
  Qed.

  Theorem cc_conn comps : connected_components g s = Some comps -> Forall (compP g s) comps.
  Proof.
    unfold connected_components. intro H. apply (cc_outer_conn _ _ _ _ H); [|constructor].
    intros x Hx. apply set_diff_In in Hx. destruct Hx as [Hx Hs]. split; auto.
    now apply (proj1 (sort_set_In _ _)).
  Qed.

  (** the component of a vertex outside the separator *)
  Theorem comp_of x : In x (gverts g) -> ~ In x s -> exists D, compP g s D /\ In x D.
  Proof.
    intros Hx Hs. destruct cc_total as [comps Hc].
    destruct (cc_spec g s W comps Hc) as [_ [_ C3]]. destruct (C3 x (conj Hx Hs)) as [D [HD HxD]].
    exists D. split; auto. pose proof (cc_conn comps Hc) as F. rewrite Forall_forall in F. auto.
  Qed.
End CC2.

(** hypotheses satisfiable: the two components of the path 0-1-2-3 minus vertex 1 *)
Example cc_example :
  connected_components [(0,[1]);(1,[0;2]);(2,[1;3]);(3,[2])] [1] = Some [[0];[2;3]].
Proof. reflexivity. Qed.
