(** Refinement of a grammar of Model/SumProduct.v by *fresh nonterminals* (abstract form of
    what factorisation does, C05).  [G'] refines [G] when its labels extend those of [G]
    ([n0] = number of labels of [G]), the new ("fresh", number >= [n0]) nonterminals are
    ranked among themselves ([rk], bounded by [M]) and belong to an original nonterminal
    ([owner]), and -- the semantic heart, [rf_step] -- in every environment that solves the
    equations of the fresh nonterminals, the equation of every ORIGINAL nonterminal is the same
    in [G'] as in [G].  Consequences, generic in the commutative semiring:
    - [G] non-recursive (ranked) => [G'] ranked, and the sum-products ([Zk] at any k >= number
      of nonterminals = sum over all derivation trees, C01) of every original nonterminal agree;
    - ordered semirings, recursive grammars included: the Kleene iterates are sandwiched,
        Zk G' k X <= Zk G k X   and   Zk G k X <= Zk G' ((M + 2) k) X,
      so the two chains have the same upper bounds, the same suprema (least fixed points) and
      the same certified enclosures; pre-fixed points of [G] extend to pre-fixed points of [G']
      with the same values on the original nonterminals and every pre-fixed point of [G']
      restricts to one of [G]. *)
From Coq Require Import List Arith Bool PeanoNat Lia Permutation Ring Ring_theory.
Import ListNotations.
Require Import Fggs.Model.Semiring Fggs.Model.SCC Fggs.Model.SumProduct.
Require Import Fggs.Proofs.SCC_ntgraph Fggs.Proofs.BigSum Fggs.Proofs.SP_trees Fggs.Proofs.SP_nonrec
               Fggs.Proofs.SP_unfold.
Require Fggs.Proofs.SP_mono.

(** [x] solves the equations of the fresh nonterminals of [G'] (at every index tuple) *)
Definition fresh_eqs {R} (o : sr_ops R) (G' : grammar) (n0 : nat) (w x : env (R:=R)) : Prop :=
  forall Y, n0 <= Y -> is_term G' Y = false -> forall zeta, x Y zeta = step o G' w x Y zeta.

Record refines (G G' : grammar) (n0 M : nat) (rk owner : nat -> nat) : Prop := {
  (* the labels of [G] are the labels below [n0], with the same kind in [G'] *)
  rf_term : forall l, l < n0 -> is_term G' l = is_term G l;
  rf_term_ge : forall l, n0 <= l -> is_term G l = true;
  (* in an environment that solves the fresh equations, the original equations coincide *)
  rf_step : forall (R : Type) (o : sr_ops R), sr_ring o -> forall (w x : env (R:=R)),
      fresh_eqs o G' n0 w x ->
      forall X xi, X < n0 -> is_term G X = false -> step o G' w x X xi = step o G w x X xi;
  rf_rk_bound : forall l, rk l < M;
  (* a rule of an original nonterminal [X]: its nonterminal edges are original nonterminals that
     [X] depends on in [G], or fresh nonterminals owned by [X] *)
  rf_orig : forall c, In c (g_rules G') -> r_lhs c < n0 -> is_term G' (r_lhs c) = false ->
      forall ed, In ed (r_edges c) -> is_term G' (fst ed) = false ->
        (fst ed < n0 /\ In (fst ed) (deps G (r_lhs c))) \/ (n0 <= fst ed /\ owner (fst ed) = r_lhs c);
  (* a rule of a fresh nonterminal [Y] owned by [X]: original nonterminals that [X] depends on
     in [G], or fresh nonterminals of the same owner and of smaller rank *)
  rf_fresh : forall c, In c (g_rules G') -> n0 <= r_lhs c -> is_term G' (r_lhs c) = false ->
      owner (r_lhs c) < n0 /\ is_term G (owner (r_lhs c)) = false /\
      forall ed, In ed (r_edges c) -> is_term G' (fst ed) = false ->
        (fst ed < n0 /\ In (fst ed) (deps G (owner (r_lhs c))))
        \/ (n0 <= fst ed /\ owner (fst ed) = owner (r_lhs c) /\ rk (fst ed) < rk (r_lhs c)) }.

Section Abstract.
Variables (G G' : grammar) (n0 M : nat) (rk owner : nat -> nat).
Hypothesis RF : refines G G' n0 M rk owner.

Lemma nonterminal_lt X : is_term G X = false -> X < n0.
Proof.
  intro T. destruct (Nat.lt_ge_cases X n0) as [H|H]; [exact H|].
  rewrite (rf_term_ge _ _ _ _ _ _ RF X H) in T. discriminate.
Qed.

(** * non-recursive grammars *)
(** original nonterminals keep their rank, scaled; the fresh nonterminals of [X] sit strictly
    between the nonterminals [X] depends on and [X] *)
Definition rank_up (rank : nat -> nat) (l : nat) : nat :=
  if l <? n0 then (rank l + 1) * S M else rank (owner l) * S M + 1 + rk l.

Lemma scale_lt a b : a < b -> (a + 1) * S M <= b * S M.
Proof. intro H. apply Nat.mul_le_mono_r. lia. Qed.

Theorem ranked_refines rank : ranked G rank -> ranked G' (rank_up rank).
Proof.
  intros Rk c Hc Tl ed Hed Ted. pose proof (proj1 (ranked_deps G rank) Rk) as Rd.
  unfold rank_up. destruct (Nat.ltb_spec (r_lhs c) n0) as [Hl|Hl].
  - assert (TX : is_term G (r_lhs c) = false) by (rewrite <- (rf_term _ _ _ _ _ _ RF) by exact Hl; exact Tl).
    destruct (rf_orig _ _ _ _ _ _ RF c Hc Hl Tl ed Hed Ted) as [[Hlt Hd]|[Hge Ho]].
    + rewrite (proj2 (Nat.ltb_lt _ _) Hlt). pose proof (scale_lt _ _ (Rd _ _ TX Hd)). lia.
    + rewrite (proj2 (Nat.ltb_ge _ _) Hge), Ho. pose proof (rf_rk_bound _ _ _ _ _ _ RF (fst ed)). lia.
  - destruct (rf_fresh _ _ _ _ _ _ RF c Hc Hl Tl) as (Ho & To & He).
    destruct (He ed Hed Ted) as [[Hlt Hd]|(Hge & Eo & Hrk)].
    + rewrite (proj2 (Nat.ltb_lt _ _) Hlt). pose proof (scale_lt _ _ (Rd _ _ To Hd)). lia.
    + rewrite (proj2 (Nat.ltb_ge _ _) Hge), Eo. lia.
Qed.

Section Ring.
Context {R : Type} (o : sr_ops R).
Hypothesis Hr : sr_ring o.

Lemma Zk_nonrec_value H (w : env (R:=R)) rank : ranked H rank ->
  forall k X xi, is_term H X = false -> length (nonterminals H) <= k ->
    Zk o H w k X xi = Zk o H w (S (rank X)) X xi.
Proof.
  intros Rk k X xi TX Hk. set (K := Nat.max k (S (rank X))).
  destruct (Zk_nonrec_all_trees o Hr H w rank Rk k X xi TX Hk) as (_ & _ & _ & E1).
  destruct (Zk_nonrec_all_trees o Hr H w rank Rk K X xi TX ltac:(unfold K; lia)) as (_ & _ & _ & E2).
  rewrite E1, <- E2. apply (Zk_stable_ge o H w rank Rk); trivial. unfold K. lia.
Qed.

(** a solution of the equations of [G'] is, on the original nonterminals, a solution of those of [G] *)
Lemma fixpoint_restrict (w x : env (R:=R)) : fixpoint o G' w x -> fixpoint o G w x.
Proof.
  intros F X xi TX. pose proof (nonterminal_lt X TX) as HX.
  assert (FE : fresh_eqs o G' n0 w x) by (intros Y _ TY zeta; symmetry; now apply F).
  rewrite <- (rf_step _ _ _ _ _ _ RF R o Hr w x FE X xi HX TX). apply F.
  now rewrite (rf_term _ _ _ _ _ _ RF X HX).
Qed.

(** the sum over all derivations of every original nonterminal is unchanged *)
Theorem refines_Zk_nonrec rank : ranked G rank ->
  forall (w : env (R:=R)) X xi, is_term G X = false ->
  forall k k0, length (nonterminals G') <= k -> length (nonterminals G) <= k0 ->
    Zk o G' w k X xi = Zk o G w k0 X xi.
Proof.
  intros Rk w X xi TX k k0 Hk Hk0. pose proof (nonterminal_lt X TX) as HX.
  pose proof (ranked_refines rank Rk) as Rk'.
  assert (TX' : is_term G' X = false) by now rewrite (rf_term _ _ _ _ _ _ RF X HX).
  rewrite (Zk_nonrec_value G' w _ Rk' k X xi TX' Hk), (Zk_nonrec_value G w _ Rk k0 X xi TX Hk0).
  pose proof (fixpoint_restrict w _ (ranked_fixpoint_exists o G' w _ Rk')) as F.
  exact (ranked_fixpoint_unique o G w rank _ Rk F X xi TX).
Qed.
End Ring.

(** * ordered semirings: recursive grammars *)
Section Ordered.
Context {R : Type} (o : sr_ops R).
Hypothesis Hr : sr_ring o.
Hypothesis Ho : sr_ordered o.
Local Notation "x <== y" := (le o x y) (at level 70).
Variable w : env (R:=R).

(** solving the fresh equations over given values [z] of the original labels: iterate the
    fresh equations [S M] times from zero *)
Definition fstep (z y : env (R:=R)) : env (R:=R) := fun l => if l <? n0 then z l else step o G' w y l.
Fixpoint fiter (z : env (R:=R)) (j : nat) : env (R:=R) :=
  match j with
  | 0 => fun l => if l <? n0 then z l else zero_env o l
  | S j => fstep z (fiter z j)
  end.
Definition ext (z : env (R:=R)) : env (R:=R) := fiter z (S M).

Lemma fiter_orig z j l : l < n0 -> fiter z j l = z l.
Proof. intro H. apply Nat.ltb_lt in H. destruct j; cbn [fiter]; unfold fstep; now rewrite H. Qed.
Lemma fiter_S_fresh z j l : n0 <= l -> fiter z (S j) l = step o G' w (fiter z j) l.
Proof. intro H. apply Nat.ltb_ge in H. cbn [fiter]. unfold fstep. now rewrite H. Qed.
Lemma ext_orig z l : l < n0 -> ext z l = z l.
Proof. apply fiter_orig. Qed.

Lemma fiter_stable z : forall j Y, n0 <= Y -> is_term G' Y = false -> rk Y < j ->
  forall zeta, fiter z (S j) Y zeta = fiter z j Y zeta.
Proof.
  induction j as [|j IH]; intros Y HY TY Hj zeta; [lia|].
  rewrite (fiter_S_fresh z (S j) Y HY), (fiter_S_fresh z j Y HY). unfold step. rewrite TY.
  apply BigSum.sumS_ext. intros c Hc. apply SP_nonrec.in_rules_of in Hc. destruct Hc as [Hc E].
  apply (rule_val_ext o). intros ed a Hed _. destruct (is_term G' (fst ed)) eqn:T; [reflexivity|].
  destruct (Nat.lt_ge_cases (fst ed) n0) as [Hl|Hl]; [now rewrite !fiter_orig|].
  apply IH; trivial.
  destruct (rf_fresh _ _ _ _ _ _ RF c Hc ltac:(rewrite E; exact HY) ltac:(rewrite E; exact TY)) as (_ & _ & He).
  destruct (He ed Hed T) as [[Hlt _]|(_ & _ & Hrk)]; [lia|]. rewrite E in Hrk. lia.
Qed.

Theorem ext_fresh_eqs z : fresh_eqs o G' n0 w (ext z).
Proof.
  intros Y HY TY zeta. unfold ext. rewrite <- (fiter_S_fresh z (S M) Y HY).
  symmetry. apply fiter_stable; trivial. pose proof (rf_rk_bound _ _ _ _ _ _ RF Y). lia.
Qed.

Lemma fiter_mono z z' : (forall l xi, l < n0 -> z l xi <== z' l xi) ->
  forall j, SP_mono.env_le o (fiter z j) (fiter z' j).
Proof.
  intros H. induction j as [|j IH]; intros l xi; cbn [fiter]; unfold fstep;
    destruct (Nat.ltb_spec l n0) as [Hl|Hl]; try (now apply H).
  - apply (le_refl o Ho).
  - now apply (SP_mono.step_mono o Hr Ho).
Qed.

(** in an environment that solves the fresh equations, the original equations of [G'] are
    those of [G], which read the original nonterminals only *)
Lemma step_ext_orig (x : env (R:=R)) z : fresh_eqs o G' n0 w x -> (forall l, l < n0 -> x l = z l) ->
  forall X xi, X < n0 -> is_term G X = false -> step o G' w x X xi = step o G w z X xi.
Proof.
  intros FE E X xi HX TX. rewrite (rf_step _ _ _ _ _ _ RF R o Hr w x FE X xi HX TX).
  apply (step_ext o). intros l zeta Tl. now rewrite (E l (nonterminal_lt l Tl)).
Qed.

(** every solution of the equations of [G] extends to a solution of those of [G'] with the same
    values on the original labels (no order needed; the converse is [fixpoint_restrict]) *)
Theorem fixpoint_extend (x : env (R:=R)) : fixpoint o G w x ->
  fixpoint o G' w (ext x) /\ forall l, l < n0 -> ext x l = x l.
Proof.
  intro F. split; [|apply ext_orig]. intros X xi TX'.
  destruct (Nat.lt_ge_cases X n0) as [HX|HX].
  - assert (TX : is_term G X = false) by (rewrite <- (rf_term _ _ _ _ _ _ RF X HX); exact TX').
    rewrite (ext_orig x X HX), (step_ext_orig _ x (ext_fresh_eqs x) (fun l' Hl' => ext_orig x l' Hl') X xi HX TX).
    now apply F.
  - symmetry. now apply ext_fresh_eqs.
Qed.

(** ** upper bound: an iterate of [G'] is below the same iterate of [G], fresh nonterminals solved *)
Theorem Zk_refines_upper_ext : forall k, SP_mono.env_le o (Zk o G' w k) (ext (Zk o G w k)).
Proof.
  induction k as [|k IH]; intros l xi; [apply (zero_le o Ho)|].
  cbn [Zk]. eapply (le_trans o Ho); [apply (SP_mono.step_mono o Hr Ho); exact IH|].
  destruct (Nat.lt_ge_cases l n0) as [Hl|Hl].
  - rewrite (ext_orig _ l Hl). destruct (is_term G l) eqn:T.
    + unfold step. rewrite T, (rf_term _ _ _ _ _ _ RF l Hl), T. apply (le_refl o Ho).
    + rewrite (step_ext_orig _ (Zk o G w k) (ext_fresh_eqs _) (fun l' Hl' => ext_orig _ l' Hl') l xi Hl T).
      apply (le_refl o Ho).
  - destruct (is_term G' l) eqn:T.
    + unfold ext. rewrite (fiter_S_fresh _ M l Hl). unfold step. rewrite T. apply (le_refl o Ho).
    + rewrite <- (ext_fresh_eqs (Zk o G w k) l Hl T xi). unfold ext. apply fiter_mono.
      intros l' xi' _. apply (SP_mono.Zk_chain o Hr Ho).
Qed.
Corollary Zk_refines_upper k X xi : X < n0 -> Zk o G' w k X xi <== Zk o G w k X xi.
Proof. intro HX. rewrite <- (ext_orig (Zk o G w k) X HX). apply Zk_refines_upper_ext. Qed.

(** ** lower bound: [M + 2] steps of [G'] do at least one step of [G] *)
Lemma fiter_below_Zk z K : (forall l xi, l < n0 -> z l xi <== Zk o G' w K l xi) ->
  forall j, SP_mono.env_le o (fiter z j) (Zk o G' w (K + j)).
Proof.
  intros H. induction j as [|j IH]; intros l xi.
  - rewrite Nat.add_0_r. cbn [fiter]. destruct (Nat.ltb_spec l n0) as [Hl|Hl]; [now apply H|apply (zero_le o Ho)].
  - destruct (Nat.lt_ge_cases l n0) as [Hl|Hl].
    + rewrite (fiter_orig _ _ l Hl). eapply (le_trans o Ho); [apply (H l xi Hl)|].
      apply (SP_mono.Zk_mono_k o Hr Ho). lia.
    + rewrite (fiter_S_fresh _ j l Hl). replace (K + S j) with (S (K + j)) by lia. cbn [Zk].
      now apply (SP_mono.step_mono o Hr Ho).
Qed.

Theorem Zk_refines_lower : forall k X xi, X < n0 -> Zk o G w k X xi <== Zk o G' w ((M + 2) * k) X xi.
Proof.
  induction k as [|k IH]; intros X xi HX; [apply (zero_le o Ho)|].
  replace ((M + 2) * S k) with (S ((M + 2) * k + S M)) by lia. cbn [Zk].
  destruct (is_term G X) eqn:T.
  - unfold step. rewrite T, (rf_term _ _ _ _ _ _ RF X HX), T. apply (le_refl o Ho).
  - rewrite <- (step_ext_orig _ (Zk o G w k) (ext_fresh_eqs _) (fun l' Hl' => ext_orig _ l' Hl') X xi HX T).
    apply (SP_mono.step_mono o Hr Ho). unfold ext. apply fiter_below_Zk. intros l zeta Hl. now apply IH.
Qed.

Corollary Zk_refines_sandwich k X xi : X < n0 ->
  Zk o G' w k X xi <== Zk o G w k X xi /\ Zk o G w k X xi <== Zk o G' w ((M + 2) * k) X xi.
Proof. intro HX. split; [now apply Zk_refines_upper|now apply Zk_refines_lower]. Qed.

(** ** same upper bounds, same suprema, same enclosures *)
Definition is_sup (f : nat -> R) (s : R) : Prop :=
  (forall k, f k <== s) /\ forall u, (forall k, f k <== u) -> s <== u.

Theorem refines_same_bounds X xi : X < n0 ->
  forall u, (forall k, Zk o G w k X xi <== u) <-> (forall k, Zk o G' w k X xi <== u).
Proof.
  intros HX u. split; intros H k.
  - eapply (le_trans o Ho); [apply (Zk_refines_upper k X xi HX)|apply H].
  - eapply (le_trans o Ho); [apply (Zk_refines_lower k X xi HX)|apply H].
Qed.

Theorem refines_same_sup X xi : X < n0 ->
  forall s, is_sup (fun k => Zk o G w k X xi) s <-> is_sup (fun k => Zk o G' w k X xi) s.
Proof.
  intros HX s. unfold is_sup. pose proof (refines_same_bounds X xi HX) as B. split; intros [H1 H2]; split.
  - now apply B.
  - intros u Hu. apply H2. now apply B.
  - now apply B.
  - intros u Hu. apply H2. now apply B.
Qed.
Corollary refines_sup_unique X xi : X < n0 ->
  forall s s', is_sup (fun k => Zk o G w k X xi) s -> is_sup (fun k => Zk o G' w k X xi) s' -> s = s'.
Proof.
  intros HX s s' H H'. apply (refines_same_sup X xi HX) in H. destruct H as [A1 A2], H' as [B1 B2].
  apply (le_antisym o Ho); [now apply A2|now apply B2].
Qed.

(** an enclosure [lo <= some iterate], [every iterate <= hi] (what [enclosure] of C02 certifies)
    of an original nonterminal is valid for [G] iff it is valid for [G'] *)
Theorem refines_same_enclosures X xi : X < n0 -> forall lo hi,
  ((exists j, lo <== Zk o G w j X xi) /\ (forall k, Zk o G w k X xi <== hi))
  <-> ((exists j, lo <== Zk o G' w j X xi) /\ (forall k, Zk o G' w k X xi <== hi)).
Proof.
  intros HX lo hi. split; intros [[j Hj] Hu]; split.
  - exists ((M + 2) * j). eapply (le_trans o Ho); [exact Hj|now apply Zk_refines_lower].
  - now apply (refines_same_bounds X xi HX).
  - exists j. eapply (le_trans o Ho); [exact Hj|now apply Zk_refines_upper].
  - now apply (refines_same_bounds X xi HX).
Qed.

(** ** pre-fixed points *)
(** a pre-fixed point of [G], fresh nonterminals solved, is a pre-fixed point of [G'] with the
    same values on the original labels *)
Theorem prefix_extend (u : env (R:=R)) : SP_mono.env_le o (step o G w u) u ->
  SP_mono.env_le o (step o G' w (ext u)) (ext u) /\ forall l, l < n0 -> ext u l = u l.
Proof.
  intro P. split; [|apply ext_orig]. intros l xi.
  destruct (Nat.lt_ge_cases l n0) as [Hl|Hl].
  - rewrite (ext_orig _ l Hl). destruct (is_term G l) eqn:T.
    + specialize (P l xi). unfold step in *. now rewrite (rf_term _ _ _ _ _ _ RF l Hl), T in *.
    + rewrite (step_ext_orig _ u (ext_fresh_eqs _) (fun l' Hl' => ext_orig _ l' Hl') l xi Hl T). apply P.
  - destruct (is_term G' l) eqn:T.
    + unfold ext. rewrite (fiter_S_fresh _ M l Hl). unfold step. rewrite T. apply (le_refl o Ho).
    + rewrite <- (ext_fresh_eqs u l Hl T xi). apply (le_refl o Ho).
Qed.

(** every pre-fixed point of [G'] is, on the original labels, a pre-fixed point of [G] *)
Lemma fiter_below_prefix (u' : env (R:=R)) : SP_mono.env_le o (step o G' w u') u' ->
  forall j, SP_mono.env_le o (fiter u' j) u'.
Proof.
  intros P. induction j as [|j IH]; intros l xi; cbn [fiter]; unfold fstep;
    destruct (Nat.ltb_spec l n0) as [Hl|Hl]; try apply (le_refl o Ho).
  - apply (zero_le o Ho).
  - eapply (le_trans o Ho); [apply (SP_mono.step_mono o Hr Ho); exact IH|apply P].
Qed.
Theorem prefix_restrict (u' : env (R:=R)) : SP_mono.env_le o (step o G' w u') u' ->
  forall X xi, is_term G X = false -> step o G w u' X xi <== u' X xi.
Proof.
  intros P X xi TX. pose proof (nonterminal_lt X TX) as HX.
  rewrite <- (step_ext_orig _ u' (ext_fresh_eqs u') (fun l' Hl' => ext_orig _ l' Hl') X xi HX TX).
  eapply (le_trans o Ho); [|apply P]. apply (SP_mono.step_mono o Hr Ho). apply fiter_below_prefix. exact P.
Qed.

(** hence: if [mu] is the least pre-fixed point of [G] (on its nonterminals), its extension is
    below every pre-fixed point of [G'] on the original nonterminals *)
Theorem least_prefix_transfer (mu : env (R:=R)) :
  (forall u : env (R:=R), (forall X xi, is_term G X = false -> step o G w u X xi <== u X xi) ->
                          forall X xi, is_term G X = false -> mu X xi <== u X xi) ->
  forall u' : env (R:=R), SP_mono.env_le o (step o G' w u') u' ->
    forall X xi, is_term G X = false -> mu X xi <== u' X xi.
Proof.
  intros L u' P X xi TX. apply L; trivial. intros Z zeta TZ. now apply prefix_restrict.
Qed.

End Ordered.
End Abstract.
