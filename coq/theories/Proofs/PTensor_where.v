(** [PatternedTensor.where(t, c, u)] (Model/PTensorOps.v, [pt_where]) denotes [torch.where] of the
    denotations, for operands of one typed shape (no broadcasting between the three operands):
    the swap on [c.default], the freshening of [t], [broadcast()] (the identity here), the unification of
    [c]'s pattern with [t]'s (completeness from Proofs/Axis_mgu.v: a missed coincidence would make the
    [masked_fill_] value [t.default] visible where [t] stores an element), the fullness test, the
    anti-unification of [c] with [u], the densification of the expanded [u], [masked_fill_] and the
    strided [copy_] of the matched part of [t] under the unifier are all covered. *)
From Coq Require Import List Arith Lia PeanoNat Bool PArith.
Import ListNotations.
Require Import Fggs.Model.Axis Fggs.Model.AxisCheck Fggs.Model.PTensor Fggs.Model.PTensorOps Fggs.Model.PTensorCheck Fggs.Model.PTEqual.
Require Import Fggs.Proofs.Axis_sem Fggs.Proofs.Axis_unify Fggs.Proofs.Axis_antiunify Fggs.Proofs.Axis_antiunify_inv.
Require Import Fggs.Proofs.Axis_complete_gen Fggs.Proofs.Axis_typed Fggs.Proofs.Axis_total.
Require Import Fggs.Proofs.Axis_fuel Fggs.Proofs.Axis_mgu Fggs.Proofs.Axis_rank Fggs.Proofs.Axis_stride_typed Fggs.Proofs.Axis_stride_total.
Require Import Fggs.Proofs.PTensor_sem Fggs.Proofs.PTensor_dense Fggs.Proofs.Axis_repr Fggs.Proofs.PTensor_gen Fggs.Proofs.PTensor_binary Fggs.Proofs.PTensor_bcast.
Require Import Fggs.Proofs.PTEqual_count Fggs.Proofs.PTEqual_sem Fggs.Proofs.PTEqual_typed Fggs.Proofs.PTEqual_typed_main Fggs.Proofs.PTEqual_freshen.
Require Import Fggs.Proofs.PTensor_d2d Fggs.Proofs.Axis_views Fggs.Proofs.PTensor_project.
Local Open Scope nat_scope.

(** * [broadcast()] on three patterns of one shape is the identity *)
Lemma row_size_same N : row_size [N; N; N] = Some N.
Proof.
  unfold row_size. simpl. destruct (Nat.eqb_spec N 1) as [->|]; [reflexivity|]. simpl. rewrite !Nat.eqb_refl. reflexivity.
Qed.

Lemma bc_rows_same : forall (ra rb rc xa xb xc : list axis) (pa pb pc : list pn) next,
  length ra = length rb -> length ra = length rc ->
  map numel ra = map numel rb -> map numel ra = map numel rc ->
  bc_rows (zip_rows (length ra) [ra; rb; rc]) [(xa, pa); (xb, pb); (xc, pc)] next
  = Ok ([(rev ra ++ xa, pa); (rev rb ++ xb, pb); (rev rc ++ xc, pc)], next).
Proof.
  induction ra as [|a ra IH]; intros [|b rb] [|c rc] xa xb xc pa pb pc next L1 L2 N1 N2; try discriminate; [reflexivity|].
  simpl in L1, L2, N1, N2. injection N1 as Nab N1. injection N2 as Nac N2.
  cbn [length zip_rows map hd_unit tl bc_rows numel]. rewrite <- Nab, <- Nac, row_size_same.
  cbn [bc_row]. rewrite <- Nab, <- Nac, !Nat.eqb_refl. cbn [combine map].
  rewrite (IH rb rc (a :: xa) (b :: xb) (c :: xc) pa pb pc next) by (try lia; assumption).
  simpl. rewrite <- !app_assoc. reflexivity.
Qed.

Lemma broadcast_same (va vb vc : list axis) next :
  map numel va = map numel vb -> map numel va = map numel vc ->
  broadcast_model [va; vb; vc] next = Ok ([(va, []); (vb, []); (vc, [])], next).
Proof.
  intros N1 N2. unfold broadcast_model.
  assert (L1 : length va = length vb) by (apply (f_equal (@length nat)) in N1; rewrite !map_length in N1; exact N1).
  assert (L2 : length va = length vc) by (apply (f_equal (@length nat)) in N2; rewrite !map_length in N2; exact N2).
  cbn [fold_right map]. rewrite <- L1, <- L2, Nat.max_0_r, !Nat.max_id.
  rewrite <- (rev_length va) at 1.
  rewrite (bc_rows_same (rev va) (rev vb) (rev vc) [] [] [] [] [] [] next); rewrite ?rev_length, ?map_rev; try congruence.
  rewrite !rev_involutive, !app_nil_r. reflexivity.
Qed.

(** * the part of [pt_where] after [broadcast()] *)
Definition where_body (V : Type) (truth : V -> bool) (cd : bool) (t c u : ptensor V)
                      (t_vaxes c_vaxes u_vaxes : list axis) (c_new u_new : list pn) (next : positive)
  : res (ptensor V * positive) :=
      let c_paxes := c_new ++ paxes c in
      let u_paxes := u_new ++ paxes u in
      let fuel := 6 * (asize_list t_vaxes + asize_list c_vaxes + asize_list u_vaxes) + 10 in
      r <- unify_list fuel c_vaxes t_vaxes {| us_subst := []; us_next := next; us_warn := false |} ;;
      let success := fst r in
      let sigma := us_subst (snd r) in
      let next := us_next (snd r) in
      let f2 := fuel + length sigma + 2 in
      ksc <- (if success then fv_list f2 sigma (paxes_axes' (paxes c)) else Ok []) ;;
      ksn <- (if success then fv_list f2 sigma (paxes_axes' c_new) else Ok []) ;;
      let ks := dedup [] (ksc ++ ksn) in
      looks <- (if success then mapM (fun kn => lookup (S (length sigma)) sigma (Phys (fst kn) (snd kn))) c_paxes else Ok []) ;;
      let full := success && forallb is_phys looks
                  && Nat.eqb (length (dedup [] (flat_map fvn looks))) (length c_paxes) in
      kst <- (if success then fv_list f2 sigma (paxes_axes' (paxes t)) else Ok []) ;;
      if success && negb (forallb (fun kn => pmem (fst kn) (map fst ks)) kst) then Fail OtherError else
      a <- antiunify_list fuel c_vaxes u_vaxes {| as_list := []; as_next := next; as_warn := false |} ;;
      let '(lggs, ast) := a in
      let gs := gs_of (as_list ast) in
      let ecs := map part1 (as_list ast) in
      let eus := map part2 (as_list ast) in
      let shp := map snd gs in
      let U1 := expanded V (length u_new) u_paxes eus u in
      ud <- to_dense_store V U1 ;;
      let cnd := fun v => xorb (truth v) cd in
      let fa := S (asize_list ecs) in
      eks0 <- fv_list fa [] ecs ;;
      eks <- (if success then fv_list f2 sigma ecs else Ok []) ;;
      if (negb full && negb (same_keys eks0 c_paxes)) || (success && negb (same_keys eks ks)) then Fail OtherError else
      ud <- (if full then Ok ud
             else write_all c_paxes
                    (fun rho => offs <- at_axes fa [] rho ecs ;; Ok (flat_offset shp offs))
                    (fun rho => Ok (if cnd (physical c (pcoords (paxes c) rho)) then Some (default t) else None))
                    ud) ;;
      ud <- (if success
             then write_all ks
                    (fun rho => offs <- at_axes f2 sigma rho ecs ;; Ok (flat_offset shp offs))
                    (fun rho => cc <- at_axes f2 sigma rho (paxes_axes' (paxes c)) ;;
                                tc <- at_axes f2 sigma rho (paxes_axes' (paxes t)) ;;
                                Ok (if cnd (physical c cc) then Some (physical t tc) else None))
                    ud
             else Ok ud) ;;
      Ok (mkPT (fun g => ud (flat_offset shp g)) gs lggs (default u), as_next ast).

Lemma pt_where_unfold (V : Type) truth next (t c u : ptensor V) :
  pt_where V truth next t c u =
  let cd := truth (default c) in
  let '(t, u) := if cd then (u, t) else (t, u) in
  let '(t, next) := if disjoint_b (paxes t) (paxes c) then (t, next) else pt_freshen V next t in
  b <- broadcast_model [vaxes t; vaxes c; vaxes u] next ;;
  match b with
  | ([(t_vaxes, _); (c_vaxes, c_new); (u_vaxes, u_new)], next) => where_body V truth cd t c u t_vaxes c_vaxes u_vaxes c_new u_new next
  | _ => Fail OtherError
  end.
Proof.
  unfold pt_where, where_body. destruct (truth (default c)); destruct (disjoint_b _ _); try destruct (pt_freshen V next _); reflexivity.
Qed.

(** * small facts *)
Lemma dedup_id : forall l seen, NoDup (map fst l) -> (forall k, In k (map fst l) -> existsb (Pos.eqb k) seen = false) -> dedup seen l = l.
Proof.
  induction l as [|[k n] l IH]; intros seen N S; [reflexivity|]. simpl. rewrite (S k (or_introl eq_refl)). f_equal.
  inversion N as [|? ? Hk N']; subst. apply IH; [exact N'|]. intros k' Hk'. simpl.
  destruct (Pos.eqb_spec k' k) as [->|_]; [contradiction|]. apply S. right. exact Hk'.
Qed.

Lemma dedup_length_le : forall l seen, length (dedup seen l) <= length l.
Proof. induction l as [|[k n] l IH]; intros seen; simpl; [lia|]. destruct (existsb (Pos.eqb k) seen); simpl; [specialize (IH seen)|specialize (IH (k :: seen))]; lia. Qed.

Lemma dedup_full_nodup : forall l seen, length (dedup seen l) = length l -> NoDup (map fst l).
Proof.
  induction l as [|[k n] l IH]; intros seen H; [constructor|]. simpl in H. destruct (existsb (Pos.eqb k) seen) eqn:E.
  - pose proof (dedup_length_le l seen). lia.
  - simpl in H. injection H as H. simpl. constructor; [|exact (IH _ H)].
    intros Hk. assert (D : dedup (k :: seen) l = l).
    { clear - H. revert H. generalize (k :: seen). induction l as [|[k0 n0] l IHl]; intros s H; [reflexivity|]. simpl in *.
      destruct (existsb (Pos.eqb k0) s); [pose proof (dedup_length_le l s); lia|]. simpl in H. injection H as H. f_equal. exact (IHl _ H). }
    destruct (dedup_keys_nodup l (k :: seen)) as [_ S]. rewrite D in S. specialize (S k Hk). simpl in S. rewrite Pos.eqb_refl in S. discriminate.
Qed.

Lemma antiunify_list_szeq fuel : forall es fs st gs st', map numel es = map numel fs -> szeq (as_list st) ->
  antiunify_list fuel es fs st = Ok (gs, st') -> szeq (as_list st').
Proof.
  induction es as [|e es IH]; intros [|f fs] st gs st' N S H; simpl in H; try (inversion H; subst; exact S); try discriminate.
  simpl in N. injection N as Ne N.
  destruct (antiunify fuel e f st) as [[g st1]|] eqn:E1; [|discriminate]. cbn [bind fst snd] in H.
  destruct (antiunify_list fuel es fs st1) as [[gs' st2]|] eqn:E2; [|discriminate]. cbn [bind fst snd] in H. inversion H; subst.
  apply (IH fs st1 gs' st' N); [|exact E2]. exact (proj1 (antiunify_szeq fuel) e f st g st1 Ne S E1).
Qed.

Lemma gen_ok_rev (part : aentry -> axis) B L lggs tes : gen_ok part B L lggs tes -> gen_ok part B L (rev lggs) (rev tes).
Proof.
  intros [A1 A2 A3 A4 A5 A6 A7 A8 A9]. constructor; trivial.
  - intros en Hen. destruct (A3 en Hen) as (X & Y & Z). split; [exact X|]. split; [exact Y|]. intros kn Hkn.
    apply (proj2 (flat_map_rev_In _ _ _)). exact (Z kn Hkn).
  - intros kn Hkn. apply A4. exact (proj1 (flat_map_rev_In _ _ _) Hkn).
  - intros kn Hkn. apply A5. exact (proj1 (flat_map_rev_In _ _ _) Hkn).
  - intros k Hk. destruct (A6 k Hk) as (n & Hn). exists n. apply (proj2 (flat_map_rev_In _ _ _)). exact Hn.
  - intros k n Hkn. apply A7. exact (proj1 (flat_map_rev_In _ _ _) Hkn).
  - rewrite !rev_length. exact A8.
  - intros rho M. rewrite !evals_rev. f_equal. apply A9. exact M.
Qed.
