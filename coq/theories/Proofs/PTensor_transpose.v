(** [transpose], with the slices as coded, refines the dense transposition. *)
From Coq Require Import List Arith Lia PeanoNat Bool PArith.
Import ListNotations.
Require Import Fggs.Model.Axis Fggs.Model.PTensor Fggs.Model.PTensorCheck.
Require Import Fggs.Proofs.Axis_sem Fggs.Proofs.PTensor_sem.

Lemma skipn_app_exact {A} (l1 l2 : list A) : skipn (length l1) (l1 ++ l2) = l2.
Proof. induction l1; simpl; auto. Qed.
Lemma firstn_app_exact {A} (l1 l2 : list A) : firstn (length l1) (l1 ++ l2) = l1.
Proof. induction l1; simpl; [reflexivity|f_equal; assumption]. Qed.

Lemma skipn_app_plus {A} (l1 l2 : list A) k : skipn (length l1 + k) (l1 ++ l2) = skipn k l2.
Proof. induction l1; simpl; auto. Qed.

(** the slices of the code on a list split at the two positions *)
Lemma swap_app {A} (A0 : list A) x M y B0 a b :
  a = length A0 -> b = length A0 + length M + 1 ->
  swap_dims a b (A0 ++ x :: M ++ y :: B0) = A0 ++ y :: M ++ x :: B0.
Proof.
  intros -> ->. unfold swap_dims.
  rewrite firstn_app_exact.
  replace (length A0 + length M + 1 - length A0 - 1) with (length M) by lia.
  replace (length A0 + length M + 1 + 1) with (length A0 + S (S (length M))) by lia.
  replace (length A0 + length M + 1) with (length A0 + S (length M)) by lia.
  rewrite !skipn_app_plus. rewrite skipn_app_exact.
  change (skipn (S (length M)) (x :: M ++ y :: B0)) with (skipn (length M) (M ++ y :: B0)).
  change (skipn (S (S (length M))) (x :: M ++ y :: B0)) with (skipn (S (length M)) (M ++ y :: B0)).
  change (skipn 1 (x :: M ++ y :: B0)) with (M ++ y :: B0).
  rewrite skipn_app_exact.
  replace (S (length M)) with (length M + 1) by lia. rewrite skipn_app_plus.
  rewrite firstn_app_exact. cbn [firstn skipn]. reflexivity.
Qed.

Lemma swap_decomp {A} a b (l : list A) : a < b -> b < length l ->
  exists A0 x M y B0, l = A0 ++ x :: M ++ y :: B0 /\ a = length A0 /\ b = length A0 + length M + 1.
Proof.
  intros Hab Hb.
  destruct (skipn a l) as [|x r1] eqn:E1.
  { exfalso. assert (length (skipn a l) = 0) by (rewrite E1; reflexivity). rewrite skipn_length in H. lia. }
  destruct (skipn (b - a - 1) r1) as [|y B0] eqn:E2.
  { exfalso. assert (length (skipn (b - a - 1) r1) = 0) by (rewrite E2; reflexivity). rewrite skipn_length in H.
    assert (length (skipn a l) = S (length r1)) by (rewrite E1; reflexivity). rewrite skipn_length in H0. lia. }
  exists (firstn a l), x, (firstn (b - a - 1) r1), y, B0.
  assert (La : length (firstn a l) = a) by (apply firstn_length_le; lia).
  assert (Lr : length (skipn a l) = S (length r1)) by (rewrite E1; reflexivity). rewrite skipn_length in Lr.
  assert (Lm : length (firstn (b - a - 1) r1) = b - a - 1) by (apply firstn_length_le; lia).
  split; [|split; [symmetry; exact La|rewrite La, Lm; lia]].
  rewrite <- E2, firstn_skipn, <- E1, firstn_skipn. reflexivity.
Qed.

Lemma swap_involutive {A} a b (l : list A) : a < b -> b < length l -> swap_dims a b (swap_dims a b l) = l.
Proof.
  intros Hab Hb. destruct (swap_decomp a b l Hab Hb) as (A0 & x & M & y & B0 & -> & Ea & Eb).
  rewrite (swap_app A0 x M y B0 a b Ea Eb). apply (swap_app A0 y M x B0 a b Ea Eb).
Qed.

Lemma swap_map {A B} (f : A -> B) a b l : map f (swap_dims a b l) = swap_dims a b (map f l).
Proof. unfold swap_dims. rewrite !map_app, <- !firstn_map, <- !skipn_map. reflexivity. Qed.

Lemma swap_In {A} a b (l : list A) x : a < b -> b < length l -> In x (swap_dims a b l) <-> In x l.
Proof.
  intros Hab Hb. destruct (swap_decomp a b l Hab Hb) as (A0 & x0 & M & y & B0 & -> & Ea & Eb).
  rewrite (swap_app A0 x0 M y B0 a b Ea Eb). rewrite !in_app_iff. simpl. rewrite !in_app_iff. simpl. tauto.
Qed.

Lemma swap_length {A} a b (l : list A) : a < b -> b < length l -> length (swap_dims a b l) = length l.
Proof.
  intros Hab Hb. destruct (swap_decomp a b l Hab Hb) as (A0 & x0 & M & y & B0 & -> & Ea & Eb).
  rewrite (swap_app A0 x0 M y B0 a b Ea Eb). rewrite !app_length. simpl. rewrite !app_length. simpl. lia.
Qed.

Section Transpose.
Variable V : Type.

(** the element at the index with the two positions swapped is the original element *)
Theorem transpose_refines (t t' : ptensor V) d0 d1 idx :
  covers (paxes t) (vaxes t) -> length idx = length (vaxes t) ->
  pt_transpose V d0 d1 t = Some t' ->
  denote V t' (if Nat.eqb d0 d1 then idx else swap_dims (Nat.min d0 d1) (Nat.max d0 d1) idx) = denote V t idx.
Proof.
  intros C L H. unfold pt_transpose in H. destruct (Nat.eqb_spec d0 d1) as [E|Hne]; [inversion H; reflexivity|].
  set (a := Nat.min d0 d1) in *. set (b := Nat.max d0 d1) in *.
  assert (Hab : a < b) by (unfold a, b; lia).
  destruct (b <? length (vaxes t)) eqn:Hb; [|discriminate]. apply Nat.ltb_lt in Hb.
  assert (Et : t' = with_vaxes V t (swap_dims a b (vaxes t))) by (inversion H; reflexivity).
  subst t'. clear H.
  assert (Hbi : b < length idx) by (rewrite L; exact Hb).
  apply view_lemma; try assumption.
  - intros k Hk. specialize (C k Hk). apply in_flat_map in C. destruct C as (e & He & Hke).
    apply in_flat_map. exists e. split; [apply (proj2 (swap_In a b (vaxes t) e Hab Hb)); exact He|exact Hke].
  - rewrite !swap_length by assumption. exact L.
  - intros rho. unfold evals. rewrite swap_map. split; intros [R E].
    + split; [rewrite Forall_forall in *; intros e He; apply R; exact (proj1 (swap_In a b (vaxes t) e Hab Hb) He)|].
      unfold evals in E. rewrite E. reflexivity.
    + split; [rewrite Forall_forall in *; intros e He; apply R; exact (proj2 (swap_In a b (vaxes t) e Hab Hb) He)|].
      apply (f_equal (swap_dims a b)) in E. rewrite !swap_involutive in E; try assumption.
      rewrite map_length. exact Hb.
Qed.

End Transpose.
