(** C11 -- the stop bound for NONLINEAR monotone systems: (i) abstractly, for any map F on Q^n
    that is monotone below a fixed point mu and contracts towards mu from below with factor
    a < 1 in the one-sided max norm; (ii) for polynomial systems with non-negative coefficients
    whose Jacobian at mu has row sums <= a (below mu the Jacobian is smaller, by monotonicity). *)
From Coq Require Import QArith Qabs Bool List Lqa Lia.
Require Import Fggs.Model.Tolerance Fggs.Proofs.Tolerance_proofs Fggs.Proofs.Tolerance_vec Fggs.Proofs.Tolerance_stop
               Fggs.Proofs.Kleene_control.
Import ListNotations.
Local Open Scope Q_scope.

(** * (i) abstract *)
Section Abstract.
Variables (F : list Q -> list Q) (Inv : list Q -> Prop) (mu x0 : list Q) (a : Q).
Hypothesis Ha0 : 0 <= a.
Hypothesis Ha1 : a < 1.
Hypothesis Hfix : veq mu (F mu).
Hypothesis Hinv : forall x, Inv x -> vle x mu -> Inv (F x).
Hypothesis Hmono : forall x, Inv x -> vle x mu -> vle (F x) (F mu).
Hypothesis Hcontr : forall t x, 0 <= t -> Inv x -> vle x mu -> vle_off t mu x -> vle_off (a * t) (F mu) (F x).
Hypothesis Hx0 : vle x0 mu.
Hypothesis Hi0 : Inv x0.

Lemma nl_below k : Inv (iter k F x0) /\ vle (iter k F x0) mu.
Proof.
  induction k as [|k [IHi IH]]; cbn [iter]; [split; assumption|]. split; [apply Hinv; assumption|].
  eapply (Forall2_trans3 Qle Qle); [| apply Hmono; [exact IHi | exact IH] | apply veq_vle'; exact Hfix].
  intros p q r H1 H2. lra.
Qed.

Theorem nl_stop_bound k tol :
  0 <= tol -> vle_off tol (iter (S k) F x0) (iter k F x0) ->
  vle (iter k F x0) mu /\ vle_off (tol / (1 - a)) mu (iter k F x0) /\
  vle_off (a * (tol / (1 - a))) mu (iter (S k) F x0).
Proof.
  intros Ht Hs. destruct (nl_below k) as [Hik Hb].
  assert (L : length mu = length (iter k F x0)) by (symmetry; apply (Forall2_same_length _ _ _ Hb)).
  pose proof (voff_bound _ _ L) as B. pose proof (voff_nonneg mu (iter k F x0)) as Hn.
  set (t := voff mu (iter k F x0)) in *.
  pose proof (Hcontr t _ Hn Hik Hb B) as HS. change (F (iter k F x0)) with (iter (S k) F x0) in HS.
  assert (S' : vle_off (a * t) mu (iter (S k) F x0)).
  { eapply (Forall2_trans3 Qle (fun p q => p <= q + a * t)); [| apply veq_vle; exact Hfix | exact HS].
    intros p q r H1 H2. lra. }
  assert (B' : vle_off (a * t + tol) mu (iter k F x0)).
  { eapply (Forall2_trans3 (fun p q => p <= q + a * t) (fun p q => p <= q + tol)); [| exact S' | exact Hs].
    intros p q r H1 H2. lra. }
  assert (Hat : 0 <= a * t) by (apply Qmult_le_0_compat; assumption).
  assert (Hle : t <= a * t + tol) by (apply voff_least; [lra | exact B']).
  assert (Hd : t <= tol / (1 - a)) by (apply Qle_shift_div_l; [lra | nra]).
  split; [exact Hb|]. split; [eapply vle_off_weaken; [exact Hd | exact B]|].
  eapply vle_off_weaken; [|exact S']. apply Qmult_le_l_weak; assumption.
Qed.
End Abstract.

(** * (ii) polynomial systems *)
Lemma Forall2_pget (P : Q -> Q -> Prop) x y : P 0 0 -> Forall2 P x y -> forall i, P (pget x i) (pget y i).
Proof.
  intros H0 F. unfold pget. induction F as [|p q x y Hpq F IH]; intros [|i]; cbn [nth]; auto.
Qed.

Section Mono.
Variables (mu x : list Q) (t : Q).
Hypothesis Ht : 0 <= t.
Hypothesis Hx0 : forall i, 0 <= pget x i.
Hypothesis Hxm : forall i, pget x i <= pget mu i.
Hypothesis Hmx : forall i, pget mu i <= pget x i + t.

Lemma pget_mu_nonneg i : 0 <= pget mu i.
Proof. eapply Qle_trans; [apply Hx0 | apply Hxm]. Qed.

Lemma mono_val_nonneg_x vs : 0 <= mono_val x vs.
Proof. induction vs as [|i vs IH]; cbn [mono_val fold_right]; [lra|]. apply Qmult_le_0_compat; [apply Hx0 | exact IH]. Qed.
Lemma mono_val_nonneg_mu vs : 0 <= mono_val mu vs.
Proof. induction vs as [|i vs IH]; cbn [mono_val fold_right]; [lra|]. apply Qmult_le_0_compat; [apply pget_mu_nonneg | exact IH]. Qed.
Lemma dmono_sum_nonneg vs : 0 <= dmono_sum mu vs.
Proof.
  induction vs as [|i vs IH]; cbn [dmono_sum]; [lra|].
  pose proof (mono_val_nonneg_mu vs). pose proof (pget_mu_nonneg i).
  assert (0 <= pget mu i * dmono_sum mu vs) by (apply Qmult_le_0_compat; assumption). lra.
Qed.

Lemma mono_val_mono vs : mono_val x vs <= mono_val mu vs.
Proof.
  induction vs as [|i vs IH]; cbn [mono_val fold_right]; [lra|].
  fold (mono_val x vs) (mono_val mu vs).
  pose proof (mono_val_nonneg_x vs). pose proof (Hx0 i). pose proof (Hxm i).
  assert (pget x i * mono_val x vs <= pget x i * mono_val mu vs) by (apply Qmult_le_l_weak; assumption).
  assert (pget x i * mono_val mu vs <= pget mu i * mono_val mu vs) by (apply Qmult_le_compat_r; [assumption | apply mono_val_nonneg_mu]).
  lra.
Qed.

(** mean-value inequality with the derivative taken at the upper point *)
Lemma mono_val_taylor vs : mono_val mu vs <= mono_val x vs + dmono_sum mu vs * t.
Proof.
  induction vs as [|i vs IH]; cbn [mono_val fold_right dmono_sum]; [lra|].
  fold (mono_val x vs) (mono_val mu vs).
  set (Pm := mono_val mu vs) in *. set (Px := mono_val x vs) in *. set (D := dmono_sum mu vs) in *.
  set (m := pget mu i). set (xi := pget x i).
  assert (HPm : 0 <= Pm) by apply mono_val_nonneg_mu.
  assert (HD : 0 <= D) by apply dmono_sum_nonneg.
  assert (Hxi0 : 0 <= xi) by apply Hx0. assert (Hxim : xi <= m) by apply Hxm. assert (Hmxi : m <= xi + t) by apply Hmx.
  (* m Pm - xi Px = (m - xi) Pm + xi (Pm - Px) <= t Pm + xi D t <= t Pm + m D t *)
  assert (E1 : (m - xi) * Pm <= t * Pm) by (apply Qmult_le_compat_r; lra).
  assert (E2 : xi * (Pm - Px) <= xi * (D * t)) by (apply Qmult_le_l_weak; lra).
  assert (HDt : 0 <= D * t) by (apply Qmult_le_0_compat; assumption).
  assert (E3 : xi * (D * t) <= m * (D * t)) by (apply Qmult_le_compat_r; assumption).
  assert (Eq : m * Pm - xi * Px == (m - xi) * Pm + xi * (Pm - Px)) by ring.
  assert (Eq2 : (Pm + m * D) * t == t * Pm + m * (D * t)) by ring.
  lra.
Qed.

Lemma poly_val_nonneg_x p : Forall (fun m => 0 <= fst m) p -> 0 <= poly_val x p.
Proof.
  intros Fp. induction Fp as [|[cf vs] p Hcf Fp IH]; cbn [poly_val fold_right fst snd] in *; [lra|].
  fold (poly_val x p). assert (0 <= cf * mono_val x vs) by (apply Qmult_le_0_compat; [assumption | apply mono_val_nonneg_x]). lra.
Qed.

Lemma poly_val_mono p : Forall (fun m => 0 <= fst m) p -> poly_val x p <= poly_val mu p.
Proof.
  intros Fp. induction Fp as [|[cf vs] p Hcf Fp IH]; cbn [poly_val fold_right fst snd] in *; [lra|].
  fold (poly_val x p) (poly_val mu p).
  assert (cf * mono_val x vs <= cf * mono_val mu vs) by (apply Qmult_le_l_weak; [assumption | apply mono_val_mono]).
  lra.
Qed.

Lemma poly_val_taylor p : Forall (fun m => 0 <= fst m) p -> poly_val mu p <= poly_val x p + dpoly_sum mu p * t.
Proof.
  intros Fp. induction Fp as [|[cf vs] p Hcf Fp IH]; cbn [poly_val dpoly_sum fold_right fst snd] in *; [lra|].
  fold (poly_val x p) (poly_val mu p) (dpoly_sum mu p).
  assert (cf * mono_val mu vs <= cf * (mono_val x vs + dmono_sum mu vs * t)) by (apply Qmult_le_l_weak; [assumption | apply mono_val_taylor]).
  lra.
Qed.
End Mono.

Lemma vzero_pget n i : pget (vzero n) i = 0.
Proof. unfold pget, vzero. revert i. induction n; intros [|i]; cbn; auto. Qed.

Lemma nonneg_pget n x : vle (vzero n) x -> forall i, 0 <= pget x i.
Proof. intros H0 i. pose proof (Forall2_pget Qle _ _ (Qle_refl 0) H0 i) as H. rewrite vzero_pget in H. exact H. Qed.

Lemma map_poly_mono (l : list (list (Q * list nat))) mu x :
  (forall i, 0 <= pget x i) -> (forall i, pget x i <= pget mu i) ->
  Forall (Forall (fun m => 0 <= fst m)) l -> vle (map (poly_val x) l) (map (poly_val mu) l).
Proof.
  intros Hx0 Hxm Fl. induction Fl as [|p l Hp Fl IH]; cbn [map]; constructor; [|exact IH].
  apply (poly_val_mono mu x Hx0 Hxm p Hp).
Qed.

Lemma map_poly_contr (l : list (list (Q * list nat))) mu x a t :
  0 <= t -> (forall i, 0 <= pget x i) -> (forall i, pget x i <= pget mu i) -> (forall i, pget mu i <= pget x i + t) ->
  Forall (Forall (fun m => 0 <= fst m)) l -> Forall (fun p => dpoly_sum mu p <= a) l ->
  vle_off (a * t) (map (poly_val mu) l) (map (poly_val x) l).
Proof.
  intros Ht Hx0 Hxm Hmx Fl. induction Fl as [|p l Hp Fl IH]; intros Hj; cbn [map]; constructor; inversion Hj; subst.
  - pose proof (poly_val_taylor mu x t Ht Hx0 Hxm Hmx p Hp).
    assert (dpoly_sum mu p * t <= a * t) by (apply Qmult_le_compat_r; assumption). lra.
  - apply IH. assumption.
Qed.

Lemma map_poly_nonneg (l : list (list (Q * list nat))) x :
  (forall i, 0 <= pget x i) -> Forall (Forall (fun m => 0 <= fst m)) l ->
  vle (vzero (length l)) (map (poly_val x) l).
Proof.
  intros Hx0 Fl. induction Fl as [|p l Hp Fl IH]; cbn [map length vzero repeat]; constructor; [|exact IH].
  apply (poly_val_nonneg_x x Hx0 p Hp).
Qed.

Section Poly.
Variables (sys : list (list (Q * list nat))) (mu : list Q) (a : Q).
Hypothesis Hcoef : Forall (Forall (fun m => 0 <= fst m)) sys.
Hypothesis Hjac : Forall (fun p => dpoly_sum mu p <= a) sys.
Hypothesis Ha0 : 0 <= a.
Hypothesis Ha1 : a < 1.
Hypothesis Hfix : veq mu (pstep sys mu).

Lemma mu_len : length mu = length sys.
Proof. rewrite (Forall2_same_length _ _ _ Hfix). apply map_length. Qed.

Lemma pstep_mono_below x : vle (vzero (length sys)) x -> vle x mu -> vle (pstep sys x) (pstep sys mu).
Proof.
  intros H0 Hm. apply map_poly_mono; [apply (nonneg_pget _ _ H0) | apply (Forall2_pget Qle _ _ (Qle_refl 0) Hm) | exact Hcoef].
Qed.

Lemma pstep_contr t x : 0 <= t -> vle (vzero (length sys)) x -> vle x mu -> vle_off t mu x ->
  vle_off (a * t) (pstep sys mu) (pstep sys x).
Proof.
  intros Ht H0 Hm Hoff. apply map_poly_contr; try assumption.
  - apply (nonneg_pget _ _ H0).
  - apply (Forall2_pget Qle _ _ (Qle_refl 0) Hm).
  - apply (Forall2_pget (fun p q => p <= q + t)); [lra | exact Hoff].
Qed.

Lemma pstep_nonneg x : vle (vzero (length sys)) x -> vle (vzero (length sys)) (pstep sys x).
Proof. intros H0. apply map_poly_nonneg; [apply (nonneg_pget _ _ H0) | exact Hcoef]. Qed.

Lemma piter_iter k : piter sys k = iter k (pstep sys) (vzero (length sys)).
Proof. induction k as [|k IH]; cbn [piter iter]; [reflexivity | rewrite IH; reflexivity]. Qed.

(** the stop bound for polynomial systems: [mu] a non-negative fixed point at which the row sums
    of the Jacobian are <= a < 1; the Kleene iterates from 0 stay in [0, mu], and the iterate at
    which the code's test fires satisfies  x_k <= mu <= x_k + tol/(1-a) *)
Theorem poly_stop_bound k tol :
  vle (vzero (length sys)) mu ->
  0 <= tol -> vclose tol (piter sys k) (piter sys (S k)) = true ->
  vle (piter sys k) mu /\ vle_off (tol / (1 - a)) mu (piter sys k) /\
  vle_off (a * (tol / (1 - a))) mu (piter sys (S k)).
Proof.
  intros Hmu0 Ht Hs. apply vclose_sound in Hs as [_ Hs]. rewrite !piter_iter in *.
  refine (nl_stop_bound (pstep sys) (fun x => vle (vzero (length sys)) x) mu (vzero (length sys)) a Ha0 Ha1 Hfix _ _ _ Hmu0 _ k tol Ht Hs).
  - intros x Hx _. apply pstep_nonneg. exact Hx.
  - intros x Hx Hm. apply pstep_mono_below; assumption.
  - intros t x Ht' Hx Hm Ho. apply pstep_contr; assumption.
  - clear. generalize (length sys). intros n. induction n; cbn [vzero repeat]; constructor; [lra | assumption].
Qed.

End Poly.

(** the hypotheses are satisfiable by a genuinely quadratic system:
      x = x^2/8 + y/4 + 3/8,   y = x y/4 + 3/2,   fixed point (1, 2);
    Jacobian at (1, 2): row sums 1/4 + 1/4 = 1/2 and 2/4 + 1/4 = 3/4 *)
Definition exsys : list (list (Q * list nat)) :=
  [[(1#8, [0%nat; 0%nat]); (1#4, [1%nat]); (3#8, [])]; [(1#4, [0%nat; 1%nat]); (3#2, [])]].
Example ex_poly_hyps :
  Forall (Forall (fun m => 0 <= fst m)) exsys /\ Forall (fun p => dpoly_sum [1; 2] p <= 3#4) exsys /\
  veq [1; 2] (pstep exsys [1; 2]) /\ vle (vzero (length exsys)) [1; 2] /\
  vclose (1#4) (piter exsys 3) (piter exsys 4) = true.
Proof.
  repeat split; try (repeat constructor; apply Qle_bool_iff; vm_compute; reflexivity).
Qed.
