(** C09 tier B -- the normal form "no factor of size 1 inside a product" ([nouf], what
    __post_init__ and productAxis guarantee) is preserved by [unify] (in the values it binds), by
    [clone] under a size-preserving substitution and by [antiunify] (in the generalisation).  Hence
    the per-case premise of the termination theorem holds for all inputs in normal form
    ([psolve_loop_terminates]). *)
From Coq Require Import List Arith Lia PeanoNat Bool PArith.
Import ListNotations.
Require Import Fggs.Model.Axis Fggs.Model.AxisCheck Fggs.Model.PTensor Fggs.Model.PSolve.
Require Import Fggs.Proofs.Axis_sem Fggs.Proofs.Axis_unify Fggs.Proofs.Axis_antiunify Fggs.Proofs.Axis_antiunify_inv.
Require Import Fggs.Proofs.Axis_clone Fggs.Proofs.Axis_subst.
Require Import Fggs.Proofs.PSolve_anti Fggs.Proofs.PSolve_step Fggs.Proofs.PSolve_sized Fggs.Proofs.PSolve_loop Fggs.Proofs.PSolve_term Fggs.Proofs.PSolve_fuel.
Require Import Fggs.Proofs.Axis_complete_gen.

(** * unify *)
Definition nfs (s : subst) : Prop := forall k T, In (k, T) s -> nouf T = true.

Definition N_unify (fuel : nat) : Prop :=
  forall e f st b st', nouf e = true -> nouf f = true -> nfs (us_subst st) ->
    unify fuel e f st = Ok (b, st') -> nfs (us_subst st').
Definition N_loop (fuel : nat) : Prop :=
  forall esr fsr st b st', nouf_l esr = true -> nouf_l fsr = true -> nfs (us_subst st) ->
    unify_loop fuel esr fsr st = Ok (b, st') -> nfs (us_subst st').

Lemma lookup_nouf s fuel e e' : nouf e = true -> nfs s -> lookup fuel s e = Ok e' -> nouf e' = true.
Proof.
  intros Ne Ns H. destruct (lookup_cases _ _ _ _ H) as [->|[k Hk]]; [exact Ne|exact (Ns _ _ Hk)].
Qed.

Lemma nouf_l_rev l : nouf_l (rev l) = nouf_l l.
Proof. unfold nouf_l. apply forallb_rev. Qed.

Lemma nouf_l_cons x l : nouf_l (x :: l) = (negb (Nat.eqb (numel x) 1) && nouf x) && nouf_l l.
Proof. reflexivity. Qed.

Lemma leftovers_nouf fuel : N_unify fuel ->
  forall l st b st', (forall x, In x l -> nouf x = true) -> nfs (us_subst st) ->
    leftovers fuel l st = Ok (b, st') -> nfs (us_subst st').
Proof.
  intros IH. induction l as [|x l IHl]; intros st b st' Nl Ns H; simpl in H.
  - inversion H; subst. exact Ns.
  - destruct (unify fuel x unitAxis st) as [[b1 st1]|] eqn:E1; [|discriminate]. cbn [bind fst snd] in H.
    pose proof (IH x unitAxis st b1 st1 (Nl x (or_introl eq_refl)) eq_refl Ns E1) as N1.
    destruct b1; [|inversion H; subst; exact N1].
    apply (IHl st1 b st'); [intros y Hy; apply Nl; right; exact Hy|exact N1|exact H].
Qed.

Lemma nouf_l_In l x : nouf_l l = true -> In x l -> numel x <> 1 /\ nouf x = true.
Proof.
  unfold nouf_l. rewrite forallb_forall. intros H Hx. specialize (H x Hx). apply andb_true_iff in H. destruct H as [N Hn].
  apply negb_true_iff in N. apply Nat.eqb_neq in N. auto.
Qed.

Lemma nouf_pair k n x : n <> 1 -> numel x <> 1 -> nouf x = true -> nouf (productAxis [Phys k n; x]) = true.
Proof.
  intros Hn Hx Nx. apply nouf_productAxis. unfold nouf_l. cbn [forallb numel nouf].
  rewrite Nx. destruct (Nat.eqb_spec n 1); [contradiction|]. destruct (Nat.eqb_spec (numel x) 1); [contradiction|]. reflexivity.
Qed.

Lemma div_ge2 n m : m <> 0 -> m < n -> n mod m = 0 -> n / m <> 1.
Proof.
  intros Hm Lt Hmod E. pose proof (Nat.div_mod n m Hm) as D. rewrite E, Hmod in D. lia.
Qed.

Lemma nouf_step fuel : N_unify fuel -> N_loop fuel -> N_unify (S fuel) /\ N_loop (S fuel).
Proof.
  intros IHu IHl. split.
  - intros e0 f0 st b st' Ne0 Nf0 Ns H. cbn [unify] in H.
    destruct (lookup (lookup_fuel (us_subst st)) (us_subst st) e0) as [e|] eqn:Le; [|discriminate].
    cbn [bind] in H.
    destruct (lookup (lookup_fuel (us_subst st)) (us_subst st) f0) as [f|] eqn:Lf; [|discriminate].
    cbn [bind] in H.
    assert (Ne : nouf e = true) by exact (lookup_nouf _ _ _ _ Ne0 Ns Le).
    assert (Nf : nouf f = true) by exact (lookup_nouf _ _ _ _ Nf0 Ns Lf).
    clear Le Lf Ne0 Nf0 e0 f0.
    destruct (same_object e f). { inversion H; subst. exact Ns. }
    remember (if Nat.eqb (numel e) (numel f) then st else u_warn st) as st1 eqn:Est1.
    assert (S1 : us_subst st1 = us_subst st) by (subst st1; apply subst_warn_if).
    rewrite <- S1 in Ns. clear Est1 S1 st. rename st1 into st.
    assert (Bind : forall k g, nouf g = true -> Ok (true, u_bind k g st) = Ok (b, st') -> nfs (us_subst st')).
    { intros k g Ng H'. inversion H'; subst b st'. simpl. intros k' T Hin. apply in_app_or in Hin.
      destruct Hin as [Hin|[Hin|[]]]; [exact (Ns _ _ Hin)|]. inversion Hin; subst. exact Ng. }
    assert (Keep : forall s2, us_subst s2 = us_subst st -> nfs (us_subst s2)) by (intros s2 E2; rewrite E2; exact Ns).
    destruct e as [k1 n1|l1|b1 t1 a1]; destruct f as [k2 n2|l2|b2 t2 a2].
    + exact (Bind k1 _ Nf H).
    + exact (Bind k1 _ Nf H).
    + exact (Bind k1 _ Nf H).
    + apply (Bind k2 _ Ne). destruct l1; exact H.
    + destruct (zero (Prod l1)).
      * inversion H; subst. exact Ns.
      * apply (IHl (rev l1) (rev l2) st b st'); try assumption; rewrite nouf_l_rev; assumption.
    + destruct l1 as [|x l1]; cbn [is_unit] in H.
      * destruct (Nat.eqb b2 0 && Nat.eqb a2 0).
        -- exact (IHu (Prod []) t2 st b st' eq_refl Nf Ns H).
        -- inversion H; subst. exact Ns.
      * inversion H; subst. exact Ns.
    + exact (Bind k2 _ Ne H).
    + destruct l2 as [|y l2]; cbn [is_unit] in H.
      * destruct (Nat.eqb b1 0 && Nat.eqb a1 0).
        -- exact (IHu (Prod []) t1 st b st' eq_refl Ne Ns H).
        -- inversion H; subst. exact Ns.
      * inversion H; subst. exact Ns.
    + destruct (Nat.eqb b1 b2 && Nat.eqb a1 a2).
      * exact (IHu t1 t2 st b st' Ne Nf Ns H).
      * destruct ((b2 <? b1 + numel t1) && (b1 <? b2 + numel t2)); inversion H; subst; exact Ns.
  - intros esr fsr st b st' Nes Nfs Ns H. cbn [unify_loop] in H.
    assert (Left : forall l, l = rev esr ++ rev fsr -> leftovers fuel l st = Ok (b, st') -> nfs (us_subst st')).
    { intros l El HL. apply (leftovers_nouf fuel IHu l st b st'); try assumption.
      subst l. intros x Hx. apply in_app_or in Hx. destruct Hx as [Hx|Hx]; apply in_rev in Hx;
        [exact (proj2 (nouf_l_In _ _ Nes Hx))|exact (proj2 (nouf_l_In _ _ Nfs Hx))]. }
    destruct esr as [|e9 esr']; [apply (Left _ eq_refl); exact H|].
    destruct fsr as [|f9 fsr']; [apply (Left _ eq_refl); exact H|].
    clear Left.
    rewrite nouf_l_cons in Nes, Nfs. apply andb_true_iff in Nes, Nfs. destruct Nes as [Ne9 Nes'], Nfs as [Nf9 Nfs'].
    apply andb_true_iff in Ne9, Nf9. destruct Ne9 as [Ze9 Ne9], Nf9 as [Zf9 Nf9].
    apply negb_true_iff in Ze9, Zf9. apply Nat.eqb_neq in Ze9, Zf9.
    destruct (Nat.eqb_spec (numel e9) (numel f9)) as [Emn|Emn].
    + destruct (unify fuel e9 f9 st) as [[b1 st1]|] eqn:E1; [|discriminate]. cbn [bind fst snd] in H.
      pose proof (IHu e9 f9 st b1 st1 Ne9 Nf9 Ns E1) as N1.
      destruct b1; [|inversion H; subst; exact N1].
      exact (IHl esr' fsr' st1 b st' Nes' Nfs' N1 H).
    + destruct (numel e9 <? numel f9) eqn:Elt.
      * apply Nat.ltb_lt in Elt.
        destruct (Nat.eqb_spec (numel e9) 0) as [|Hm]; [discriminate|].
        destruct (Nat.eqb_spec (numel f9 mod numel e9) 0) as [Hmod|Hmod]; cbn [negb] in H; [|inversion H; subst; exact Ns].
        unfold u_fresh in H.
        set (k := Phys (us_next st) (numel f9 / numel e9)) in *.
        set (st0 := {| us_subst := us_subst st; us_next := Pos.succ (us_next st); us_warn := us_warn st |}) in *.
        destruct (unify fuel f9 (productAxis [k; e9]) st0) as [[b1 st1]|] eqn:E1; [|discriminate]. cbn [bind fst snd] in H.
        assert (Nk : numel f9 / numel e9 <> 1) by (apply div_ge2; assumption).
        pose proof (IHu f9 (productAxis [k; e9]) st0 b1 st1 Nf9 (nouf_pair _ _ _ Nk Ze9 Ne9) Ns E1) as N1.
        destruct b1; [|inversion H; subst; exact N1].
        apply (IHl esr' (k :: fsr') st1 b st'); try assumption.
        rewrite nouf_l_cons. cbn [numel nouf k]. destruct (Nat.eqb_spec (numel f9 / numel e9) 1); [contradiction|]. exact Nfs'.
      * apply Nat.ltb_ge in Elt.
        destruct (Nat.eqb_spec (numel f9) 0) as [|Hm]; [discriminate|].
        destruct (Nat.eqb_spec (numel e9 mod numel f9) 0) as [Hmod|Hmod]; cbn [negb] in H; [|inversion H; subst; exact Ns].
        unfold u_fresh in H.
        set (k := Phys (us_next st) (numel e9 / numel f9)) in *.
        set (st0 := {| us_subst := us_subst st; us_next := Pos.succ (us_next st); us_warn := us_warn st |}) in *.
        destruct (unify fuel e9 (productAxis [k; f9]) st0) as [[b1 st1]|] eqn:E1; [|discriminate]. cbn [bind fst snd] in H.
        assert (Nk : numel e9 / numel f9 <> 1) by (apply div_ge2; [assumption|lia|assumption]).
        pose proof (IHu e9 (productAxis [k; f9]) st0 b1 st1 Ne9 (nouf_pair _ _ _ Nk Zf9 Nf9) Ns E1) as N1.
        destruct b1; [|inversion H; subst; exact N1].
        apply (IHl (k :: esr') fsr' st1 b st'); try assumption.
        rewrite nouf_l_cons. cbn [numel nouf k]. destruct (Nat.eqb_spec (numel e9 / numel f9) 1); [contradiction|]. exact Nes'.
Qed.

Theorem unify_nouf_both : forall fuel, N_unify fuel /\ N_loop fuel.
Proof.
  induction fuel as [|fuel [IHu IHl]]; [split; intros ? ? ? ? ? ? ? ? H; discriminate|].
  apply nouf_step; assumption.
Qed.

Corollary unify_nouf fuel e f next b st : nouf e = true -> nouf f = true ->
  unify fuel e f {| us_subst := []; us_next := next; us_warn := false |} = Ok (b, st) -> nfs (us_subst st).
Proof.
  intros Ne Nf H. set (st0 := {| us_subst := []; us_next := next; us_warn := false |}) in *.
  apply (proj1 (unify_nouf_both fuel) e f st0 b st Ne Nf); [intros k T []|exact H].
Qed.

(** * clone *)
Lemma clone_numel sigma : Sized sigma ->
  forall fuel e c, sized_for sigma e -> clone fuel sigma e = Ok c -> numel c = numel e.
Proof.
  intros SZ. induction fuel as [|fuel IH]; intros e c Se H; [discriminate|].
  destruct e as [k n|l|b t a]; cbn [clone] in H.
  - destruct (assoc k sigma) as [c0|] eqn:E.
    + rewrite (IH c0 c (SZ k c0 E) H). apply (Se k n c0); [left; reflexivity|exact E].
    + inversion H; subst. reflexivity.
  - destruct (mapM (clone fuel sigma) l) as [l'|] eqn:E; [|discriminate]. cbn [bind] in H. inversion H; subst.
    rewrite (proj2 (productAxis_sem (fun _ => 0) l')). change (numel (Prod l)) with (prodn l).
    apply mapM_Forall2' in E. clear H. induction E as [|x y l l' Hxy _ IHl]; [reflexivity|].
    rewrite !prodn_cons, (IH x y (sized_for_factor sigma (x :: l) x Se (or_introl eq_refl)) Hxy), IHl; [reflexivity|].
    intros k n c0 Hk Ha. apply (Se k n c0); [|exact Ha]. simpl. apply in_or_app. right. exact Hk.
  - destruct (clone fuel sigma t) as [t'|] eqn:E; [|discriminate]. cbn [bind] in H. inversion H; subst.
    simpl. rewrite (IH t t' (sized_for_sum _ _ _ _ Se) E). reflexivity.
Qed.

Lemma clone_nouf sigma : Sized sigma -> nfs sigma ->
  forall fuel e c, sized_for sigma e -> nouf e = true -> clone fuel sigma e = Ok c -> nouf c = true.
Proof.
  intros SZ Ns. induction fuel as [|fuel IH]; intros e c Se Ne H; [discriminate|].
  destruct e as [k n|l|b t a]; cbn [clone] in H.
  - destruct (assoc k sigma) as [c0|] eqn:E.
    + apply (IH c0 c (SZ k c0 E)); [|exact H]. apply assoc_In in E. exact (Ns _ _ E).
    + inversion H; subst. reflexivity.
  - destruct (mapM (clone fuel sigma) l) as [l'|] eqn:E; [|discriminate]. cbn [bind] in H. inversion H; subst.
    apply nouf_productAxis. rewrite nouf_Prod in Ne. apply mapM_Forall2' in E. clear H.
    induction E as [|x y l l' Hxy _ IHl]; [reflexivity|].
    rewrite nouf_l_cons in Ne. apply andb_true_iff in Ne. destruct Ne as [Nx Nl]. apply andb_true_iff in Nx. destruct Nx as [Zx Nx].
    assert (Sx : sized_for sigma x) by exact (sized_for_factor sigma (x :: l) x Se (or_introl eq_refl)).
    rewrite nouf_l_cons, (clone_numel sigma SZ fuel x y Sx Hxy), Zx, (IH x y Sx Nx Hxy). cbn [andb].
    apply IHl; [|exact Nl]. intros k n c0 Hk Ha. apply (Se k n c0); [|exact Ha]. simpl. apply in_or_app. right. exact Hk.
  - destruct (clone fuel sigma t) as [t'|] eqn:E; [|discriminate]. cbn [bind] in H. inversion H; subst.
    simpl. simpl in Ne. exact (IH t t' (sized_for_sum _ _ _ _ Se) Ne E).
Qed.

(** * antiunify *)
Lemma prodn_ne1 l : nouf_l l = true -> l <> [] -> prodn l <> 1.
Proof. intros N Hne P. apply Hne. exact (prodn_one_nil l N P). Qed.

Definition G_anti (fuel : nat) : Prop :=
  forall e f st g st', entries_ok (as_list st) -> nouf e = true -> nouf f = true ->
    antiunify fuel e f st = Ok (g, st') -> nouf g = true.
Definition G_sweep (fuel : nat) : Prop :=
  forall egrp erest fgrp frest en fn ret st rets st' c,
    entries_ok (as_list st) -> c > 0 -> en = c * prodn egrp -> fn = c * prodn fgrp ->
    Forall (fun x => numel x > 0) (egrp ++ erest) -> Forall (fun x => numel x > 0) (fgrp ++ frest) ->
    nouf_l (egrp ++ erest) = true -> nouf_l (fgrp ++ frest) = true ->
    sweep fuel egrp erest fgrp frest en fn ret st = Ok (rets, st') ->
    exists new, rets = ret ++ new /\ nouf_l new = true.

Lemma gnouf_step fuel : G_anti fuel -> G_sweep fuel -> G_anti (S fuel) /\ G_sweep (S fuel).
Proof.
  intros IHa IHs. split.
  - intros e f st0 g st' Hok0 Ne Nf H. cbn [antiunify] in H.
    remember (if Nat.eqb (numel e) (numel f) then st0 else a_warn st0) as st eqn:Est.
    assert (Hok : entries_ok (as_list st)) by (subst st; rewrite as_list_warn_if; exact Hok0).
    clear Est Hok0 st0.
    assert (X : forall g0 s0, extend_antisubst e f st = (g0, s0) -> nouf g0 = true).
    { intros g0 s0 Hx. unfold extend_antisubst in Hx. destruct (afind e f (as_list st)) as [[k n]|]; inversion Hx; reflexivity. }
    destruct e as [k1 n1|l1|b1 t1 a1]; destruct f as [k2 n2|l2|b2 t2 a2];
      try (inversion H as [H']; exact (X _ _ H')).
    + destruct (negb (zero (Prod l1)) && negb (zero (Prod l2))) eqn:Z; [|inversion H as [H']; exact (X _ _ H')].
      apply andb_true_iff in Z. destruct Z as [Z1 Z2]. apply negb_true_iff in Z1, Z2.
      destruct (sweep fuel [] l1 [] l2 1 1 [] st) as [[rets st1]|] eqn:Sw; [|discriminate].
      cbn [bind fst snd] in H. inversion H; subst. clear H.
      destruct (IHs [] l1 [] l2 1 1 [] st rets st' 1 Hok (le_n 1) eq_refl eq_refl
                    (zero_factors_pos _ Z1) (zero_factors_pos _ Z2) Ne Nf Sw) as (new & Enew & Nn).
      simpl in Enew. subst rets. apply nouf_productAxis. exact Nn.
    + destruct (Nat.eqb b1 b2 && Nat.eqb a1 a2); [|inversion H as [H']; exact (X _ _ H')].
      destruct (antiunify fuel t1 t2 st) as [[g1 st1]|] eqn:E1; [|discriminate].
      cbn [bind fst snd] in H. inversion H; subst. clear H. simpl. simpl in Ne, Nf. exact (IHa _ _ _ _ _ Hok Ne Nf E1).
  - intros egrp erest fgrp frest en fn ret st rets st' c Hok Hc Hen Hfn Pe Pf Ne Nf H. cbn [sweep] in H.
    destruct (negb (nonempty egrp || nonempty erest || nonempty fgrp || nonempty frest)) eqn:Done.
    { inversion H; subst. exists []. rewrite app_nil_r. split; reflexivity. }
    clear Done.
    destruct (Nat.eqb en fn && (nonempty egrp || nonempty fgrp)) eqn:Cut.
    + apply andb_true_iff in Cut. destruct Cut as [Eq Nemp]. apply Nat.eqb_eq in Eq.
      assert (Pg : prodn egrp = prodn fgrp) by nia.
      rewrite nouf_l_app in Ne, Nf. apply andb_true_iff in Ne, Nf. destruct Ne as [Ne1 Ne2], Nf as [Nf1 Nf2].
      assert (Hne : egrp <> []).
      { intros ->. unfold prodn in Pg at 1. simpl in Pg. symmetry in Pg. rewrite (prodn_one_nil fgrp Nf1 Pg) in Nemp. discriminate. }
      set (e1 := productAxis egrp) in *. set (f1 := productAxis fgrp) in *.
      destruct ((if is_prod e1 && is_prod f1 then Ok (extend_antisubst e1 f1 st) else antiunify fuel e1 f1 st))
        as [[g1 st1]|] eqn:R; [|discriminate].
      cbn [bind fst snd] in H.
      apply Forall_app in Pe. destruct Pe as [Pe1 Pe2]. apply Forall_app in Pf. destruct Pf as [Pf1 Pf2].
      assert (Hc' : en > 0). { subst en. pose proof (prodn_pos _ Pe1). nia. }
      assert (Ne1' : numel e1 = prodn egrp) by (unfold e1; apply (proj2 (productAxis_sem (fun _ => 0) egrp))).
      assert (G1 : aext st st1 /\ numel g1 = numel e1 /\ nouf g1 = true).
      { destruct (is_prod e1 && is_prod f1).
        - inversion R as [R']. destruct (extend_antisubst_sound _ _ _ _ _ Hok R') as [A (N & _)].
          split; [exact A|]. split; [exact N|].
          unfold extend_antisubst in R'. destruct (afind e1 f1 (as_list st)) as [[k n]|]; inversion R'; reflexivity.
        - destruct (proj1 (antiunify_both fuel) _ _ _ _ _ Hok R) as [A (N & _)].
          split; [exact A|]. split; [exact N|].
          exact (IHa _ _ _ _ _ Hok (nouf_productAxis egrp Ne1) (nouf_productAxis fgrp Nf1) R). }
      destruct G1 as (A1 & N1 & Ng1).
      destruct (IHs [] erest [] frest en fn (ret ++ [g1]) st1 rets st' en (proj2 A1) Hc') as (new & Enew & Nn);
        [unfold prodn; simpl; lia|unfold prodn; simpl; lia|exact Pe2|exact Pf2|exact Ne2|exact Nf2|exact H|].
      exists (g1 :: new). split; [rewrite Enew, <- app_assoc; reflexivity|].
      rewrite nouf_l_cons, Ng1, Nn. rewrite N1, Ne1'.
      destruct (Nat.eqb_spec (prodn egrp) 1) as [P1|_]; [exfalso; exact (prodn_ne1 egrp Ne1 Hne P1)|reflexivity].
    + destruct (en <? fn).
      * destruct erest as [|x erest']; [discriminate|].
        destruct (IHs (egrp ++ [x]) erest' fgrp frest (en * numel x) fn ret st rets st' c Hok Hc) as (new & Enew & Nn);
          [rewrite prodn_app; unfold prodn at 2; simpl; nia|exact Hfn|rewrite <- app_assoc; exact Pe|exact Pf|
           rewrite <- app_assoc; exact Ne|exact Nf|exact H|].
        exists new. auto.
      * destruct frest as [|y frest']; [discriminate|].
        destruct (IHs egrp erest (fgrp ++ [y]) frest' en (fn * numel y) ret st rets st' c Hok Hc) as (new & Enew & Nn);
          [exact Hen|rewrite prodn_app; unfold prodn at 2; simpl; nia|exact Pe|rewrite <- app_assoc; exact Pf|
           exact Ne|rewrite <- app_assoc; exact Nf|exact H|].
        exists new. auto.
Qed.

Theorem anti_nouf_both : forall fuel, G_anti fuel /\ G_sweep fuel.
Proof.
  induction fuel as [|fuel [IHa IHs]]; [split; [intros ? ? ? ? ? ? ? ? H|intros ? ? ? ? ? ? ? ? ? ? ? ? ? ? ? ? ? ? ? H]; discriminate|].
  apply gnouf_step; assumption.
Qed.

Corollary anti_nouf fuel e f B g st' : nouf e = true -> nouf f = true ->
  antiunify fuel e f (astate0 B) = Ok (g, st') -> nouf g = true.
Proof. intros Ne Nf H. exact (proj1 (anti_nouf_both fuel) e f (astate0 B) g st' (Forall_nil _) Ne Nf H). Qed.

(** * the loop: the clones of all passes are in normal form *)
Lemma loop_trace_nouf exit : forall fuel a0 a1 e0 e i,
  linv a0 a1 e0 e (li_next i) -> nouf a0 = true -> nouf a1 = true -> nouf e = true ->
  trace_nouf (li_trace i) = true ->
  match psolve_loop_gen exit fuel a0 a1 e i with
  | LDone _ _ i' | LEarly _ i' | LFuel _ i' => li_warn i' = false -> trace_nouf (li_trace i') = true
  | LErr _ => True
  end.
Proof.
  induction fuel as [|fuel IH]; intros a0 a1 e0 e i Inv N0 N1 Ne Nt; [intros _; exact Nt|].
  cbn [psolve_loop_gen].
  change {| us_subst := []; us_next := li_next i; us_warn := false |} with (ust0 (li_next i)).
  destruct (unify (ps_ufuel e a1) e a1 (ust0 (li_next i))) as [[[|] st]|] eqn:U; [| |exact I].
  - destruct (clone (ps_cfuel (us_subst st) a0) (us_subst st) a0) as [c|] eqn:Cl; [|exact I].
    change {| as_list := []; as_next := us_next st; as_warn := false |} with (astate0 (us_next st)).
    destruct (antiunify (ps_afuel e c) e c (astate0 (us_next st))) as [[g ast]|] eqn:An; [|exact I].
    set (i' := mkLI (S (li_iters i)) (as_next ast) (li_warn i || us_warn st || as_warn ast) (li_trace i ++ [(us_subst st, c)])).
    assert (Facts : li_warn i' = false -> linv a0 a1 e0 g (li_next i') /\ nouf c = true /\ nouf g = true).
    { intros Wf. cbn [li_warn i'] in Wf. apply orb_false_elim in Wf. destruct Wf as [Wf Wa].
      apply orb_false_elim in Wf. destruct Wf as [Wi Wu].
      destruct (pass_facts a0 a1 e0 e i st c g ast Inv U Cl An Wu Wa) as (Inv' & _).
      destruct Inv as [B0 B1 Be Dj (sz & S0 & S1 & Se) Sup].
      destruct (unify_sized (ps_ufuel e a1) e a1 (li_next i) true st sz Be B1 Se S1 U Wu) as (sz' & A & Ss).
      assert (Nc : nouf c = true).
      { apply (clone_nouf (us_subst st) (szs_Sized sz' _ Ss) (unify_nouf (ps_ufuel e a1) e a1 (li_next i) true st Ne N1 U) (ps_cfuel (us_subst st) a0) a0 c); [|exact N0|exact Cl].
        apply (szs_sized_for sz' _ _ Ss). eapply szc_agree; [exact A|exact B0|exact S0]. }
      split; [exact Inv'|]. split; [exact Nc|]. exact (anti_nouf (ps_afuel e c) e c (us_next st) g ast Ne Nc An). }
    assert (Ntr : li_warn i' = false -> trace_nouf (li_trace i') = true).
    { intros Wf. destruct (Facts Wf) as (_ & Nc & _). cbn [li_trace i']. rewrite trace_nouf_app, Nt.
      unfold trace_nouf. simpl. rewrite Nc. reflexivity. }
    destruct (exit (as_list ast)); [exact Ntr|].
    pose proof (loop_warn_false exit fuel a0 a1 g i') as WF'.
    specialize (IH a0 a1 e0 g i').
    destruct (psolve_loop_gen exit fuel a0 a1 g i') as [? ? i''|? i''|? i''|?]; try exact I;
      intros Wf; destruct (Facts (WF' Wf)) as (Inv' & _ & Ng); exact (IH Inv' N0 N1 Ng (Ntr (WF' Wf)) Wf).
  - intros _. exact Nt.
Qed.

(** * C09_psolve_loop_terminates: no per-case premise left *)
Theorem psolve_loop_terminates next a0 a1 e0 sz :
  below next a0 -> below next a1 -> below next e0 ->
  (forall k, In k (fv e0) -> ~ In k (fv a0 ++ fv a1)) ->
  szc sz a0 -> szc sz a1 -> szc sz e0 ->
  nouf a0 = true -> nouf a1 = true -> nouf e0 = true ->
  match psolve_loop (loop_fuel e0) a0 a1 e0 (mkLI 0 next false []) with
  | LFuel e' i' => li_warn i' = false -> False
  | _ => True
  end.
Proof.
  intros B0 B1 Be Dj S0 S1 Se N0 N1 Ne.
  pose proof (psolve_loop_terminates_partial next a0 a1 e0 B0 B1 Be Dj) as T.
  pose proof (loop_trace_nouf acq_injective (loop_fuel e0) a0 a1 e0 e0 (mkLI 0 next false [])
                (linv_init next a0 a1 e0 sz B0 B1 Be Dj S0 S1 Se) N0 N1 Ne eq_refl) as Tr.
  unfold psolve_loop in *.
  destruct (psolve_loop_gen acq_injective (loop_fuel e0) a0 a1 e0 (mkLI 0 next false [])); try exact I.
  intros W. exact (T W (Tr W)).
Qed.
