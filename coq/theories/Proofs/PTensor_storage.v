(** [copy_] and [to(dtype)]: value semantics.  After [dst.copy_(src)] the destination denotes what
    the source denotes (it becomes a freshened copy: fresh axes, same storage contents, same
    default) and keeps the representation invariant; [to] converts every element, the default
    included.  The storage re-use rule of [copy_] ([copy_reuses]) only decides WHERE the values are
    written; it is tied to the code by the correspondence check (observed through [data_ptr]). *)
From Coq Require Import List Arith Lia PeanoNat Bool PArith.
Import ListNotations.
Require Import Fggs.Model.Axis Fggs.Model.PTensor Fggs.Model.PTensorOps.
Require Import Fggs.Proofs.Axis_sem Fggs.Proofs.PTensor_sem Fggs.Proofs.PTensor_dense.
Require Import Fggs.Proofs.PTensor_struct Fggs.Proofs.PTensor_reprinv Fggs.Proofs.PTEqual_freshen.

Section Storage.
Variable V : Type.
Notation ptensor := (ptensor V).

Theorem copy_refines next (src : ptensor) : repr_ok V src ->
  let dst := fst (pt_copy V next src) in
  repr_ok V dst /\ shape V dst = shape V src /\ default dst = default src /\
  (forall k, In k (map fst (paxes dst)) -> (next <= k)%positive) /\
  forall idx, length idx = length (vaxes src) -> denote V dst idx = denote V src idx.
Proof.
  intros R. cbv zeta. unfold pt_copy. pose proof R as [W N].
  split; [apply freshen_repr_ok; exact R|]. split; [apply pt_freshen_shape; exact W|].
  split; [rewrite (pt_freshen_eq V src next W); reflexivity|].
  split; [intros k Hk; exact (pt_freshen_fresh V src next W k Hk)|].
  intros idx L. apply pt_freshen_denote; assumption.
Qed.

Theorem to_refines (cvt : V -> V) (t : ptensor) idx :
  denote V (pt_to V cvt t) idx = cvt (denote V t idx).
Proof. unfold pt_to. apply map_refines. reflexivity. Qed.

Theorem to_repr_ok (cvt : V -> V) (t : ptensor) : repr_ok V t -> repr_ok V (pt_to V cvt t).
Proof. intros [[N F] N1]. split; [constructor; assumption|exact N1]. Qed.

(** the re-use rule only fires when the element counts agree (so that [p.view(src.size())] is legal) *)
Lemma copy_reuses_numel dims n same : copy_reuses dims n same = true -> prodl' (map fst dims) = n /\ same = true.
Proof.
  unfold copy_reuses. intros H. apply andb_true_iff in H. destruct H as [H _]. apply andb_true_iff in H.
  destruct H as [H1 H2]. apply Nat.eqb_eq in H1. auto.
Qed.

End Storage.

Example copy_reuses_ex :
  copy_reuses [(2, 3); (3, 1)] 6 true = true /\        (* contiguous 2 x 3 *)
  copy_reuses [(2, 1); (3, 2)] 6 true = true /\        (* a transposed contiguous 3 x 2: contiguous after sorting *)
  copy_reuses [(2, 0); (3, 1)] 6 true = false /\       (* expanded *)
  copy_reuses [(2, 6); (3, 2)] 6 true = false /\       (* strided slice *)
  copy_reuses [(2, 3); (3, 1)] 6 false = false /\      (* other dtype *)
  copy_reuses [(2, 3); (3, 1)] 5 true = false.
Proof. repeat split. Qed.
