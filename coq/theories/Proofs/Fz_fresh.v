(** C05: the fresh left-hand sides chosen by [visit] ([unique_label_name] against the growing
    label set) collide with no label seen so far.  Reuses Proofs/ConjNames.v. *)
From Coq Require Import List Arith Bool PeanoNat Lia.
Import ListNotations.
Require Import Fggs.Model.Conj Fggs.Proofs.ConjNames.
Require Import Fggs.Model.TreeDec Fggs.Model.Factorize.

Lemma visit_head_root r t ords i labels :
  visit_head r t ords i None labels = Ok (labels, fr_lhs r, fr_ext r).
Proof. reflexivity. Qed.

Lemma visit_head_child r t ords i p labels labels' lhs ext :
  visit_head r t ords i (Some p) labels = Ok (labels', lhs, ext) ->
  labels' = lhs :: labels /\ ext = nth i ords [] /\
  is_perm ext (set_inter (bag_of t i) (bag_of t p)) = true /\
  el_term lhs = false /\ el_type lhs = map (nlabel (fr_nodes r)) ext /\
  unique_spec (el_name (fr_lhs r)) (map el_name labels) (el_name lhs).
Proof.
  unfold visit_head. destruct (is_perm _ _) eqn:P; cbn [negb]; [|discriminate].
  destruct (unique_name _ _) as [nm|] eqn:U; [|discriminate].
  intro H. injection H as <- <- <-. apply unique_name_spec in U. cbn. tauto.
Qed.

(** the fuel of [unique_label_name] never runs out, so a child head only fails on a bad oracle *)
Lemma visit_head_child_ok r t ords i p labels :
  is_perm (nth i ords []) (set_inter (bag_of t i) (bag_of t p)) = true ->
  exists lhs, visit_head r t ords i (Some p) labels = Ok (lhs :: labels, lhs, nth i ords []).
Proof.
  intro P. unfold visit_head. rewrite P. cbn [negb].
  destruct (unique_name_total (el_name (fr_lhs r)) (map el_name labels)) as [o ->]. eauto.
Qed.

Theorem visit_head_fresh r t ords i p labels labels' lhs ext :
  visit_head r t ords i (Some p) labels = Ok (labels', lhs, ext) ->
  ~ In (el_name lhs) (map el_name labels).
Proof. intro H. apply visit_head_child in H. destruct H as (_ & _ & _ & _ & _ & [H _]). exact H. Qed.
