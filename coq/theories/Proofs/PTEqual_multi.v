(** C13_multi_absent_is_zero: [MultiTensor.allclose(other, tol)] decides cellwise closeness of the
    assembled tensors with an absent block read as the zero block ([tol = 0] selects [equal]).
    The code calls [equal_default] / [allclose_default] on a block that faces an absent one, after
    asserting that the block's default is the semiring zero: comparing every physical element with
    the block's own default then is comparing every cell with zero. *)
From Coq Require Import List Arith Lia PeanoNat Bool PArith QArith Qcanon.
Import ListNotations.
Require Import Fggs.Model.Axis Fggs.Model.AxisCheck Fggs.Model.XVal Fggs.Model.PTensor Fggs.Model.PTensorCheck Fggs.Model.PTEqual.
Require Import Fggs.Proofs.PTensor_dense Fggs.Proofs.PTEqual_sem Fggs.Proofs.PTEqual_main.
Local Open Scope nat_scope.

(** * [for x in l: if not f(x): return False] *)
Lemma all_res_true {A} (f : A -> res bool) l : all_res f l = Ok true <-> forall x, In x l -> f x = Ok true.
Proof.
  induction l as [|x l IH]; simpl; [split; [intros _ y []|reflexivity]|].
  destruct (f x) as [[|]|e] eqn:E; cbn [bind].
  - rewrite IH. split; [intros H y [<-|Hy]; auto|intros H y Hy; apply H; right; exact Hy].
  - split; [discriminate|]. intros H. specialize (H x (or_introl eq_refl)). congruence.
  - split; [discriminate|]. intros H. specialize (H x (or_introl eq_refl)). congruence.
Qed.

Lemma all_res_false {A} (f : A -> res bool) l : all_res f l = Ok false -> exists x, In x l /\ f x = Ok false.
Proof.
  induction l as [|x l IH]; simpl; [discriminate|].
  destruct (f x) as [[|]|e] eqn:E; cbn [bind]; [|intros _; exists x; auto|discriminate].
  intros H. destruct (IH H) as (y & Hy & Fy). exists y. auto.
Qed.

(** the comparison [MultiTensor.allclose] applies to cells *)
Definition mt_cmp (tol : Qc) : xval -> xval -> bool :=
  if is_zero_tol tol then xeq_num else xisclose 0%Qc tol false.

Lemma mt_cmp_sym tol a b : mt_cmp tol a b = mt_cmp tol b a.
Proof. unfold mt_cmp. destruct (is_zero_tol tol); [apply xeq_num_sym|apply xisclose_sym0]. Qed.

Lemma xisclose_nan_irrelevant rtol atol a b : xisnan b = false ->
  xisclose rtol atol true a b = xisclose rtol atol false a b.
Proof. intros N. unfold xisclose. rewrite N. cbn [andb]. rewrite andb_false_r. reflexivity. Qed.

Lemma xisclose_refl_nan rtol atol d : xisclose rtol atol true d d = true.
Proof. unfold xisclose. destruct d as [q| | |]; try reflexivity. rewrite xeq_num_refl by discriminate. reflexivity. Qed.

(** a block facing an absent one *)
Lemma mt_absent_correct zero tol (t : pt) r : wf xval t -> xisnan zero = false ->
  mt_absent zero tol t = Ok r ->
  default t = zero /\
  (r = true <-> forall idx, in_bounds (shape xval t) idx -> mt_cmp tol (denote xval t idx) zero = true).
Proof.
  intros W NZ H. unfold mt_absent in H. destruct (xeq_num (default t) zero) eqn:E; [|discriminate].
  apply xeq_num_spec in E. destruct E as [E _]. split; [exact E|]. inversion H; subst r. clear H.
  unfold mt_cmp1, mt_cmp. destruct (is_zero_tol tol).
  - unfold equal_default_model. rewrite default_model_correct; [rewrite E; reflexivity|exact W|].
    apply xeq_num_refl. rewrite E. intros ->. discriminate.
  - unfold allclose_default_model. rewrite default_model_correct; [|exact W|].
    + rewrite E. split; intros A idx B; specialize (A idx B);
        [rewrite <- xisclose_nan_irrelevant|rewrite xisclose_nan_irrelevant]; assumption.
    + apply xisclose_refl_nan.
Qed.

(** a block present on both sides *)
Lemma mt_cmp2_correct tol next (t u : pt) r : compare_pre_b next t u = true ->
  mt_cmp2 tol next t u = Ok r -> (r = true <-> cellwise (mt_cmp tol) t u).
Proof.
  unfold mt_cmp2, mt_cmp, equal_model, allclose_model. destruct (is_zero_tol tol); apply compare_model_correct.
Qed.

(** * the assembled comparison: an absent block is the zero block *)
Definition mt_pointwise (zero : xval) (tol : Qc) (a b : multi) : Prop :=
  (forall k t, In (k, t) a ->
     match mt_get k b with
     | Some u => cellwise (mt_cmp tol) t u
     | None => forall idx, in_bounds (shape xval t) idx -> mt_cmp tol (denote xval t idx) zero = true
     end) /\
  (forall k u, In (k, u) b -> mt_get k a = None ->
     forall idx, in_bounds (shape xval u) idx -> mt_cmp tol zero (denote xval u idx) = true).

(** premises: every pair of blocks present on both sides satisfies the premise of C13_equal_correct,
    one-sided blocks are well formed *)
Definition mt_pre (next : positive) (a b : multi) : Prop :=
  (forall k t, In (k, t) a ->
     match mt_get k b with Some u => compare_pre_b next t u = true | None => wf xval t end) /\
  (forall k u, In (k, u) b -> mt_get k a = None -> wf xval u).

Theorem multi_absent_is_zero zero tol next (a b : multi) r :
  xisnan zero = false -> mt_pre next a b ->
  mt_allclose_model zero tol next a b = Ok r ->
  (r = true <-> mt_pointwise zero tol a b).
Proof.
  intros NZ [Pa Pb] H. unfold mt_allclose_model in H.
  destruct (all_res _ a) as [[|]|e] eqn:E1; cbn [bind] in H; [| |discriminate].
  - (* the first loop went through *)
    rewrite all_res_true in E1.
    assert (A1 : forall k t, In (k, t) a ->
              match mt_get k b with
              | Some u => cellwise (mt_cmp tol) t u
              | None => forall idx, in_bounds (shape xval t) idx -> mt_cmp tol (denote xval t idx) zero = true
              end).
    { intros k t Hin. specialize (E1 (k, t) Hin). specialize (Pa k t Hin). cbn [fst snd] in E1.
      destruct (mt_get k b) as [u|].
      - apply (mt_cmp2_correct tol next t u true Pa E1). reflexivity.
      - destruct (mt_absent_correct zero tol t true Pa NZ E1) as [_ X]. apply X. reflexivity. }
    destruct r.
    + split; [intros _|reflexivity]. split; [exact A1|].
      rewrite all_res_true in H. intros k u Hin Hn idx B. specialize (H (k, u) Hin). cbn [fst snd] in H. rewrite Hn in H.
      destruct (mt_absent_correct zero tol u true (Pb k u Hin Hn) NZ H) as [_ X]. rewrite mt_cmp_sym. apply X; trivial.
    + split; [discriminate|]. intros [_ A2]. exfalso.
      apply all_res_false in H. destruct H as ([k u] & Hin & F). cbn [fst snd] in F.
      destruct (mt_get k a) eqn:G; [discriminate|].
      destruct (mt_absent_correct zero tol u false (Pb k u Hin G) NZ F) as [_ X].
      assert (false = true); [|discriminate]. apply X. intros idx B. rewrite mt_cmp_sym. exact (A2 k u Hin G idx B).
  - (* a block of [self] failed *)
    inversion H; subst r. split; [discriminate|]. intros [A1 _]. exfalso.
    apply all_res_false in E1. destruct E1 as ([k t] & Hin & F). cbn [fst snd] in F.
    specialize (A1 k t Hin). specialize (Pa k t Hin). destruct (mt_get k b) as [u|].
    + assert (false = true); [|discriminate]. apply (mt_cmp2_correct tol next t u false Pa F). exact A1.
    + destruct (mt_absent_correct zero tol t false Pa NZ F) as [_ X].
      assert (false = true); [|discriminate]. apply X. exact A1.
Qed.

(** a raised assertion means that some one-sided block has a default other than zero *)
Theorem multi_assert_meaning zero tol (t : pt) :
  mt_absent zero tol t = Fail OtherError <-> xeq_num (default t) zero = false.
Proof. unfold mt_absent. destruct (xeq_num (default t) zero); split; congruence. Qed.

Example multi_ex :
  let t := of_wire ([(1%positive, 2)], [Phys 1 2; Phys 1 2], (0, 0#1), [(0, 0#1); (0, 1#16)]) in
  mt_allclose_model (XF 0%Qc) (Q2Qc (1#10)) 5 [(0, t)] [] = Ok true /\
  mt_allclose_model (XF 0%Qc) (Q2Qc (1#100)) 5 [] [(0, t)] = Ok false /\
  mt_allclose_model (XF 0%Qc) 0%Qc 5 [(0, t)] [(0, t)] = Ok true.
Proof. vm_compute. repeat split; reflexivity. Qed.
