(** Counting lemmas for C13: inclusion-exclusion on filters, bijections between duplicate-free
    lists, the enumerations [all_idx] (cells of a shape) and [all_envs] (elements of a physical
    tensor), and the correspondence between environments and coordinate tuples. *)
From Coq Require Import List Arith Lia PeanoNat Bool PArith Permutation.
Import ListNotations.
Require Import Fggs.Model.Axis Fggs.Model.AxisCheck Fggs.Model.PTensor Fggs.Model.PTensorCheck.
Require Import Fggs.Proofs.Axis_sem Fggs.Proofs.PTensor_sem Fggs.Proofs.PTensor_dense.

(** * lists *)
Lemma nd_app {A} (l1 l2 : list A) :
  NoDup l1 -> NoDup l2 -> (forall x, In x l1 -> In x l2 -> False) -> NoDup (l1 ++ l2).
Proof.
  intros H1 H2 Hd. induction l1 as [|x l1 IH]; [exact H2|].
  cbn [app]. inversion H1 as [|? ? Hx H1']; subst. constructor.
  - rewrite in_app_iff. intros [Hi|Hi]; [now apply Hx|]. apply (Hd x); [now left|trivial].
  - apply IH; trivial. intros y Hy. apply Hd. now right.
Qed.

Lemma nd_flat_map {A B} (f : A -> list B) (l : list A) :
  NoDup l -> (forall x, In x l -> NoDup (f x)) ->
  (forall x y z, In x l -> In y l -> In z (f x) -> In z (f y) -> x = y) ->
  NoDup (flat_map f l).
Proof.
  intros Hl Hf Hd. induction l as [|x l IH]; [constructor|].
  cbn [flat_map]. inversion Hl as [|? ? Hx Hl']; subst.
  apply nd_app.
  - apply Hf. now left.
  - apply IH; trivial.
    + intros y Hy. apply Hf. now right.
    + intros a b z Ha Hb. apply Hd; now right.
  - intros z Hz Hz'. rewrite in_flat_map in Hz'. destruct Hz' as (y & Hy & Hzy).
    apply Hx. rewrite (Hd x y z); trivial; [now left|now right].
Qed.

Lemma nd_map_inj {A B} (f : A -> B) (l : list A) :
  (forall x y, In x l -> In y l -> f x = f y -> x = y) -> NoDup l -> NoDup (map f l).
Proof.
  intros Hinj Hl. induction l as [|x l IH]; [constructor|].
  cbn [map]. inversion Hl as [|? ? Hx Hl']; subst. constructor.
  - rewrite in_map_iff. intros (y & Hy & Hyl). apply Hx.
    rewrite (Hinj x y); trivial; [now left|now right|now symmetry].
  - apply IH; trivial. intros a b Ha Hb. apply Hinj; now right.
Qed.

(** a duplicate-free image: the map is injective on the list *)
Lemma nd_map_injective {A B} (f : A -> B) (l : list A) :
  NoDup (map f l) -> forall x y, In x l -> In y l -> f x = f y -> x = y.
Proof.
  induction l as [|a l IH]; intros N x y Hx Hy E; [contradiction|].
  simpl in N. inversion N as [|? ? Na N']; subst.
  destruct Hx as [->|Hx], Hy as [->|Hy]; trivial.
  - exfalso. apply Na. rewrite E. apply in_map. exact Hy.
  - exfalso. apply Na. rewrite <- E. apply in_map. exact Hx.
  - apply IH; assumption.
Qed.

Lemma flat_map_const_length {A B} (f : A -> list B) (c : nat) (l : list A) :
  (forall x, In x l -> length (f x) = c) -> length (flat_map f l) = length l * c.
Proof.
  induction l as [|x l IH]; intros H; [reflexivity|].
  simpl. rewrite app_length, (H x (or_introl eq_refl)), IH; [lia|]. intros y Hy. apply H. right. exact Hy.
Qed.

Lemma forallb_map' {A B} (f : A -> B) (p : B -> bool) (l : list A) :
  forallb p (map f l) = forallb (fun x => p (f x)) l.
Proof. induction l as [|x l IH]; simpl; [reflexivity|rewrite IH; reflexivity]. Qed.

Lemma forallb_false_ex {A} (p : A -> bool) (l : list A) :
  forallb p l = false -> exists x, In x l /\ p x = false.
Proof.
  induction l as [|x l IH]; simpl; [discriminate|]. destruct (p x) eqn:E.
  - simpl. intros H. destruct (IH H) as (y & Hy & Ey). exists y. auto.
  - intros _. exists x. auto.
Qed.

(** inclusion-exclusion *)
Lemma filter_incl_excl {A} (p q : A -> bool) (l : list A) :
  length (filter p l) + length (filter q l) =
  length (filter (fun x => p x || q x) l) + length (filter (fun x => p x && q x) l).
Proof. induction l as [|x l IH]; simpl; [reflexivity|]. destruct (p x), (q x); simpl; lia. Qed.

Lemma filter_len_le {A} (p : A -> bool) (l : list A) : length (filter p l) <= length l.
Proof. induction l as [|x l IH]; simpl; [lia|]. destruct (p x); simpl; lia. Qed.

Lemma filter_len_full {A} (p : A -> bool) (l : list A) :
  length l <= length (filter p l) <-> forallb p l = true.
Proof.
  induction l as [|x l IH]; simpl; [split; auto|].
  pose proof (filter_len_le p l). destruct (p x); simpl.
  - rewrite <- IH. lia.
  - split; [lia|discriminate].
Qed.

(** two duplicate-free lists with the same elements have the same length *)
Lemma nd_same_length {A} (l1 l2 : list A) :
  NoDup l1 -> NoDup l2 -> (forall x, In x l1 <-> In x l2) -> length l1 = length l2.
Proof. intros N1 N2 H. apply Permutation_length. apply NoDup_Permutation; assumption. Qed.

(** counting through an injection onto the elements satisfying [p] *)
Lemma count_bij {A B} (f : A -> B) (l : list A) (p : B -> bool) (m : list B) :
  NoDup l -> NoDup m ->
  (forall x y, In x l -> In y l -> f x = f y -> x = y) ->
  (forall b, (In b m /\ p b = true) <-> exists a, In a l /\ f a = b) ->
  length l = length (filter p m).
Proof.
  intros Nl Nm Hinj H. rewrite <- (map_length f l). apply nd_same_length.
  - apply nd_map_inj; assumption.
  - apply NoDup_filter. exact Nm.
  - intros b. rewrite filter_In, in_map_iff. rewrite H. split; intros (a & X & Y); exists a; auto.
Qed.

(** * cells of a shape *)
Lemma all_idx_In shp : forall idx, In idx (all_idx shp) <-> in_bounds shp idx.
Proof.
  unfold in_bounds. induction shp as [|n shp IH]; intros idx; simpl.
  - split.
    + intros [<-|[]]. constructor.
    + intros H. inversion H. left. reflexivity.
  - rewrite in_flat_map. split.
    + intros (i & Hi & H). apply in_map_iff in H. destruct H as (r & <- & Hr). apply in_seq in Hi.
      constructor; [lia|apply IH; exact Hr].
    + intros H. inversion H as [|i ? r ? Hi Hr]; subst. exists i. split; [apply in_seq; lia|].
      apply in_map. apply IH. exact Hr.
Qed.

Lemma all_idx_NoDup shp : NoDup (all_idx shp).
Proof.
  induction shp as [|n shp IH]; simpl; [constructor; [intros []|constructor]|].
  apply nd_flat_map.
  - apply seq_NoDup.
  - intros i _. apply nd_map_inj; [|exact IH]. intros a b _ _ E. inversion E. reflexivity.
  - intros i j z _ _ Hi Hj. apply in_map_iff in Hi, Hj. destruct Hi as (a & <- & _), Hj as (b & E & _).
    inversion E. reflexivity.
Qed.

Lemma all_idx_length shp : length (all_idx shp) = fold_right Nat.mul 1 shp.
Proof.
  induction shp as [|n shp IH]; simpl; [reflexivity|].
  rewrite (flat_map_const_length _ (length (all_idx shp))); [rewrite seq_length, IH; reflexivity|].
  intros i _. apply map_length.
Qed.

(** * elements of a physical tensor *)
Lemma all_envs_NoDup vars : NoDup (all_envs vars).
Proof.
  induction vars as [|[k n] vars IH]; simpl; [constructor; [intros []|constructor]|].
  apply nd_flat_map.
  - apply seq_NoDup.
  - intros i _. apply nd_map_inj; [|exact IH]. intros a b _ _ E. inversion E. reflexivity.
  - intros i j z _ _ Hi Hj. apply in_map_iff in Hi, Hj. destruct Hi as (a & <- & _), Hj as (b & E & _).
    inversion E. reflexivity.
Qed.

Lemma all_envs_length vars : length (all_envs vars) = pnumel vars.
Proof.
  induction vars as [|[k n] vars IH]; simpl; [reflexivity|].
  rewrite (flat_map_const_length _ (length (all_envs vars))); [rewrite seq_length, IH; reflexivity|].
  intros i _. apply map_length.
Qed.

Lemma fst_snd_eq {A B} (a b : list (A * B)) : map fst a = map fst b -> map snd a = map snd b -> a = b.
Proof.
  revert b. induction a as [|[x y] a IH]; intros [|[x' y'] b] H1 H2; try discriminate; [reflexivity|].
  simpl in *. inversion H1; inversion H2; subst. f_equal. apply IH; assumption.
Qed.

(** coordinates determine the environment *)
Lemma all_envs_coords_inj vars pi1 pi2 :
  In pi1 (all_envs vars) -> In pi2 (all_envs vars) -> map snd pi1 = map snd pi2 -> pi1 = pi2.
Proof.
  intros H1 H2 E. apply fst_snd_eq; [|exact E].
  destruct (in_all_envs _ _ H1) as [K1 _], (in_all_envs _ _ H2) as [K2 _]. congruence.
Qed.

Lemma pcoords_all_NoDup vars : NoDup (map (map snd) (all_envs vars)).
Proof. apply nd_map_inj; [intros; eapply all_envs_coords_inj; eauto|apply all_envs_NoDup]. Qed.

(** the coordinates of the element an enumerated environment addresses *)
Lemma pcoords_env_gen (pi : list pn) : forall ps : list pn, map fst pi = map fst ps -> NoDup (map fst pi) ->
  map (fun kn : pn => env_of pi (fst kn)) ps = map snd pi.
Proof.
  induction pi as [|[k i] pi IH]; intros [|[k' n] ps] K N; try discriminate; [reflexivity|].
  simpl in K. inversion K; subst. simpl in N. inversion N as [|? ? Hk N']; subst.
  cbn [map fst snd]. f_equal.
  - unfold env_of. simpl. rewrite Pos.eqb_refl. reflexivity.
  - rewrite <- (IH ps H1 N'). apply map_ext_in. intros [k2 n2] Hin. cbn [fst].
    unfold env_of. simpl. destruct (Pos.eqb_spec k' k2) as [->|_]; [|reflexivity].
    exfalso. apply Hk. rewrite H1. apply in_map_iff. exists (k2, n2). auto.
Qed.

Lemma pcoords_env_of ps pi : NoDup (map fst ps) -> In pi (all_envs ps) -> pcoords ps (env_of pi) = map snd pi.
Proof.
  intros N H. destruct (in_all_envs _ _ H) as [K _]. unfold pcoords. apply pcoords_env_gen; [exact K|].
  rewrite K. exact N.
Qed.
