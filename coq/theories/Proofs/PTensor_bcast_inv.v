(** Broadcasting in [expansion], part 2: syntactic invariants of the loop (which antisubst entries
    are the "direct" insertions, i.e. the fresh broadcast axes of either operand) and the relation
    [brel] between an operand's (unit-padded) pattern and its broadcast pattern, with the two
    semantic transfer lemmas. *)
From Coq Require Import List Arith Lia PeanoNat Bool PArith.
Import ListNotations.
Require Import Fggs.Model.Axis Fggs.Model.PTensor.
Require Import Fggs.Proofs.Axis_sem Fggs.Proofs.Axis_unify Fggs.Proofs.Axis_antiunify.
Require Import Fggs.Proofs.PTensor_sem Fggs.Proofs.PTensor_dense Fggs.Proofs.PTensor_views.
Require Import Fggs.Proofs.Axis_antiunify_inv Fggs.Proofs.PTensor_gen Fggs.Proofs.PTensor_binary Fggs.Proofs.PTensor_expand.
Require Import Fggs.Proofs.PTensor_bcast.

(** ** syntactic invariants *)
Definition own1b (en : aentry) : bool := match part1 en with Phys k' _ => Pos.eqb k' (akey en) | _ => false end.
Definition own2b (en : aentry) : bool := match part2 en with Phys k' _ => Pos.eqb k' (akey en) | _ => false end.

Lemma ainv_push B st k n e f : k = as_next st -> n = numel e -> ainv B st ->
  (e = Phys k n \/ below B e) -> (f = Phys k n \/ below B f) -> ainv B (push_entry st (k, n, e, f)).
Proof.
  intros -> -> [I1 I2 I3 I4 I5] He Hf. constructor; cbn [push_entry as_list as_next].
  - apply Forall_app. split; [exact I1|constructor; [reflexivity|constructor]].
  - intros k Hk. rewrite akeys_app in Hk. apply in_app_or in Hk. destruct Hk as [Hk|Hk].
    + destruct (I2 k Hk). split; [assumption|lia].
    + simpl in Hk. destruct Hk as [<-|[]]. split; [exact I5|lia].
  - rewrite akeys_app. simpl. apply NoDup_snoc; [exact I3|]. intros Hk. destruct (I2 _ Hk). lia.
  - intros k n e0 f0 Hin. apply in_app_or in Hin. destruct Hin as [Hin|Hin]; [exact (I4 _ _ _ _ Hin)|].
    destruct Hin as [Hin|[]]. inversion Hin; subst. split; assumption.
  - lia.
Qed.

Lemma push_result B st k n e f : k = as_next st -> n = numel e -> ainv B st ->
  (e = Phys k n \/ below B e) -> (f = Phys k n \/ below B f) ->
  aresult B [e] [f] [Phys k n] st (push_entry st (k, n, e, f)).
Proof.
  intros Hk Hn I He Hf. constructor; rewrite ?flat1.
  - apply ainv_push; assumption.
  - exists [(k, n, e, f)]. split; [reflexivity|]. split.
    + intros en [<-|[]]. cbn [part1 part2]. rewrite ?flat1. split; auto.
    + intros k' [<-|[]]. exists n. left. reflexivity.
  - intros k' n' [E|[]]. inversion E; subst k' n'. exists e, f. cbn [push_entry as_list]. apply in_or_app. right. left. reflexivity.
  - intros kn Hkn. exists (k, n, e, f). split; [cbn [push_entry as_list]; apply in_or_app; right; left; reflexivity|exact Hkn].
  - intros kn Hkn. exists (k, n, e, f). split; [cbn [push_entry as_list]; apply in_or_app; right; left; reflexivity|exact Hkn].
Qed.

Lemma filter_none {A} (p : A -> bool) l : (forall x, In x l -> p x = false) -> filter p l = [].
Proof.
  induction l as [|x l IH]; intros H; [reflexivity|]. simpl. rewrite (H x (or_introl eq_refl)). apply IH.
  intros y Hy. apply H. right. exact Hy.
Qed.

Lemma phys_below_ne B e k' n' k : below B e -> e = Phys k' n' -> (B <= k)%positive -> Pos.eqb k' k = false.
Proof. intros Be -> Hk. apply Pos.eqb_neq. pose proof (Be k' (or_introl eq_refl)). lia. Qed.

Lemma xloop_inv fuel B pairs st es fs gs w1 w2 st' :
  xloop fuel pairs st es fs gs w1 w2 st' ->
  (forall p, In p pairs -> below B (fst p) /\ below B (snd p)) -> ainv B st ->
  aresult B es fs gs st st' /\
  exists ext, as_list st' = as_list st ++ ext /\ w1 = map apair (filter own1b ext) /\ w2 = map apair (filter own2b ext).
Proof.
  induction 1 as [st|e f pairs st es fs gs w1 w2 st' Ue Uf X IH|e f pairs st es fs gs w1 w2 st' Uf Ue X IH
                 |e f pairs st g st1 es fs gs w1 w2 st' Np E1 X IH]; intros Bel I.
  - split; [apply aresult_nil; exact I|]. exists []. rewrite app_nil_r. repeat split.
  - destruct (Bel (e, f) (or_introl eq_refl)) as [Be Bf]. cbn [fst snd] in Be, Bf.
    assert (R1 : aresult B [Phys (as_next st) (numel f)] [f] [Phys (as_next st) (numel f)] st (push_entry st (left_entry st f))).
    { apply push_result; auto. }
    destruct (IH (fun p Hp => Bel p (or_intror Hp)) (ar_inv _ _ _ _ _ _ R1)) as (R2 & ext & X2 & W1 & W2).
    split; [exact (aresult_seq _ _ _ _ _ _ _ _ _ _ R1 R2)|].
    exists (left_entry st f :: ext). split; [rewrite X2; cbn [push_entry as_list]; rewrite <- app_assoc; reflexivity|].
    assert (O1 : own1b (left_entry st f) = true) by (unfold own1b, left_entry; cbn [part1 akey]; apply Pos.eqb_refl).
    assert (O2 : own2b (left_entry st f) = false).
    { unfold own2b, left_entry. cbn [part2 akey]. destruct f as [k' n'| |]; try reflexivity.
      eapply phys_below_ne; [exact Bf|reflexivity|exact (ai_next _ _ I)]. }
    cbn [filter]. rewrite O1, O2. cbn [map]. rewrite W1, W2. split; reflexivity.
  - destruct (Bel (e, f) (or_introl eq_refl)) as [Be Bf]. cbn [fst snd] in Be, Bf.
    assert (R1 : aresult B [e] [Phys (as_next st) (numel e)] [Phys (as_next st) (numel e)] st (push_entry st (right_entry st e))).
    { apply push_result; auto. }
    destruct (IH (fun p Hp => Bel p (or_intror Hp)) (ar_inv _ _ _ _ _ _ R1)) as (R2 & ext & X2 & W1 & W2).
    split; [exact (aresult_seq _ _ _ _ _ _ _ _ _ _ R1 R2)|].
    exists (right_entry st e :: ext). split; [rewrite X2; cbn [push_entry as_list]; rewrite <- app_assoc; reflexivity|].
    assert (O2 : own2b (right_entry st e) = true) by (unfold own2b, right_entry; cbn [part2 akey]; apply Pos.eqb_refl).
    assert (O1 : own1b (right_entry st e) = false).
    { unfold own1b, right_entry. cbn [part1 akey]. destruct e as [k' n'| |]; try reflexivity.
      eapply phys_below_ne; [exact Be|reflexivity|exact (ai_next _ _ I)]. }
    cbn [filter]. rewrite O1, O2. cbn [map]. rewrite W1, W2. split; reflexivity.
  - destruct (Bel (e, f) (or_introl eq_refl)) as [Be Bf]. cbn [fst snd] in Be, Bf.
    pose proof (proj1 (antiunify_inv fuel) B e f st g st1 Be Bf I E1) as R1.
    destruct (IH (fun p Hp => Bel p (or_intror Hp)) (ar_inv _ _ _ _ _ _ R1)) as (R2 & ext & X2 & W1 & W2).
    split; [exact (aresult_seq _ _ _ _ _ _ _ _ _ _ R1 R2)|].
    destruct (ar_ext _ _ _ _ _ _ R1) as (ext1 & X1 & P1 & _).
    exists (ext1 ++ ext). split; [rewrite X2, X1, app_assoc; reflexivity|].
    assert (Keys : forall en, In en ext1 -> (B <= akey en)%positive).
    { intros en Hen. apply (ai_keys _ _ (ar_inv _ _ _ _ _ _ R1)). rewrite X1, akeys_app. apply in_or_app. right.
      rewrite akeys_akey. apply in_map. exact Hen. }
    rewrite !filter_app, (filter_none own1b ext1), (filter_none own2b ext1); [split; assumption| |].
    + intros en Hen. destruct (P1 en Hen) as [_ Q]. unfold own2b. destruct (part2 en) as [k' n'| |] eqn:Ep; try reflexivity.
      apply Pos.eqb_neq. specialize (Q (k', n') (or_introl eq_refl)). rewrite flat1 in Q.
      assert (In k' (fv f)) by (apply fv_of_fvn; eauto). pose proof (Bf _ H). pose proof (Keys en Hen). lia.
    + intros en Hen. destruct (P1 en Hen) as [Q _]. unfold own1b. destruct (part1 en) as [k' n'| |] eqn:Ep; try reflexivity.
      apply Pos.eqb_neq. specialize (Q (k', n') (or_introl eq_refl)). rewrite flat1 in Q.
      assert (In k' (fv e)) by (apply fv_of_fvn; eauto). pose proof (Be _ H). pose proof (Keys en Hen). lia.
Qed.

(** ** how the broadcast pattern [es] relates to the (padded) operand pattern *)
Inductive brel : list axis -> list axis -> list pn -> Prop :=
| br_nil : brel [] [] []
| br_new e k n evs es w : is_unit e = true -> brel evs es w -> brel (e :: evs) (Phys k n :: es) ((k, n) :: w)
| br_keep e evs es w : brel evs es w -> brel (e :: evs) (e :: es) w.

Lemma xloop_brel fuel pairs st es fs gs w1 w2 st' : xloop fuel pairs st es fs gs w1 w2 st' ->
  brel (map fst pairs) es w1 /\ brel (map snd pairs) fs w2.
Proof.
  induction 1 as [st|e f pairs st es fs gs w1 w2 st' Ue Uf X [IH1 IH2]|e f pairs st es fs gs w1 w2 st' Uf Ue X [IH1 IH2]
                 |e f pairs st g st1 es fs gs w1 w2 st' Np E1 X [IH1 IH2]]; simpl; split; try constructor; assumption.
Qed.

Lemma brel_fvn pevs es w : brel pevs es w ->
  forall kn, In kn (flat_map fvn es) <-> In kn (flat_map fvn pevs) \/ In kn w.
Proof.
  induction 1 as [|e k n evs es w U R IH|e evs es w R IH]; intros kn; simpl.
  - tauto.
  - apply is_unit_eq in U. subst e. simpl. rewrite IH. intuition.
  - rewrite !in_app_iff, IH. tauto.
Qed.

Lemma brel_len pevs es w : brel pevs es w -> length es = length pevs.
Proof. induction 1; simpl; congruence. Qed.

(** forward: an environment in range for the broadcast pattern is in range for the operand pattern and
    evaluates it to the broadcast index *)
Lemma brel_fwd pevs es w : brel pevs es w -> forall rho, Forall (inrange rho) es ->
  Forall (inrange rho) pevs /\ evals rho pevs = bidxr pevs (evals rho es).
Proof.
  induction 1 as [|e k n evs es w U R IH|e evs es w R IH]; intros rho Rg.
  - split; [constructor|reflexivity].
  - apply Forall_cons_iff in Rg. destruct Rg as [_ Rg]. destruct (IH rho Rg) as [A E].
    apply is_unit_eq in U. subst e. split; [constructor; [exact I|exact A]|].
    unfold evals in *. simpl. f_equal. exact E.
  - apply Forall_cons_iff in Rg. destruct Rg as [Re Rg]. destruct (IH rho Rg) as [A E].
    split; [constructor; assumption|]. unfold evals in *. simpl. f_equal; [|exact E].
    destruct (Nat.eqb_spec (numel e) 1) as [E1|_]; [apply eval_size1; assumption|reflexivity].
Qed.

Lemma inrange_ext r1 r2 e : (forall k, In k (fv e) -> r1 k = r2 k) -> inrange r1 e -> inrange r2 e.
Proof.
  intros H R. apply inrange_fvn. intros k n Hk. rewrite <- H; [exact (proj2 (inrange_fvn r1 e) R k n Hk)|].
  apply fv_of_fvn. eauto.
Qed.

Lemma Forall_inrange_ext r1 r2 es : (forall k, In k (flat_map fv es) -> r1 k = r2 k) ->
  Forall (inrange r1) es -> Forall (inrange r2) es.
Proof.
  intros H R. rewrite Forall_forall in *. intros e He. apply (inrange_ext r1 r2); [|apply R; exact He].
  intros k Hk. apply H. apply in_flat_map. eauto.
Qed.

(** backward: an environment backing the operand at the broadcast index extends (on the fresh axes only)
    to one backing the broadcast pattern at the index *)
Lemma brel_bwd pevs es w : brel pevs es w -> NoDup (map fst w) ->
  (forall k, In k (map fst w) -> ~ In k (flat_map fv pevs)) ->
  forall rho idxr, Forall2 lt idxr (map numel es) ->
    Forall (inrange rho) pevs -> evals rho pevs = bidxr pevs idxr ->
    exists rho', (forall k, ~ In k (map fst w) -> rho' k = rho k) /\ Forall (inrange rho') es /\ evals rho' es = idxr.
Proof.
  induction 1 as [|e k n evs es w U R IH|e evs es w R IH]; intros ND Fr rho idxr B Rg Ev.
  - inversion B; subst. exists rho. repeat split. constructor.
  - inversion B as [|i ? idxr' ? Hi B']; subst. simpl in Hi.
    simpl in ND. inversion ND as [|? ? Hnk ND']; subst.
    apply Forall_cons_iff in Rg. destruct Rg as [_ Rg].
    unfold evals in Ev. simpl in Ev. injection Ev as _ Ev.
    destruct (IH ND' (fun k' Hk' Hin => Fr k' (or_intror Hk') (in_or_app _ _ _ (or_intror Hin))) rho idxr' B' Rg Ev)
      as (rho1 & Out & R1 & E1).
    set (rho' := fun k' => if Pos.eqb k' k then i else rho1 k').
    assert (Same : forall k', In k' (flat_map fv es) -> rho1 k' = rho' k').
    { intros k' Hk'. unfold rho'. destruct (Pos.eqb_spec k' k) as [->|_]; [exfalso|reflexivity].
      apply In_fv_fvn in Hk'. destruct Hk' as (n' & Hk'). apply (brel_fvn _ _ _ R) in Hk'. destruct Hk' as [Hk'|Hk'].
      - apply (Fr k (or_introl eq_refl)). simpl. apply in_or_app. right. apply In_fv_fvn. eauto.
      - apply Hnk. apply in_map_iff. exists (k, n'). auto. }
    exists rho'. split; [|split].
    + intros k' Hk'. unfold rho'. destruct (Pos.eqb_spec k' k) as [->|_]; [exfalso; apply Hk'; left; reflexivity|].
      apply Out. intros Hin. apply Hk'. right. exact Hin.
    + constructor; [simpl; unfold rho'; rewrite Pos.eqb_refl; exact Hi|exact (Forall_inrange_ext _ _ _ Same R1)].
    + unfold evals. simpl. f_equal; [unfold rho'; rewrite Pos.eqb_refl; reflexivity|].
      rewrite <- E1. symmetry. apply evals_ext. exact Same.
  - inversion B as [|i ? idxr' ? Hi B']; subst. simpl in Hi.
    apply Forall_cons_iff in Rg. destruct Rg as [Re Rg].
    unfold evals in Ev. simpl in Ev. injection Ev as Ee Ev.
    destruct (IH ND (fun k' Hk' Hin => Fr k' Hk' (in_or_app _ _ _ (or_intror Hin))) rho idxr' B' Rg Ev)
      as (rho1 & Out & R1 & E1).
    assert (Same : forall k', In k' (fv e) -> rho k' = rho1 k').
    { intros k' Hk'. symmetry. apply Out. intros Hin. apply (Fr k' Hin). simpl. apply in_or_app. left. exact Hk'. }
    exists rho1. split; [exact Out|]. split; [constructor; [exact (inrange_ext _ _ _ Same Re)|exact R1]|].
    unfold evals. simpl. f_equal; [|exact E1]. rewrite <- (eval_ext _ _ _ Same), Ee.
    destruct (Nat.eqb_spec (numel e) 1) as [E1'|_]; [lia|reflexivity].
Qed.

(** ** [zip_longest_unit] pads the shorter list with [unitAxis] *)
Lemma zip_fst es : forall fs, map fst (zip_longest_unit es fs) = es ++ repeat unitAxis (length fs - length es).
Proof.
  induction es as [|e es IH]; intros fs.
  - simpl. rewrite Nat.sub_0_r. induction fs as [|f fs IHf]; [reflexivity|]. simpl. f_equal. exact IHf.
  - destruct fs as [|f fs]; cbn [zip_longest_unit].
    + simpl. rewrite app_nil_r. f_equal. rewrite map_map. simpl. apply map_id.
    + simpl. f_equal. apply IH.
Qed.

Lemma zip_snd es : forall fs, map snd (zip_longest_unit es fs) = fs ++ repeat unitAxis (length es - length fs).
Proof.
  induction es as [|e es IH]; intros fs.
  - simpl. rewrite app_nil_r. rewrite map_map. simpl. apply map_id.
  - destruct fs as [|f fs]; cbn [zip_longest_unit].
    + simpl. f_equal. rewrite map_map. simpl. clear. induction es; simpl; [reflexivity|f_equal; assumption].
    + simpl. f_equal. apply IH.
Qed.

Lemma zip_In es fs p : In p (zip_longest_unit es fs) ->
  (In (fst p) es \/ fst p = unitAxis) /\ (In (snd p) fs \/ snd p = unitAxis).
Proof.
  intros H. split.
  - assert (Hf : In (fst p) (map fst (zip_longest_unit es fs))) by (apply in_map; exact H).
    rewrite zip_fst in Hf. apply in_app_or in Hf. destruct Hf as [Hf|Hf]; [left; exact Hf|right]. apply repeat_spec in Hf. exact Hf.
  - assert (Hf : In (snd p) (map snd (zip_longest_unit es fs))) by (apply in_map; exact H).
    rewrite zip_snd in Hf. apply in_app_or in Hf. destruct Hf as [Hf|Hf]; [left; exact Hf|right]. apply repeat_spec in Hf. exact Hf.
Qed.

(** ** [bidxr] on padded patterns *)
Lemma bidxr_app a : forall b idxr, length a <= length idxr ->
  bidxr (a ++ b) idxr = bidxr a idxr ++ bidxr b (skipn (length a) idxr).
Proof.
  induction a as [|x a IH]; intros b idxr L; [reflexivity|]. destruct idxr as [|i idxr]; [simpl in L; lia|].
  simpl. f_equal. apply IH. simpl in L. lia.
Qed.

Lemma bidxr_units m : forall l, length l = m -> bidxr (repeat unitAxis m) l = repeat 0 m.
Proof. induction m as [|m IH]; intros [|i l] L; try discriminate; [reflexivity|]. simpl. f_equal. apply IH. simpl in L. lia. Qed.

Lemma evals_units rho m : evals rho (repeat unitAxis m) = repeat 0 m.
Proof. induction m as [|m IH]; [reflexivity|]. unfold evals in *. simpl. f_equal. exact IH. Qed.

Lemma inrange_units rho m : Forall (inrange rho) (repeat unitAxis m).
Proof. induction m; simpl; constructor; [exact I|assumption]. Qed.

Lemma evals_app rho a b : evals rho (a ++ b) = evals rho a ++ evals rho b.
Proof. unfold evals. apply map_app. Qed.
