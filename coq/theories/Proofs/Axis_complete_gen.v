(** Completeness of [unify], unbounded and without any typing assumption, in the form

      "whenever [unify] returns WITHOUT having warned,
         - on success the resulting substitution is a most general unifier with respect to [eval]:
           every in-range environment on which the two arguments coincide (and which satisfies the
           bindings made so far) extends, on the fresh variables only, to an environment that
           satisfies all bindings of the result;
         - on failure there is no such environment: the images are disjoint."

    The typing judgement is only needed to show that [unify] does not warn and does not run out
    of fuel (Proofs/Axis_total.v).  All the "junk" outcomes of [unify] on ill-typed arguments
    (non-divisible factor sizes, Product against Sum, overlapping different injections, a size
    mismatch at a binding) set the warning flag, so nothing has to be said about them here. *)
From Coq Require Import List Arith Lia PeanoNat Bool PArith.
Import ListNotations.
Require Import Fggs.Model.Axis Fggs.Proofs.Axis_sem Fggs.Proofs.Axis_unify.

(** * extensionality of [eval] / [inrange] in the free variables *)
Lemma evalL_ext_fv r1 r2 l :
  Forall (fun e => (forall k, In k (fv e) -> r1 k = r2 k) -> eval r1 e = eval r2 e) l ->
  (forall k, In k (flat_map fv l) -> r1 k = r2 k) -> evalL r1 l = evalL r2 l.
Proof.
  induction 1 as [|x l Hx Hl IH]; intros H; [reflexivity|].
  rewrite !evalL_cons. rewrite Hx, IH; [reflexivity| |].
  - intros k Hk. apply H. simpl. apply in_or_app. right. exact Hk.
  - intros k Hk. apply H. simpl. apply in_or_app. left. exact Hk.
Qed.

Lemma eval_ext_fv r1 r2 e : (forall k, In k (fv e) -> r1 k = r2 k) -> eval r1 e = eval r2 e.
Proof.
  induction e as [k n|l IH|b t a IH] using axis_ind'; intros H.
  - simpl. apply H. left. reflexivity.
  - rewrite !eval_Prod. apply evalL_ext_fv; assumption.
  - simpl. rewrite IH; [reflexivity|exact H].
Qed.

Lemma inrange_ext_fv r1 r2 e : (forall k, In k (fv e) -> r1 k = r2 k) -> inrange r1 e -> inrange r2 e.
Proof.
  induction e as [k n|l IH|b t a IH] using axis_ind'; intros H R.
  - simpl in *. rewrite <- H; [exact R|left; reflexivity].
  - apply inrange_Prod in R. apply inrange_Prod. rewrite Forall_forall in *. intros x Hx.
    apply IH; [exact Hx| |apply R; exact Hx]. intros k Hk. apply H. simpl. apply in_flat_map. eauto.
  - simpl in *. apply IH; assumption.
Qed.

(** * variables below a bound *)
Definition below (nx : positive) (e : axis) : Prop := forall k, In k (fv e) -> (k < nx)%positive.
Definition below_s (nx : positive) (s : subst) : Prop :=
  forall k T, In (k, T) s -> (k < nx)%positive /\ below nx T.
Definition inr_s (rho : env) (s : subst) : Prop := Forall (fun kT => inrange rho (snd kT)) s.
Definition extends_to (nx : positive) (rho rho' : env) : Prop := forall k, (k < nx)%positive -> rho' k = rho k.

Lemma below_mono nx nx' e : (nx <= nx')%positive -> below nx e -> below nx' e.
Proof. intros L B k Hk. specialize (B k Hk). lia. Qed.

Lemma below_s_mono nx nx' s : (nx <= nx')%positive -> below_s nx s -> below_s nx' s.
Proof. intros L B k T H. destruct (B k T H) as [B1 B2]. split; [lia|eapply below_mono; eauto]. Qed.

Lemma below_Prod nx l : below nx (Prod l) <-> forall x, In x l -> below nx x.
Proof.
  unfold below. simpl. split.
  - intros H x Hx k Hk. apply H. apply in_flat_map. eauto.
  - intros H k Hk. apply in_flat_map in Hk. destruct Hk as (x & Hx & Hk). eapply H; eauto.
Qed.

Lemma below_s_app nx s k T : below_s nx s -> (k < nx)%positive -> below nx T -> below_s nx (s ++ [(k, T)]).
Proof.
  intros B Hk HT k' T' H. apply in_app_or in H. destruct H as [H|[H|[]]]; [exact (B _ _ H)|].
  inversion H; subst. auto.
Qed.

Lemma ext_eval nx rho rho' e : extends_to nx rho rho' -> below nx e -> eval rho' e = eval rho e.
Proof. intros X B. apply eval_ext_fv. intros k Hk. apply X. apply B. exact Hk. Qed.

Lemma ext_evalL nx rho rho' l : extends_to nx rho rho' -> (forall x, In x l -> below nx x) -> evalL rho' l = evalL rho l.
Proof.
  intros X B. change (eval rho' (Prod l) = eval rho (Prod l)). eapply ext_eval; [exact X|]. apply below_Prod. exact B.
Qed.

Lemma ext_inrange nx rho rho' e : extends_to nx rho rho' -> below nx e -> inrange rho e -> inrange rho' e.
Proof. intros X B. apply inrange_ext_fv. intros k Hk. symmetry. apply X. apply B. exact Hk. Qed.

Lemma ext_inr_s nx rho rho' s : extends_to nx rho rho' -> below_s nx s -> inr_s rho s -> inr_s rho' s.
Proof.
  intros X B R. unfold inr_s in *. rewrite Forall_forall in *. intros [k T] H. simpl.
  eapply ext_inrange; [exact X|exact (proj2 (B _ _ H))|exact (R _ H)].
Qed.

Lemma ext_models nx rho rho' s : extends_to nx rho rho' -> below_s nx s -> models rho s -> models rho' s.
Proof.
  intros X B M. unfold models in *. rewrite Forall_forall in *. intros [k T] H. simpl.
  destruct (B _ _ H) as [B1 B2]. rewrite (X k B1), (ext_eval _ _ _ _ X B2). exact (M _ H).
Qed.

Lemma ext_trans nx nx' r0 r1 r2 : (nx <= nx')%positive -> extends_to nx r0 r1 -> extends_to nx' r1 r2 -> extends_to nx r0 r2.
Proof. intros L X1 X2 k Hk. rewrite X2 by lia. apply X1. exact Hk. Qed.

Lemma ext_refl nx rho : extends_to nx rho rho.
Proof. intros k _. reflexivity. Qed.

(** * [lookup] *)
Lemma lookup_below nx s fuel e e' : below nx e -> below_s nx s -> lookup fuel s e = Ok e' -> below nx e'.
Proof.
  intros Be Bs H. destruct (lookup_cases _ _ _ _ H) as [->|[k Hk]]; [exact Be|exact (proj2 (Bs _ _ Hk))].
Qed.

Lemma lookup_inrange rho s fuel e e' : inrange rho e -> inr_s rho s -> lookup fuel s e = Ok e' -> inrange rho e'.
Proof.
  intros Re Rs H. destruct (lookup_cases _ _ _ _ H) as [->|[k Hk]]; [exact Re|].
  unfold inr_s in Rs. rewrite Forall_forall in Rs. exact (Rs _ Hk).
Qed.

(** * [productAxis] *)
Lemma fv_factors l : flat_map fv (flat_map factors_of l) = flat_map fv l.
Proof.
  induction l as [|x l IH]; [reflexivity|]. simpl. rewrite flat_map_app, IH. f_equal.
  destruct x; simpl; rewrite ?app_nil_r; reflexivity.
Qed.

Lemma fv_productAxis l : fv (productAxis l) = flat_map fv l.
Proof.
  rewrite <- fv_factors. unfold productAxis. destruct (flat_map factors_of l) as [|x [|y r]]; simpl; rewrite ?app_nil_r; reflexivity.
Qed.

Lemma inrange_factors rho l : Forall (inrange rho) l -> Forall (inrange rho) (flat_map factors_of l).
Proof.
  induction 1 as [|x l Hx Hl IH]; [constructor|]. simpl. apply Forall_app. split; [|exact IH].
  destruct x; simpl; try (constructor; [exact Hx|constructor]). apply inrange_Prod. exact Hx.
Qed.

Lemma inrange_productAxis rho l : Forall (inrange rho) l -> inrange rho (productAxis l).
Proof.
  intros H. apply inrange_factors in H. unfold productAxis.
  destruct (flat_map factors_of l) as [|x [|y r]]; [exact I|inversion H; assumption|apply inrange_Prod; exact H].
Qed.

(** * arithmetic *)
Lemma evalL_zero_inv rho l : Forall (inrange rho) l -> evalL rho l = 0 -> Forall (fun x => eval rho x = 0) l.
Proof.
  induction 1 as [|x l Hx Hl IH]; intros E; [constructor|]. rewrite evalL_cons in E.
  assert (P : 0 < prodn l).
  { assert (evalL rho l < prodn l); [|lia]. apply evalL_bound. rewrite Forall_forall in *. intros y Hy. apply eval_bound. auto. }
  constructor; [nia|apply IH; lia].
Qed.

Lemma split_radix A a B v m q : m <> 0 -> a < m -> A * m + a = B * (q * m) + v ->
  A = B * q + v / m /\ a = v mod m.
Proof.
  intros Hm Ha E. pose proof (Nat.div_mod v m Hm) as D. pose proof (Nat.mod_upper_bound v m Hm) as U.
  apply (mixed_radix_inj m); [exact Ha|exact U|]. nia.
Qed.

(** * the statement *)
Definition frame (st st' : ustate) : Prop :=
  (us_next st <= us_next st')%positive /\ below_s (us_next st') (us_subst st') /\
  (exists ext, us_subst st' = us_subst st ++ ext).

Definition cgoal (b : bool) (st st' : ustate) (rho : env) : Prop :=
  if b then exists rho', extends_to (us_next st) rho rho' /\ inr_s rho' (us_subst st') /\ models rho' (us_subst st')
  else False.

Definition env_ok (rho : env) (st : ustate) : Prop := inr_s rho (us_subst st) /\ models rho (us_subst st).

Definition C_unify (fuel : nat) : Prop :=
  forall e f st b st',
    below (us_next st) e -> below (us_next st) f -> below_s (us_next st) (us_subst st) ->
    unify fuel e f st = Ok (b, st') ->
    frame st st' /\
    (us_warn st' = false -> us_warn st = false /\
       forall rho, inrange rho e -> inrange rho f -> env_ok rho st -> eval rho e = eval rho f -> cgoal b st st' rho).

Definition C_loop (fuel : nat) : Prop :=
  forall esr fsr st b st',
    (forall x, In x esr -> below (us_next st) x) -> (forall x, In x fsr -> below (us_next st) x) ->
    below_s (us_next st) (us_subst st) ->
    unify_loop fuel esr fsr st = Ok (b, st') ->
    frame st st' /\
    (us_warn st' = false -> us_warn st = false /\
       forall rho, Forall (inrange rho) esr -> Forall (inrange rho) fsr -> env_ok rho st ->
                   evalL rho (rev esr) = evalL rho (rev fsr) -> cgoal b st st' rho).

Lemma frame_refl st : below_s (us_next st) (us_subst st) -> frame st st.
Proof. intros B. split; [lia|]. split; [exact B|exists []; rewrite app_nil_r; reflexivity]. Qed.

Lemma frame_trans a b c : frame a b -> frame b c -> frame a c.
Proof.
  intros (L1 & _ & [x Hx]) (L2 & B2 & [y Hy]). split; [lia|]. split; [exact B2|].
  exists (x ++ y). rewrite Hy, Hx, app_assoc. reflexivity.
Qed.

Lemma cgoal_refl st rho : env_ok rho st -> cgoal true st st rho.
Proof. intros [R M]. exists rho. split; [apply ext_refl|]. split; assumption. Qed.

(** chaining two calls: the second starts from the state the first returned *)
Lemma cgoal_chain b st st1 st' rho rho1 :
  (us_next st <= us_next st1)%positive ->
  extends_to (us_next st) rho rho1 -> cgoal b st1 st' rho1 -> cgoal b st st' rho.
Proof.
  intros L X C. destruct b; [|exact C]. destruct C as (rho2 & X2 & R2 & M2).
  exists rho2. split; [eapply ext_trans; eauto|]. split; assumption.
Qed.

Lemma frame_warn_if (c : bool) st : below_s (us_next st) (us_subst st) -> frame st (if c then st else u_warn st).
Proof. intros B. destruct c; [apply frame_refl; exact B|]. split; [simpl; lia|]. split; [exact B|exists []; simpl; rewrite app_nil_r; reflexivity]. Qed.

(** the leftover loop *)
Lemma leftovers_complete fuel : C_unify fuel ->
  forall l st b st', (forall x, In x l -> below (us_next st) x) -> below_s (us_next st) (us_subst st) ->
    leftovers fuel l st = Ok (b, st') ->
    frame st st' /\
    (us_warn st' = false -> us_warn st = false /\
       forall rho, Forall (inrange rho) l -> env_ok rho st -> Forall (fun x => eval rho x = 0) l -> cgoal b st st' rho).
Proof.
  intros IH. induction l as [|x l IHl]; intros st b st' Bl Bs H; simpl in H.
  - inversion H; subst. split; [apply frame_refl; exact Bs|]. intros W. split; [exact W|].
    intros rho _ Ok_ _. apply cgoal_refl. exact Ok_.
  - destruct (unify fuel x unitAxis st) as [[b1 st1]|] eqn:E1; [|discriminate]. cbn [bind fst snd] in H.
    assert (Bu : below (us_next st) unitAxis) by (intros k []).
    destruct (IH x unitAxis st b1 st1 (Bl x (or_introl eq_refl)) Bu Bs E1) as [F1 C1].
    destruct b1.
    + destruct F1 as (L1 & B1 & X1).
      destruct (IHl st1 b st') as [F2 C2]; [intros y Hy; eapply below_mono; [exact L1|apply Bl; right; exact Hy]|exact B1|exact H|].
      split; [eapply frame_trans; [split; [exact L1|split; [exact B1|exact X1]]|exact F2]|].
      intros W. destruct (C2 W) as [W1 G2]. destruct (C1 W1) as [W0 G1]. split; [exact W0|].
      intros rho R Ok_ Z. inversion R as [|? ? Rx Rl]; subst. inversion Z as [|? ? Zx Zl]; subst.
      specialize (G1 rho Rx I Ok_ Zx). destruct G1 as (rho1 & Xr & R1 & M1).
      eapply cgoal_chain; [exact L1|exact Xr|]. apply G2.
      * rewrite Forall_forall in *. intros y Hy. eapply ext_inrange; [exact Xr|apply Bl; right; exact Hy|auto].
      * split; assumption.
      * rewrite Forall_forall in *. intros y Hy. rewrite (ext_eval _ _ _ _ Xr); [auto|apply Bl; right; exact Hy].
    + inversion H; subst. split; [exact F1|]. intros W. destruct (C1 W) as [W0 G1]. split; [exact W0|].
      intros rho R Ok_ Z. inversion R; subst. inversion Z; subst. apply (G1 rho); auto. exact I.
Qed.

Lemma div_lt_of v m q : m <> 0 -> v < q * m -> v / m < q.
Proof. intros Hm H. apply Nat.div_lt_upper_bound; [exact Hm|lia]. Qed.

(** environment with one more variable *)
Definition upd_env (rho : env) (k : positive) (v : nat) : env := fun j => if Pos.eqb j k then v else rho j.

Lemma upd_env_ext nx rho v : extends_to nx rho (upd_env rho nx v).
Proof. intros k Hk. unfold upd_env. destruct (Pos.eqb_spec k nx); [lia|reflexivity]. Qed.

Lemma upd_env_same rho k v : upd_env rho k v k = v.
Proof. unfold upd_env. rewrite Pos.eqb_refl. reflexivity. Qed.

(** one splitting step of the sweep: [big] (size [n]) against [productAxis [k; small]] (size of
    [small] is [m], [m] divides [n], [k] fresh of size [n / m]); [resb], [ress] are the remaining
    factor lists on the side of [big] and of [small] *)
Lemma split_step fuel : C_unify fuel -> C_loop fuel ->
  forall (big small : axis) (resb ress : list axis) st b st' (swap : bool),
    below (us_next st) big -> below (us_next st) small ->
    (forall x, In x resb -> below (us_next st) x) -> (forall x, In x ress -> below (us_next st) x) ->
    below_s (us_next st) (us_subst st) ->
    numel small <> 0 -> numel big mod numel small = 0 ->
    let k := Phys (us_next st) (numel big / numel small) in
    let st0 := {| us_subst := us_subst st; us_next := Pos.succ (us_next st); us_warn := us_warn st |} in
    (r <- unify fuel big (productAxis [k; small]) st0 ;;
     if fst r then (if swap then unify_loop fuel (k :: resb) ress (snd r) else unify_loop fuel ress (k :: resb) (snd r))
     else Ok (false, snd r)) = Ok (b, st') ->
    frame st st' /\
    (us_warn st' = false -> us_warn st = false /\
       forall rho, inrange rho big -> inrange rho small -> Forall (inrange rho) resb -> Forall (inrange rho) ress ->
                   env_ok rho st ->
                   evalL rho (rev ress) * numel small + eval rho small = evalL rho (rev resb) * numel big + eval rho big ->
                   cgoal b st st' rho).
Proof.
  intros IHu IHl big small resb ress st b st' swap Bb Bsm Brb Brs Bs Hm Hmod k st0 H.
  assert (L0 : (us_next st <= us_next st0)%positive) by (simpl; lia).
  assert (Bk : below (us_next st0) k) by (intros j [<-|[]]; simpl; lia).
  assert (Bp : below (us_next st0) (productAxis [k; small])).
  { intros j Hj. rewrite fv_productAxis in Hj. simpl in Hj. rewrite app_nil_r in Hj. destruct Hj as [<-|Hj]; [simpl; lia|].
    specialize (Bsm j Hj). simpl. lia. }
  assert (Bs0 : below_s (us_next st0) (us_subst st0)) by (eapply below_s_mono; [exact L0|exact Bs]).
  destruct (unify fuel big (productAxis [k; small]) st0) as [[b1 st1]|] eqn:E1; [|discriminate]. cbn [bind fst snd] in H.
  destruct (IHu big (productAxis [k; small]) st0 b1 st1 (below_mono _ _ _ L0 Bb) Bp Bs0 E1) as [F1 C1].
  assert (F01 : frame st st1).
  { destruct F1 as (L1 & B1 & X1). split; [lia|]. split; [exact B1|exact X1]. }
  (* the environment for the first call *)
  assert (Q : numel big = numel big / numel small * numel small).
  { pose proof (Nat.div_mod (numel big) (numel small) Hm). lia. }
  assert (Sub1 : us_warn st1 = false -> us_warn st = false /\
            forall rho, inrange rho big -> inrange rho small -> env_ok rho st ->
              forall A B, A * numel small + eval rho small = B * numel big + eval rho big ->
              let rho0 := upd_env rho (us_next st) (eval rho big / numel small) in
              A = B * (numel big / numel small) + rho0 (us_next st) /\
              cgoal b1 st0 st1 rho0).
  { intros W1. destruct (C1 W1) as [W0 G1]. split; [exact W0|].
    intros rho Rb Rsm [Rs M] A B E rho0.
    pose proof (eval_bound _ _ Rb) as Ub. pose proof (eval_bound _ _ Rsm) as Usm.
    rewrite Q in E at 1.
    destruct (split_radix _ _ _ _ _ _ Hm Usm E) as [EA Ea].
    assert (X0 : extends_to (us_next st) rho rho0) by apply upd_env_ext.
    unfold rho0 at 1. rewrite upd_env_same. split; [exact EA|].
    apply G1.
    - eapply ext_inrange; eauto.
    - apply inrange_productAxis. constructor; [|constructor; [eapply ext_inrange; eauto|constructor]].
      simpl. unfold rho0. rewrite upd_env_same. apply div_lt_of; [exact Hm|]. rewrite <- Q. exact Ub.
    - split; [eapply ext_inr_s; eauto|eapply ext_models; eauto].
    - rewrite (proj1 (productAxis_sem rho0 [k; small])).
      assert (Ek : evalL rho0 [k; small] = rho0 (us_next st) * numel small + eval rho0 small) by (unfold evalL; simpl; lia).
      rewrite Ek, (ext_eval _ _ _ _ X0 Bb), (ext_eval _ _ _ _ X0 Bsm). unfold rho0. rewrite upd_env_same.
      pose proof (Nat.div_mod (eval rho big) (numel small) Hm). lia. }
  destruct b1.
  - destruct F1 as (L1 & B1 & X1).
    assert (L01 : (us_next st <= us_next st1)%positive) by lia.
    assert (Bkr : forall x, In x (k :: resb) -> below (us_next st1) x).
    { intros x [<-|Hx]; [eapply below_mono; [exact L1|exact Bk]|eapply below_mono; [exact L01|apply Brb; exact Hx]]. }
    assert (Brs1 : forall x, In x ress -> below (us_next st1) x).
    { intros x Hx. eapply below_mono; [exact L01|apply Brs; exact Hx]. }
    assert (Rest : frame st1 st' /\
              (us_warn st' = false -> us_warn st1 = false /\
                 forall rho, Forall (inrange rho) (k :: resb) -> Forall (inrange rho) ress -> env_ok rho st1 ->
                             evalL rho (rev ress) = evalL rho (rev (k :: resb)) -> cgoal b st1 st' rho)).
    { destruct swap.
      - destruct (IHl (k :: resb) ress st1 b st' Bkr Brs1 B1 H) as [F2 C2]. split; [exact F2|].
        intros W. destruct (C2 W) as [W1 G2]. split; [exact W1|]. intros rho R1 R2 Ok_ E. apply G2; auto.
      - destruct (IHl ress (k :: resb) st1 b st' Brs1 Bkr B1 H) as [F2 C2]. split; [exact F2|].
        intros W. destruct (C2 W) as [W1 G2]. split; [exact W1|]. intros rho R1 R2 Ok_ E. apply G2; auto. }
    destruct Rest as [F2 C2]. split; [eapply frame_trans; eauto|].
    intros W. destruct (C2 W) as [W1 G2]. destruct (Sub1 W1) as [W0 G1]. split; [exact W0|].
    intros rho Rb Rsm Rrb Rrs Ok_ E.
    destruct (G1 rho Rb Rsm Ok_ _ _ E) as [EA (rho1 & X1' & R1 & M1)].
    assert (X0 : extends_to (us_next st) rho (upd_env rho (us_next st) (eval rho big / numel small))) by apply upd_env_ext.
    assert (X01 : extends_to (us_next st) rho rho1).
    { eapply ext_trans; [exact L0|exact X0|exact X1']. }
    eapply cgoal_chain; [exact L01|exact X01|]. apply G2.
    + constructor.
      * unfold k. cbn [inrange]. rewrite (X1' (us_next st)) by (simpl; lia). rewrite upd_env_same.
        apply div_lt_of; [exact Hm|]. rewrite <- Q. apply eval_bound. exact Rb.
      * rewrite Forall_forall in *. intros y Hy. eapply ext_inrange; [exact X01|apply Brb; exact Hy|auto].
    + rewrite Forall_forall in *. intros y Hy. eapply ext_inrange; [exact X01|apply Brs; exact Hy|auto].
    + split; assumption.
    + cbn [rev]. rewrite evalL_snoc. unfold k. cbn [numel eval].
      rewrite (ext_evalL _ _ _ _ X01); [|intros x Hx; apply Brs; apply in_rev; exact Hx].
      rewrite (ext_evalL _ _ _ (rev resb) X01); [|intros x Hx; apply Brb; apply in_rev; exact Hx].
      rewrite (X1' (us_next st)) by (simpl; lia). exact EA.
  - inversion H; subst. split; [exact F01|]. intros W. destruct (Sub1 W) as [W0 G1]. split; [exact W0|].
    intros rho Rb Rsm _ _ Ok_ E. destruct (G1 rho Rb Rsm Ok_ _ _ E) as [_ []].
Qed.

Lemma unify_complete_step fuel : C_unify fuel -> C_loop fuel -> C_unify (S fuel) /\ C_loop (S fuel).
Proof.
  intros IHu IHl. split.
  - (* unify *)
    intros e0 f0 st b st' Be0 Bf0 Bs H. cbn [unify] in H.
    destruct (lookup (lookup_fuel (us_subst st)) (us_subst st) e0) as [e|] eqn:Le; [|discriminate].
    cbn [bind] in H.
    destruct (lookup (lookup_fuel (us_subst st)) (us_subst st) f0) as [f|] eqn:Lf; [|discriminate].
    cbn [bind] in H.
    assert (Be : below (us_next st) e) by exact (lookup_below _ _ _ _ _ Be0 Bs Le).
    assert (Bf : below (us_next st) f) by exact (lookup_below _ _ _ _ _ Bf0 Bs Lf).
    assert (G : frame st st' /\
      (us_warn st' = false -> us_warn st = false /\
         forall rho, inrange rho e -> inrange rho f -> env_ok rho st -> eval rho e = eval rho f -> cgoal b st st' rho)).
    2:{ destruct G as [F C]. split; [exact F|]. intros W. destruct (C W) as [W0 G]. split; [exact W0|].
        intros rho Re Rf [Rs M] E. apply G.
        - exact (lookup_inrange _ _ _ _ _ Re Rs Le).
        - exact (lookup_inrange _ _ _ _ _ Rf Rs Lf).
        - split; assumption.
        - rewrite (lookup_sem rho _ M _ _ _ Le), (lookup_sem rho _ M _ _ _ Lf). exact E. }
    clear Le Lf Be0 Bf0 e0 f0.
    destruct (same_object e f) eqn:So.
    { inversion H; subst. split; [apply frame_refl; exact Bs|]. intros W. split; [exact W|].
      intros rho _ _ Ok_ _. apply cgoal_refl. exact Ok_. }
    clear So.
    remember (if Nat.eqb (numel e) (numel f) then st else u_warn st) as st1 eqn:Est1.
    assert (S1 : us_subst st1 = us_subst st) by (subst st1; apply subst_warn_if).
    assert (N1 : us_next st1 = us_next st) by (subst st1; destruct (Nat.eqb (numel e) (numel f)); reflexivity).
    assert (HN : us_warn st1 = false -> us_warn st = false /\ numel e = numel f).
    { subst st1. destruct (Nat.eqb_spec (numel e) (numel f)); [auto|discriminate]. }
    assert (G : frame st1 st' /\
      (us_warn st' = false -> us_warn st1 = false /\
         forall rho, inrange rho e -> inrange rho f -> env_ok rho st1 -> eval rho e = eval rho f -> cgoal b st1 st' rho)).
    2:{ destruct G as [F C]. split.
        - destruct F as (L & B & [x Hx]). split; [rewrite <- N1; exact L|]. split; [exact B|]. exists x. rewrite <- S1. exact Hx.
        - intros W. destruct (C W) as [W1 G]. split; [exact (proj1 (HN W1))|].
          intros rho Re Rf Ok_ E. unfold env_ok in *. rewrite <- S1 in Ok_. specialize (G rho Re Rf Ok_ E).
          unfold cgoal in *. rewrite N1 in G. exact G. }
    assert (HN' : us_warn st1 = false -> numel e = numel f) by (intros W; exact (proj2 (HN W))).
    rewrite <- N1 in Be, Bf. rewrite <- N1, <- S1 in Bs.
    clear HN Est1 S1 N1 st. rename st1 into st. rename HN' into HN.
    assert (Bind : forall k n g (sw : bool), (if sw then e = Phys k n /\ f = g else f = Phys k n /\ e = g) ->
              Ok (true, u_bind k g st) = Ok (b, st') ->
              frame st st' /\
              (us_warn st' = false -> us_warn st = false /\
                 forall rho, inrange rho e -> inrange rho f -> env_ok rho st -> eval rho e = eval rho f -> cgoal b st st' rho)).
    { intros k n g sw Hsw H'. inversion H'; subst b st'. clear H'.
      assert (Bk : (k < us_next st)%positive /\ below (us_next st) g).
      { destruct sw; destruct Hsw as [-> ->]; (split; [|assumption]); [apply Be|apply Bf]; left; reflexivity. }
      split.
      - split; [simpl; lia|]. split; [simpl; apply below_s_app; tauto|exists [(k, g)]; reflexivity].
      - intros W. split; [exact W|]. intros rho Re Rf [Rs M] E. exists rho. split; [apply ext_refl|].
        simpl. split.
        + apply Forall_app. split; [exact Rs|]. constructor; [|constructor]. simpl.
          destruct sw; destruct Hsw as [-> ->]; assumption.
        + apply models_app. split; [exact M|]. constructor; [|constructor]. simpl.
          destruct sw; destruct Hsw as [-> ->]; simpl in E; congruence. }
    destruct e as [k1 n1|l1|b1 t1 a1]; destruct f as [k2 n2|l2|b2 t2 a2].
    + apply (Bind k1 n1 (Phys k2 n2) true); [split; reflexivity|exact H].
    + apply (Bind k1 n1 (Prod l2) true); [split; reflexivity|exact H].
    + apply (Bind k1 n1 (Sum b2 t2 a2) true); [split; reflexivity|exact H].
    + apply (Bind k2 n2 (Prod l1) false); [split; reflexivity|destruct l1; exact H].
    + (* Prod, Prod *)
      destruct (zero (Prod l1)) eqn:Z.
      * inversion H; subst. split; [apply frame_refl; exact Bs|]. intros W. split; [exact W|].
        intros rho _ _ Ok_ _. apply cgoal_refl. exact Ok_.
      * rewrite below_Prod in Be, Bf.
        destruct (IHl (rev l1) (rev l2) st b st') as [F C]; try exact H; try exact Bs.
        { intros x Hx. apply Be. apply in_rev. exact Hx. }
        { intros x Hx. apply Bf. apply in_rev. exact Hx. }
        split; [exact F|]. intros W. destruct (C W) as [W0 G]. split; [exact W0|].
        intros rho Re Rf Ok_ E. apply G; [apply Forall_rev; apply inrange_Prod; exact Re|apply Forall_rev; apply inrange_Prod; exact Rf|exact Ok_|].
        rewrite !rev_involutive. exact E.
    + (* Prod, Sum *)
      destruct l1 as [|x l1]; cbn [is_unit] in H.
      * destruct (Nat.eqb b2 0 && Nat.eqb a2 0) eqn:E0.
        -- destruct (IHu (Prod []) t2 st b st' Be Bf Bs H) as [F C]. split; [exact F|].
           intros W. destruct (C W) as [W0 G]. split; [exact W0|]. intros rho Re Rf Ok_ E. apply G; auto.
           apply andb_true_iff in E0. destruct E0 as [B0 A0]. apply Nat.eqb_eq in B0. subst.
           cbn [eval] in *. unfold evalL in *. simpl in *. lia.
        -- inversion H; subst. split; [apply frame_refl; exact Bs|]. intros W. split; [exact W|].
           intros rho Re Rf Ok_ E. specialize (HN W). simpl in Rf. pose proof (eval_bound _ _ Rf) as U.
           cbn [eval numel] in *. unfold prodn in HN. simpl in *.
           apply andb_false_iff in E0. destruct E0 as [E0|E0]; apply Nat.eqb_neq in E0; lia.
      * inversion H; subst. split; [split; [simpl; lia|split; [exact Bs|exists []; simpl; rewrite app_nil_r; reflexivity]]|].
        simpl. discriminate.
    + apply (Bind k2 n2 (Sum b1 t1 a1) false); [split; reflexivity|exact H].
    + (* Sum, Prod *)
      destruct l2 as [|y l2]; cbn [is_unit] in H.
      * destruct (Nat.eqb b1 0 && Nat.eqb a1 0) eqn:E0.
        -- destruct (IHu (Prod []) t1 st b st' Bf Be Bs H) as [F C]. split; [exact F|].
           intros W. destruct (C W) as [W0 G]. split; [exact W0|]. intros rho Re Rf Ok_ E. apply G; auto.
           apply andb_true_iff in E0. destruct E0 as [B0 A0]. apply Nat.eqb_eq in B0. subst.
           cbn [eval] in *. unfold evalL in *. simpl in *. lia.
        -- inversion H; subst. split; [apply frame_refl; exact Bs|]. intros W. split; [exact W|].
           intros rho Re Rf Ok_ E. specialize (HN W). simpl in Re. pose proof (eval_bound _ _ Re) as U.
           cbn [eval numel] in *. unfold prodn in HN. simpl in *.
           apply andb_false_iff in E0. destruct E0 as [E0|E0]; apply Nat.eqb_neq in E0; lia.
      * inversion H; subst. split; [split; [simpl; lia|split; [exact Bs|exists []; simpl; rewrite app_nil_r; reflexivity]]|].
        simpl. discriminate.
    + (* Sum, Sum *)
      destruct (Nat.eqb b1 b2 && Nat.eqb a1 a2) eqn:E0.
      * destruct (IHu t1 t2 st b st' Be Bf Bs H) as [F C]. split; [exact F|].
        intros W. destruct (C W) as [W0 G]. split; [exact W0|]. intros rho Re Rf Ok_ E. apply G; auto.
        apply andb_true_iff in E0. destruct E0 as [B0 A0]. apply Nat.eqb_eq in B0. subst.
        cbn [eval] in E. lia.
      * destruct ((b2 <? b1 + numel t1) && (b1 <? b2 + numel t2)) eqn:Ov; inversion H; subst.
        -- split; [split; [simpl; lia|split; [exact Bs|exists []; simpl; rewrite app_nil_r; reflexivity]]|].
           simpl. discriminate.
        -- split; [apply frame_refl; exact Bs|]. intros W. split; [exact W|].
           intros rho Re Rf Ok_ E. simpl in Re, Rf. pose proof (eval_bound _ _ Re). pose proof (eval_bound _ _ Rf).
           cbn [eval] in E. simpl.
           apply andb_false_iff in Ov. destruct Ov as [Ov|Ov]; apply Nat.ltb_ge in Ov; lia.
  - (* unify_loop *)
    intros esr fsr st b st' Bes Bfs Bs H. cbn [unify_loop] in H.
    assert (Left : forall l, l = rev esr ++ rev fsr -> (esr = [] \/ fsr = []) ->
              leftovers fuel l st = Ok (b, st') ->
              frame st st' /\
              (us_warn st' = false -> us_warn st = false /\
                 forall rho, Forall (inrange rho) esr -> Forall (inrange rho) fsr -> env_ok rho st ->
                             evalL rho (rev esr) = evalL rho (rev fsr) -> cgoal b st st' rho)).
    { intros l El Hnil HL.
      destruct (leftovers_complete fuel IHu l st b st') as [F C]; try exact HL; try exact Bs.
      { subst l. intros x Hx. apply in_app_or in Hx. destruct Hx as [Hx|Hx]; apply in_rev in Hx; auto. }
      split; [exact F|]. intros W. destruct (C W) as [W0 G]. split; [exact W0|].
      intros rho Re Rf Ok_ E. apply G; [subst l; apply Forall_app; split; apply Forall_rev; assumption|exact Ok_|].
      subst l. apply Forall_app.
      destruct Hnil as [-> | ->]; simpl in *.
      - split; [constructor|]. apply evalL_zero_inv; [apply Forall_rev; exact Rf|]. rewrite <- E. reflexivity.
      - split; [|constructor]. apply evalL_zero_inv; [apply Forall_rev; exact Re|]. rewrite E. reflexivity. }
    destruct esr as [|e9 esr']; [apply (Left _ eq_refl); [left; reflexivity|exact H]|].
    destruct fsr as [|f9 fsr']; [apply (Left _ eq_refl); [right; reflexivity|exact H]|].
    clear Left.
    assert (Be9 : below (us_next st) e9) by (apply Bes; left; reflexivity).
    assert (Bf9 : below (us_next st) f9) by (apply Bfs; left; reflexivity).
    assert (Bes' : forall x, In x esr' -> below (us_next st) x) by (intros x Hx; apply Bes; right; exact Hx).
    assert (Bfs' : forall x, In x fsr' -> below (us_next st) x) by (intros x Hx; apply Bfs; right; exact Hx).
    destruct (Nat.eqb_spec (numel e9) (numel f9)) as [Emn|Emn].
    + (* equal sizes *)
      destruct (unify fuel e9 f9 st) as [[b1 st1]|] eqn:E1; [|discriminate]. cbn [bind fst snd] in H.
      destruct (IHu _ _ _ _ _ Be9 Bf9 Bs E1) as [F1 C1].
      destruct b1.
      * destruct F1 as (L1 & B1 & X1).
        destruct (IHl esr' fsr' st1 b st') as [F2 C2]; try exact H; try exact B1.
        { intros x Hx. eapply below_mono; [exact L1|auto]. }
        { intros x Hx. eapply below_mono; [exact L1|auto]. }
        split; [eapply frame_trans; [split; [exact L1|split; [exact B1|exact X1]]|exact F2]|].
        intros W. destruct (C2 W) as [W1 G2]. destruct (C1 W1) as [W0 G1]. split; [exact W0|].
        intros rho Re Rf Ok_ E. inversion Re as [|? ? Re9 Res]; subst. inversion Rf as [|? ? Rf9 Rfs]; subst.
        cbn [rev] in E. rewrite !evalL_snoc in E.
        pose proof (eval_bound _ _ Re9) as Ue. pose proof (eval_bound _ _ Rf9) as Uf. rewrite Emn in E, Ue.
        destruct (mixed_radix_inj _ _ _ _ _ Ue Uf E) as [EA Ea].
        destruct (G1 rho Re9 Rf9 Ok_ Ea) as (rho1 & Xr & R1 & M1).
        eapply cgoal_chain; [exact L1|exact Xr|]. apply G2.
        -- rewrite Forall_forall in *. intros y Hy. eapply ext_inrange; [exact Xr|auto|auto].
        -- rewrite Forall_forall in *. intros y Hy. eapply ext_inrange; [exact Xr|auto|auto].
        -- split; assumption.
        -- rewrite (ext_evalL _ _ _ _ Xr); [|intros x Hx; apply Bes'; apply in_rev; exact Hx].
           rewrite (ext_evalL _ _ _ (rev fsr') Xr); [|intros x Hx; apply Bfs'; apply in_rev; exact Hx]. exact EA.
      * inversion H; subst. split; [exact F1|]. intros W. destruct (C1 W) as [W0 G1]. split; [exact W0|].
        intros rho Re Rf Ok_ E. inversion Re as [|? ? Re9 Res]; subst. inversion Rf as [|? ? Rf9 Rfs]; subst.
        cbn [rev] in E. rewrite !evalL_snoc in E.
        pose proof (eval_bound _ _ Re9) as Ue. pose proof (eval_bound _ _ Rf9) as Uf. rewrite Emn in E, Ue.
        destruct (mixed_radix_inj _ _ _ _ _ Ue Uf E) as [EA Ea].
        exact (G1 rho Re9 Rf9 Ok_ Ea).
    + assert (Warned : forall st2, Ok (false, u_warn st) = Ok (b, st2) -> st2 = st' ->
                frame st st' /\
                (us_warn st' = false -> us_warn st = false /\
                   forall rho, Forall (inrange rho) (e9 :: esr') -> Forall (inrange rho) (f9 :: fsr') -> env_ok rho st ->
                     evalL rho (rev (e9 :: esr')) = evalL rho (rev (f9 :: fsr')) -> cgoal b st st' rho)).
      { intros st2 HH <-. inversion HH; subst. split; [|simpl; discriminate].
        split; [simpl; lia|]. split; [exact Bs|exists []; simpl; rewrite app_nil_r; reflexivity]. }
      destruct (numel e9 <? numel f9) eqn:Elt.
      * (* m < n : split f9 *)
        apply Nat.ltb_lt in Elt.
        destruct (Nat.eqb_spec (numel e9) 0) as [|Hm]; [discriminate|].
        destruct (Nat.eqb_spec (numel f9 mod numel e9) 0) as [Hmod|Hmod]; cbn [negb] in H;
          [|apply (Warned st'); [exact H|reflexivity]].
        unfold u_fresh in H.
        destruct (split_step fuel IHu IHl f9 e9 fsr' esr' st b st' false Bf9 Be9 Bfs' Bes' Bs Hm Hmod H) as [F C].
        split; [exact F|]. intros W. destruct (C W) as [W0 G]. split; [exact W0|].
        intros rho Re Rf Ok_ E. inversion Re as [|? ? Re9 Res]; subst. inversion Rf as [|? ? Rf9 Rfs]; subst.
        apply G; auto. cbn [rev] in E. rewrite !evalL_snoc in E. exact E.
      * (* m > n : split e9 *)
        apply Nat.ltb_ge in Elt.
        destruct (Nat.eqb_spec (numel f9) 0) as [|Hm]; [discriminate|].
        destruct (Nat.eqb_spec (numel e9 mod numel f9) 0) as [Hmod|Hmod]; cbn [negb] in H;
          [|apply (Warned st'); [exact H|reflexivity]].
        unfold u_fresh in H.
        destruct (split_step fuel IHu IHl e9 f9 esr' fsr' st b st' true Be9 Bf9 Bes' Bfs' Bs Hm Hmod H) as [F C].
        split; [exact F|]. intros W. destruct (C W) as [W0 G]. split; [exact W0|].
        intros rho Re Rf Ok_ E. inversion Re as [|? ? Re9 Res]; subst. inversion Rf as [|? ? Rf9 Rfs]; subst.
        apply G; auto. cbn [rev] in E. rewrite !evalL_snoc in E. symmetry. exact E.
Qed.

Theorem unify_complete_both : forall fuel, C_unify fuel /\ C_loop fuel.
Proof.
  induction fuel as [|fuel [IHu IHl]]; [split; intros ? ? ? ? ? ? ? ? H; discriminate|].
  apply unify_complete_step; assumption.
Qed.

(** * lists of axes (patterns) *)
Lemma unify_list_complete_gen fuel : forall es fs st b st',
  length es = length fs ->
  (forall x, In x es -> below (us_next st) x) -> (forall x, In x fs -> below (us_next st) x) ->
  below_s (us_next st) (us_subst st) ->
  unify_list fuel es fs st = Ok (b, st') ->
  frame st st' /\
  (us_warn st' = false -> us_warn st = false /\
     forall rho, Forall (inrange rho) es -> Forall (inrange rho) fs -> env_ok rho st ->
                 map (eval rho) es = map (eval rho) fs -> cgoal b st st' rho).
Proof.
  induction es as [|e es IH]; intros fs st b st' Hlen Bes Bfs Bs H; destruct fs as [|f fs]; try discriminate.
  - simpl in H. inversion H; subst. split; [apply frame_refl; exact Bs|]. intros W. split; [exact W|].
    intros rho _ _ Ok_ _. apply cgoal_refl. exact Ok_.
  - simpl in H, Hlen. destruct (unify fuel e f st) as [[b1 st1]|] eqn:E1; [|discriminate]. cbn [bind fst snd] in H.
    destruct (proj1 (unify_complete_both fuel) e f st b1 st1) as [F1 C1]; try exact E1; try exact Bs.
    { apply Bes. left. reflexivity. } { apply Bfs. left. reflexivity. }
    destruct b1.
    + destruct F1 as (L1 & B1 & X1).
      destruct (IH fs st1 b st') as [F2 C2]; try exact H; try exact B1; [lia| | |].
      { intros x Hx. eapply below_mono; [exact L1|apply Bes; right; exact Hx]. }
      { intros x Hx. eapply below_mono; [exact L1|apply Bfs; right; exact Hx]. }
      split; [eapply frame_trans; [split; [exact L1|split; [exact B1|exact X1]]|exact F2]|].
      intros W. destruct (C2 W) as [W1 G2]. destruct (C1 W1) as [W0 G1]. split; [exact W0|].
      intros rho Re Rf Ok_ E. inversion Re as [|? ? Re1 Res]; subst. inversion Rf as [|? ? Rf1 Rfs]; subst.
      simpl in E. inversion E as [[E1' E2']].
      destruct (G1 rho Re1 Rf1 Ok_ E1') as (rho1 & Xr & R1 & M1).
      eapply cgoal_chain; [exact L1|exact Xr|]. apply G2.
      * rewrite Forall_forall in *. intros y Hy. eapply ext_inrange; [exact Xr|apply Bes; right; exact Hy|auto].
      * rewrite Forall_forall in *. intros y Hy. eapply ext_inrange; [exact Xr|apply Bfs; right; exact Hy|auto].
      * split; assumption.
      * transitivity (map (eval rho) es).
        -- apply map_ext_in. intros y Hy. eapply ext_eval; [exact Xr|apply Bes; right; exact Hy].
        -- rewrite E2'. symmetry. apply map_ext_in. intros y Hy. eapply ext_eval; [exact Xr|apply Bfs; right; exact Hy].
    + inversion H; subst. split; [exact F1|]. intros W. destruct (C1 W) as [W0 G1]. split; [exact W0|].
      intros rho Re Rf Ok_ E. inversion Re; subst. inversion Rf; subst. simpl in E. inversion E. apply (G1 rho); auto.
Qed.

(** the theorem for the way the library calls it: from the empty substitution *)
Theorem unify_complete_nowarn fuel es fs next b st' :
  length es = length fs ->
  (forall x, In x (es ++ fs) -> below next x) ->
  unify_list fuel es fs (ustate0 next) = Ok (b, st') -> us_warn st' = false ->
  forall rho, Forall (inrange rho) es -> Forall (inrange rho) fs -> map (eval rho) es = map (eval rho) fs ->
    if b then exists rho', extends_to next rho rho' /\ inr_s rho' (us_subst st') /\ models rho' (us_subst st')
    else False.
Proof.
  intros Hlen B H W rho Re Rf E.
  destruct (unify_list_complete_gen fuel es fs (ustate0 next) b st' Hlen) as [_ C]; try exact H.
  - intros x Hx. apply B. apply in_or_app. left. exact Hx.
  - intros x Hx. apply B. apply in_or_app. right. exact Hx.
  - intros k T [].
  - destruct (C W) as [_ G]. apply (G rho Re Rf); [|exact E]. split; constructor.
Qed.

(** a split, a fresh variable, a failure on two different injections *)
Example unify_complete_nowarn_ex :
  let es := [Prod [Phys 1 2; Phys 2 3]; Sum 0 (Phys 3 2) 3] in
  let fs := [Phys 4 6; Sum 0 (Phys 5 2) 3] in
  let gs := [Phys 4 6; Sum 2 (Phys 5 3) 0] in
  (exists st', unify_list 20 es fs (ustate0 10) = Ok (true, st') /\ us_warn st' = false) /\
  (exists st', unify_list 20 es gs (ustate0 10) = Ok (false, st') /\ us_warn st' = false).
Proof. split; eexists; split; reflexivity. Qed.
