(** C02, part 4: control flow.  (a) when does [sum_products] raise ValueError: exactly for
    method="linear" on a component with a rule that has two or more component edges
    ([expect_value_error]); the newton -> linear downgrade never raises.  (b) the loop shapes of
    [fixed_point] and [newton] in fggs/sum_product.py as fuel-bounded / structurally recursive
    functions over an abstract state, and when they warn. *)
From Coq Require Import List Arith Bool PeanoNat Lia.
Import ListNotations.
Require Import Fggs.Model.SCC Fggs.Model.SumProduct Fggs.Model.Kleene.

(** * (a) ValueError *)
(** the edges of a rule whose label belongs to the component being solved *)
Definition comp_edges (comp : list nat) (r : rule) : list (nat * list nat) :=
  filter (fun ed => mem comp (fst ed)) (r_edges r).

Section MaxRhs.
Variable (G : grammar) (comp0 : list nat).
Let len (r : rule) := length (comp_edges comp0 r).
Let inner (m n : nat) := fold_left (fun m r => Nat.max m (len r)) (rules_of G n) m.

Lemma fold_max_ge_init (l : list rule) m : m <= fold_left (fun m r => Nat.max m (len r)) l m.
Proof. revert m. induction l as [|r l IH]; intros m; cbn [fold_left]; [lia|]. specialize (IH (Nat.max m (len r))). lia. Qed.

Lemma fold_max_ge_in (l : list rule) m r : In r l -> len r <= fold_left (fun m r => Nat.max m (len r)) l m.
Proof.
  revert m. induction l as [|r' l IH]; intros m Hin; [destruct Hin|]. cbn [fold_left].
  destruct Hin as [->|Hin]; [|apply IH; exact Hin].
  pose proof (fold_max_ge_init l (Nat.max m (len r))). lia.
Qed.

Lemma fold_max_le (l : list rule) m b :
  m <= b -> (forall r, In r l -> len r <= b) -> fold_left (fun m r => Nat.max m (len r)) l m <= b.
Proof.
  revert m. induction l as [|r l IH]; intros m Hm H; cbn [fold_left]; [exact Hm|].
  apply IH; [|intros r' Hr'; apply H; right; exact Hr'].
  specialize (H r (or_introl eq_refl)). lia.
Qed.

Lemma outer_ge_init (c : list nat) m : m <= fold_left inner c m.
Proof.
  revert m. induction c as [|n c IH]; intros m; cbn [fold_left]; [lia|].
  specialize (IH (inner m n)). pose proof (fold_max_ge_init (rules_of G n) m). unfold inner in *. lia.
Qed.

Lemma outer_ge_in (c : list nat) m n r : In n c -> In r (rules_of G n) -> len r <= fold_left inner c m.
Proof.
  revert m. induction c as [|n' c IH]; intros m Hn Hr; [destruct Hn|]. cbn [fold_left].
  destruct Hn as [->|Hn]; [|apply IH; assumption].
  pose proof (outer_ge_init c (inner m n)). pose proof (fold_max_ge_in (rules_of G n) m r Hr).
  unfold inner in *. lia.
Qed.

Lemma outer_le (c : list nat) m b :
  m <= b -> (forall n r, In n c -> In r (rules_of G n) -> len r <= b) -> fold_left inner c m <= b.
Proof.
  revert m. induction c as [|n c IH]; intros m Hm H; cbn [fold_left]; [exact Hm|].
  apply IH; [|intros n' r Hn' Hr; apply (H n' r); [right; exact Hn' | exact Hr]].
  unfold inner. apply fold_max_le; [exact Hm|]. intros r Hr. apply (H n r); [left; reflexivity | exact Hr].
Qed.
End MaxRhs.

(** [max_rhs G comp] is the maximum number of component edges over the rules of the component *)
Lemma max_rhs_ge G comp n r :
  In n comp -> In r (rules_of G n) -> length (comp_edges comp r) <= max_rhs G comp.
Proof. intros Hn Hr. unfold max_rhs. apply (outer_ge_in G comp comp 0 n r Hn Hr). Qed.

Lemma max_rhs_le G comp b :
  (forall n r, In n comp -> In r (rules_of G n) -> length (comp_edges comp r) <= b) -> max_rhs G comp <= b.
Proof. intros H. unfold max_rhs. apply (outer_le G comp comp 0 b); [lia | exact H]. Qed.

Lemma max_rhs_zero_iff G comp :
  max_rhs G comp = 0 <-> forall n r, In n comp -> In r (rules_of G n) -> comp_edges comp r = [].
Proof.
  split.
  - intros H n r Hn Hr. pose proof (max_rhs_ge G comp n r Hn Hr) as Hle.
    destruct (comp_edges comp r); [reflexivity | cbn in Hle; lia].
  - intros H. apply Nat.le_0_r. apply max_rhs_le. intros n r Hn Hr. rewrite (H n r Hn Hr). cbn. lia.
Qed.

Lemma linear_raises_iff G comp :
  linear_raises G comp = true <->
  exists n r, In n comp /\ In r (rules_of G n) /\ 2 <= length (comp_edges comp r).
Proof.
  unfold linear_raises. rewrite existsb_exists. split.
  - intros (n & Hn & H). apply existsb_exists in H as (r & Hr & H). apply Nat.leb_le in H.
    exists n, r. auto.
  - intros (n & r & Hn & Hr & H). exists n. split; [exact Hn|]. apply existsb_exists. exists r.
    split; [exact Hr|]. apply Nat.leb_le. exact H.
Qed.

Lemma linear_raises_max_rhs G comp : linear_raises G comp = true <-> 2 <= max_rhs G comp.
Proof.
  rewrite linear_raises_iff. split.
  - intros (n & r & Hn & Hr & H). pose proof (max_rhs_ge G comp n r Hn Hr). lia.
  - intros H. destruct (linear_raises G comp) eqn:E; [apply linear_raises_iff; exact E|].
    exfalso. assert (max_rhs G comp <= 1); [|lia].
    apply max_rhs_le. intros n r Hn Hr.
    destruct (le_lt_dec (length (comp_edges comp r)) 1) as [Hle|Hgt]; [exact Hle|].
    assert (linear_raises G comp = true) as E'; [|congruence].
    apply linear_raises_iff. exists n, r. auto.
Qed.

(** the component is evaluated in one step (no iteration): a single nonterminal none of whose
    rules mentions it *)
Definition one_step (G : grammar) (comp : list nat) : Prop := length comp = 1 /\ max_rhs G comp = 0.

Lemma comp_method_3_iff G meth comp : meth <> 3 -> (comp_method G meth comp = 3 <-> one_step G comp).
Proof.
  intros Hm. unfold comp_method, one_step.
  destruct ((length comp =? 1) && (max_rhs G comp =? 0)) eqn:E.
  - apply andb_true_iff in E as [E1 E2]. apply Nat.eqb_eq in E1. apply Nat.eqb_eq in E2. tauto.
  - split.
    + destruct ((max_rhs G comp =? 1) && (meth =? 1)); intros H; [discriminate | congruence].
    + intros [E1 E2]. rewrite E1, E2 in E. discriminate.
Qed.

(** newton is downgraded to linear only on linearly recursive components: that call never raises *)
Theorem newton_downgrade_never_raises G comp :
  comp_method G 1 comp = 2 -> linear_raises G comp = false.
Proof.
  unfold comp_method. intros H.
  destruct ((length comp =? 1) && (max_rhs G comp =? 0)); [discriminate|].
  destruct (max_rhs G comp =? 1) eqn:E; cbn in H; [|discriminate].
  apply Nat.eqb_eq in E. destruct (linear_raises G comp) eqn:E'; [|reflexivity].
  apply linear_raises_max_rhs in E'. lia.
Qed.

(** ValueError is expected iff the user asked for method="linear" (tag 2) and some component in
    the evaluation order is not one-step and has a rule with >= 2 component edges *)
Theorem expect_value_error_iff G meth order :
  expect_value_error G meth order = true <->
  meth = 2 /\ exists comp, In comp order /\ ~ one_step G comp
                           /\ exists n r, In n comp /\ In r (rules_of G n) /\ 2 <= length (comp_edges comp r).
Proof.
  unfold expect_value_error. rewrite existsb_exists. split.
  - intros (comp & Hc & H). apply andb_true_iff in H as [Hm Hl]. apply Nat.eqb_eq in Hm.
    pose proof Hl as Hl2. apply linear_raises_max_rhs in Hl2. apply linear_raises_iff in Hl.
    assert (Hns : ~ one_step G comp) by (intros [_ H0]; lia).
    assert (meth = 2) as ->.
    { unfold comp_method in Hm.
      destruct ((length comp =? 1) && (max_rhs G comp =? 0)); [discriminate|].
      destruct (max_rhs G comp =? 1) eqn:E; [apply Nat.eqb_eq in E; lia|]. cbn in Hm. exact Hm. }
    split; [reflexivity|]. exists comp. auto.
  - intros (-> & comp & Hc & Hns & Hl). exists comp. split; [exact Hc|].
    apply andb_true_iff. split; [|apply linear_raises_iff; exact Hl].
    apply Nat.eqb_eq. unfold comp_method.
    destruct ((length comp =? 1) && (max_rhs G comp =? 0)) eqn:E.
    + exfalso. apply Hns. apply andb_true_iff in E as [E1 E2].
      apply Nat.eqb_eq in E1. apply Nat.eqb_eq in E2. split; assumption.
    + rewrite andb_false_r. reflexivity.
Qed.

(** "not one-step" is implied by the rule with two component edges *)
Corollary expect_value_error_iff' G meth order :
  expect_value_error G meth order = true <->
  meth = 2 /\ exists comp n r, In comp order /\ In n comp /\ In r (rules_of G n) /\ 2 <= length (comp_edges comp r).
Proof.
  rewrite expect_value_error_iff. split.
  - intros (Hm & comp & Hc & _ & n & r & H). split; [exact Hm|]. exists comp, n, r. tauto.
  - intros (Hm & comp & n & r & Hc & Hn & Hr & H). split; [exact Hm|]. exists comp. split; [exact Hc|].
    split; [|exists n, r; auto].
    intros [_ H0]. pose proof (max_rhs_ge G comp n r Hn Hr). lia.
Qed.

(** * (b) loop shapes *)
(** [iter n f x] = f (f (... x)), n times *)
Fixpoint iter {A : Type} (n : nat) (f : A -> A) (x : A) : A :=
  match n with 0 => x | S n => f (iter n f x) end.

Section Loops.
Context {A : Type}.

(** ** fixed_point:
      k, x1 = 0, F(x0)
      while not x0.shouldStop(x1, tol) and k <= kmax:  x0 := x1; x1 := F(x1); k += 1
      if k > kmax: warn                                                              *)
Section FixedPoint.
Variables (F : A -> A) (close : A -> A -> bool) (kmax : nat).

Fixpoint fp_while (fuel k : nat) (x0 x1 : A) : option (nat * A * A) :=
  if negb (close x0 x1) && (k <=? kmax)
  then match fuel with 0 => None | S fuel => fp_while fuel (S k) x1 (F x1) end
  else Some (k, x0, x1).

(** result: (x0, x1, warned); [None] = out of fuel (never happens, see [fixed_point_loop_total]) *)
Definition fixed_point_loop (x0 : A) : option (A * A * bool) :=
  match fp_while (kmax + 2) 0 x0 (F x0) with
  | Some (k, y0, y1) => Some (y0, y1, kmax <? k)
  | None => None
  end.

(** the i-th stopping test compares the i-th and (i+1)-st iterate *)
Definition fp_test (x : A) (i : nat) : bool := close (iter i F x) (iter (S i) F x).

Lemma fp_while_spec x fuel k :
  kmax + 2 <= fuel + k -> k <= kmax + 1 ->
  exists k', fp_while fuel k (iter k F x) (iter (S k) F x)
             = Some (k', iter k' F x, iter (S k') F x)
             /\ k <= k' <= kmax + 1
             /\ (forall j, k <= j < k' -> fp_test x j = false)
             /\ (k' <= kmax -> fp_test x k' = true).
Proof.
  revert k. induction fuel as [|fuel IH]; intros k Hf Hk; [lia|].
  cbn [fp_while].
  destruct (negb (close (iter k F x) (iter (S k) F x)) && (k <=? kmax)) eqn:E.
  - apply andb_true_iff in E as [E1 E2]. apply negb_true_iff in E1. apply Nat.leb_le in E2.
    destruct (IH (S k)) as (k' & Hw & Hk' & Hfail & Hstop); [lia | lia |].
    exists k'. split; [exact Hw|]. split; [lia|]. split; [|exact Hstop].
    intros j Hj. destruct (Nat.eq_dec j k) as [->|Hne]; [exact E1 | apply Hfail; lia].
  - exists k. split; [reflexivity|]. split; [lia|]. split; [intros j Hj; lia|].
    intros Hle. apply andb_false_iff in E as [E|E].
    + apply negb_false_iff in E. exact E.
    + apply Nat.leb_gt in E. lia.
Qed.

Theorem fixed_point_loop_spec x :
  exists k', fixed_point_loop x = Some (iter k' F x, iter (S k') F x, kmax <? k')
             /\ k' <= kmax + 1
             /\ (forall j, j < k' -> fp_test x j = false)
             /\ (k' <= kmax -> fp_test x k' = true).
Proof.
  destruct (fp_while_spec x (kmax + 2) 0) as (k' & Hw & Hk' & Hfail & Hstop); [lia | lia |].
  exists k'. unfold fixed_point_loop. cbn [iter] in Hw. rewrite Hw.
  split; [reflexivity|]. split; [lia|]. split; [intros j Hj; apply Hfail; lia | exact Hstop].
Qed.

(** the fuel kmax + 2 always suffices *)
Corollary fixed_point_loop_total x : exists r, fixed_point_loop x = Some r.
Proof. destruct (fixed_point_loop_spec x) as (k' & H & _). eauto. Qed.

(** it warns iff the first kmax + 1 stopping tests all fail *)
Theorem fixed_point_loop_warns_iff x y0 y1 warned :
  fixed_point_loop x = Some (y0, y1, warned) ->
  (warned = true <-> forall i, i <= kmax -> fp_test x i = false).
Proof.
  destruct (fixed_point_loop_spec x) as (k' & H & Hk' & Hfail & Hstop).
  rewrite H. intros E. injection E as _ _ <-. rewrite Nat.ltb_lt. split.
  - intros Hlt i Hi. apply Hfail. lia.
  - intros Hall. destruct (le_lt_dec k' kmax) as [Hle|Hgt]; [|exact Hgt].
    rewrite (Hall k' Hle) in Hstop. specialize (Hstop Hle). discriminate.
Qed.

(** when it does not warn, the stopping criterion holds for the returned pair of consecutive iterates *)
Theorem fixed_point_loop_quiet x y0 y1 :
  fixed_point_loop x = Some (y0, y1, false) ->
  close y0 y1 = true /\ y1 = F y0 /\ exists k, k <= kmax /\ y0 = iter k F x.
Proof.
  destruct (fixed_point_loop_spec x) as (k' & H & Hk' & Hfail & Hstop).
  rewrite H. intros E. injection E as <- <- Hw. apply Nat.ltb_ge in Hw.
  split; [apply (Hstop Hw)|]. split; [reflexivity|]. exists k'. auto.
Qed.
End FixedPoint.

(** ** newton (after the F3 repair):
      for k in range(kmax):  ...body...;  if stop: break
      else: warn                                                   *)
Section Newton.
(** one iteration: new state and the value of [stop] computed from the old state *)
Variable (body : A -> A * bool).

Fixpoint newton_for (n : nat) (x : A) : A * bool :=
  match n with
  | 0 => (x, true)                       (* range exhausted: the for-else branch warns *)
  | S n => let (x', stop) := body x in if stop then (x', false) else newton_for n x'
  end.
(** result: (final state, warned) *)
Definition newton_loop (kmax : nat) (x : A) : A * bool := newton_for kmax x.

Definition nstate (x : A) (i : nat) : A := iter i (fun y => fst (body y)) x.
Definition nstop (x : A) (i : nat) : bool := snd (body (nstate x i)).

Lemma iter_shift (f : A -> A) n x : iter n f (f x) = f (iter n f x).
Proof. induction n as [|n IH]; cbn [iter]; [reflexivity | rewrite IH; reflexivity]. Qed.

Lemma nstate_S x i : nstate (fst (body x)) i = nstate x (S i).
Proof. unfold nstate. cbn [iter]. apply (iter_shift (fun y => fst (body y))). Qed.

Theorem newton_loop_warns_iff kmax x :
  snd (newton_loop kmax x) = true <-> forall i, i < kmax -> nstop x i = false.
Proof.
  unfold newton_loop. revert x. induction kmax as [|n IH]; intros x; cbn [newton_for].
  - cbn. split; [intros _ i Hi; lia | reflexivity].
  - destruct (body x) as [x' stop] eqn:E. destruct stop.
    + cbn [snd]. split; [discriminate|]. intros H. specialize (H 0 (Nat.lt_0_succ n)).
      unfold nstop, nstate in H. cbn [iter] in H. rewrite E in H. cbn in H. discriminate H.
    + rewrite IH. assert (Hx' : x' = fst (body x)) by (rewrite E; reflexivity). split.
      * intros H [|i] Hi.
        -- unfold nstop, nstate. cbn [iter]. rewrite E. reflexivity.
        -- unfold nstop. rewrite <- nstate_S, <- Hx'. apply H. lia.
      * intros H i Hi. specialize (H (S i)). unfold nstop in H. rewrite <- nstate_S, <- Hx' in H. apply H. lia.
Qed.

(** when it does not warn, some iteration's stop test succeeded and the loop ended right there *)
Theorem newton_loop_quiet kmax x :
  snd (newton_loop kmax x) = false ->
  exists i, i < kmax /\ nstop x i = true /\ (forall j, j < i -> nstop x j = false)
            /\ fst (newton_loop kmax x) = nstate x (S i).
Proof.
  unfold newton_loop. revert x. induction kmax as [|n IH]; intros x; cbn [newton_for].
  - cbn. discriminate.
  - destruct (body x) as [x' stop] eqn:E. destruct stop.
    + intros _. exists 0. split; [lia|].
      unfold nstop, nstate. cbn [iter fst]. rewrite E. cbn [fst snd].
      split; [reflexivity|]. split; [intros j Hj; lia | reflexivity].
    + intros H. destruct (IH x' H) as (i & Hi & Hs & Hf & Hr).
      assert (Hx' : x' = fst (body x)) by (rewrite E; reflexivity).
      exists (S i). split; [lia|]. unfold nstop in *. rewrite <- (nstate_S x i), <- (nstate_S x (S i)), <- Hx'.
      split; [exact Hs|]. split; [|exact Hr].
      intros [|j] Hj.
      * unfold nstate. cbn [iter]. rewrite E. reflexivity.
      * rewrite <- nstate_S, <- Hx'. apply Hf. lia.
Qed.

(** ** newton before the repair:
      for k in range(kmax):  ...body...;  if stop: break
      if k > kmax: warn
    [k] is the loop variable after the loop: the last value taken, or unbound (kmax = 0:
    Python raises UnboundLocalError, modelled as [None] -- an error, not a warning) *)
Fixpoint newton_for_old (ks : list nat) (lastk : option nat) (x : A) : A * option nat :=
  match ks with
  | [] => (x, lastk)
  | k :: ks => let (x', stop) := body x in
               if stop then (x', Some k) else newton_for_old ks (Some k) x'
  end.
(** result: (final state, Some warned | None = UnboundLocalError) *)
Definition newton_loop_old (kmax : nat) (x : A) : A * option bool :=
  let (x', lk) := newton_for_old (seq 0 kmax) None x in
  (x', match lk with Some k => Some (kmax <? k) | None => None end).

Lemma newton_for_old_lastk ks lastk x k :
  snd (newton_for_old ks lastk x) = Some k -> In k ks \/ lastk = Some k.
Proof.
  revert lastk x. induction ks as [|k0 ks IH]; intros lastk x; cbn [newton_for_old].
  - cbn. auto.
  - destruct (body x) as [x' stop]. destruct stop.
    + cbn. intros H. injection H as ->. left. left. reflexivity.
    + intros H. destruct (IH _ _ H) as [Hin|Hl]; [left; right; exact Hin|].
      injection Hl as ->. left. left. reflexivity.
Qed.

(** F3: the pre-repair loop can never warn, whatever the body does *)
Theorem newton_old_never_warns kmax x : snd (newton_loop_old kmax x) <> Some true.
Proof.
  unfold newton_loop_old.
  destruct (newton_for_old (seq 0 kmax) None x) as [x' lk] eqn:E. cbn [snd].
  destruct lk as [k|]; [|discriminate].
  assert (H : snd (newton_for_old (seq 0 kmax) None x) = Some k) by (rewrite E; reflexivity).
  apply newton_for_old_lastk in H as [H|H]; [|discriminate].
  apply in_seq in H. intros H'. injection H' as H'. apply Nat.ltb_lt in H'. lia.
Qed.

(** both shapes compute the same final state; they differ only in the warning *)
Lemma newton_for_old_state ks lastk x : fst (newton_for_old ks lastk x) = fst (newton_for (length ks) x).
Proof.
  revert lastk x. induction ks as [|k ks IH]; intros lastk x; cbn [newton_for_old newton_for length]; [reflexivity|].
  destruct (body x) as [x' stop]. destruct stop; [reflexivity | apply IH].
Qed.

Theorem newton_old_same_state kmax x : fst (newton_loop_old kmax x) = fst (newton_loop kmax x).
Proof.
  unfold newton_loop_old, newton_loop.
  pose proof (newton_for_old_state (seq 0 kmax) None x) as H. rewrite seq_length in H.
  destruct (newton_for_old (seq 0 kmax) None x) as [x' lk]. exact H.
Qed.
End Newton.
End Loops.

(** the instances [must_warn] unrolls: budget 1 and 2 for fixed_point, budget 1 for newton *)
Corollary fixed_point_loop_warns_kmax1 {A} (F : A -> A) close x y0 y1 warned :
  fixed_point_loop F close 1 x = Some (y0, y1, warned) ->
  warned = negb (close x (F x)) && negb (close (F x) (F (F x))).
Proof.
  intros H. pose proof (fixed_point_loop_warns_iff F close 1 x y0 y1 warned H) as Hw.
  destruct (close x (F x)) eqn:E0; destruct (close (F x) (F (F x))) eqn:E1; cbn [negb andb];
    destruct warned; try reflexivity; exfalso.
  all: try (destruct Hw as [Hw _]; specialize (Hw eq_refl)).
  all: try (pose proof (Hw 0 (Nat.le_0_l _)) as H0; unfold fp_test in H0; cbn [iter] in H0; congruence).
  all: try (pose proof (Hw 1 (Nat.le_refl _)) as H1; unfold fp_test in H1; cbn [iter] in H1; congruence).
  destruct Hw as [_ Hw]. assert (false = true); [|discriminate]. apply Hw.
  intros [|[|i]] Hi; unfold fp_test; cbn [iter]; [exact E0 | exact E1 | lia].
Qed.

Corollary newton_loop_warns_kmax1 {A} (body : A -> A * bool) x :
  snd (newton_loop body 1 x) = negb (snd (body x)).
Proof. unfold newton_loop. cbn [newton_for]. destruct (body x) as [x' stop]. destruct stop; reflexivity. Qed.

(** a concrete witness of F3: a body that never stops, budget 1 -- the repaired loop warns,
    the old one returns the same state silently *)
Example newton_old_silent_witness :
  snd (newton_loop (fun n : nat => (S n, false)) 1 0) = true
  /\ snd (newton_loop_old (fun n : nat => (S n, false)) 1 0) = Some false
  /\ fst (newton_loop_old (fun n : nat => (S n, false)) 1 0) = fst (newton_loop (fun n : nat => (S n, false)) 1 0).
Proof. repeat split. Qed.

(** hypotheses of the theorems above are satisfiable: a loop that stops at the third test *)
Example fixed_point_loop_example :
  fixed_point_loop (fun n => Nat.min (S n) 3) Nat.eqb 5 0 = Some (3, 3, false).
Proof. reflexivity. Qed.
Example fixed_point_loop_example_warn :
  fixed_point_loop S Nat.eqb 2 0 = Some (3, 4, true).
Proof. reflexivity. Qed.
